From FP Require Import Lexer Parser ShowPT Digest Formatter.
From Coq Require Import String List NArith.
Import ListNotations.
Open Scope string_scope.
Set Printing Width 100000000.
Set Printing Depth 100000000.
Definition show_fres (r : fres) : string :=
  match r with
  | FOk s => "OK:" ++ sh_escaped s ""
  | FErr s => "ERR:" ++ sh_escaped s ""
  | FPanic p => "PANIC:" ++ p
  end.
Definition check (rs : list rune) : string := digest (show_fres (format_res rs)).
Definition full (rs : list rune) : string := show_fres (format_res rs).
Eval vm_compute in ("<<<M3502>>>" ++ check (runes_of_ascii "// top
options // c0a
  // c0b
{ // c1a
  // c1b
LittleEndian // c2a
  // c2b
=
    // c3
true ; // c5
StringPrefixLenType
    // c6
= u32 // c8a
  // c8b
; FixedStringPadChar
    // c10
= '0'
    // c12
; } // c14
packet Logout // c16
{ // c17a
  // c17b
repeat InMsgkind49
    // c19
{
    // c20
u8 // c21a
  // c21b
pad0
    // c22
, } // c24a
  // c24b
, // c25a
  // c25b
repeat // c26a
  // c26b
char[
    // c27
5
    // c28
] seqNo
    // c30
, // c31a
  // c31b
repeat u8 // c33a
  // c33b
price // c34
,
    // c35
} // c36a
  // c36b
packet // c37a
  // c37b
Party { // c39a
  // c39b
zchar[
    // c40
7 ] Qty // c43a
  // c43b
, } // c45a
  // c45b
packet // c46a
  // c46b
Logon // c47a
  // c47b
{
    // c48
repeat // c49a
  // c49b
InRef10 // c50
{
    // c51
string // c52a
  // c52b
price
    // c53
, char[]
    // c55
sym ,
    // c57
repeat Logout // c59
, // c60
} // c61a
  // c61b
,
    // c62
repeat // c63
char[ // c64a
  // c64b
3 ] count // c67
, // c68a
  // c68b
repeat // c69
Party , // c71
char[] tag7
    // c73
, // c74a
  // c74b
@rightPad ( // c76a
  // c76b
'0'
    // c77
)
    // c78
char[ 2
    // c80
]
    // c81
clOrdID // c82
, } // c84a
  // c84b
packet // c85
Order // c86
{ // c87
InTail13 // c88a
  // c88b
{
    // c89
Party // c90a
  // c90b
, } // c92
, repeat char[
    // c95
4
    // c96
] count
    // c98
, }
    // c100
root // c101
packet
    // c102
Cancel
    // c103
{ // c104a
  // c104b
Logout , // c106
@leftPad // c107a
  // c107b
( '0' ) // c110a
  // c110b
char[ // c111
9 ] // c113
msgKind // c114a
  // c114b
,
    // c115
string // c116a
  // c116b
lastPx ,
    // c118
string // c119
tag7 // c120
, // c121a
  // c121b
zchar[ 1 ] // c124
OrderId
    // c125
, // c126a
  // c126b
repeat // c127
Party // c128a
  // c128b
,
    // c129
u16 // c130a
  // c130b
sym
    // c131
, // c132a
  // c132b
u16 // c133a
  // c133b
Acct // c134a
  // c134b
@lengthOf( Body )
    // c137
, // c138
match sym
    // c140
as // c141a
  // c141b
Body // c142a
  // c142b
{ // c143a
  // c143b
[ // c144a
  // c144b
24 , // c146
44 // c147
]
    // c148
: // c149a
  // c149b
Logout // c150a
  // c150b
, 160 // c152a
  // c152b
: // c153
Order // c154a
  // c154b
, // c155
91 // c156
:
    // c157
Logon
    // c158
,
    // c159
43
    // c160
: // c161a
  // c161b
Party // c162a
  // c162b
, }
    // c164
, // c165a
  // c165b
u16 // c166a
  // c166b
Tail @calculatedFrom( ""CRC32"" ) // c170a
  // c170b
, // c171a
  // c171b
} // c172
")).
Eval vm_compute in ("<<<M310>>>" ++ check (runes_of_ascii "root packet rootA {@calculatedFrom(
""""
)match packetx as x_y_z
{ // `tick` ""quote"" 'q'
""" ++ [28040; 24687]%N ++ runes_of_ascii """ : crc , ""a	b""
    :
i8i8, ""it's"" : msg_type
10
    :
string_,0123456789:int ,
}	,	zchar[ 0123456789
    ]
_x	`say ""hi""` , @lengthOf(	lengthOf )
repeat
    //x
    chars
{ repeat i16 u , }, i16 u @lengthOf( Pad ) `say ""hi""`
, string
    u8x @calculatedFrom(
    ""\n""
    ) //	t
`" ++ [233]%N ++ runes_of_ascii "` //x
,MetaDataX`" ++ [233]%N ++ runes_of_ascii "` , char[] Header  @lengthOf(
    //	t
    Foo )`u8 x,`, //
}
// c
// " ++ [128512]%N ++ runes_of_ascii " emoji
packet  repeatCount	{
@tag( 7
    // `tick` ""quote"" 'q'
    )
char[] x_y_z //x
`it's` , @calculatedFrom(""`tick`"" )repeat o,
    @lengthOf(
    pack )
@lengthOf( u128 ) @lengthOf(stringy	)
match zchar as MetaDataX { [ ""// no comment"",0 ] // " ++ [27880; 37322]%N ++ runes_of_ascii "
: options1
    ,
    [
    ""a	b"" ,
""`tick`""
    ,""" ++ [233]%N ++ runes_of_ascii "t" ++ [233]%N ++ runes_of_ascii """, 7
    // trailing space 
    , 0123456789
] :	string_
    , ""a\""b"" :len, ""a\\"" : MetaDataX	, }, u8x
{ repeat
chars MetaDataX
`two words`, repeat Header	len `` , pack { u16
asx @calculatedFrom(
    ""`tick`"")
    //x
    `line1
line2` , f64 string_ ,float32 zchar // " ++ [27880; 37322]%N ++ runes_of_ascii "
@lengthOf(i8i8 )
, As @lengthOf(
    //	t
    _x ) `u8 x,`, } ,int32 roots`doc` , }
    , } packet As { @lengthOf( leftPad )
@calculatedFrom(	"""" ) x_y_z
@lengthOf(
    i8i8 )	`" ++ [233]%N ++ runes_of_ascii "` , repeat float32 Z9_
    //	t
    ,// `tick` ""quote"" 'q'
pack ,
    msg_type
, // `tick` ""quote"" 'q'
@rightPad // a // b
(
'0' )
// a // b
// @lengthOf(
u16 crc ,
    @lengthOf( chars)	repeat
x`it's`
, } packet body/// triple
{@calculatedFrom(  """ ++ [28040; 24687]%N ++ runes_of_ascii """ ) T @lengthOf(
    u8x ) , @tag( 3)
    // packet A { u8 x, }
    u32
    u
//	t
// @lengthOf(
@lengthOf(
    msg_type
    // c
    )
    , @calculatedFrom(
""" ++ [128512]%N ++ runes_of_ascii """
)	repeat char[ 10] A // c
, x{ string o
, match  Pad // " ++ [27880; 37322]%N ++ runes_of_ascii "
as rootA { ""packet"" :matchKey } ,u64
x_y_z ,char[]
leftPad @lengthOf( float // @lengthOf(
)
    , /// triple
}
,
    repeat uint8x falsey	`" ++ [233]%N ++ runes_of_ascii "`, @lengthOf( Z9_ )u8 f32a , @tag( 0123456789 )
// @lengthOf(
// `tick` ""quote"" 'q'
u8 matchKey ``
, Pad trueish `say ""hi""`
    ,}
")).
Eval vm_compute in ("<<<M4306>>>" ++ check (runes_of_ascii "options

{
    rootA
=
""""BodyLength	=	0123456789 ; roots
=
	string
options1
	=' '	} 
root  packet
int {
repeat zchar[ 00 
]
    Logon

, 
repeat  uint16 
    //	t
    body`// not a comment` , @calculatedFrom( ""a\""b""
    )repeat string	MetaDataX
`a\`

    , 
string 
lengthOf	`" ++ [28040; 24687; 31867; 22411]%N ++ runes_of_ascii "`

    ,  @tag(
    3	) trueish	calculatedFrom
,  //
} root packet
i64_  {
zchar[	007
] //x
rootA
	`" ++ [28040; 24687; 31867; 22411]%N ++ runes_of_ascii "`
,@leftPad
	( 
' '
	) 
@calculatedFrom(""a\\"" )@calculatedFrom( 
    // @lengthOf(
  ""a\""b""

    )repeat f64 trueish `" ++ [233]%N ++ runes_of_ascii "`

    ,repeat

int {
    match msg_type

    as 
asx
	{ """" :
    u128
    ,	[  //
    	""1""
,

    //	t

	// trailing space 
""\" ++ [233]%N ++ runes_of_ascii """

]
:	options1 
,

    ""x y""

: 
u8x 
,""// no comment"":

BodyLength	, 
[
	7

    , ""a\""b""

    ,

    4294967296	]
    :asx , },

crc @calculatedFrom(

"""" 
)

,
// `tick` ""quote"" 'q'
	match	metadata as
lengthOf

{[4294967296,  ""a	b""
    ,

    ""packet""

    , ""// no comment"" ] 
  // a // b
: repeatCount 
	    // c
      ,

    }
// @lengthOf(
,
	u128{ crc	,
repeat

    options1  ,
uint64 BodyLength
, matchKey `
` , } ,}
, @lengthOf(
	zchar	) int8 
lengthOf`say ""hi""`, }root
packet 
pack {@calculatedFrom( 
""a	b"") 
// " ++ [27880; 37322]%N ++ runes_of_ascii "

Pad ,
    @calculatedFrom(	""packet""	)
match  u as 
leftPad  {	[
	""{,}""
	] :  // `tick` ""quote"" 'q'
      A	""{,}"":u128 [

""1"" ,
007 
] :
	a1, 
[ ""1""

] : 
Packet
	4294967296

:i8i8 ,
00 :  
      // " ++ [128512]%N ++ runes_of_ascii " emoji
    	// @lengthOf(
    	roots
    ,  
  //
  // packet A { u8 x, }
	}
,	//
char[0123456789	]calculatedFrom

`say ""hi""`, uint8 int @calculatedFrom(
	""a\\""
)	,	Packet

    pack

    ,  // c
}
")).
Eval vm_compute in ("<<<M189>>>" ++ check (runes_of_ascii "packet i64_ { match
    BodyLength as u8x {
[ 0123456789 ]: leftPad ""{,}"" :	lengthOf	,
007 :	A, [  ""a\""b"" ] :float , //x
} , @calculatedFrom( // `tick` ""quote"" 'q'
""" ++ [233]%N ++ runes_of_ascii "t" ++ [233]%N ++ runes_of_ascii """ )// a // b
body
u8x
    , packetx`say ""hi""`, // @lengthOf(
zchar[
    42 ]MetaDataX `line1
line2`
    ,
    f32 // @lengthOf(
matchKey, roots{
    // " ++ [27880; 37322]%N ++ runes_of_ascii "
    u128 @lengthOf( T ) , char[
// " ++ [128512]%N ++ runes_of_ascii " emoji
// packet A { u8 x, }
42
    ]	x_y_z	@calculatedFrom( """" ) ,repeat float64 stringy// " ++ [128512]%N ++ runes_of_ascii " emoji
`` ,
    }
,u16 // @lengthOf(
metadata
    `tab	here` ,@rightPad	( '0'
    // " ++ [128512]%N ++ runes_of_ascii " emoji
    )
@tag( 7 )
// " ++ [27880; 37322]%N ++ runes_of_ascii "
// " ++ [27880; 37322]%N ++ runes_of_ascii "
repeat uint16 // @lengthOf(
x_y_z `say ""hi""`, repeat
    roots{ // a // b
Packet {float{ repeat asx , asx
Foo
    , }
,
    }	,} ,@tag( 42 )//x
u `line1
line2` , // `tick` ""quote"" 'q'
}  packet int { } options {
    // `tick` ""quote"" 'q'
    Logon
    = ""{,}"" ; } packet	As{// packet A { u8 x, }
@calculatedFrom( // @lengthOf(
"""" ) @rightPad ( '\x00'
// " ++ [128512]%N ++ runes_of_ascii " emoji
//	t
) @leftPad (
'0' ) repeat Logon
f32a	, @lengthOf(
// a // b
// a // b
rootA ) @tag(42 )
    @lengthOf(
// " ++ [128512]%N ++ runes_of_ascii " emoji
//
u
//	t
// a // b
)repeat o u8x `u8 x,` , @tag( 7) zchar[
    //x
    42] asx @lengthOf(
    trueish ) , @lengthOf( trueish ) int16
stringy
,
zchar f32a
    `two words` , string u8x@calculatedFrom( ""\n""
    )  , _x `
` , @lengthOf( i8i8  ) i64_@lengthOf(
    uint8x )
    , uint32 rootA `it's` , }
")).
Eval vm_compute in ("<<<M4422>>>" ++ check (runes_of_ascii "// @lengthOf(
  packet
	// @lengthOf(
	  //
  	chars
{ repeat
    leftPad
{  i64_ , /// triple
}, BodyLength{ //	t
    char[

1

]_x`line1
line2`, }
,

    @calculatedFrom(
""" ++ [233]%N ++ runes_of_ascii "t" ++ [233]%N ++ runes_of_ascii """
) repeat
    zchar
    body
,

char[

65535] 
Foo

,
    repeat
	zchar[

    7 ]repeatCount
,	@lengthOf(

    Logon 
)
    @calculatedFrom(""{,}"" 
    /// triple

	// `tick` ""quote"" 'q'
	)//
		string	//x

float, u8x
,
	uint8x
@calculatedFrom(
    ""packet""  )

,

    } //x
MetaData 
T{ u16 zchar  // " ++ [128512]%N ++ runes_of_ascii " emoji
    	`tab	here`
	,
    float64 x
	,// packet A { u8 x, }
	i32
Packet  ``, 	 // `tick` ""quote"" 'q'
	  zchar[  255
    //
    /// triple
  ]
crc
        // a // b
  , calculatedFrom

u128
,zchar[ 
1 
/// triple
    	// a // b
  ] metadata  `
`
, 
}
	packet
	uint8x  {
Header{ 
uint16

    metadata  @lengthOf( MetaDataX  )
	`line1
line2` , }  //x
    , 
    // " ++ [27880; 37322]%N ++ runes_of_ascii "
// @lengthOf(
		metadata
repeatCount,
    repeat  x_y_z
, chars

    A	, packetx
@calculatedFrom( 

// a // b
    ""a\\""

    )
    `` ,  char[  007  ]a1
    @lengthOf(
	A
)

`" ++ [28040; 24687; 31867; 22411]%N ++ runes_of_ascii "`, /// triple

}
	options
{	matchKey = 
float32  ; 
}  packet f32a {
@lengthOf( 
repeatCount
) 	 // @lengthOf(
    @tag(
42
) 	 // `tick` ""quote"" 'q'

	float32 u128
,
}

")).
Eval vm_compute in ("<<<M275>>>" ++ check (runes_of_ascii "options { u =""a\""b""
//	t
//
;
    Z9_ =""// no comment"" ; tag
    // " ++ [27880; 37322]%N ++ runes_of_ascii "
    =7 } root packet
    // trailing space 
    As { }
packet Header { @lengthOf(
    Foo )  rootA
@calculatedFrom( ""\" ++ [233]%N ++ runes_of_ascii """ ) , @calculatedFrom( ""CRC32""// a // b
)
    float64 crc
,  repeat char[ // packet A { u8 x, }
007
] Logon , //
@tag( 7
    )
//
// c
@calculatedFrom( ""{,}"" ) @lengthOf( stringy
) match //	t
A as
// " ++ [128512]%N ++ runes_of_ascii " emoji
// `tick` ""quote"" 'q'
f32a {
    // `tick` ""quote"" 'q'
    [""a\\""
,	1 , ""CRC32"" , 007 ,	""a	b"" , ""\" ++ [233]%N ++ runes_of_ascii """ ] :trueish, 4294967296
    :
// c
//x
u8x ,//
}  ,
@tag(
255 ) @lengthOf( u8x
    )
@calculatedFrom( ""x y""
    ) pack { uint16 uint8x
    ,
    }
, match
leftPad as
asx {""{,}"" : T 007
    //	t
    : // @lengthOf(
_x
    1  : options1
,
    [ 42	,007]// a // b
:calculatedFrom
, """ ++ [233]%N ++ runes_of_ascii "t" ++ [233]%N ++ runes_of_ascii """ :
    lengthOf } ,
    u8x {int64 charz
`line1
line2`,
} , repeat
    //x
    Header BodyLength `
`  ,
@rightPad  ( // `tick` ""quote"" 'q'
'\x00' ) @lengthOf( tag )
    match o // trailing space 
as
    uint8x {
[ 255 ] :
_x ,1 :
    matchKey ,
// " ++ [128512]%N ++ runes_of_ascii " emoji
//x
65535
:
// c
// @lengthOf(
tag
,  0123456789: zchar,
""a\\"" :metadata
    ,
    }	, }
")).
Eval vm_compute in ("<<<M1115>>>" ++ check (runes_of_ascii "packet tag { zchar[
65535]
    T
, match
    i64_
    as chars { 007 :asx	,
    [ ""a\""b""
,  ""a\""b"" ,
    7 // a // b
,0,
    ""\" ++ [233]%N ++ runes_of_ascii """ , ""abc"", ""x y"" // trailing space 
, 0
] : u8x 7
    :// c
leftPad 7
    : body
    , ""`tick`""
:// `tick` ""quote"" 'q'
lengthOf ,} ,
@leftPad(
)
@rightPad(
)
repeat
    //
    i64_ charz
, repeat //	t
charz u8x ,  repeat float32 uint8x , } packet falsey { } packet // trailing space 
Z9_ { repeat u { int32 i8i8 , // " ++ [128512]%N ++ runes_of_ascii " emoji
repeat BodyLength { match string_ as charz{""\" ++ [233]%N ++ runes_of_ascii """
//
/// triple
:  As}, //x
i64_
    @calculatedFrom( ""packet"" ) ,} ,
    //x
    } ,asx {//x
char[4294967296]
    pack , // @lengthOf(
}, @rightPad ( '0'
)
falsey repeatCount
// c
// " ++ [27880; 37322]%N ++ runes_of_ascii "
,
    @tag(
    // packet A { u8 x, }
    0	)uint16 chars `" ++ [233]%N ++ runes_of_ascii "`
,
x@lengthOf( asx
/// triple
// a // b
) `line1
line2`, repeat options1
a1 ,
    @tag(
    // @lengthOf(
    42
/// triple
// packet A { u8 x, }
)	@leftPad
    ( '\x00')match T as x { [ ""a\\"" ] : falsey
} // `tick` ""quote"" 'q'
, x ,
trueish i8i8
,}
MetaData T
{ MetaDataX i8i8 `it's` ,
    } // `tick` ""quote"" 'q'")).
Eval vm_compute in ("<<<M1326>>>" ++ check (runes_of_ascii "MetaData
// " ++ [128512]%N ++ runes_of_ascii " emoji
// trailing space 
o { char[
255 ] // @lengthOf(
BodyLength, } packet
    crc
    { @tag( 7 ) calculatedFrom @lengthOf(Header ) ,
    len
{ float {  i32 T, stringy string_
    // c
    , char[ // " ++ [27880; 37322]%N ++ runes_of_ascii "
65535 ] Packet
@lengthOf( a1 ) ``
    , falsey {	u16 Logon  `{ , }` , } ,	}
, repeat /// triple
falsey , repeat u8 Logon,} , zchar[ 65535] lengthOf @lengthOf(
asx  )`line1
line2` , @rightPad ('0'
    ) int16 f32a ,@rightPad ( // packet A { u8 x, }
'\x00' )char[]
len
    // packet A { u8 x, }
    `" ++ [28040; 24687; 31867; 22411]%N ++ runes_of_ascii "`, match string_ as string_
    /// triple
    { [ ""a\\"" ,
10 , 007 ,//	t
0123456789]	:As
, [ ""`tick`"" ] : //
metadata	, ""\n"" :
falsey,// `tick` ""quote"" 'q'
[
3 , // " ++ [27880; 37322]%N ++ runes_of_ascii "
""" ++ [233]%N ++ runes_of_ascii "t" ++ [233]%N ++ runes_of_ascii """ , //	t
""CRC32"" ]
    : lengthOf ,00 :	x_y_z ,  }  , packetx{
    repeat a1 `it's`// packet A { u8 x, }
,stringy
`{ , }`
    ,match
    T as
MetaDataX// @lengthOf(
{ ""CRC32""
:	lengthOf
    } , } ,	} MetaData  tag  { //x
}
packet Z9_ {  i16
rootA
// packet A { u8 x, }
// @lengthOf(
`
`// " ++ [27880; 37322]%N ++ runes_of_ascii "
, //	t
}")).
Eval vm_compute in ("<<<M502>>>" ++ check (runes_of_ascii "  root packet  roots { @tag(
    0123456789) repeat As msg_type ,
    roots
@calculatedFrom(	""abc""),@rightPad (
)// " ++ [27880; 37322]%N ++ runes_of_ascii "
Pad {  int32
rootA@calculatedFrom(// c
""1"" )
, repeat int
    float `say ""hi""`
    ,// c
zchar[
    65535 ]  i8i8 @calculatedFrom(""a\\""	)// c
,
    } , // `tick` ""quote"" 'q'
@calculatedFrom(
    ""1"" // `tick` ""quote"" 'q'
)
i8i8 @lengthOf( x),@tag(7 )
    match T as repeatCount
{ ""a\\"" :
o [//
""""
, // @lengthOf(
""it's""
]	:
    i64_ , 10 :
    trueish , }// @lengthOf(
,
    Z9_
, // a // b
@calculatedFrom(
"""" ) @leftPad  (' ' )  f32 zchar @lengthOf( charz ) , @leftPad
// " ++ [27880; 37322]%N ++ runes_of_ascii "
// c
(
    ) falsey @lengthOf(
BodyLength )
    ,
// a // b
// " ++ [27880; 37322]%N ++ runes_of_ascii "
} packet
    leftPad { // trailing space 
u8 //x
msg_type@calculatedFrom(""packet"")
`u8 x,`
    , @lengthOf( chars ) char[]  Packet
, //
@leftPad
('0' ) int64 As ,
    char[]  Packet
// packet A { u8 x, }
//
, // a // b
@calculatedFrom(  ""\n"" ) x @calculatedFrom( ""\n""
    ) , // `tick` ""quote"" 'q'
}")).
Eval vm_compute in ("<<<M3908>>>" ++ check (runes_of_ascii "packet body {
    match u as f32a {
        ""// no comment"" : float,
    },
    // trailing space 
    float32 int,
    char[] tag `u8 x,`,
    @lengthOf(body)
    repeat i64_ crc,
    @leftPad('0')
    float64 zchar,// packet A { u8 x, }
    @lengthOf(A)
    @leftPad()
    @lengthOf(int)
    //
    crc @calculatedFrom(""1""),
}

root packet body {
    @lengthOf(T)
    repeat u128 `line1
    line2`,
    string BodyLength,
    @calculatedFrom(""x y"")
    char[] zchar @calculatedFrom(""a\""b"") `" ++ [28040; 24687; 31867; 22411]%N ++ runes_of_ascii "`,
    falsey trueish,/// triple
    @rightPad('\x00')
    @lengthOf(As)
    @tag(4294967296)
    repeat char[] uint8x,
    packetx,
    @tag(7)
    //
    i64 roots @calculatedFrom(""" ++ [233]%N ++ runes_of_ascii "t" ++ [233]%N ++ runes_of_ascii """) `// not a comment`,
    @calculatedFrom(""x y"")
    /// triple
    f64 float @lengthOf(Packet),
    @tag(4294967296)
    u32 lengthOf @calculatedFrom(""\" ++ [233]%N ++ runes_of_ascii """),
    @tag(10)
    Foo,
}

packet leftPad {
}

options {
    i8i8 = zchar[7]
}")).
Eval vm_compute in ("<<<M3611>>>" ++ check (runes_of_ascii "packet int {
    @tag(7)
    BodyLength {
        // @lengthOf(
        float32 f32a,
        char[255] u8x @lengthOf(Z9_) `line1
        line2`,
        repeat char[65535] tag `" ++ [233]%N ++ runes_of_ascii "`,
        match Header as int {
            """ ++ [128512]%N ++ runes_of_ascii """ : body,
            [
                00, 4294967296, 255, """ ++ [233]%N ++ runes_of_ascii "t" ++ [233]%N ++ runes_of_ascii """, """ ++ [128512]%N ++ runes_of_ascii """,
                ""packet""
            ] : int,
            [0, ""a	b""] : Z9_,
            [65535] : tag,
            /// triple
            """ ++ [233]%N ++ runes_of_ascii "t" ++ [233]%N ++ runes_of_ascii """ : options1,
        },
    },
    zchar[255] MetaDataX @lengthOf(Z9_) `crlf
    line`,
    stringy {
        repeat string A,// packet A { u8 x, }
        crc {
            zchar[1] uint8x,
        },
        uint16 Packet @calculatedFrom(""a	b""),
        len @calculatedFrom(""a	b"") `two words`,
    },
    zchar[255] As ``,
    i16 calculatedFrom,
    @tag(42)
    repeat x_y_z `two words`,
    uint8 lengthOf,
    @tag(0)
    u128,
}")).
Eval vm_compute in ("<<<M3518>>>" ++ check (runes_of_ascii "  options

{ 
LittleEndian

    = true	; StringPrefixLenType=  u64 ; ArrayPrefixLenType
=u8 ;
FixedStringPadChar
    ='0'

    ;

} packet
Reject

    {
    i32 
Ref
    ,
repeat 
f64 OrderId

    ,
repeat 
InNote12{ 
u8
pad0
,  } ,
	@leftPad  (
' '

    )
char[6] count
	,
}

packet
	Logout { zchar[	6 ]
Tail ,repeat  string  venue, 
}
packet

Cancel  {  u64 count, repeat char[ 5
] 
lastPx
,i64
    Tail ,

repeat InF140
    {

repeat

    Logout ,  repeat
Reject ,

}, }root packet

    Trade 
{ repeat InMsgkind39 { repeat Reject
	,

char[  4
]
Px  ,} ,
    string
Acct  ,  uint16  price	,f32
OrderId

,
u16

x

,	u16 clOrdID @lengthOf(  Body )

    , match
x
    as 
Body{
    178

:Logout
,  13	: Cancel

    ,
174	:Reject  ,
} ,

    u16 
Flags

    @calculatedFrom(

    ""CRC32"")
	,}

")).
Eval vm_compute in ("<<<M4365>>>" ++ check (runes_of_ascii "MetaData As {
    roots repeatCount,
    char trueish,
    zchar[255] u128 `crlf
        line`,
    char[] int,
    asx u128 `say ""hi""`,
    i32 packetx,
}

options {
    A = false;
    packetx = char[0]
    A = true
    crc = 1;
    calculatedFrom = """ ++ [233]%N ++ runes_of_ascii "t" ++ [233]%N ++ runes_of_ascii """
}

MetaData i8i8 {
}

packet len {
    @tag(00)
    // packet A { u8 x, }
    uint64 stringy @lengthOf(x_y_z),
}

packet rootA {
    @lengthOf(zchar)
    char _x @lengthOf(x_y_z),//	t
    string_ @calculatedFrom(""" ++ [233]%N ++ runes_of_ascii "t" ++ [233]%N ++ runes_of_ascii """),// " ++ [128512]%N ++ runes_of_ascii " emoji
    @lengthOf(A)
    x_y_z {
        Pad,
        match trueish as u8x {
            4294967296 : u,
            3 : int,
            00 : u8x,
            [
                0, 3, 0123456789, ""{,}"", ""a	b"",
                ""a\""b""
            ] : body,
            65535 : T,
        },
    },
    i32 chars,
}")).
Eval vm_compute in ("<<<M706>>>" ++ check (runes_of_ascii "root packet msg_type
{ rootA @lengthOf( Header )
//
// `tick` ""quote"" 'q'
, @leftPad
    (
    ) @rightPad ( '\x00' )@lengthOf(
/// triple
// " ++ [27880; 37322]%N ++ runes_of_ascii "
asx // trailing space 
)	Packet @lengthOf(
zchar	) , @tag(	255) Header `" ++ [28040; 24687; 31867; 22411]%N ++ runes_of_ascii "` ,// @lengthOf(
len @lengthOf( chars
    )
    // c
    `crlf
line`	, x { _x Pad
`tab	here` , string msg_type /// triple
`tab	here`
,
calculatedFrom
    {u128 { repeat zchar[ 255 ]Pad  , }
, }
    // c
    , falsey/// triple
@calculatedFrom( """ ++ [28040; 24687]%N ++ runes_of_ascii """ ) ,} ,
int16	rootA
    ,repeat options1 { repeat char[ 00
    ] tag,string
string_ @calculatedFrom( ""a\\"" ),repeat falsey
    `a\` ,} ,@lengthOf( u8x )zchar `` ,char[
65535
    ] metadata `tab	here` ,@lengthOf( crc ) repeat
/// triple
//x
f64
    charz `a\` ,
    }
// @lengthOf(
")).
Eval vm_compute in ("<<<M3265>>>" ++ check (runes_of_ascii "// top
options // c0
{
    // c1
chars // c2a
  // c2b
= ""a\\"" // c4a
  // c4b
} // c5a
  // c5b
packet
    // c6
Z9_ // c7a
  // c7b
{ // c8a
  // c8b
match // c9
BodyLength
    // c10
as roots
    // c12
{ """ ++ [28040; 24687]%N ++ runes_of_ascii """ // c14a
  // c14b
: falsey
    // c16
,
    // c17
00
    // c18
: u128 // c20a
  // c20b
0
    // c21
:
    // c22
len , // c24a
  // c24b
007 // c25
:
    // c26
f32a }
    // c28
, @tag(
    // c30
3 // c31
) @calculatedFrom( // c33
""`tick`""
    // c34
) @leftPad (
    // c37
' ' ) // c39
string // c40
asx // c41
, // c42a
  // c42b
string // c43a
  // c43b
u @lengthOf( options1 ) // c47a
  // c47b
, float32 // c49a
  // c49b
i64_ @calculatedFrom( ""a\""b"" // c52a
  // c52b
) // c53
, // c54
} // c55
")).
Eval vm_compute in ("<<<M700>>>" ++ check (runes_of_ascii "packet tag// " ++ [27880; 37322]%N ++ runes_of_ascii "
{
@tag(65535 )//
zchar[ 3 ]
    metadata
, }  root
packet
pack{
@calculatedFrom( ""x y""
    /// triple
    ) a1 @calculatedFrom(""1"" ) `say ""hi""` // @lengthOf(
,
zchar @lengthOf(	packetx), @lengthOf( // " ++ [128512]%N ++ runes_of_ascii " emoji
u128 )@tag( 42	) // packet A { u8 x, }
@tag( 255 )
    repeat char[7 ]
    x_y_z `// not a comment`
,match u128
as rootA	{ ""packet"": // " ++ [128512]%N ++ runes_of_ascii " emoji
tag , [""abc""
    , ""a\""b"" , ""abc""	, 42,
    ""1"" ,
7 , ""// no comment"" ]:  matchKey, 007
:	roots , 00 :
// " ++ [27880; 37322]%N ++ runes_of_ascii "
// " ++ [27880; 37322]%N ++ runes_of_ascii "
i64_
    , [""// no comment"" ]
:
    // c
    a1 , } ,
// " ++ [128512]%N ++ runes_of_ascii " emoji
// @lengthOf(
repeat
Logon {
    char[ 007
] f32a
    @lengthOf(	Header)
//x
// packet A { u8 x, }
, } ,
    // " ++ [128512]%N ++ runes_of_ascii " emoji
    }")).
Eval vm_compute in ("<<<M4129>>>" ++ check (runes_of_ascii "root packet x {
    @lengthOf(u)
    @tag(00)
    @calculatedFrom(""x y"")
    float64 stringy @calculatedFrom(""""),
    @leftPad('0')
    Pad @lengthOf(i8i8),
    match metadata as crc {
        ""abc"" : calculatedFrom,
        // @lengthOf(
        [
            1, 3, 007, 42, """",
            ""a	b"", ""a\""b"", ""it's""
        ] : msg_type,
        4294967296 : repeatCount,
        [0] : T,
        4294967296 : f32a,
        42 : u,
    },
    @leftPad(' ')
    uint64 A @calculatedFrom(""`tick`""),
    match roots as Packet {
        ""packet"" : uint8x,
        0 : Packet,
    },
}

options {
    int = ""CRC32""
    charz = ""CRC32""
    Foo = true;
}")).
Eval vm_compute in ("<<<M4212>>>" ++ check (runes_of_ascii "packet tag {
    @leftPad('\x00')
    char[10] calculatedFrom,
    @calculatedFrom(""a\\"")
    char[65535] BodyLength,
    match i8i8 as repeatCount {
        ""{,}"" : asx,
        """ ++ [233]%N ++ runes_of_ascii "t" ++ [233]%N ++ runes_of_ascii """ : lengthOf,
        [10, """"] : crc,
    },
    @tag(10)
    match chars as Logon {
        0 : crc,
        [255, """ ++ [128512]%N ++ runes_of_ascii """, ""a\\""] : len,
    },
    @calculatedFrom(""`tick`"")
    @calculatedFrom(""\" ++ [233]%N ++ runes_of_ascii """)
    o matchKey `crlf
    line`,
    @calculatedFrom(""" ++ [28040; 24687]%N ++ runes_of_ascii """)
    @lengthOf(leftPad)
    @rightPad('0')
    char[] float @calculatedFrom(""it's""),
    @rightPad('0')
    crc x,
    Foo T,// @lengthOf(
    zchar[00] charz @lengthOf(tag),
}")).
Eval vm_compute in ("<<<M296>>>" ++ check (runes_of_ascii "root
packet i64_ // " ++ [27880; 37322]%N ++ runes_of_ascii "
{match // " ++ [128512]%N ++ runes_of_ascii " emoji
rootA as stringy {
    10 : int , 7 : chars
, 7: int 4294967296: // @lengthOf(
Foo , [// trailing space 
7 , """ ++ [28040; 24687]%N ++ runes_of_ascii """  ]  :// c
BodyLength [ 0 ,""1""
    , 00 , 7
    ,""it's"" ] :
As ,
    } ,
repeat char[] a1`u8 x,`, @leftPad
// packet A { u8 x, }
// " ++ [27880; 37322]%N ++ runes_of_ascii "
(
    // trailing space 
    ' '	) packetx , @calculatedFrom(  ""\n"")  repeat matchKey
    { char[7
    // `tick` ""quote"" 'q'
    ] falsey
    `crlf
line` , } ,
// c
/// triple
@lengthOf( f32a ) uint8
Z9_
,
// a // b
//	t
falsey ,	repeat leftPad ,  @tag(1 ) u8x@lengthOf(  i64_
) , }
")).
Eval vm_compute in ("<<<M4136>>>" ++ check (runes_of_ascii "// top
options {
    // c1
    LittleEndian = false;
    StringPrefixLenType = u8;// c9
    ArrayPrefixLenType = u16;
    FixedStringPadFromLeft = false;
}// c18a

// c18b
packet Heartbeat {
    // c21
    u8 seqNo,// c24a
    @rightPad('\x00')
    // c28
    char[8] x,
}// c34

root packet Trade {
    repeat Heartbeat,
    float32 OrderId,// c44
    i64 Acct,// c47
    u16 Qty,
    // c50
    u16 clOrdID,
    // c53
    match clOrdID as Body {
        // c58
        131 : Heartbeat,
    },
    // c64
    u16 sym @calculatedFrom(""CRC32""),
}")).
Eval vm_compute in ("<<<M400>>>" ++ check (runes_of_ascii "packet
i64_ {
@lengthOf( Foo ) // `tick` ""quote"" 'q'
@lengthOf(
    calculatedFrom) o
    /// triple
    @calculatedFrom( ""{,}"" ) , uint16 lengthOf@calculatedFrom( // a // b
""" ++ [128512]%N ++ runes_of_ascii """) , char[ 007 ] trueish ,  @tag(
    // c
    00
    // `tick` ""quote"" 'q'
    )	@tag( //	t
007 )
// a // b
// " ++ [128512]%N ++ runes_of_ascii " emoji
float @calculatedFrom( ""\n"" ),
charz A
    ,Logon @calculatedFrom( ""// no comment""  )
`
` // " ++ [27880; 37322]%N ++ runes_of_ascii "
,@lengthOf( msg_type ) BodyLength As `a\` , zchar[// @lengthOf(
10]
zchar @calculatedFrom( """" // trailing space 
)
`doc`, }
")).
Eval vm_compute in ("<<<M4401>>>" ++ check (runes_of_ascii "packet Logon {
    @calculatedFrom(""a	b"")
    repeat options1,
    @calculatedFrom(""a\\"")
    // c
    char[] options1 `it's`,
    @tag(4294967296)
    repeat Logon {
        match trueish as u128 {
            ""x y"" : i64_,
            [4294967296, 007, 10] : i8i8,
        },
        //
        // @lengthOf(
        T `u8 x,`,
        repeat uint64 T `u8 x,`,
    },
}

options {
    u128 = '0'
    tag = true;
    Packet = char[0123456789];
    Foo = 007
    body = 3;
}

packet i64_ {
}")).
Eval vm_compute in ("<<<M1365>>>" ++ check (runes_of_ascii "root packet
    /// triple
    stringy
    { stringy
pack
, char[1 ] T // @lengthOf(
@calculatedFrom( ""// no comment""
),  zchar[ 4294967296 ] stringy
@calculatedFrom(
""CRC32"" )`doc` , zchar[1
    ]
body @lengthOf( A
) ,	asx@lengthOf(
    Packet ) `two words` // packet A { u8 x, }
,leftPad @calculatedFrom( ""\n"" ) `it's` ,i16
f32a
    // @lengthOf(
    , }MetaData
metadata{
char[	7 ]  crc , options1	u128 `two words` , falsey calculatedFrom, string_ As //x
, }")).
Eval vm_compute in ("<<<M1041>>>" ++ check (runes_of_ascii "root
    packet charz // " ++ [27880; 37322]%N ++ runes_of_ascii "
{options1 i64_ ,
int {zchar[
    0123456789 ] // " ++ [27880; 37322]%N ++ runes_of_ascii "
_x , int , Pad `doc`
    , // " ++ [128512]%N ++ runes_of_ascii " emoji
repeat T //x
{
    repeat msg_type , char[]
/// triple
//	t
lengthOf @lengthOf(	metadata) `tab	here` , char[] // " ++ [27880; 37322]%N ++ runes_of_ascii "
_x
    //x
    , }	,
},Logon crc
// `tick` ""quote"" 'q'
//
,} MetaData chars {int16 repeatCount ,u64 float,x_y_z Logon
    ``// @lengthOf(
,
char[ 1//	t
]	Foo ,
zchar[ 65535]int
,x_y_z calculatedFrom , // a // b
}")).
Eval vm_compute in ("<<<M808>>>" ++ check (runes_of_ascii "packet
    x
{
} MetaData calculatedFrom { } MetaData x_y_z{
char u , char[]u8x ,// a // b
char[ 0123456789 ] u128
//x
/// triple
`say ""hi""`
    ,zchar rootA , f64 x_y_z,
    } packet uint8x { @calculatedFrom( // " ++ [128512]%N ++ runes_of_ascii " emoji
""a\""b""
)  @calculatedFrom( ""CRC32""	)
repeat char[] trueish ,
}root packet falsey
    { repeat// `tick` ""quote"" 'q'
uint8x
{ string metadata
    @calculatedFrom(
    ""a\\"" )	`" ++ [28040; 24687; 31867; 22411]%N ++ runes_of_ascii "`	, Foo @lengthOf( falsey
), },}
")).
Eval vm_compute in ("<<<M4229>>>" ++ check (runes_of_ascii "// top
options {
    LittleEndian = true;
}// c6

packet Logon {
    // c9a
    // c9b
    u8 x,// c12
    string user,// c15a
}// c16a

// c16b
packet Logout {
    // c19
    u16 reason,
}// c23a

// c23b
packet Empty {
}

// c27
root packet Frame {
    u16 MsgType,
    @lengthOf(Body)
    // c37a
    // c37b
    u8 BodyLen,
    // c40
    u8 flags,
    Logon Body,// c46a
    // c46b
    u32 trailer,// c49a
}// c50a")).
Eval vm_compute in ("<<<M4371>>>" ++ check (runes_of_ascii "// top
    	packet
	    // c0
  Logon  
  // c1
	{
	    // c2
  @tag( 

// c3
42

    // c4
) 
        // c5
    @rightPad
	// c6
		( 
        // c7
' ' 
        // c8

	)  
      // c9
  	@leftPad 
	// c10
	( 
// c11
) 
	    // c12
repeat 

    // c13
trueish 
    // c14

  {
// c15
  string 
    // c16
  	T
// c17
  ,  
      // c18
    }

    // c19
  , 
	    // c20
}
    // c21
")).
Eval vm_compute in ("<<<M4415>>>" ++ check (runes_of_ascii "  packet float
	{ @lengthOf(
pack
)
	int16 string_
    ,
	}  options
{  leftPad 
	// c
      /// triple
=

true

    ; x =
    int16
	Foo	= 00	string_	=
    '\x00'
;

    } root
packet Foo { packetx
	@lengthOf( i8i8

) `tab	here`  ,int16

    A
,
	@lengthOf(
    // " ++ [128512]%N ++ runes_of_ascii " emoji
  //
trueish  )	repeat	int	zchar  `a\`  ,
	}
/// triple
  //
MetaData

body
{

    } 
//
")).
Eval vm_compute in ("<<<M1129>>>" ++ check (runes_of_ascii "root packet
    // packet A { u8 x, }
    string_ { @lengthOf( a1
// @lengthOf(
// c
) @lengthOf( f32a ) Foo@lengthOf(// `tick` ""quote"" 'q'
As ) `tab	here` ,
}root // trailing space 
packet crc { @calculatedFrom( // " ++ [27880; 37322]%N ++ runes_of_ascii "
""1"") float32 pack , //	t
} options {len = '\x00' ;uint8x
// @lengthOf(
// a // b
= 0 ; Z9_
= zchar[
3	];tag// `tick` ""quote"" 'q'
= ""a\""b""
    ; }
")).
Eval vm_compute in ("<<<M543>>>" ++ check (runes_of_ascii "packet string_ // " ++ [27880; 37322]%N ++ runes_of_ascii "
{ match
    //	t
    Pad as Z9_{
    [42 ] :trueish ,
    // trailing space 
    }
, float32
x `u8 x,`	, @leftPad	( '\x00' )	o @lengthOf(
    x_y_z )
, msg_type @lengthOf(
//x
// `tick` ""quote"" 'q'
u ) `line1
line2`// `tick` ""quote"" 'q'
, @calculatedFrom(""a\\"" )  int @calculatedFrom( ""packet"" ),  BodyLength `// not a comment` ,}
")).
Eval vm_compute in ("<<<M87>>>" ++ check (runes_of_ascii "options {
    x_y_z	= false
;
    stringy =
    """ ++ [233]%N ++ runes_of_ascii "t" ++ [233]%N ++ runes_of_ascii """;
    // trailing space 
    crc =
""" ++ [128512]%N ++ runes_of_ascii """  i8i8=
'0'
    ;
}
    // `tick` ""quote"" 'q'
    packet _x { match u128 as tag { ""CRC32"" :stringy , 3
    //	t
    : repeatCount ,// " ++ [27880; 37322]%N ++ runes_of_ascii "
""\" ++ [233]%N ++ runes_of_ascii """ :	float,	[
"""" ,  """"	, """ ++ [28040; 24687]%N ++ runes_of_ascii """ , ""a\""b"" ]
    : u8x ,""1""
:
    x_y_z
, } , }packet stringy {
}
// " ++ [128512]%N ++ runes_of_ascii " emoji
")).
Eval vm_compute in ("<<<M488>>>" ++ check (runes_of_ascii "root packet // " ++ [128512]%N ++ runes_of_ascii " emoji
charz
    { @calculatedFrom( ""x y"" ) zchar[ 0 ] u128
    @calculatedFrom( ""x y"" ) , u16 MetaDataX ,
zchar[ 0123456789] u128 , uint16 u128
,  @lengthOf(
    int
) _x Foo
    `
`,zchar[	00
    ]
o
@calculatedFrom( /// triple
""packet"" )  ,rootA `doc`,
    char[]msg_type @calculatedFrom(""" ++ [233]%N ++ runes_of_ascii "t" ++ [233]%N ++ runes_of_ascii """
) , }
")).
Eval vm_compute in ("<<<M135>>>" ++ check (runes_of_ascii "packet T{ } packet string_ { @tag(7	)repeat uint8 rootA
    // " ++ [27880; 37322]%N ++ runes_of_ascii "
    ,@lengthOf(	o
    )
    float
u ,// trailing space 
Packet @calculatedFrom(
    ""a\\"" ) ,
    f32	repeatCount `say ""hi""` /// triple
, } packet MetaDataX	{match	leftPad as Packet { 007
: // `tick` ""quote"" 'q'
x ,
} , // trailing space 
}")).
Eval vm_compute in ("<<<M314>>>" ++ check (runes_of_ascii "options
{roots =3 leftPad
/// triple
// c
= string	; packetx =	false ; zchar
= true options1 = false ;
    } MetaData
    string_ {i32 x_y_z
    ,char[ 4294967296
] zchar`two words`
, // c
char[ 42 ] metadata
, }packet _x {
    int8 rootA`doc` ,
    } options
{ lengthOf =
    ""// no comment"" } 	 ")).
Eval vm_compute in ("<<<M1545>>>" ++ check (runes_of_ascii "root packet Foo // " ++ [128512]%N ++ runes_of_ascii " emoji
{ } options {
    // a // b
    tag // `tick` ""quote"" 'q'
= //	t
""""
    ; u8x = zchar[0  ] }
MetaData
    int {zchar[ 10]
lengthOf	`` , i64 u8x u8x`// not a comment` ,MetaDataX pack// `tick` ""quote"" 'q'
`crlf
line`
, Logon charz `crlf
line`
    ,
    // a // b
    }
")).
Eval vm_compute in ("<<<M1505>>>" ++ check (runes_of_ascii "root packet Foo // " ++ [128512]%N ++ runes_of_ascii " emoji
{ } options {
    // a // b
    tag // `tick` ""quote"" 'q'
= //	t
""""
    ; u8x = zchar[0  ] }
MetaData
    int { {zchar[ 10]
lengthOf	`` , i64 u8x`// not a comment` ,MetaDataX pack// `tick` ""quote"" 'q'
`crlf
line`
, Logon charz `crlf
line`
    ,
    // a // b
    }
")).
Eval vm_compute in ("<<<M1421>>>" ++ check (runes_of_ascii "root packet { // " ++ [128512]%N ++ runes_of_ascii " emoji
Foo } options {
    // a // b
    tag // `tick` ""quote"" 'q'
= //	t
""""
    ; u8x = zchar[0  ] }
MetaData
    int {zchar[ 10]
lengthOf	`` , i64 u8x`// not a comment` ,MetaDataX pack// `tick` ""quote"" 'q'
`crlf
line`
, Logon charz `crlf
line`
    ,
    // a // b
    }
")).
Eval vm_compute in ("<<<M1586>>>" ++ check (runes_of_ascii "root packet Foo // " ++ [128512]%N ++ runes_of_ascii " emoji
{ } options {
    // a // b
    tag // `tick` ""quote"" 'q'
= //	t
""""
    ; u8x = zchar[0  ] }
MetaData
    int {zchar[ 10]
lengthOf	`` , i64 u8x`// not a comment` ,MetaDataX pack// `tick` ""quote"" 'q'
`crlf
line`
, Logon `crlf
line` charz
    ,
    // a // b
    }
")).
Eval vm_compute in ("<<<M1529>>>" ++ check (runes_of_ascii "root packet Foo // " ++ [128512]%N ++ runes_of_ascii " emoji
{ } options {
    // a // b
    tag // `tick` ""quote"" 'q'
= //	t
""""
    ; u8x = zchar[0  ] }
MetaData
    int {zchar[ 10]
lengthOf	 , i64 u8x`// not a comment` ,MetaDataX pack// `tick` ""quote"" 'q'
`crlf
line`
, Logon charz `crlf
line`
    ,
    // a // b
    }
")).
Eval vm_compute in ("<<<M474>>>" ++ check (runes_of_ascii "options {body // " ++ [27880; 37322]%N ++ runes_of_ascii "
= u16; asx =char[]
;	} MetaData
leftPad { len rootA , int64	BodyLength `say ""hi""` , char[ 00 ] packetx// " ++ [128512]%N ++ runes_of_ascii " emoji
,char[
    // a // b
    42 ] x `// not a comment`  ,
    int i64_
//	t
// `tick` ""quote"" 'q'
`doc` ,
char Pad `two words`// packet A { u8 x, }
, //
}
")).
Eval vm_compute in ("<<<M3840>>>" ++ check (runes_of_ascii "
packet 
len	{ 
@calculatedFrom( 
""1""

    )
zchar[
0

    ]tag `u8 x,`
,
	@tag(  7)
repeat 
uint64 stringy `// not a comment`  ,
	@calculatedFrom(""\n"" )
	@lengthOf( trueish
)repeat
_x	zchar
	,

    @lengthOf( crc )  zchar[
255

]

Foo

`" ++ [233]%N ++ runes_of_ascii "`
,	}// trailing space 
 
")).
Eval vm_compute in ("<<<M3489>>>" ++ check (runes_of_ascii "packet MDSnapshotZZ {
    u8 a,
}
packet OrderACK {
    u16 b,
}
packet HTTPServerInfo {
    string s,
}
root packet FIXMsg {
    u8 KType,
    MDSnapshotZZ,
    repeat OrderACK,
    match KType as Body {
        1 : HTTPServerInfo,
        2 : OrderACK,
    },
}
")).
Eval vm_compute in ("<<<M3841>>>" ++ check (runes_of_ascii "packet len {
    @calculatedFrom(""1"")
    zchar[0] tag `u8 x,`,
    @tag(7)
    repeat uint64 stringy `// not a comment`,
    @calculatedFrom(""\n"")
    @lengthOf(trueish)
    repeat _x zchar,
    @lengthOf(crc)
    zchar[255] Foo `" ++ [233]%N ++ runes_of_ascii "`,
}// trailing space")).
Eval vm_compute in ("<<<M3211>>>" ++ check (runes_of_ascii "// top
packet // c0
Logon // c1
{ // c2
@tag( // c3
42 // c4
) // c5
@rightPad // c6
( // c7
' ' // c8
) // c9
@leftPad // c10
( // c11
) // c12
repeat // c13
trueish // c14
{ // c15
string // c16
T // c17
, // c18
} // c19
, // c20
} // c21
")).
Eval vm_compute in ("<<<M4289>>>" ++ check (runes_of_ascii "  packet
	Logon{	@lengthOf(

Pad 
) int  { match

    matchKey
	as
    Pad 
{""CRC32""
:
    body ,	}

    , 
len

// `tick` ""quote"" 'q'
	@lengthOf(// `tick` ""quote"" 'q'
	chars
)
    /// triple
  	, 
float@lengthOf(	Foo) , }
,	}")).
Eval vm_compute in ("<<<M240>>>" ++ check (runes_of_ascii "packet T {}  MetaData i8i8{
    calculatedFrom	u128
`u8 x,` , string_
a1	`" ++ [233]%N ++ runes_of_ascii "`
    ,	Foo
    int ,
    zchar[007 ]chars , pack x , crc repeatCount , }packet options1
{ @tag(1 )char[1]
f32a ,_x@lengthOf(_x ) ``, } // " ++ [128512]%N ++ runes_of_ascii " emoji")).
Eval vm_compute in ("<<<M2343>>>" ++ check (runes_of_ascii "MetaData Packet { }packet	asx  { @lengthOf( asx) falsey`crlf
line`
,
    }
    packet x	{uint32// @lengthOf(
rootA	,u32 options1 `say ""hi""` , @tag( 7
    options// packet A { u8 x, }
msg_type @lengthOf(
stringy	)	, }

")).
Eval vm_compute in ("<<<M2291>>>" ++ check (runes_of_ascii "MetaData Packet { }packet	asx  { @lengthOf( asx) falsey`crlf
line`
,
    }
    packet x	{ {uint32// @lengthOf(
rootA	,u32 options1 `say ""hi""` , @tag( 7
    )// packet A { u8 x, }
msg_type @lengthOf(
stringy	)	, }

")).
Eval vm_compute in ("<<<M1383>>>" ++ check (runes_of_ascii "root  packet packetx
{ trueish
    @lengthOf(  repeatCount) , @lengthOf(
    u
) // `tick` ""quote"" 'q'
Packet u // trailing space 
`" ++ [233]%N ++ runes_of_ascii "`
    , }
    options
    {
leftPad =
    0123456789; u = 65535 ; } // " ++ [128512]%N ++ runes_of_ascii " emoji")).
Eval vm_compute in ("<<<M2393>>>" ++ check (runes_of_ascii "MetaData Packet { }packet	asx  { @lengthOf( a" ++ [769]%N ++ runes_of_ascii "b) falsey`crlf
line`
,
    }
    packet x	{uint32// @lengthOf(
rootA	,u32 options1 `say ""hi""` , @tag( 7
    )// packet A { u8 x, }
msg_type @lengthOf(
stringy	)	, }

")).
Eval vm_compute in ("<<<M2310>>>" ++ check (runes_of_ascii "MetaData Packet { }packet	asx  { @lengthOf( asx) falsey`crlf
line`
,
    }
    packet x	{uint32// @lengthOf(
rootA	, options1 `say ""hi""` , @tag( 7
    )// packet A { u8 x, }
msg_type @lengthOf(
stringy	)	, }

")).
Eval vm_compute in ("<<<M2348>>>" ++ check (runes_of_ascii "MetaData Packet { }packet	asx  { @lengthOf( asx) falsey`crlf
line`
,
    }
    packet x	{uint32// @lengthOf(
rootA	,u32 options1 `say ""hi""` , @tag( 7
    )// packet A { u8 x, }
{ @lengthOf(
stringy	)	, }

")).
Eval vm_compute in ("<<<M3643>>>" ++ check (runes_of_ascii "

  packet i8i8 {
int64
BodyLength @calculatedFrom( ""packet""
	)

,  @leftPad

    (
)
zchar[/// triple
	  1
    ]calculatedFrom
	,
repeat	x_y_z  ,//	t
	T A ,
	}
MetaData
    charz
	{
}  // " ++ [27880; 37322]%N ++ runes_of_ascii "
 
")).
Eval vm_compute in ("<<<M336>>>" ++ check (runes_of_ascii "packet
    a1//	t
{ @tag( 10 )	match x
    as float { 007
: falsey
    , }	,}
options
    { uint8x  = false ; } MetaData
    rootA
    {
//	t
// packet A { u8 x, }
u32 i64_	,zchar[ 42] zchar, }
")).
Eval vm_compute in ("<<<M2354>>>" ++ check (runes_of_ascii "MetaData Packet { }packet	asx  { @lengthOf( asx) falsey`crlf
line`
,
    }
    packet x	{uint32// @lengthOf(
rootA	,u32 options1 `say ""hi""` , @tag( 7
    )// packet A { u8 x, }
msg_type")).
Eval vm_compute in ("<<<M3777>>>" ++ check (runes_of_ascii "root

    packet	x_y_z
{ @leftPad
(	' ' )	uint8x {

float32	len@calculatedFrom(""it's""
	    //
	  )`" ++ [233]%N ++ runes_of_ascii "`,

    match o
    as
stringy
	{ [
""{,}""

]:
x ,} ,
}
    ,
    }

")).
Eval vm_compute in ("<<<M183>>>" ++ check (runes_of_ascii "packet x_y_z{  } packet  Logon { repeat i8 int
,} root packet stringy
{ char chars ,
char[] a1@calculatedFrom( ""// no comment"" )`// not a comment`, string
    Logon , }
")).
Eval vm_compute in ("<<<M1345>>>" ++ check (runes_of_ascii "options {f32a
=
""packet"" } MetaData
    float{ zchar[0 ]Z9_ `
` ,
u64 roots ,
    //	t
    uint64  zchar`` , int32
trueish, uint64 roots
,
} // `tick` ""quote"" 'q'")).
Eval vm_compute in ("<<<M421>>>" ++ check (runes_of_ascii "// c
options
{	x
    = ""1"" x =	'\x00'	; body =65535
    // `tick` ""quote"" 'q'
    ; repeatCount = // packet A { u8 x, }
' '
trueish = // " ++ [128512]%N ++ runes_of_ascii " emoji
char[]
}
")).
Eval vm_compute in ("<<<M55>>>" ++ check (runes_of_ascii "
packet Foo
    {
    repeat
int
    //x
    { string u @calculatedFrom( ""packet"")	`` // @lengthOf(
,}
,zchar[ 007 ]  A
    `doc`, }
options { }")).
Eval vm_compute in ("<<<M4297>>>" ++ check (runes_of_ascii "MetaData u128 {
    char[3] leftPad,
    char[] u8x `{ , }`,
    Header i8i8,
}

options {
    //
    crc = ""// no comment""
    asx = ""CRC32"";
}")).
Eval vm_compute in ("<<<M1648>>>" ++ check (runes_of_ascii "root packet /// triple
rootA {	i32
MetaDataX MetaDataX@calculatedFrom( ""CRC32"" ) `line1
line2` , } MetaData BodyLength {
u8
rootA, } // c")).
Eval vm_compute in ("<<<M3941>>>" ++ check (runes_of_ascii "options {
    rootA = '\x00'
    _x = true
}

packet uint8x {
    uint16 u @lengthOf(x_y_z) `say ""hi""`,
}

MetaData _x {
}

options {
}")).
Eval vm_compute in ("<<<M4385>>>" ++ check (runes_of_ascii "packet A {
    match k as n {
        [
            1, 22, 4, 5, 7,
            8, ""c c"", ""f""
        ] : B,
        2 : C,
    },
}")).
Eval vm_compute in ("<<<M198>>>" ++ check (runes_of_ascii "// c
options{
    //
    repeatCount = '0';leftPad =
' ';
// c
/// triple
msg_type
    = char[ 10
]
;}
packet
    Packet {//x
}
")).
Eval vm_compute in ("<<<M3576>>>" ++ check (runes_of_ascii "
packet	Logon 
	    // c
  	{  @tag(

42)

@rightPad ( ' '

)
    @leftPad( )

    repeat	trueish {	string
	T  ,
    }
	, } ")).
Eval vm_compute in ("<<<M287>>>" ++ check (runes_of_ascii "
MetaData Pad { int64 roots ,body u128
    //x
    , float64 x // trailing space 
, int32
    chars , A options1 `
`,
    }
")).
Eval vm_compute in ("<<<M1633>>>" ++ check (runes_of_ascii "root packet /// triple
 {	i32
MetaDataX@calculatedFrom( ""CRC32"" ) `line1
line2` , } MetaData BodyLength {
u8
rootA, } // c")).
Eval vm_compute in ("<<<M3433>>>" ++ check (runes_of_ascii "packet B {
    u8 a,
}
root packet P {
    u8 K,
    u8 L @lengthOf(Body),
    match K as Body {
        1 : B,
    },
}
")).
Eval vm_compute in ("<<<M1885>>>" ++ check (runes_of_ascii "packet
    Pad // a // b
{ i8i8 @calculatedFrom( ""a	b"") `u8 x,` ,
} options{ float// " ++ [128512]%N ++ runes_of_ascii " emoji
= f64 i64_
=//	t
$ 00 }
")).
Eval vm_compute in ("<<<M1787>>>" ++ check (runes_of_ascii "packet
    { // a // b
Pad i8i8 @calculatedFrom( ""a	b"") `u8 x,` ,
} options{ float// " ++ [128512]%N ++ runes_of_ascii " emoji
= f64 i64_
=//	t
00 }
")).
Eval vm_compute in ("<<<M1835>>>" ++ check (runes_of_ascii "packet
    Pad // a // b
{ i8i8 @calculatedFrom( ""a	b"") `u8 x,` ,
} options float// " ++ [128512]%N ++ runes_of_ascii " emoji
= f64 i64_
=//	t
00 }
")).
Eval vm_compute in ("<<<M1785>>>" ++ check (runes_of_ascii "packet
     // a // b
{ i8i8 @calculatedFrom( ""a	b"") `u8 x,` ,
} options{ float// " ++ [128512]%N ++ runes_of_ascii " emoji
= f64 i64_
=//	t
00 }
")).
Eval vm_compute in ("<<<M1036>>>" ++ check (runes_of_ascii "options {
    Packet =
    // a // b
    007
    ;
u128 =	false ; Header
    = 42 Z9_= char[ 10
]; } // a // b")).
Eval vm_compute in ("<<<M4453>>>" ++ check (runes_of_ascii "  options { LittleEndian=	true ;
}root packet P { u16

    a , u32 Sum  @calculatedFrom(
""CRC32""

)
	,}
")).
Eval vm_compute in ("<<<M383>>>" ++ check (runes_of_ascii "options { leftPad
= '\x00'
    ;Pad =
    char
    }packet f32a {
    @leftPad ( ) f64	stringy
    , } 	 ")).
Eval vm_compute in ("<<<M3345>>>" ++ check (runes_of_ascii "packet calculatedFrom { @tag( // c
4294967296 ) u msg_type , char[ 3 ] crc @lengthOf( len ) `u8 x,` , }")).
Eval vm_compute in ("<<<M3763>>>" ++ check (runes_of_ascii "MetaData float {
    tag body `" ++ [233]%N ++ runes_of_ascii "`,
    f64 i8i8 `{ , }`,
    f32 chars `two words`,
    Pad i64_,
}//	t")).
Eval vm_compute in ("<<<M3041>>>" ++ check (runes_of_ascii "packet A {
    Inner {
        u8 x `
x`,
        Deep {
            u8 y `
x`,
        },
    },
}")).
Eval vm_compute in ("<<<M2961>>>" ++ check (runes_of_ascii "packet A {
  match k as n {
    [""a"", ""bb"", 007, ""d"", ""e"", 66, ""g"", ""h"", 9] : B
    2 : C
  },
}")).
Eval vm_compute in ("<<<M3227>>>" ++ check (runes_of_ascii "packet Logon { @tag( 42 )
// c
@rightPad ( ' ' ) @leftPad ( ) repeat trueish { string T , } , }")).
Eval vm_compute in ("<<<M4332>>>" ++ check (runes_of_ascii "packet o {
    @tag(42)
    repeat x {
        char[0123456789] i64_,// c
    },
}

options {
}")).
Eval vm_compute in ("<<<M4265>>>" ++ check (runes_of_ascii "options {
    Header = true;
    pack = ""{,}"";
}

//
/// triple
options {
    i8i8 = false
}")).
Eval vm_compute in ("<<<M2023>>>" ++ check (runes_of_ascii "root
packet crc
    { f32a @calculatedFrom( """ ++ [233]%N ++ runes_of_ascii "t" ++ [233]%N ++ runes_of_ascii """ )
    `say ""hi""`, lengthOf `` ,  char[")).
Eval vm_compute in ("<<<M2769>>>" ++ check (runes_of_ascii "`// not a comment` { lengthOf float64 f64 false int32 repeat char[] match u64 @rightPad")).
Eval vm_compute in ("<<<M1974>>>" ++ check (runes_of_ascii "root
packet crc
    ; f32a @calculatedFrom( """ ++ [233]%N ++ runes_of_ascii "t" ++ [233]%N ++ runes_of_ascii """ )
    `say ""hi""`, lengthOf `` ,  }")).
Eval vm_compute in ("<<<M3426>>>" ++ check (runes_of_ascii "
packet	Inner	{u8 a
,
}
	root
    packet 
P

    { 
Inner 
ref_obj
,
u8

x , 
}
")).
Eval vm_compute in ("<<<M1976>>>" ++ check (runes_of_ascii "root
packet crc
    {  @calculatedFrom( """ ++ [233]%N ++ runes_of_ascii "t" ++ [233]%N ++ runes_of_ascii """ )
    `say ""hi""`, lengthOf `` ,  }")).
Eval vm_compute in ("<<<M3318>>>" ++ check (runes_of_ascii "packet o { @tag( 42 ) repeat x { char[ 0123456789 ] i64_ // c
, } , } options { }")).
Eval vm_compute in ("<<<M125>>>" ++ check (runes_of_ascii "root
packet x_y_z{
// a // b
// packet A { u8 x, }
repeat falsey // " ++ [27880; 37322]%N ++ runes_of_ascii "
`" ++ [233]%N ++ runes_of_ascii "` , }")).
Eval vm_compute in ("<<<M2733>>>" ++ check (runes_of_ascii """a	b"" , char[] @rightPad false @calculatedFrom( Foo ] i64 char MetaData 7 { }")).
Eval vm_compute in ("<<<M4327>>>" ++ check (runes_of_ascii "

  options {	}	packet
	string_

{
@rightPad
	(
'0'	// c
) u16  body , } ")).
Eval vm_compute in ("<<<M2890>>>" ++ check (runes_of_ascii "packet A {
  match k as n {
    [1, ""bb"", 007, ""d""] : B
    2 : C
  },
}")).
Eval vm_compute in ("<<<M2878>>>" ++ check (runes_of_ascii "packet A {
  match k as n {
    [""a"", 22, ""c c""] : B,
    2 : C
  },
}")).
Eval vm_compute in ("<<<M2211>>>" ++ check (runes_of_ascii "root
    // `tick` ""quote"" 'q'
    packet na" ++ [239]%N ++ runes_of_ascii "ve { trueish Packet , }
")).
Eval vm_compute in ("<<<M2949>>>" ++ check (runes_of_ascii "packet A { Inner { match k as n { [1,22,007,4,5,66,7,8] : B, }, }, }")).
Eval vm_compute in ("<<<M2178>>>" ++ check (runes_of_ascii "root
    // `tick` ""quote"" 'q'
    packet As { trueish , Packet }
")).
Eval vm_compute in ("<<<M1926>>>" ++ check (runes_of_ascii "
packet	As { @calculatedFrom(//x
""{,}""	)lengthOf lengthOf , } 	 ")).
Eval vm_compute in ("<<<M2191>>>" ++ check (runes_of_ascii "root
    // `tick` ""quote"" 'q'
    packet As { trueish Packet ")).
Eval vm_compute in ("<<<M3033>>>" ++ check (runes_of_ascii "packet A {
    B b `x
`,
    B `x
`,
    repeat B bs `x
`,
}")).
Eval vm_compute in ("<<<M2861>>>" ++ check (runes_of_ascii "packet A {
  match k as n {
    [""a""] : B
    2 : C
  },
}")).
Eval vm_compute in ("<<<M783>>>" ++ check (runes_of_ascii "MetaData options1 { char[] rootA ,
    a1 body
`" ++ [233]%N ++ runes_of_ascii "` , }
")).
Eval vm_compute in ("<<<M3992>>>" ++ check (runes_of_ascii "packet Pad {
    i8i8 @calculatedFrom(""a	b"") `u8 x,`,
}")).
Eval vm_compute in ("<<<M3163>>>" ++ check (runes_of_ascii "// a
MetaData M {} // b
// c
MetaData N {} // d
// e")).
Eval vm_compute in ("<<<M2417>>>" ++ check (runes_of_ascii "MetaData A
{
i64
chars	' ' } // `tick` ""quote"" 'q'")).
Eval vm_compute in ("<<<M841>>>" ++ check (runes_of_ascii "root
// @lengthOf(
// @lengthOf(
packet f32a
{
}")).
Eval vm_compute in ("<<<M2399>>>" ++ check (runes_of_ascii "MetaData A
{
i64
chars	,  // `tick` ""quote"" 'q'")).
Eval vm_compute in ("<<<M1656>>>" ++ check (runes_of_ascii "root packet /// triple
rootA {	i32
MetaDataX")).
Eval vm_compute in ("<<<M732>>>" ++ check (runes_of_ascii "options {
calculatedFrom
= f64
} // a // b")).
Eval vm_compute in ("<<<M2152>>>" ++ check (runes_of_ascii "MetaData na" ++ [239]%N ++ runes_of_ascii "ve
{// " ++ [128512]%N ++ runes_of_ascii " emoji
i16 stringy , }")).
Eval vm_compute in ("<<<M557>>>" ++ check (runes_of_ascii "
options
    {
i8i8= '0';asx =uint32	}
")).
Eval vm_compute in ("<<<M3196>>>" ++ check (runes_of_ascii "MetaData zchar { zchar[ // c
3 ] Pad , }")).
Eval vm_compute in ("<<<M3926>>>" ++ check (runes_of_ascii "root packet A {
    u8 x `
        `,
}")).
Eval vm_compute in ("<<<M311>>>" ++ check (runes_of_ascii "MetaData x_y_z { string options1 , }
")).
Eval vm_compute in ("<<<M2614>>>" ++ check (runes_of_ascii "packet A { match k as n { 1 : 2 }, }")).
Eval vm_compute in ("<<<M2128>>>" ++ check (runes_of_ascii "MetaData x
{// " ++ [128512]%N ++ runes_of_ascii " emoji
i16 stringy")).
Eval vm_compute in ("<<<M4112>>>" ++ check (runes_of_ascii "packet chars {
    repeat pack,
}")).
Eval vm_compute in ("<<<M2096>>>" ++ check (runes_of_ascii "MetaData A { '\x01' u64 pack, }")).
Eval vm_compute in ("<<<M3098>>>" ++ check (runes_of_ascii "packet A {
 u8 x `d" ++ [8232]%N ++ runes_of_ascii "`, // c" ++ [8232]%N ++ runes_of_ascii "
}")).
Eval vm_compute in ("<<<M462>>>" ++ check (runes_of_ascii "packet
    // " ++ [27880; 37322]%N ++ runes_of_ascii "
    tag
{}
")).
Eval vm_compute in ("<<<M2640>>>" ++ check (runes_of_ascii "packet A { } x packet B { }")).
Eval vm_compute in ("<<<M2620>>>" ++ check (runes_of_ascii "packet A { @tag(x) u8 x, }")).
Eval vm_compute in ("<<<M3281>>>" ++ check (runes_of_ascii "options { u8x = 3 } // c
")).
Eval vm_compute in ("<<<M3273>>>" ++ check (runes_of_ascii "options { // c
u8x = 3 }")).
Eval vm_compute in ("<<<M2792>>>" ++ check (runes_of_ascii "uint16 ; MetaData f64 (")).
Eval vm_compute in ("<<<M3928>>>" ++ check (runes_of_ascii "
packet
A

{ } 
// c" ++ [8203]%N ++ runes_of_ascii "
")).
Eval vm_compute in ("<<<M552>>>" ++ check (runes_of_ascii "MetaData Packet  { }")).
Eval vm_compute in ("<<<M2643>>>" ++ check (runes_of_ascii "MetaData M { x y, }")).
Eval vm_compute in ("<<<M3061>>>" ++ check (runes_of_ascii "packet A {
}
// c ")).
Eval vm_compute in ("<<<M3142>>>" ++ check (runes_of_ascii "// c" ++ [6158]%N ++ runes_of_ascii "
packet A {
}")).
Eval vm_compute in ("<<<M3089>>>" ++ check (runes_of_ascii "packet A {
}// c" ++ [8202]%N)).
Eval vm_compute in ("<<<M791>>>" ++ check (runes_of_ascii "
// @lengthOf(
")).
Eval vm_compute in ("<<<M4008>>>" ++ check (runes_of_ascii "options

{ 
}
")).
Eval vm_compute in ("<<<M2791>>>" ++ check (runes_of_ascii "f['U26$ht_8")).
Eval vm_compute in ("<<<M1877>>>" ++ check (runes_of_ascii "packet
 ")).
Eval vm_compute in ("<<<M3843>>>" ++ check (runes_of_ascii "// c 
")).
Eval vm_compute in ("<<<M2430>>>" ++ check (runes_of_ascii "charz")).
Eval vm_compute in ("<<<M3115>>>" ++ check (runes_of_ascii "// c" ++ [11]%N)).
Eval vm_compute in ("<<<M3704>>>" ++ check (runes_of_ascii "// c")).
Eval vm_compute in ("<<<M2676>>>" ++ check (runes_of_ascii """s""")).
Eval vm_compute in ("<<<M2453>>>" ++ check (runes_of_ascii "a")).
