From FP Require Import Lexer Parser ShowPT Digest Formatter.
From Coq Require Import String List NArith.
Import ListNotations.
Open Scope string_scope.
Set Printing Width 100000000.
Set Printing Depth 100000000.
Definition show_fres (r : fres) : string :=
  match r with
  | FOk s => "OK:" ++ sh_escaped s ""
  | FErr s => "ERR:" ++ sh_escaped s ""
  | FPanic p => "PANIC:" ++ p
  end.
Definition check (rs : list rune) : string := digest (show_fres (format_res rs)).
Definition full (rs : list rune) : string := show_fres (format_res rs).
Eval vm_compute in ("<<<M4205>>>" ++ check (runes_of_ascii "// top
options {
    // c1
    LittleEndian = true;// c5
    StringPrefixLenType = u8;
    // c9
    ArrayPrefixLenType = u16;
    FixedStringPadChar = '0';
    // c17
    JavaPackage = ""com.example.msg"";// c21
    GoPackage = ""msg"";
    // c25
    GoModule = ""example.com/msg"";
}

// c30
MetaData Meta {
    u32 SeqNum `sequence number`,// c37a
    // c37b
    char[8] Symbol `symbol`,// c43
    zchar[5] ZSym `z symbol`,
    // c49
    string Note,// c52
    Symbol AltSymbol `alias of symbol`,
    f64 Price,// c59
}

packet Inner {
    // c63
    u8 a,// c66a
    // c66b
    i16 b,// c69a
    // c69b
    string c,// c72
}// c73

packet Inner2 {
    // c76a
    // c76b
    u8 a2,// c79a
    // c79b
    char[3] c2,// c84a
    // c84b
}

packet Logon {
    // c88
    u8 x,// c91
    string user,
    repeat u16 codes,
}// c99a

// c99b
packet Logout {
    // c102
    u16 reason,
    // c105
}

// c106
packet Empty {
}// c110a

// c110b
root packet Msg {
    // c114a
    // c114b
    u8 su8,
    // c117
    uint8 luint8,
    u16 su16,
    uint16 luint16,// c126a
    // c126b
    u32 su32,
    // c129
    uint32 luint32,// c132
    u64 su64,// c135
    uint64 luint64,// c138a
    // c138b
    i8 si8,
    int8 lint8,
    // c144
    i16 si16,
    int16 lint16,
    i32 si32,
    int32 lint32,// c156a
    // c156b
    i64 si64,
    // c159
    int64 lint64,
    // c162
    f32 sf32,
    // c165
    float32 lfloat32,
    f64 sf64,// c171a
    // c171b
    float64 lfloat64,
    char[6] fsplain,// c179a
    // c179b
    @leftPad('0')
    char[4] fs0,// c188a
    // c188b
    @rightPad('0')
    char[5] fs1,
    @leftPad(' ')
    // c201
    char[6] fs2,// c206a
    // c206b
    @rightPad(' ')
    // c210a
    // c210b
    char[7] fs3,
    @leftPad('\x00')
    char[8] fs4,// c224
    @rightPad('\x00')
    // c228
    char[9] fs5,// c233
    @leftPad()
    // c236a
    // c236b
    char[10] fs6,
    // c241
    @rightPad()
    // c244
    char[11] fs7,// c249a
    // c249b
    zchar[7] fz,
    @leftPad('0')
    // c258a
    // c258b
    zchar[3] fzl0,
    // c263
    string s1 `doc`,// c267
    char[] s2,
    // c270
    Inner,// c272a
    // c272b
    Sub {
        // c274
        u8 q,
        string w,// c280
        Deep {
            // c282
            u16 z,
            // c285
            repeat i32 zs,
            // c289
        },// c291a
        // c291b
    },// c293a
    // c293b
    repeat u8 ru8,// c297
    repeat u16 ru16,
    repeat u32 ru32,// c305
    repeat u64 ru64,
    repeat i8 ri8,
    // c313
    repeat i16 ri16,
    // c317
    repeat i32 ri32,
    // c321
    repeat i64 ri64,// c325
    repeat f32 rf32,// c329a
    // c329b
    repeat f64 rf64,// c333
    repeat string rstr,// c337
    repeat char[] rstr2,
    repeat char[3] rfs,
    repeat zchar[3] rfz,
    // c353
    repeat Inner2,
    repeat Grp {
        u8 k,// c362a
        // c362b
        char[2] v,// c367
    },// c369
    SeqNum,// c371
    SeqNum seq2,
    repeat SeqNum seqs,
    Symbol,// c380
    AltSymbol alt,// c383a
    // c383b
    ZSym,
    Note,
    // c387
    repeat Symbol syms,
    Price px,// c394a
    // c394b
    u16 MsgType,// c397
    u32 BodyLen @lengthOf(Body),
    // c403
    match MsgType as Body {
        // c408
        1 : Logon,
        // c412
        [2, 3] : Logout,
        // c420
        7 : Logon,
        9 : Empty,
        // c428a
        // c428b
    },// c430a
    // c430b
    u32 Checksum @calculatedFrom(""CRC32""),
    // c436
}")).
Eval vm_compute in ("<<<M3830>>>" ++ check (runes_of_ascii "// @lengthOf(
packet charz {
    BodyLength @lengthOf(o),
    @calculatedFrom(""a\\"")
    match i64_ as a1 {
        // a // b
        [7, 4294967296] : Header,
        [
            0, 4294967296, 10, 007, 007,
            1, ""1"", ""`tick`""
        ] : Packet,
        3 : MetaDataX,
        3 : T,
    },
    @calculatedFrom("""")
    @calculatedFrom(""CRC32"")
    int16 lengthOf @calculatedFrom(""x y""),
    float64 stringy @calculatedFrom(""// no comment"") `line1
        line2`,
    falsey repeatCount `
        `,
    //	t
    repeat float64 trueish,/// triple
    _x @lengthOf(stringy) `tab	here`,
    @lengthOf(matchKey)
    @leftPad('0')
    @calculatedFrom(""it's"")
    u8 metadata,
    uint8 chars,
}

packet MetaDataX {
    // packet A { u8 x, }
    @tag(65535)
    repeat string_ a1 `{ , }`,
    @leftPad()
    @calculatedFrom(""\n"")
    @leftPad()
    match T as packetx {
        ""1"" : options1,
    },
    uint8 MetaDataX @lengthOf(roots),
    @tag(0123456789)
    body @calculatedFrom(""packet"") `u8 x,`,
    /// triple
}

packet zchar {
    match len as calculatedFrom {
        4294967296 : charz,
        [4294967296, ""\" ++ [233]%N ++ runes_of_ascii """, 10, 1] : pack,
        [0, 42] : matchKey,
        ""{,}"" : i64_,
    },
    @tag(42)
    uint64 trueish @calculatedFrom(""`tick`""),
    @calculatedFrom(""" ++ [28040; 24687]%N ++ runes_of_ascii """)
    @rightPad('0')
    u8 Foo `line1
        line2`,
    match charz as packetx {
        4294967296 : float,
        [007, ""a\""b""] : u8x,
        42 : options1,
    },// 50% %s
    stringy len,
}

packet f32a {
    Packet @lengthOf(u),
    @tag(3)
    body uint8x,
    @lengthOf(metadata)
    char[4294967296] zchar,
    // packet A { u8 x, }
    @tag(007)
    @tag(10)
    @tag(4294967296)
    i32 asx,
    int16 x @calculatedFrom(""CRC32""),
}

packet u128 {
    @calculatedFrom(""a\\"")
    @tag(1)
    @lengthOf(x)
    int64 BodyLength @lengthOf(charz),
    @rightPad('\x00')
    float Pad,
    @leftPad('\x00')
    repeat i64 _x,
}")).
Eval vm_compute in ("<<<M1156>>>" ++ check (runes_of_ascii "
root /// triple
packet trueish
{@tag(	00
)
repeat char[]_x
    , repeat float32 Packet`
` , @calculatedFrom(
    """ ++ [233]%N ++ runes_of_ascii "t" ++ [233]%N ++ runes_of_ascii """
    ) matchKey a1 ,	u128,
    @calculatedFrom( ""x y"" )
a1 { roots /// triple
{
match packetx as a1 { [
0123456789 , 0123456789 ] // packet A { u8 x, }
:
    tag ,""\n"" : uint8x,
    00
    :	Z9_ //
, ""\" ++ [233]%N ++ runes_of_ascii """:i64_ // trailing space 
[ ""// no comment"" ,
// trailing space 
//x
""`tick`"" ] : asx ,
}, // `tick` ""quote"" 'q'
} ,
    } ,@lengthOf( trueish ) //
repeat
uint8 Foo`
`	,@calculatedFrom(
""{,}"" ) i8i8
f32a ,repeat MetaDataX o
`// not a comment` ,}
    options  { } packet	matchKey { @tag( 42  ) @lengthOf(
    //	t
    metadata) options1 `tab	here`, int64 trueish
    @lengthOf( // trailing space 
asx
    // packet A { u8 x, }
    ) `a\`
,
@lengthOf( chars ) f32
    // " ++ [128512]%N ++ runes_of_ascii " emoji
    u8x @calculatedFrom(
/// triple
// @lengthOf(
""// no comment"" ), }packet f32a { zchar[// `tick` ""quote"" 'q'
42 ]Pad @lengthOf(
repeatCount ) , @leftPad (  '\x00' )
uint64 string_// c
`a\` , @calculatedFrom( ""CRC32"" )char MetaDataX // 50% %s
, repeat zchar[ //
00//
] body ,repeat
    trueish{
matchKey MetaDataX `u8 x,` , repeat u32 // `tick` ""quote"" 'q'
u8x `it's` , },
    char[ // c
255]
    // c
    u128,  BodyLength @lengthOf(
    asx )`it's`	, // a // b
string MetaDataX@calculatedFrom( /// triple
""packet"" ) ,// packet A { u8 x, }
match lengthOf as metadata {""{,}"" :
// packet A { u8 x, }
// " ++ [27880; 37322]%N ++ runes_of_ascii "
MetaDataX ,
    }, @rightPad
(	'\x00' )
i16 A	, } packet _x
{
    // packet A { u8 x, }
    @lengthOf( _x )
@lengthOf(// packet A { u8 x, }
u128) @rightPad( '\x00'
)zchar[ 4294967296 ]charz,}")).
Eval vm_compute in ("<<<M4053>>>" ++ check (runes_of_ascii "
MetaData
u

    {/// triple
  }MetaData  repeatCount
	{
	}
    root packet	asx {	// trailing space 
@calculatedFrom(
""" ++ [28040; 24687]%N ++ runes_of_ascii """
) body	f32a
,  uint16
stringy	,  /// triple

calculatedFrom
	{	match metadata	as rootA
    {""{,}"": 
roots,
""x y"" :
i8i8
    ""\n""
    : Foo// `tick` ""quote"" 'q'
  , 65535 :pack,[ 3 ,
    //	t
  10  ,  ""1""

,
	42  ,""\n"" ,
        // @lengthOf(
  // 50% %s
    	""a	b"" 	 // c
	, 

// " ++ [128512]%N ++ runes_of_ascii " emoji
""1""] : 
packetx
	,3 :
// " ++ [128512]%N ++ runes_of_ascii " emoji
    MetaDataX ,
}
,
	repeat	rootA {	options1

,
}  ,
zchar[
    255  // c
	]  roots	`" ++ [28040; 24687; 31867; 22411]%N ++ runes_of_ascii "`
,
char[  42
	]roots
,	}	,	repeat zchar

    ,match	i64_
	as  stringy 
{  //	t
00 
:roots , [
0	, 	 /// triple
      """ ++ [233]%N ++ runes_of_ascii "t" ++ [233]%N ++ runes_of_ascii """
,//
	  255
    ,""\n""

    ,
255
	,

""a\""b""
,

    1
,  0123456789  
      // " ++ [27880; 37322]%N ++ runes_of_ascii "
		] : stringy
, 
42
    : metadata ""// no comment"" 
: trueish [""\" ++ [233]%N ++ runes_of_ascii """
	, 10 ]

    :

    u128 ,

} ,

    match

u8x
	as  int {
255  :
string_

    , 
""it's"":options1
, }	, match 
metadata as
BodyLength
{
    ""\n"" : o
,
42  :
int }
	, 
@rightPad (
'\x00'
	)

    roots
MetaDataX	,	u32

Pad 
,
    string
    repeatCount`" ++ [233]%N ++ runes_of_ascii "`
    ,}
	options
{  Pad=	char[  42 ] ;

Foo	= char[] ; 

    /// triple
//x
    	roots=""`tick`"";
    } packet  int {  @leftPad

('0'
) @tag( 4294967296	)  u8x
@lengthOf(

    matchKey	)
	`line1
line2`
, 
int16
	packetx  `say ""hi""`
    , 
Z9_ `u8 x,`
    ,	// 50% %s
	uint8 i64_

,Header chars  , }
")).
Eval vm_compute in ("<<<M4195>>>" ++ check (runes_of_ascii "options {
    uint8x = ""a\""b"";
    rootA = 255
    packetx = uint64;
    options1 = '0';
}

MetaData roots {
    zchar[0123456789] string_,
}

packet A {
    /// triple
    @calculatedFrom(""abc"")
    options1 options1,
}

root packet BodyLength {
    @lengthOf(stringy)
    @tag(007)
    @leftPad('0')
    repeat u {
        char[0123456789] float @lengthOf(BodyLength),
        char[1] MetaDataX `crlf
        line`,
        lengthOf `crlf
        line`,
    },
    @tag(0)
    @rightPad('0')
    @tag(1)
    msg_type {
        chars @lengthOf(trueish),
        repeat int64 i8i8 `// not a comment`,
        i8i8 @lengthOf(repeatCount),
        string charz `tab	here`,
    },
    repeat u128 `crlf
    line`,
    @lengthOf(_x)
    match int as f32a {
        [""a\""b"", 10] : Logon,
        [""" ++ [128512]%N ++ runes_of_ascii """, 65535] : A,
    },
    matchKey @lengthOf(falsey),
    @lengthOf(metadata)
    repeat Z9_ `two words`,//	t
    @tag(4294967296)
    body @lengthOf(float),
    repeat x_y_z {
        match zchar as string_ {
            /// triple
            """ ++ [233]%N ++ runes_of_ascii "t" ++ [233]%N ++ runes_of_ascii """ : u8x,
            4294967296 : matchKey,
        },
        T {
            u128,
        },
        match T as x_y_z {
            42 : zchar,
        },
    },
}

packet len {
    repeat crc stringy,
}// " ++ [128512]%N ++ runes_of_ascii " emoji")).
Eval vm_compute in ("<<<M3563>>>" ++ check (runes_of_ascii "// top
options // c0
{ // c1a
  // c1b
LittleEndian // c2
= // c3
true // c4a
  // c4b
; // c5a
  // c5b
ArrayPrefixLenType = // c7
u32 ; FixedStringPadFromLeft // c10
= // c11
true
    // c12
;
    // c13
FixedStringPadChar // c14a
  // c14b
=
    // c15
'0' ; }
    // c18
packet Party
    // c20
{ // c21
} // c22
root // c23a
  // c23b
packet // c24
Heartbeat // c25a
  // c25b
{ // c26
repeat // c27
string
    // c28
Tail // c29
, InRef14 // c31
{
    // c32
InMsgkind17 // c33
{ // c34a
  // c34b
int8 Flags // c36
, // c37a
  // c37b
char[ 10 // c39
] // c40a
  // c40b
Acct // c41a
  // c41b
, // c42a
  // c42b
zchar[
    // c43
4
    // c44
] sym ,
    // c47
i8 Px
    // c49
,
    // c50
} // c51
, string Px
    // c54
,
    // c55
}
    // c56
, uint16 seqNo , // c60a
  // c60b
int64 // c61a
  // c61b
tag7 // c62
, // c63
u16 Note // c65
,
    // c66
u32
    // c67
Px @lengthOf( Body // c70
) , // c72
match // c73
Note // c74a
  // c74b
as
    // c75
Body // c76
{ 96 : Party // c80a
  // c80b
,
    // c81
} // c82
, // c83a
  // c83b
u16
    // c84
Acct
    // c85
@calculatedFrom( // c86a
  // c86b
""CRC32"" // c87
) // c88
,
    // c89
} // c90
")).
Eval vm_compute in ("<<<M1410>>>" ++ check (runes_of_ascii "options {
	StringPrefixLenType = u16;
	ArrayPrefixLenType = u16;
}

packet SampleBinary {
	uint16 MsgType `" ++ [28040; 24687; 31867; 22411]%N ++ runes_of_ascii "`,
	u16 BodyLenght @lengthOf(Body) `" ++ [28040; 24687; 20307; 38271; 24230]%N ++ runes_of_ascii "`,
	match MsgType as Body {
		1 : Logon,
		2 : Logout,
		3 : Heartbeat,
		4 : RiskControlRequest,
		5 : RiskControlResponse,
	},
	@calculatedFrom(""CRC32"")
	u32 Ckecksum `" ++ [26657; 39564; 21644]%N ++ runes_of_ascii "`,
}

packet Logon {
	@leftPad('0')
	char[10] UserName `" ++ [29992; 25143; 21517]%N ++ runes_of_ascii "`,
	string Password `" ++ [23494; 30721]%N ++ runes_of_ascii "`,
	uint64 ClientId `" ++ [23458; 25143; 31471]%N ++ runes_of_ascii "ID`,
	u16 HeartbeatInterval `" ++ [24515; 36339; 38388; 38548]%N ++ runes_of_ascii "`,
}

packet Logout {
	@rightPad('0')
	char[10] UserName `" ++ [29992; 25143; 21517]%N ++ runes_of_ascii "`,
	uint64 ClientId `" ++ [23458; 25143; 31471]%N ++ runes_of_ascii "ID`,
}

packet Heartbeat {
}

packet RiskControlRequest {
	string UniqueOrderId `" ++ [21807; 19968; 35746; 21333; 21495]%N ++ runes_of_ascii "`,
	char[16] ClOrdID `" ++ [23458; 25143; 35746; 21333; 21495]%N ++ runes_of_ascii "`,
	char[3] MarketID `" ++ [24066; 22330]%N ++ runes_of_ascii "id`,
	char[12] SecurityID `" ++ [35777; 21048; 20195; 30721]%N ++ runes_of_ascii "`,
	char Side `" ++ [20080; 21334; 26041; 21521]%N ++ runes_of_ascii "`,
	char OrderType `" ++ [35746; 21333; 31867; 22411]%N ++ runes_of_ascii "`,
	u64 Price `" ++ [20215; 26684]%N ++ runes_of_ascii "`,
	u32 Qty `" ++ [25968; 37327]%N ++ runes_of_ascii "`,
	repeat string ExtraInfo `" ++ [38468; 21152; 20449; 24687]%N ++ runes_of_ascii "`,
	repeat SubOrder {
		char[16] ClOrdID `" ++ [23376; 35746; 21333; 21495]%N ++ runes_of_ascii "`,
		u64 Price `" ++ [23376; 35746; 21333; 20215; 26684]%N ++ runes_of_ascii "`,
		u32 Qty `" ++ [23376; 35746; 21333; 25968; 37327]%N ++ runes_of_ascii "`,
	},
}

packet RiskControlResponse {
	string UniqueOrderId `" ++ [21807; 19968; 35746; 21333; 21495]%N ++ runes_of_ascii "`,
	i32 Status `" ++ [29366; 24577]%N ++ runes_of_ascii "`,
	string Msg `" ++ [32467; 26524; 20449; 24687]%N ++ runes_of_ascii "`,
	repeat Detail,
}

packet Detail {
	string RuleName `" ++ [35268; 21017; 21517; 31216]%N ++ runes_of_ascii "`,
	u16 Code `" ++ [21407; 22240; 20195; 30721]%N ++ runes_of_ascii "`,
}")).
Eval vm_compute in ("<<<M4>>>" ++ check (runes_of_ascii "MetaData pack
    { // trailing space 
float32	pack `say ""hi""` //x
, } root packet body {@calculatedFrom(""it's""  ) uint8x
Pad , string
/// triple
//
chars,  int8
    a1
@lengthOf( /// triple
A), pack // a // b
{o
    {
repeat Header
    MetaDataX , }
,
charz ,Header/// triple
@calculatedFrom( ""\n"" )
// @lengthOf(
// " ++ [128512]%N ++ runes_of_ascii " emoji
,
    }  ,
@lengthOf(
o ) match asx as
// `tick` ""quote"" 'q'
// trailing space 
int { ""`tick`""
    : //x
x_y_z, 4294967296 //
:u8x , ""a	b"" :
repeatCount , ""a	b""
:Pad 10:  packetx ,
    } , A
    o ,Packet{
    u `doc` , repeat Header u8x	,  i8i8 As
,} , @calculatedFrom( ""a\\"" ) charz
{ char[]
    a1
    ,
string
Pad
    ,x repeatCount, metadata
    {// c
chars{ body`
`
    , string u8x @lengthOf( u128 ) , match string_ as BodyLength {
[
    ""`tick`"" // " ++ [27880; 37322]%N ++ runes_of_ascii "
] :a1 ,	""packet"":
    charz , }  , } , char[]repeatCount , int16 msg_type ,
    uint8x , },}	,
@lengthOf(
float ) // `tick` ""quote"" 'q'
match trueish as
    Header{
    // packet A { u8 x, }
    [ ""{,}""// " ++ [27880; 37322]%N ++ runes_of_ascii "
,""1"" ] :f32a
,
}
    , } 	 ")).
Eval vm_compute in ("<<<M69>>>" ++ check (runes_of_ascii "packet
    Z9_ { @rightPad
('\x00' ) repeat Header
    options1 , Header
MetaDataX  `` ,
zchar[0 ]o
, }
    packet chars {
    // `tick` ""quote"" 'q'
    }packet len
    //	t
    {
repeat	char[] Foo , @rightPad (
    '0'
)	zchar[
    007
    ]
a1 `" ++ [233]%N ++ runes_of_ascii "` ,repeat
    BodyLength leftPad , } root packet u8x { f64 lengthOf @calculatedFrom( ""CRC32"" )
,string zchar
    @lengthOf( int ) `tab	here`
    , int calculatedFrom	,
@lengthOf(As	)
match falsey as	asx {65535 : _x[ 1 ] :
    //x
    u 007 : uint8x 00
    // " ++ [128512]%N ++ runes_of_ascii " emoji
    :f32a  , """ ++ [233]%N ++ runes_of_ascii "t" ++ [233]%N ++ runes_of_ascii """: Packet , [42  , ""a\""b"" ]
: len , }
    , @lengthOf(stringy
    ) @calculatedFrom( ""1"" )
repeat A{ char[]
    lengthOf
// " ++ [27880; 37322]%N ++ runes_of_ascii "
// 50% %s
`
` ,
    } , MetaDataX
@calculatedFrom(""""
    )
`it's` , @lengthOf( T
)match	Foo  as crc { 10
    :
    trueish
    ,
42 // trailing space 
: Pad , // c
[4294967296 , // " ++ [27880; 37322]%N ++ runes_of_ascii "
""// no comment""  , ""{,}""
    ]	: float , }, @lengthOf(
    u8x ) a1 @calculatedFrom( ""\" ++ [233]%N ++ runes_of_ascii """ )
    ,  } // a // b")).
Eval vm_compute in ("<<<M3919>>>" ++ check (runes_of_ascii "root packet trueish {
    @lengthOf(A)
    repeat roots {
        repeat len stringy `two words`,
        A @calculatedFrom(""x y""),
        //x
        // c
        match MetaDataX as roots {
            ""CRC32"" : len,
            /// triple
            [""\" ++ [233]%N ++ runes_of_ascii """, """ ++ [28040; 24687]%N ++ runes_of_ascii """] : BodyLength,
            """ ++ [28040; 24687]%N ++ runes_of_ascii """ : stringy,
        },
    },
    A stringy,
    zchar[7] chars `" ++ [28040; 24687; 31867; 22411]%N ++ runes_of_ascii "`,
    Pad {
        i8i8,
        match roots as u128 {
            ""x y"" : u128,
            [1] : uint8x,
            0123456789 : f32a,
            // " ++ [128512]%N ++ runes_of_ascii " emoji
            ""it's"" : u8x,
        },
        match T as repeatCount {
            255 : falsey,
            //
            [1, ""a\""b""] : x_y_z,
            [
                ""packet"", 42, """ ++ [128512]%N ++ runes_of_ascii """, """ ++ [233]%N ++ runes_of_ascii "t" ++ [233]%N ++ runes_of_ascii """, 3,
                ""a	b""
            ] : lengthOf,
            0 : uint8x,
            42 : BodyLength,
            [0, ""x y""] : Header,
        },
        zchar[42] Foo,
    },
}")).
Eval vm_compute in ("<<<M610>>>" ++ check (runes_of_ascii "packet	u
    {
// trailing space 
//	t
} root packet len{
repeat matchKey{
    string
    // a // b
    trueish ,
msg_type { A {char[] i8i8`it's`, } ,
}
    // c
    , match crc as msg_type{ [7
    ,7// 50% %s
, ""x y"" , /// triple
""it's""] : Packet ,
[
0123456789,
    ""`tick`"" , 0 , 7
]:stringy 0:i64_
    //
    }
, char[] leftPad `" ++ [28040; 24687; 31867; 22411]%N ++ runes_of_ascii "` ,
}, i32
    Header
`doc`
    , @lengthOf( MetaDataX
    // @lengthOf(
    ) u32 zchar  ,
// " ++ [27880; 37322]%N ++ runes_of_ascii "
// " ++ [27880; 37322]%N ++ runes_of_ascii "
repeat  zchar[ 10 ] charz`doc` ,char[
    // `tick` ""quote"" 'q'
    65535] //	t
f32a
    ,
    // a // b
    metadata , @leftPad
//x
// " ++ [27880; 37322]%N ++ runes_of_ascii "
(
)
match u8x	as roots { ""\n"" : MetaDataX """ ++ [233]%N ++ runes_of_ascii "t" ++ [233]%N ++ runes_of_ascii """ :u128 ,""" ++ [233]%N ++ runes_of_ascii "t" ++ [233]%N ++ runes_of_ascii """: u , 3:
    // `tick` ""quote"" 'q'
    Z9_ ,
0123456789	: calculatedFrom
42 : a1	,  }
, match x_y_z
as u {65535 : stringy ,""a\\"" :
options1 , ""\" ++ [233]%N ++ runes_of_ascii """:
    // packet A { u8 x, }
    _x,
} ,
    u64 float@lengthOf(
    Z9_ ) , }
")).
Eval vm_compute in ("<<<M429>>>" ++ check (runes_of_ascii "  packet repeatCount { @leftPad ( '0' ) @lengthOf(
int
    )f32	f32a,repeat char[ 7 ] _x , f64
x_y_z , @tag( 007	) // c
@leftPad// a // b
( '\x00'
    )
int8 // 50% %s
trueish @calculatedFrom(
    """ ++ [128512]%N ++ runes_of_ascii """  ) `` ,
@leftPad( ' ' )
    int32
u128 @lengthOf(string_
) , @lengthOf(BodyLength) match metadata as
Z9_ { ""a\\""
: Logon 7 : Pad
    ,
    3
    // a // b
    : Foo ,
    [
10 ]
: msg_type
//	t
// `tick` ""quote"" 'q'
, ""\n"" :
x} , match trueish as pack {
    // trailing space 
    [
    ""a	b"" ,
    4294967296
, """ ++ [233]%N ++ runes_of_ascii "t" ++ [233]%N ++ runes_of_ascii """ ,42 ,
// " ++ [27880; 37322]%N ++ runes_of_ascii "
// c
""{,}"" ,	7	, 255 ] : Logon // `tick` ""quote"" 'q'
,
    [
    ""{,}""
,	42
, 00 ]
    /// triple
    :crc , 42 :
    A
, """ ++ [28040; 24687]%N ++ runes_of_ascii """ :	asx, [ """ ++ [128512]%N ++ runes_of_ascii """,	65535
    , ""`tick`""
, 7 , ""x y"" ,
    // " ++ [27880; 37322]%N ++ runes_of_ascii "
    ""CRC32""
, //
""" ++ [28040; 24687]%N ++ runes_of_ascii """
// `tick` ""quote"" 'q'
// @lengthOf(
] : BodyLength
, } ,repeat i8
    crc
, }

")).
Eval vm_compute in ("<<<M3813>>>" ++ check (runes_of_ascii "packet tag {
    @leftPad()
    i16 stringy,
    char[] packetx @calculatedFrom(""// no comment""),
    @lengthOf(float)
    repeat int64 As `" ++ [28040; 24687; 31867; 22411]%N ++ runes_of_ascii "`,
    @calculatedFrom(""" ++ [28040; 24687]%N ++ runes_of_ascii """)
    zchar[42] trueish,
    charz T,
    crc uint8x,
    f32a `two words`,
}

packet MetaDataX {
    char[0123456789] u128 @calculatedFrom(""x y""),
}

root packet i8i8 {
    packetx uint8x,
    asx {
        zchar[255] leftPad @calculatedFrom(""\n""),
        float64 i8i8 @calculatedFrom(""packet""),
        repeat i8 zchar,
    },
    @calculatedFrom(""`tick`"")
    zchar[00] chars @calculatedFrom(""" ++ [28040; 24687]%N ++ runes_of_ascii """) `u8 x,`,
    f32 BodyLength @lengthOf(calculatedFrom) `" ++ [28040; 24687; 31867; 22411]%N ++ runes_of_ascii "`,
    uint32 MetaDataX,
}

packet Foo {
    @rightPad()
    @rightPad()
    uint64 u8x,
}

options {
    u8x = true
    falsey = char[255]//	t
}// trailing space ")).
Eval vm_compute in ("<<<M948>>>" ++ check (runes_of_ascii "root packet
stringy
{ string repeatCount `two words` // `tick` ""quote"" 'q'
, match A as tag
    { [ """ ++ [28040; 24687]%N ++ runes_of_ascii """ ] : i8i8 ,
42 : u8x
    ,
[ 65535 ] : MetaDataX , ""// no comment"" :// c
leftPad ,
    // `tick` ""quote"" 'q'
    } ,@tag(
0
) int8 Packet , @calculatedFrom( """ ++ [128512]%N ++ runes_of_ascii """
    )@calculatedFrom(""a	b"" ) @rightPad ( '\x00' // 50% %s
) trueish, match
    int	as
zchar {	[
// @lengthOf(
//
65535
,42 , 3
    , ""`tick`"" ,	0 ,
""a\\""
]:
/// triple
/// triple
T,[ 4294967296 ]	: falsey
, 65535 : falsey, // packet A { u8 x, }
[ ""a\""b"" , ""a	b"" , 0 ,42
, ""x y"" , ""a\""b""
    ] :body //
,""packet"":float, }, @tag( 255 )  leftPad	@lengthOf( msg_type) , @lengthOf( As  ) zchar[
0123456789 ] Packet ,
    zchar[42 ] //x
Pad ,}packet Logon  {
repeat
i16  falsey `a\`, }
")).
Eval vm_compute in ("<<<M3572>>>" ++ check (runes_of_ascii "
options 
{StringPrefixLenType =
	u64;
ArrayPrefixLenType=
    u8
;
FixedStringPadFromLeft
	=
true ;  FixedStringPadChar
	=
	'0'  ; } packet
    Ack
	{ 
@rightPad(	'0'
)
char[ 
7

    ] Px ,u64 msgKind

    ,i8  x , }

packet
    Party  { i8
	sym ,
repeat Ack, 
repeat InPx10  {
repeat

    Ack

    ,zchar[
    1]
Ref, uint64 Qty
    , u16 
tag7 
, 
}
    ,
int8
	clOrdID
,
	}packet Fill
    {	}
    packet Order { }  root

packet Quote { 
Order
,
    @leftPad	(

'0'	)
char[

    1 ]Side2
	, string  venue

,
    char[	7 ]
lastPx, u16
	tag7
    , u32 clOrdID
    ,

match
clOrdID as Body	{	30

:Order ,
	196  :
Party,10
    :
    Fill 
,28
:
Ack	,
}

,
u32
sym	@calculatedFrom(""CRC32"")
,
} ")).
Eval vm_compute in ("<<<M613>>>" ++ check (runes_of_ascii "root
    packet repeatCount
{ i64_@lengthOf( // packet A { u8 x, }
uint8x //x
)// trailing space 
, @calculatedFrom(
""a\\"")repeat
As{
char[ 1	] f32a  , char[
255]lengthOf
@lengthOf( stringy ) // a // b
, repeat len
    // " ++ [27880; 37322]%N ++ runes_of_ascii "
    { match i8i8 as
msg_type { [ // c
""" ++ [128512]%N ++ runes_of_ascii """ //	t
, ""`tick`""
] // " ++ [27880; 37322]%N ++ runes_of_ascii "
:_x , },  }
, }	,}packet options1
{
// c
// trailing space 
match T
    as falsey
{ ""\" ++ [233]%N ++ runes_of_ascii """
: o
, [""`tick`"" ,
// c
// trailing space 
""{,}"" ] : Logon, // `tick` ""quote"" 'q'
""" ++ [28040; 24687]%N ++ runes_of_ascii """// c
: metadata 00: x,[ ""x y""
    ,  ""CRC32""
// " ++ [27880; 37322]%N ++ runes_of_ascii "
//x
,65535]  : packetx
, ""\n"":_x // " ++ [128512]%N ++ runes_of_ascii " emoji
, },u8
stringy@calculatedFrom( ""\" ++ [233]%N ++ runes_of_ascii """ ) , u8 Pad , roots trueish	`" ++ [233]%N ++ runes_of_ascii "` ,
    }
MetaData charz { Pad charz
    , }")).
Eval vm_compute in ("<<<M3847>>>" ++ check (runes_of_ascii "packet u {
    A,
    u repeatCount `tab	here`,
    @lengthOf(msg_type)
    crc @lengthOf(len),
    char[] matchKey,
    @calculatedFrom(""" ++ [28040; 24687]%N ++ runes_of_ascii """)
    repeat Z9_,
    zchar[65535] charz,
    i16 pack @lengthOf(charz),
    chars @calculatedFrom(""\n""),
    @rightPad('0')
    int16 calculatedFrom `crlf
    line`,
    @tag(7)
    int64 chars `doc`,
}

packet chars {
    char[42] asx @calculatedFrom(""packet""),
    match roots as crc {
        //
        0 : u,
        // c
        00 : f32a,
        [65535, ""abc""] : falsey,
        // " ++ [27880; 37322]%N ++ runes_of_ascii "
        ""{,}"" : tag,
    },
    calculatedFrom i8i8 `two words`,
    // packet A { u8 x, }
}

options {
    _x = char[];
}")).
Eval vm_compute in ("<<<M4286>>>" ++ check (runes_of_ascii "
packet options1 
{ repeat	A	/// triple

{
    BodyLength

@calculatedFrom(	""abc""
) `line1
line2`
, //
}	, u64

chars

    `{ , }`	,
@calculatedFrom(""\n"") u16 _x

,

    u16  As ,
	// " ++ [128512]%N ++ runes_of_ascii " emoji

  match u
as
    pack{ 1
	:x_y_z ,

},

    @tag( // trailing space 
	4294967296) @calculatedFrom(
""a\\""
)
	@leftPad	( 
    // " ++ [128512]%N ++ runes_of_ascii " emoji

' '  ) uint64 chars
@lengthOf( Pad 
    // a // b
    	//	t
	), @leftPad	('0' )
char[]  o

    , @calculatedFrom( ""\" ++ [233]%N ++ runes_of_ascii """
	) char

charz
    @lengthOf(
T	)
,repeat
// " ++ [27880; 37322]%N ++ runes_of_ascii "

  msg_type  rootA

    ,@leftPad	( 
' '
    )	@tag(
    1 ) char[0
]

    MetaDataX 
@lengthOf(	Foo  ) ,	}

")).
Eval vm_compute in ("<<<M435>>>" ++ check (runes_of_ascii "root packet Foo
    { match
rootA as Packet {255	: o , """":
Logon , """ ++ [128512]%N ++ runes_of_ascii """ :int // `tick` ""quote"" 'q'
, 1
    // a // b
    :
x_y_z ,
4294967296 : As ,
[ ""\n"" , // `tick` ""quote"" 'q'
""`tick`"" ] : lengthOf	,
}
, zchar[ 10 ]
Packet
    , zchar[00 ]uint8x
, repeat msg_type string_ ,	repeat
    zchar[ 007 ]
    Pad``
    // c
    ,
match
    rootA as  stringy
{ 007 :leftPad /// triple
,
[ """ ++ [233]%N ++ runes_of_ascii "t" ++ [233]%N ++ runes_of_ascii """
// 50% %s
//
,
    7 ] :  x }
,
@leftPad
( '0' )
string zchar @lengthOf(
    repeatCount
    ) `crlf
line`
    ,match o as _x{""`tick`""
:
Header // " ++ [27880; 37322]%N ++ runes_of_ascii "
,
""a	b"" :
    T
}
,
Header `line1
line2` ,	}
")).
Eval vm_compute in ("<<<M287>>>" ++ check (runes_of_ascii "packet u128 { @tag( // a // b
10 )char[ 0123456789] A ``
    ,
// c
//
char[ 1] matchKey`say ""hi""` ,
    // `tick` ""quote"" 'q'
    T
{
    u128 leftPad , } ,
@calculatedFrom( ""`tick`"")
    match Logon
as
    msg_type
    {// c
""it's"":int , """ ++ [128512]%N ++ runes_of_ascii """
    // c
    :charz ""a\\"" : options1,
    },
}
    MetaData
f32a {i64 pack
,
uint8 /// triple
int , tag packetx `// not a comment` , char[
    7 ]charz
,// c
a1 As ,u32 As// " ++ [27880; 37322]%N ++ runes_of_ascii "
, } options{
_x =  1; }
packet uint8x
{ // trailing space 
@calculatedFrom(""""
)  u8x lengthOf
// @lengthOf(
// trailing space 
`say ""hi""` , }
")).
Eval vm_compute in ("<<<M4236>>>" ++ check (runes_of_ascii "
options {	/// triple
falsey=
    ' 'Pad
= ' '	;crc
=

    '0'  ;	tag

    =
	007
	} 
/// triple
    //

MetaData
asx
    { 
chars

metadata`" ++ [28040; 24687; 31867; 22411]%N ++ runes_of_ascii "` ,  asx

chars // `tick` ""quote"" 'q'
	,char[
	007

] 
    // c

// 50% %s
  A`// not a comment`

,char[]
crc 
,} 	 // a // b
  MetaData	T{

    char  BodyLength 
,char[	255//
      ]
    f32a

,	char[ 10
] 	 // " ++ [128512]%N ++ runes_of_ascii " emoji
  trueish
,
    int64 
i8i8 	 // " ++ [128512]%N ++ runes_of_ascii " emoji
  	,u16

    rootA
	, zchar[

    0	// packet A { u8 x, }
] Z9_`// not a comment`
,

    }
options {
    len	= i16;

}

")).
Eval vm_compute in ("<<<M4168>>>" ++ check (runes_of_ascii "
MetaData
i8i8 { Packet 	 // `tick` ""quote"" 'q'
  roots,  }

    root	packet
    //	t
	// packet A { u8 x, }
	matchKey { @leftPad	(  '\x00'
	)charz ,

match

MetaDataX 	 // c
  as  T { [42
    ]:
_x 
    /// triple
  // " ++ [27880; 37322]%N ++ runes_of_ascii "
  , // 50% %s
	42
: 
Packet
0 // `tick` ""quote"" 'q'
	:

    chars 
	// packet A { u8 x, }
    ,
	    // @lengthOf(

//x
255 :

    Foo }

    , @tag(
	007 ) 	 /// triple
repeat	int32

    chars
,}
packet x_y_z

    {
stringy
	zchar

    `it's` ,

repeat
    trueish 
    /// triple
,	} ")).
Eval vm_compute in ("<<<M3430>>>" ++ check (runes_of_ascii "// top
options // c0
{ // c1
}
    // c2
options // c3a
  // c3b
{ // c4a
  // c4b
string_ // c5
= // c6a
  // c6b
false // c7a
  // c7b
; // c8
msg_type // c9
= // c10
""1"" // c11a
  // c11b
; // c12a
  // c12b
} MetaData // c14a
  // c14b
lengthOf {
    // c16
zchar[
    // c17
4294967296
    // c18
] // c19a
  // c19b
Z9_
    // c20
, // c21a
  // c21b
uint8 // c22
i8i8 // c23
`two words` ,
    // c25
char[
    // c26
7 // c27a
  // c27b
]
    // c28
charz
    // c29
, // c30a
  // c30b
}
    // c31
")).
Eval vm_compute in ("<<<M3912>>>" ++ check (runes_of_ascii "MetaData crc {
    float zchar,
}

root packet msg_type {
    repeat u128 {
        char[] body,
        matchKey u128,
    },
    repeat chars {
        // " ++ [27880; 37322]%N ++ runes_of_ascii "
        match rootA as As {
            ""packet"" : falsey,
            [65535, 0] : roots,
            // 50% %s
            [""" ++ [128512]%N ++ runes_of_ascii """, 0] : T,
        },
    },
}

MetaData tag {
    char[3] repeatCount,
    string options1 `two words`,
    char[] x,// a // b
    body lengthOf,
    roots i64_,//	t
    options1 T `{ , }`,
}")).
Eval vm_compute in ("<<<M3869>>>" ++ check (runes_of_ascii "root packet Z9_ {
    char[10] falsey @calculatedFrom(""a	b"") `// not a comment`,
}

root packet pack {
    Header {
        match f32a as u128 {
            42 : i8i8,
            [""\" ++ [233]%N ++ runes_of_ascii """, ""a\""b"", 00, 007, 42] : chars,
        },
        repeat MetaDataX `" ++ [233]%N ++ runes_of_ascii "`,
        //
        // packet A { u8 x, }
    },
    uint16 u @lengthOf(As) `crlf
    line`,
    char[0123456789] BodyLength,
    charz,
}

MetaData float {
    char[] stringy ``,
    float falsey,
}")).
Eval vm_compute in ("<<<M704>>>" ++ check (runes_of_ascii "root packet BodyLength { @tag(  007 ) @tag(
    0123456789 ) @lengthOf( Pad )
    // packet A { u8 x, }
    match
    // @lengthOf(
    zchar
as msg_type { [  ""`tick`""] :calculatedFrom, 00 :
    uint8x ,
0123456789  : f32a [10	, ""// no comment"" ,""" ++ [233]%N ++ runes_of_ascii "t" ++ [233]%N ++ runes_of_ascii """
, 7 ]
    :
    chars //	t
""x y"": // 50% %s
zchar	,
[ ""a	b"" , 00 ,""a	b"" ,65535
    ,
7, ""CRC32""
, 0123456789]: x
// 50% %s
// a // b
} , @lengthOf( Pad //	t
) repeat	asx matchKey , } 	 ")).
Eval vm_compute in ("<<<M3983>>>" ++ check (runes_of_ascii "packet f32a {
    @leftPad('0')
    repeat zchar[10] zchar ``,
}

MetaData u {
    i32 asx,
    i64 string_ `it's`,
    Pad metadata,
}

packet As {
    @tag(10)
    zchar[10] leftPad,
    @calculatedFrom(""a\""b"")
    // trailing space 
    @lengthOf(Header)
    @calculatedFrom(""\" ++ [233]%N ++ runes_of_ascii """)
    char[007] matchKey @lengthOf(u128) `100% of %d`,
    int @calculatedFrom(""`tick`"") `a\`,
    f64 o,
}

MetaData o {
    uint16 matchKey,
}")).
Eval vm_compute in ("<<<M242>>>" ++ check (runes_of_ascii "root packet Header {} // `tick` ""quote"" 'q'
packet u { @tag(
3)MetaDataX @lengthOf(// `tick` ""quote"" 'q'
BodyLength
)
// 50% %s
//
`tab	here`,
} root packet asx
{ string chars,
} root
packet
    repeatCount { @lengthOf( // c
Packet ) match roots  as i8i8 {
    4294967296: crc, [// packet A { u8 x, }
""a\\""
, 3
    , 4294967296
/// triple
// trailing space 
,	7 ,
""x y"",	4294967296
    ,""\" ++ [233]%N ++ runes_of_ascii """
    ]  :
o } , }
")).
Eval vm_compute in ("<<<M203>>>" ++ check (runes_of_ascii "packet roots
    { string zchar ,repeat string matchKey`line1
line2`
,repeat i32 x ,
    u32 a1@calculatedFrom(
""" ++ [233]%N ++ runes_of_ascii "t" ++ [233]%N ++ runes_of_ascii """),
    @rightPad (
) //x
@tag(007 ) @calculatedFrom(  ""a	b"") repeat roots  `two words`,match
/// triple
// " ++ [128512]%N ++ runes_of_ascii " emoji
Packet//x
as
zchar {	""CRC32""  : Logon }  ,@calculatedFrom(""{,}"" ) @lengthOf(	a1) repeat u128
// c
/// triple
{ repeat zchar[ 007
]packetx , }, a1 , } // 50% %s")).
Eval vm_compute in ("<<<M1280>>>" ++ check (runes_of_ascii "MetaData matchKey /// triple
{	zchar[
1
    // a // b
    ] crc`{ , }`  ,
    float
o `line1
line2`	, A	stringy `" ++ [233]%N ++ runes_of_ascii "`, u64
Logon `crlf
line` , } packet roots
    { @lengthOf( u8x ) T@lengthOf( x) `// not a comment` , x @calculatedFrom(// 50% %s
""// no comment"") ,  @leftPad ( ' ')
zchar[ 0123456789//x
]
string_
    ,
} packet pack
{ @tag( /// triple
7) repeat	i64 charz
, }
")).
Eval vm_compute in ("<<<M3988>>>" ++ check (runes_of_ascii "MetaData uint8x {
    i64 crc,
    u16 Pad `" ++ [233]%N ++ runes_of_ascii "`,
    float64 falsey,
    i64 Packet,
    //	t
    // " ++ [128512]%N ++ runes_of_ascii " emoji
}

MetaData x_y_z {
}

packet x_y_z {
}

options {
    crc = int8;
    i8i8 = ""\n""
    body = char[]
    BodyLength = ' ';
    i64_ = '\x00'
    // a // b
    // " ++ [27880; 37322]%N ++ runes_of_ascii "
}

options {
    len = true
    roots = ' ';
    trueish = '0'
    a1 = 10;
    Z9_ = f32;
}")).
Eval vm_compute in ("<<<M3453>>>" ++ check (runes_of_ascii "packet B // c1
{ // c2a
  // c2b
u8 // c3a
  // c3b
a
    // c4
, // c5a
  // c5b
} root packet // c8
P // c9a
  // c9b
{ u8 K // c12a
  // c12b
,
    // c13
u8 // c14a
  // c14b
L // c15
@lengthOf( // c16
Body ) // c18
, match
    // c20
K as // c22
Body // c23a
  // c23b
{
    // c24
1 : B
    // c27
, }
    // c29
, // c30a
  // c30b
}
    // c31
")).
Eval vm_compute in ("<<<M401>>>" ++ check (runes_of_ascii "packet	As { @leftPad	(
' '
)repeat roots matchKey , // @lengthOf(
string i8i8 @lengthOf( x_y_z)
    // " ++ [27880; 37322]%N ++ runes_of_ascii "
    , repeat
float
Pad ,
// `tick` ""quote"" 'q'
// trailing space 
float32
msg_type	,u64 int
    ,  repeat  char[4294967296
]
    tag`two words` , @calculatedFrom( ""\" ++ [233]%N ++ runes_of_ascii """ ) @calculatedFrom( ""1"" )
    char[]// @lengthOf(
leftPad ,}")).
Eval vm_compute in ("<<<M3604>>>" ++ check (runes_of_ascii "

  packet msg_type {  @leftPad  (' '
)
@lengthOf(
    calculatedFrom )
    match
    zchar  as

    u

{ [

""packet""
,

    ""a	b"",

    10
	    //x
  ,	255

]// packet A { u8 x, }
: // `tick` ""quote"" 'q'
  Pad 
, 
  // " ++ [128512]%N ++ runes_of_ascii " emoji

  // c
  	65535  :
	MetaDataX // trailing space 
	  ,255

    : o
,
    } 
,	}")).
Eval vm_compute in ("<<<M1182>>>" ++ check (runes_of_ascii "packet	leftPad{}  packet
A {  A
    @calculatedFrom(""" ++ [128512]%N ++ runes_of_ascii """
    ) , @calculatedFrom(
    """ ++ [128512]%N ++ runes_of_ascii """
) repeat float i64_ `say ""hi""` , @lengthOf( // packet A { u8 x, }
uint8x  ) repeat i64_  {
chars repeatCount
,  }	, } root packet x_y_z {
    }	MetaData i64_ /// triple
{ zchar[
7] uint8x
    , } // `tick` ""quote"" 'q'")).
Eval vm_compute in ("<<<M3628>>>" ++ check (runes_of_ascii "packet	// packet A { u8 x, }
    repeatCount

{  // packet A { u8 x, }
      @leftPad  ('\x00' 
)repeat u8x

    MetaDataX

`crlf
line`
    ,repeat
char[] MetaDataX

    ,

uint8x @calculatedFrom(  ""a\""b"" 

    // c
	// packet A { u8 x, }

)
	`tab	here`, 	 //
	  }MetaData	pack
    { 
}
")).
Eval vm_compute in ("<<<M315>>>" ++ check (runes_of_ascii "packet zchar{	int
{ match MetaDataX
    as _x
    {3 :	Pad ,} , f64 leftPad// `tick` ""quote"" 'q'
,
    // " ++ [128512]%N ++ runes_of_ascii " emoji
    } ,
@rightPad(
    // 50% %s
    '0' )
repeat i64 A , o pack `crlf
line`
,} options {
metadata=""a	b""// c
crc
    =255; metadata= char[	007 ]; BodyLength
= string  }")).
Eval vm_compute in ("<<<M249>>>" ++ check (runes_of_ascii "MetaData _x
    { i32 T `it's`,
    stringy len // c
`// not a comment` // c
,
}
    packet	chars { tag
    @lengthOf(
    trueish	) `100% of %d` ,
    // @lengthOf(
    } packet u
{ char[] Foo @calculatedFrom( ""\n"" )
    ,
}
    root packet
    string_ { u64 As
`u8 x,` , }
//x
")).
Eval vm_compute in ("<<<M1932>>>" ++ check (runes_of_ascii "packet	packetx { // trailing space 
x_y_z
{
string
charz ,
string x// @lengthOf(
`two words`
    ,  u8x { // `tick` ""quote"" 'q'
charz `100% of %d` // packet A { u8 x, }
,} }// " ++ [27880; 37322]%N ++ runes_of_ascii "
,} , }
    // a // b
    packet metadata {  @leftPad ( '0') repeat i32 options1 ,u64 uint8x , }
")).
Eval vm_compute in ("<<<M1873>>>" ++ check (runes_of_ascii "packet	packetx { // trailing space 
x_y_z
{
charz
string ,
string x// @lengthOf(
`two words`
    ,  u8x { // `tick` ""quote"" 'q'
charz `100% of %d` // packet A { u8 x, }
,}// " ++ [27880; 37322]%N ++ runes_of_ascii "
,} , }
    // a // b
    packet metadata {  @leftPad ( '0') repeat i32 options1 ,u64 uint8x , }
")).
Eval vm_compute in ("<<<M2018>>>" ++ check (runes_of_ascii "packet	packetx { // trailing space 
x_y_z
{
string
charz ,
string x// @lengthOf(
`two words`
    ,  u8x { // `tick` ""quote"" 'q'
charz `100% of %d` // packet A { u8 x, }
,}// " ++ [27880; 37322]%N ++ runes_of_ascii "
,} , }
    // a // b
    packet metadata {  @leftPad ( '0') repeat i32 options1 ,u64 , uint8x }
")).
Eval vm_compute in ("<<<M4443>>>" ++ check (runes_of_ascii "options {
    asx = ' '
    Header = uint16
    repeatCount = ""x y""
    msg_type = 7;
}

options {
    x_y_z = ""packet""
    packetx = ""`tick`"";
    rootA = """ ++ [128512]%N ++ runes_of_ascii """;
}

options {
    u128 = char[42]
}

options {
    u128 = i32;
    charz = true;
    string_ = ' ';
    /// triple
}")).
Eval vm_compute in ("<<<M1871>>>" ++ check (runes_of_ascii "packet	packetx { // trailing space 
x_y_z
{

charz ,
string x// @lengthOf(
`two words`
    ,  u8x { // `tick` ""quote"" 'q'
charz `100% of %d` // packet A { u8 x, }
,}// " ++ [27880; 37322]%N ++ runes_of_ascii "
,} , }
    // a // b
    packet metadata {  @leftPad ( '0') repeat i32 options1 ,u64 uint8x , }
")).
Eval vm_compute in ("<<<M218>>>" ++ check (runes_of_ascii "packet stringy{ @lengthOf(As // trailing space 
)char[ 4294967296 ]
// trailing space 
// " ++ [128512]%N ++ runes_of_ascii " emoji
o
    , }
    root packet f32a{	@rightPad
( '0'
) uint16
    u8x
@lengthOf(Pad) `a\` , }
MetaData	Packet
{i64_  o  ,	uint64 u128 ,
    As x , u32 f32a
    ,// 50% %s
}
")).
Eval vm_compute in ("<<<M2130>>>" ++ check (runes_of_ascii "packet// packet A { u8 x, }
repeatCount	{// packet A { u8 x, }
@leftPad ( '\x00'
) repeat u8x MetaDataX `crlf
line`,
    repeat
    char[] MetaDataX
    ,
u64 u64	uint8x@calculatedFrom(""a\""b""
// c
// packet A { u8 x, }
) `tab	here`
,//
}MetaData pack
    {
    }
")).
Eval vm_compute in ("<<<M2199>>>" ++ check (runes_of_ascii "packet// packet A { u8 x, }
repeatCount	{// packet A { u8 x, }
@leftPad ( '\x00'
) repeat u8x MetaDataX `crlf
line`,
    repeat
    char[] MetaDataX
    ,
u64	uint8x@calculatedFrom(""a\""b""
// c
// packet A { u8 x, }
) `tab	here`
,//
}MetaData < pack
    {
    }
")).
Eval vm_compute in ("<<<M2086>>>" ++ check (runes_of_ascii "packet// packet A { u8 x, }
repeatCount	{// packet A { u8 x, }
@leftPad ( '\x00'
) u8x repeat MetaDataX `crlf
line`,
    repeat
    char[] MetaDataX
    ,
u64	uint8x@calculatedFrom(""a\""b""
// c
// packet A { u8 x, }
) `tab	here`
,//
}MetaData pack
    {
    }
")).
Eval vm_compute in ("<<<M2149>>>" ++ check (runes_of_ascii "packet// packet A { u8 x, }
repeatCount	{// packet A { u8 x, }
@leftPad ( '\x00'
) repeat u8x MetaDataX `crlf
line`,
    repeat
    char[] MetaDataX
    ,
u64	uint8x@calculatedFrom(""a\""b""
// c
// packet A { u8 x, }
 `tab	here`
,//
}MetaData pack
    {
    }
")).
Eval vm_compute in ("<<<M1444>>>" ++ check (runes_of_ascii "packet calculatedFrom
{ @calculatedFrom( ""a\\"" ) zchar[ zchar[ 4294967296 ]
calculatedFrom@lengthOf( pack )	`100% of %d` ,char[]body@calculatedFrom( ""// no comment"" )  ,
@tag( 007) //x
int8
leftPad`it's` , repeat pack
    { repeat char[ 3] body
,},
}")).
Eval vm_compute in ("<<<M1589>>>" ++ check (runes_of_ascii "packet calculatedFrom
{ @calculatedFrom( ""a\\"" ) zchar[ 4294967296 ]
calculatedFrom@lengthOf( pack )	`100% of %d` ,char[]body@calculatedFrom( ""// no comment"" )  ,
@tag( 007) //x
int8
leftPad`it's` , repeat pack
    { repeat char[ 3] body body
,},
}")).
Eval vm_compute in ("<<<M1509>>>" ++ check (runes_of_ascii "packet calculatedFrom
{ @calculatedFrom( ""a\\"" ) zchar[ 4294967296 ]
calculatedFrom@lengthOf( pack )	`100% of %d` ,char[]body@calculatedFrom( ""// no comment"" ) )  ,
@tag( 007) //x
int8
leftPad`it's` , repeat pack
    { repeat char[ 3] body
,},
}")).
Eval vm_compute in ("<<<M1622>>>" ++ check (runes_of_ascii "packet calculatedFrom
{ @calculatedFrom( ""a\\"" ) zchar[ 4294967296 ]
calculatedFrom@lengthOf( pack )	`100% of %d` ,char[]body@calculatedFrom( ""// no comment""` )  ,
@tag( 007) //x
int8
leftPad`it's` , repeat pack
    { repeat char[ 3] body
,},
}")).
Eval vm_compute in ("<<<M1500>>>" ++ check (runes_of_ascii "packet calculatedFrom
{ @calculatedFrom( ""a\\"" ) zchar[ 4294967296 ]
calculatedFrom@lengthOf( pack )	`100% of %d` ,char[]body""// no comment"" @calculatedFrom( )  ,
@tag( 007) //x
int8
leftPad`it's` , repeat pack
    { repeat char[ 3] body
,},
}")).
Eval vm_compute in ("<<<M1513>>>" ++ check (runes_of_ascii "packet calculatedFrom
{ @calculatedFrom( ""a\\"" ) zchar[ 4294967296 ]
calculatedFrom@lengthOf( pack )	`100% of %d` ,char[]body@calculatedFrom( ""// no comment"" )  
@tag( 007) //x
int8
leftPad`it's` , repeat pack
    { repeat char[ 3] body
,},
}")).
Eval vm_compute in ("<<<M3958>>>" ++ check (runes_of_ascii "options {
    repeatCount = ""// no comment"";
    _x = u32;
    zchar = char
}//x

root packet chars {
    u16 Pad @lengthOf(rootA) `u8 x,`,
    int16 u8x @calculatedFrom(""it's""),
}

MetaData As {
    char[] x,
    string A `line1
    line2`,
}")).
Eval vm_compute in ("<<<M4399>>>" ++ check (runes_of_ascii "
MetaData
    Packet {

    }  packet  tag
    {  int16 u 
// c
//	t
	`// not a comment`

,  }root	// a // b
    packet
	Logon  {
metadata 

/// triple
  	stringy`" ++ [233]%N ++ runes_of_ascii "`

    ,
    rootA Pad
,  // c
len
@calculatedFrom(  """"  ) 
, }

")).
Eval vm_compute in ("<<<M3522>>>" ++ check (runes_of_ascii "
packet

    Logon
	{string

    user ,
    }root 
packet
    Frame {
	u8

K , 
match 
K as 
Body

{ 1
:
Logon

    ,  2

    : Logout, } ,
    Tail ,

    }
packet Logout
	{ 
u16 
reason, }	packet 
Tail{
u32
crc , 
}
")).
Eval vm_compute in ("<<<M2158>>>" ++ check (runes_of_ascii "packet// packet A { u8 x, }
repeatCount	{// packet A { u8 x, }
@leftPad ( '\x00'
) repeat u8x MetaDataX `crlf
line`,
    repeat
    char[] MetaDataX
    ,
u64	uint8x@calculatedFrom(""a\""b""
// c
// packet A { u8 x, }
)")).
Eval vm_compute in ("<<<M962>>>" ++ check (runes_of_ascii "
MetaData	zchar{ falsey u8x , // @lengthOf(
i8
u128 ,
u  i8i8 `
`  , i8 asx `{ , }`
, }
options {  lengthOf= i8
}
packet
msg_type
    { match u8x as	MetaDataX {
//
/// triple
1: tag //	t
,
    //
    } ,
}")).
Eval vm_compute in ("<<<M879>>>" ++ check (runes_of_ascii "packet calculatedFrom
    //	t
    { @leftPad( '\x00'
    ) match i8i8	as
    // " ++ [27880; 37322]%N ++ runes_of_ascii "
    BodyLength { 255
    : o, 0 : Header// " ++ [27880; 37322]%N ++ runes_of_ascii "
, ""CRC32"" :
asx,7
    : u[10 ,0 ] : packetx ,
    0  :
Foo ,} , }
")).
Eval vm_compute in ("<<<M892>>>" ++ check (runes_of_ascii "MetaData
o { BodyLength
charz ,
body // @lengthOf(
u128 `" ++ [28040; 24687; 31867; 22411]%N ++ runes_of_ascii "`, uint16 Foo `u8 x,` // " ++ [128512]%N ++ runes_of_ascii " emoji
,
    f64 //	t
pack
``, msg_type
//	t
//x
chars	, }// " ++ [27880; 37322]%N ++ runes_of_ascii "
options {
    trueish
    = char }
")).
Eval vm_compute in ("<<<M3528>>>" ++ check (runes_of_ascii "packet u128
{	u8

a

,
	} root

packet

Msg { u8
    k
,
	u24{
u8 Hi
,
    u16
    Lo
	,
}
,
repeat i24 {  u32
q

    , }	,
    u128
,
    u16
float32x
,string

    s , }

")).
Eval vm_compute in ("<<<M424>>>" ++ check (runes_of_ascii "
MetaData  matchKey {//x
char[]  Packet,
    _x
// " ++ [27880; 37322]%N ++ runes_of_ascii "
// a // b
x_y_z
// `tick` ""quote"" 'q'
//	t
, string_
    matchKey `" ++ [233]%N ++ runes_of_ascii "` , } packet len{ Foo { u@lengthOf(a1 )
    , }
, }
")).
Eval vm_compute in ("<<<M3495>>>" ++ check (runes_of_ascii "

  packet

A {
    u8

    a, } 
packet
    B

{

    u16 
b
, }root  packet
    P
	{
u8 
K 
, match 
K as
    M
{[
    1  ,
2
]
	: A
,

3
	:

B
	,  7 : 
A, } ,}
")).
Eval vm_compute in ("<<<M279>>>" ++ check (runes_of_ascii "MetaData
// " ++ [128512]%N ++ runes_of_ascii " emoji
// packet A { u8 x, }
int{
    // @lengthOf(
    char[0123456789
] x_y_z, Header msg_type ,
//x
// c
metadata o `say ""hi""` ,	} options {
    }
")).
Eval vm_compute in ("<<<M2400>>>" ++ check (runes_of_ascii "
packet MetaDataX
{
    @leftPad
( // a // b
'0' '0'
) i8 u @lengthOf(
MetaDataX
    ) `say ""hi""` ,	} MetaData BodyLength {
    asx
x_y_z `" ++ [233]%N ++ runes_of_ascii "`
, uint64 u128 , }
")).
Eval vm_compute in ("<<<M2372>>>" ++ check (runes_of_ascii "
packet MetaDataX
{
    @leftPad
( // a // b
'0'
) i8 u @lengthOf(
MetaDataX
    ) `say ""hi""` ,	} @ MetaData BodyLength {
    asx
x_y_z `" ++ [233]%N ++ runes_of_ascii "`
, uint64 u128 , }
")).
Eval vm_compute in ("<<<M2433>>>" ++ check (runes_of_ascii "
packet MetaDataX
{
    @leftPad
( // a // b
'0'
) i8 u `@lengthOf(
MetaDataX
    ) `say ""hi""` ,	} MetaData BodyLength {
    asx
x_y_z `" ++ [233]%N ++ runes_of_ascii "`
, uint64 u128 , }
")).
Eval vm_compute in ("<<<M4224>>>" ++ check (runes_of_ascii "MetaData a1 {
    zchar lengthOf `{ , }`,
    options1 leftPad,
    char[10] charz `crlf
    line`,
}

packet a1 {
    i64 body @calculatedFrom(""packet""),
}")).
Eval vm_compute in ("<<<M2406>>>" ++ check (runes_of_ascii "
packet MetaDataX
{
    @leftPad
( // a // b
'0'
) i8 u @lengthOf(
MetaDataX
    ) `say ""hi""` ,	} MetaData BodyLength {
    asx
x_y_z """"
, uint64 u128 , }
")).
Eval vm_compute in ("<<<M562>>>" ++ check (runes_of_ascii "
root packet Header { @rightPad ( '0'
) u32 Pad @lengthOf(len ) `line1
line2`, // `tick` ""quote"" 'q'
}MetaData stringy
    // packet A { u8 x, }
    { }
")).
Eval vm_compute in ("<<<M1779>>>" ++ check (runes_of_ascii "options { } packet Packet{char[] i64_ ,
@tag(
    255) match
crc as i8i8{""{,}"" : trueish """" : Pad , ""a\\"" :
Foo ,
    1 packetx:
, """ ++ [128512]%N ++ runes_of_ascii """ : trueish , } , }")).
Eval vm_compute in ("<<<M1777>>>" ++ check (runes_of_ascii "options { } packet Packet{char[] i64_ ,
@tag(
    255) match
crc as i8i8{""{,}"" : trueish """" : Pad , ""a\\"" :
Foo ,
    1 packetx
, """ ++ [128512]%N ++ runes_of_ascii """ : trueish , } , }")).
Eval vm_compute in ("<<<M4145>>>" ++ check (runes_of_ascii "packet A {
    u8 a,
}

packet B {
    u16 b,
}

root packet P {
    u8 K,
    match K as M {
        [1, 2] : A,
        3 : B,
        7 : A,
    },
}")).
Eval vm_compute in ("<<<M1677>>>" ++ check (runes_of_ascii "options { } packet Packet{char[] i64_ ,

    255) match
crc as i8i8{""{,}"" : trueish """" : Pad , ""a\\"" :
Foo ,
    1 :packetx
, """ ++ [128512]%N ++ runes_of_ascii """ : trueish , } , }")).
Eval vm_compute in ("<<<M4238>>>" ++ check (runes_of_ascii "
packet
	options1
{
    @leftPad (
'\x00'
	// " ++ [128512]%N ++ runes_of_ascii " emoji
    // c
    )

calculatedFrom
,

    }MetaData

    len{ // a // b
	} 

    // 50% %s")).
Eval vm_compute in ("<<<M4379>>>" ++ check (runes_of_ascii "packet Header {
    i16 matchKey,
    @calculatedFrom(""\n"")
    charz calculatedFrom `line1
    line2`,
}

packet crc {
    calculatedFrom,
}")).
Eval vm_compute in ("<<<M4157>>>" ++ check (runes_of_ascii "
root	packet
	T{
string
zchar	,

zchar[

3 
]stringy , 	 // 50% %s
	}

packet rootA {
	u{

repeatCount
@lengthOf( 
o	)

`" ++ [28040; 24687; 31867; 22411]%N ++ runes_of_ascii "`	,
},
}")).
Eval vm_compute in ("<<<M922>>>" ++ check (runes_of_ascii "packet A {
    repeat Pad ,	} MetaData	_x{ char[ 00
]
i8i8,
//
/// triple
}packet i8i8
    {
} packet asx { uint8 pack ,}
/// triple
")).
Eval vm_compute in ("<<<M2118>>>" ++ check (runes_of_ascii "packet// packet A { u8 x, }
repeatCount	{// packet A { u8 x, }
@leftPad ( '\x00'
) repeat u8x MetaDataX `crlf
line`,
    repeat")).
Eval vm_compute in ("<<<M3267>>>" ++ check (runes_of_ascii "MetaData metadata {
// c
} MetaData rootA { i8 i64_ , roots options1 `a\` , lengthOf Header , Z9_ Foo , int16 BodyLength , }")).
Eval vm_compute in ("<<<M3299>>>" ++ check (runes_of_ascii "MetaData metadata { } MetaData rootA { i8 i64_ , roots options1 `a\` , lengthOf Header , Z9_ Foo
// c
, int16 BodyLength , }")).
Eval vm_compute in ("<<<M4408>>>" ++ check (runes_of_ascii "  packet len
{

    }
root
	packet

    Foo { }packet matchKey 
{ char[
10
    ]
	string_ `{ , }`
,  // " ++ [27880; 37322]%N ++ runes_of_ascii "
  }

")).
Eval vm_compute in ("<<<M3092>>>" ++ check (runes_of_ascii "packet A {
    match k as n {
        ""x\
y"" : B,
        [""x\
y"", 1] : C,
        [1,2,3,4,5,""x\
y""] : D,
    },
}")).
Eval vm_compute in ("<<<M3355>>>" ++ check (runes_of_ascii "MetaData float { uint8 BodyLength , } MetaData charz { float32 trueish `a\` , i16 metadata `say ""hi""` , }
// c
")).
Eval vm_compute in ("<<<M3338>>>" ++ check (runes_of_ascii "MetaData float { uint8 BodyLength , } MetaData charz { float32 // c
trueish `a\` , i16 metadata `say ""hi""` , }")).
Eval vm_compute in ("<<<M1920>>>" ++ check (runes_of_ascii "packet	packetx { // trailing space 
x_y_z
{
string
charz ,
string x// @lengthOf(
`two words`
    ,  u8x {")).
Eval vm_compute in ("<<<M985>>>" ++ check (runes_of_ascii "// packet A { u8 x, }
packet	packetx {
rootA @calculatedFrom(
""" ++ [28040; 24687]%N ++ runes_of_ascii """ )	`a\` , @tag(
    1 ) string o,
}
")).
Eval vm_compute in ("<<<M166>>>" ++ check (runes_of_ascii "  MetaData
charz { // " ++ [27880; 37322]%N ++ runes_of_ascii "
char[ 65535 ] i64_
,tag msg_type
`say ""hi""` ,
// trailing space 
//	t
} 	 ")).
Eval vm_compute in ("<<<M119>>>" ++ check (runes_of_ascii "root packet T { } MetaData msg_type
{ i64_
i64_,
    }
    /// triple
    root packet	x_y_z	{ } 	 ")).
Eval vm_compute in ("<<<M2983>>>" ++ check (runes_of_ascii "packet A {
  match k as n {
    [""a"", ""bb"", 007, ""d"", ""e"", 66, ""g"", ""h"", 9] : B
    2 : C
  },
}")).
Eval vm_compute in ("<<<M3602>>>" ++ check (runes_of_ascii "// @lengthOf(
options {
    calculatedFrom = true
}

options {
    As = 7;
}

packet x_y_z {
}")).
Eval vm_compute in ("<<<M2977>>>" ++ check (runes_of_ascii "packet A {
  match k as n {
    [1, ""bb"", 007, ""d"", 5, ""f"", 7, ""h"", 9] : B
    2 : C
  },
}")).
Eval vm_compute in ("<<<M1829>>>" ++ check (runes_of_ascii "options { } packet Packet{char[] i64_ ,
@tag(
    255) match
crc as i8i8{""{,}"" : trueis")).
Eval vm_compute in ("<<<M2242>>>" ++ check (runes_of_ascii "MetaData _x {string x `// not a comment` } string
i64_ // trailing space 
`a\` ,
    }
")).
Eval vm_compute in ("<<<M2854>>>" ++ check (runes_of_ascii "@calculatedFrom( f64 float64 @calculatedFrom( false } root } : u32 uint8 [ root uint16")).
Eval vm_compute in ("<<<M2950>>>" ++ check (runes_of_ascii "packet A {
  match k as n {
    [1, ""bb"", 007, ""d"", 5, ""f"", 7] : B,
    2 : C
  },
}")).
Eval vm_compute in ("<<<M438>>>" ++ check (runes_of_ascii "options{ pack = u64 ; rootA /// triple
=""packet""// 50% %s
;As
    =
    true
;
}
")).
Eval vm_compute in ("<<<M3969>>>" ++ check (runes_of_ascii "

  MetaData
crc
{
        /// triple
    MetaDataX
    i64_ //
  ,

    }

")).
Eval vm_compute in ("<<<M130>>>" ++ check (runes_of_ascii "options
    {
BodyLength=
    // a // b
    ""\" ++ [233]%N ++ runes_of_ascii """	; rootA= true
;
Pad = 1;
}
")).
Eval vm_compute in ("<<<M3371>>>" ++ check (runes_of_ascii "MetaData _x { f64
// c
charz `tab	here` , } options { BodyLength = """ ++ [233]%N ++ runes_of_ascii "t" ++ [233]%N ++ runes_of_ascii """ ; }")).
Eval vm_compute in ("<<<M2925>>>" ++ check (runes_of_ascii "packet A {
  match k as n {
    [1, ""bb"", 007, ""d"", 5] : B
    2 : C
  },
}")).
Eval vm_compute in ("<<<M3878>>>" ++ check (runes_of_ascii "  packet	x_y_z

{

string

charz  
  // trailing space 

  // " ++ [27880; 37322]%N ++ runes_of_ascii "
  , 
}
")).
Eval vm_compute in ("<<<M2907>>>" ++ check (runes_of_ascii "packet A {
  match k as n {
    [1, 22, 007, 4] : B,
    2 : C
  },
}")).
Eval vm_compute in ("<<<M3417>>>" ++ check (runes_of_ascii "packet o { @tag( 4294967296 ) options1 @lengthOf(
// c
u8x ) `" ++ [233]%N ++ runes_of_ascii "` , }")).
Eval vm_compute in ("<<<M1363>>>" ++ check (runes_of_ascii "MetaData Z9_
    { As A ,len u
`u8 x,`// @lengthOf(
,
u64
Z9_ , }
")).
Eval vm_compute in ("<<<M2945>>>" ++ check (runes_of_ascii "packet A { Inner { match k as n { [1,22,007,4,5,66] : B, }, }, }")).
Eval vm_compute in ("<<<M1612>>>" ++ check (runes_of_ascii "packet calculatedFrom
{ @calculatedFrom( ""a\\"" ) zchar[ 4294")).
Eval vm_compute in ("<<<M3481>>>" ++ check (runes_of_ascii "root packet P {
    repeat string ss,
    repeat u16 ns,
}
")).
Eval vm_compute in ("<<<M1106>>>" ++ check (runes_of_ascii "
MetaData T
{
zchar[
0
//x
//
] u,
int16 float ,} // c")).
Eval vm_compute in ("<<<M2839>>>" ++ check (runes_of_ascii "match false i8 @tag( repeat false float64 @tag( true =")).
Eval vm_compute in ("<<<M186>>>" ++ check (runes_of_ascii "options {x_y_z =""" ++ [233]%N ++ runes_of_ascii "t" ++ [233]%N ++ runes_of_ascii """ ; i64_ =i8 falsey = ""CRC32"" }")).
Eval vm_compute in ("<<<M707>>>" ++ check (runes_of_ascii "MetaData uint8x
{ }  options{ lengthOf=
false }
")).
Eval vm_compute in ("<<<M2315>>>" ++ check (runes_of_ascii "
MetaData Pad{
u32 rootA , `line1
line2`
    }
")).
Eval vm_compute in ("<<<M172>>>" ++ check (runes_of_ascii "MetaData
    asx {zchar[
42
    ]
chars	, }
")).
Eval vm_compute in ("<<<M4481>>>" ++ check (runes_of_ascii "
packet A{u8

x
	`d 	`

    ,	// c 	
}

")).
Eval vm_compute in ("<<<M2068>>>" ++ check (runes_of_ascii "packet// packet A { u8 x, }
repeatCount	{")).
Eval vm_compute in ("<<<M3239>>>" ++ check (runes_of_ascii "MetaData zchar { zchar[ // c
3 ] Pad , }")).
Eval vm_compute in ("<<<M3195>>>" ++ check (runes_of_ascii "packet A {    u8 x, // c    u8 y,}")).
Eval vm_compute in ("<<<M2737>>>" ++ check (runes_of_ascii "|L:aVD< U}`R/=(j'DawDDu<pie}{OR}d~>~")).
Eval vm_compute in ("<<<M3220>>>" ++ check (runes_of_ascii "root // a
 packet // b
 A // c
 { }")).
Eval vm_compute in ("<<<M2632>>>" ++ check (runes_of_ascii "packet A { match k n { 1 : B }, }")).
Eval vm_compute in ("<<<M1272>>>" ++ check (runes_of_ascii "options
{
u128 = 007 ;
    }
")).
Eval vm_compute in ("<<<M4280>>>" ++ check (runes_of_ascii "root
packet

asx

    {  }

")).
Eval vm_compute in ("<<<M226>>>" ++ check (runes_of_ascii "root
packet i8i8 {
} // c")).
Eval vm_compute in ("<<<M2647>>>" ++ check (runes_of_ascii "packet A { u8 x, @tag(1) }")).
Eval vm_compute in ("<<<M4507>>>" ++ check (runes_of_ascii "

  root

packet len

{}
")).
Eval vm_compute in ("<<<M649>>>" ++ check (runes_of_ascii "MetaData zchar{
    }
")).
Eval vm_compute in ("<<<M1266>>>" ++ check (runes_of_ascii "// trailing space 

")).
Eval vm_compute in ("<<<M2689>>>" ++ check (runes_of_ascii "options options { }")).
Eval vm_compute in ("<<<M3140>>>" ++ check (runes_of_ascii "// c" ++ [8232]%N ++ runes_of_ascii "
packet A {
}")).
Eval vm_compute in ("<<<M2587>>>" ++ check (runes_of_ascii "packet A { u8 , }")).
Eval vm_compute in ("<<<M379>>>" ++ check (runes_of_ascii "options
    { }
")).
Eval vm_compute in ("<<<M182>>>" ++ check (runes_of_ascii "packet asx{ }
")).
Eval vm_compute in ("<<<M866>>>" ++ check (runes_of_ascii "
 // " ++ [128512]%N ++ runes_of_ascii " emoji")).
Eval vm_compute in ("<<<M2739>>>" ++ check (runes_of_ascii "@tag( char")).
Eval vm_compute in ("<<<M4201>>>" ++ check (runes_of_ascii "  // c" ++ [11]%N ++ runes_of_ascii "
")).
Eval vm_compute in ("<<<M2475>>>" ++ check (runes_of_ascii "option")).
Eval vm_compute in ("<<<M2694>>>" ++ check (runes_of_ascii "u8 x,")).
Eval vm_compute in ("<<<M2522>>>" ++ check (runes_of_ascii "//x")).
Eval vm_compute in ("<<<M2528>>>" ++ check (runes_of_ascii """a\")).
Eval vm_compute in ("<<<M2539>>>" ++ check (runes_of_ascii "``")).
Eval vm_compute in ("<<<M2706>>>" ++ check ([65279]%N)).
