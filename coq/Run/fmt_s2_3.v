From FP Require Import Lexer Parser ShowPT Digest Formatter.
From Coq Require Import String List NArith.
Import ListNotations.
Open Scope string_scope.
Set Printing Width 100000000.
Set Printing Depth 100000000.
Definition show_fres (r : fres) : string :=
  match r with
  | FOk s => "OK:" ++ sh_escaped s ""
  | FErr s => "ERR:" ++ sh_escaped s ""
  | FPanic p => "PANIC:" ++ p
  end.
Definition check (rs : list rune) : string := digest (show_fres (format_res rs)).
Definition full (rs : list rune) : string := show_fres (format_res rs).
Eval vm_compute in ("<<<M3549>>>" ++ check (runes_of_ascii "// top
options // c0a
  // c0b
{
    // c1
StringPrefixLenType // c2
= u8 ; ArrayPrefixLenType // c6
= // c7
u32
    // c8
; // c9
FixedStringPadFromLeft
    // c10
= // c11a
  // c11b
false // c12a
  // c12b
;
    // c13
FixedStringPadChar = ' ' ; // c17a
  // c17b
} // c18a
  // c18b
packet Party // c20a
  // c20b
{ // c21a
  // c21b
repeat
    // c22
i16 // c23a
  // c23b
Qty
    // c24
, // c25a
  // c25b
repeat string // c27
Tail // c28a
  // c28b
, i8 OrderId // c31a
  // c31b
, // c32a
  // c32b
i8 msgKind // c34a
  // c34b
, // c35a
  // c35b
} packet Ack // c38
{
    // c39
Party // c40a
  // c40b
, repeat // c42a
  // c42b
InRef20
    // c43
{ Party // c45a
  // c45b
, int8 // c47a
  // c47b
tag7
    // c48
,
    // c49
char[ // c50a
  // c50b
5 // c51a
  // c51b
] OrderId // c53a
  // c53b
, zchar[ 7 // c56
] // c57
Tail // c58a
  // c58b
, // c59
char[] // c60a
  // c60b
count // c61
, // c62a
  // c62b
InPrice45 // c63
{ // c64
Party , // c66a
  // c66b
char[
    // c67
1
    // c68
]
    // c69
Px ,
    // c71
} // c72a
  // c72b
, } // c74a
  // c74b
, // c75a
  // c75b
char[ // c76
12
    // c77
]
    // c78
price
    // c79
, // c80
int8
    // c81
sym // c82
, // c83
} packet Reject // c86
{
    // c87
repeat InPrice47 // c89
{ // c90a
  // c90b
Party , // c92a
  // c92b
} , // c94a
  // c94b
zchar[ // c95a
  // c95b
4 // c96
] // c97
x // c98
, // c99
repeat Ack
    // c101
, // c102
zchar[ // c103a
  // c103b
2 // c104a
  // c104b
] // c105a
  // c105b
Ref ,
    // c107
repeat Party
    // c109
, // c110a
  // c110b
} // c111
packet Cancel // c113
{ // c114a
  // c114b
Reject ,
    // c116
repeat string // c118a
  // c118b
f1 ,
    // c120
uint16 // c121a
  // c121b
OrderId
    // c122
,
    // c123
u8 // c124
Acct , // c126a
  // c126b
int8
    // c127
msgKind , } // c130
root packet // c132
Fill
    // c133
{ u8 // c135a
  // c135b
count , char[] // c138
tag7 ,
    // c140
zchar[ // c141a
  // c141b
7 ]
    // c143
Acct // c144a
  // c144b
, // c145a
  // c145b
u32 // c146
OrderId ,
    // c148
u32 Note
    // c150
@lengthOf( // c151a
  // c151b
Body // c152
) // c153
, // c154a
  // c154b
match
    // c155
OrderId // c156
as // c157a
  // c157b
Body
    // c158
{ // c159a
  // c159b
106
    // c160
: // c161
Cancel
    // c162
, 196
    // c164
: // c165
Reject // c166
, // c167
74 // c168
: Party ,
    // c171
75 : // c173
Ack
    // c174
, } , // c177a
  // c177b
} // c178a
  // c178b
")).
Eval vm_compute in ("<<<M3537>>>" ++ check (runes_of_ascii "// top
options
    // c0
{ // c1
StringPrefixLenType // c2
= u16 // c4a
  // c4b
; ArrayPrefixLenType
    // c6
=
    // c7
u32
    // c8
; // c9a
  // c9b
FixedStringPadFromLeft
    // c10
= // c11
false // c12a
  // c12b
; // c13
FixedStringPadChar // c14a
  // c14b
=
    // c15
'0' // c16a
  // c16b
; // c17
}
    // c18
packet Logout { // c21
f64 // c22a
  // c22b
f1 // c23
, // c24a
  // c24b
i16
    // c25
Note // c26a
  // c26b
, @rightPad // c28
( // c29
'\x00' // c30
) char[ // c32
11 // c33
]
    // c34
Flags
    // c35
, } // c37a
  // c37b
packet Cancel // c39
{
    // c40
float64 msgKind // c42
,
    // c43
} // c44a
  // c44b
packet
    // c45
Reject { // c47
InQty43 // c48a
  // c48b
{ // c49a
  // c49b
float32 // c50
sym
    // c51
, char[ // c53a
  // c53b
10
    // c54
] // c55a
  // c55b
Tail // c56a
  // c56b
, uint8 // c58a
  // c58b
venue // c59
, // c60a
  // c60b
uint16 // c61a
  // c61b
f1
    // c62
, // c63
char[ 9 // c65
] Acct // c67a
  // c67b
,
    // c68
}
    // c69
, // c70a
  // c70b
} // c71
packet // c72a
  // c72b
Trade // c73
{ // c74a
  // c74b
char[] x , zchar[ // c78
6
    // c79
] Note ,
    // c82
repeat // c83
Reject
    // c84
, // c85
} root // c87
packet Order // c89a
  // c89b
{ // c90a
  // c90b
Cancel // c91a
  // c91b
, Logout
    // c93
, // c94
u64
    // c95
Acct
    // c96
,
    // c97
u32 OrderId , match // c101
OrderId // c102
as // c103
Body
    // c104
{
    // c105
[ // c106
127 // c107a
  // c107b
, // c108
70 ]
    // c110
: // c111a
  // c111b
Reject // c112a
  // c112b
, // c113
177 : // c115a
  // c115b
Trade // c116
,
    // c117
58 // c118a
  // c118b
: // c119a
  // c119b
Logout // c120
,
    // c121
75 // c122
:
    // c123
Cancel ,
    // c125
} // c126
, u32 // c128a
  // c128b
Tail // c129
@calculatedFrom(
    // c130
""CRC32"" // c131
) // c132
, } // c134
")).
Eval vm_compute in ("<<<M180>>>" ++ check (runes_of_ascii "// @lengthOf(
MetaData
zchar {string
o
`crlf
line`	, char[]
pack // c
`crlf
line` , char[]
    // trailing space 
    Foo,
} options { stringy =
""`tick`""
    } packet leftPad {
    packetx
    @lengthOf(  roots), @lengthOf(int
// a // b
// " ++ [27880; 37322]%N ++ runes_of_ascii "
) @calculatedFrom( ""a\""b"" )
    @calculatedFrom( """ ++ [28040; 24687]%N ++ runes_of_ascii """ ) int32
MetaDataX `" ++ [233]%N ++ runes_of_ascii "` // " ++ [27880; 37322]%N ++ runes_of_ascii "
, u8 int// `tick` ""quote"" 'q'
,
@lengthOf( options1
    ) repeat u8 BodyLength// `tick` ""quote"" 'q'
,
    @tag( 1
    ) Logon
    ,repeat int32 u8x
`say ""hi""`, match int
as
charz	{ ""abc"" : roots } ,string_ {zchar	@lengthOf( calculatedFrom ) ``
,
} , } root packet lengthOf {
@tag( 4294967296 )A // packet A { u8 x, }
@lengthOf( i64_ )`doc` , body@lengthOf( lengthOf ) `it's`
    // packet A { u8 x, }
    , zchar[ 10 ] // " ++ [27880; 37322]%N ++ runes_of_ascii "
i8i8, @calculatedFrom( """ ++ [233]%N ++ runes_of_ascii "t" ++ [233]%N ++ runes_of_ascii """	) i64 int `u8 x,`,	repeat trueish { string  options1 , zchar[
    0123456789 ]_x
`tab	here` ,
Pad
    { repeat string repeatCount , repeat string _x , Packet
@lengthOf( roots ) `
`
    , string crc@calculatedFrom(""abc""),
} , match i8i8 as  string_ {// c
[ ""it's""
]
:
options1 ,
//
// @lengthOf(
""a	b"":
string_ , [
""a	b""
, 00 ] //	t
: // `tick` ""quote"" 'q'
metadata  ,
    0 :	o
    ""\" ++ [233]%N ++ runes_of_ascii """
    : Pad // packet A { u8 x, }
,}
,} , char[7 ]  i8i8 `tab	here`
    , roots { repeat uint8 _x`tab	here`,	}  ,
    repeat int64 f32a	,
match asx
as calculatedFrom { 65535 : asx
// trailing space 
//x
, [ 1
] :  uint8x,
42 :x
[ ""x y"" , ""1"",""`tick`"" , ""1"" ,
""1""
,	""a	b"" ]
    :
    MetaDataX }
,} MetaData
chars
    { }")).
Eval vm_compute in ("<<<M484>>>" ++ check (runes_of_ascii "packet stringy
//	t
/// triple
{ @tag(0123456789 )
match matchKey as
    // @lengthOf(
    i64_ { 7// a // b
:
    // " ++ [27880; 37322]%N ++ runes_of_ascii "
    Header
    [ /// triple
""a\""b"", 65535 ]:  stringy ,  ""abc"": // a // b
options1 ,0123456789 :
u ,
""1"" :lengthOf , }
    ,repeat uint64 uint8x	`two words`
, @rightPad ( ) @rightPad ('0' )repeat As
body`doc`
    //
    ,repeat // @lengthOf(
zchar {len, }  , @calculatedFrom(
    ""abc"" )	@calculatedFrom( ""1""
)@rightPad (
    '0') char[]
    zchar @lengthOf(
u ) `line1
line2`
, Header @calculatedFrom(
// c
// packet A { u8 x, }
""CRC32"" )
`{ , }`,
u64 A `tab	here`
,@leftPad ( ) @tag( 10) @tag( 4294967296)
o `doc` , uint8	a1
    /// triple
    , repeat f64 leftPad ,
} MetaData _x
{ rootA float
    `tab	here` , tag
    o`crlf
line`
,} packet Pad {
    match MetaDataX as
A { [
    4294967296 // a // b
, 42 ,""`tick`"" ,0
    ,10	,  1
, 10
, 3 ]
    :
// packet A { u8 x, }
// @lengthOf(
A  ,""packet"" : Packet }
    //x
    , @calculatedFrom( ""CRC32"" ) // @lengthOf(
crc // a // b
@lengthOf(// packet A { u8 x, }
leftPad )`say ""hi""` , BodyLength options1 `say ""hi""`
,
    repeat len
    // " ++ [128512]%N ++ runes_of_ascii " emoji
    {
    // a // b
    char[]
Header
    // `tick` ""quote"" 'q'
    ,
i16 rootA , string
uint8x @lengthOf( Header  )
`it's` , repeat u16 x_y_z`
`, } ,	} packet As { x MetaDataX ,
}
")).
Eval vm_compute in ("<<<M4242>>>" ++ check (runes_of_ascii "
// top
  	options
    // c0
    { 	 // c1
  LittleEndian 
    // c2
		=// c3
false

    ;
StringPrefixLenType 	 // c6a
		// c6b
=
    // c7
  	u8
    // c8
      ;// c9a
// c9b
ArrayPrefixLenType =  // c11
		u16
    ; 
    // c13
  FixedStringPadFromLeft

=  // c15a
  // c15b

  false// c16a
	// c16b
  ; // c17a
	// c17b
	  }  // c18
		packet// c19a
  // c19b

Heartbeat{ // c21a
		// c21b
	u8
// c22
  seqNo 	 // c23a
  	// c23b
    , 	 // c24a
	// c24b
    @rightPad ( '\x00'// c27
		)	char[
// c29
		8// c30a

	// c30b

	]// c31
  x
        // c32
	  ,// c33
  }  // c34
  root  // c35
	  packet  Trade // c37

  {
// c38
repeat 	 // c39
		Heartbeat// c40
  ,

float32
        // c42
OrderId  // c43a

	// c43b
	,	// c44

  i64
    // c45
      Acct , // c47a
  // c47b
  u16
    // c48
      Qty	// c49a
      // c49b
, // c50
u16// c51a
  	// c51b
  clOrdID
// c52
  ,	// c53a
    // c53b

match	clOrdID // c55

	as// c56a

// c56b

Body 
	    // c57
	{ 

    // c58
  131 // c59a
      // c59b
    : Heartbeat

, // c62a

// c62b
    	},
        // c64
	  u16	// c65a
  // c65b
	sym 	 // c66
  @calculatedFrom( 	 // c67a
    // c67b
	""CRC32"" // c68
  ) // c69a
	  // c69b

,
	    // c70
	  }")).
Eval vm_compute in ("<<<M371>>>" ++ check (runes_of_ascii "MetaData i8i8
    // trailing space 
    { Pad rootA
`tab	here` //
, x_y_z
metadata
,zchar[ 255] x_y_z `doc` , metadata i8i8 , uint8x
    leftPad
    `say ""hi""` , int32
charz
    `" ++ [28040; 24687; 31867; 22411]%N ++ runes_of_ascii "` , } packet
len {  char[
    255 ]
f32a//x
@calculatedFrom(
""a	b"") `// not a comment` ,f64 u8x
//
// `tick` ""quote"" 'q'
,
options1
{string charz `u8 x,` ,string_ // packet A { u8 x, }
@calculatedFrom( // " ++ [27880; 37322]%N ++ runes_of_ascii "
""a	b""
) , repeat falsey {a1 `it's`  , stringy
@lengthOf( Foo
    )
,	repeat  zchar[ 10  ]Logon
`line1
line2` ,  uint16 repeatCount @lengthOf( options1 )
    `doc`
,	} , repeat //x
u packetx, } , falsey
x_y_z, char[]matchKey
`u8 x,`
, } packet float
{ @lengthOf( Foo ) u16 a1 `crlf
line` // `tick` ""quote"" 'q'
,
    // `tick` ""quote"" 'q'
    @leftPad( )
@lengthOf( string_// `tick` ""quote"" 'q'
)
    match
asx as lengthOf{ """"
: f32a , }
,roots {
f32 A `a\` , i8 trueish @lengthOf(rootA )
    ,}
    ,
options1
    @lengthOf(_x
    )
    , /// triple
@lengthOf( asx// `tick` ""quote"" 'q'
)
    charz
    // " ++ [27880; 37322]%N ++ runes_of_ascii "
    ,
    zchar[ 10 ] a1
    @calculatedFrom(
    ""// no comment"")
`say ""hi""`
, //x
uint16 x @calculatedFrom( ""a\\"" )	,}")).
Eval vm_compute in ("<<<M741>>>" ++ check (runes_of_ascii "options // packet A { u8 x, }
{// @lengthOf(
roots
= false a1
    = '0' // trailing space 
; leftPad =true ;
// a // b
// " ++ [27880; 37322]%N ++ runes_of_ascii "
Logon
=
    ""a	b""
    // " ++ [128512]%N ++ runes_of_ascii " emoji
    }
    root packet	metadata
    // packet A { u8 x, }
    { tag @lengthOf( string_
) `it's` , @leftPad (
    ' '
    ) @lengthOf(	trueish
// a // b
//
)	@lengthOf(/// triple
A )
int64
Packet
@calculatedFrom( """" ) `
`, u
    f32a`` ,@calculatedFrom( ""abc""
) @tag(255 )char[]
//
// a // b
Logon @calculatedFrom(	""\" ++ [233]%N ++ runes_of_ascii """) , // trailing space 
repeat char[ 7
    ]a1
    ,
    char[] pack
`u8 x,`
    ,repeat
    calculatedFrom `tab	here` , @tag(  1
    ) u32 options1 , }options
{ i8i8 =  4294967296 } packet // c
roots {repeat charz x_y_z
    , } packet
msg_type  {
@lengthOf( tag // c
)
i32
Pad`" ++ [28040; 24687; 31867; 22411]%N ++ runes_of_ascii "` ,i64
a1 ,metadata
{repeat int8 float //	t
, // `tick` ""quote"" 'q'
Pad
_x,
f32 //
pack ,
// a // b
// " ++ [27880; 37322]%N ++ runes_of_ascii "
} ,
    i8 repeatCount  , char
matchKey , repeat trueish `u8 x,` ,
    o // " ++ [128512]%N ++ runes_of_ascii " emoji
leftPad ,
char[] pack `it's` ,// c
As{uint32  rootA @calculatedFrom(""it's"" ) `
`, }
,
    // c
    }")).
Eval vm_compute in ("<<<M3210>>>" ++ check (runes_of_ascii "// top
root
    // c0
packet // c1a
  // c1b
msg_type // c2a
  // c2b
{ // c3
i64 // c4
options1 // c5a
  // c5b
,
    // c6
@lengthOf( // c7a
  // c7b
f32a // c8
) // c9
repeat // c10
uint16
    // c11
Foo
    // c12
, // c13a
  // c13b
@calculatedFrom(
    // c14
""x y""
    // c15
) // c16a
  // c16b
repeat int64 // c18a
  // c18b
pack // c19a
  // c19b
, // c20a
  // c20b
@leftPad // c21
(
    // c22
' '
    // c23
) // c24a
  // c24b
uint8
    // c25
Foo , }
    // c28
packet rootA // c30a
  // c30b
{ // c31
f32a // c32a
  // c32b
x
    // c33
`two words` // c34
, char // c36
asx // c37a
  // c37b
@lengthOf(
    // c38
falsey // c39a
  // c39b
) // c40a
  // c40b
`u8 x,` // c41a
  // c41b
, // c42
@lengthOf( i64_
    // c44
)
    // c45
uint16 // c46
chars // c47a
  // c47b
, // c48
@tag( // c49a
  // c49b
0 // c50a
  // c50b
) string
    // c52
_x
    // c53
@calculatedFrom(
    // c54
""abc""
    // c55
) // c56a
  // c56b
`// not a comment`
    // c57
, // c58
} // c59a
  // c59b
")).
Eval vm_compute in ("<<<M1090>>>" ++ check (runes_of_ascii "
options{ body = ""it's""
; //
Z9_ = string ;
}
    //x
    packet
x
{repeat u128 { char[]u `a\`, } , @leftPad
(  ' ' ) @tag(
    00 ) @rightPad (
    '0' )  tag ,repeat f64
    // a // b
    float, repeat string o ,repeat int16  float
    ,
@calculatedFrom( ""it's"" ) @rightPad ( '\x00')@lengthOf(
lengthOf // " ++ [128512]%N ++ runes_of_ascii " emoji
) f32
    i8i8 ,
    repeat f32 tag `// not a comment` ,
@tag(
// trailing space 
/// triple
42// trailing space 
)x `" ++ [233]%N ++ runes_of_ascii "`
    ,
@lengthOf(
Pad )
    char[4294967296] repeatCount
`` // c
,
@lengthOf( pack
) @tag(
    007  )	uint32 leftPad
,
    } // trailing space 
root	packet int
    { @tag( 10 ) Packet // `tick` ""quote"" 'q'
@lengthOf(	MetaDataX ) , @rightPad
( '0' ) char[] MetaDataX @calculatedFrom( ""{,}""
)  `it's` , @tag(
0) // `tick` ""quote"" 'q'
@lengthOf(i64_
)
BodyLength,
@tag(
4294967296 ) repeat string Logon
    `" ++ [233]%N ++ runes_of_ascii "`/// triple
, @lengthOf( chars	)
    @tag(
10 ) @calculatedFrom( ""\" ++ [233]%N ++ runes_of_ascii """)char[] A @lengthOf( _x
    ),
    }
")).
Eval vm_compute in ("<<<M493>>>" ++ check (runes_of_ascii "packet
    chars {// c
string // " ++ [27880; 37322]%N ++ runes_of_ascii "
metadata , i32 u8x @calculatedFrom( ""`tick`"" ) ,
    repeat char[] stringy
,
char[ 10 ] pack
    `u8 x,` // a // b
,o ,
falsey  @calculatedFrom(
    //
    ""`tick`""// c
)
    `it's`,
    @leftPad
// `tick` ""quote"" 'q'
// a // b
( )u32 body `u8 x,`,	@calculatedFrom(""packet"" // " ++ [128512]%N ++ runes_of_ascii " emoji
)  char metadata
`// not a comment`,
    // " ++ [27880; 37322]%N ++ runes_of_ascii "
    @lengthOf( A )
    float64 _x @lengthOf(
Header
// " ++ [27880; 37322]%N ++ runes_of_ascii "
// trailing space 
) , body ,}
    packet Header// trailing space 
{ falsey
// c
// c
,
    match trueish as lengthOf { ""packet"" : i8i8 ""x y""  :
falsey [
""\" ++ [233]%N ++ runes_of_ascii """
    ]: zchar	, 00 :
    float ,
""\n""	: f32a	, } , string A `two words`  ,repeat char[ 0
    ] Z9_
// c
//
`two words`,repeat Z9_ x , char
    // `tick` ""quote"" 'q'
    trueish,}MetaData x_y_z
    { float32  x `a\` ,u128 i64_`a\`,
    x_y_z trueish
, u16 i64_ , }root
packet pack { }options  { msg_type = 007 ; }")).
Eval vm_compute in ("<<<M376>>>" ++ check (runes_of_ascii "packet options1 { repeat  matchKey `doc` , char[] string_
    // " ++ [27880; 37322]%N ++ runes_of_ascii "
    `
`, // packet A { u8 x, }
uint16 T , repeatCount
    _x
    ,} packet msg_type
    { @lengthOf( Pad
    )
asx @calculatedFrom(
    ""\" ++ [233]%N ++ runes_of_ascii """) ,  @tag( 4294967296
) Logon `a\`,@tag( 0
    )
crc  @lengthOf(charz// " ++ [128512]%N ++ runes_of_ascii " emoji
) `u8 x,`
, char[	0	] f32a // " ++ [128512]%N ++ runes_of_ascii " emoji
,  u8
    A `line1
line2`,Z9_ u `{ , }`
, repeat uint8x `" ++ [28040; 24687; 31867; 22411]%N ++ runes_of_ascii "`	, int8 Packet@calculatedFrom( ""{,}""
) ,
    // packet A { u8 x, }
    } packet A {
// trailing space 
// trailing space 
@tag( 3)@tag(
    /// triple
    1
    )
u16 A// c
, @tag(1 )
match
//
// @lengthOf(
roots as
pack{ // c
[
    ""CRC32"" ] :
i8i8
""a\\""
    : trueish , [ ""{,}"",	""" ++ [28040; 24687]%N ++ runes_of_ascii """ ] :
    falsey
    // `tick` ""quote"" 'q'
    } // a // b
, @rightPad// packet A { u8 x, }
( ' ') int16 Packet `
` , // `tick` ""quote"" 'q'
repeat zchar[1
] Pad  , // a // b
}
")).
Eval vm_compute in ("<<<M855>>>" ++ check (runes_of_ascii "MetaData Logon {int x `u8 x,` , i16 calculatedFrom `say ""hi""` , trueish x_y_z `// not a comment`	, }
options {len  = true	;} packet
crc {
@lengthOf( matchKey ) repeat  body
{ uint64 chars
    , match
Packet as
// " ++ [27880; 37322]%N ++ runes_of_ascii "
// c
float
    {""// no comment"" :
// packet A { u8 x, }
// packet A { u8 x, }
calculatedFrom	, } , u64 body  , i8i8
lengthOf `doc`
    , } , repeat // @lengthOf(
o,
match f32a
    as int// `tick` ""quote"" 'q'
{ 255 : u8x// c
,""x y""	: As , ""\" ++ [233]%N ++ runes_of_ascii """ // packet A { u8 x, }
:
    _x 0 : _x ,
    ""1""
:
uint8x
    // trailing space 
    , }
// " ++ [128512]%N ++ runes_of_ascii " emoji
//	t
,match	falsey	as float  { [ ""`tick`"" ]:
string_ , 10
:  u8x ,"""" : crc// @lengthOf(
,
    /// triple
    0
: rootA// trailing space 
, ""abc""  : i64_
, } , @rightPad
( ' ' ) repeat float32	o // trailing space 
`// not a comment` ,o As `a\` ,	}

")).
Eval vm_compute in ("<<<M3527>>>" ++ check (runes_of_ascii "

  options {	LittleEndian
=
true
;
StringPrefixLenType
=
    u64
	;ArrayPrefixLenType=

u8 
; FixedStringPadChar

=

'0' 
; } packet
    Reject
	{ i32 Ref, repeat

    f64 OrderId  ,  repeat InNote12	{
u8
pad0
,  } ,
    @leftPad( 
' '
)
	char[
6 ]  count ,
	}
packet Logout	{
    zchar[
6
    ]Tail
	, repeat string venue
,

}	packet
Cancel
	{ 
u64	count,repeat char[
	5 ]lastPx
    ,i64  Tail , repeat InF140	{ repeat 
Logout
	,  repeat Reject ,	}, }
	root 
packet
Trade

{

repeat

InMsgkind39	{
repeat  Reject	,  char[4 ]Px 
,}
,
string Acct
	, 
uint16
	price,f32

OrderId 
,
u16 x ,	u16 clOrdID

    @lengthOf( 
Body )
	,  match
x

    as
Body

{	178 
:
    Logout  ,
13
	:
Cancel , 174 
: 
Reject 
,
	}
    , u16	Flags @calculatedFrom(""CRC32""  )
,

    }
")).
Eval vm_compute in ("<<<M3684>>>" ++ check (runes_of_ascii "packet Header {
    @lengthOf(BodyLength)
    string body @lengthOf(zchar) `two words`,
    @lengthOf(rootA)
    i32 metadata `it's`,
    @tag(00)
    // trailing space 
    msg_type @lengthOf(As),
    int {
        repeat string u128 `" ++ [233]%N ++ runes_of_ascii "`,
        match MetaDataX as packetx {
            [1, 0] : MetaDataX,
            ""{,}"" : calculatedFrom,
        },
        // trailing space 
        match asx as Logon {
            7 : uint8x,
            00 : x_y_z,
            ""\" ++ [233]%N ++ runes_of_ascii """ : o,
            """ ++ [233]%N ++ runes_of_ascii "t" ++ [233]%N ++ runes_of_ascii """ : chars,
        },
        body i64_ `crlf
                line`,
    },
    a1 `line1
        line2`,
    // `tick` ""quote"" 'q'
    // a // b
    chars `// not a comment`,
    @tag(7)
    leftPad charz,
    int64 a1 @calculatedFrom(""\n""),
}")).
Eval vm_compute in ("<<<M1086>>>" ++ check (runes_of_ascii "// " ++ [128512]%N ++ runes_of_ascii " emoji
packet u128{ repeat
MetaDataX
    ,
int64
leftPad
, //	t
@lengthOf(
    matchKey ) //
@calculatedFrom( """ ++ [28040; 24687]%N ++ runes_of_ascii """ )match T as Header{255 :repeatCount, ""it's""
    : roots
, },
}
//
//	t
packet MetaDataX{ repeat
// a // b
// packet A { u8 x, }
chars
asx  `tab	here`
    , repeat o
// c
// trailing space 
{ repeat _x { repeat uint32 charz`u8 x,` ,
zchar[42  ] leftPad @calculatedFrom( """ ++ [28040; 24687]%N ++ runes_of_ascii """ ) `doc` , /// triple
} ,  },  int16 u@lengthOf( f32a//	t
) `tab	here` ,match f32a
as i64_
    { 00 :
    len
    // `tick` ""quote"" 'q'
    , } ,
    } MetaData
    //x
    pack { f32a
packetx ,zchar[ 10 ] Header
    `tab	here` , zchar[
007
    ]
    string_ `crlf
line`
, char[]
    matchKey , float64 float,}
")).
Eval vm_compute in ("<<<M3603>>>" ++ check (runes_of_ascii "packet rootA {
    @tag(3)
    zchar[00] x_y_z `" ++ [28040; 24687; 31867; 22411]%N ++ runes_of_ascii "`,
    _x,
    // a // b
    float64 A @lengthOf(u8x),
    u8 rootA `line1
        line2`,
    zchar[7] stringy,
    match Header as f32a {
        ""\" ++ [233]%N ++ runes_of_ascii """ : o,
        [
            4294967296, 7, 4294967296, ""packet"", ""a	b"",
            ""CRC32"", 7, ""a	b""
        ] : repeatCount,
        ""a\""b"" : Header,
        [""a\""b""] : crc,
        [007, 007, ""abc""] : metadata,
        4294967296 : chars,
    },
    @tag(1)
    i8 matchKey `a\`,
    // @lengthOf(
    // " ++ [128512]%N ++ runes_of_ascii " emoji
    @lengthOf(body)
    tag,
    @lengthOf(matchKey)
    @lengthOf(o)
    @lengthOf(pack)
    repeat u {
        calculatedFrom @lengthOf(falsey),
    },
}")).
Eval vm_compute in ("<<<M3261>>>" ++ check (runes_of_ascii "// top
MetaData
    // c0
x_y_z
    // c1
{
    // c2
char
    // c3
body
    // c4
,
    // c5
f64
    // c6
i8i8
    // c7
`two words`
    // c8
,
    // c9
body
    // c10
body
    // c11
`" ++ [28040; 24687; 31867; 22411]%N ++ runes_of_ascii "`
    // c12
,
    // c13
}
    // c14
root
    // c15
packet
    // c16
chars
    // c17
{
    // c18
@lengthOf(
    // c19
i64_
    // c20
)
    // c21
chars
    // c22
,
    // c23
i8i8
    // c24
{
    // c25
falsey
    // c26
@lengthOf(
    // c27
stringy
    // c28
)
    // c29
`doc`
    // c30
,
    // c31
}
    // c32
,
    // c33
x
    // c34
@lengthOf(
    // c35
A
    // c36
)
    // c37
`crlf
line`
    // c38
,
    // c39
}
    // c40
")).
Eval vm_compute in ("<<<M113>>>" ++ check (runes_of_ascii "root packet Pad{ @lengthOf( _x) As i8i8 ,f32 lengthOf
`a\`	,
    // " ++ [27880; 37322]%N ++ runes_of_ascii "
    repeat len  `tab	here` , zchar[ //	t
3 ] body, int8 matchKey
    `crlf
line` ,}
    MetaData metadata { matchKey  packetx
    ,
}
    packet options1	{ repeat charz `line1
line2`, int8 options1
    // " ++ [27880; 37322]%N ++ runes_of_ascii "
    ,
    repeat	roots
{
repeat	float32	x_y_z `say ""hi""`,	}
// c
// a // b
,int64 options1 // `tick` ""quote"" 'q'
`line1
line2` , match  falsey
as falsey
    {
    [ ""// no comment""// packet A { u8 x, }
, """"]:_x  , 42 : // @lengthOf(
crc ""packet"" : repeatCount, """ ++ [128512]%N ++ runes_of_ascii """
    //	t
    :u8x , ""abc""
: falsey, } , repeat	float64
x_y_z `a\`,
}")).
Eval vm_compute in ("<<<M4072>>>" ++ check (runes_of_ascii "

  packet 
i64_ {	@lengthOf(
Foo

)// `tick` ""quote"" 'q'
@lengthOf(calculatedFrom
    )	o 
        /// triple

@calculatedFrom(
""{,}""	) ,
    uint16 lengthOf

@calculatedFrom(  // a // b

""" ++ [128512]%N ++ runes_of_ascii """ )
, char[007  ]

trueish
,
@tag( 
// c
	00

// `tick` ""quote"" 'q'
		)@tag(//	t
007
	)
        // a // b

	// " ++ [128512]%N ++ runes_of_ascii " emoji
  float
    @calculatedFrom(

    ""\n""
)	, charz
    A , Logon @calculatedFrom(
    ""// no comment"" )  `
`  // " ++ [27880; 37322]%N ++ runes_of_ascii "
, @lengthOf( msg_type
)BodyLength As
`a\`
,
zchar[ 	 // @lengthOf(
	10
	]
	zchar @calculatedFrom( """" // trailing space 
  )`doc`

    ,
}
")).
Eval vm_compute in ("<<<M448>>>" ++ check (runes_of_ascii "packet int{ @rightPad (
) @lengthOf(	zchar )
    @tag(
7 ) repeat pack ,
    match f32a as
    // @lengthOf(
    float {255: Foo 7 :Pad
[ ""it's"" , 007
    ,
    // `tick` ""quote"" 'q'
    """", ""x y"" ,
""packet"", ""a	b"" ]	: As
    ,4294967296 : Packet ,""" ++ [28040; 24687]%N ++ runes_of_ascii """ : i64_ , } ,char[] Foo@lengthOf(	u8x )
`it's`
,
    @tag( 007 ) u64 Packet , } options { u128
    = ""packet""
//	t
// packet A { u8 x, }
}root
packet leftPad{
    //	t
    } root packet msg_type
{ // packet A { u8 x, }
@leftPad
    (
'0' ) uint64 a1 // " ++ [128512]%N ++ runes_of_ascii " emoji
, }
// `tick` ""quote"" 'q'
")).
Eval vm_compute in ("<<<M3666>>>" ++ check (runes_of_ascii "// top
options {
    // c1
    chars = ""a\\""
    // c4
}

// c5
packet Z9_ {
    // c8
    match BodyLength as roots {
        // c13
        """ ++ [28040; 24687]%N ++ runes_of_ascii """ : falsey,
        // c17
        00 : u128,
        // c20
        0 : len,
        // c24
        007 : f32a,
        // c27
    },
    // c29
    @tag(3)
    // c32
    @calculatedFrom(""`tick`"")
    // c35
    @leftPad(' ')
    // c39
    string asx,
    // c42
    string u @lengthOf(options1),
    // c48
    float32 i64_ @calculatedFrom(""a\""b""),
    // c54
}
// c55")).
Eval vm_compute in ("<<<M740>>>" ++ check (runes_of_ascii "packet chars {
// `tick` ""quote"" 'q'
// `tick` ""quote"" 'q'
@lengthOf(trueish ) char[10 ] metadata
//	t
// packet A { u8 x, }
@calculatedFrom(""x y"" )
    , MetaDataX @lengthOf(
BodyLength)
`u8 x,` ,match
    x
    // trailing space 
    as trueish { 7 /// triple
: matchKey , }
    , }root packet	len { // packet A { u8 x, }
x@lengthOf(Pad // `tick` ""quote"" 'q'
),
    asx { pack
_x , } ,} MetaData // `tick` ""quote"" 'q'
pack
    {
int8 //x
zchar
    // @lengthOf(
    `tab	here`
,}
")).
Eval vm_compute in ("<<<M1046>>>" ++ check (runes_of_ascii "packet  Packet{ float64 x
@calculatedFrom( ""a\""b"" )
`u8 x,`
,
@rightPad ( '\x00' )
    @rightPad
(
    // " ++ [128512]%N ++ runes_of_ascii " emoji
    '0' ) @leftPad (
    ' '
    ) char[]
    _x ,	Packet @lengthOf(
// a // b
// a // b
crc ) , repeat float64 leftPad
    `
`
,
    @leftPad	(
    '0') matchKey @calculatedFrom( ""{,}"")
,
    repeat  body int,
u16 o, }
    options{
A =
    true leftPad= char[	4294967296 ] ; T  = float64 // trailing space 
; options1 =
/// triple
// a // b
65535 ; }")).
Eval vm_compute in ("<<<M3753>>>" ++ check (runes_of_ascii "packet u128 {
    @rightPad()
    @tag(7)
    stringy body,
}// packet A { u8 x, }

root packet i64_ {
}

packet falsey {
    float @lengthOf(_x) `" ++ [233]%N ++ runes_of_ascii "`,
    i32 a1,
    u {
        //	t
        string crc,
    },
    @leftPad()
    repeat options1 {
        calculatedFrom @calculatedFrom(""it's"") `{ , }`,
        zchar falsey `u8 x,`,
        repeat falsey,
    },
}

root packet pack {
    @tag(0123456789)
    // @lengthOf(
    repeat uint32 roots,
}")).
Eval vm_compute in ("<<<M1221>>>" ++ check (runes_of_ascii "root packet pack {
    charz calculatedFrom `{ , }` , match i8i8
as o
    { [
65535
    // `tick` ""quote"" 'q'
    ] :
    len ""CRC32"" :Foo
,	[ ""a\""b"" ] :Foo """ ++ [128512]%N ++ runes_of_ascii """: options1,}
    , repeat//
u64  roots, u8x
`two words`, zchar // trailing space 
, trueish , u64 u128 @lengthOf( packetx ) `a\` ,
@tag(
    1 )// " ++ [27880; 37322]%N ++ runes_of_ascii "
uint32 pack @calculatedFrom( ""\n"" )// @lengthOf(
, @tag( 1 )	float32 // @lengthOf(
len
, @tag( 7) float32
falsey
    , }
")).
Eval vm_compute in ("<<<M414>>>" ++ check (runes_of_ascii "// @lengthOf(
options
{
a1
    // a // b
    =false ;
}root packet options1	{ i64_ @lengthOf( // trailing space 
matchKey) ,  u64
Logon `say ""hi""`  ,
@lengthOf( a1 // packet A { u8 x, }
)	@calculatedFrom(
""\" ++ [233]%N ++ runes_of_ascii """ ) // `tick` ""quote"" 'q'
repeat float32 _x // packet A { u8 x, }
,@calculatedFrom(	""// no comment"" ) @tag( 7	)
@calculatedFrom( ""abc"") int16
    options1 @calculatedFrom( ""CRC32"" ) ,// `tick` ""quote"" 'q'
}")).
Eval vm_compute in ("<<<M4154>>>" ++ check (runes_of_ascii "root packet metadata {
    // packet A { u8 x, }
    @rightPad(' ')
    @leftPad('\x00')
    f64 a1 `u8 x,`,// trailing space 
    char[7] metadata @lengthOf(Logon),
    @calculatedFrom(""\n"")
    char[4294967296] repeatCount,
    @tag(65535)
    zchar[255] chars @lengthOf(stringy),
    zchar {
        zchar @lengthOf(crc),
        uint64 Packet `crlf
                line`,
    },
    /// triple
}")).
Eval vm_compute in ("<<<M4029>>>" ++ check (runes_of_ascii "root //x
	  packet	rootA
{@leftPad
('\x00' ) @rightPad (
    ' ')  
      // a // b
    	@tag(
    0 )
	repeat	zchar[	3
]
matchKey  ,  // packet A { u8 x, }
	} 
packet u8x {

}options{packetx =
'0'

Pad
=  '\x00'  Logon =

    false 
; }
	    // " ++ [128512]%N ++ runes_of_ascii " emoji
		// c
	MetaData	u8x { i32 rootA

,  MetaDataX
	zchar`" ++ [233]%N ++ runes_of_ascii "` ,	// packet A { u8 x, }

int64
	Foo
`// not a comment`	,	}
")).
Eval vm_compute in ("<<<M364>>>" ++ check (runes_of_ascii "packet string_{ repeat
crc {
As
@calculatedFrom( ""// no comment"" ) `" ++ [28040; 24687; 31867; 22411]%N ++ runes_of_ascii "` // trailing space 
,char x_y_z @lengthOf( Header )
    `u8 x,`
, } ,} root packet u128{ stringy// a // b
@lengthOf( options1 ) , } packet i64_
// " ++ [128512]%N ++ runes_of_ascii " emoji
// `tick` ""quote"" 'q'
{ @lengthOf( u128 )
@lengthOf(pack
) char[ 4294967296
] falsey@calculatedFrom( """ ++ [233]%N ++ runes_of_ascii "t" ++ [233]%N ++ runes_of_ascii """
// " ++ [27880; 37322]%N ++ runes_of_ascii "
// trailing space 
),
}
")).
Eval vm_compute in ("<<<M1351>>>" ++ check (runes_of_ascii "packet  rootA
    // `tick` ""quote"" 'q'
    { leftPad @calculatedFrom( ""`tick`""),
    } root // trailing space 
packet zchar {
    char[	3 ] Packet ,	@tag( 3 ) zchar[ 00 ] lengthOf , repeat u128 {
repeat int64 A ,/// triple
}
    ,  @leftPad ( '0' )
@lengthOf( u
//	t
// c
) @lengthOf(	repeatCount  ) asx {
repeat int `" ++ [233]%N ++ runes_of_ascii "`,	zchar[ 3
] u128
,} , }

")).
Eval vm_compute in ("<<<M1398>>>" ++ check (runes_of_ascii "
packet i8i8 // " ++ [27880; 37322]%N ++ runes_of_ascii "
{@calculatedFrom(
    """ ++ [233]%N ++ runes_of_ascii "t" ++ [233]%N ++ runes_of_ascii """) @calculatedFrom(	""" ++ [28040; 24687]%N ++ runes_of_ascii """ )
repeat
    leftPad {  uint64 A	@lengthOf( pack ) , As@calculatedFrom(""\n"" ) `it's` , i64_ @calculatedFrom( """ ++ [233]%N ++ runes_of_ascii "t" ++ [233]%N ++ runes_of_ascii """
    ) , u64 u ,
    } , repeat u8
/// triple
// a // b
Logon `u8 x,` , options1
    @calculatedFrom("""" ),
    repeat string packetx `{ , }` , //
}
")).
Eval vm_compute in ("<<<M4162>>>" ++ check (runes_of_ascii "options {
    calculatedFrom = '0';
}

root packet metadata {
    i64 float @calculatedFrom(""1""),
    @rightPad()
    Logon u `crlf
    line`,// trailing space 
    falsey Packet `line1
    line2`,
    u32 a1 `tab	here`,
}// " ++ [128512]%N ++ runes_of_ascii " emoji

options {
    lengthOf = '\x00'
    msg_type = uint8;
    repeatCount = 0123456789;
}//x")).
Eval vm_compute in ("<<<M360>>>" ++ check (runes_of_ascii "
packet zchar{
stringy//
@lengthOf(
    MetaDataX )
    `it's` ,
    @tag(
    1
    )match	Z9_ as
    calculatedFrom { """ ++ [28040; 24687]%N ++ runes_of_ascii """ :
    Header, 0123456789 : asx [	255 ]//	t
: // " ++ [128512]%N ++ runes_of_ascii " emoji
rootA	""\n""
: zchar , } , repeat float64 rootA, char[] repeatCount
, repeat
int32 metadata `" ++ [233]%N ++ runes_of_ascii "` , repeat
char[
7	] u8x ,
    }
")).
Eval vm_compute in ("<<<M1435>>>" ++ check (runes_of_ascii "root packet Foo // " ++ [128512]%N ++ runes_of_ascii " emoji
{ } options options {
    // a // b
    tag // `tick` ""quote"" 'q'
= //	t
""""
    ; u8x = zchar[0  ] }
MetaData
    int {zchar[ 10]
lengthOf	`` , i64 u8x`// not a comment` ,MetaDataX pack// `tick` ""quote"" 'q'
`crlf
line`
, Logon charz `crlf
line`
    ,
    // a // b
    }
")).
Eval vm_compute in ("<<<M1515>>>" ++ check (runes_of_ascii "root packet Foo // " ++ [128512]%N ++ runes_of_ascii " emoji
{ } options {
    // a // b
    tag // `tick` ""quote"" 'q'
= //	t
""""
    ; u8x = zchar[0  ] }
MetaData
    int {zchar[ 10 10]
lengthOf	`` , i64 u8x`// not a comment` ,MetaDataX pack// `tick` ""quote"" 'q'
`crlf
line`
, Logon charz `crlf
line`
    ,
    // a // b
    }
")).
Eval vm_compute in ("<<<M1616>>>" ++ check (runes_of_ascii "root packet Foo // " ++ [128512]%N ++ runes_of_ascii " emoji
{ } options {
    // a // b
    tag // `tick` ""quote"" 'q'
= //	t
""""
    ; u8x = zchar[0  ] }
MetaData
    int {zchar[ 10]
lengthOf	`` , i64 u8x`// not a comment` ,MetaDataX % pack// `tick` ""quote"" 'q'
`crlf
line`
, Logon charz `crlf
line`
    ,
    // a // b
    }
")).
Eval vm_compute in ("<<<M1471>>>" ++ check (runes_of_ascii "root packet Foo // " ++ [128512]%N ++ runes_of_ascii " emoji
{ } options {
    // a // b
    tag // `tick` ""quote"" 'q'
= //	t
""""
    ; u8x zchar[ =0  ] }
MetaData
    int {zchar[ 10]
lengthOf	`` , i64 u8x`// not a comment` ,MetaDataX pack// `tick` ""quote"" 'q'
`crlf
line`
, Logon charz `crlf
line`
    ,
    // a // b
    }
")).
Eval vm_compute in ("<<<M1439>>>" ++ check (runes_of_ascii "root packet Foo // " ++ [128512]%N ++ runes_of_ascii " emoji
{ } options 
    // a // b
    tag // `tick` ""quote"" 'q'
= //	t
""""
    ; u8x = zchar[0  ] }
MetaData
    int {zchar[ 10]
lengthOf	`` , i64 u8x`// not a comment` ,MetaDataX pack// `tick` ""quote"" 'q'
`crlf
line`
, Logon charz `crlf
line`
    ,
    // a // b
    }
")).
Eval vm_compute in ("<<<M1464>>>" ++ check (runes_of_ascii "root packet Foo // " ++ [128512]%N ++ runes_of_ascii " emoji
{ } options {
    // a // b
    tag // `tick` ""quote"" 'q'
= //	t
""""
    ;  = zchar[0  ] }
MetaData
    int {zchar[ 10]
lengthOf	`` , i64 u8x`// not a comment` ,MetaDataX pack// `tick` ""quote"" 'q'
`crlf
line`
, Logon charz `crlf
line`
    ,
    // a // b
    }
")).
Eval vm_compute in ("<<<M1494>>>" ++ check (runes_of_ascii "root packet Foo // " ++ [128512]%N ++ runes_of_ascii " emoji
{ } options {
    // a // b
    tag // `tick` ""quote"" 'q'
= //	t
""""
    ; u8x = zchar[0  ] }

    int {zchar[ 10]
lengthOf	`` , i64 u8x`// not a comment` ,MetaDataX pack// `tick` ""quote"" 'q'
`crlf
line`
, Logon charz `crlf
line`
    ,
    // a // b
    }
")).
Eval vm_compute in ("<<<M1128>>>" ++ check (runes_of_ascii "//x
MetaData
    // packet A { u8 x, }
    rootA{
    //	t
    zchar[ 42 ]
    msg_type
    //
    ,matchKey
    trueish , // c
}  packet charz{ @leftPad
    ('0')
    metadata packetx  ,
    } MetaData	f32a { zchar[
    007]
    // a // b
    rootA,u32 calculatedFrom , }")).
Eval vm_compute in ("<<<M4521>>>" ++ check (runes_of_ascii "
root

packet
charz{ 
roots
	falsey 
, 
@lengthOf(
    // packet A { u8 x, }
  u8x )T
@lengthOf(	x )
    `line1
line2`  /// triple
	,
    x

@calculatedFrom( 
    // a // b
""// no comment"" 
)
    ,
    @leftPad
(

    ' ' ) zchar[0123456789]  string_
	,}

")).
Eval vm_compute in ("<<<M509>>>" ++ check (runes_of_ascii "MetaData len
{ f64 u ,char[] Z9_ `doc` ,metadata
    // " ++ [27880; 37322]%N ++ runes_of_ascii "
    A,i64 stringy`line1
line2` , A int`line1
line2` // `tick` ""quote"" 'q'
, f32 i8i8 , }packet
// c
//
stringy/// triple
{ @calculatedFrom( """ ++ [128512]%N ++ runes_of_ascii """
    )char[]
roots, }
root packet metadata {
}")).
Eval vm_compute in ("<<<M600>>>" ++ check (runes_of_ascii "MetaData Header
{ uint64 lengthOf , int32 packetx , matchKey u8x `say ""hi""`,char[]
T , packetx options1 , Packet falsey ,} // @lengthOf(
options// c
{ u128
//x
// " ++ [128512]%N ++ runes_of_ascii " emoji
=65535	Foo
    = true } /// triple
packet int{ }MetaData
    u {}

")).
Eval vm_compute in ("<<<M286>>>" ++ check (runes_of_ascii "options{
} options {
    } root packet uint8x { @leftPad ('\x00'
    )
    match uint8x as	pack {[ ""\n"" ,
""a	b""
    ,
10,
    // " ++ [27880; 37322]%N ++ runes_of_ascii "
    255 ,
// " ++ [27880; 37322]%N ++ runes_of_ascii "
//	t
""a	b"" , //x
"""" ] // " ++ [27880; 37322]%N ++ runes_of_ascii "
:
    repeatCount
    , // c
}
    ,// " ++ [128512]%N ++ runes_of_ascii " emoji
} 	 ")).
Eval vm_compute in ("<<<M4519>>>" ++ check (runes_of_ascii "
packet

    falsey 
{ 
@leftPad
	(

    ) // packet A { u8 x, }
    zchar[
    007 ]  i8i8

    @calculatedFrom(	""" ++ [28040; 24687]%N ++ runes_of_ascii """
    ) 
,  a1
{	float32 
Foo@lengthOf(  u8x 
)  , },
chars

, 
repeat
char[]

roots `" ++ [28040; 24687; 31867; 22411]%N ++ runes_of_ascii "` , 
}
")).
Eval vm_compute in ("<<<M2251>>>" ++ check (runes_of_ascii "MetaData Packet { }packet	asx  { @lengthOf( asx asx) falsey`crlf
line`
,
    }
    packet x	{uint32// @lengthOf(
rootA	,u32 options1 `say ""hi""` , @tag( 7
    )// packet A { u8 x, }
msg_type @lengthOf(
stringy	)	, }

")).
Eval vm_compute in ("<<<M737>>>" ++ check (runes_of_ascii "  MetaData x
{Foo Header , char[ 0123456789 ] len
,
int64 i64_, char[
    42 ] i8i8,i16 /// triple
pack , int64 u8x
    `it's` ,
    }	packet pack // @lengthOf(
{ @calculatedFrom( ""// no comment"" )len matchKey
,}
")).
Eval vm_compute in ("<<<M2277>>>" ++ check (runes_of_ascii "MetaData Packet { }packet	asx  { @lengthOf( asx) falsey`crlf
line`
,
    packet
    } x	{uint32// @lengthOf(
rootA	,u32 options1 `say ""hi""` , @tag( 7
    )// packet A { u8 x, }
msg_type @lengthOf(
stringy	)	, }

")).
Eval vm_compute in ("<<<M2305>>>" ++ check (runes_of_ascii "MetaData Packet { }packet	asx  { @lengthOf( asx) falsey`crlf
line`
,
    }
    packet x	{uint32// @lengthOf(
rootA	u32 options1 `say ""hi""` , @tag( 7
    )// packet A { u8 x, }
msg_type @lengthOf(
stringy	)	, }

")).
Eval vm_compute in ("<<<M2330>>>" ++ check (runes_of_ascii "MetaData Packet { }packet	asx  { @lengthOf( asx) falsey`crlf
line`
,
    }
    packet x	{uint32// @lengthOf(
rootA	,u32 options1 `say ""hi""` ,  7
    )// packet A { u8 x, }
msg_type @lengthOf(
stringy	)	, }

")).
Eval vm_compute in ("<<<M603>>>" ++ check (runes_of_ascii "packet
    // c
    stringy { u128
@lengthOf( _x
)
,
match
    leftPad as i64_ { """ ++ [28040; 24687]%N ++ runes_of_ascii """: T, [
""" ++ [233]%N ++ runes_of_ascii "t" ++ [233]%N ++ runes_of_ascii """	] : roots 65535// c
: int}	,@tag( 65535 // c
)
    repeat string Logon,
    // packet A { u8 x, }
    }
")).
Eval vm_compute in ("<<<M1367>>>" ++ check (runes_of_ascii "packet leftPad {
    //
    i8 string_@calculatedFrom( ""\" ++ [233]%N ++ runes_of_ascii """ ) `` ,
repeat MetaDataX {match u128
    as
    asx  {""a\\"": T
, ""CRC32"" :
    stringy ,
0 : options1 ,
    } , }/// triple
,// " ++ [128512]%N ++ runes_of_ascii " emoji
}")).
Eval vm_compute in ("<<<M480>>>" ++ check (runes_of_ascii "MetaData
    u
{ string_ BodyLength// packet A { u8 x, }
,
char T ``
,// " ++ [27880; 37322]%N ++ runes_of_ascii "
u128 Logon , string
crc
, u8 matchKey , u8  i64_ // packet A { u8 x, }
`" ++ [233]%N ++ runes_of_ascii "`
,
    // trailing space 
    } // c")).
Eval vm_compute in ("<<<M4116>>>" ++ check (runes_of_ascii "MetaData
options1	{
packetx x`
`  ,	//	t
    }
options
    {
	x_y_z=	true	options1  =char[] 	 // trailing space 
	; body =
65535  /// triple
		lengthOf=""it's""

;
	x =
    '\x00'  }
")).
Eval vm_compute in ("<<<M242>>>" ++ check (runes_of_ascii "  options{
    // trailing space 
    A = ' '
    ; calculatedFrom
// c
// a // b
=
    ""a\""b""
;
msg_type  =	char[ 4294967296] ;
    //
    rootA
= '\x00' msg_type	= false }")).
Eval vm_compute in ("<<<M4095>>>" ++ check (runes_of_ascii "packet f32a {
    //
    match o as As {
        10 : roots,
        // " ++ [27880; 37322]%N ++ runes_of_ascii "
        [255, 42, 10, 00] : matchKey,
    },
}

options {
    u128 = 65535
    Packet = 3;
}")).
Eval vm_compute in ("<<<M1307>>>" ++ check (runes_of_ascii "MetaData
stringy { zchar[ 255 ] u`
` , // packet A { u8 x, }
string repeatCount ,
    As i8i8 `{ , }` ,
string x_y_z
    // c
    , uint16 Pad , uint32
asx ,
}
")).
Eval vm_compute in ("<<<M72>>>" ++ check (runes_of_ascii "packet
Header//	t
{ float32
repeatCount @lengthOf(
f32a
/// triple
// a // b
) , }options{ As	= true; } packet Pad
{ @rightPad
( ' ' ) leftPad
    , }
")).
Eval vm_compute in ("<<<M1097>>>" ++ check (runes_of_ascii "packet	calculatedFrom
{
@lengthOf(body)
    @tag(0123456789)
@calculatedFrom(
// trailing space 
// a // b
""" ++ [128512]%N ++ runes_of_ascii """ ) options1 `// not a comment` , }
")).
Eval vm_compute in ("<<<M4500>>>" ++ check (runes_of_ascii "// top
options {
    // c1
    FixedStringPadFromLeft = true;
    // c5
}

// c6
root packet P {
    // c10
    char[4] z,// c15a
    // c15b
}")).
Eval vm_compute in ("<<<M4229>>>" ++ check (runes_of_ascii "
packet 
o {}

packet
MetaDataX
    { 
} root
packet 
u8x 
{
    MetaDataX @calculatedFrom(

    ""\n""  ) ,} 	 // packet A { u8 x, }
")).
Eval vm_compute in ("<<<M1626>>>" ++ check (runes_of_ascii "root root packet /// triple
rootA {	i32
MetaDataX@calculatedFrom( ""CRC32"" ) `line1
line2` , } MetaData BodyLength {
u8
rootA, } // c")).
Eval vm_compute in ("<<<M1638>>>" ++ check (runes_of_ascii "root packet /// triple
rootA { {	i32
MetaDataX@calculatedFrom( ""CRC32"" ) `line1
line2` , } MetaData BodyLength {
u8
rootA, } // c")).
Eval vm_compute in ("<<<M1649>>>" ++ check (runes_of_ascii "root packet /// triple
rootA {	i32
@calculatedFrom(MetaDataX ""CRC32"" ) `line1
line2` , } MetaData BodyLength {
u8
rootA, } // c")).
Eval vm_compute in ("<<<M1645>>>" ++ check (runes_of_ascii "root packet /// triple
rootA {	(
MetaDataX@calculatedFrom( ""CRC32"" ) `line1
line2` , } MetaData BodyLength {
u8
rootA, } // c")).
Eval vm_compute in ("<<<M1625>>>" ++ check (runes_of_ascii " packet /// triple
rootA {	i32
MetaDataX@calculatedFrom( ""CRC32"" ) `line1
line2` , } MetaData BodyLength {
u8
rootA, } // c")).
Eval vm_compute in ("<<<M3439>>>" ++ check (runes_of_ascii "packet B {
    u8 a,
}
root packet P {
    u8 K,
    match K as Body {
        1 : B,
    },
    u16 L @lengthOf(Body),
}
")).
Eval vm_compute in ("<<<M4449>>>" ++ check (runes_of_ascii "

  packet
    crc { repeat int64
string_
`" ++ [28040; 24687; 31867; 22411]%N ++ runes_of_ascii "` ,}
	root
    packet leftPad

{
}

    MetaData
	A
	{ } 
        // c")).
Eval vm_compute in ("<<<M1881>>>" ++ check (runes_of_ascii "packet
    Pad // a // b
{ i8i8 @calculatedFrom( ""a	b"") `u8 x,` ,
} options{ float// " ++ [128512]%N ++ runes_of_ascii " emoji
= f64 i64_
/=//	t
00 }
")).
Eval vm_compute in ("<<<M1832>>>" ++ check (runes_of_ascii "packet
    Pad // a // b
{ i8i8 @calculatedFrom( ""a	b"") `u8 x,` ,
} {options float// " ++ [128512]%N ++ runes_of_ascii " emoji
= f64 i64_
=//	t
00 }
")).
Eval vm_compute in ("<<<M4067>>>" ++ check (runes_of_ascii "options {
}

MetaData x_y_z {
    u32 u8x `line1
        line2`,
    float64 u `line1
        line2`,
}// @lengthOf(")).
Eval vm_compute in ("<<<M1855>>>" ++ check (runes_of_ascii "packet
    Pad // a // b
{ i8i8 @calculatedFrom( ""a	b"") `u8 x,` ,
} options{ float// " ++ [128512]%N ++ runes_of_ascii " emoji
= f64 
=//	t
00 }
")).
Eval vm_compute in ("<<<M799>>>" ++ check (runes_of_ascii "root packet trueish {
@tag(255
    )
    // `tick` ""quote"" 'q'
    repeat f32a
    leftPad /// triple
`doc`,}
")).
Eval vm_compute in ("<<<M2965>>>" ++ check (runes_of_ascii "packet A {
  match k as n {
    [""a"", ""bb"", ""c c"", ""d"", ""e"", ""f"", ""g"", ""h"", ""i"", ""j""] : B,
    2 : C
  },
}")).
Eval vm_compute in ("<<<M1864>>>" ++ check (runes_of_ascii "packet
    Pad // a // b
{ i8i8 @calculatedFrom( ""a	b"") `u8 x,` ,
} options{ float// " ++ [128512]%N ++ runes_of_ascii " emoji
= f64 i64_")).
Eval vm_compute in ("<<<M3352>>>" ++ check (runes_of_ascii "packet calculatedFrom { @tag( 4294967296 ) u
// c
msg_type , char[ 3 ] crc @lengthOf( len ) `u8 x,` , }")).
Eval vm_compute in ("<<<M2998>>>" ++ check (runes_of_ascii "packet A {
  match k as n {
    [1, 22, ""c c"", 4, 5, ""f"", 7, 8, ""i"", 10, 11, ""l""] : B
    2 : C
  },
}")).
Eval vm_compute in ("<<<M229>>>" ++ check (runes_of_ascii "packet x_y_z { char[
    // packet A { u8 x, }
    42 ] A @calculatedFrom( ""`tick`"" ) `it's` , }

")).
Eval vm_compute in ("<<<M3258>>>" ++ check (runes_of_ascii "packet Logon { @tag( 42 ) @rightPad ( ' ' ) @leftPad ( ) repeat trueish { string T , } , } // c
")).
Eval vm_compute in ("<<<M3228>>>" ++ check (runes_of_ascii "packet Logon { @tag( 42 ) @rightPad // c
( ' ' ) @leftPad ( ) repeat trueish { string T , } , }")).
Eval vm_compute in ("<<<M109>>>" ++ check (runes_of_ascii "root
    packet lengthOf { @tag(4294967296 ) @calculatedFrom(
""" ++ [128512]%N ++ runes_of_ascii """)
    i32
msg_type `a\`
, }
")).
Eval vm_compute in ("<<<M3773>>>" ++ check (runes_of_ascii "root packet repeatCount {
    @lengthOf(Foo)
    @tag(4294967296)
    repeat f32 u8x,
}
// c")).
Eval vm_compute in ("<<<M1069>>>" ++ check (runes_of_ascii "MetaData lengthOf // a // b
{i64 matchKey
// " ++ [128512]%N ++ runes_of_ascii " emoji
// packet A { u8 x, }
`say ""hi""`
, }")).
Eval vm_compute in ("<<<M1992>>>" ++ check (runes_of_ascii "root
packet crc
    { f32a @calculatedFrom( """ ++ [233]%N ++ runes_of_ascii "t" ++ [233]%N ++ runes_of_ascii """ ) )
    `say ""hi""`, lengthOf `` ,  }")).
Eval vm_compute in ("<<<M2039>>>" ++ check (runes_of_ascii "root
packet crc
    { f32a @calculatedFrom( """ ++ [233]%N ++ runes_of_ascii "t" ++ [233]%N ++ runes_of_ascii """ ?)
    `say ""hi""`, lengthOf `` ,  }")).
Eval vm_compute in ("<<<M2950>>>" ++ check (runes_of_ascii "packet A {
  match k as n {
    [1, 22, 007, 4, 5, 66, 7, 8, 9] : B,
    2 : C
  },
}")).
Eval vm_compute in ("<<<M2929>>>" ++ check (runes_of_ascii "packet A {
  match k as n {
    [1, ""bb"", 007, ""d"", 5, ""f"", 7] : B
    2 : C
  },
}")).
Eval vm_compute in ("<<<M3295>>>" ++ check (runes_of_ascii "packet
// c
o { @tag( 42 ) repeat x { char[ 0123456789 ] i64_ , } , } options { }")).
Eval vm_compute in ("<<<M3327>>>" ++ check (runes_of_ascii "packet o { @tag( 42 ) repeat x { char[ 0123456789 ] i64_ , } , }
// c
options { }")).
Eval vm_compute in ("<<<M1340>>>" ++ check (runes_of_ascii "//x
packet calculatedFrom
{ match trueish as int  { ""it's""
: float	,}
,
    }
")).
Eval vm_compute in ("<<<M3582>>>" ++ check (runes_of_ascii "packet
A{ 
Inner
{
u8
	x `a
b`
,Deep
    {  u8 y

    `a
b`,

}

, }
,

}")).
Eval vm_compute in ("<<<M3719>>>" ++ check (runes_of_ascii "packet A {
    B b `a
    b`,
    B `a
    b`,
    repeat B bs `a
    b`,
}")).
Eval vm_compute in ("<<<M779>>>" ++ check (runes_of_ascii "MetaData
    repeatCount {
    T matchKey
    , float Packet
    ,
    }")).
Eval vm_compute in ("<<<M2208>>>" ++ check (runes_of_ascii "root
    // `tick` ""quote"" 'q'
@tag    packet As { trueish Packet , }
")).
Eval vm_compute in ("<<<M1120>>>" ++ check (runes_of_ascii "MetaData
    Pad { Foo a1 ,
f64
metadata
    , zchar
    string_ , }")).
Eval vm_compute in ("<<<M2824>>>" ++ check (runes_of_ascii "false @rightPad u8x true u64 ] repeat char uint16 [ MetaData options")).
Eval vm_compute in ("<<<M2163>>>" ++ check (runes_of_ascii "root
    // `tick` ""quote"" 'q'
    packet { As trueish Packet , }
")).
Eval vm_compute in ("<<<M4497>>>" ++ check (runes_of_ascii "packet As{
@calculatedFrom( //@lengthOfx
	""{,}"")	lengthOf , }
")).
Eval vm_compute in ("<<<M1897>>>" ++ check (runes_of_ascii "
packet packet	As { @calculatedFrom(//x
""{,}""	)lengthOf , } 	 ")).
Eval vm_compute in ("<<<M2864>>>" ++ check (runes_of_ascii "packet A {
  match k as n {
    [1, 22] : B
    2 : C
  },
}")).
Eval vm_compute in ("<<<M2861>>>" ++ check (runes_of_ascii "packet A {
  match k as n {
    [""a""] : B
    2 : C
  },
}")).
Eval vm_compute in ("<<<M473>>>" ++ check (runes_of_ascii "packet len {	Logon@calculatedFrom( // a // b
""a\""b""
), }")).
Eval vm_compute in ("<<<M3926>>>" ++ check (runes_of_ascii "MetaData
	u128

    {

    uint32
    lengthOf,	}

")).
Eval vm_compute in ("<<<M4139>>>" ++ check (runes_of_ascii "packet A {
    u8 x `a
            b
          c`,
}")).
Eval vm_compute in ("<<<M3771>>>" ++ check (runes_of_ascii "packet msg_type {
    zchar[00] _x,
}// @lengthOf(")).
Eval vm_compute in ("<<<M2264>>>" ++ check (runes_of_ascii "MetaData Packet { }packet	asx  { @lengthOf( asx)")).
Eval vm_compute in ("<<<M2847>>>" ++ check (runes_of_ascii "options i32 @rightPad { } ] 255 ; int8 as f64 ,")).
Eval vm_compute in ("<<<M1121>>>" ++ check (runes_of_ascii "options{ MetaDataX=// @lengthOf(
true
    ; }")).
Eval vm_compute in ("<<<M3053>>>" ++ check (runes_of_ascii "options {
    a = ""x\
y"";
    b = ""x\
y""
}")).
Eval vm_compute in ("<<<M1913>>>" ++ check (runes_of_ascii "
packet	As { f32//x
""{,}""	)lengthOf , } 	 ")).
Eval vm_compute in ("<<<M4524>>>" ++ check (runes_of_ascii "

  // " ++ [128512]%N ++ runes_of_ascii " emoji
	packet
f32a

    {
	}
")).
Eval vm_compute in ("<<<M3195>>>" ++ check (runes_of_ascii "MetaData zchar {
// c
zchar[ 3 ] Pad , }")).
Eval vm_compute in ("<<<M2606>>>" ++ check (runes_of_ascii "packet A { match k as n { [1,] : B }, }")).
Eval vm_compute in ("<<<M4068>>>" ++ check (runes_of_ascii "options {
    int = ""\" ++ [233]%N ++ runes_of_ascii """// " ++ [128512]%N ++ runes_of_ascii " emoji
}//")).
Eval vm_compute in ("<<<M2613>>>" ++ check (runes_of_ascii "packet A { match k as n { x : B }, }")).
Eval vm_compute in ("<<<M2615>>>" ++ check (runes_of_ascii "packet A { match k as n { 1 B }, }")).
Eval vm_compute in ("<<<M2249>>>" ++ check (runes_of_ascii "MetaData Packet { }packet	asx  {")).
Eval vm_compute in ("<<<M4219>>>" ++ check (runes_of_ascii "root packet P {
    string s,
}")).
Eval vm_compute in ("<<<M3133>>>" ++ check (runes_of_ascii "packet A {
 u8 x `d" ++ [8203]%N ++ runes_of_ascii "`, // c" ++ [8203]%N ++ runes_of_ascii "
}")).
Eval vm_compute in ("<<<M2074>>>" ++ check (runes_of_ascii "MetaData A { u64 pack char }")).
Eval vm_compute in ("<<<M2778>>>" ++ check ([65533; 28]%N ++ runes_of_ascii "#" ++ [65533; 65533]%N ++ runes_of_ascii "]" ++ [65533]%N ++ runes_of_ascii "L)" ++ [65533; 65533]%N ++ runes_of_ascii "." ++ [65533; 127]%N ++ runes_of_ascii "t" ++ [65533; 65533; 16]%N ++ runes_of_ascii ":H""*" ++ [65533; 65533]%N ++ runes_of_ascii "S" ++ [65533; 65533]%N)).
Eval vm_compute in ("<<<M2721>>>" ++ check (runes_of_ascii ", 42 { int16 options false")).
Eval vm_compute in ("<<<M3388>>>" ++ check (runes_of_ascii "packet lengthOf { } // c
")).
Eval vm_compute in ("<<<M3276>>>" ++ check (runes_of_ascii "options { u8x
// c
= 3 }")).
Eval vm_compute in ("<<<M2792>>>" ++ check (runes_of_ascii "uint16 ; MetaData f64 (")).
Eval vm_compute in ("<<<M69>>>" ++ check (runes_of_ascii "options	{ i64_ =00 }
")).
Eval vm_compute in ("<<<M609>>>" ++ check (runes_of_ascii "packet	Foo{
    } 	 ")).
Eval vm_compute in ("<<<M2770>>>" ++ check ([65533]%N ++ runes_of_ascii "9" ++ [20; 65533; 11; 23; 5; 2; 65533; 65533; 65533]%N ++ runes_of_ascii "
" ++ [65533; 65533; 65533; 27]%N ++ runes_of_ascii "b" ++ [65533; 17]%N)).
Eval vm_compute in ("<<<M2764>>>" ++ check (runes_of_ascii "p*ytL24P\39v6K0pl$")).
Eval vm_compute in ("<<<M3132>>>" ++ check (runes_of_ascii "// c" ++ [8203]%N ++ runes_of_ascii "
packet A {
}")).
Eval vm_compute in ("<<<M3074>>>" ++ check (runes_of_ascii "packet A {
}// c" ++ [133]%N)).
Eval vm_compute in ("<<<M707>>>" ++ check (runes_of_ascii "  options{} //x")).
Eval vm_compute in ("<<<M4330>>>" ++ check (runes_of_ascii "packet len {
}")).
Eval vm_compute in ("<<<M2826>>>" ++ check (runes_of_ascii "W" ++ [14; 65533]%N ++ runes_of_ascii "3" ++ [65533; 1970; 65533; 65533]%N ++ runes_of_ascii "HU>")).
Eval vm_compute in ("<<<M2463>>>" ++ check (runes_of_ascii "metadata")).
Eval vm_compute in ("<<<M2432>>>" ++ check (runes_of_ascii "zchar[")).
Eval vm_compute in ("<<<M2471>>>" ++ check (runes_of_ascii "'\x0'")).
Eval vm_compute in ("<<<M50>>>" ++ check (runes_of_ascii "//

")).
Eval vm_compute in ("<<<M2437>>>" ++ check (runes_of_ascii "u80")).
Eval vm_compute in ("<<<M2133>>>" ++ check (runes_of_ascii "Me")).
Eval vm_compute in ("<<<M2554>>>" ++ check ([21517]%N)).
