From FP Require Import Lexer Parser ShowPT Digest Formatter.
From Coq Require Import String List NArith.
Import ListNotations.
Open Scope string_scope.
Set Printing Width 100000000.
Set Printing Depth 100000000.
Definition show_fres (r : fres) : string :=
  match r with
  | FOk s => "OK:" ++ sh_escaped s ""
  | FErr s => "ERR:" ++ sh_escaped s ""
  | FPanic p => "PANIC:" ++ p
  end.
Definition check (rs : list rune) : string := digest (show_fres (format_res rs)).
Definition full (rs : list rune) : string := show_fres (format_res rs).
Eval vm_compute in ("<<<M93>>>" ++ check (runes_of_ascii "
packet Header{ @lengthOf( options1 )
@lengthOf( matchKey ) @tag( 10 )i8
options1 @lengthOf( //	t
Foo ) `tab	here` ,
// " ++ [128512]%N ++ runes_of_ascii " emoji
//	t
@lengthOf( Pad // " ++ [128512]%N ++ runes_of_ascii " emoji
) match
Pad	as u8x { 4294967296 :	i8i8 // `tick` ""quote"" 'q'
,} ,} packet roots { // " ++ [128512]%N ++ runes_of_ascii " emoji
packetx @lengthOf(msg_type )
    , char[0123456789
// trailing space 
// @lengthOf(
] calculatedFrom,i8 Logon , @tag(10 ) @tag( 00 ) zchar[ 65535]
float  @lengthOf( int )
, stringy@calculatedFrom(
// " ++ [128512]%N ++ runes_of_ascii " emoji
// 50% %s
""" ++ [233]%N ++ runes_of_ascii "t" ++ [233]%N ++ runes_of_ascii """ /// triple
)	,
repeat roots u128 , @calculatedFrom(
""{,}""
)chars
    {
match roots
    as	Foo
{ 10
:
trueish,}
,
}
    , // @lengthOf(
i8i8 , @calculatedFrom(
    ""x y"")	@calculatedFrom( ""a\""b"")repeat Z9_
{
    f32a msg_type
    , repeat o	{ zchar[ 0
    // `tick` ""quote"" 'q'
    ] charz @calculatedFrom( /// triple
""CRC32"" ) , } , } ,	}root // " ++ [27880; 37322]%N ++ runes_of_ascii "
packet BodyLength  {calculatedFrom {
char[] x @calculatedFrom( ""\n""
)
    , _x @calculatedFrom(
""`tick`"" ), repeat u128 ,
    float	Packet `
` ,
    } ,	repeat
Foo {
    uint64 a1 ,	}
    , repeat char[ 42 ]
matchKey
`line1
line2` ,  match /// triple
rootA as lengthOf { // `tick` ""quote"" 'q'
""it's"" :
    u128 , //x
1 :
    uint8x
    ""it's"": charz } ,
repeat int16  zchar , repeat char[] BodyLength , @leftPad
// " ++ [27880; 37322]%N ++ runes_of_ascii "
// 50% %s
( )
    @calculatedFrom( ""it's""
    ) @rightPad
    (  ' '
)char[
// " ++ [128512]%N ++ runes_of_ascii " emoji
// a // b
007 ] Logon @lengthOf(
BodyLength ) , @tag(42
)
zchar[00 ] T @calculatedFrom(
""" ++ [233]%N ++ runes_of_ascii "t" ++ [233]%N ++ runes_of_ascii """
    ) , u8x {//x
float{	packetx
    `a\` , A	{
    uint8 charz
`a\`
, _x matchKey
`" ++ [28040; 24687; 31867; 22411]%N ++ runes_of_ascii "`
//	t
// packet A { u8 x, }
,
match trueish // trailing space 
as options1 { ""{,}"" : A , """" :Z9_
/// triple
// trailing space 
""1""	: // `tick` ""quote"" 'q'
f32a , 1 :msg_type , ""a\\"" :
    Packet ,  [ """ ++ [128512]%N ++ runes_of_ascii """
    ,""a\\"" ] :
    chars, } ,
match  len
as
    BodyLength { 65535:
    int
//x
// a // b
,
""\n"" : f32a,	[""packet"" ,
00 ,
""CRC32""
// @lengthOf(
// `tick` ""quote"" 'q'
,
""`tick`""
//x
// 50% %s
, 0 ,
    ""a	b"" ,
    // 50% %s
    """"  ,""1"" ] // " ++ [128512]%N ++ runes_of_ascii " emoji
:
repeatCount
""1"" // @lengthOf(
:// " ++ [27880; 37322]%N ++ runes_of_ascii "
leftPad,""CRC32""
:
lengthOf // @lengthOf(
,	[7 ,	""a	b"" ] : //
repeatCount
    , }, } ,	char[]
    falsey @calculatedFrom(""" ++ [233]%N ++ runes_of_ascii "t" ++ [233]%N ++ runes_of_ascii """) `" ++ [28040; 24687; 31867; 22411]%N ++ runes_of_ascii "`, zchar[007 ] lengthOf @lengthOf(
x_y_z )`say ""hi""`, } //	t
, } ,
    MetaDataX ,
}
")).
Eval vm_compute in ("<<<M749>>>" ++ check (runes_of_ascii "// c
root	packet pack{ repeat char[ 007]
MetaDataX `say ""hi""`
, char[] x_y_z @lengthOf(u128 ) , @tag( 10
)
match
    falsey as string_ {  ""packet"" : u ,
42
: options1	, ""CRC32"" :
trueish ,
0123456789	:
    Packet, """ ++ [128512]%N ++ runes_of_ascii """
:trueish
4294967296 :// a // b
matchKey , }
,
} packet roots
    {
repeat f32a	{ // c
match trueish // c
as
// a // b
// trailing space 
x
/// triple
// trailing space 
{ // trailing space 
[""{,}""
, """ ++ [28040; 24687]%N ++ runes_of_ascii """ , 0  ,  ""abc"" , ""a\""b"" , 007
] :Foo
} /// triple
,
    } // c
,  @lengthOf( Z9_ )@tag( 7 )chars uint8x `it's`
, @calculatedFrom( ""a	b""
) crc { match
// c
// " ++ [128512]%N ++ runes_of_ascii " emoji
trueish as // packet A { u8 x, }
metadata	{ 65535
: string_ """ ++ [28040; 24687]%N ++ runes_of_ascii """ : Logon ,
},
    char[
    007 // " ++ [27880; 37322]%N ++ runes_of_ascii "
] falsey `100% of %d`
    , u128
@calculatedFrom(""{,}"" ) , }// c
,match
// packet A { u8 x, }
// 50% %s
a1 as As { """ ++ [233]%N ++ runes_of_ascii "t" ++ [233]%N ++ runes_of_ascii """ : asx 255:
As  ""// no comment""
:  string_
//
//x
, 0123456789	:
    Z9_, 65535 : // @lengthOf(
A 4294967296:
options1 , } , repeat
MetaDataX , Logon, @calculatedFrom(
""a\\""
    )
    // `tick` ""quote"" 'q'
    options1,
    @lengthOf(T	) roots, Foo
    @lengthOf( Pad ) , // " ++ [27880; 37322]%N ++ runes_of_ascii "
char[
    65535 ] len , }root // " ++ [27880; 37322]%N ++ runes_of_ascii "
packet	repeatCount{ // trailing space 
@calculatedFrom(	""CRC32"" )
@tag(7
)  @calculatedFrom( ""a\\"" ) u128 { metadata @calculatedFrom( ""// no comment""
)`two words`
    , }
    ,@rightPad( )
    repeat
    char[ 0123456789//
] MetaDataX, @calculatedFrom( ""x y"" ) stringy
    @lengthOf(metadata ) , Foo options1// @lengthOf(
, @leftPad (	'\x00'
// packet A { u8 x, }
// " ++ [128512]%N ++ runes_of_ascii " emoji
) @rightPad//	t
( )
i32 T
    , zchar[007 ]
a1	`" ++ [28040; 24687; 31867; 22411]%N ++ runes_of_ascii "` ,@lengthOf( uint8x )
MetaDataX @calculatedFrom(""\" ++ [233]%N ++ runes_of_ascii """ ) `line1
line2` ,
@calculatedFrom( ""a	b""
    /// triple
    )string matchKey	`doc` , @lengthOf( As
)// @lengthOf(
@calculatedFrom( ""// no comment""	)@tag( 10 ) string Foo,
    repeat lengthOf`// not a comment`
    , }
/// triple
")).
Eval vm_compute in ("<<<M1248>>>" ++ check (runes_of_ascii "  root
    packet lengthOf { @calculatedFrom(""" ++ [128512]%N ++ runes_of_ascii """
)
//
//x
uint8 tag  `
`
, @calculatedFrom( ""packet""
    )@tag( 0) @rightPad
( '0'	) char[] pack	,
}packet
Header{@rightPad ('0'
) char[] x_y_z , Header // `tick` ""quote"" 'q'
{
repeat zchar[ 00 ] leftPad , repeat f64
float `
` , string msg_type
`doc`
// packet A { u8 x, }
//
, repeat
    char[]
body  , }
, @lengthOf( u8x
    ) repeat char metadata `two words`
    , @calculatedFrom(
""packet""
)trueish
    /// triple
    , } root  packet
As // c
{
    repeat
zchar[ 255 // " ++ [27880; 37322]%N ++ runes_of_ascii "
] len// a // b
`crlf
line` , match
    Foo
    // " ++ [128512]%N ++ runes_of_ascii " emoji
    as repeatCount{
7  : _x ,
    }
    , @lengthOf(
// `tick` ""quote"" 'q'
/// triple
float )@calculatedFrom( """ ++ [233]%N ++ runes_of_ascii "t" ++ [233]%N ++ runes_of_ascii """  ) u
    {
repeat msg_type { repeat
Header
, } , /// triple
zchar[1 ]	Foo
@lengthOf( BodyLength )
`doc` ,} ,match u8x as  charz {
// trailing space 
/// triple
255
: x ,""it's""
    :falsey
//	t
//	t
""x y"":roots 1 // c
: Foo , ""x y"" : zchar , // 50% %s
""" ++ [128512]%N ++ runes_of_ascii """ // `tick` ""quote"" 'q'
:
    BodyLength , } , @rightPad
( )u8x @calculatedFrom(""x y"" )`" ++ [28040; 24687; 31867; 22411]%N ++ runes_of_ascii "` , match packetx as repeatCount {
    ""\n"" :
    float , 1 : chars 007 : /// triple
packetx,
1
: // packet A { u8 x, }
i8i8,
    } ,
    @calculatedFrom(
""""	) match
// `tick` ""quote"" 'q'
// @lengthOf(
lengthOf as rootA { """":
BodyLength, } , @tag(	4294967296) char[]
    falsey	@lengthOf( trueish ) `" ++ [28040; 24687; 31867; 22411]%N ++ runes_of_ascii "` // 50% %s
,
} MetaData  T {
    // a // b
    msg_type // " ++ [27880; 37322]%N ++ runes_of_ascii "
Logon`100% of %d` ,
    o trueish `say ""hi""`,u32// trailing space 
BodyLength
`two words`
    , f32 packetx `a\` , } // " ++ [128512]%N ++ runes_of_ascii " emoji")).
Eval vm_compute in ("<<<M3956>>>" ++ check (runes_of_ascii "MetaData _x {
    string Packet `// not a comment`,
    o Logon,
    packetx uint8x,
}

root packet MetaDataX {
    repeat char[255] x_y_z `doc`,
    @calculatedFrom(""{,}"")
    match asx as A {
        4294967296 : Pad,
        10 : a1,
    },
    zchar[3] asx `{ , }`,
    match msg_type as i8i8 {
        [
            0, 1, 007, ""a\\"", ""\" ++ [233]%N ++ runes_of_ascii """,
            65535
        ] : calculatedFrom,
        // 50% %s
        007 : T,
        255 : repeatCount,
        [0123456789, ""it's""] : chars,
    },
    u128,
    string A @lengthOf(Packet) `tab	here`,
    char[0123456789] uint8x @lengthOf(x_y_z),
    asx `" ++ [28040; 24687; 31867; 22411]%N ++ runes_of_ascii "`,
}

packet a1 {
    i8 trueish,
}

packet matchKey {
    match a1 as string_ {
        10 : pack,
    },
    // @lengthOf(
    // a // b
    char[10] falsey `" ++ [233]%N ++ runes_of_ascii "`,
    pack {
        i8i8 {
            repeat lengthOf {
                //	t
                tag asx,
                match rootA as matchKey {
                    ""CRC32"" : u,
                    42 : lengthOf,
                    // c
                },
                repeat uint64 packetx `
                `,
                zchar[0] options1 @lengthOf(Packet) `doc`,
            },
        },
    },
}

// `tick` ""quote"" 'q'
//
MetaData options1 {
    string_ zchar,
    Z9_ repeatCount `crlf
    line`,
    uint64 Logon,
    uint64 a1,
    string_ Foo,
}")).
Eval vm_compute in ("<<<M258>>>" ++ check (runes_of_ascii "root packet x_y_z{
    //
    T _x
,@lengthOf(
    uint8x
)i32 Pad
    // " ++ [128512]%N ++ runes_of_ascii " emoji
    `tab	here` , repeat
char[ 0]o `crlf
line`	,i8i8 {
int// packet A { u8 x, }
Header `
`  ,u8 f32a
,}
,
@lengthOf(
    crc)	match i8i8 as
Logon{  0123456789  :
float
,}
, int {
    x `line1
line2`,}
    ,
    // " ++ [128512]%N ++ runes_of_ascii " emoji
    repeat falsey{options1 x `doc`	, i8i8
    `u8 x,`
    ,
    } ,
    repeat // `tick` ""quote"" 'q'
zchar[ 0123456789// a // b
] a1	,}	options
{ } options  { } root packet metadata
    {
    @calculatedFrom( ""a\\""
    ) string_
{ pack { match
msg_type
as	MetaDataX { ""// no comment""
// " ++ [27880; 37322]%N ++ runes_of_ascii "
// 50% %s
:string_ , [ 65535
    ]:	roots
,
// packet A { u8 x, }
// " ++ [128512]%N ++ runes_of_ascii " emoji
10 :
    metadata
, 0 :_x ,
    [
0123456789
, 007 ,  7 , 00 ,
    4294967296 ] : trueish	, } // " ++ [128512]%N ++ runes_of_ascii " emoji
, char[]
//x
// " ++ [128512]%N ++ runes_of_ascii " emoji
u128
    ,u64 u8x@lengthOf( string_ ) `doc`, }, // packet A { u8 x, }
repeat
    uint8
    stringy  ,
    // 50% %s
    crc msg_type , } ,
// `tick` ""quote"" 'q'
// trailing space 
@calculatedFrom( """ ++ [28040; 24687]%N ++ runes_of_ascii """	) int32 packetx`" ++ [233]%N ++ runes_of_ascii "` , Logon { match  uint8x as options1{""\" ++ [233]%N ++ runes_of_ascii """
:
    Z9_ ,
// 50% %s
// 50% %s
} , } , } root packet // c
options1 { @tag( 0 )  @calculatedFrom(
""" ++ [233]%N ++ runes_of_ascii "t" ++ [233]%N ++ runes_of_ascii """ )
@lengthOf(
roots ) pack {i32
    msg_type
    , } ,	}")).
Eval vm_compute in ("<<<M3483>>>" ++ check (runes_of_ascii "// top
options
    // c0
{ // c1a
  // c1b
LittleEndian =
    // c3
true
    // c4
; // c5
FixedStringPadFromLeft = // c7
true // c8a
  // c8b
; // c9a
  // c9b
FixedStringPadChar = // c11a
  // c11b
'0' // c12
;
    // c13
}
    // c14
packet // c15
Reject { @rightPad
    // c18
( // c19
'0'
    // c20
) char[ // c22
1 // c23a
  // c23b
] // c24
Tail // c25a
  // c25b
, // c26a
  // c26b
string // c27
msgKind , InQty95
    // c30
{ // c31
u8 // c32
pad0 // c33
, } // c35
, // c36a
  // c36b
} packet // c38a
  // c38b
Order
    // c39
{ uint32 // c41
Ref // c42a
  // c42b
, // c43a
  // c43b
repeat // c44
i16
    // c45
seqNo ,
    // c47
@rightPad (
    // c49
'\x00' ) // c51
char[
    // c52
5
    // c53
] Tail // c55a
  // c55b
, // c56a
  // c56b
Reject , // c58
f64 // c59a
  // c59b
clOrdID , } packet
    // c63
Heartbeat // c64
{ repeat // c66a
  // c66b
Order // c67a
  // c67b
, // c68
zchar[ // c69
8 // c70
] // c71
Tail
    // c72
, // c73a
  // c73b
} root packet Fill { // c78a
  // c78b
repeat // c79a
  // c79b
Order // c80a
  // c80b
, repeat // c82
string
    // c83
lastPx // c84a
  // c84b
,
    // c85
} // c86
")).
Eval vm_compute in ("<<<M583>>>" ++ check (runes_of_ascii "packet lengthOf {
@tag(3
    )	asx `{ , }` , }	root	packet// 50% %s
chars
{@tag(  0123456789 ) match int
    // a // b
    as i8i8 { [
    """ ++ [128512]%N ++ runes_of_ascii """,65535 ] :Pad [65535,
    0123456789 , ""a\""b"" ,""a\""b"",
    7 , ""abc""
    , 65535 ,3 ] : repeatCount
, } , }options
// c
// `tick` ""quote"" 'q'
{  chars= '\x00' ;	}	packet  body {	i64 o ,
@calculatedFrom( // " ++ [27880; 37322]%N ++ runes_of_ascii "
"""" )
@lengthOf(int)match metadata	as
    charz {""`tick`""
:
lengthOf ,	1 :repeatCount , //	t
[""abc""]
    // trailing space 
    :uint8x  ,
    ""\n""
:Pad, } //
,
    @rightPad('0' ) int64
    msg_type
    // " ++ [128512]%N ++ runes_of_ascii " emoji
    @calculatedFrom( ""\" ++ [233]%N ++ runes_of_ascii """ ) ,
@lengthOf( MetaDataX )
    /// triple
    zchar @calculatedFrom( ""a\\"" ) ,}
    packet int  {
@lengthOf( T  ) MetaDataX { options1// @lengthOf(
{
    /// triple
    match
As as roots
{
0 : asx , [
10 ,"""" ,
1 , 0123456789  ,
""CRC32""  , 3 ,
    ""a\\""] //	t
: int, """" : leftPad ,
[
1
    ,
1 ] : int ,  },
uint8x float
    // @lengthOf(
    , }, int16
    Logon `" ++ [28040; 24687; 31867; 22411]%N ++ runes_of_ascii "` , repeat pack
    {repeat
i16 packetx``, rootA
    string_ , }
,zchar[ 0 ]
Header`say ""hi""` ,} ,
    }
")).
Eval vm_compute in ("<<<M3768>>>" ++ check (runes_of_ascii "

  packet
body

{  @calculatedFrom( ""x y""
)
	charz
    `100% of %d`
    ,  @tag(
    007  // " ++ [128512]%N ++ runes_of_ascii " emoji
)repeat packetx

    //x
    // " ++ [128512]%N ++ runes_of_ascii " emoji
    ,	@calculatedFrom(
	""\" ++ [233]%N ++ runes_of_ascii """

)	int8	charz@calculatedFrom(
	""`tick`""  )
,
	@lengthOf(
	trueish )

@rightPad
( ' ' ) repeat
	u lengthOf `// not a comment` // 50% %s
    ,
@rightPad

( '0'  )
@rightPad (
' '

)
	@tag(  4294967296 ) x  trueish
,
charz	@lengthOf( _x  )
	,

@calculatedFrom(  
      // packet A { u8 x, }
      ""// no comment"") 
@rightPad( )
@calculatedFrom(""\" ++ [233]%N ++ runes_of_ascii """ //	t
	  )match
x  as chars
{ 10
: 
    // `tick` ""quote"" 'q'
	  u128  ,  007 
	//x
  	// `tick` ""quote"" 'q'
  :

    chars , ""it's""

: 
u128 ,
255

    :
    trueish, }

,
    match falsey  
  // @lengthOf(
  	// packet A { u8 x, }
    	as

roots
    {

""// no comment""	: lengthOf
	,""" ++ [233]%N ++ runes_of_ascii "t" ++ [233]%N ++ runes_of_ascii """
: len
,  ""1"" 
// 50% %s
  : i8i8 
,
	[0 , """ ++ [28040; 24687]%N ++ runes_of_ascii """ ,
255] : 

// @lengthOf(
// packet A { u8 x, }

  uint8x 
// a // b
	  // packet A { u8 x, }
,10 
:  T
	""x y""

    : 
u128 ,
}

    ,}

")).
Eval vm_compute in ("<<<M535>>>" ++ check (runes_of_ascii "  MetaData chars {
char[ 10 ]
falsey // `tick` ""quote"" 'q'
`
` , }
packet matchKey { @lengthOf( packetx
    ) char[
    65535 ]
// packet A { u8 x, }
// c
pack, repeat
    As{ //
zchar[ 10 ]Logon @calculatedFrom( ""a	b"" ) , //
}	, // @lengthOf(
u64 roots , }packet Header{u8x // packet A { u8 x, }
@lengthOf(
    f32a )
    , msg_type { u8 Z9_ , repeat chars { repeat	u128	{ repeat uint8
x ,u128 ,
    int32 asx , char pack
`" ++ [233]%N ++ runes_of_ascii "`
, /// triple
} , } , match
    options1 as repeatCount{65535 : tag
    ,42 : stringy , } , } , repeat zchar[42 ]
// packet A { u8 x, }
//	t
metadata  `100% of %d`, // c
BodyLength @lengthOf( charz ) ,
// c
// a // b
u32 int @lengthOf(
i64_
//	t
// a // b
)`crlf
line`  , repeat u32 a1	`tab	here`
, } packet
    metadata
    {
repeat
// " ++ [128512]%N ++ runes_of_ascii " emoji
// packet A { u8 x, }
options1{// 50% %s
string_
`u8 x,`,char[] // " ++ [27880; 37322]%N ++ runes_of_ascii "
i8i8,
// trailing space 
//x
char[]Logon@calculatedFrom( ""1"" ) , a1 MetaDataX`u8 x,` , // " ++ [128512]%N ++ runes_of_ascii " emoji
} ,
}
")).
Eval vm_compute in ("<<<M920>>>" ++ check (runes_of_ascii "
root packet len { @calculatedFrom( ""a\\"")  @tag( 7) @lengthOf( int ) u
@calculatedFrom(
    """" ) ,}
packet stringy
    {// a // b
repeat
    string zchar ``
, @leftPad
    (
' ' )
    i8i8 //
{crc i64_ , } , charz @calculatedFrom( ""1"" )`" ++ [28040; 24687; 31867; 22411]%N ++ runes_of_ascii "`	, @tag( 0123456789) msg_type `it's` ,} packet T {options1
    , match rootA
//
// @lengthOf(
as i64_ { 42	:	repeatCount
// " ++ [128512]%N ++ runes_of_ascii " emoji
//	t
,
0123456789 :  len, }
    ,
repeat// packet A { u8 x, }
o asx
`u8 x,` , repeat i8i8
`" ++ [28040; 24687; 31867; 22411]%N ++ runes_of_ascii "`, //
MetaDataX `doc`
,	packetx {
    f32 Logon @calculatedFrom( ""`tick`"" )`it's` , u lengthOf
`a\`, }
    , @lengthOf( a1 )
chars , //	t
char[] u128@lengthOf(a1
)`" ++ [28040; 24687; 31867; 22411]%N ++ runes_of_ascii "`,match metadata as zchar { //x
""1"" : lengthOf, 1	: _x, [ 7
    , // @lengthOf(
""" ++ [28040; 24687]%N ++ runes_of_ascii """ ,""" ++ [128512]%N ++ runes_of_ascii """ ,
1, 4294967296
    ] :
// packet A { u8 x, }
//x
Packet , [
// packet A { u8 x, }
// a // b
""a\\""	]:As
    } ,
char[65535
// trailing space 
// trailing space 
] uint8x ,	}
")).
Eval vm_compute in ("<<<M3882>>>" ++ check (runes_of_ascii "packet BodyLength {
    Pad {
        Foo i64_ `say ""hi""`,
        Header {
            // a // b
            zchar[10] o,
        },
        repeat zchar[007] crc,
        u16 i64_ @calculatedFrom(""1"") `a\`,
    },
}

packet uint8x {
    @calculatedFrom(""a	b"")
    char[0123456789] x,
    i16 repeatCount @calculatedFrom(""x y""),
    repeat u32 roots,
    @lengthOf(string_)
    @lengthOf(len)
    @rightPad('\x00')
    repeat x_y_z {
        repeat BodyLength,
        repeatCount @lengthOf(charz) `line1
                line2`,
    },
    string u128 @calculatedFrom(""// no comment"") `doc`,
    char[] rootA `// not a comment`,
}

packet T {
    rootA @lengthOf(tag) `{ , }`,
    repeatCount x_y_z `it's`,
    @tag(10)
    o options1,// " ++ [27880; 37322]%N ++ runes_of_ascii "
    match zchar as Pad {
        """ ++ [233]%N ++ runes_of_ascii "t" ++ [233]%N ++ runes_of_ascii """ : trueish,
        1 : x_y_z,
        ""packet"" : float,
        255 : tag,
    },
}")).
Eval vm_compute in ("<<<M837>>>" ++ check (runes_of_ascii "packet matchKey{
float64
Packet	`u8 x,`,
@lengthOf(
T )@lengthOf(chars // " ++ [27880; 37322]%N ++ runes_of_ascii "
)
    // `tick` ""quote"" 'q'
    @rightPad (
    ' '
    )string_ falsey ,
    // 50% %s
    @rightPad
    ( ) repeat charz {
    repeat
    //
    u16 len// " ++ [27880; 37322]%N ++ runes_of_ascii "
, i64 falsey// " ++ [128512]%N ++ runes_of_ascii " emoji
@calculatedFrom( // a // b
""{,}"" )
    // " ++ [128512]%N ++ runes_of_ascii " emoji
    , repeat // c
char[ 7 ] x_y_z
    `a\`
, len
    @lengthOf(
u) , }
, char	o //
`100% of %d` , uint8 chars @calculatedFrom(
// " ++ [27880; 37322]%N ++ runes_of_ascii "
// a // b
""\n"" ) , }root
packet leftPad
{ @rightPad	( ) u64 pack @calculatedFrom(
""packet"" )
    ,float32 BodyLength
    ,
    int32 packetx// packet A { u8 x, }
`it's` ,
    } packet float
    { stringy msg_type
    , Z9_	@calculatedFrom( ""1"" )
`u8 x,` , @lengthOf( Header
// @lengthOf(
// packet A { u8 x, }
)
    // a // b
    trueish
    @calculatedFrom( ""x y"" ), }")).
Eval vm_compute in ("<<<M1336>>>" ++ check (runes_of_ascii "packet	charz{
    // a // b
    @rightPad( )
    @tag(007
)
@tag( 255)
repeat
_x {
crc @lengthOf( u)
    `doc`	,u16	x , }
    , match
    u128 as // " ++ [128512]%N ++ runes_of_ascii " emoji
As // trailing space 
{  10
:
x_y_z
,	} , zchar[ 007
]int @calculatedFrom( """ ++ [233]%N ++ runes_of_ascii "t" ++ [233]%N ++ runes_of_ascii """ ) ,
match tag as//
float { // c
[""" ++ [28040; 24687]%N ++ runes_of_ascii """
    // " ++ [27880; 37322]%N ++ runes_of_ascii "
    ,
""" ++ [28040; 24687]%N ++ runes_of_ascii """] : leftPad , """ ++ [128512]%N ++ runes_of_ascii """ : repeatCount ,
    10 : stringy , // " ++ [27880; 37322]%N ++ runes_of_ascii "
""\n"" :msg_type , 1
    : float , [ ""{,}"" ]  : i64_,} ,
    @lengthOf( u128 ) @tag( 007  )  match f32a as string_
    {
    // `tick` ""quote"" 'q'
    0:	i8i8 ,} ,
uint64 falsey ,
} MetaData Foo
{u16 T , crc tag
    , A falsey
    `{ , }` // `tick` ""quote"" 'q'
,
}	packet
    float {
}
    MetaData
    rootA{ _x x,char[ 10 //x
]
options1 , pack x_y_z
//x
// trailing space 
,
    char[] u128, uint32 Pad
//x
//x
,
}
")).
Eval vm_compute in ("<<<M3879>>>" ++ check (runes_of_ascii "  packet  crc{  match string_

as

Z9_ { 
[ 

/// triple
""" ++ [233]%N ++ runes_of_ascii "t" ++ [233]%N ++ runes_of_ascii """

]:tag,
4294967296  :  // a // b
    float  65535 : i64_
,
    }
	, @leftPad	(
    '\x00')@calculatedFrom(""{,}""
) 
match

MetaDataX as
	leftPad {
0
:lengthOf,	} , 
BodyLength {match calculatedFrom
	as
	len { // 50% %s
    	10:
	Packet 
,}

    , 
repeat  zchar[ 	 // @lengthOf(
		3
	]matchKey
	`crlf
line`
	,} , 
      // 50% %s
  //x
      match u8x
as Packet 
{ 4294967296

:trueish
    ,} 

    // `tick` ""quote"" 'q'
	,	match  calculatedFrom  as  a1	{

""\" ++ [233]%N ++ runes_of_ascii """  : 
tag  /// triple
  ,[ 65535	,  //	t

""a\""b""
    ,  // " ++ [128512]%N ++ runes_of_ascii " emoji
		3 ] :

asx

, """ ++ [233]%N ++ runes_of_ascii "t" ++ [233]%N ++ runes_of_ascii """
:

    uint8x 
} ,

@calculatedFrom(
""x y"" )
repeat	uint64 roots

    `line1
line2`//	t
  ,  trueish

    uint8x

    , }
")).
Eval vm_compute in ("<<<M569>>>" ++ check (runes_of_ascii "
options{ //	t
roots =
// c
// " ++ [27880; 37322]%N ++ runes_of_ascii "
65535
; Packet=
""abc"" options1 =
'\x00'
    ;}
    packet pack {
    @tag(
//x
// trailing space 
255  )@calculatedFrom( ""\" ++ [233]%N ++ runes_of_ascii """
// a // b
//
) u {	repeat MetaDataX
_x , char[ // @lengthOf(
255 ]
int @calculatedFrom( ""\n""
)
// a // b
//
,
repeat
    i8 leftPad , match roots as tag { 1	:BodyLength 255 :	asx , ""a\""b""
:matchKey, } , } ,	@rightPad( '\x00' ) u8x u128// `tick` ""quote"" 'q'
`it's` //	t
, @leftPad (
'0' )
//
// " ++ [27880; 37322]%N ++ runes_of_ascii "
charz{ i8 roots
@lengthOf(MetaDataX),  _x float `doc` , x_y_z , } , repeat  string	MetaDataX `" ++ [28040; 24687; 31867; 22411]%N ++ runes_of_ascii "` // " ++ [128512]%N ++ runes_of_ascii " emoji
, @leftPad ( ' ') @tag(	42 )string// " ++ [27880; 37322]%N ++ runes_of_ascii "
BodyLength
@lengthOf(
i8i8 ) ,	BodyLength _x`100% of %d` , } packet rootA { @tag(
3 ) u8 x , // a // b
}
")).
Eval vm_compute in ("<<<M869>>>" ++ check (runes_of_ascii "
packet T {
match matchKey as
u8x { 7 :matchKey [ //
""""
] /// triple
: Header , [ // trailing space 
1  ,
""packet""
] :
f32a ""\" ++ [233]%N ++ runes_of_ascii """	:
calculatedFrom
    ,
255 : //	t
metadata
}
    ,
    @lengthOf(i8i8) @lengthOf(float	)
@calculatedFrom(""a\\"" )  pack
    // `tick` ""quote"" 'q'
    @lengthOf(
packetx) `crlf
line`
,
match rootA
// " ++ [27880; 37322]%N ++ runes_of_ascii "
// packet A { u8 x, }
as Z9_
// " ++ [27880; 37322]%N ++ runes_of_ascii "
// a // b
{ [""CRC32"" ] : o // @lengthOf(
, ""it's"" :stringy
    , 3
: a1 ,""it's""
:// @lengthOf(
u8x
    }, char
    falsey
,f32
i64_
// packet A { u8 x, }
// a // b
,@leftPad ( //x
' ' )
    i8i8
{trueish @calculatedFrom( """ ++ [128512]%N ++ runes_of_ascii """	) , }
    , @lengthOf(	As )
    a1 leftPad,
// `tick` ""quote"" 'q'
// `tick` ""quote"" 'q'
}")).
Eval vm_compute in ("<<<M1394>>>" ++ check (runes_of_ascii "packet packetx { // `tick` ""quote"" 'q'
match Pad
as roots
{
10 :body , 0 :
Z9_, 42 :Logon
    , 00
: tag
    ,
    """ ++ [28040; 24687]%N ++ runes_of_ascii """
    : pack  ,
}, @calculatedFrom(
""{,}"") i64 Z9_ ,string u	@lengthOf(
metadata ) , @tag( 0123456789 ) BodyLength u `{ , }`,  @rightPad (
    // a // b
    ) msg_type	@lengthOf(
    //x
    T
) ,
    // @lengthOf(
    }
/// triple
/// triple
packet Logon { @rightPad // packet A { u8 x, }
( '\x00') repeat
// " ++ [27880; 37322]%N ++ runes_of_ascii "
/// triple
int16	metadata
, @tag( 42 ) chars
Pad ,
@calculatedFrom(
    """ ++ [233]%N ++ runes_of_ascii "t" ++ [233]%N ++ runes_of_ascii """)repeat
    //
    A Pad	`line1
line2`,
@lengthOf( T  ) char[] Pad ,
//	t
// `tick` ""quote"" 'q'
len @lengthOf( int
    ), string
Foo ,} options { }
")).
Eval vm_compute in ("<<<M3883>>>" ++ check (runes_of_ascii "// packet A { u8 x, }
packet lengthOf {
    @lengthOf(matchKey)
    @leftPad('0')
    @lengthOf(x_y_z)
    uint32 packetx @calculatedFrom(""x y"") `{ , }`,//
    u16 i64_ @calculatedFrom(""a\""b"") `100% of %d`,
}

packet u8x {
    repeat repeatCount `crlf
    line`,
    match T as float {
        [
            42, 65535, 65535, 255, 3,
            """", ""x y""
        ] : trueish,
        4294967296 : Z9_,
        [
            65535, 3, 0, 3, 255,
            3
        ] : msg_type,
        //	t
        4294967296 : i8i8,
        //	t
        [42, 0123456789, 10] : metadata,
    },
    zchar[65535] asx @lengthOf(Packet),
}

packet Header {
}")).
Eval vm_compute in ("<<<M1372>>>" ++ check (runes_of_ascii "// packet A { u8 x, }
packet	lengthOf
{@lengthOf(matchKey ) @leftPad ( '0'
)@lengthOf( x_y_z)	uint32 packetx@calculatedFrom(  ""x y""
) `{ , }`
, //
u16 i64_ @calculatedFrom( ""a\""b""	)`100% of %d`, }
    packet u8x { repeat repeatCount `crlf
line` , match T
//
// packet A { u8 x, }
as float {
[ 42,//	t
65535 ,
65535
    // " ++ [128512]%N ++ runes_of_ascii " emoji
    , 255 ,
3,"""" ,
""x y""
]
: trueish ,4294967296 : Z9_ ,	[ 65535
,	3 , 0	, 3 ,
    255 , 3  ] :
msg_type
, //	t
4294967296 : i8i8  , //	t
[ 42 ,
    /// triple
    0123456789, 10/// triple
]
:metadata , }
    , zchar[ 65535	] asx @lengthOf(
Packet )  , } packet // " ++ [27880; 37322]%N ++ runes_of_ascii "
Header {}

")).
Eval vm_compute in ("<<<M1139>>>" ++ check (runes_of_ascii "options { body // packet A { u8 x, }
=
    ""\" ++ [233]%N ++ runes_of_ascii """
; }
options{chars =  ""x y"" } packet BodyLength	{ chars@calculatedFrom( //	t
""" ++ [233]%N ++ runes_of_ascii "t" ++ [233]%N ++ runes_of_ascii """  )
`100% of %d`
    , @calculatedFrom( ""a	b"" // " ++ [128512]%N ++ runes_of_ascii " emoji
) int32
    msg_type , } packet
    metadata
{
    @leftPad(
    ) u8 u128 ,u , //	t
trueish , stringy	trueish//	t
,@lengthOf(
Pad) pack
{
char[ 10
    ] charz `u8 x,` , }, repeat char leftPad , @rightPad ( '0' ) i64
    int@lengthOf( pack)
, char[] charz , // @lengthOf(
match _x // c
as pack { //x
3 :	body	,
[ ""// no comment"" ,
""a\""b""]
:
uint8x , 3 :lengthOf , } , matchKey
    // 50% %s
    , }
")).
Eval vm_compute in ("<<<M270>>>" ++ check (runes_of_ascii "options { Header
=
    ""a\\"" }packet x{ } packet repeatCount{zchar[ 00 ] asx,
@calculatedFrom( ""// no comment"" ) match body as Logon
{ ""abc""
:	chars
42	: A
,
""// no comment"":
crc , [ """"
]: f32a , 4294967296 : falsey ""x y""	: u8x },	@rightPad(
    ' ' ) u32
stringy @lengthOf(	lengthOf) ,  Foo `say ""hi""`// packet A { u8 x, }
,
crc `100% of %d` , @leftPad( '\x00' )
u8x o , zchar[
255	]
tag `u8 x,`	,} packet f32a { }
// @lengthOf(
// @lengthOf(
root packet
// packet A { u8 x, }
// 50% %s
msg_type {
@calculatedFrom(  ""`tick`""
    )char[]crc
, int	options1
, //
asx ,}
")).
Eval vm_compute in ("<<<M438>>>" ++ check (runes_of_ascii "
MetaData  roots{ } packet chars{
@tag( 255 ) char[ 1// 50% %s
]Packet ,
@lengthOf(calculatedFrom
    /// triple
    )
Packet{ uint32 len, uint64
uint8x
    @lengthOf(stringy ) , } , x@lengthOf(trueish)
`100% of %d`  , }packet len { zchar[3
    // 50% %s
    ] pack `crlf
line`, float
    @lengthOf(//
calculatedFrom
//	t
// a // b
) ,char[ 3	]rootA @lengthOf(body )
    , @calculatedFrom(""{,}"")
// c
// c
match _x as Header // c
{  00 : _x , [ ""packet""
,10, 0123456789 ,	255 ]: a1 ,	42  : falsey
,007
    : msg_type },
}
// packet A { u8 x, }
")).
Eval vm_compute in ("<<<M338>>>" ++ check (runes_of_ascii "
options	{ o = ""packet"" body =true tag =
// `tick` ""quote"" 'q'
// packet A { u8 x, }
char[7]
; rootA = """"  Foo =
    string ;}
    MetaData zchar {
    int16 falsey `// not a comment` , //	t
char[]
    u128 // a // b
, f64 leftPad `
`	, }
packet  metadata
{ string repeatCount
    , o { match leftPad	as lengthOf {
[0123456789,
""1"" ] : x_y_z ,[
""" ++ [128512]%N ++ runes_of_ascii """ ] : i8i8
,
[
    /// triple
    ""a\""b""	,
""a	b""  ] :
Foo , [ ""\" ++ [233]%N ++ runes_of_ascii """] :Pad
    ,
    [	""a	b"", 42 // 50% %s
, """ ++ [233]%N ++ runes_of_ascii "t" ++ [233]%N ++ runes_of_ascii """	,3 , """ ++ [28040; 24687]%N ++ runes_of_ascii """ , 00 , 7
] : packetx,42 : falsey ,}
    ,	} , }")).
Eval vm_compute in ("<<<M509>>>" ++ check (runes_of_ascii "// " ++ [27880; 37322]%N ++ runes_of_ascii "
packet //x
float
    { }options
{ Logon =
    """ ++ [233]%N ++ runes_of_ascii "t" ++ [233]%N ++ runes_of_ascii """
    ; body = ""abc"" ; falsey= ""{,}""
    /// triple
    } packet matchKey { packetx@lengthOf(i64_ ) , @calculatedFrom( ""\" ++ [233]%N ++ runes_of_ascii """ )
u64
//x
// c
MetaDataX @lengthOf(
    Foo
)
    , repeat pack
{	u
    //	t
    msg_type , } , match u as
    calculatedFrom {""1"": MetaDataX , """ ++ [233]%N ++ runes_of_ascii "t" ++ [233]%N ++ runes_of_ascii """
    :len	,} ,
@leftPad(
'\x00' ) @calculatedFrom(""\n"" // trailing space 
) falsey
    ,
    @lengthOf(
charz ) i64 crc`
`	,// @lengthOf(
} packet charz
    { }

")).
Eval vm_compute in ("<<<M231>>>" ++ check (runes_of_ascii "packet metadata
    { } MetaData trueish
// 50% %s
//
{ metadata Logon
    `a\` , } packet
rootA {	@tag( 255
)
len
    @calculatedFrom( /// triple
""a	b"") ,	repeat f32a ,
    repeat
    body
// " ++ [128512]%N ++ runes_of_ascii " emoji
// `tick` ""quote"" 'q'
{ char[]repeatCount ,
}
    , string u@lengthOf(
    _x
) ,
@tag(255 ) Packet @lengthOf(// c
packetx)	,
metadata
@lengthOf(
    float ) , MetaDataX @calculatedFrom(""" ++ [233]%N ++ runes_of_ascii "t" ++ [233]%N ++ runes_of_ascii """
    )
    ,
repeat
    zchar[0 ] u8x , repeat float64 calculatedFrom
    ,	}
")).
Eval vm_compute in ("<<<M437>>>" ++ check (runes_of_ascii "packet
    u128 {} packet
    Foo
{packetx , }
    packet
    float
    { @tag( 1 ) // " ++ [128512]%N ++ runes_of_ascii " emoji
@lengthOf(
Pad )
// a // b
// a // b
match x_y_z as metadata
    {
    // a // b
    0: u8x 42 :	len
, ""a\\"" : Packet , [
""a	b"" , 0123456789 ,""\n"" , 65535] :
    asx
    ,
[
0 ]
:_x , 255 :
    _x	, }
,} // trailing space 
packet pack{ @lengthOf(i64_
)
    repeat
    zchar[ 1] Foo
    , repeat
// trailing space 
// trailing space 
char[] u8x
    , }
")).
Eval vm_compute in ("<<<M756>>>" ++ check (runes_of_ascii "packet stringy
{repeat
u
// c
//x
`tab	here` , crc,
    repeat a1 { x trueish
    `it's`
, zchar[
1]
roots @lengthOf( lengthOf) ,int16 f32a//x
, uint32
    // " ++ [128512]%N ++ runes_of_ascii " emoji
    a1
@lengthOf( u ) , } , match
    // " ++ [128512]%N ++ runes_of_ascii " emoji
    Logon as
//	t
/// triple
u128 { [ ""x y""]
    : uint8x ""// no comment"" : pack , ""1"":
//	t
// `tick` ""quote"" 'q'
crc , } ,u16 uint8x @lengthOf( int
    // trailing space 
    ) ,  @tag( 007)//x
repeat f32a , }
")).
Eval vm_compute in ("<<<M1353>>>" ++ check (runes_of_ascii "packet metadata
// c
// trailing space 
{ @calculatedFrom( ""a\\"" ) @rightPad
// a // b
// " ++ [27880; 37322]%N ++ runes_of_ascii "
( '\x00' )	@rightPad	( '\x00'
    )
repeat x , }
// `tick` ""quote"" 'q'
// packet A { u8 x, }
MetaData T { int32 lengthOf , trueish T
    `line1
line2` ,rootA crc
`100% of %d` ,
    A
    charz , }
MetaData  float { repeatCount
    string_`// not a comment`, } MetaData x{roots options1 `" ++ [233]%N ++ runes_of_ascii "`,
i8
    // c
    roots
    , }
")).
Eval vm_compute in ("<<<M3487>>>" ++ check (runes_of_ascii "options	{	LittleEndian

=true	; 
StringPrefixLenType=

    u16

;

ArrayPrefixLenType
    =u64
; FixedStringPadFromLeft

=

true;FixedStringPadChar  = ' ' 
;
	} packet  Reject	{  zchar[ 
3]  OrderId ,
int16
Flags  , @leftPad (' ' )
char[ 11	]

    x

, u16 tag7
	,  } 
packet Quote{ 
Reject, char[]

Qty 
, 
repeat	f32
	f1
,
zchar[ 5 ]	Flags

    ,
}

    root	packet
Leg
{ i32
Px
    ,
} ")).
Eval vm_compute in ("<<<M693>>>" ++ check (runes_of_ascii "MetaData
    MetaDataX{ char[ 65535 // c
]
falsey  ,
//	t
// @lengthOf(
asx
lengthOf`say ""hi""`,	u8 // `tick` ""quote"" 'q'
metadata , string body`
` // " ++ [128512]%N ++ runes_of_ascii " emoji
,
} MetaData tag
    {
    char[ 007] u8x , x_y_z zchar
    // a // b
    `line1
line2`
, A As ,
}
MetaData msg_type { uint32 pack`tab	here` , }
    options {trueish
    =
false
    i8i8
    = 007 ;
    int
=
char[]
; }")).
Eval vm_compute in ("<<<M4334>>>" ++ check (runes_of_ascii "root packet calculatedFrom {
    T {
        match stringy as options1 {
            00 : stringy,
            [1] : f32a,
        },
        string int @lengthOf(As),
        repeat lengthOf A,
    },
    i8 charz @calculatedFrom(""packet""),
    uint8 metadata @calculatedFrom(""packet"") `u8 x,`,
    match Packet as u128 {
        ""a	b"" : x,
        // c
    },
}")).
Eval vm_compute in ("<<<M696>>>" ++ check (runes_of_ascii "root packet f32a  {	_x BodyLength, char[	4294967296
]	x_y_z // " ++ [128512]%N ++ runes_of_ascii " emoji
`// not a comment` ,
}
packet	crc	{ @calculatedFrom(
    ""a\\""// `tick` ""quote"" 'q'
)
repeat
    trueish
{ zchar[65535
] x	`100% of %d` ,
char[ 0123456789
    ]options1 @lengthOf( u128)`100% of %d`
    , char[] Z9_
    `" ++ [233]%N ++ runes_of_ascii "` , string Foo @lengthOf( Header
) , } // a // b
,}")).
Eval vm_compute in ("<<<M909>>>" ++ check (runes_of_ascii "root packet chars
{ repeat zchar[ 10 ] rootA
,@rightPad// `tick` ""quote"" 'q'
( ) int8 crc
    @lengthOf(
    stringy
    ) ,
    //x
    repeat
tag
    {repeat int ,
repeat metadata , Z9_ ,} ,@calculatedFrom( ""packet"" )string_ @lengthOf(
    x ) , rootA @calculatedFrom( ""a\\"") , u16  matchKey
    `doc` , // `tick` ""quote"" 'q'
}")).
Eval vm_compute in ("<<<M1233>>>" ++ check (runes_of_ascii "MetaData
    options1 { u16 stringy,	}
    packet stringy
{ // packet A { u8 x, }
zchar
    // " ++ [128512]%N ++ runes_of_ascii " emoji
    @calculatedFrom(""`tick`"") ,
    @rightPad ( '\x00' ) @leftPad('\x00'
    )
    @leftPad( '\x00'  )
    rootA@calculatedFrom( """ ++ [28040; 24687]%N ++ runes_of_ascii """ ) , @leftPad ( '\x00' ) char[
0]	u @calculatedFrom(
    ""`tick`""	) ,// a // b
}")).
Eval vm_compute in ("<<<M465>>>" ++ check (runes_of_ascii "
options { leftPad= '\x00' } options
{} packet i64_  {char[ 255 ] matchKey @lengthOf( trueish )`tab	here` ,Pad`line1
line2`	, repeat string_,trueish @calculatedFrom(""1""//
) `` ,
    @leftPad
    ( '\x00' ) zchar[ 0 ] string_ `two words`
    // packet A { u8 x, }
    , @tag(3 ) // packet A { u8 x, }
x
,}
")).
Eval vm_compute in ("<<<M4265>>>" ++ check (runes_of_ascii "

  options

{

    }packet  calculatedFrom  {

@lengthOf( trueish// " ++ [128512]%N ++ runes_of_ascii " emoji

  )	@lengthOf( 

    // a // b
    asx
	)@rightPad
(
)
char stringy	@lengthOf(
trueish
	) ,
	}MetaData
packetx

{  // " ++ [27880; 37322]%N ++ runes_of_ascii "
	f32

    Pad	`" ++ [28040; 24687; 31867; 22411]%N ++ runes_of_ascii "`
,  int64
msg_type 	 // 50% %s
		,
    int32 matchKey
,

    }
")).
Eval vm_compute in ("<<<M4466>>>" ++ check (runes_of_ascii "

  // top
options 
    // c0

{ // c1a
	// c1b
		FixedStringPadFromLeft
    = // c3
  true  // c4
;
} 
// c6
  root
packet  // c8

P// c9a
    	// c9b
  	{// c10
char[ 	 // c11a
  // c11b
    4 // c12
    ]  
      // c13
z
    // c14
	,	// c15a

  // c15b
	  }
// c16
 
")).
Eval vm_compute in ("<<<M150>>>" ++ check (runes_of_ascii "
root  packet	uint8x { // trailing space 
@lengthOf(	a1 )uint64 i8i8
@calculatedFrom(""it's"" ) , repeat float32 a1 ,@tag(
1 ) @tag( 65535 )u32 options1, @lengthOf( i8i8
) @lengthOf( int ) @leftPad ( ) char[42 ]len  @calculatedFrom( ""packet"")	, }
root packet
    u128 {}
")).
Eval vm_compute in ("<<<M1554>>>" ++ check (runes_of_ascii "// 50% %s
packet	a1
    { zchar[
// a // b
// 50% %s
007]
T @lengthOf(
    ,@rightPad
    // a // b
    (
'\x00')
    o repeatCount , }  packet Logon {  }packet	Logon //x
{ repeat // " ++ [128512]%N ++ runes_of_ascii " emoji
uint16 u128
    //
    `a\`,
falsey
@calculatedFrom(""packet"" ) ,
    } 	 ")).
Eval vm_compute in ("<<<M1687>>>" ++ check (runes_of_ascii "// 50% %s
packet	a1
    { zchar[
// a // b
// 50% %s
007]
T `it's`
    ,@rightPad
    // a // b
    (
'\x00')
    o repeatCount , }  packet Logon {  }packet	Logon //x
{ repeat // " ++ [128512]%N ++ runes_of_ascii " emoji
uint16 u128
    //
    `a\`,
falsey
@calculatedFrom(""packet"" ) ,
    } } 	 ")).
Eval vm_compute in ("<<<M1573>>>" ++ check (runes_of_ascii "// 50% %s
packet	a1
    { zchar[
// a // b
// 50% %s
007]
T `it's`
    ,@rightPad
    // a // b
    (
)'\x00'
    o repeatCount , }  packet Logon {  }packet	Logon //x
{ repeat // " ++ [128512]%N ++ runes_of_ascii " emoji
uint16 u128
    //
    `a\`,
falsey
@calculatedFrom(""packet"" ) ,
    } 	 ")).
Eval vm_compute in ("<<<M1556>>>" ++ check (runes_of_ascii "// 50% %s
packet	a1
    { zchar[
// a // b
// 50% %s
007]
T `it's`
    @rightPad
    // a // b
    (
'\x00')
    o repeatCount , }  packet Logon {  }packet	Logon //x
{ repeat // " ++ [128512]%N ++ runes_of_ascii " emoji
uint16 u128
    //
    `a\`,
falsey
@calculatedFrom(""packet"" ) ,
    } 	 ")).
Eval vm_compute in ("<<<M1639>>>" ++ check (runes_of_ascii "// 50% %s
packet	a1
    { zchar[
// a // b
// 50% %s
007]
T `it's`
    ,@rightPad
    // a // b
    (
'\x00')
    o repeatCount , }  packet Logon {  }packet	Logon //x
{ u8 // " ++ [128512]%N ++ runes_of_ascii " emoji
uint16 u128
    //
    `a\`,
falsey
@calculatedFrom(""packet"" ) ,
    } 	 ")).
Eval vm_compute in ("<<<M824>>>" ++ check (runes_of_ascii "MetaData pack {
    zchar[ 10 ] string_`" ++ [28040; 24687; 31867; 22411]%N ++ runes_of_ascii "` ,
    msg_type chars
, char[]o // trailing space 
`a\` //x
,	zchar[65535 ]
    T ,
    As T, packetx tag ,  } root packet o
// c
// `tick` ""quote"" 'q'
{ }MetaData chars
// trailing space 
// 50% %s
{ //x
}
")).
Eval vm_compute in ("<<<M1147>>>" ++ check (runes_of_ascii "
root packet T{
string f32a@calculatedFrom( ""it's""
)
`say ""hi""`
//
// " ++ [128512]%N ++ runes_of_ascii " emoji
, @tag(
0123456789 )
x_y_z @calculatedFrom( ""x y""
)`two words`
// `tick` ""quote"" 'q'
// " ++ [27880; 37322]%N ++ runes_of_ascii "
, @lengthOf(asx
)
A@calculatedFrom( ""\n""
    ) // a // b
`tab	here`
, }
")).
Eval vm_compute in ("<<<M3493>>>" ++ check (runes_of_ascii "

  packet
Sub	{u8

a
,  @calculatedFrom(  ""CRC16"" )
i16
SubSum
    , } root 
packet
Frame 
{
    u16
    MsgType
,
u16
BodyLen 
@lengthOf( 
Body ),
Sub
Body,
string
note  ,	@calculatedFrom(""CRC16""
	)	i16

Checksum
    ,u8	tail
	, } ")).
Eval vm_compute in ("<<<M4402>>>" ++ check (runes_of_ascii "MetaData // @lengthOf(
  options1{ 
  // a // b
	  float32  a1

`a\`

// " ++ [128512]%N ++ runes_of_ascii " emoji

, leftPad
	    // packet A { u8 x, }
  Packet `" ++ [28040; 24687; 31867; 22411]%N ++ runes_of_ascii "`

    ,
zchar[4294967296	]
    repeatCount
    ,f32

x , roots 
packetx`" ++ [233]%N ++ runes_of_ascii "` ,

    }
")).
Eval vm_compute in ("<<<M1352>>>" ++ check (runes_of_ascii "root // c
packet As { char[0123456789 ]rootA @calculatedFrom(""CRC32""
    )
,@calculatedFrom( ""// no comment"" ) repeat char lengthOf , @lengthOf(
//
// @lengthOf(
i64_ )
    repeat char[0
] T // trailing space 
, } 	 ")).
Eval vm_compute in ("<<<M3817>>>" ++ check (runes_of_ascii "root packet x_y_z {
    int32 lengthOf `line1
    line2`,
}

packet T {
    u16 i64_,
}

packet Z9_ {
    repeat string trueish `doc`,
}

options {
    repeatCount = '0';
    charz = i16;
    tag = ""packet""
}")).
Eval vm_compute in ("<<<M975>>>" ++ check (runes_of_ascii "
root	packet
chars
{ match
    u as tag { 1 :	u//x
, [	10 ]
    : A
    , ""`tick`"":BodyLength , }// " ++ [27880; 37322]%N ++ runes_of_ascii "
,repeat u8x
{ i16 // a // b
u
@lengthOf(
i64_ ) , string
    /// triple
    Packet , } ,
}
")).
Eval vm_compute in ("<<<M4338>>>" ++ check (runes_of_ascii "

  root	/// triple
  packet  calculatedFrom  {

string  crc
,

    @calculatedFrom( 
""abc"")u8

float

    , match	// " ++ [27880; 37322]%N ++ runes_of_ascii "

BodyLength

// 50% %s
    as

Packet  {  0: charz
, }

, }

")).
Eval vm_compute in ("<<<M3698>>>" ++ check (runes_of_ascii "MetaData x {
    int32 int `line1
    line2`,
}

packet o {
    u32 charz,
    char[1] x_y_z `
    `,//	t
    len lengthOf,
    @lengthOf(charz)
    i16 body `crlf
    line`,
}")).
Eval vm_compute in ("<<<M571>>>" ++ check (runes_of_ascii "packet  u8x { @rightPad ( )match
a1 as
int
{007 :matchKey ,""a	b"" :pack 3 :
Z9_""x y""
    : asx , } ,} packet
// 50% %s
//x
metadata {string crc
    // @lengthOf(
    ,}")).
Eval vm_compute in ("<<<M3943>>>" ++ check (runes_of_ascii "MetaData string_ {
    uint32 f32a `crlf
    line`,
    zchar[0123456789] string_ `100% of %d`,
    stringy u `it's`,
    char Z9_,
    a1 f32a,
    char[1] a1,
}")).
Eval vm_compute in ("<<<M4108>>>" ++ check (runes_of_ascii "packet A {
    Inner {
        match k as n {
            [
                1, 22, 007, 4, 5,
                66, 7, 8
            ] : B,
        },
    },
}")).
Eval vm_compute in ("<<<M4256>>>" ++ check (runes_of_ascii "MetaData _x {
    char[255] MetaDataX `doc`,
}

options {
    f32a = zchar[42];
    body = ""`tick`"";
    As = true
    tag = 3;
    packetx = true
}//	t")).
Eval vm_compute in ("<<<M3685>>>" ++ check (runes_of_ascii "packet A
{u8

    a
,

    }	packet 
B	{ u16 b ,

}
    root

packet  P{u8 K  ,match K 
as

M
{	[ 1

,  2
	] :
    A ,3 :  B ,	7:
A ,}  ,
	}")).
Eval vm_compute in ("<<<M2337>>>" ++ check (runes_of_ascii "options
    {
x_y_z// " ++ [27880; 37322]%N ++ runes_of_ascii "
= 10 ; }
packet body {
    @calculatedFrom(
// trailing space 
// " ++ [27880; 37322]%N ++ runes_of_ascii "
""1""
)	match @lengthOf T as Foo
    {
255 :T , }
,}")).
Eval vm_compute in ("<<<M2052>>>" ++ check (runes_of_ascii "MetaData {
BodyLength int8 Foo
, string
    MetaDataX , float zchar ,pack options1
,asx string_, }
packet u8x {Foo@lengthOf(charz )
`" ++ [28040; 24687; 31867; 22411]%N ++ runes_of_ascii "`,  }
")).
Eval vm_compute in ("<<<M84>>>" ++ check (runes_of_ascii "options{  }
options
    { o =
//x
//	t
false packetx=
    // @lengthOf(
    """ ++ [233]%N ++ runes_of_ascii "t" ++ [233]%N ++ runes_of_ascii """	asx = 0123456789 Foo = int8 a1
    = uint8
    ;
    } //	t")).
Eval vm_compute in ("<<<M2207>>>" ++ check (runes_of_ascii "MetaData BodyLength
{ int8 Foo
, string
    MetaDataX , float zchar ," ++ [21517; 23383]%N ++ runes_of_ascii " options1
,asx string_, }
packet u8x {Foo@lengthOf(charz )
`" ++ [28040; 24687; 31867; 22411]%N ++ runes_of_ascii "`,  }
")).
Eval vm_compute in ("<<<M1952>>>" ++ check (runes_of_ascii "
packet leftPad {
@leftPad( '0' '0')
u32
i64_ `100% of %d` ,repeat// 50% %s
i8 chars
    ,
} MetaData
    f32a
{ // packet A { u8 x, }
}")).
Eval vm_compute in ("<<<M2113>>>" ++ check (runes_of_ascii "MetaData BodyLength
{ int8 Foo
, string
    MetaDataX , float zchar ,pack f64
,asx string_, }
packet u8x {Foo@lengthOf(charz )
`" ++ [28040; 24687; 31867; 22411]%N ++ runes_of_ascii "`,  }
")).
Eval vm_compute in ("<<<M2269>>>" ++ check (runes_of_ascii "options
    {
x_y_z// " ++ [27880; 37322]%N ++ runes_of_ascii "
= 10 ; }
packet body {
    @calculatedFrom(
// trailing space 
// " ++ [27880; 37322]%N ++ runes_of_ascii "
""1""
) )	match T as Foo
    {
255 :T , }
,}")).
Eval vm_compute in ("<<<M2338>>>" ++ check (runes_of_ascii "options
    {
x_y_z// " ++ [27880; 37322]%N ++ runes_of_ascii "
= 10 ; }
p%acket body {
    @calculatedFrom(
// trailing space 
// " ++ [27880; 37322]%N ++ runes_of_ascii "
""1""
)	match T as Foo
    {
255 :T , }
,}")).
Eval vm_compute in ("<<<M2013>>>" ++ check (runes_of_ascii "
packet leftPad {
@leftPad( '0')
u32
i64_ `100% of %d` ,repeat// 50% %s
i8 chars
    ,
} MetaData
    {
f32a // packet A { u8 x, }
}")).
Eval vm_compute in ("<<<M2405>>>" ++ check (runes_of_ascii "MetaData
    calculatedFrom
{ zchar[  10 ]
    As`tab	here`,
    }// trailing space 
options  { roots ='\x00' '\x00' ; } packet A
{ }
")).
Eval vm_compute in ("<<<M2318>>>" ++ check (runes_of_ascii "options
    {
x_y_z// " ++ [27880; 37322]%N ++ runes_of_ascii "
= 10 ; }
packet body {
    @calculatedFrom(
// trailing space 
// " ++ [27880; 37322]%N ++ runes_of_ascii "
""1""
)	match T as Foo
    {
255 :T , 
,}")).
Eval vm_compute in ("<<<M1600>>>" ++ check (runes_of_ascii "// 50% %s
packet	a1
    { zchar[
// a // b
// 50% %s
007]
T `it's`
    ,@rightPad
    // a // b
    (
'\x00')
    o repeatCount ,")).
Eval vm_compute in ("<<<M1595>>>" ++ check (runes_of_ascii "// 50% %s
packet	a1
    { zchar[
// a // b
// 50% %s
007]
T `it's`
    ,@rightPad
    // a // b
    (
'\x00')
    o repeatCount")).
Eval vm_compute in ("<<<M744>>>" ++ check (runes_of_ascii "//x
MetaData // `tick` ""quote"" 'q'
Pad  {string_ x,
} packet x_y_z
{ repeat rootA zchar  `crlf
line` , @tag(
7
) tag tag,}")).
Eval vm_compute in ("<<<M1971>>>" ++ check (runes_of_ascii "
packet leftPad {
@leftPad( '0')
u32
i64_  ,repeat// 50% %s
i8 chars
    ,
} MetaData
    f32a
{ // packet A { u8 x, }
}")).
Eval vm_compute in ("<<<M1855>>>" ++ check (runes_of_ascii "packet o {
    roots `it's`
// trailing space 
//x
uint32 char[ 42
    ]  A, // " ++ [27880; 37322]%N ++ runes_of_ascii "
f64
repeatCount
    `crlf
line`
,}")).
Eval vm_compute in ("<<<M1834>>>" ++ check (runes_of_ascii "packet o o {
    roots `it's`
// trailing space 
//x
, char[ 42
    ]  A, // " ++ [27880; 37322]%N ++ runes_of_ascii "
f64
repeatCount
    `crlf
line`
,}")).
Eval vm_compute in ("<<<M1921>>>" ++ check (runes_of_ascii "packe""t o {
    roots `it's`
// trailing space 
//x
, char[ 42
    ]  A, // " ++ [27880; 37322]%N ++ runes_of_ascii "
f64
repeatCount
    `crlf
line`
,}")).
Eval vm_compute in ("<<<M3672>>>" ++ check (runes_of_ascii "packet A {
    B b `a
        
        b`,
    B `a
        
        b`,
    repeat B bs `a
        
        b`,
}")).
Eval vm_compute in ("<<<M3687>>>" ++ check (runes_of_ascii "
MetaData 
repeatCount
	{ char[
// packet A { u8 x, }
  4294967296
	] 
chars

    `// not a comment`
    ,
	} ")).
Eval vm_compute in ("<<<M1395>>>" ++ check (runes_of_ascii "packet roots
{ } options
{	len
= zchar[
    //
    42]
    Packet
    = // 50% %s
007  ; pack  = ""a\\""
;}
")).
Eval vm_compute in ("<<<M3003>>>" ++ check (runes_of_ascii "packet A {
  match k as n {
    [1, ""bb"", 007, ""d"", 5, ""f"", 7, ""h"", 9, ""j"", 11, ""l""] : B,
    2 : C
  },
}")).
Eval vm_compute in ("<<<M1034>>>" ++ check (runes_of_ascii "MetaData i8i8 {rootA
stringy
, char[ 4294967296 ] asx , i8 uint8x, zchar  int
,} // `tick` ""quote"" 'q'")).
Eval vm_compute in ("<<<M2015>>>" ++ check (runes_of_ascii "
packet leftPad {
@leftPad( '0')
u32
i64_ `100% of %d` ,repeat// 50% %s
i8 chars
    ,
} MetaData")).
Eval vm_compute in ("<<<M2970>>>" ++ check (runes_of_ascii "packet A {
  match k as n {
    [""a"", ""bb"", 007, ""d"", ""e"", 66, ""g"", ""h"", 9] : B,
    2 : C
  },
}")).
Eval vm_compute in ("<<<M2412>>>" ++ check (runes_of_ascii "MetaData
    calculatedFrom
{ zchar[  10 ]
    As`tab	here`,
    }// trailing space 
options  {")).
Eval vm_compute in ("<<<M1819>>>" ++ check (runes_of_ascii "@lengthOfoptions{  lengthOf =//x
i16;
    BodyLength = 0 ; pack
= false;
    A = char[ 3 ] }")).
Eval vm_compute in ("<<<M2419>>>" ++ check (runes_of_ascii "MetaData
    calculatedFrom
{ zchar[  10 ]
    As`tab	here`,
    }// trailing space 
options")).
Eval vm_compute in ("<<<M1275>>>" ++ check (runes_of_ascii "// @lengthOf(
packet x { }packet
falsey {
    repeat char[ //	t
65535 ] roots `doc` , }
")).
Eval vm_compute in ("<<<M3363>>>" ++ check (runes_of_ascii "
packet Inner  { u8

    a
,

}
	root
packet  P  {	Inner

    ref_obj 
, u8 
x ,	}
")).
Eval vm_compute in ("<<<M1815>>>" ++ check (runes_of_ascii "options{  lengthOf =//x
i16;
    BodyLength = 0 ; pack
= '1' false;
    A = char[ 3 ] }")).
Eval vm_compute in ("<<<M1726>>>" ++ check (runes_of_ascii "options{  lengthOf = =//x
i16;
    BodyLength = 0 ; pack
= false;
    A = char[ 3 ] }")).
Eval vm_compute in ("<<<M1777>>>" ++ check (runes_of_ascii "options{  lengthOf =//x
i16;
    BodyLength = 0 ; pack
= false A
    ; = char[ 3 ] }")).
Eval vm_compute in ("<<<M1787>>>" ++ check (runes_of_ascii "options{  lengthOf =//x
i16;
    BodyLength = 0 ; pack
= false;
    A char[ = 3 ] }")).
Eval vm_compute in ("<<<M3079>>>" ++ check (runes_of_ascii "packet A {
    u32 crc @calculatedFrom(""x\
y""),
    @calculatedFrom(""x\
y"") u8 y,
}")).
Eval vm_compute in ("<<<M3727>>>" ++ check (runes_of_ascii "packet A {
    match k as n {
        [1, ""bb"", 007] : B,
        2 : C,
    },
}")).
Eval vm_compute in ("<<<M2934>>>" ++ check (runes_of_ascii "packet A {
  match k as n {
    [1, 22, 007, 4, 5, 66, 7] : B,
    2 : C
  },
}")).
Eval vm_compute in ("<<<M3273>>>" ++ check (runes_of_ascii "MetaData Foo { zchar[ 0 ] matchKey , } options { lengthOf = i32 u // c
= 00 ; }")).
Eval vm_compute in ("<<<M1315>>>" ++ check (runes_of_ascii "options{
    u =
// 50% %s
// trailing space 
'\x00' ; zchar//x
= true ; }
")).
Eval vm_compute in ("<<<M3880>>>" ++ check (runes_of_ascii "root packet i8i8 {
    metadata ``,
}

root packet zchar {
    // 50% %s
}")).
Eval vm_compute in ("<<<M12>>>" ++ check (runes_of_ascii "options	{
    // `tick` ""quote"" 'q'
    _x// trailing space 
=""" ++ [28040; 24687]%N ++ runes_of_ascii """ ; }
")).
Eval vm_compute in ("<<<M1314>>>" ++ check (runes_of_ascii "
root packet i8i8 { metadata `` , }root
packet zchar { // 50% %s
}
")).
Eval vm_compute in ("<<<M2815>>>" ++ check (runes_of_ascii "@tag( i32 = `doc` 255 int32 0123456789 @lengthOf( packet ' ' repeat")).
Eval vm_compute in ("<<<M2875>>>" ++ check (runes_of_ascii "packet A {
  match k as n {
    [""a"", ""bb""] : B,
    2 : C
  },
}")).
Eval vm_compute in ("<<<M4304>>>" ++ check (runes_of_ascii "// c
packet u8x {
}

MetaData crc {
    char[4294967296] Foo,
}")).
Eval vm_compute in ("<<<M3297>>>" ++ check (runes_of_ascii "packet u8x { } // c
MetaData crc { char[ 4294967296 ] Foo , }")).
Eval vm_compute in ("<<<M3049>>>" ++ check (runes_of_ascii "packet A {
    B b `
x`,
    B `
x`,
    repeat B bs `
x`,
}")).
Eval vm_compute in ("<<<M2871>>>" ++ check (runes_of_ascii "packet A {
  match k as n {
    [""a""] : B
    2 : C
  },
}")).
Eval vm_compute in ("<<<M2094>>>" ++ check (runes_of_ascii "MetaData BodyLength
{ int8 Foo
, string
    MetaDataX ,")).
Eval vm_compute in ("<<<M335>>>" ++ check (runes_of_ascii "packet
MetaDataX
{ }
    root packet Packet  {
} //")).
Eval vm_compute in ("<<<M2596>>>" ++ check (runes_of_ascii "packet A { x @lengthOf(y) @calculatedFrom(""c""), }")).
Eval vm_compute in ("<<<M19>>>" ++ check (runes_of_ascii "packet string_	{ }packet
    matchKey
    { }
")).
Eval vm_compute in ("<<<M852>>>" ++ check (runes_of_ascii "root packet // `tick` ""quote"" 'q'
i8i8 { }
")).
Eval vm_compute in ("<<<M919>>>" ++ check (runes_of_ascii "MetaData repeatCount	{
//x
// @lengthOf(
}")).
Eval vm_compute in ("<<<M2363>>>" ++ check (runes_of_ascii "MetaData
Foo int64 Header //
pack ,	} 	 ")).
Eval vm_compute in ("<<<M3227>>>" ++ check (runes_of_ascii "root packet u128 { // c
chars `doc` , }")).
Eval vm_compute in ("<<<M612>>>" ++ check (runes_of_ascii "packet // trailing space 
_x
    { }")).
Eval vm_compute in ("<<<M2389>>>" ++ check (runes_of_ascii "MetaData
Foo {Header //\
pack ,	} 	 ")).
Eval vm_compute in ("<<<M2611>>>" ++ check (runes_of_ascii "packet A { match k as n { 1 : B } }")).
Eval vm_compute in ("<<<M3719>>>" ++ check (runes_of_ascii "
// c
    options { 
u8x	=	false	}")).
Eval vm_compute in ("<<<M2718>>>" ++ check (runes_of_ascii "J" ++ [65533; 65533; 25; 65533; 65533]%N ++ runes_of_ascii "n" ++ [4; 0; 65533; 65533; 65533; 24; 65533; 65533; 65533]%N ++ runes_of_ascii "Gr3=" ++ [65533; 65533]%N ++ runes_of_ascii "s" ++ [40391; 65533]%N ++ runes_of_ascii "{" ++ [65533]%N ++ runes_of_ascii "6__	" ++ [65533]%N)).
Eval vm_compute in ("<<<M2861>>>" ++ check (runes_of_ascii ") char[] ] @leftPad ; f64 uint8")).
Eval vm_compute in ("<<<M3192>>>" ++ check (runes_of_ascii "MetaData M {
}// c
packet A {}")).
Eval vm_compute in ("<<<M2745>>>" ++ check (runes_of_ascii "
" ++ [1184]%N ++ runes_of_ascii "B" ++ [65533; 24; 262]%N ++ runes_of_ascii "@*>" ++ [65533; 14]%N ++ runes_of_ascii "R" ++ [24; 65533; 65533; 65533]%N ++ runes_of_ascii "@" ++ [65533; 31]%N ++ runes_of_ascii """" ++ [65533; 23; 65533; 65533; 65533; 22; 21; 0]%N)).
Eval vm_compute in ("<<<M2829>>>" ++ check (runes_of_ascii "USeS}F}HZ&%%M6Elv.FL|-nL&ED")).
Eval vm_compute in ("<<<M989>>>" ++ check (runes_of_ascii "
options {a1 = true ; }
")).
Eval vm_compute in ("<<<M3973>>>" ++ check (runes_of_ascii "MetaData
	metadata

{

}")).
Eval vm_compute in ("<<<M2767>>>" ++ check (runes_of_ascii "} `// not a comment` (")).
Eval vm_compute in ("<<<M1008>>>" ++ check (runes_of_ascii "options {// a // b
}")).
Eval vm_compute in ("<<<M2678>>>" ++ check (runes_of_ascii "options options { }")).
Eval vm_compute in ("<<<M3108>>>" ++ check (runes_of_ascii "// c" ++ [133]%N ++ runes_of_ascii "
packet A {
}")).
Eval vm_compute in ("<<<M520>>>" ++ check (runes_of_ascii "packet Pad{ //
}")).
Eval vm_compute in ("<<<M3170>>>" ++ check (runes_of_ascii "packet A {
}// c" ++ [6158]%N)).
Eval vm_compute in ("<<<M2578>>>" ++ check (runes_of_ascii "packet A { x, }")).
Eval vm_compute in ("<<<M4380>>>" ++ check (runes_of_ascii "
// 50% %s
")).
Eval vm_compute in ("<<<M1846>>>" ++ check (runes_of_ascii "packet o {")).
Eval vm_compute in ("<<<M2464>>>" ++ check (runes_of_ascii "optionss")).
Eval vm_compute in ("<<<M2441>>>" ++ check (runes_of_ascii "zchar[")).
Eval vm_compute in ("<<<M2481>>>" ++ check (runes_of_ascii "'\x0'")).
Eval vm_compute in ("<<<M1135>>>" ++ check (runes_of_ascii "
 //")).
Eval vm_compute in ("<<<M2446>>>" ++ check (runes_of_ascii "u80")).
Eval vm_compute in ("<<<M962>>>" ++ check (runes_of_ascii "  ")).
Eval vm_compute in ("<<<M2682>>>" ++ check (runes_of_ascii "}")).
