From FP Require Import Lexer Parser ShowPT Digest Formatter.
From Coq Require Import String List NArith.
Import ListNotations.
Open Scope string_scope.
Set Printing Width 100000000.
Set Printing Depth 100000000.
Definition show_fres (r : fres) : string :=
  match r with
  | FOk s => "OK:" ++ sh_escaped s ""
  | FErr s => "ERR:" ++ sh_escaped s ""
  | FPanic p => "PANIC:" ++ p
  end.
Definition check (rs : list rune) : string := digest (show_fres (format_res rs)).
Definition full (rs : list rune) : string := show_fres (format_res rs).
Eval vm_compute in ("<<<M3921>>>" ++ check (runes_of_ascii "options {
    As = false
}

packet stringy {
    @calculatedFrom(""" ++ [128512]%N ++ runes_of_ascii """)
    @calculatedFrom(""\n"")
    MetaDataX metadata,
    @tag(7)
    u64 packetx,
    u charz `// not a comment`,
    @rightPad()
    repeat i16 As `{ , }`,
    @rightPad(' ')
    @lengthOf(uint8x)
    msg_type {
        repeat options1 {
            //	t
            string body,
        },
        repeat int8 T,
        float32 len,
        pack {
            repeat u16 lengthOf `line1
            line2`,
            i32 len @lengthOf(MetaDataX) `" ++ [233]%N ++ runes_of_ascii "`,
            uint8x {
                BodyLength @lengthOf(x),
                zchar[255] falsey @lengthOf(Logon) `crlf
                line`,/// triple
            },
            u8x,
        },/// triple
    },
    @lengthOf(matchKey)
    int,
}

root packet Packet {
    uint16 u `a\`,
    @leftPad('0')
    repeat msg_type {
        falsey {
            repeatCount {
                uint32 As,
                char[] repeatCount,
            },
        },
    },
    @leftPad('0')
    @tag(3)
    match calculatedFrom as asx {
        ""{,}"" : float,
        1 : MetaDataX,
        ""\" ++ [233]%N ++ runes_of_ascii """ : _x,
        10 : string_,
        0 : lengthOf,
    },
    u body,
    f32 Pad @lengthOf(MetaDataX) `" ++ [28040; 24687; 31867; 22411]%N ++ runes_of_ascii "`,
    zchar[42] u `{ , }`,
    @calculatedFrom(""\n"")
    // c
    string T @lengthOf(tag) `say ""hi""`,// c
    @rightPad('0')
    match body as uint8x {
        [4294967296, 1, 00, ""x y""] : a1,
    },
}

packet a1 {
    @tag(42)
    u16 tag @lengthOf(MetaDataX),
    uint64 int `tab	here`,
    string float @lengthOf(packetx) `crlf
    line`,
    float32 options1 `it's`,
    @calculatedFrom(""CRC32"")
    uint8 crc,
    @tag(1)
    metadata f32a `" ++ [233]%N ++ runes_of_ascii "`,
    @rightPad('\x00')
    @lengthOf(pack)
    @tag(0123456789)
    float32 uint8x @lengthOf(u),
}

root packet i8i8 {
    match MetaDataX as o {
        ""// no comment"" : options1,
        7 : i8i8,
        [
            10, ""{,}"", ""// no comment"", """ ++ [128512]%N ++ runes_of_ascii """, ""\n"",
            ""// no comment"", ""abc""
        ] : As,
        [
            10, 007, 1, ""packet"", ""a\""b"",
            ""x y"", ""{,}"", ""// no comment""
        ] : BodyLength,
    },// `tick` ""quote"" 'q'
    @tag(42)
    repeat string x_y_z,
    f32a @calculatedFrom(""""),
    match u128 as Z9_ {
        """ ++ [28040; 24687]%N ++ runes_of_ascii """ : lengthOf,
        ""\" ++ [233]%N ++ runes_of_ascii """ : string_,
    },
    @tag(4294967296)
    u64 f32a,
    string roots @calculatedFrom(""\" ++ [233]%N ++ runes_of_ascii """) `// not a comment`,//	t
}")).
Eval vm_compute in ("<<<M3667>>>" ++ check (runes_of_ascii "/// triple
packet options1 {
    @leftPad('\x00')
    @rightPad()
    @rightPad('0')
    repeat BodyLength {
        a1 falsey `u8 x,`,
    },
    float32 calculatedFrom,
    match trueish as len {
        ""a	b"" : Packet,
        7 : options1,
        7 : _x,
        [
            3, 1, 0123456789, ""`tick`"", """ ++ [128512]%N ++ runes_of_ascii """,
            """ ++ [28040; 24687]%N ++ runes_of_ascii """, ""{,}"", ""1""
        ] : pack,
        ""CRC32"" : i8i8,
        ""// no comment"" : trueish,
    },
    metadata rootA `" ++ [28040; 24687; 31867; 22411]%N ++ runes_of_ascii "`,
    i32 x_y_z `two words`,
    repeat i32 x_y_z `" ++ [28040; 24687; 31867; 22411]%N ++ runes_of_ascii "`,
    @leftPad('0')
    @leftPad('0')
    x @calculatedFrom(""\n"") `{ , }`,
    @tag(1)
    //
    repeat u32 asx,
    u8x @lengthOf(packetx) `two words`,
}

packet int {
    zchar[65535] leftPad,
    @lengthOf(repeatCount)
    @tag(0123456789)
    match lengthOf as calculatedFrom {
        [""a\\""] : trueish,
        ""x y"" : A,
        """ ++ [233]%N ++ runes_of_ascii "t" ++ [233]%N ++ runes_of_ascii """ : options1,
    },
    string uint8x `it's`,
    repeat uint16 u8x,
}

packet zchar {
    // a // b
    zchar[255] chars @calculatedFrom(""packet""),
    match BodyLength as x_y_z {
        ""\n"" : u128,
        00 : Packet,
    },
    @leftPad('\x00')
    repeat o {
        Z9_ @lengthOf(asx),
    },// trailing space 
    @calculatedFrom(""" ++ [28040; 24687]%N ++ runes_of_ascii """)
    repeat u64 trueish,
    i32 charz,
    x `tab	here`,
    string u128 `// not a comment`,
    len {
        match chars as Foo {
            """" : u,
            ""packet"" : matchKey,
            ""// no comment"" : packetx,
            [
                65535, 0123456789, ""it's"", """ ++ [128512]%N ++ runes_of_ascii """, ""a\\"",
                ""a\\"", """ ++ [28040; 24687]%N ++ runes_of_ascii """, ""{,}""
            ] : len,
            // " ++ [27880; 37322]%N ++ runes_of_ascii "
            ""\" ++ [233]%N ++ runes_of_ascii """ : msg_type,
            ""abc"" : o,
        },
    },
    @calculatedFrom("""")
    match falsey as calculatedFrom {
        // `tick` ""quote"" 'q'
        [1, """ ++ [233]%N ++ runes_of_ascii "t" ++ [233]%N ++ runes_of_ascii """] : body,
        ""`tick`"" : calculatedFrom,
        3 : x_y_z,
        ""it's"" : Packet,
        [007] : Foo,
        """ ++ [128512]%N ++ runes_of_ascii """ : Foo,
    },// " ++ [27880; 37322]%N ++ runes_of_ascii "
    match leftPad as stringy {
        ""a\\"" : T,
    },
}")).
Eval vm_compute in ("<<<M3966>>>" ++ check (runes_of_ascii "packet i8i8 {
    @leftPad()
    u body `
    `,
    repeat char[] Z9_,
    repeat char[1] int,
    roots {
        _x @calculatedFrom(""\n""),
        int {
            float @lengthOf(packetx),
        },
        int8 falsey `a\`,
        uint16 x_y_z @lengthOf(u128) `two words`,
    },
    @tag(007)
    matchKey {
        _x,
    },
    @leftPad()
    @lengthOf(chars)
    i64_ @calculatedFrom(""`tick`"") `" ++ [233]%N ++ runes_of_ascii "`,
}

packet asx {
    i32 rootA @calculatedFrom(""a\""b"") `{ , }`,
}

packet f32a {
    @leftPad()
    @calculatedFrom(""// no comment"")
    repeat zchar[007] string_ `// not a comment`,
    match Header as pack {
        [""// no comment"", ""a\""b""] : x,
        // packet A { u8 x, }
        [
            00, 1, 42, ""abc"", ""\n"",
            """ ++ [233]%N ++ runes_of_ascii "t" ++ [233]%N ++ runes_of_ascii """
        ] : pack,
        [255, ""a	b""] : i64_,
    },
    options1 roots,
    int16 o,
    @rightPad(' ')
    char[] tag `// not a comment`,
}

packet roots {
    uint64 stringy @calculatedFrom(""1"") `two words`,
    u8x @calculatedFrom(""1"") `tab	here`,
    repeat o {
        charz {
            match metadata as charz {
                ""a\""b"" : u,
                [
                    10, 7, 1, 42, ""packet"",
                    ""// no comment""
                ] : lengthOf,
                ""abc"" : Packet,
                """ ++ [233]%N ++ runes_of_ascii "t" ++ [233]%N ++ runes_of_ascii """ : crc,
                1 : x,
                //	t
                [
                    1, 0123456789, """ ++ [28040; 24687]%N ++ runes_of_ascii """, ""// no comment"", ""\n"",
                    ""1"", """ ++ [233]%N ++ runes_of_ascii "t" ++ [233]%N ++ runes_of_ascii """
                ] : u,
            },
            repeat float32 As,// trailing space 
        },
    },
    //x
    repeat char[1] x_y_z `line1
    line2`,
}")).
Eval vm_compute in ("<<<M731>>>" ++ check (runes_of_ascii "options
    { _x =
    float32
    ;} packet Packet
{char[ 255
]	tag @lengthOf(
    a1)
    ,match Packet as lengthOf { [ ""x y"" ,	1
    ] :metadata,
[""x y""
,// @lengthOf(
0//x
]  : // `tick` ""quote"" 'q'
metadata  },@lengthOf(rootA
) Header matchKey
, @lengthOf(leftPad)  char[] A `" ++ [233]%N ++ runes_of_ascii "`
,
} packet Logon{zchar[1 ]// c
f32a `{ , }` , i64_ @calculatedFrom( """ ++ [28040; 24687]%N ++ runes_of_ascii """)
    , @calculatedFrom( """ ++ [128512]%N ++ runes_of_ascii """) @lengthOf( T ) uint16 T
    @calculatedFrom( ""CRC32""//
)
    // packet A { u8 x, }
    , @tag( 65535 )// trailing space 
@lengthOf( body ) i8 o @lengthOf(// packet A { u8 x, }
MetaDataX ) // `tick` ""quote"" 'q'
`it's` ,match
    int as falsey {  [ ""// no comment""	,
255
/// triple
//	t
] :
MetaDataX , }
    , }
root packet msg_type  {	@calculatedFrom(""packet"") MetaDataX f32a `" ++ [233]%N ++ runes_of_ascii "`
,@calculatedFrom( ""// no comment""
    ) //
repeat
asx u128
,match
msg_type as u8x
    { 255	: T , [ 7 ]
:metadata , } ,
@lengthOf( body ) leftPad @calculatedFrom( ""it's"")  ,@leftPad	()metadata msg_type  `crlf
line` , @tag(
255 )repeat
    char[ 00 ] rootA // @lengthOf(
, match // " ++ [27880; 37322]%N ++ runes_of_ascii "
f32a as charz{  ""a	b"" : Header } , @lengthOf( options1// `tick` ""quote"" 'q'
)char[]
repeatCount  `u8 x,` // @lengthOf(
,	@lengthOf( o
// " ++ [128512]%N ++ runes_of_ascii " emoji
// c
) float64 crc
// " ++ [128512]%N ++ runes_of_ascii " emoji
// packet A { u8 x, }
@lengthOf( falsey // `tick` ""quote"" 'q'
)
,
} packet	_x {	repeat i64_
    // c
    { repeat A{ x_y_z { char[ 1
// c
// @lengthOf(
]Logon
, } , /// triple
} , } , } //	t")).
Eval vm_compute in ("<<<M4133>>>" ++ check (runes_of_ascii "
root packet  roots {
    repeat

    rootA`{ , }`,

BodyLength  ,@lengthOf(
int 
)

u64  pack	`// not a comment`

    ,chars @lengthOf( crc
)  // packet A { u8 x, }
	  ,
// @lengthOf(
// `tick` ""quote"" 'q'

tag
`u8 x,` , match x_y_z as chars {	// " ++ [128512]%N ++ runes_of_ascii " emoji
  [
    65535,

    ""x y""// a // b
		,  10,
	4294967296
]
    : //x
  repeatCount 
,

    [
255

    ]  // @lengthOf(
  :
    i8i8
,
4294967296:	metadata , [10
    ,
""""
    ,

255,
0	,""abc""
    ,
	10 ] : 
rootA
// @lengthOf(
	  ,[""1"",

""1"" ]
:

    uint8x,	[

""""
    ,10
	// trailing space 
	]	:

options1 
, }	, } packet trueish  {  uint16
	i64_ , 
}	packet zchar
	{ Logon
    { 
      // " ++ [27880; 37322]%N ++ runes_of_ascii "
    	// @lengthOf(
  match

pack
	as asx {
[
    1

, 	 // `tick` ""quote"" 'q'
10
	]

:	Logon  ,

    [ 7 ]

: pack,
[	42,

""// no comment""
    ,
    7 
,
    00 , 
65535

    ] 
:x
    ,//
  ""1""
	:
uint8x	,  """"
	:
	A
	65535
:

    u8x} , 
}
,x
`u8 x,`	,
@tag( 65535
) string stringy`say ""hi""`
	,  repeat
	uint16 leftPad `
`

    ,	match options1
as	Foo
	{ 
""abc"" :  falsey
	,	3
:
	T

    ,

}

,

    zchar[

4294967296
] 
charz
	@lengthOf(As 
),i64
Packet
	, @lengthOf(  MetaDataX	)

@lengthOf(
	metadata)

@calculatedFrom(""" ++ [128512]%N ++ runes_of_ascii """
	)
	uint8 
T

@calculatedFrom(  """ ++ [128512]%N ++ runes_of_ascii """

)

    `" ++ [233]%N ++ runes_of_ascii "`

,
}	// `tick` ""quote"" 'q'
")).
Eval vm_compute in ("<<<M4552>>>" ++ check (runes_of_ascii "packet lengthOf {
    matchKey `doc`,
    i8i8 {
        match crc as zchar {
            [1, 0, 0123456789, 65535, ""abc""] : chars,
            ""\n"" : uint8x,
            ""a\""b"" : int,
            [
                4294967296, 4294967296, ""`tick`"", ""a	b"", ""a	b"",
                """", ""a\""b""
            ] : string_,
            0123456789 : A,
            ""packet"" : asx,
        },
        char[00] u8x `u8 x,`,
        u8x {
            uint32 float @calculatedFrom(""{,}""),
            //	t
            // " ++ [128512]%N ++ runes_of_ascii " emoji
            char[0] zchar,
        },
        falsey @calculatedFrom(""" ++ [128512]%N ++ runes_of_ascii """),
    },
    @calculatedFrom(""1"")
    zchar[255] metadata @lengthOf(packetx),
    Header @calculatedFrom(""CRC32""),
    // c
    // trailing space 
    float @lengthOf(crc) ``,
    @tag(42)
    @lengthOf(A)
    @lengthOf(u128)
    stringy `" ++ [233]%N ++ runes_of_ascii "`,
    @leftPad('0')
    char[4294967296] float,
    u `" ++ [233]%N ++ runes_of_ascii "`,
    @lengthOf(falsey)
    @lengthOf(lengthOf)
    repeat f32 matchKey `line1
        line2`,
}

options {
    lengthOf = string;
}

packet falsey {
    @tag(1)
    int16 repeatCount @lengthOf(charz) `a\`,
    repeat u64 MetaDataX `say ""hi""`,
}

options {
    x = ""abc""
}

MetaData BodyLength {
    zchar[4294967296] zchar,
}")).
Eval vm_compute in ("<<<M1024>>>" ++ check (runes_of_ascii "/// triple
packet string_{ repeat As
u128 ,
    @lengthOf( Header  ) i8i8@lengthOf(len )`" ++ [28040; 24687; 31867; 22411]%N ++ runes_of_ascii "` , uint8x { match i8i8
as// trailing space 
msg_type
{ 65535 :
    Foo	, [ ""abc"" ,	00 ,
    ""// no comment"" ,0 ,0123456789,
    ""// no comment"" ]
// `tick` ""quote"" 'q'
// " ++ [128512]%N ++ runes_of_ascii " emoji
:	int,
""" ++ [128512]%N ++ runes_of_ascii """ : u8x , ""x y"" :x_y_z , 7
    :
len , 42 : As // c
, } , } , @tag(
    4294967296
// packet A { u8 x, }
// packet A { u8 x, }
)zchar[
    255
] repeatCount , repeat int16 x ,u16 Foo `two words` ,repeat char[42 ] f32a ,string msg_type
    /// triple
    , @rightPad  (
    ' ' ) Z9_@calculatedFrom(//
""it's""	)  ,} packet stringy// packet A { u8 x, }
{
    // `tick` ""quote"" 'q'
    float32 metadata ,}
packet// @lengthOf(
body{match leftPad
as
falsey { """ ++ [233]%N ++ runes_of_ascii "t" ++ [233]%N ++ runes_of_ascii """ :	len  ,
} ,
    // trailing space 
    @calculatedFrom( ""CRC32""
    ) f32a { uint32 body @lengthOf(
    Z9_ ) /// triple
`line1
line2` ,
    // @lengthOf(
    f64 u `line1
line2`, trueish @lengthOf( rootA )
    ,char[ 255
    ]	u@calculatedFrom( ""a	b""
// `tick` ""quote"" 'q'
// @lengthOf(
) ,
} , @tag(  42 )
options1  a1
    //
    ,
    char[]	Z9_	@calculatedFrom( ""\n""// c
) , }
//
")).
Eval vm_compute in ("<<<M522>>>" ++ check (runes_of_ascii "root packet i64_
// " ++ [27880; 37322]%N ++ runes_of_ascii "
// a // b
{/// triple
lengthOf {// c
T	{/// triple
zchar tag ,match
//
// `tick` ""quote"" 'q'
body
    //	t
    as
    //x
    falsey{00 :
BodyLength
    , [ 10 , 0,""1""	, 0123456789 , ""a\\"" ,""`tick`"",
    """",
    4294967296 ]
    :
stringy // c
, // trailing space 
"""" : // " ++ [128512]%N ++ runes_of_ascii " emoji
trueish
, // packet A { u8 x, }
[""CRC32"" , 00 , 10
,
    1  ] :
int , } , i8 T ,
    // `tick` ""quote"" 'q'
    } /// triple
, msg_type{ int64 u ,
}
,match rootA//x
as i64_ {
    7
: uint8x ,} ,
} ,
repeat// `tick` ""quote"" 'q'
calculatedFrom //x
{
Pad T,
    repeatCount
    int , i16
    crc @calculatedFrom( ""packet""
) `` ,
    match
// `tick` ""quote"" 'q'
// packet A { u8 x, }
u128
as
As { """" : crc,
[ 65535 , 4294967296 , 007
    ,
""a	b""
, 10 // `tick` ""quote"" 'q'
]
    : rootA
, } , } ,
    zchar[4294967296 ]  u
,
repeat uint16
    string_ `a\`	, } root
packet A{	match Logon as asx { [	3 ,	""a	b""
] : MetaDataX ,
    0
: lengthOf ,""packet""
:
// packet A { u8 x, }
// " ++ [27880; 37322]%N ++ runes_of_ascii "
u8x,	255 : repeatCount , [00 ,""""  ] :
charz
,
["""" ]:msg_type, }  ,}
")).
Eval vm_compute in ("<<<M1240>>>" ++ check (runes_of_ascii "MetaData lengthOf	{i64 u128
    // trailing space 
    ,uint32// trailing space 
calculatedFrom
,
    char[ 00] string_ , }
root
    packet falsey{char[] // " ++ [128512]%N ++ runes_of_ascii " emoji
len `line1
line2` , @tag(255
)
uint8x @lengthOf(
falsey	)
,
    float32 // `tick` ""quote"" 'q'
len ,  repeat calculatedFrom i64_
`say ""hi""`
    ,
    // c
    @rightPad (
    // " ++ [27880; 37322]%N ++ runes_of_ascii "
    '0'	)
    char[ 10]
Logon , } packet rootA // c
{
// " ++ [128512]%N ++ runes_of_ascii " emoji
// a // b
x { falsey
    Logon
    ,
    trueish@calculatedFrom( ""`tick`"")
    `// not a comment`
, uint8x
    body ,
    } , @calculatedFrom( ""{,}""
)@calculatedFrom( ""a\\"" )match //x
f32a as i8i8 {// " ++ [27880; 37322]%N ++ runes_of_ascii "
10 :
matchKey , 1:	packetx , 0123456789 :
    Header
,
    ""it's"" :  i64_ , // packet A { u8 x, }
0 : pack ,} ,repeat
uint8x	x_y_z`" ++ [28040; 24687; 31867; 22411]%N ++ runes_of_ascii "`, repeat
char[
255 ] string_ ,
@lengthOf( int ) calculatedFrom , @tag( 4294967296
) u16 packetx @calculatedFrom(  """ ++ [28040; 24687]%N ++ runes_of_ascii """ ) ,	u128 body`doc` , }
    root packet	tag {
//x
// `tick` ""quote"" 'q'
i32 A
// @lengthOf(
// packet A { u8 x, }
, }
    options { }")).
Eval vm_compute in ("<<<M3630>>>" ++ check (runes_of_ascii "options {
    StringPrefixLenType = u64;
    ArrayPrefixLenType = u16;
    FixedStringPadChar = ' ';
}
packet Logon {
    i32 msgKind,
    repeat InOrderid65 {
        u8 pad0,
    },
    i8 tag7,
    @leftPad(' ') char[12] x,
}
packet Leg {
    char[] f1,
    repeat char[5] Px,
    InQty34 {
        repeat char[6] Qty,
        char[7] seqNo,
        string count,
    },
    Logon,
}
packet Party {
    @leftPad('0') char[10] OrderId,
    string Tail,
}
packet Fill {
    zchar[5] venue,
    zchar[3] clOrdID,
    InRef95 {
        InLastpx25 {
            u8 pad0,
        },
        float64 OrderId,
        i32 f1,
        float32 x,
        char[] seqNo,
    },
    repeat string seqNo,
}
root packet Heartbeat {
    repeat Leg,
    u32 seqNo,
    u16 tag7,
    u32 Flags @lengthOf(Body),
    match tag7 as Body {
        [195, 75] : Party,
        171 : Fill,
        78 : Logon,
        142 : Leg,
    },
    u32 Note @calculatedFrom(""CRC32""),
}
")).
Eval vm_compute in ("<<<M4594>>>" ++ check (runes_of_ascii "packet uint8x {
    zchar[007] Header @calculatedFrom(""a	b""),
}

packet i64_ {
    @lengthOf(crc)
    /// triple
    string metadata `
    `,// trailing space 
    uint8x {
        repeat u16 string_,
    },// `tick` ""quote"" 'q'
    packetx {
        zchar[0123456789] calculatedFrom @calculatedFrom(""" ++ [28040; 24687]%N ++ runes_of_ascii """) `crlf
        line`,
        tag {
            zchar[007] tag @calculatedFrom(""1""),
            string u,
            repeat A T,
            roots @lengthOf(Logon),
        },
        u8x ``,
        int64 metadata `tab	here`,
    },
}

packet rootA {
    @lengthOf(string_)
    Header A `doc`,
    match stringy as x {
        // c
        0123456789 : metadata,
        0 : rootA,
        42 : A,
        [00, ""abc""] : T,
        4294967296 : a1,
        // @lengthOf(
    },
    @rightPad('0')
    @tag(4294967296)
    @tag(00)
    char[] Foo @calculatedFrom(""1"") `crlf
    line`,
}")).
Eval vm_compute in ("<<<M1094>>>" ++ check (runes_of_ascii "root
packet leftPad {match As as
A {
00 :i8i8, ""x y"": Packet
""abc"" :falsey
// trailing space 
//x
,  } , float32 trueish,
@calculatedFrom( ""1"" ) u64  roots`line1
line2` // trailing space 
,
@tag( 42 //	t
) string
int
    @lengthOf(
    Header ) , @tag(
    1 ) @lengthOf( // c
float) rootA  Z9_,match msg_type as metadata {[ 7 ,	0123456789 ] /// triple
: uint8x	, [ 255 ]:int ,
    // @lengthOf(
    255
    // trailing space 
    :  lengthOf , ""a\\""  : u128, ""1"" : // packet A { u8 x, }
u128
    , }
,roots //	t
int `two words` ,repeat BodyLength asx
,lengthOf@lengthOf(packetx ) ,@lengthOf(
a1
) char[
    /// triple
    10
    ]
//	t
//
x, }
    options { f32a
= '0'
; chars
    =  ' ';Header= ' ' ; i8i8
    =zchar[ 007 ]
; leftPad =
' '
    ;
}packet falsey
    {	@lengthOf(
    u8x
)x@lengthOf(tag
)
    // @lengthOf(
    , }
")).
Eval vm_compute in ("<<<M77>>>" ++ check (runes_of_ascii "  options
{  T
= ' ' }
MetaData Pad
    //x
    {
string_ u128  , u64 // @lengthOf(
uint8x `two words` , int8 repeatCount
, }
    packet
len{
    Packet
    `
`
,@calculatedFrom( ""a\""b""
) zchar[
    42 ]
rootA ,
    @calculatedFrom(
""packet"" )
@calculatedFrom( ""\n"" ) Packet @calculatedFrom( ""\" ++ [233]%N ++ runes_of_ascii """  )
    `" ++ [28040; 24687; 31867; 22411]%N ++ runes_of_ascii "`, @leftPad
    (
    '\x00' )
@leftPad (	)
@rightPad (
)
repeat string_
    {match asx // c
as rootA {[
""`tick`"",65535	]:
falsey ,} , trueish
, char Z9_`// not a comment` ,
    Packet Logon `{ , }`, } ,@tag( 1 )
    match x as pack//	t
{
1 :stringy // `tick` ""quote"" 'q'
, [	42 ]:  x }  ,
repeat//x
i8 u8x , @calculatedFrom(""packet"") string_ // c
@lengthOf( rootA ),	falsey
@lengthOf( x )
,} options
{}
root packet u { @lengthOf(x_y_z )	u
    @calculatedFrom( """"
)
`two words`, }")).
Eval vm_compute in ("<<<M1305>>>" ++ check (runes_of_ascii "MetaData Packet{	x_y_z // " ++ [27880; 37322]%N ++ runes_of_ascii "
lengthOf`tab	here` ,
rootA  u128 `" ++ [28040; 24687; 31867; 22411]%N ++ runes_of_ascii "`, char[ 10 ]	u8x `say ""hi""`, zchar[ 7 ]	i64_ , } packet charz{ @tag( 0 ) match
    // `tick` ""quote"" 'q'
    float as // " ++ [128512]%N ++ runes_of_ascii " emoji
T{//	t
""packet"" : i8i8, ""CRC32"" : string_ 65535:
pack	, // @lengthOf(
} , i32
    matchKey @calculatedFrom( ""a\""b"") // `tick` ""quote"" 'q'
, @tag(
65535)repeat int {
match// `tick` ""quote"" 'q'
u8x as zchar{ ""\" ++ [233]%N ++ runes_of_ascii """ :BodyLength} , }, uint16 roots
    , @rightPad	(
' ' )int8 i64_ @calculatedFrom( ""it's"" ) , @tag( 255 )
repeat rootA {repeat string
Z9_
, lengthOf roots `" ++ [233]%N ++ runes_of_ascii "`,zchar @calculatedFrom(""x y""  )	`{ , }`
    , } ,
    @tag(
0 ) calculatedFrom
Logon , } packet leftPad { uint64 A
, match  pack as	u
    { ""`tick`"" :
f32a""1"" :	i8i8  ""\" ++ [233]%N ++ runes_of_ascii """: A ,} , }")).
Eval vm_compute in ("<<<M3629>>>" ++ check (runes_of_ascii "
options
{LittleEndian

=	false	;StringPrefixLenType  =  u8;

ArrayPrefixLenType =
u8
	;FixedStringPadFromLeft	=true 
;
    FixedStringPadChar =
' ';
    }
    packet Trade{

zchar[
2 
] Side2, i8	seqNo ,
}packet
    Party{

    uint32 price

    ,  }packet

Ack 
{
@rightPad
	( '\x00')	char[ 6]
x  ,repeat char[ 4
]Flags 
, zchar[

9 ]
f1 , } packet
	Cancel

{Ack , } packet Heartbeat	{

    string

Px , string  Acct,
	f64
Side2 
,
	InQty24	{

    i16

    seqNo ,
repeat	i32

    Flags
	,}	,
}
root
packet Logon { Trade

    ,  i64 
venue 
,
u32
    x 
,

    u8

    seqNo	, 
match	seqNo
as

Body
{
[
1	,

    164
	] : 
Ack

,
	31
: Cancel ,
23	:

    Heartbeat ,	64 :	Party

,}
,}

")).
Eval vm_compute in ("<<<M4008>>>" ++ check (runes_of_ascii "MetaData body {
    u16 roots `say ""hi""`,
    char[65535] o,
    uint32 Z9_,
    char trueish `crlf
        line`,
}

packet crc {
    u128,
    repeat char[] trueish,
    string asx @lengthOf(zchar) `crlf
        line`,
    int {
        int u,
    },
    @tag(10)
    // @lengthOf(
    zchar[65535] zchar @calculatedFrom(""" ++ [28040; 24687]%N ++ runes_of_ascii """) `a\`,
    @rightPad('\x00')
    string crc @lengthOf(o),
    match rootA as len {
        [10, 3, ""\n"", """ ++ [233]%N ++ runes_of_ascii "t" ++ [233]%N ++ runes_of_ascii """, ""packet""] : leftPad,
        65535 : pack,
    },
    zchar[65535] asx `u8 x,`,
    i16 roots `u8 x,`,
    @leftPad()
    f64 Packet,
}

packet tag {
    @rightPad('0')
    repeat char[00] crc,
}

packet stringy {
    char[] roots `" ++ [233]%N ++ runes_of_ascii "`,
}")).
Eval vm_compute in ("<<<M150>>>" ++ check (runes_of_ascii "packet
    Header	{	repeat string
    Header
,
repeat options1  ,	zchar[
    //	t
    00 ] matchKey ,} options
// @lengthOf(
// `tick` ""quote"" 'q'
{charz= ""\n"" ; // a // b
BodyLength = ""x y"" u8x
    = ""x y""
    u // `tick` ""quote"" 'q'
= 255 }
MetaData u8x{
// a // b
// c
Z9_
i8i8 , float32  stringy , float msg_type // `tick` ""quote"" 'q'
`doc`
    ,
calculatedFrom T , Foo T `a\` , }	root
    packet
    roots
    {	@tag( 00
) /// triple
match// `tick` ""quote"" 'q'
len
    as roots {
    // @lengthOf(
    [ 4294967296 ]
    : tag ""// no comment"" :float ,"""" : uint8x ,
// " ++ [27880; 37322]%N ++ runes_of_ascii "
// trailing space 
007
    // " ++ [27880; 37322]%N ++ runes_of_ascii "
    :
    options1 , } , }")).
Eval vm_compute in ("<<<M4456>>>" ++ check (runes_of_ascii "

  packet
	f32a 
{
roots  {

chars	calculatedFrom 
,  u16

Header  `" ++ [233]%N ++ runes_of_ascii "` 
    /// triple
// packet A { u8 x, }
    , char[] repeatCount , 	 //	t
	  } , @calculatedFrom(	""x y"")  i32
    crc @calculatedFrom( ""x y""  ) , repeat	uint64 lengthOf,repeat char[  65535
]

    u
    ,
	@lengthOf( tag

    ) 
    // trailing space 
	//
      @lengthOf( pack)	@calculatedFrom(  ""packet""
	)// packet A { u8 x, }
match 
A
as
f32a { 

// trailing space 

  // c

""`tick`""	:
    i8i8

, }
, @tag(

0123456789
    ) repeat
repeatCount
crc
	,
repeat

u32
options1

    `a\` , }  options	{	matchKey
	=
'0'

;	}")).
Eval vm_compute in ("<<<M877>>>" ++ check (runes_of_ascii "root packet A { @tag( 42	)
    match // @lengthOf(
Logon as rootA { 0123456789
: int } ,
repeat char[]
uint8x `crlf
line`, int {
// `tick` ""quote"" 'q'
//
repeat
f64 Packet , uint8x  @calculatedFrom(
    ""1"" ) , string  x `it's` , }	, @lengthOf( Foo )
@calculatedFrom(""a	b""
) @lengthOf( body)
metadata {match	pack as matchKey { ""x y"" : falsey , ""it's"" //
: Header}	, body {
char[] len  , /// triple
} , }
, char[
    // a // b
    0123456789
    ]	T
    // " ++ [128512]%N ++ runes_of_ascii " emoji
    @calculatedFrom(
    ""`tick`"" )
    , }options{ len =' '	} MetaData
As {
    f64 As , char[ 0123456789 ] x
,}
")).
Eval vm_compute in ("<<<M4257>>>" ++ check (runes_of_ascii "root  packet Pad {@tag(
    65535

)	@lengthOf( matchKey
	) //
  	int32
pack

    , 	 // `tick` ""quote"" 'q'
zchar[65535 ] charz @calculatedFrom( """"
	)

    `crlf
line`  ,

}
MetaData

options1
{
    charz

crc 
	//
    // " ++ [27880; 37322]%N ++ runes_of_ascii "
  ,body
    packetx
	`// not a comment`

    ,	} packet	string_	{ char[
7 	 // @lengthOf(
  ] T

    @calculatedFrom(
	""\" ++ [233]%N ++ runes_of_ascii """

    )  // c
    	,
@leftPad(
    '\x00'
) @calculatedFrom(""packet""

    )

    @tag(
42
// " ++ [128512]%N ++ runes_of_ascii " emoji

  // " ++ [128512]%N ++ runes_of_ascii " emoji
    )
	string
	string_
    @calculatedFrom(""" ++ [28040; 24687]%N ++ runes_of_ascii """
)

    `a\`

,
}
")).
Eval vm_compute in ("<<<M84>>>" ++ check (runes_of_ascii "MetaData rootA
    {}
options{ rootA= '\x00' zchar
    ='0' rootA= float64 ;  trueish	= 3 i64_
= float64 ; } options{
    body
= '0'
    ;T= ""CRC32"";matchKey = char[] ; }	packet
rootA {
    // " ++ [128512]%N ++ runes_of_ascii " emoji
    @lengthOf( //
Z9_)
    @rightPad('0' ) Packet calculatedFrom , }packet
body
    { match metadata
as asx {
    3 : Header 3: packetx	, [  10]
:	Packet, """"
// " ++ [27880; 37322]%N ++ runes_of_ascii "
// @lengthOf(
: pack
,
10  :
    // packet A { u8 x, }
    pack [  255 // `tick` ""quote"" 'q'
, // `tick` ""quote"" 'q'
""""
    , 00 // a // b
,""it's""] :
x } ,
}

")).
Eval vm_compute in ("<<<M3965>>>" ++ check (runes_of_ascii "
root packet 
        //	t
    // c
  charz
{f32
	stringy  // @lengthOf(
  	,	@rightPad 
( '\x00' )metadata
{ 
MetaDataX
A 
    // `tick` ""quote"" 'q'
	  ,}	, repeat

zchar[

0  /// triple
      ] u8x,@calculatedFrom( // @lengthOf(
	""it's""
)  match  trueish

as
	u128 {
""{,}"":  stringy	} ,

    }packet
	Packet{ 
char[
3
    ]
	int @calculatedFrom(

""x y"" )
,}
MetaData Packet	{ u128
trueish
	`" ++ [28040; 24687; 31867; 22411]%N ++ runes_of_ascii "`

, int8
pack 
,
    // packet A { u8 x, }
	zchar[00	//x

	]	repeatCount`a\` ,  
      // c
		}

")).
Eval vm_compute in ("<<<M706>>>" ++ check (runes_of_ascii "packet  o
    { chars  {
// `tick` ""quote"" 'q'
//
repeat  options1 {repeat lengthOf packetx , }
, repeat
a1	,	} , repeat leftPad , } // packet A { u8 x, }
packet
float{ f64	string_ @lengthOf( float
) , repeat
f64
uint8x , @tag(1 )
    packetx{ i32 asx,}
// `tick` ""quote"" 'q'
// a // b
, i64_ @lengthOf(
    u128
) `u8 x,` ,
    asx // trailing space 
{ string calculatedFrom	`u8 x,`
, uint8 falsey @calculatedFrom( ""x y""
),
} , int32 Header
, }
//
/// triple
MetaData u8x { }
")).
Eval vm_compute in ("<<<M4014>>>" ++ check (runes_of_ascii "options {
    As = u16
    body = char[]
}

MetaData options1 {
    zchar[1] T `{ , }`,
    stringy BodyLength,
    uint16 matchKey,
    char[255] _x,
    o o `a\`,
}

packet chars {
    f32a {
        repeat a1,
        repeat charz x_y_z,
        asx,
        rootA len `crlf
        line`,
    },// " ++ [27880; 37322]%N ++ runes_of_ascii "
}

root packet Header {
    string float `
    `,//	t
}

options {
    T = false
    options1 = ""packet""
    matchKey = zchar[00];
    string_ = false;
}")).
Eval vm_compute in ("<<<M946>>>" ++ check (runes_of_ascii "MetaData	asx { u32
asx
    ,
//
// a // b
roots Packet
    // " ++ [128512]%N ++ runes_of_ascii " emoji
    , }
root packet
pack{ // @lengthOf(
len @calculatedFrom(""// no comment"" )
    , match pack as leftPad { [007] // `tick` ""quote"" 'q'
:	crc
    //	t
    ,10 :
    tag
    ,7 : packetx
    ,
""" ++ [28040; 24687]%N ++ runes_of_ascii """ : stringy ,
65535
:
    i64_ ,1
: MetaDataX ,
}	, zchar[
    /// triple
    4294967296 ] chars @calculatedFrom(
    //	t
    ""\n""
// `tick` ""quote"" 'q'
// " ++ [27880; 37322]%N ++ runes_of_ascii "
) ,
    }
")).
Eval vm_compute in ("<<<M173>>>" ++ check (runes_of_ascii "MetaData T  {
char[] metadata ,
    // `tick` ""quote"" 'q'
    i8
Header
    //	t
    ,
u128 chars `a\` , char[
    42
] calculatedFrom
, } // packet A { u8 x, }
packet stringy {
    @rightPad( // c
)
    //	t
    string trueish
`two words`, } MetaData metadata{ zchar[//
007]x_y_z
, zchar[ 10 ] u	`// not a comment`
    , string u8x, char[]repeatCount// " ++ [128512]%N ++ runes_of_ascii " emoji
, zchar Pad ,u32 f32a
    `doc`
, } // `tick` ""quote"" 'q'")).
Eval vm_compute in ("<<<M4425>>>" ++ check (runes_of_ascii "MetaData Header {
    int64 zchar `u8 x,`,
    Header u8x,
    zchar[65535] u,
    A options1 `it's`,
    zchar[007] MetaDataX,
    zchar[0] As,
}

MetaData Logon {
    char[] rootA,
}

packet int {
    f32 falsey,
}

MetaData float {
    len leftPad,
    A Foo `tab	here`,
    char[65535] T `line1
        line2`,
}

options {
    // " ++ [128512]%N ++ runes_of_ascii " emoji
    // " ++ [27880; 37322]%N ++ runes_of_ascii "
    float = '0';
    float = true;
    Foo = ""\n""
}")).
Eval vm_compute in ("<<<M701>>>" ++ check (runes_of_ascii "// a // b
root	packet
//x
// `tick` ""quote"" 'q'
f32a { } root packet  packetx { match x_y_z as	Logon{ // `tick` ""quote"" 'q'
""" ++ [28040; 24687]%N ++ runes_of_ascii """
    : Packet
[ 7
] // @lengthOf(
:falsey
,	""`tick`""
: roots
    ,	""packet"" : u128 , } ,match falsey as metadata
{65535 :As
,  ""a\""b""
: crc,
""\" ++ [233]%N ++ runes_of_ascii """
: Logon
    , } , u8x `two words` , @tag( 0 )Z9_,}
// " ++ [128512]%N ++ runes_of_ascii " emoji
// " ++ [128512]%N ++ runes_of_ascii " emoji
options	{	options1 = false }")).
Eval vm_compute in ("<<<M3782>>>" ++ check (runes_of_ascii "root packet As {
    u {
        tag a1,
        repeat charz `a\`,
    },
    match float as u128 {
        ""a\\"" : msg_type,
        ""`tick`"" : packetx,
    },
    repeat char[255] falsey `two words`,
    f32 packetx,
    zchar[0] options1 `{ , }`,
    repeat rootA `
        `,
}

MetaData Header {
    u32 Header ``,
}

MetaData matchKey {
    msg_type Z9_,
}")).
Eval vm_compute in ("<<<M873>>>" ++ check (runes_of_ascii "root packet BodyLength { uint16
As `crlf
line`
//	t
// " ++ [128512]%N ++ runes_of_ascii " emoji
,}packet A {
@calculatedFrom(""{,}""/// triple
)
    f32 trueish`// not a comment` , // `tick` ""quote"" 'q'
}
packet i8i8 {zchar[ 007 ]leftPad,@tag(
    10
)  tag  @lengthOf( o )
, float64
    T
, @calculatedFrom( // " ++ [27880; 37322]%N ++ runes_of_ascii "
""a\""b"" )
string uint8x@calculatedFrom( ""abc"")`two words` ,
}
")).
Eval vm_compute in ("<<<M771>>>" ++ check (runes_of_ascii "MetaData
chars{ zchar[// " ++ [27880; 37322]%N ++ runes_of_ascii "
3] As `say ""hi""` , }root packet lengthOf
{
//
/// triple
@rightPad( ' '
// " ++ [27880; 37322]%N ++ runes_of_ascii "
// @lengthOf(
) f32 MetaDataX  @calculatedFrom( """"
    )`{ , }` , match string_
as // trailing space 
x_y_z { 42
: lengthOf,00  :chars ""// no comment"" : BodyLength , ""// no comment"":	tag ,255 : a1 ,
""""	:
stringy
,
    },
    }
")).
Eval vm_compute in ("<<<M1221>>>" ++ check (runes_of_ascii "// trailing space 
packet // " ++ [27880; 37322]%N ++ runes_of_ascii "
pack {
    @lengthOf( Pad )	char[]msg_type,
}	options
    {
// " ++ [128512]%N ++ runes_of_ascii " emoji
// " ++ [128512]%N ++ runes_of_ascii " emoji
chars =int32 ;//
chars
    =	""CRC32"" }packet f32a
{
    @calculatedFrom( ""a\""b""
    ) zchar
    @lengthOf( o ) ,int32	o
    , repeat
int64 // packet A { u8 x, }
zchar
    // " ++ [128512]%N ++ runes_of_ascii " emoji
    `" ++ [28040; 24687; 31867; 22411]%N ++ runes_of_ascii "`,} /// triple")).
Eval vm_compute in ("<<<M2011>>>" ++ check (runes_of_ascii "MetaData
    u { }  options {
// c
// @lengthOf(
float = int8 ;rootA =false ; As =	int16 // `tick` ""quote"" 'q'
repeatCount
    // trailing space 
    =
    int16
; u8x =
    //	t
    '\x00' ; } options	{
    repeatCount
= 0
u128 u128
    //
    = false ; i64_
// trailing space 
// `tick` ""quote"" 'q'
= '0' ; //	t
}
")).
Eval vm_compute in ("<<<M1948>>>" ++ check (runes_of_ascii "MetaData
    u { }  options {
// c
// @lengthOf(
float = int8 ;rootA =false ; As =	int16 // `tick` ""quote"" 'q'
repeatCount
    // trailing space 
    007
    int16
; u8x =
    //	t
    '\x00' ; } options	{
    repeatCount
= 0
u128
    //
    = false ; i64_
// trailing space 
// `tick` ""quote"" 'q'
= '0' ; //	t
}
")).
Eval vm_compute in ("<<<M2066>>>" ++ check (runes_of_ascii "MetaData
    u { }  options {
// c
// @lengthOf(
float = int8 ;rootA =false ; As =	int16 // `tick` ""quote"" 'q'
repeatCount
    // trailing space 
    =
    int16
; u8x =
    //	t
    '\x00' ; } options	{
    repeatCount
= 0
u128
    //
 '   = false ; i64_
// trailing space 
// `tick` ""quote"" 'q'
= '0' ; //	t
}
")).
Eval vm_compute in ("<<<M1973>>>" ++ check (runes_of_ascii "MetaData
    u { }  options {
// c
// @lengthOf(
float = int8 ;rootA =false ; As =	int16 // `tick` ""quote"" 'q'
repeatCount
    // trailing space 
    =
    int16
; u8x =
    //	t
    string ; } options	{
    repeatCount
= 0
u128
    //
    = false ; i64_
// trailing space 
// `tick` ""quote"" 'q'
= '0' ; //	t
}
")).
Eval vm_compute in ("<<<M1965>>>" ++ check (runes_of_ascii "MetaData
    u { }  options {
// c
// @lengthOf(
float = int8 ;rootA =false ; As =	int16 // `tick` ""quote"" 'q'
repeatCount
    // trailing space 
    =
    int16
; u8x 
    //	t
    '\x00' ; } options	{
    repeatCount
= 0
u128
    //
    = false ; i64_
// trailing space 
// `tick` ""quote"" 'q'
= '0' ; //	t
}
")).
Eval vm_compute in ("<<<M1935>>>" ++ check (runes_of_ascii "MetaData
    u { }  options {
// c
// @lengthOf(
float = int8 ;rootA =false ; As =	 // `tick` ""quote"" 'q'
repeatCount
    // trailing space 
    =
    int16
; u8x =
    //	t
    '\x00' ; } options	{
    repeatCount
= 0
u128
    //
    = false ; i64_
// trailing space 
// `tick` ""quote"" 'q'
= '0' ; //	t
}
")).
Eval vm_compute in ("<<<M197>>>" ++ check (runes_of_ascii "packet	zchar { char[]  i64_,
    // " ++ [128512]%N ++ runes_of_ascii " emoji
    @calculatedFrom(	""// no comment"" ) match charz
    as tag
{ [""it's""
, 4294967296
    ,/// triple
""a	b""
    , """ ++ [28040; 24687]%N ++ runes_of_ascii """
,""" ++ [128512]%N ++ runes_of_ascii """
    ,  255 ,007 ] // packet A { u8 x, }
: i64_
, [	0123456789 ,3
, 00 ]: // `tick` ""quote"" 'q'
Packet , [ """ ++ [233]%N ++ runes_of_ascii "t" ++ [233]%N ++ runes_of_ascii """ ]
:a1 ,	}
,
    }
")).
Eval vm_compute in ("<<<M3999>>>" ++ check (runes_of_ascii "
packet
trueish
{body
	Logon , }

    packet
	len{

    @leftPad ( '0'	// packet A { u8 x, }
    ) 
@rightPad

(

    )

repeat	calculatedFrom `u8 x,`
,
	repeatCount {  repeat
    Logon
	tag `u8 x,`, } // " ++ [128512]%N ++ runes_of_ascii " emoji
  , repeat  char[
65535]
    Header
`two words` ,
float32

Pad, }

")).
Eval vm_compute in ("<<<M4055>>>" ++ check (runes_of_ascii "  options { trueish	=
    f32; i8i8
	= false
BodyLength
	= 
  // " ++ [27880; 37322]%N ++ runes_of_ascii "

//	t
float64	stringy  = string ;
    Z9_
=

'\x00'

}

    MetaData falsey

{  pack

rootA ,char[7 ]
x_y_z
`" ++ [233]%N ++ runes_of_ascii "`	,
    uint32
	string_,

    float64//	t

  lengthOf 	 // trailing space 
,
	int32 
u ,

}
")).
Eval vm_compute in ("<<<M491>>>" ++ check (runes_of_ascii "root packet
    options1 {
    // a // b
    zchar[
    // `tick` ""quote"" 'q'
    1 ] a1 `u8 x,` ,
    }MetaData calculatedFrom {}
    root  packet i64_	{@tag( 10 ) @leftPad	( // c
' '
// a // b
// a // b
) int32 Packet@calculatedFrom( // packet A { u8 x, }
""1"")
,}
")).
Eval vm_compute in ("<<<M3604>>>" ++ check (runes_of_ascii "packet P1 {
    u8 a,
}
packet P2 {
    P1,
}
packet P3 {
    P2,
    P1,
}
packet P4 {
    repeat P3,
    P2,
}
root packet P5 {
    P4,
    P3,
    P1,
    u8 K,
    match K as Body {
        4 : P4,
        3 : P3,
        2 : P2,
        1 : P1,
    },
}
")).
Eval vm_compute in ("<<<M1600>>>" ++ check (runes_of_ascii "packet
//	t
// trailing space 
_x {
// packet A { u8 x, }
// c
char[
3
    ] u8x @lengthOf(
u8x ) , @calculatedFrom(""" ++ [128512]%N ++ runes_of_ascii """ // @lengthOf(
)
i16	Foo
@lengthOf(	string_
    )`doc`	, repeat	repeat metadata , @lengthOf( string_
) i8 // c
u  `line1
line2`	,
}
")).
Eval vm_compute in ("<<<M1659>>>" ++ check (runes_of_ascii "packet
//	t
// trailing space 
_x {
// packet A { u8 x, }
// c
char[
3
    ] u8x @lengthOf(
u8x ) , @calculatedFrom(""" ++ [128512]%N ++ runes_of_ascii """ // @lengthOf(
)
i16	Foo
@lengthOf(	string_
    )`doc`	%, repeat	i64 metadata , @lengthOf( string_
) i8 // c
u  `line1
line2`	,
}
")).
Eval vm_compute in ("<<<M1579>>>" ++ check (runes_of_ascii "packet
//	t
// trailing space 
_x {
// packet A { u8 x, }
// c
char[
3
    ] u8x @lengthOf(
u8x ) , @calculatedFrom(""" ++ [128512]%N ++ runes_of_ascii """ // @lengthOf(
)
i16	Foo
@lengthOf(	string_
    `doc`)	, repeat	i64 metadata , @lengthOf( string_
) i8 // c
u  `line1
line2`	,
}
")).
Eval vm_compute in ("<<<M1622>>>" ++ check (runes_of_ascii "packet
//	t
// trailing space 
_x {
// packet A { u8 x, }
// c
char[
3
    ] u8x @lengthOf(
u8x ) , @calculatedFrom(""" ++ [128512]%N ++ runes_of_ascii """ // @lengthOf(
)
i16	Foo
@lengthOf(	string_
    )`doc`	, repeat	i64 metadata , @lengthOf( string_
 i8 // c
u  `line1
line2`	,
}
")).
Eval vm_compute in ("<<<M4570>>>" ++ check (runes_of_ascii "options {
}

MetaData Foo {
    char[0] Logon `u8 x,`,
    zchar[255] calculatedFrom `
    `,
    zchar[00] o `u8 x,`,
    char[255] Header `a\`,
    Pad Pad,
}

packet i8i8 {
    u32 float,// @lengthOf(
    As @calculatedFrom(""// no comment""),
}")).
Eval vm_compute in ("<<<M4206>>>" ++ check (runes_of_ascii "  packet
	i64_
	{ @tag(	// a // b
  0123456789)	x_y_z
@calculatedFrom(

    ""it's"" )
, 
@rightPad( ' ')

    @tag(	007)leftPad 
{  zchar[

00

    ]
Pad  , }
,

    int32
	_x
	@lengthOf( BodyLength 
      /// triple

//

  )

,}
")).
Eval vm_compute in ("<<<M4240>>>" ++ check (runes_of_ascii "packet f32a {
}

MetaData x {
    BodyLength zchar,
}

packet metadata {
    @tag(7)
    @lengthOf(uint8x)
    body {
        u8 Z9_ @calculatedFrom(""it's"") `u8 x,`,
    },
    float32 falsey @lengthOf(u) `line1
        line2`,
}")).
Eval vm_compute in ("<<<M4176>>>" ++ check (runes_of_ascii "// top
packet float {
    // c2
    repeat i8i8 MetaDataX `it's`,// c7
    rootA,// c9
    repeat int8 int,// c13
    match repeatCount as x_y_z {
        // c18
        ""{,}"" : Logon,
        // c22
    },// c24
}// c25")).
Eval vm_compute in ("<<<M95>>>" ++ check (runes_of_ascii "packet len {
@tag( 255  ) repeat // packet A { u8 x, }
zchar[ 007] roots
, leftPad { //	t
f32 calculatedFrom , f32
    lengthOf , u32 calculatedFrom , } ,
x//	t
x
    ,} MetaData u128 {
A i8i8 `two words` ,}
")).
Eval vm_compute in ("<<<M952>>>" ++ check (runes_of_ascii "
packet roots{pack, @calculatedFrom( ""it's""
)
    MetaDataX @lengthOf( u
) , @lengthOf(//x
falsey  ) metadata _x	`doc` , } options{ BodyLength =	""" ++ [28040; 24687]%N ++ runes_of_ascii """; Packet = 0123456789 ; T=
    ' ' ; T = 4294967296
;
    }
")).
Eval vm_compute in ("<<<M1774>>>" ++ check (runes_of_ascii "options { trueish = ""`tick`"" ; string_= """ ++ [233]%N ++ runes_of_ascii "t" ++ [233]%N ++ runes_of_ascii """
    // c
    } root
    packet body { stringy @calculatedFrom(
""a	b"" ) `line1
line2` , i16
packet Logon {
    @leftPad(
    ' ' ) //	t
u16 string_ `u8 x,` ,
}
")).
Eval vm_compute in ("<<<M1679>>>" ++ check (runes_of_ascii "options u trueish = ""`tick`"" ; string_= """ ++ [233]%N ++ runes_of_ascii "t" ++ [233]%N ++ runes_of_ascii """
    // c
    } root
    packet body { stringy @calculatedFrom(
""a	b"" ) `line1
line2` , }
packet Logon {
    @leftPad(
    ' ' ) //	t
u16 string_ `u8 x,` ,
}
")).
Eval vm_compute in ("<<<M1814>>>" ++ check (runes_of_ascii "options { trueish = ""`tick`"" ; string_= """ ++ [233]%N ++ runes_of_ascii "t" ++ [233]%N ++ runes_of_ascii """
    // c
    } root
    packet body { stringy @calculatedFrom(
""a	b"" ) `line1
line2` , }
packet Logon {
    @leftPad(
    ' ' ) //	t
i64 string_ `u8 x,` ,
}
")).
Eval vm_compute in ("<<<M1834>>>" ++ check (runes_of_ascii "options { trueish = ""`tick`"" ; string_= """ ++ [233]%N ++ runes_of_ascii "t" ++ [233]%N ++ runes_of_ascii """
    // c
    } root
    packet body { stringy @calculatedFrom(
""a	b"" ) `line1
line2` , }
packet Logon {
    @leftPad(
    ' ' ) //	t
u16 string_ `u8 x,` ,")).
Eval vm_compute in ("<<<M1701>>>" ++ check (runes_of_ascii "options { trueish = ""`tick`"" ; = """ ++ [233]%N ++ runes_of_ascii "t" ++ [233]%N ++ runes_of_ascii """
    // c
    } root
    packet body { stringy @calculatedFrom(
""a	b"" ) `line1
line2` , }
packet Logon {
    @leftPad(
    ' ' ) //	t
u16 string_ `u8 x,` ,
}
")).
Eval vm_compute in ("<<<M879>>>" ++ check (runes_of_ascii "options	{ Foo =1	i64_ =char[]
    /// triple
    ; string_//
=
uint16 ;  chars = char[] ;//	t
}root
packet msg_type{ body, @calculatedFrom(// " ++ [27880; 37322]%N ++ runes_of_ascii "
""packet"" ) repeat zchar[ 4294967296 ]	u128
,
}")).
Eval vm_compute in ("<<<M1111>>>" ++ check (runes_of_ascii "packet
Pad { @leftPad
() @lengthOf(float
) @calculatedFrom( ""// no comment"" )
    repeat calculatedFrom{ uint16
i64_ @lengthOf( msg_type ) , BodyLength	trueish,_x Logon ,
} ,
} //	t")).
Eval vm_compute in ("<<<M671>>>" ++ check (runes_of_ascii "
options {
f32a= i32
}options// trailing space 
{
    //x
    roots
=
    """" float ='0' ;int =
true x_y_z=' ' ;MetaDataX=// " ++ [128512]%N ++ runes_of_ascii " emoji
false
// packet A { u8 x, }
// " ++ [128512]%N ++ runes_of_ascii " emoji
;}
")).
Eval vm_compute in ("<<<M3945>>>" ++ check (runes_of_ascii "

  packet A	{ match
    k
as 
n {  [""a""

    ,

    ""bb""
    ,""c c""
,

    ""d""
,

    ""e"",

""f""
	,
""g"",

    ""h""  ,

    ""i"", ""j""
]
:B 2 : 
C
    } , 
}

")).
Eval vm_compute in ("<<<M1581>>>" ++ check (runes_of_ascii "packet
//	t
// trailing space 
_x {
// packet A { u8 x, }
// c
char[
3
    ] u8x @lengthOf(
u8x ) , @calculatedFrom(""" ++ [128512]%N ++ runes_of_ascii """ // @lengthOf(
)
i16	Foo
@lengthOf(	string_")).
Eval vm_compute in ("<<<M2077>>>" ++ check (runes_of_ascii "options options{
_x
= true
} options
{ o	= /// triple
false
    ; chars
= ""\n"" } root packet	Pad
/// triple
// packet A { u8 x, }
{	chars
    // a // b
    ,}")).
Eval vm_compute in ("<<<M2095>>>" ++ check (runes_of_ascii "options{
_x
= true true
} options
{ o	= /// triple
false
    ; chars
= ""\n"" } root packet	Pad
/// triple
// packet A { u8 x, }
{	chars
    // a // b
    ,}")).
Eval vm_compute in ("<<<M2412>>>" ++ check (runes_of_ascii "// c
packet x { { @lengthOf( metadata ) repeat lengthOf
,a1{
trueish	,// c
repeat//	t
MetaDataX , } , zchar[
    42	] rootA // `tick` ""quote"" 'q'
,
    }
")).
Eval vm_compute in ("<<<M2197>>>" ++ check (runes_of_ascii "options{
_x
= true
} options
{ o	= /// triple
false
    ; chars
= ""\n"" } root packet	Pad
/// triple
// packet A { u8 x, }
{	chars
    // a // b
    ," ++ [233]%N ++ runes_of_ascii " }")).
Eval vm_compute in ("<<<M2193>>>" ++ check (runes_of_ascii "options{
_x
= true
} options
{ o	= /// triple
false
    ; chars
" ++ [127]%N ++ runes_of_ascii "= ""\n"" } root packet	Pad
/// triple
// packet A { u8 x, }
{	chars
    // a // b
    ,}")).
Eval vm_compute in ("<<<M2132>>>" ++ check (runes_of_ascii "options{
_x
= true
} options
{ o	= /// triple
false
    ] chars
= ""\n"" } root packet	Pad
/// triple
// packet A { u8 x, }
{	chars
    // a // b
    ,}")).
Eval vm_compute in ("<<<M2184>>>" ++ check (runes_of_ascii "options{
_x
= true
} options
{ o	= /// triple
false
    ; chars
= ""\n"" } root packet	Pad
/// triple
// packet A { u8 x, }
{	chars
    // a // b
    ,")).
Eval vm_compute in ("<<<M2177>>>" ++ check (runes_of_ascii "options{
_x
= true
} options
{ o	= /// triple
false
    ; chars
= ""\n"" } root packet	Pad
/// triple
// packet A { u8 x, }
{	=
    // a // b
    ,}")).
Eval vm_compute in ("<<<M130>>>" ++ check (runes_of_ascii "  packet x_y_z	{ @tag( // c
00
//x
// packet A { u8 x, }
)
@tag(// " ++ [27880; 37322]%N ++ runes_of_ascii "
7 ) @leftPad ( ) int16 _x @lengthOf( u ) `it's` // `tick` ""quote"" 'q'
, }
")).
Eval vm_compute in ("<<<M1320>>>" ++ check (runes_of_ascii "options { } root
    packet Packet { Packet
i8i8
// `tick` ""quote"" 'q'
/// triple
`
`,}
    options { asx  ='\x00'; //
} MetaData Packet
{ }
")).
Eval vm_compute in ("<<<M104>>>" ++ check (runes_of_ascii "/// triple
options  { Header = 65535
    ; calculatedFrom =
""x y"" trueish = true i8i8 = false metadata // trailing space 
=	""" ++ [28040; 24687]%N ++ runes_of_ascii """ ;
}
")).
Eval vm_compute in ("<<<M2183>>>" ++ check (runes_of_ascii "options{
_x
= true
} options
{ o	= /// triple
false
    ; chars
= ""\n"" } root packet	Pad
/// triple
// packet A { u8 x, }
{	chars")).
Eval vm_compute in ("<<<M4295>>>" ++ check (runes_of_ascii "packet A {
    u16 len @lengthOf(body) `a
        b`,
    u32 crc @calculatedFrom(""CRC32"") `a
        b`,
    string body,
}")).
Eval vm_compute in ("<<<M3715>>>" ++ check (runes_of_ascii "options {
}

options {
    pack = false;
    Z9_ = false;
}

packet Pad {
}

packet u8x {
    repeat matchKey packetx,
}//x")).
Eval vm_compute in ("<<<M3317>>>" ++ check (runes_of_ascii "root packet matchKey
// c
{ zchar[ 3 ] pack @calculatedFrom( ""a	b"" ) `doc` , } options { } MetaData A { int8 msg_type , }")).
Eval vm_compute in ("<<<M3349>>>" ++ check (runes_of_ascii "root packet matchKey { zchar[ 3 ] pack @calculatedFrom( ""a	b"" ) `doc` , } options { } MetaData A
// c
{ int8 msg_type , }")).
Eval vm_compute in ("<<<M4347>>>" ++ check (runes_of_ascii "

  root packet

    string_  //	t
	{@lengthOf(	o 
) 
@leftPad
(

) repeat

char[
	3 ] 
rootA

,

}	// @lengthOf(
 
")).
Eval vm_compute in ("<<<M1449>>>" ++ check (runes_of_ascii "
packet
    falsey { Header@calculatedFrom(""packet""  ) , char[
    0123456789 packetx ]
    , } // `tick` ""quote"" 'q'")).
Eval vm_compute in ("<<<M4474>>>" ++ check (runes_of_ascii "
packet

chars	{
}  packet
MetaDataX

    {@tag(
42

)	i16  string_ ,repeat	x

    `say ""hi""` 
	// c
    	,}

")).
Eval vm_compute in ("<<<M1398>>>" ++ check (runes_of_ascii "

    falsey { Header@calculatedFrom(""packet""  ) , char[
    0123456789 ] packetx
    , } // `tick` ""quote"" 'q'")).
Eval vm_compute in ("<<<M2>>>" ++ check (runes_of_ascii "packet i8i8
    {
char[
1
] f32a@calculatedFrom(//	t
""\n"" )
    // packet A { u8 x, }
    , repeat charz,}
")).
Eval vm_compute in ("<<<M3563>>>" ++ check (runes_of_ascii "options {
    LittleEndian = true;
}
root packet P {
    u16 a,
    u32 Sum @calculatedFrom(""CR\
C32""),
}
")).
Eval vm_compute in ("<<<M3718>>>" ++ check (runes_of_ascii "

  MetaData 
body { 
i64
	pack
`it's`
    ,
	}
    packet // c
	stringy 
{  int16	calculatedFrom ,}
")).
Eval vm_compute in ("<<<M4090>>>" ++ check (runes_of_ascii "MetaData float {
    float64 charz `
        `,
}

root packet chars {
    @rightPad('0')
    Foo,
}")).
Eval vm_compute in ("<<<M4034>>>" ++ check (runes_of_ascii "packet  o{repeat

Logon
	uint8x

    ,	} // c
	options{ 
asx=
	zchar[ 3 ]

stringy = '\x00'  }")).
Eval vm_compute in ("<<<M2209>>>" ++ check (runes_of_ascii "options options
{ } options { BodyLength= u16 Header= f64 ; u128 =
    true
    ; } // a // b")).
Eval vm_compute in ("<<<M4071>>>" ++ check (runes_of_ascii "/// triple
  options{
    Z9_	= 007	; 

    // a // b
  //
	Pad =0123456789 u 
= ""CRC32"" }

")).
Eval vm_compute in ("<<<M3519>>>" ++ check (runes_of_ascii "packet chars { } packet MetaDataX { @tag( 42 ) i16 string_ , repeat x `say ""hi""` , } // c
")).
Eval vm_compute in ("<<<M3285>>>" ++ check (runes_of_ascii "MetaData float { float64 charz `
` , } root // c
packet chars { @rightPad ( '0' ) Foo , }")).
Eval vm_compute in ("<<<M3496>>>" ++ check (runes_of_ascii "packet chars { } packet MetaDataX
// c
{ @tag( 42 ) i16 string_ , repeat x `say ""hi""` , }")).
Eval vm_compute in ("<<<M2237>>>" ++ check (runes_of_ascii "options
{ } options { BodyLength= = u16 Header= f64 ; u128 =
    true
    ; } // a // b")).
Eval vm_compute in ("<<<M2305>>>" ++ check (runes_of_ascii "options
{ } options { BodyLength= u16~ Header= f64 ; u128 =
    true
    ; } // a // b")).
Eval vm_compute in ("<<<M2248>>>" ++ check (runes_of_ascii "options
{ } options { BodyLength= u16 =Header f64 ; u128 =
    true
    ; } // a // b")).
Eval vm_compute in ("<<<M3235>>>" ++ check (runes_of_ascii "packet metadata { Logon { A `" ++ [28040; 24687; 31867; 22411]%N ++ runes_of_ascii "` , tag o , } // c
, zchar len `// not a comment` , }")).
Eval vm_compute in ("<<<M2286>>>" ++ check (runes_of_ascii "options
{ } options { BodyLength= u16 Header= f64 ; u128 =
    true
    ;  // a // b")).
Eval vm_compute in ("<<<M3455>>>" ++ check (runes_of_ascii "packet o { repeat Logon uint8x , } options { asx = zchar[ 3 // c
] stringy = '\x00' }")).
Eval vm_compute in ("<<<M1105>>>" ++ check (runes_of_ascii "  packet
    //	t
    lengthOf
{ @tag( 3
)	@lengthOf( lengthOf )u64  options1 , }")).
Eval vm_compute in ("<<<M3400>>>" ++ check (runes_of_ascii "MetaData body { i64 // c
pack `it's` , } packet stringy { int16 calculatedFrom , }")).
Eval vm_compute in ("<<<M2932>>>" ++ check (runes_of_ascii "packet A {
  match k as n {
    [1, 22, ""c c"", 4, 5, ""f"", 7] : B
    2 : C
  },
}")).
Eval vm_compute in ("<<<M3671>>>" ++ check (runes_of_ascii "
packet 
	// a // b

matchKey

    {
@tag(//
	0 
)
repeat
u

    ,

}
")).
Eval vm_compute in ("<<<M2894>>>" ++ check (runes_of_ascii "packet A {
  match k as n {
    [""a"", ""bb"", 007, ""d""] : B,
    2 : C
  },
}")).
Eval vm_compute in ("<<<M2839>>>" ++ check (runes_of_ascii "false false char char[ root repeat ""`tick`"" [ MetaData { int32 '0' char[")).
Eval vm_compute in ("<<<M231>>>" ++ check (runes_of_ascii "MetaData/// triple
float {	f64
    // trailing space 
    u8x
`
` ,	}")).
Eval vm_compute in ("<<<M3564>>>" ++ check (runes_of_ascii "root packet P {
    u16 a,
    u32 Sum @calculatedFrom(""CRC32""),
}
")).
Eval vm_compute in ("<<<M2143>>>" ++ check (runes_of_ascii "options{
_x
= true
} options
{ o	= /// triple
false
    ; chars")).
Eval vm_compute in ("<<<M1077>>>" ++ check (runes_of_ascii "options {
Logon
= true
    msg_type
= '\x00' ;
T =
int16 }
")).
Eval vm_compute in ("<<<M2859>>>" ++ check (runes_of_ascii "packet A {
  match k as n {
    [""a""] : B,
    2 : C
  },
}")).
Eval vm_compute in ("<<<M3375>>>" ++ check (runes_of_ascii "packet x { @rightPad ( ) // c
repeat roots Logon `doc` , }")).
Eval vm_compute in ("<<<M195>>>" ++ check (runes_of_ascii "packet i8i8// a // b
{ a1`{ , }` ,
// a // b
// " ++ [27880; 37322]%N ++ runes_of_ascii "
} //x")).
Eval vm_compute in ("<<<M3694>>>" ++ check (runes_of_ascii "
MetaData

    M	{
	} // c
  MetaData
	N
{	}  // d
")).
Eval vm_compute in ("<<<M4316>>>" ++ check (runes_of_ascii "
MetaData
    M{ u8 x`a
b`
    ,
	T t`a
b` ,
	} ")).
Eval vm_compute in ("<<<M3846>>>" ++ check (runes_of_ascii "MetaData int {
    string f32a `two words`,
}//")).
Eval vm_compute in ("<<<M3692>>>" ++ check (runes_of_ascii "/// triple
MetaData zchar {
    int32 pack,
}")).
Eval vm_compute in ("<<<M4433>>>" ++ check (runes_of_ascii "
root

    packet
	    // c
	  pack {	}")).
Eval vm_compute in ("<<<M2610>>>" ++ check (runes_of_ascii "packet A { match k as n { [1 2] : B }, }")).
Eval vm_compute in ("<<<M2792>>>" ++ check (runes_of_ascii "&b}S=WnA*Kztkm]4ju&E{0O4$QB[x]{2&jMd""VW")).
Eval vm_compute in ("<<<M4428>>>" ++ check (runes_of_ascii "packet A {
    u8 x `a
    
    b`,
}")).
Eval vm_compute in ("<<<M2642>>>" ++ check (runes_of_ascii "root packet A { } root packet B { }")).
Eval vm_compute in ("<<<M4077>>>" ++ check (runes_of_ascii "
packet
	A {

    }
    // c" ++ [8287]%N ++ runes_of_ascii "
")).
Eval vm_compute in ("<<<M2740>>>" ++ check ([65533]%N ++ runes_of_ascii "O" ++ [65533; 65533]%N ++ runes_of_ascii "w" ++ [19; 65533; 65533]%N ++ runes_of_ascii "o" ++ [65533; 18]%N ++ runes_of_ascii "/" ++ [65533]%N ++ runes_of_ascii "\i" ++ [65533; 65533; 21; 65533; 65533; 26; 65533; 65533]%N ++ runes_of_ascii "zs" ++ [127; 65533; 29]%N ++ runes_of_ascii "?=%A")).
Eval vm_compute in ("<<<M2603>>>" ++ check (runes_of_ascii "packet A { match k as n { }, }")).
Eval vm_compute in ("<<<M2446>>>" ++ check (runes_of_ascii "f32 f64 float32 float64 float")).
Eval vm_compute in ("<<<M2699>>>" ++ check (runes_of_ascii "9fg42cfm:PE.""_7ZnAcePs7rsPF")).
Eval vm_compute in ("<<<M11>>>" ++ check (runes_of_ascii "options { falsey
= false}")).
Eval vm_compute in ("<<<M2597>>>" ++ check (runes_of_ascii "packet A { B { u8 x, } }")).
Eval vm_compute in ("<<<M2815>>>" ++ check (runes_of_ascii "int64 uint32 u16 false")).
Eval vm_compute in ("<<<M2698>>>" ++ check ([65533]%N ++ runes_of_ascii "#" ++ [3; 7]%N ++ runes_of_ascii ">" ++ [65533]%N ++ runes_of_ascii "iS" ++ [22; 65533; 65533; 65533; 65533; 65533]%N ++ runes_of_ascii "UsV" ++ [24; 65533; 65533]%N)).
Eval vm_compute in ("<<<M2819>>>" ++ check (runes_of_ascii "uint64 , options1 (")).
Eval vm_compute in ("<<<M3061>>>" ++ check (runes_of_ascii "// c 
packet A {
}")).
Eval vm_compute in ("<<<M3143>>>" ++ check (runes_of_ascii "packet A {
}// c x")).
Eval vm_compute in ("<<<M3113>>>" ++ check (runes_of_ascii "packet A {
}// c" ++ [11]%N)).
Eval vm_compute in ("<<<M2853>>>" ++ check (runes_of_ascii "X788AH5itKe=;k[")).
Eval vm_compute in ("<<<M1179>>>" ++ check (runes_of_ascii "/// triple

")).
Eval vm_compute in ("<<<M2637>>>" ++ check (runes_of_ascii "packet A }")).
Eval vm_compute in ("<<<M132>>>" ++ check (runes_of_ascii "

// c
")).
Eval vm_compute in ("<<<M2463>>>" ++ check (runes_of_ascii "repeat")).
Eval vm_compute in ("<<<M2514>>>" ++ check (runes_of_ascii """ab""")).
Eval vm_compute in ("<<<M2479>>>" ++ check (runes_of_ascii "'  '")).
Eval vm_compute in ("<<<M2500>>>" ++ check (runes_of_ascii "///")).
Eval vm_compute in ("<<<M2478>>>" ++ check (runes_of_ascii "'0")).
Eval vm_compute in ("<<<M2681>>>" ++ check (runes_of_ascii " ")).
