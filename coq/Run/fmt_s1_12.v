From FP Require Import Lexer Parser ShowPT Digest Formatter.
From Coq Require Import String List NArith.
Import ListNotations.
Open Scope string_scope.
Set Printing Width 100000000.
Set Printing Depth 100000000.
Definition show_fres (r : fres) : string :=
  match r with
  | FOk s => "OK:" ++ sh_escaped s ""
  | FErr s => "ERR:" ++ sh_escaped s ""
  | FPanic p => "PANIC:" ++ p
  end.
Definition check (rs : list rune) : string := digest (show_fres (format_res rs)).
Definition full (rs : list rune) : string := show_fres (format_res rs).
Eval vm_compute in ("<<<M1574>>>" ++ check (runes_of_ascii "options {
    ArrayPrefixLenType = u16;
    FixedStringPadFromLeft = true;
    JavaPackage = ""com.example.msg"";
    GoPackage = ""msg"";
    GoModule = ""example.com/msg"";
}
MetaData Meta {
    u32 SeqNum `sequence number
more`,
    char[8] Symbol `symbol
more`,
    zchar[5] ZSym `z symbol
more`,
    string Note,
    Symbol AltSymbol `alias of symbol`,
    f64 Price,
}
packet Inner {
    u8 a,
    i16 b,
    string c,
}
packet Inner2 {
    u8 a2,
    char[3] c2,
}
packet Logon {
    u8 x,
    string user,
    repeat u16 codes,
}
packet Logout {
    u16 reason,
}
packet Empty {
}
root packet Msg {
    u8 su8,
    uint8 luint8,
    u16 su16,
    uint16 luint16,
    u32 su32,
    uint32 luint32,
    u64 su64,
    uint64 luint64,
    i8 si8,
    int8 lint8,
    i16 si16,
    int16 lint16,
    i32 si32,
    int32 lint32,
    i64 si64,
    int64 lint64,
    f32 sf32,
    float32 lfloat32,
    f64 sf64,
    float64 lfloat64,
    char[6] fsplain,
    @leftPad('0') char[4] fs0,
    @rightPad('0') char[5] fs1,
    @leftPad(' ') char[6] fs2,
    @rightPad(' ') char[7] fs3,
    @leftPad('\x00') char[8] fs4,
    @rightPad('\x00') char[9] fs5,
    @leftPad() char[10] fs6,
    @rightPad() char[11] fs7,
    zchar[7] fz,
    @leftPad('0') zchar[3] fzl0,
    string s1 `doc`,
    char[] s2,
    Inner,
    Sub {
        u8 q,
        string w,
        Deep {
            u16 z,
            repeat i32 zs,
        },
    },
    repeat u8 ru8,
    repeat u16 ru16,
    repeat u32 ru32,
    repeat u64 ru64,
    repeat i8 ri8,
    repeat i16 ri16,
    repeat i32 ri32,
    repeat i64 ri64,
    repeat f32 rf32,
    repeat f64 rf64,
    repeat string rstr,
    repeat char[] rstr2,
    repeat char[3] rfs,
    repeat zchar[3] rfz,
    repeat Inner2,
    repeat Grp {
        u8 k,
        char[2] v,
    },
    SeqNum,
    SeqNum seq2,
    repeat SeqNum seqs,
    Symbol,
    AltSymbol alt,
    ZSym,
    Note,
    repeat Symbol syms,
    Price px,
    u16 MsgType,
    u32 BodyLen @lengthOf(Body),
    match MsgType as Body {
        1 : Logon,
        [2, 3] : Logout,
        7 : Logon,
        9 : Empty,
    },
    u32 Checksum @calculatedFrom(""CRC32""),
}
")).
Eval vm_compute in ("<<<M2120>>>" ++ check (runes_of_ascii "packet
BodyLength// packet A { u8 x, }

{  leftPad
lengthOf
,float
rootA  `it's`

    ,

    @leftPad (
'0'

    )

    repeat
BodyLength,  @rightPad  ( )i16 	 // a // b
  	falsey

    @lengthOf( 	 // a // b
	i64_)	,// `tick` ""quote"" 'q'
    repeat char[ 
0123456789]uint8x,	repeat

    // " ++ [27880; 37322]%N ++ runes_of_ascii "
		f64
i64_, a1

    tag  `" ++ [233]%N ++ runes_of_ascii "`	,char[ 10 
]
packetx

`say ""hi""`	,

repeat tag
	metadata
	`tab	here`
, }
	    /// triple
	  options
    { crc= """"

; }  packet  int

    {
    repeat

zchar[ 
255	] i64_`two words`	//x

,string
    tag @lengthOf(	// a // b

Header
),  char chars
,

    @lengthOf( crc 
)match  asx
	as Foo
	{
7 :
BodyLength ,
    ""packet"": 
Z9_
	,

    007
    :
matchKey

    , }

    ,
uint16

metadata // a // b
, 
i64_ { repeat u8  msg_type
,stringy 
{  char[ 
0123456789  ]// c

  o
@calculatedFrom(""\n""  ) `" ++ [233]%N ++ runes_of_ascii "`

, } 
        /// triple
// packet A { u8 x, }

, zchar[
	00  ]  stringy
    `line1
line2`
    ,}, 
@leftPad  //
      ('0')	match uint8x as

    u128 {
    [
1  // a // b
	  ,""abc"" ]: _x 
""a	b"" :
    Packet 
// c
3: _x//	t

,
    ""`tick`"": 
packetx ,	""\n""
:Header	,

    } 
,

    x 
// c
    @calculatedFrom( 
	/// triple
  ""\n""

    )
,	zchar[
    65535 ] Packet//x
  ,  }MetaData
Logon 
{
}  packet packetx
{

@calculatedFrom(
""a\\""	)
    match
roots 
as
Foo

    {
    [

""\n""

    ,

4294967296
	]
:	asx	,
00  : o , ""{,}""	: Header,
255

:	packetx
, [
255, 4294967296

    ]

:
MetaDataX ,
}
	,}
")).
Eval vm_compute in ("<<<M1592>>>" ++ check (runes_of_ascii "options	{
    StringPrefixLenType
	= u16
    ;

ArrayPrefixLenType=
	u8

    ;
    FixedStringPadFromLeft
=

    true;FixedStringPadChar
    =
	' ' 
;  } packet Quote

    { int64 OrderId	,

    char[]	Ref
, 
@leftPad  (
    '0'
) char[
	5
] price ,

    }
    packet  Heartbeat{zchar[ 3

]

    venue

    ,
string 
Flags ,
} packet
    Trade { repeat	InTag787  {

    i32 venue
    ,	char[
    5 ]
sym
,repeat InPx98

    { 
char[
    11 ]Qty
	,  Heartbeat ,

char[]

price  , u32
x
,
float64

count

    , 
repeat  Quote , }  ,  zchar[

    7
	]Note ,repeat	char[

    1 ]
Tail

    ,} , 
repeat char[ 2

    ]
seqNo,
InTail55

{

repeat
Quote

,string
msgKind ,
InPx18
    {

char[]

count	, 
repeat	Quote  , uint16
Qty

    ,}
    ,char[
4 ]
seqNo, repeat Heartbeat
    ,
repeat string	sym
    ,  } ,
	repeat

    Quote
    , Heartbeat  ,@leftPad ( 
' ' ) char[

    10
    ] OrderId

, }	root
    packet  Fill 
{

    Heartbeat
	, uint32

count,
	u8

OrderId ,

    match OrderId
as
Body{

    96 :Quote ,
195
    :	Trade 
,187

: Heartbeat 
,
	}	,

u32
venue@calculatedFrom(  ""CR\
C32"" ),}

")).
Eval vm_compute in ("<<<M192>>>" ++ check (runes_of_ascii "//x
packet	u8x { @lengthOf(  As
    )
repeat char[ // c
4294967296
]
    int `{ , }` ,repeat
    // " ++ [128512]%N ++ runes_of_ascii " emoji
    int8 len
`two words` , }root packet tag// a // b
{} root packet rootA { o@calculatedFrom(""""
    ) ,leftPad i64_ `it's`
// a // b
// packet A { u8 x, }
, // " ++ [27880; 37322]%N ++ runes_of_ascii "
@tag( 7 )
    float ,	int32 x_y_z, repeat roots { zchar[ 10 ]
    a1 ,
    f32a
    options1
    `crlf
line` , match _x
    // @lengthOf(
    as
zchar {	1 : u8x ,""// no comment"" : float,	[4294967296, 10 ,""" ++ [233]%N ++ runes_of_ascii "t" ++ [233]%N ++ runes_of_ascii """ , """ ++ [28040; 24687]%N ++ runes_of_ascii """
, 1 ] :u128 // trailing space 
,
    [ ""\" ++ [233]%N ++ runes_of_ascii """ ,//x
42 // " ++ [128512]%N ++ runes_of_ascii " emoji
] :	stringy
    ,
[ 1 // " ++ [27880; 37322]%N ++ runes_of_ascii "
,""\n""
]:falsey
    // a // b
    , } ,  string  charz  @calculatedFrom( """" ) ,
    }
,	char[]	options1
    `
`
,
//	t
/// triple
u8x{ repeat msg_type	matchKey `u8 x,` , } , A
@lengthOf( //x
pack
    ) //	t
, i64
stringy ,
}
packet i8i8{ i64_
u128
,@lengthOf( u8x//
) repeat
float64 f32a ,@calculatedFrom(
    ""`tick`"" ) pack
`" ++ [233]%N ++ runes_of_ascii "` ,
uint64 Z9_ @calculatedFrom("""" ) `tab	here` , }
")).
Eval vm_compute in ("<<<M23>>>" ++ check (runes_of_ascii "root // c
packet msg_type	{ repeat// packet A { u8 x, }
A { repeat a1
    { repeat  len// trailing space 
, }
    ,pack string_,	zchar[ 7 ] msg_type  @lengthOf(u
) , } ,
    repeat
zchar[ // `tick` ""quote"" 'q'
00] tag, u64 o@calculatedFrom(""a\\""
    // trailing space 
    ) ,  }
    packet charz {@tag( 0
) // c
repeat
    // a // b
    u {
char[007 ] T,}, repeatCount @calculatedFrom( ""\n""
)
,
}packet
trueish {
@calculatedFrom( ""a\\"") @rightPad
    ('0' ) // `tick` ""quote"" 'q'
@lengthOf( BodyLength
) string asx @lengthOf( A	),
//x
/// triple
@rightPad (
' '
) match pack
    // @lengthOf(
    as leftPad
{  [
1 ]// a // b
:
body , [ ""a	b""]
:msg_type , // `tick` ""quote"" 'q'
10 :calculatedFrom ,7 : packetx,
""" ++ [233]%N ++ runes_of_ascii "t" ++ [233]%N ++ runes_of_ascii """
: roots ,	}
    ,@calculatedFrom(""1""
    )  repeat roots
    // c
    u8x
    ,}
")).
Eval vm_compute in ("<<<M27>>>" ++ check (runes_of_ascii "root packet Packet{ char[]
    msg_type @calculatedFrom(""a\\"" ) , repeat
    u16 a1
`say ""hi""`
,f32a
stringy
`u8 x,` ,
    uint16 int	, @calculatedFrom( ""// no comment""
) repeat
// a // b
// c
u8 T, zchar[
// packet A { u8 x, }
// " ++ [27880; 37322]%N ++ runes_of_ascii "
65535
//x
//
]  T , // `tick` ""quote"" 'q'
repeat chars	{ char[] tag //x
`" ++ [233]%N ++ runes_of_ascii "`,int64 A	@calculatedFrom(	""\n"" )`// not a comment`
, match trueish as i8i8 {[ ""a\""b""]	: MetaDataX, } , len {zchar[ 65535 ]o
    @lengthOf( body  ) `a\`//
, string options1`two words`
    , tag
    // `tick` ""quote"" 'q'
    { T `{ , }`
    , charz
    ,i8 // trailing space 
uint8x ,} ,char[]packetx// @lengthOf(
@lengthOf(// c
roots ) ,} ,
    }
,//
string  x, } // trailing space ")).
Eval vm_compute in ("<<<M312>>>" ++ check (runes_of_ascii "packet BodyLength // " ++ [27880; 37322]%N ++ runes_of_ascii "
{ char[ 255 // " ++ [27880; 37322]%N ++ runes_of_ascii "
]	_x, match body as repeatCount
    { ""{,}"" :
len }
    , char[
    0] Logon @calculatedFrom(	""{,}"" ) ,
    // a // b
    @rightPad() i64_//x
@calculatedFrom( ""it's"" )
    `crlf
line` , } packet
Header {
match As as
    chars
{
7: packetx , [ ""it's""  ]: u128
,
    [
    4294967296 , ""{,}"" ] : f32a ,} ,
    }packet asx { @calculatedFrom( ""1""
)
    a1
// @lengthOf(
//
,
//
//x
match x_y_z as  crc /// triple
{
// `tick` ""quote"" 'q'
// `tick` ""quote"" 'q'
""CRC32"" : As
, 7
:o , //x
} ,match msg_type as Packet {""" ++ [233]%N ++ runes_of_ascii "t" ++ [233]%N ++ runes_of_ascii """ : metadata }, repeat u8
i64_ ,// a // b
}")).
Eval vm_compute in ("<<<M1645>>>" ++ check (runes_of_ascii "packet int {
    @calculatedFrom(""" ++ [28040; 24687]%N ++ runes_of_ascii """)
    @tag(007)
    options1 @calculatedFrom(""CRC32"") `tab	here`,
    @lengthOf(As)
    x x_y_z,
    repeat x {
        i64 Z9_,
        zchar[007] body @lengthOf(uint8x),
        f64 metadata @calculatedFrom(""`tick`"") `tab	here`,
    },
}

packet msg_type {
    repeat zchar[255] A,
    int64 f32a,// " ++ [128512]%N ++ runes_of_ascii " emoji
    Pad @lengthOf(falsey),
    match falsey as x_y_z {
        7 : len,
    },
    string uint8x `a\`,
    string rootA @lengthOf(int),
}

root packet pack {
    crc i64_,
}")).
Eval vm_compute in ("<<<M1595>>>" ++ check (runes_of_ascii "// top
packet MDSnapshotZZ {
    // c2
    u8 a,// c5
}

packet OrderACK {
    // c9
    u16 b,
}

// c13
packet HTTPServerInfo {
    // c16a
    // c16b
    string s,
}// c20

root packet FIXMsg {
    // c24a
    // c24b
    u8 KType,// c27
    MDSnapshotZZ,
    repeat OrderACK,// c32a
    // c32b
    match KType as Body {
        // c37a
        // c37b
        1 : HTTPServerInfo,
        2 : OrderACK,
        // c45
    },
    // c47
}// c48")).
Eval vm_compute in ("<<<M207>>>" ++ check (runes_of_ascii "MetaData
T { Foo  lengthOf , string
    //x
    packetx
    `// not a comment` , zchar[
    //	t
    0] metadata
//x
// `tick` ""quote"" 'q'
`crlf
line` ,
x string_
`line1
line2` , } packet repeatCount {	char[ // `tick` ""quote"" 'q'
255 ]
A @calculatedFrom(""a\\"" )
,float32
    BodyLength @lengthOf(	_x )
// c
//
`doc` , char[] trueish
    // " ++ [128512]%N ++ runes_of_ascii " emoji
    @calculatedFrom( ""packet"")
    ,}
")).
Eval vm_compute in ("<<<M1569>>>" ++ check (runes_of_ascii "options
    { FixedStringPadFromLeft
	= true ;
FixedStringPadChar
	=
' ';
}packet	Reject
{}  packet
    Fill
{
    repeat
i16 Tail
,
    }
	root packet 
Trade
{
	float64	Ref , Fill ,
	u8 Note	,u16 count	@lengthOf(
Body) ,	match 
Note as
Body{
[
98	, 101 ]: 
Fill  ,	34 :

Reject

,  }

,u32
    x

    @calculatedFrom(""CRC32""
    )
, }

")).
Eval vm_compute in ("<<<M1584>>>" ++ check (runes_of_ascii "

  options	{  LittleEndian= true

    ; }

    packet Sub

    {	u8 
a,@calculatedFrom(
""CRC16""
    )u64
SubSum
    ,
	}
	root

    packet Frame  {
	u16 MsgType,	u16
BodyLen
	@lengthOf( Body

) 
,Sub Body
    ,
string
note	,

    @calculatedFrom(
""CRC16"" )u64 
Checksum

,	u8
    tail ,	}
")).
Eval vm_compute in ("<<<M554>>>" ++ check (runes_of_ascii "root packet tag { }  packet MetaDataX{char[007	]
// c
/// triple
asx  @calculatedFrom( ""a\""b""
) `say ""hi""` `say ""hi""`// " ++ [27880; 37322]%N ++ runes_of_ascii "
,  @tag(4294967296 )
    char[1//x
] packetx @calculatedFrom(""a\""b""
    ) ,
// " ++ [128512]%N ++ runes_of_ascii " emoji
// a // b
@calculatedFrom(""" ++ [233]%N ++ runes_of_ascii "t" ++ [233]%N ++ runes_of_ascii """  ) repeat pack // " ++ [27880; 37322]%N ++ runes_of_ascii "
,
    } // c")).
Eval vm_compute in ("<<<M551>>>" ++ check (runes_of_ascii "root packet tag { }  packet MetaDataX{char[007	]
// c
/// triple
asx  @calculatedFrom( ""a\""b""
false `say ""hi""`// " ++ [27880; 37322]%N ++ runes_of_ascii "
,  @tag(4294967296 )
    char[1//x
] packetx @calculatedFrom(""a\""b""
    ) ,
// " ++ [128512]%N ++ runes_of_ascii " emoji
// a // b
@calculatedFrom(""" ++ [233]%N ++ runes_of_ascii "t" ++ [233]%N ++ runes_of_ascii """  ) repeat pack // " ++ [27880; 37322]%N ++ runes_of_ascii "
,
    } // c")).
Eval vm_compute in ("<<<M39>>>" ++ check (runes_of_ascii "packet As
{//
@lengthOf(trueish ) uint8
    repeatCount	,
} options// c
{As =	""1""matchKey
=""x y"" ;
Packet = ' '  }MetaData repeatCount { string BodyLength `{ , }` , char[
    0123456789 ]//	t
trueish
    ,
uint16 A, u32 falsey `two words`
, } packet
float{// c
}

")).
Eval vm_compute in ("<<<M535>>>" ++ check (runes_of_ascii "root packet tag { }  packet MetaDataX{char[007	]
// c
/// triple
@calculatedFrom(  asx ""a\""b""
) `say ""hi""`// " ++ [27880; 37322]%N ++ runes_of_ascii "
,  @tag(4294967296 )
    char[1//x
] packetx @calculatedFrom(""a\""b""
    ) ,
// " ++ [128512]%N ++ runes_of_ascii " emoji
// a // b
@calculatedFrom(""" ++ [233]%N ++ runes_of_ascii "t" ++ [233]%N ++ runes_of_ascii """  ) repeat pack // " ++ [27880; 37322]%N ++ runes_of_ascii "
,
    } // c")).
Eval vm_compute in ("<<<M588>>>" ++ check (runes_of_ascii "root packet tag { }  packet MetaDataX{char[007	]
// c
/// triple
asx  @calculatedFrom( ""a\""b""
) `say ""hi""`// " ++ [27880; 37322]%N ++ runes_of_ascii "
,  @tag(4294967296 )
    char[1//x
 packetx @calculatedFrom(""a\""b""
    ) ,
// " ++ [128512]%N ++ runes_of_ascii " emoji
// a // b
@calculatedFrom(""" ++ [233]%N ++ runes_of_ascii "t" ++ [233]%N ++ runes_of_ascii """  ) repeat pack // " ++ [27880; 37322]%N ++ runes_of_ascii "
,
    } // c")).
Eval vm_compute in ("<<<M578>>>" ++ check (runes_of_ascii "root packet tag { }  packet MetaDataX{char[007	]
// c
/// triple
asx  @calculatedFrom( ""a\""b""
) `say ""hi""`// " ++ [27880; 37322]%N ++ runes_of_ascii "
,  @tag(4294967296 )
    1//x
] packetx @calculatedFrom(""a\""b""
    ) ,
// " ++ [128512]%N ++ runes_of_ascii " emoji
// a // b
@calculatedFrom(""" ++ [233]%N ++ runes_of_ascii "t" ++ [233]%N ++ runes_of_ascii """  ) repeat pack // " ++ [27880; 37322]%N ++ runes_of_ascii "
,
    } // c")).
Eval vm_compute in ("<<<M1761>>>" ++ check (runes_of_ascii "root packet tag {
}

packet MetaDataX {
    char[007] asx @calculatedFrom(""a\""b"") `say ""hi""`,
    @tag(4294967296)
    char[1] packetx @calculatedFrom(""a\""b""),
    // " ++ [128512]%N ++ runes_of_ascii " emoji
    // a // b
    @calculatedFrom(""" ++ [233]%N ++ runes_of_ascii "t" ++ [233]%N ++ runes_of_ascii """)
    repeat pack pack,
}// c")).
Eval vm_compute in ("<<<M237>>>" ++ check (runes_of_ascii "packet Foo //	t
{ match
    // a // b
    i64_ //x
as
x_y_z {65535:  BodyLength
,
[3, ""CRC32"" ]
:u
, 255:
T ,[ ""x y""]	:leftPad ,0123456789: As ,
    } ,
    zchar[	1
    ]int
, } packet
float
    { uint16
Packet	,}")).
Eval vm_compute in ("<<<M1445>>>" ++ check (runes_of_ascii "// top
packet // c0
Inner
    // c1
{ u8 a , // c5
} root packet // c8
P
    // c9
{ // c10
Inner
    // c11
ref_obj // c12
, // c13a
  // c13b
u8 // c14
x
    // c15
, // c16a
  // c16b
} // c17
")).
Eval vm_compute in ("<<<M1755>>>" ++ check (runes_of_ascii "packet A {
    match k as n {
        ""x\
        y"" : B,
        [""x\
        y"", 1] : C,
        [
            1, 2, 3, 4, 5,
            ""x\
            y""
        ] : D,
    },
}")).
Eval vm_compute in ("<<<M1488>>>" ++ check (runes_of_ascii "packet A {
    u8 a,
}
packet B {
    u16 b,
}
root packet P {
    u8 K1,
    u8 K2,
    match K1 as M1 {
        1 : A,
    },
    match K2 as M2 {
        1 : B,
    },
}
")).
Eval vm_compute in ("<<<M471>>>" ++ check (runes_of_ascii "packet
    // `tick` ""quote""" ++ [233]%N ++ runes_of_ascii " 'q'
    crc
// packet A { u8 x, }
//	t
{
u32 a1 ,
    // trailing space 
    roots
charz //
`two words`,	}
    MetaData int {
} /// triple")).
Eval vm_compute in ("<<<M693>>>" ++ check (runes_of_ascii "root packet len // trailing space 
{
// " ++ [27880; 37322]%N ++ runes_of_ascii "
//	t
char[10
] metadata	@lengthOf( o ) `crlf
line`,
    @rightPad
( ' '
string )
    Header @calculatedFrom( ""a\\""
    ), }
")).
Eval vm_compute in ("<<<M259>>>" ++ check (runes_of_ascii "options { Pad = char[]; u8x
    // trailing space 
    =
    ""packet"";
o = i64
; stringy
=""a\""b""
packetx
    // trailing space 
    = 65535
} options
{ chars
= '0'}")).
Eval vm_compute in ("<<<M674>>>" ++ check (runes_of_ascii "root packet len // trailing space 
{
// " ++ [27880; 37322]%N ++ runes_of_ascii "
//	t
char[10
] metadata	@lengthOf( o ) `crlf
line`,
    ;
( ' '
) string
    Header @calculatedFrom( ""a\\""
    ), }
")).
Eval vm_compute in ("<<<M60>>>" ++ check (runes_of_ascii "MetaData crc // trailing space 
{}options
{ metadata = 10 ; u = 65535
repeatCount
    = char[ 0123456789 // packet A { u8 x, }
]  }MetaData i8i8{ }
")).
Eval vm_compute in ("<<<M2058>>>" ++ check (runes_of_ascii "packet A {
    u16 len @lengthOf(body) `a
        b
      c`,
    u32 crc @calculatedFrom(""CRC32"") `a
        b
      c`,
    string body,
}")).
Eval vm_compute in ("<<<M2095>>>" ++ check (runes_of_ascii "
packet
	A{
match	k  as	n

    { 
[""a"" ,  22,

""c c"",  4,
""e"" ,66	, ""g""
,8 ,	""i""
	,10	,
""k"" , 12
    ] :
    B
	2	: C
    }
	, 
}")).
Eval vm_compute in ("<<<M1942>>>" ++ check (runes_of_ascii "
packet 
A
	{  match

k  as  n{
[
    ""a""
	,
    ""bb""
,""c c""
	,""d""
,

""e""	, ""f"" 
,

""g""
]
:

B 2

    :C}

    ,}

")).
Eval vm_compute in ("<<<M1246>>>" ++ check (runes_of_ascii "root packet matchKey { zchar[ 3 ] pack @calculatedFrom( ""a	b"" ) `doc`
// c
, } options { } MetaData A { int8 msg_type , }")).
Eval vm_compute in ("<<<M1949>>>" ++ check (runes_of_ascii "  options
{LittleEndian
=
true ;

    }root
packet P	{  u16 
a,
    u32

    Sum@calculatedFrom( ""CRC32"" ) 
, }
")).
Eval vm_compute in ("<<<M2006>>>" ++ check (runes_of_ascii "packet o

{	repeat
Logon  uint8x 
,

    } 
options	{

    asx 
=zchar[ 
3

] // c
    stringy 
= '\x00'
}
")).
Eval vm_compute in ("<<<M213>>>" ++ check (runes_of_ascii "root packet repeatCount
// c
// " ++ [128512]%N ++ runes_of_ascii " emoji
{
msg_type// `tick` ""quote"" 'q'
{
float64 lengthOf
`" ++ [233]%N ++ runes_of_ascii "`,
}
    ,  }")).
Eval vm_compute in ("<<<M1951>>>" ++ check (runes_of_ascii "packet

    A
{
    match

k as	n {[

    ""a"" 
,
	22
    ,
    ""c c""
	,4
, ""e""

]
:B 2
:C

}  ,
}

")).
Eval vm_compute in ("<<<M890>>>" ++ check (runes_of_ascii "packet A {
  match k as n {
    [1, ""bb"", 007, ""d"", 5, ""f"", 7, ""h"", 9, ""j"", 11] : B,
    2 : C
  },
}")).
Eval vm_compute in ("<<<M927>>>" ++ check (runes_of_ascii "packet A {
    Inner {
        u8 x `
`,
        Deep {
            u8 y `
`,
        },
    },
}")).
Eval vm_compute in ("<<<M886>>>" ++ check (runes_of_ascii "packet A {
  match k as n {
    [1, 22, 007, 4, 5, 66, 7, 8, 9, 10, 11] : B,
    2 : C
  },
}")).
Eval vm_compute in ("<<<M181>>>" ++ check (runes_of_ascii "MetaData a1 { Foo body
`{ , }`
    , int32
int`` ,i32 a1 `" ++ [28040; 24687; 31867; 22411]%N ++ runes_of_ascii "`
, int8 msg_type `` , }

")).
Eval vm_compute in ("<<<M1205>>>" ++ check (runes_of_ascii "MetaData float { float64 charz `
` , } root packet chars { @rightPad
// c
( '0' ) Foo , }")).
Eval vm_compute in ("<<<M1416>>>" ++ check (runes_of_ascii "packet chars { } packet MetaDataX { @tag( 42 ) i16 // c
string_ , repeat x `say ""hi""` , }")).
Eval vm_compute in ("<<<M1159>>>" ++ check (runes_of_ascii "packet metadata { Logon { A `" ++ [28040; 24687; 31867; 22411]%N ++ runes_of_ascii "` , tag o , } , zchar len `// not a comment` , }
// c
")).
Eval vm_compute in ("<<<M1146>>>" ++ check (runes_of_ascii "packet metadata { Logon { A `" ++ [28040; 24687; 31867; 22411]%N ++ runes_of_ascii "` , tag o , } // c
, zchar len `// not a comment` , }")).
Eval vm_compute in ("<<<M1351>>>" ++ check (runes_of_ascii "packet o { repeat Logon uint8x
// c
, } options { asx = zchar[ 3 ] stringy = '\x00' }")).
Eval vm_compute in ("<<<M856>>>" ++ check (runes_of_ascii "packet A {
  match k as n {
    [1, 22, ""c c"", 4, 5, ""f"", 7, 8] : B
    2 : C
  },
}")).
Eval vm_compute in ("<<<M1312>>>" ++ check (runes_of_ascii "MetaData body { i64
// c
pack `it's` , } packet stringy { int16 calculatedFrom , }")).
Eval vm_compute in ("<<<M1679>>>" ++ check (runes_of_ascii "packet A {
    match k as n {
        [1, ""bb"", 007] : B,
        2 : C,
    },
}")).
Eval vm_compute in ("<<<M798>>>" ++ check (runes_of_ascii "packet A {
  match k as n {
    [""a"", ""bb"", ""c c"", ""d""] : B
    2 : C
  },
}")).
Eval vm_compute in ("<<<M785>>>" ++ check (runes_of_ascii "packet A {
  match k as n {
    [""a"", ""bb"", ""c c""] : B
    2 : C
  },
}")).
Eval vm_compute in ("<<<M787>>>" ++ check (runes_of_ascii "packet A {
  match k as n {
    [1, ""bb"", 007] : B
    2 : C
  },
}")).
Eval vm_compute in ("<<<M103>>>" ++ check (runes_of_ascii "
packet float {
} MetaData As { char[]
    trueish , }
// " ++ [27880; 37322]%N ++ runes_of_ascii "
")).
Eval vm_compute in ("<<<M771>>>" ++ check (runes_of_ascii "packet A {
  match k as n {
    [""a""] : B
    2 : C
  },
}")).
Eval vm_compute in ("<<<M925>>>" ++ check (runes_of_ascii "packet A {
    B b `
`,
    B `
`,
    repeat B bs `
`,
}")).
Eval vm_compute in ("<<<M226>>>" ++ check (runes_of_ascii "MetaData trueish { u64// trailing space 
i8i8 , }")).
Eval vm_compute in ("<<<M272>>>" ++ check (runes_of_ascii "
root  packet zchar
    {zchar[007] Foo , }")).
Eval vm_compute in ("<<<M1100>>>" ++ check (runes_of_ascii "root // c
packet u128 { chars `it's` , }")).
Eval vm_compute in ("<<<M1091>>>" ++ check (runes_of_ascii "packet A { u8 x,// a


// b

 u8 y, }")).
Eval vm_compute in ("<<<M947>>>" ++ check (runes_of_ascii "root packet A {
    u8 x `x
`,
}")).
Eval vm_compute in ("<<<M1033>>>" ++ check (runes_of_ascii "packet A {
 u8 x `d" ++ [12]%N ++ runes_of_ascii "`, // c" ++ [12]%N ++ runes_of_ascii "
}")).
Eval vm_compute in ("<<<M924>>>" ++ check (runes_of_ascii "packet A {
    u8 x `
`,
}")).
Eval vm_compute in ("<<<M285>>>" ++ check (runes_of_ascii "MetaData leftPad {
}
")).
Eval vm_compute in ("<<<M976>>>" ++ check (runes_of_ascii "packet A {
}
// c" ++ [12288]%N)).
Eval vm_compute in ("<<<M1069>>>" ++ check (runes_of_ascii "MetaData M {
}// c")).
Eval vm_compute in ("<<<M1067>>>" ++ check (runes_of_ascii "

  packet A {}")).
Eval vm_compute in ("<<<M1055>>>" ++ check (runes_of_ascii "// c x")).
Eval vm_compute in ("<<<M726>>>" ++ check (runes_of_ascii "//")).
