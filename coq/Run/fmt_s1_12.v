From FP Require Import Lexer Parser ShowPT Digest Formatter.
From Coq Require Import String List NArith.
Import ListNotations.
Open Scope string_scope.
Set Printing Width 100000000.
Set Printing Depth 100000000.
Definition show_fres (r : fres) : string :=
  match r with
  | FOk s => "OK:" ++ sh_escaped s ""
  | FErr s => "ERR:" ++ sh_escaped s ""
  | FPanic p => "PANIC:" ++ p
  end.
Definition check (rs : list rune) : string := digest (show_fres (format_res rs)).
Definition full (rs : list rune) : string := show_fres (format_res rs).
Eval vm_compute in ("<<<M3659>>>" ++ check (runes_of_ascii "
options

    {

    ArrayPrefixLenType

= u16
    ;

    FixedStringPadFromLeft 
=

    true

    ;JavaPackage = ""com.example.msg""	;
	GoPackage
	= ""msg""; GoModule
	= ""example.com/msg"" ;

    }
MetaData  Meta	{ u32  SeqNum 
`sequence number`,char[

    8 ]Symbol

    `symbol`

,
zchar[ 5 ]
    ZSym
    `z symbol`
,	string  Note
,
    Symbol

AltSymbol `alias of symbol`
	,
f64
Price
,
}
packet

Inner
    {
    u8 a  ,i16
	b ,  string
c
,
    }  packet Inner2 {

u8 
a2 , char[ 3
]c2 ,

} packet
Logon 
{  u8
x, 
string

user
,	repeat u16  codes
	,
} packet  Logout{	u16 reason, }  packet	Empty { 
}root packet

    Msg 
{	u8 su8 
,
	uint8 
luint8

    ,
	u16	su16 ,uint16 luint16,	u32

su32 ,

    uint32  luint32

, u64	su64  ,	uint64 
luint64,
	i8 si8  ,	int8	lint8

    ,

    i16
si16 ,	int16 lint16
,

    i32 si32
,

int32
lint32

    ,	i64
    si64
,
	int64 lint64,

f32 
sf32
, float32 
lfloat32, 
f64
sf64 ,	float64

    lfloat64
	,char[
6
	]
fsplain
    , @leftPad

    (
'0' )

    char[
    4]

fs0
,

@rightPad
	(  '0'

)char[5  ]
    fs1  , 
@leftPad
    (
' '
	) char[	6
    ]

    fs2,@rightPad
	(
    ' ' )
char[

    7]
	fs3 , 
@leftPad
(
'\x00'
)char[

8 ]  fs4

,
	@rightPad
( '\x00'	)  char[

    9
]
    fs5,@leftPad
(

    )	char[ 
10 ] fs6
,

    @rightPad
(
    )
char[
11
	]fs7
	,zchar[
7
	]fz
    ,

@leftPad
(
'0'

) zchar[ 
3] fzl0

,
string

    s1`doc`, char[]s2, Inner

    , 
Sub
    {u8

q,
string 
w	,
	Deep
    { 
u16
z , repeat
	i32	zs ,  }
    ,
}

,

    repeat
u8 ru8
	,

    repeat u16
ru16, repeat u32
ru32
,

repeat
u64
ru64

,repeat	i8 ri8
    ,repeat
	i16	ri16 ,
    repeat 
i32
ri32
	, repeat i64 ri64	,repeat
f32 rf32 ,  repeat  f64 
rf64  , repeat
string rstr

    ,  repeat  char[]rstr2,repeat
    char[

3]
rfs
, repeat

zchar[

    3 ] rfz  ,repeat Inner2 
, repeat Grp
    {u8	k
	,

    char[
2 
]

    v, 
}
    , SeqNum ,	SeqNum	seq2,

repeat 
SeqNum
seqs,
    Symbol 
,

AltSymbol
	alt,

    ZSym

    ,

    Note ,

repeat	Symbol
syms

, Price	px , 
u16  MsgType

,
    u32

    BodyLen
@lengthOf( 
Body )  ,
match
	MsgType	as
Body

{ 1

:

Logon
,

[ 2

    , 3

]
:
Logout
	,	7

    : Logon
    ,
    9
: Empty

    ,
    } ,u32  Checksum

@calculatedFrom(""CRC32""	)
,
    }")).
Eval vm_compute in ("<<<M4516>>>" ++ check (runes_of_ascii "root packet packetx {
    char[] pack @lengthOf(string_) `doc`,
    u32 float @lengthOf(a1) `two words`,
    match a1 as o {
        7 : _x,
    },
    repeat msg_type {
        o uint8x `crlf
        line`,
    },
    char[] u8x @lengthOf(msg_type),
    @calculatedFrom(""CRC32"")
    i16 repeatCount @calculatedFrom(""a\""b""),
    zchar[10] _x `line1
    line2`,
    zchar[10] x `u8 x,`,
    char[0123456789] uint8x,
    @calculatedFrom(""x y"")
    int32 i8i8,
}

options {
    matchKey = ""it's""
}

packet msg_type {
    // trailing space 
    //
    match lengthOf as Logon {
        [
            ""x y"", ""a	b"", ""{,}"", """ ++ [28040; 24687]%N ++ runes_of_ascii """, ""{,}"",
            ""{,}""
        ] : asx,
        [""" ++ [233]%N ++ runes_of_ascii "t" ++ [233]%N ++ runes_of_ascii """] : trueish,
        255 : Pad,
        [
            ""`tick`"", ""{,}"", 4294967296, 4294967296, ""a\""b"",
            ""\" ++ [233]%N ++ runes_of_ascii """, 0123456789
        ] : u128,
        ""it's"" : pack,
        ""abc"" : o,
    },
    f32 zchar `it's`,
    @calculatedFrom(""a	b"")
    zchar[1] msg_type @calculatedFrom(""it's""),
    @calculatedFrom(""packet"")
    BodyLength {
        i16 _x `{ , }`,
        i8 body `crlf
        line`,
    },
    repeat i64 uint8x `say ""hi""`,// c
}

packet chars {
    match x as options1 {
        3 : tag,
        10 : repeatCount,
        [65535] : len,
        255 : tag,
        00 : BodyLength,
    },
    @calculatedFrom(""{,}"")
    MetaDataX,
    @tag(0)
    repeat stringy len,//	t
    @calculatedFrom(""a	b"")
    /// triple
    zchar[0123456789] lengthOf @lengthOf(A) `u8 x,`,
    @lengthOf(falsey)
    T `// not a comment`,
    i8i8,
    Logon {
        match crc as BodyLength {
            ""1"" : trueish,
            // " ++ [27880; 37322]%N ++ runes_of_ascii "
            ""a\""b"" : matchKey,
            [""x y""] : tag,
            // trailing space 
            // " ++ [128512]%N ++ runes_of_ascii " emoji
        },
        float @calculatedFrom(""" ++ [233]%N ++ runes_of_ascii "t" ++ [233]%N ++ runes_of_ascii """) `line1
        line2`,
        msg_type @lengthOf(i8i8),
        calculatedFrom uint8x `tab	here`,
        // a // b
        //	t
    },
}")).
Eval vm_compute in ("<<<M3997>>>" ++ check (runes_of_ascii "packet crc {
    Logon {
        u64 Z9_ @lengthOf(A),
        f64 int,//
        match BodyLength as MetaDataX {
            """ ++ [28040; 24687]%N ++ runes_of_ascii """ : msg_type,
            00 : falsey,
            00 : tag,
            ""it's"" : options1,
            007 : len,
            65535 : falsey,
        },
        repeat char[] int,//x
    },
}

root packet repeatCount {
}

packet BodyLength {
    stringy {
        len `
        `,
    },
    repeat i32 int,
    match Foo as crc {
        0 : i8i8,
        3 : chars,
    },
    repeat x {
        zchar[007] chars,
        repeat chars {
            repeat stringy {
                x_y_z u128,
                string options1 `two words`,
                char[0123456789] body `crlf
                line`,
                repeat int32 i64_,
            },
            char[42] crc,
            Pad `tab	here`,
            f32a {
                lengthOf f32a,
            },
        },
    },
    i8 stringy,
    f32a {
        match body as body {
            ""\" ++ [233]%N ++ runes_of_ascii """ : u128,
        },
        repeat string len `a\`,
        repeat As asx `it's`,
    },
}

MetaData rootA {
    //
    //
    metadata metadata,
    A _x,
    u T,
    char[3] a1 `line1
    line2`,
    zchar[4294967296] packetx `{ , }`,
    string Logon `" ++ [233]%N ++ runes_of_ascii "`,
}

packet BodyLength {
    @calculatedFrom(""\n"")
    int8 a1 @lengthOf(falsey),//
    @calculatedFrom(""\" ++ [233]%N ++ runes_of_ascii """)
    @tag(0123456789)
    lengthOf,
    @tag(007)
    //
    match Logon as f32a {
        0 : zchar,
    },
    @lengthOf(i8i8)
    match options1 as string_ {
        [
            ""a\""b"", 00, 4294967296, 4294967296, ""a	b"",
            1
        ] : A,
    },
}")).
Eval vm_compute in ("<<<M766>>>" ++ check (runes_of_ascii "
packet Packet {
@tag( 10 // a // b
) match trueish as x_y_z
{ ""it's"" : i8i8 ,
// " ++ [27880; 37322]%N ++ runes_of_ascii "
// " ++ [27880; 37322]%N ++ runes_of_ascii "
00: asx } , zchar[ 007] u
@calculatedFrom( ""`tick`"")`line1
line2`  ,
    /// triple
    chars @calculatedFrom( """"),
    match
    zchar
as _x
{00 : rootA
""\" ++ [233]%N ++ runes_of_ascii """: metadata
// c
// trailing space 
,	}
// a // b
//
, body
    {
    u32 u128 @calculatedFrom( ""{,}"" ) , repeat char[
    //x
    4294967296	]u `say ""hi""` ,
} // c
,
    @lengthOf(stringy
    ) float
{string//x
leftPad, repeat	uint16 Pad ,char u // @lengthOf(
, // " ++ [128512]%N ++ runes_of_ascii " emoji
i8i8 u ,
    } ,	match o as
x
    {  [ ""`tick`"" ,
""1"" , 10 ,
//
// c
1 , 00, 0 , 255] :uint8x//
, 0 : T , //
1 :trueish 1
: rootA, } // @lengthOf(
, zchar[ //	t
255 ] T`line1
line2` , @leftPad ( '0' // c
) @leftPad
( '\x00')
@tag(	007 ) match T
as
    u8x{ [ 007
]
: A , 0 :x,[ 4294967296 ] :
charz,"""" : As //
, 7
    :// `tick` ""quote"" 'q'
int ,
65535: x_y_z
,
    }, // trailing space 
} options{ /// triple
x
= '\x00' ; // packet A { u8 x, }
}
    // " ++ [128512]%N ++ runes_of_ascii " emoji
    root packet i64_ {  @tag(4294967296  ) falsey options1// `tick` ""quote"" 'q'
, uint64 Pad `doc` , @tag(
65535 )
    char
// " ++ [128512]%N ++ runes_of_ascii " emoji
/// triple
Logon @calculatedFrom(
    """"
// @lengthOf(
// c
)
    ,char[ 0 // @lengthOf(
]MetaDataX `a\` /// triple
, //
metadata f32a `tab	here` , stringy Header ,
    @leftPad () //x
@calculatedFrom(// c
""\" ++ [233]%N ++ runes_of_ascii """ ) @calculatedFrom(""" ++ [128512]%N ++ runes_of_ascii """ )
    char[] body @calculatedFrom( ""a	b"" )	`a\` , }")).
Eval vm_compute in ("<<<M3973>>>" ++ check (runes_of_ascii "// `tick` ""quote"" 'q'
root packet As {
}

packet x_y_z {
    @rightPad()
    @tag(42)
    @rightPad(' ')
    repeat f32a charz,
    match Header as stringy {
        [1, 4294967296] : rootA,
        0123456789 : x_y_z,
        [65535, 255] : metadata,
        [7, """ ++ [233]%N ++ runes_of_ascii "t" ++ [233]%N ++ runes_of_ascii """, ""{,}"", ""{,}""] : T,
        ""packet"" : chars,
        // trailing space 
        [42, 00] : Logon,
    },
    repeat i8i8 {
        tag @calculatedFrom(""" ++ [128512]%N ++ runes_of_ascii """) `{ , }`,
    },
    Z9_ @lengthOf(Packet),
    // trailing space 
    lengthOf,
    trueish {
        zchar[007] packetx,
        zchar[0123456789] MetaDataX `// not a comment`,
        rootA @lengthOf(Z9_) `" ++ [233]%N ++ runes_of_ascii "`,
    },
}

root packet u8x {
    float64 len @calculatedFrom(""packet""),
    u8 calculatedFrom,
    @calculatedFrom(""a\""b"")
    @calculatedFrom(""\n"")
    // trailing space 
    @lengthOf(Foo)
    Logon @lengthOf(i8i8),// trailing space 
    @calculatedFrom(""a\\"")
    falsey @calculatedFrom(""" ++ [233]%N ++ runes_of_ascii "t" ++ [233]%N ++ runes_of_ascii """) `line1
    line2`,
    @leftPad('\x00')
    // c
    match i64_ as i64_ {
        [0123456789] : a1,
        [""1"", 3, 3, 7, 0] : string_,
        """" : i64_,
    },
    @lengthOf(As)
    // packet A { u8 x, }
    T {
        zchar[0] roots @lengthOf(options1),/// triple
        u16 pack,//
    },/// triple
    string x `crlf
    line`,
}")).
Eval vm_compute in ("<<<M3936>>>" ++ check (runes_of_ascii "packet packetx {
    stringy {
        repeat matchKey {
            match falsey as matchKey {
                0123456789 : float,
                [""abc""] : u128,
                // " ++ [27880; 37322]%N ++ runes_of_ascii "
                // " ++ [128512]%N ++ runes_of_ascii " emoji
                ""x y"" : i8i8,
            },
            match falsey as Foo {
                65535 : trueish,
            },
        },
        char[] roots @calculatedFrom(""" ++ [28040; 24687]%N ++ runes_of_ascii """),
        zchar[0123456789] i64_,
        zchar[42] MetaDataX @lengthOf(len),
    },
    pack @lengthOf(crc),
    @tag(65535)
    @leftPad()
    @lengthOf(asx)
    u8x {
        repeat uint64 Pad,
        x_y_z _x `
                `,
    },
    MetaDataX stringy,
    // trailing space 
    @lengthOf(BodyLength)
    string calculatedFrom @calculatedFrom(""\n"") `line1
        line2`,
    u32 u8x,
    @tag(007)
    //
    //
    @lengthOf(asx)
    repeat uint8x {
        match float as As {
            [
                ""1"", """", 255, 255, 007,
                ""1""
            ] : rootA,
            ""1"" : msg_type,
            65535 : f32a,
            ""x y"" : leftPad,
        },
    },
    u8 asx `u8 x,`,
    len `it's`,
}

//x
/// triple
options {
    falsey = true
}")).
Eval vm_compute in ("<<<M1254>>>" ++ check (runes_of_ascii "options{ o = u8
    ; pack = true ; x = string
// @lengthOf(
// `tick` ""quote"" 'q'
} packet i64_// packet A { u8 x, }
{ @tag( 42
    /// triple
    )	@tag( 10
)	@lengthOf(len )
    match i8i8 as int // a // b
{ [
""""
,007 , ""abc""
    ,
00 , 255
, 00	,
    """ ++ [28040; 24687]%N ++ runes_of_ascii """]
    : MetaDataX ,
    10: _x , 4294967296 :BodyLength
    ,
    ""packet"" : len // packet A { u8 x, }
,""a	b""	: float , 10
    : f32a
}
, zchar  `// not a comment`/// triple
, u64 BodyLength	, @leftPad
    /// triple
    (
)@calculatedFrom( ""abc""
    ) match
Foo as //
T {
    [
    10
,""a	b"" ,	0123456789,
""it's""	, 3 ] :	pack ,  [ 3 ,
""CRC32"",
""it's""
, // @lengthOf(
""CRC32"" ,
""CRC32""
    ] :
crc , // c
""packet"" : //
msg_type ,
}
    ,
string_ o
    , @leftPad( ) char[] Header//	t
`{ , }`
    ,
@tag(  007)
    @lengthOf(  u128)
pack
    f32a , // packet A { u8 x, }
repeat tag{ repeat
As
    {
trueish,	}
,
repeat
    trueish { zchar[ 65535 ]stringy	,
    // " ++ [27880; 37322]%N ++ runes_of_ascii "
    }, zchar[ 65535]repeatCount// packet A { u8 x, }
, repeat u8 stringy , }  ,
} MetaData _x {string	o `" ++ [28040; 24687; 31867; 22411]%N ++ runes_of_ascii "`,matchKey trueish ,}
options
    { Packet=
' ' ; }
")).
Eval vm_compute in ("<<<M705>>>" ++ check (runes_of_ascii "packet
As // trailing space 
{
match asx as Header {  10
:Packet ""abc""	:u ,
    42
:Header , [ ""a	b"" ,
    255,42
    ] // trailing space 
:  leftPad 00 : int  , [ ""x y"",
7] : packetx
    , } , repeat zchar[
007
]options1
, body // @lengthOf(
MetaDataX
    // " ++ [27880; 37322]%N ++ runes_of_ascii "
    ,
    @leftPad
()
string x_y_z ,
    @lengthOf(x )
@rightPad	('0' )match
    T as tag { ""CRC32""
:
    stringy  ,00://x
packetx [
    // `tick` ""quote"" 'q'
    255	,""packet"" // a // b
]: A
    , [ 255 ,
//x
//	t
1
//	t
// @lengthOf(
,
    // @lengthOf(
    ""abc"" , 1
// " ++ [27880; 37322]%N ++ runes_of_ascii "
//	t
,
""1"" , """ ++ [233]%N ++ runes_of_ascii "t" ++ [233]%N ++ runes_of_ascii """ , 10 , // packet A { u8 x, }
00] : i8i8
    ""\n"" // a // b
:
_x,
    } ,MetaDataX {match trueish as uint8x { 1
:x , 3
:
    a1 , ""a\""b"" : u128 ,  },
} , float64 calculatedFrom @calculatedFrom( """ ++ [28040; 24687]%N ++ runes_of_ascii """
//	t
//x
) // c
`u8 x,`	,u64
    float @lengthOf( // " ++ [128512]%N ++ runes_of_ascii " emoji
matchKey ), }options
{ metadata
= //x
""{,}""//
a1 =
    u8 ;
falsey=  1 ; _x =
zchar[65535 ] Header =	' ' }
    MetaData T {
} MetaData Z9_{  string
// " ++ [27880; 37322]%N ++ runes_of_ascii "
//	t
f32a
,
len zchar
    ,
    }
")).
Eval vm_compute in ("<<<M192>>>" ++ check (runes_of_ascii "//x
packet	u8x { @lengthOf(  As
    )
repeat char[ // c
4294967296
]
    int `{ , }` ,repeat
    // " ++ [128512]%N ++ runes_of_ascii " emoji
    int8 len
`two words` , }root packet tag// a // b
{} root packet rootA { o@calculatedFrom(""""
    ) ,leftPad i64_ `it's`
// a // b
// packet A { u8 x, }
, // " ++ [27880; 37322]%N ++ runes_of_ascii "
@tag( 7 )
    float ,	int32 x_y_z, repeat roots { zchar[ 10 ]
    a1 ,
    f32a
    options1
    `crlf
line` , match _x
    // @lengthOf(
    as
zchar {	1 : u8x ,""// no comment"" : float,	[4294967296, 10 ,""" ++ [233]%N ++ runes_of_ascii "t" ++ [233]%N ++ runes_of_ascii """ , """ ++ [28040; 24687]%N ++ runes_of_ascii """
, 1 ] :u128 // trailing space 
,
    [ ""\" ++ [233]%N ++ runes_of_ascii """ ,//x
42 // " ++ [128512]%N ++ runes_of_ascii " emoji
] :	stringy
    ,
[ 1 // " ++ [27880; 37322]%N ++ runes_of_ascii "
,""\n""
]:falsey
    // a // b
    , } ,  string  charz  @calculatedFrom( """" ) ,
    }
,	char[]	options1
    `
`
,
//	t
/// triple
u8x{ repeat msg_type	matchKey `u8 x,` , } , A
@lengthOf( //x
pack
    ) //	t
, i64
stringy ,
}
packet i8i8{ i64_
u128
,@lengthOf( u8x//
) repeat
float64 f32a ,@calculatedFrom(
    ""`tick`"" ) pack
`" ++ [233]%N ++ runes_of_ascii "` ,
uint64 Z9_ @calculatedFrom("""" ) `tab	here` , }
")).
Eval vm_compute in ("<<<M735>>>" ++ check (runes_of_ascii "  root packet Packet{ @lengthOf( u128 ) match Foo
    as metadata{[ """ ++ [28040; 24687]%N ++ runes_of_ascii """, ""a	b"" ] :Z9_ ""packet""
: metadata	,[
    0123456789 , 10 ,
    // @lengthOf(
    ""1"" , ""1""
    /// triple
    , 4294967296	,""it's"" ,
    ""`tick`"" , ""{,}""]:
As ,
0 : repeatCount } , match rootA	as  zchar { 7
    // `tick` ""quote"" 'q'
    : // `tick` ""quote"" 'q'
Logon
    ,""a\\"" :
body""" ++ [128512]%N ++ runes_of_ascii """
: T// a // b
, [ ""1""
,
""a\\"" , 65535
    ,
""" ++ [233]%N ++ runes_of_ascii "t" ++ [233]%N ++ runes_of_ascii """ ,	""x y"" // c
, 3 // c
]
// a // b
// trailing space 
:
/// triple
// trailing space 
len // trailing space 
,""" ++ [128512]%N ++ runes_of_ascii """
: o , }  ,  @lengthOf( options1 ) A @calculatedFrom(
""a\""b"" )`" ++ [233]%N ++ runes_of_ascii "`
, /// triple
@rightPad
    ( // c
)  u64 i8i8 @calculatedFrom(""{,}"" ) `// not a comment`, repeat pack
{ char[] MetaDataX
, } , @lengthOf(
// c
// " ++ [128512]%N ++ runes_of_ascii " emoji
roots ) // packet A { u8 x, }
@lengthOf(	msg_type )
@calculatedFrom( ""// no comment"" ) char[ 3 ]
string_@lengthOf(
    pack
    ) // " ++ [27880; 37322]%N ++ runes_of_ascii "
`doc` , }
// `tick` ""quote"" 'q'
")).
Eval vm_compute in ("<<<M256>>>" ++ check (runes_of_ascii "packet
Pad // " ++ [27880; 37322]%N ++ runes_of_ascii "
{ @tag(	65535 )repeat char[
    //	t
    4294967296 ] o
    `u8 x,`  ,
@calculatedFrom(""x y"" )
metadata // c
@lengthOf(repeatCount )`tab	here`	,} packet u128 {
// packet A { u8 x, }
// " ++ [128512]%N ++ runes_of_ascii " emoji
repeat // " ++ [128512]%N ++ runes_of_ascii " emoji
zchar[
10 ]_x// " ++ [27880; 37322]%N ++ runes_of_ascii "
, /// triple
}
options
{ /// triple
msg_type
= true ;}packet tag {// c
@tag(7 ) i32
f32a @lengthOf( u8x)
`two words`
,
string
Foo  @lengthOf( Foo ) ,
@rightPad(
'0' ) match As as
// @lengthOf(
// `tick` ""quote"" 'q'
crc // a // b
{"""": float , //	t
} , repeat i16 i8i8 , @rightPad/// triple
(
    '0' ) repeat u128
    { i64 tag
@calculatedFrom( """ ++ [28040; 24687]%N ++ runes_of_ascii """ ) ,i8i8
@calculatedFrom( // " ++ [27880; 37322]%N ++ runes_of_ascii "
""{,}""
)`it's` , repeat string
    rootA /// triple
, }, repeat string
chars,
    asx, match calculatedFrom as
calculatedFrom {
    ""a\""b"" :  Logon ""a	b"" : asx } , char zchar @calculatedFrom( ""1""
    )
    `say ""hi""`
    ,  }
")).
Eval vm_compute in ("<<<M4387>>>" ++ check (runes_of_ascii "packet A {
    calculatedFrom @lengthOf(zchar) `say ""hi""`,
    @calculatedFrom(""{,}"")
    repeat u8x uint8x `u8 x,`,
    match o as matchKey {
        [3, """"] : T,
        //
        ""{,}"" : calculatedFrom,
    },
    repeat char[255] u,
    char[] Packet,
    repeat int64 packetx,
    @leftPad('\x00')
    @calculatedFrom("""")
    zchar {
        // trailing space 
        f32 zchar `" ++ [28040; 24687; 31867; 22411]%N ++ runes_of_ascii "`,
        match u128 as options1 {
            [
                ""abc"", 10, 65535, 0, ""\n"",
                """ ++ [128512]%N ++ runes_of_ascii """, 0123456789
            ] : chars,
            00 : As,
            ""a	b"" : packetx,
            10 : a1,
            // packet A { u8 x, }
        },
    },
    float64 calculatedFrom @lengthOf(packetx),
    char[00] string_ `
        `,
    @calculatedFrom(""it's"")
    @leftPad()
    f32 BodyLength,
}
// " ++ [27880; 37322]%N)).
Eval vm_compute in ("<<<M3910>>>" ++ check (runes_of_ascii "options {
    metadata = ""a\""b"";
    int = true;
    chars = '\x00';
    string_ = '\x00';
}

packet x {
    match As as tag {
        1 : zchar,
        ""a	b"" : len,
    },
    Pad i64_,// " ++ [27880; 37322]%N ++ runes_of_ascii "
    @tag(3)
    leftPad {
        // trailing space 
        body,
    },
    char[] i8i8 `{ , }`,
    charz {
        repeat u16 zchar `two words`,
    },
    int64 Z9_ @calculatedFrom(""a\\""),
    @rightPad('\x00')
    metadata @lengthOf(i64_),
    @lengthOf(int)
    u32 u128,// packet A { u8 x, }
    @tag(10)
    // " ++ [27880; 37322]%N ++ runes_of_ascii "
    // " ++ [128512]%N ++ runes_of_ascii " emoji
    @rightPad('\x00')
    //
    @tag(007)
    float {
        int32 Pad `" ++ [233]%N ++ runes_of_ascii "`,
        i16 options1 ``,
        repeatCount,
        chars @lengthOf(pack),
    },
    repeat int {
        zchar[10] u `two words`,
        i64 Logon,
    },
}")).
Eval vm_compute in ("<<<M835>>>" ++ check (runes_of_ascii "
MetaData crc  {
} packet options1
{ u32 int@lengthOf(
int), @leftPad
    /// triple
    ( '\x00' )  repeat string uint8x
,
@lengthOf(
    T )
zchar trueish , @leftPad( )
int32 // a // b
i8i8 @lengthOf( u8x
    // " ++ [27880; 37322]%N ++ runes_of_ascii "
    ),
// c
// " ++ [27880; 37322]%N ++ runes_of_ascii "
repeatCount@calculatedFrom( ""x y"" )
    ,
    Logon	falsey ,}options {
int
= ""\n"" //	t
len=true ; _x= char
As =	int16
    ; }packet Z9_ { repeat rootA
    , @lengthOf( a1 )  string_
trueish
    `" ++ [233]%N ++ runes_of_ascii "` ,
int8	Foo , @tag(
007) repeat falsey`// not a comment` /// triple
, @tag(  0
)f64 x @calculatedFrom( ""a\\""
    // c
    ) `// not a comment` , // `tick` ""quote"" 'q'
uint64
Header
,
u8 charz	@calculatedFrom( """ ++ [128512]%N ++ runes_of_ascii """) `" ++ [28040; 24687; 31867; 22411]%N ++ runes_of_ascii "` , i32 As @lengthOf(
a1) `{ , }` , @calculatedFrom(
    ""a	b"")
uint16 x ,
}
")).
Eval vm_compute in ("<<<M1262>>>" ++ check (runes_of_ascii "packet float{	x // " ++ [128512]%N ++ runes_of_ascii " emoji
{ u128 @calculatedFrom( ""it's"" ) `line1
line2` , } ,  match
    packetx as roots
{ """"
    :
body ,
    007 : // " ++ [128512]%N ++ runes_of_ascii " emoji
MetaDataX 7 //
:
stringy , 00: u8x,
1
    : lengthOf
    ,  } , }packet asx
{ match x
as  repeatCount
// " ++ [27880; 37322]%N ++ runes_of_ascii "
//	t
{
// packet A { u8 x, }
// a // b
0
:  float ,
    // " ++ [27880; 37322]%N ++ runes_of_ascii "
    },
    charz
    ,@tag( 0 ) @calculatedFrom( ""\" ++ [233]%N ++ runes_of_ascii """ )
    // @lengthOf(
    @lengthOf( asx ) falsey
    //
    roots
,
repeat u32	BodyLength // packet A { u8 x, }
`line1
line2`, //	t
@rightPad(
'\x00'
) repeat
zchar
{u64 x_y_z
`line1
line2` , }  , // c
@lengthOf(
i64_ )@lengthOf(Header
)
@tag(1 )u8
o	@calculatedFrom( // @lengthOf(
""\n"") `doc`, } // trailing space ")).
Eval vm_compute in ("<<<M119>>>" ++ check (runes_of_ascii "packet
Pad {
@lengthOf(stringy)MetaDataX  @calculatedFrom(""" ++ [28040; 24687]%N ++ runes_of_ascii """ ) `{ , }` ,
//x
/// triple
char[ 0123456789 ]leftPad @lengthOf( float
), asx leftPad `u8 x,` ,
    @calculatedFrom(""\" ++ [233]%N ++ runes_of_ascii """ )
    repeat  rootA
    matchKey `" ++ [28040; 24687; 31867; 22411]%N ++ runes_of_ascii "`, @lengthOf( stringy
    ) /// triple
uint8x msg_type `u8 x,`, // c
char[ 3
]
stringy `tab	here`  ,
}
MetaData metadata{ string_ zchar , float32 u128	,
char[]
    //	t
    u128//x
,} options
    // trailing space 
    { zchar =""" ++ [28040; 24687]%N ++ runes_of_ascii """ ;
msg_type = 007 ;	repeatCount = '\x00' ;	} packet
_x { }  options
{
    asx
=
true;
lengthOf =
'0'  i8i8= '0'  crc =
""abc""
    /// triple
    ; Packet
// " ++ [128512]%N ++ runes_of_ascii " emoji
// trailing space 
= ' ' } // a // b")).
Eval vm_compute in ("<<<M236>>>" ++ check (runes_of_ascii "MetaData As {  } packet float { // @lengthOf(
options1  Pad `// not a comment` ,
uint16 As `line1
line2` ,float32 stringy@calculatedFrom(
""`tick`""
) `" ++ [233]%N ++ runes_of_ascii "` ,
repeat Packet { zchar[ 3 ] T
    @calculatedFrom(
""x y""),  char[ 7 ]  asx @lengthOf( tag) ,
    //
    int64 charz `u8 x,`
, } , uint32
len , @tag(	0123456789
) Foo packetx `// not a comment`,char[] trueish @lengthOf(
rootA
    ) , @leftPad (//
'0'  ) repeat  x_y_z `{ , }` , i64 u128 ,
    }
    packet msg_type//x
{
char[]
i8i8
    `doc` //	t
,string trueish @calculatedFrom(
    """" ), char[ 7 ]/// triple
string_// packet A { u8 x, }
`say ""hi""`
/// triple
//
,	}
")).
Eval vm_compute in ("<<<M13>>>" ++ check (runes_of_ascii "
packet msg_type
    // packet A { u8 x, }
    {//	t
string	packetx @lengthOf( charz )	, @calculatedFrom( """"  )
repeat char[ 0123456789
    ]
    // c
    int `it's` ,
    @rightPad (// packet A { u8 x, }
)
@tag( 42 )
    @calculatedFrom( ""`tick`""
) repeat
uint16
falsey  `" ++ [233]%N ++ runes_of_ascii "`
, i32 Foo , @tag(7 ) u64
chars@lengthOf(  BodyLength ), i16
    Z9_@lengthOf(/// triple
a1 ) ,@lengthOf(leftPad ) lengthOf body ``	, @tag(
    007 )
char[
    10 //x
]
_x
// a // b
// " ++ [27880; 37322]%N ++ runes_of_ascii "
@lengthOf(
    roots )	`
` , // a // b
@calculatedFrom(""a\\"" )
    float64 //	t
rootA`doc` , string T @calculatedFrom( """" ) , }")).
Eval vm_compute in ("<<<M3996>>>" ++ check (runes_of_ascii "MetaData
lengthOf
{ }
root
packet 	 //x
  falsey 

    // " ++ [128512]%N ++ runes_of_ascii " emoji
//x
	  {	Pad // a // b
		{zchar[
1
	]
    Z9_  ,
	msg_type 
x_y_z

    , match u8x as
	trueish {
    """ ++ [28040; 24687]%N ++ runes_of_ascii """ :asx
	,  } , } 
,  // `tick` ""quote"" 'q'
  	@lengthOf(
    rootA)
    match

zchar 
as int
{
    ""`tick`"" 
:len
    ,
""{,}"" :
MetaDataX,
	},i64
rootA
    //x

`" ++ [28040; 24687; 31867; 22411]%N ++ runes_of_ascii "`	,	@calculatedFrom(

    ""it's""
	) 
repeat  
  /// triple
  	metadata,
T@lengthOf(
u128)
,uint64
    Pad,// " ++ [27880; 37322]%N ++ runes_of_ascii "

falsey	x , int16 leftPad  ,//	t
	falsey@lengthOf( matchKey
    ),zchar[  255 ]  u128  `u8 x,`
    ,  }
")).
Eval vm_compute in ("<<<M4214>>>" ++ check (runes_of_ascii "packet
tag

{ 
match
	asx  as u128
{

    ""1""
: T  0123456789// trailing space 

	: 
rootA

    ,  7

    :
	i8i8
	,  65535  :// `tick` ""quote"" 'q'
    	chars,
	}	, zchar[7
]
    options1 
,
	zchar[255

    ] asx
, @leftPad

    (

'0'

    ) 
stringy
`" ++ [28040; 24687; 31867; 22411]%N ++ runes_of_ascii "`	,
u64
	zchar 
@calculatedFrom( 
  // c
		""\n""
	), 
len

// `tick` ""quote"" 'q'
    // c
	@calculatedFrom(  ""// no comment""
)

    `" ++ [28040; 24687; 31867; 22411]%N ++ runes_of_ascii "`	//	t
    , 
@leftPad

( 
'0'

)  tag @lengthOf( calculatedFrom )

,

repeat 
    //
	  uint64
    metadata `a\` ,
    }
")).
Eval vm_compute in ("<<<M581>>>" ++ check (runes_of_ascii "// packet A { u8 x, }
options{ // a // b
} options
    { matchKey = 00
metadata =
/// triple
//
float64 u8x// `tick` ""quote"" 'q'
= 42
    }
packet
    uint8x{
    @lengthOf( matchKey
)
    float32 options1
,
@lengthOf( packetx ) repeat
zchar[7 ]
As ,@rightPad (
)
    // `tick` ""quote"" 'q'
    uint64 repeatCount
//	t
// packet A { u8 x, }
@lengthOf( leftPad	), @lengthOf( As
) @leftPad(
'\x00') // @lengthOf(
Header options1, @lengthOf( // a // b
packetx //
) repeat
    zchar[ 255
    ] zchar `it's` , }
")).
Eval vm_compute in ("<<<M4408>>>" ++ check (runes_of_ascii "// `tick` ""quote"" 'q'
options {
    Pad = '0'
}//

packet zchar {
    stringy {
        match x as i64_ {
            00 : len,
            /// triple
            ""`tick`"" : body,
            3 : chars,
            7 : uint8x,
            0123456789 : Foo,
        },
        repeat chars i8i8,
        float32 Logon @lengthOf(A) `tab	here`,
    },
}

packet As {
    @lengthOf(i64_)
    repeat options1 {
        a1 @calculatedFrom(""a\\""),
    },
    @calculatedFrom(""CRC32"")
    matchKey,
}")).
Eval vm_compute in ("<<<M152>>>" ++ check (runes_of_ascii "
options{	roots ='\x00' lengthOf
=
    true
; Packet = // `tick` ""quote"" 'q'
""packet"" ; o = // packet A { u8 x, }
""packet"" ; A// " ++ [27880; 37322]%N ++ runes_of_ascii "
=
    //
    true ; // trailing space 
} packet body
{ _x ,	zchar[
65535
]
Header @calculatedFrom( // trailing space 
""""  ) `u8 x,` , }
root packet
    //	t
    T // trailing space 
{ @tag(// trailing space 
7) @tag( 0
    )
@leftPad( '0' )// a // b
int64
x @lengthOf( Packet )
    , msg_type stringy
`" ++ [28040; 24687; 31867; 22411]%N ++ runes_of_ascii "`/// triple
, } /// triple")).
Eval vm_compute in ("<<<M4599>>>" ++ check (runes_of_ascii "// @lengthOf(
MetaData msg_type {
}

MetaData Logon {
    i64 uint8x,
    o u128,
}

packet body {
    @calculatedFrom(""a	b"")
    uint8x ``,
}

root packet roots {
    repeat len f32a `crlf
        line`,
    @rightPad('\x00')
    repeat i8i8 {
        zchar @lengthOf(packetx) `a\`,
        repeat msg_type,
        char[] o `" ++ [233]%N ++ runes_of_ascii "`,
        char[42] roots,
        //x
        // `tick` ""quote"" 'q'
    },
}

MetaData pack {
    repeatCount charz,
}")).
Eval vm_compute in ("<<<M349>>>" ++ check (runes_of_ascii "MetaData string_ {
char[]
Packet `
`
    , i8i8 A  ,
string A
`it's`
,// trailing space 
uint64 int
, }
// trailing space 
// " ++ [27880; 37322]%N ++ runes_of_ascii "
MetaData Z9_ { Header crc , // " ++ [27880; 37322]%N ++ runes_of_ascii "
} MetaData T {// c
float32 Z9_ `// not a comment`
    , char[] /// triple
uint8x`line1
line2` ,
Header u8x,
char[ 3] a1	,
    }MetaData Logon { a1 // " ++ [128512]%N ++ runes_of_ascii " emoji
repeatCount `say ""hi""` , char[
    42  ] Foo
    ,
    zchar[ 00
    ] metadata
,
int16  zchar `it's` , }")).
Eval vm_compute in ("<<<M4283>>>" ++ check (runes_of_ascii "packet
	options1

{ repeat	zchar[
    7 
]
i8i8, _x

    {zchar[ 65535]i8i8	@lengthOf(uint8x ),
match x_y_z
    as

lengthOf  {	//x
  [
    00// " ++ [27880; 37322]%N ++ runes_of_ascii "
	, 
1  // " ++ [27880; 37322]%N ++ runes_of_ascii "
    ,

    10  , ""\" ++ [233]%N ++ runes_of_ascii """
    ,
42 ,00]
    :Pad ,  [4294967296
]:
	asx 0123456789 
:

    x_y_z ,} 	 // trailing space 
,zchar[

0
]
    float ,

}	,  int16
	T
@lengthOf(

    charz

    ) `` ,  }
    MetaData
pack
{int64 	 //	t
chars
, }
")).
Eval vm_compute in ("<<<M328>>>" ++ check (runes_of_ascii "packet string_ { @lengthOf( int) BodyLength u8x,i64_ `tab	here`
// " ++ [128512]%N ++ runes_of_ascii " emoji
// @lengthOf(
,char[  3 ] /// triple
string_  ,repeat leftPad `" ++ [28040; 24687; 31867; 22411]%N ++ runes_of_ascii "`  ,
repeat int32
/// triple
// `tick` ""quote"" 'q'
BodyLength`u8 x,`, // `tick` ""quote"" 'q'
@tag( 4294967296
) BodyLength	`crlf
line`
    ,  msg_type Packet `" ++ [233]%N ++ runes_of_ascii "`
    , float32 string_ // trailing space 
@calculatedFrom(""""  )
, asx int
    `it's` , }
")).
Eval vm_compute in ("<<<M4370>>>" ++ check (runes_of_ascii "packet  leftPad

{
repeat

string

x , float
	matchKey `u8 x,`	,repeat

zchar[ 1 ]
u8x
`doc` ,@leftPad
    (
' '
)
	i8i8
@lengthOf(

rootA 
)	// c

  ,

//	t
// trailing space 

int8 	 //
      x

    `doc` , 
// c
	// @lengthOf(
      @tag(
	1
	)	@leftPad

    (	'\x00' )

    @lengthOf( // packet A { u8 x, }
    _x )  char[]

    x @calculatedFrom( """" 
) 
, 
}
")).
Eval vm_compute in ("<<<M3655>>>" ++ check (runes_of_ascii "
options 
{
FixedStringPadFromLeft	=true

;
FixedStringPadChar  =  ' ' ;
}
packet
    Reject { } 
packet
Fill 
{
    repeat
    i16
Tail
,
} 
root 
packet Trade{
float64
Ref,
Fill
,  u8	Note,
	u16	count

@lengthOf(
    Body),
	match Note

    as Body
{ 
[
    98 ,	101 ]
:Fill

    , 34 :  Reject

    ,  }, u32

x  @calculatedFrom(""CRC32""  ), }
")).
Eval vm_compute in ("<<<M199>>>" ++ check (runes_of_ascii "
root packet
    tag { f64
len ,
char[
    4294967296 ] A@calculatedFrom( """"  )`it's`, @tag( 65535
    )
match charz// a // b
as tag	{
    [ ""// no comment"" , """ ++ [128512]%N ++ runes_of_ascii """ ]:
zchar	,
    ""\n"":falsey  , },} packet float {f32a { repeat  packetx{
    //x
    char[ 255 ] int `it's`  ,} , uint32 x_y_z @lengthOf( pack ) // " ++ [27880; 37322]%N ++ runes_of_ascii "
,}, } // `tick` ""quote"" 'q'")).
Eval vm_compute in ("<<<M921>>>" ++ check (runes_of_ascii "options//x
{ } // @lengthOf(
root packet trueish {f32
Logon @calculatedFrom( ""`tick`"" ) `
` ,zchar[  0123456789 ]As @calculatedFrom( ""a	b"" ) ,
chars
    , char[] u128@lengthOf(
a1)
    `
`// a // b
,
    @tag( 255 )
repeat asx
    ,
} MetaData
    lengthOf //
{_x tag , float32 zchar , } options {As	= i64 ;} MetaData len {}
")).
Eval vm_compute in ("<<<M1936>>>" ++ check (runes_of_ascii "MetaData
    u { }  options {
// c
// @lengthOf(
float = int8 ;rootA =false ; As =	int16 int16 // `tick` ""quote"" 'q'
repeatCount
    // trailing space 
    =
    int16
; u8x =
    //	t
    '\x00' ; } options	{
    repeatCount
= 0
u128
    //
    = false ; i64_
// trailing space 
// `tick` ""quote"" 'q'
= '0' ; //	t
}
")).
Eval vm_compute in ("<<<M1861>>>" ++ check (runes_of_ascii "MetaData
    u u { }  options {
// c
// @lengthOf(
float = int8 ;rootA =false ; As =	int16 // `tick` ""quote"" 'q'
repeatCount
    // trailing space 
    =
    int16
; u8x =
    //	t
    '\x00' ; } options	{
    repeatCount
= 0
u128
    //
    = false ; i64_
// trailing space 
// `tick` ""quote"" 'q'
= '0' ; //	t
}
")).
Eval vm_compute in ("<<<M2073>>>" ++ check (runes_of_ascii "MetaData
    u { }  options {
// c
// @lengthOf(
float = int8 ;rootA =false ; As =	int16 // `tick` ""quote"" 'q'
repeatCount
    // trailing space 
    =
    int16
; u8x =
    //	t
    '\x00' ; } options	{
    repeatCount
= 0
caf" ++ [233]%N ++ runes_of_ascii "_1
    //
    = false ; i64_
// trailing space 
// `tick` ""quote"" 'q'
= '0' ; //	t
}
")).
Eval vm_compute in ("<<<M1927>>>" ++ check (runes_of_ascii "MetaData
    u { }  options {
// c
// @lengthOf(
float = int8 ;rootA =false ; = As	int16 // `tick` ""quote"" 'q'
repeatCount
    // trailing space 
    =
    int16
; u8x =
    //	t
    '\x00' ; } options	{
    repeatCount
= 0
u128
    //
    = false ; i64_
// trailing space 
// `tick` ""quote"" 'q'
= '0' ; //	t
}
")).
Eval vm_compute in ("<<<M4226>>>" ++ check (runes_of_ascii "packet pack {
    u8 len,
    @rightPad()
    u64 A @calculatedFrom(""\n""),// trailing space 
    @lengthOf(o)
    @leftPad()
    @leftPad()
    int32 metadata,
    matchKey,
}

MetaData matchKey {
}

packet rootA {
}

options {
    A = zchar[65535]
    float = 3
    roots = 7
    Pad = 10;
    trueish = false;
}")).
Eval vm_compute in ("<<<M3780>>>" ++ check (runes_of_ascii "// " ++ [128512]%N ++ runes_of_ascii " emoji
packet u {
    int `two words`,
}

packet Packet {
    repeat zchar Foo,
}

packet f32a {
    uint32 Packet `
        `,
    @lengthOf(msg_type)
    @calculatedFrom(""it's"")
    repeat repeatCount {
        repeat zchar[255] u8x,
        repeat MetaDataX `" ++ [28040; 24687; 31867; 22411]%N ++ runes_of_ascii "`,
        int64 Pad `tab	here`,
    },
}")).
Eval vm_compute in ("<<<M1856>>>" ++ check (runes_of_ascii "
    u { }  options {
// c
// @lengthOf(
float = int8 ;rootA =false ; As =	int16 // `tick` ""quote"" 'q'
repeatCount
    // trailing space 
    =
    int16
; u8x =
    //	t
    '\x00' ; } options	{
    repeatCount
= 0
u128
    //
    = false ; i64_
// trailing space 
// `tick` ""quote"" 'q'
= '0' ; //	t
}
")).
Eval vm_compute in ("<<<M639>>>" ++ check (runes_of_ascii "
packet
calculatedFrom {@lengthOf( Foo	) //
@calculatedFrom( ""a\""b""
)lengthOf Foo
, int8 u8x, @calculatedFrom( """ ++ [28040; 24687]%N ++ runes_of_ascii """ )
repeat // a // b
options1 o `" ++ [28040; 24687; 31867; 22411]%N ++ runes_of_ascii "` ,
    MetaDataX @lengthOf( Logon
    // trailing space 
    )
, } options { crc =
7 u8x =0 T = ""{,}""; metadata =
    zchar[ 00
    ]
;} 	 ")).
Eval vm_compute in ("<<<M4337>>>" ++ check (runes_of_ascii "  root

    packet  i8i8
    // `tick` ""quote"" 'q'
    // packet A { u8 x, }
{string 
calculatedFrom  @calculatedFrom(""a	b""  //x
)
, @calculatedFrom(""abc""
) // " ++ [27880; 37322]%N ++ runes_of_ascii "
		int32
float// " ++ [128512]%N ++ runes_of_ascii " emoji
  ,  
      //x
    // a // b
@calculatedFrom( ""a\""b"" 
)
    repeat u64
    BodyLength  ,
}")).
Eval vm_compute in ("<<<M217>>>" ++ check (runes_of_ascii "options{ // " ++ [128512]%N ++ runes_of_ascii " emoji
x =i8 BodyLength	=	'\x00'	;
options1 // a // b
=// c
zchar[
    42] ; msg_type = ""a	b""  x_y_z =// a // b
int64
; } //x
options
{ pack =
""a\\""matchKey  =
    true Packet =""abc"" //	t
falsey =
'\x00'
; }  root packet charz { body
    `doc` , } // c")).
Eval vm_compute in ("<<<M3628>>>" ++ check (runes_of_ascii "  options{
    StringPrefixLenType =
u16
; FixedStringPadChar
=  ' ';

} packet
Party
	{  }

    packet
	Quote

    { repeat
Party ,
	repeat
char[

2 
]  f1
	,
	}
packet  Logon
{  }root
packet Cancel  { uint16 
x
,
	zchar[

    6
    ]

f1
	,

    }
")).
Eval vm_compute in ("<<<M478>>>" ++ check (runes_of_ascii "
packet	packetx{
    @leftPad
    /// triple
    (
'0' )	@lengthOf(  T ) @calculatedFrom( ""\" ++ [233]%N ++ runes_of_ascii """ )
match i64_
    as tag// " ++ [128512]%N ++ runes_of_ascii " emoji
{
    ""abc""// packet A { u8 x, }
:Header , [7
] :
chars,	""a	b"" :	f32a , ""\" ++ [233]%N ++ runes_of_ascii """ :f32a ,	""CRC32"" : zchar , ""abc""  : Z9_, } , }
")).
Eval vm_compute in ("<<<M1560>>>" ++ check (runes_of_ascii "packet
//	t
// trailing space 
_x {
// packet A { u8 x, }
// c
char[
3
    ] u8x @lengthOf(
u8x ) , @calculatedFrom(""" ++ [128512]%N ++ runes_of_ascii """ // @lengthOf(
)
false	Foo
@lengthOf(	string_
    )`doc`	, repeat	i64 metadata , @lengthOf( string_
) i8 // c
u  `line1
line2`	,
}
")).
Eval vm_compute in ("<<<M811>>>" ++ check (runes_of_ascii "packet trueish{ body Logon , }packet  len
{ @leftPad ( '0' // packet A { u8 x, }
) @rightPad ()repeat calculatedFrom`u8 x,`
    ,repeatCount {repeat
    Logon tag
    `u8 x,`
,
} // " ++ [128512]%N ++ runes_of_ascii " emoji
, repeat  char[ 65535	] Header`two words` , float32 Pad, }
")).
Eval vm_compute in ("<<<M1624>>>" ++ check (runes_of_ascii "packet
//	t
// trailing space 
_x {
// packet A { u8 x, }
// c
char[
3
    ] u8x @lengthOf(
u8x ) , @calculatedFrom(""" ++ [128512]%N ++ runes_of_ascii """ // @lengthOf(
)
i16	Foo
@lengthOf(	string_
    )`doc`	, repeat	i64 metadata , @lengthOf( string_
i8 ) // c
u  `line1
line2`	,
}
")).
Eval vm_compute in ("<<<M3673>>>" ++ check (runes_of_ascii "

  options
    // @lengthOf(

	{} root	packet 

    // c

	falsey

{}  MetaData _x
    {  }
    packet
	    // packet A { u8 x, }
// trailing space 
    o 
    // " ++ [128512]%N ++ runes_of_ascii " emoji
  {
falsey  ,	@tag(  3	)// `tick` ""quote"" 'q'
  uint8

    Foo
,

    }
")).
Eval vm_compute in ("<<<M2024>>>" ++ check (runes_of_ascii "MetaData
    u { }  options {
// c
// @lengthOf(
float = int8 ;rootA =false ; As =	int16 // `tick` ""quote"" 'q'
repeatCount
    // trailing space 
    =
    int16
; u8x =
    //	t
    '\x00' ; } options	{
    repeatCount
= 0
u128
    //
    =")).
Eval vm_compute in ("<<<M686>>>" ++ check (runes_of_ascii "packet
// a // b
// packet A { u8 x, }
matchKey { lengthOf	{ charz int
// " ++ [128512]%N ++ runes_of_ascii " emoji
// packet A { u8 x, }
,
match
uint8x as A
    // a // b
    {
    65535: rootA
, } ,	repeat char[]
    // a // b
    T, }
    , repeat charz  roots,	}
")).
Eval vm_compute in ("<<<M4243>>>" ++ check (runes_of_ascii "options {
    trueish = f32;
    i8i8 = false
    BodyLength = float64
    stringy = string;
    Z9_ = '\x00'
}

MetaData falsey {
    pack rootA,
    char[7] x_y_z `" ++ [233]%N ++ runes_of_ascii "`,
    uint32 string_,
    float64 lengthOf,
    int32 u,
}")).
Eval vm_compute in ("<<<M4071>>>" ++ check (runes_of_ascii "// top
packet B {
    // c2
    u8 a,
}// c6

root packet P {
    // c10
    u8 K,// c13a
    // c13b
    u64 L @lengthOf(Body),
    match K as Body {
        1 : B,
        // c28a
        // c28b
    },// c30
}
// c31")).
Eval vm_compute in ("<<<M4532>>>" ++ check (runes_of_ascii "  packet u128{  @calculatedFrom(""a	b""	)
	repeat
uint8x
u128`line1
line2`
    ,
} packet
string_ { @calculatedFrom(
    // `tick` ""quote"" 'q'
  // packet A { u8 x, }

""" ++ [128512]%N ++ runes_of_ascii """
)uint8 
Pad	@lengthOf( 
o)
	`{ , }` ,
} ")).
Eval vm_compute in ("<<<M1850>>>" ++ check (runes_of_ascii "options { trueish = ""`tick`"" ; string_= """ ++ [233]%N ++ runes_of_ascii "t" ++ [233]%N ++ runes_of_ascii """
    // c
    } root
    packet body { stringy @calculatedFrom(
""a	b"" ) `line1
line2` , }
packet Logon {
    @leftPa'\x01'd(
    ' ' ) //	t
u16 string_ `u8 x,` ,
}
")).
Eval vm_compute in ("<<<M1774>>>" ++ check (runes_of_ascii "options { trueish = ""`tick`"" ; string_= """ ++ [233]%N ++ runes_of_ascii "t" ++ [233]%N ++ runes_of_ascii """
    // c
    } root
    packet body { stringy @calculatedFrom(
""a	b"" ) `line1
line2` , i16
packet Logon {
    @leftPad(
    ' ' ) //	t
u16 string_ `u8 x,` ,
}
")).
Eval vm_compute in ("<<<M1679>>>" ++ check (runes_of_ascii "options u trueish = ""`tick`"" ; string_= """ ++ [233]%N ++ runes_of_ascii "t" ++ [233]%N ++ runes_of_ascii """
    // c
    } root
    packet body { stringy @calculatedFrom(
""a	b"" ) `line1
line2` , }
packet Logon {
    @leftPad(
    ' ' ) //	t
u16 string_ `u8 x,` ,
}
")).
Eval vm_compute in ("<<<M1814>>>" ++ check (runes_of_ascii "options { trueish = ""`tick`"" ; string_= """ ++ [233]%N ++ runes_of_ascii "t" ++ [233]%N ++ runes_of_ascii """
    // c
    } root
    packet body { stringy @calculatedFrom(
""a	b"" ) `line1
line2` , }
packet Logon {
    @leftPad(
    ' ' ) //	t
i64 string_ `u8 x,` ,
}
")).
Eval vm_compute in ("<<<M1834>>>" ++ check (runes_of_ascii "options { trueish = ""`tick`"" ; string_= """ ++ [233]%N ++ runes_of_ascii "t" ++ [233]%N ++ runes_of_ascii """
    // c
    } root
    packet body { stringy @calculatedFrom(
""a	b"" ) `line1
line2` , }
packet Logon {
    @leftPad(
    ' ' ) //	t
u16 string_ `u8 x,` ,")).
Eval vm_compute in ("<<<M1741>>>" ++ check (runes_of_ascii "options { trueish = ""`tick`"" ; string_= """ ++ [233]%N ++ runes_of_ascii "t" ++ [233]%N ++ runes_of_ascii """
    // c
    } root
    packet body {  @calculatedFrom(
""a	b"" ) `line1
line2` , }
packet Logon {
    @leftPad(
    ' ' ) //	t
u16 string_ `u8 x,` ,
}
")).
Eval vm_compute in ("<<<M1764>>>" ++ check (runes_of_ascii "options { trueish = ""`tick`"" ; string_= """ ++ [233]%N ++ runes_of_ascii "t" ++ [233]%N ++ runes_of_ascii """
    // c
    } root
    packet body { stringy @calculatedFrom(
""a	b"" ) , , }
packet Logon {
    @leftPad(
    ' ' ) //	t
u16 string_ `u8 x,` ,
}
")).
Eval vm_compute in ("<<<M1111>>>" ++ check (runes_of_ascii "packet
Pad { @leftPad
() @lengthOf(float
) @calculatedFrom( ""// no comment"" )
    repeat calculatedFrom{ uint16
i64_ @lengthOf( msg_type ) , BodyLength	trueish,_x Logon ,
} ,
} //	t")).
Eval vm_compute in ("<<<M441>>>" ++ check (runes_of_ascii "
options { options1 =
1// packet A { u8 x, }
; } options
{ A =00}MetaData
repeatCount {
char[]
u8x	, char[] u128
, body roots
`" ++ [28040; 24687; 31867; 22411]%N ++ runes_of_ascii "`, msg_type As  ,
} MetaData
string_ {
}
")).
Eval vm_compute in ("<<<M4207>>>" ++ check (runes_of_ascii "MetaData T {
    // c
    //	t
    trueish i64_ `" ++ [233]%N ++ runes_of_ascii "`,
    f64 a1 `doc`,
    int A,
    u32 crc `" ++ [28040; 24687; 31867; 22411]%N ++ runes_of_ascii "`,
    charz _x,
    // trailing space 
    char[255] msg_type `" ++ [28040; 24687; 31867; 22411]%N ++ runes_of_ascii "`,
}")).
Eval vm_compute in ("<<<M4528>>>" ++ check (runes_of_ascii "packet A {
    match k as n {
        [
            1, ""bb"", 007, ""d"", 5,
            ""f"", 7, ""h"", 9, ""j"",
            11, ""l""
        ] : B,
        2 : C,
    },
}")).
Eval vm_compute in ("<<<M2383>>>" ++ check (runes_of_ascii "// c
packet x { @lengthOf( metadata ) repeat repeat lengthOf
,a1{
trueish	,// c
repeat//	t
MetaDataX , } , zchar[
    42	] rootA // `tick` ""quote"" 'q'
,
    }
")).
Eval vm_compute in ("<<<M1174>>>" ++ check (runes_of_ascii "packet  charz { // packet A { u8 x, }
repeat len packetx  , }
options{string_=false
    ;crc=007
; _x = ""a	b""
// " ++ [128512]%N ++ runes_of_ascii " emoji
// trailing space 
;Z9_ = int16 }
")).
Eval vm_compute in ("<<<M2389>>>" ++ check (runes_of_ascii "// c
packet x { @lengthOf( metadata ) repeat lengthOf
,a1{
trueish	,// c
repeat//	t
MetaDataX , } , zchar[
    42	] ] rootA // `tick` ""quote"" 'q'
,
    }
")).
Eval vm_compute in ("<<<M2120>>>" ++ check (runes_of_ascii "options{
_x
= true
} options
{ o	= = /// triple
false
    ; chars
= ""\n"" } root packet	Pad
/// triple
// packet A { u8 x, }
{	chars
    // a // b
    ,}")).
Eval vm_compute in ("<<<M2182>>>" ++ check (runes_of_ascii "options{
_x
= true
} options
{ o	= /// triple
false
    ; chars
= ""\n"" } root packet	Pad
/// triple
// packet A { u8 x, }
{	chars
    // a // b
    i8}")).
Eval vm_compute in ("<<<M2106>>>" ++ check (runes_of_ascii "options{
_x
= true
} {
options o	= /// triple
false
    ; chars
= ""\n"" } root packet	Pad
/// triple
// packet A { u8 x, }
{	chars
    // a // b
    ,}")).
Eval vm_compute in ("<<<M2099>>>" ++ check (runes_of_ascii "options{
_x
= true
 options
{ o	= /// triple
false
    ; chars
= ""\n"" } root packet	Pad
/// triple
// packet A { u8 x, }
{	chars
    // a // b
    ,}")).
Eval vm_compute in ("<<<M2391>>>" ++ check (runes_of_ascii "// c
packet x { @lengthOf( metadata ) repeat lengthOf
,a1{
trueish	,// c
repeat//	t
" ++ [252]%N ++ runes_of_ascii "ber , } , zchar[
    42	] rootA // `tick` ""quote"" 'q'
,
    }
")).
Eval vm_compute in ("<<<M1069>>>" ++ check (runes_of_ascii "MetaData  uint8x{  char[
0
    ]As	,	}
MetaData	matchKey
    // c
    {
    //x
    Logon rootA//
`{ , }`
    ,  }packet Packet { string
As
,
}

")).
Eval vm_compute in ("<<<M1314>>>" ++ check (runes_of_ascii "MetaData uint8x {
    } packet i8i8{ // a // b
repeat uint64 roots , string
    falsey
,// trailing space 
} options  {
repeatCount = 007 ; }
")).
Eval vm_compute in ("<<<M81>>>" ++ check (runes_of_ascii "
root packet // `tick` ""quote"" 'q'
rootA { @rightPad (
) @leftPad(	) @lengthOf(  MetaDataX  )float// c
u128`a\` , // `tick` ""quote"" 'q'
}
")).
Eval vm_compute in ("<<<M986>>>" ++ check (runes_of_ascii "//x
options { Header
= char[];} MetaData
    Z9_ { // @lengthOf(
x_y_z Header `crlf
line` ,
// " ++ [27880; 37322]%N ++ runes_of_ascii "
// " ++ [27880; 37322]%N ++ runes_of_ascii "
string pack ,} options { }
")).
Eval vm_compute in ("<<<M3801>>>" ++ check (runes_of_ascii "root packet leftPad {
    int64 BodyLength `// not a comment`,
    @tag(0)
    @leftPad()
    @tag(255)
    repeat Header,
}// c")).
Eval vm_compute in ("<<<M4307>>>" ++ check (runes_of_ascii "packet
A  {  u16
	len  @lengthOf( body	)
    `
x` ,

u32 
crc	@calculatedFrom(	""CRC32"" 
)
`
x`

    , string
    body , }")).
Eval vm_compute in ("<<<M3310>>>" ++ check (runes_of_ascii "// c
root packet matchKey { zchar[ 3 ] pack @calculatedFrom( ""a	b"" ) `doc` , } options { } MetaData A { int8 msg_type , }")).
Eval vm_compute in ("<<<M3343>>>" ++ check (runes_of_ascii "root packet matchKey { zchar[ 3 ] pack @calculatedFrom( ""a	b"" ) `doc` , } options {
// c
} MetaData A { int8 msg_type , }")).
Eval vm_compute in ("<<<M1477>>>" ++ check (runes_of_ascii "
packet
    falsey { Header@calculatedFrom(""packet""  ) , char[
    0123456789 ] packetx
    " ++ [8232]%N ++ runes_of_ascii " , } // `tick` ""quote"" 'q'")).
Eval vm_compute in ("<<<M1405>>>" ++ check (runes_of_ascii "
packet
    uint32 { Header@calculatedFrom(""packet""  ) , char[
    0123456789 ] packetx
    , } // `tick` ""quote"" 'q'")).
Eval vm_compute in ("<<<M2361>>>" ++ check (runes_of_ascii "// c
packet x { @lengthOf( metadata ) repeat lengthOf
,a1{
trueish	,// c
repeat//	t
MetaDataX , } , zchar[
    42	]")).
Eval vm_compute in ("<<<M2977>>>" ++ check (runes_of_ascii "packet A {
  match k as n {
    [""a"", ""bb"", ""c c"", ""d"", ""e"", ""f"", ""g"", ""h"", ""i"", ""j"", ""k""] : B,
    2 : C
  },
}")).
Eval vm_compute in ("<<<M3671>>>" ++ check (runes_of_ascii "packet	chars	{}	// c
    packet

    MetaDataX	{@tag(
    42
    )
	i16 
string_
,
repeat
x`say ""hi""`	,}

")).
Eval vm_compute in ("<<<M2986>>>" ++ check (runes_of_ascii "packet A {
  match k as n {
    [""a"", ""bb"", 007, ""d"", ""e"", 66, ""g"", ""h"", 9, ""j"", ""k""] : B
    2 : C
  },
}")).
Eval vm_compute in ("<<<M2982>>>" ++ check (runes_of_ascii "packet A {
  match k as n {
    [""a"", 22, ""c c"", 4, ""e"", 66, ""g"", 8, ""i"", 10, ""k""] : B
    2 : C
  },
}")).
Eval vm_compute in ("<<<M4018>>>" ++ check (runes_of_ascii "// packet A { u8 x, }
options {
    lengthOf = 255;/// triple
}

packet MetaDataX {
    int32 body,
}")).
Eval vm_compute in ("<<<M642>>>" ++ check (runes_of_ascii "packet
//	t
//x
As
{ matchKey@lengthOf(string_)
    , matchKey `say ""hi""`// packet A { u8 x, }
,}")).
Eval vm_compute in ("<<<M2989>>>" ++ check (runes_of_ascii "packet A {
  match k as n {
    [1, 22, 007, 4, 5, 66, 7, 8, 9, 10, 11, 12] : B
    2 : C
  },
}")).
Eval vm_compute in ("<<<M1465>>>" ++ check (runes_of_ascii "
packet
    falsey { Header@calculatedFrom(""packet""  ) , char[
    0123456789 ] packetx
    ,")).
Eval vm_compute in ("<<<M2742>>>" ++ check (runes_of_ascii "zchar[ [ """" char[] match i32 @lengthOf( uint16 char[] @lengthOf( i64 @lengthOf( string int8")).
Eval vm_compute in ("<<<M654>>>" ++ check (runes_of_ascii "options {Pad = ""a	b""
    ;
//
// `tick` ""quote"" 'q'
u
= '\x00'
;lengthOf
= ' '
    ; }
")).
Eval vm_compute in ("<<<M3291>>>" ++ check (runes_of_ascii "MetaData float { float64 charz `
` , } root packet chars { // c
@rightPad ( '0' ) Foo , }")).
Eval vm_compute in ("<<<M3502>>>" ++ check (runes_of_ascii "packet chars { } packet MetaDataX { @tag( 42
// c
) i16 string_ , repeat x `say ""hi""` , }")).
Eval vm_compute in ("<<<M2284>>>" ++ check (runes_of_ascii "options
{ } options { BodyLength= u16 Header= f64 ; u128 =
    true
    i16 } // a // b")).
Eval vm_compute in ("<<<M3170>>>" ++ check (runes_of_ascii "packet A { match k as n // a
 { // b
 1 // c
 : // d
 B // e
 , // f
 } // g
 , // h
 }")).
Eval vm_compute in ("<<<M2913>>>" ++ check (runes_of_ascii "packet A {
  match k as n {
    [""a"", ""bb"", ""c c"", ""d"", ""e"", ""f""] : B
    2 : C
  },
}")).
Eval vm_compute in ("<<<M3242>>>" ++ check (runes_of_ascii "packet metadata { Logon { A `" ++ [28040; 24687; 31867; 22411]%N ++ runes_of_ascii "` , tag o , } , zchar len
// c
`// not a comment` , }")).
Eval vm_compute in ("<<<M3433>>>" ++ check (runes_of_ascii "packet o { // c
repeat Logon uint8x , } options { asx = zchar[ 3 ] stringy = '\x00' }")).
Eval vm_compute in ("<<<M3530>>>" ++ check (runes_of_ascii "options {
    LittleEndian = true;
}
root packet P {
    repeat char cs,
    u8 x,
}
")).
Eval vm_compute in ("<<<M3050>>>" ++ check (runes_of_ascii "packet A {
    u32 crc @calculatedFrom(""x\
y""),
    @calculatedFrom(""x\
y"") u8 y,
}")).
Eval vm_compute in ("<<<M3408>>>" ++ check (runes_of_ascii "MetaData body { i64 pack `it's` , } // c
packet stringy { int16 calculatedFrom , }")).
Eval vm_compute in ("<<<M4031>>>" ++ check (runes_of_ascii "packet A {
    match k as n {
        [1, ""bb"", 007] : B,
        2 : C,
    },
}")).
Eval vm_compute in ("<<<M768>>>" ++ check (runes_of_ascii "// " ++ [27880; 37322]%N ++ runes_of_ascii "
options
{ u8x  = zchar[0
] ; len
    =
    ' ';
    leftPad =false;
} 	 ")).
Eval vm_compute in ("<<<M1924>>>" ++ check (runes_of_ascii "MetaData
    u { }  options {
// c
// @lengthOf(
float = int8 ;rootA =false")).
Eval vm_compute in ("<<<M2153>>>" ++ check (runes_of_ascii "options{
_x
= true
} options
{ o	= /// triple
false
    ; chars
= ""\n""")).
Eval vm_compute in ("<<<M2881>>>" ++ check (runes_of_ascii "packet A {
  match k as n {
    [""a"", ""bb"", 007] : B,
    2 : C
  },
}")).
Eval vm_compute in ("<<<M2148>>>" ++ check (runes_of_ascii "options{
_x
= true
} options
{ o	= /// triple
false
    ; chars
=")).
Eval vm_compute in ("<<<M4118>>>" ++ check (runes_of_ascii "
root packet
    P
	{
repeat string ss ,

    repeat	u16 ns,}
")).
Eval vm_compute in ("<<<M302>>>" ++ check (runes_of_ascii "
packet
    // a // b
    matchKey{ @tag(//
0 ) repeat u ,}

")).
Eval vm_compute in ("<<<M142>>>" ++ check (runes_of_ascii "options // `tick` ""quote"" 'q'
{ repeatCount = 3/// triple
}")).
Eval vm_compute in ("<<<M3367>>>" ++ check (runes_of_ascii "packet x // c
{ @rightPad ( ) repeat roots Logon `doc` , }")).
Eval vm_compute in ("<<<M3832>>>" ++ check (runes_of_ascii "root packet A {
    u8 x `a
            b
          c`,
}")).
Eval vm_compute in ("<<<M585>>>" ++ check (runes_of_ascii "options {MetaDataX =
// `tick` ""quote"" 'q'
//	t
0; }
")).
Eval vm_compute in ("<<<M226>>>" ++ check (runes_of_ascii "MetaData trueish { u64// trailing space 
i8i8 , }")).
Eval vm_compute in ("<<<M4054>>>" ++ check (runes_of_ascii "
root
packet

u128 
{ 
chars// c

	`it's`,
	} ")).
Eval vm_compute in ("<<<M3005>>>" ++ check (runes_of_ascii "MetaData M {
    u8 x `a
b`,
    T t `a
b`,
}")).
Eval vm_compute in ("<<<M1265>>>" ++ check (runes_of_ascii "  options //
{ u8x
=
    zchar[ 0  ]
    }")).
Eval vm_compute in ("<<<M3189>>>" ++ check (runes_of_ascii "root // c
packet u128 { chars `it's` , }")).
Eval vm_compute in ("<<<M4296>>>" ++ check (runes_of_ascii "//x
MetaData falsey {
    string Pad,
}")).
Eval vm_compute in ("<<<M2616>>>" ++ check (runes_of_ascii "packet A { match k as n { x : B }, }")).
Eval vm_compute in ("<<<M2812>>>" ++ check (runes_of_ascii "i64 @lengthOf( `// not a comment` (")).
Eval vm_compute in ("<<<M2240>>>" ++ check (runes_of_ascii "options
{ } options { BodyLength")).
Eval vm_compute in ("<<<M4094>>>" ++ check (runes_of_ascii "
root
packet
	i64_

    {
}
")).
Eval vm_compute in ("<<<M2810>>>" ++ check (runes_of_ascii "X{aZG^\F}_#)~""*yZ&5,]=E;#],:0N")).
Eval vm_compute in ("<<<M3025>>>" ++ check (runes_of_ascii "packet A {
    u8 x `a

b`,
}")).
Eval vm_compute in ("<<<M2748>>>" ++ check (runes_of_ascii "L" ++ [1964; 65533; 65533]%N ++ runes_of_ascii "@" ++ [65533; 1940; 24]%N ++ runes_of_ascii "C" ++ [65533]%N ++ runes_of_ascii "e" ++ [65533]%N ++ runes_of_ascii "|=" ++ [65533; 65533; 820; 65533]%N ++ runes_of_ascii "d" ++ [65533]%N ++ runes_of_ascii "#" ++ [65533; 16]%N ++ runes_of_ascii "M" ++ [65533]%N ++ runes_of_ascii "p^")).
Eval vm_compute in ("<<<M108>>>" ++ check (runes_of_ascii "packet  o {  } // " ++ [128512]%N ++ runes_of_ascii " emoji")).
Eval vm_compute in ("<<<M1062>>>" ++ check (runes_of_ascii "MetaData
f32a {	A x , }")).
Eval vm_compute in ("<<<M2235>>>" ++ check (runes_of_ascii "options
{ } options {")).
Eval vm_compute in ("<<<M1227>>>" ++ check (runes_of_ascii "root packet i64_{	}
")).
Eval vm_compute in ("<<<M2596>>>" ++ check (runes_of_ascii "packet A { B { }, }")).
Eval vm_compute in ("<<<M2775>>>" ++ check ([16]%N ++ runes_of_ascii "t" ++ [65533; 65533; 65533]%N ++ runes_of_ascii "N" ++ [65533; 65533]%N ++ runes_of_ascii "c" ++ [65533; 2]%N ++ runes_of_ascii "Y" ++ [65533]%N ++ runes_of_ascii "M+" ++ [65533; 65533]%N)).
Eval vm_compute in ("<<<M3140>>>" ++ check (runes_of_ascii "packet A {
}
// c" ++ [6158]%N)).
Eval vm_compute in ("<<<M3108>>>" ++ check (runes_of_ascii "packet A {
}// c" ++ [8287]%N)).
Eval vm_compute in ("<<<M2567>>>" ++ check (runes_of_ascii "packet A { u8 }")).
Eval vm_compute in ("<<<M958>>>" ++ check (runes_of_ascii "options	{ }
")).
Eval vm_compute in ("<<<M2637>>>" ++ check (runes_of_ascii "packet A }")).
Eval vm_compute in ("<<<M1680>>>" ++ check (runes_of_ascii "options")).
Eval vm_compute in ("<<<M2744>>>" ++ check ([65533]%N ++ runes_of_ascii ")i}" ++ [65533]%N ++ runes_of_ascii ")")).
Eval vm_compute in ("<<<M3074>>>" ++ check (runes_of_ascii "// c" ++ [133]%N)).
Eval vm_compute in ("<<<M2526>>>" ++ check (runes_of_ascii "12ab")).
Eval vm_compute in ("<<<M2533>>>" ++ check (runes_of_ascii "a.b")).
Eval vm_compute in ("<<<M2537>>>" ++ check (runes_of_ascii "_1")).
