From FP Require Import Lexer Parser ShowPT Digest.
From Coq Require Import String List NArith.
Import ListNotations.
Open Scope string_scope.
Set Printing Width 100000000.
Set Printing Depth 100000000.
Definition nl : string := String (Ascii.ascii_of_nat 10) EmptyString.
Definition model_lex (rs : list rune) : string := show_toks (lex rs).
Definition model_parse (rs : list rune) : string :=
  show_pt (match lex rs with Some ts => parse ts | None => None end).
(* coqc is slow at printing long strings: digests first (Digest.v), full texts on demand *)
Definition check (rs : list rune) : string :=
  digest (model_lex rs) ++ " " ++ digest (model_parse rs).
Definition full (rs : list rune) : string := model_lex rs ++ nl ++ model_parse rs.
Definition terms (ts : list tok) (t : pt) : string :=
  digest (show_toks (Some ts)) ++ " " ++ digest (show_pt (Some t)) ++ " " ++ digest (show_pt (parse ts)).
Definition terms_full (ts : list tok) (t : pt) : string :=
  show_toks (Some ts) ++ nl ++ show_pt (Some t) ++ nl ++ show_pt (parse ts).
Eval vm_compute in ("<<<M10>>>" ++ check (runes_of_ascii "
options{
crc
// " ++ [128512]%N ++ runes_of_ascii " emoji
// trailing space 
= uint8} packet len {uint8x @calculatedFrom( ""x y"" ), @lengthOf(
    rootA  )
    @lengthOf( body
// `tick` ""quote"" 'q'
// `tick` ""quote"" 'q'
)@calculatedFrom(  ""x y""
) Packet  @calculatedFrom(// `tick` ""quote"" 'q'
""\n"" )
`
`
, Packet ,  repeat
    // trailing space 
    i8	Z9_ , @tag(255 )
falsey `
` ,	i64 int `line1
line2` ,@calculatedFrom(
    ""\n""
// packet A { u8 x, }
/// triple
) @leftPad()
@calculatedFrom(//	t
""abc"" )// packet A { u8 x, }
BodyLength ,uint8 u , @calculatedFrom(
    ""a\""b""
) @lengthOf( metadata ) @rightPad (' ') // packet A { u8 x, }
char[10] f32a , }  packet repeatCount { }options  {
string_ =  i32 ;
o =	""a	b"" ;
    i8i8	=
    ""a\""b"" ; uint8x =
uint16
    // " ++ [128512]%N ++ runes_of_ascii " emoji
    ;
}")).
Eval vm_compute in ("<<<M42>>>" ++ check (runes_of_ascii "MetaData crc
{ } // @lengthOf(")).
Eval vm_compute in ("<<<M74>>>" ++ check (runes_of_ascii "MetaData len //	t
{ f64 calculatedFrom , x_y_z	x
,} packet repeatCount { @lengthOf(pack ) match
x_y_z as o // " ++ [27880; 37322]%N ++ runes_of_ascii "
{ 7:
Header
// `tick` ""quote"" 'q'
// a // b
} , } options { lengthOf  = true; }
packet  leftPad
    {
    MetaDataX @lengthOf( T ) `two words` ,
    }")).
Eval vm_compute in ("<<<M106>>>" ++ check (runes_of_ascii "
options {
a1/// triple
=""1""
;
trueish	=  i64 ; stringy=""" ++ [128512]%N ++ runes_of_ascii """
; u8x
= 255 ;
u128
=
""`tick`""; }

")).
Eval vm_compute in ("<<<M138>>>" ++ check (runes_of_ascii "

// c
")).
Eval vm_compute in ("<<<M170>>>" ++ check (runes_of_ascii "packet
    // `tick` ""quote"" 'q'
    u8x {} packet calculatedFrom
    {
    i8i8
len
,
    match lengthOf as leftPad
{ 007
    : crc
, ""abc"": o 10 : falsey
    } , repeat  i8
metadata  , @calculatedFrom(""" ++ [28040; 24687]%N ++ runes_of_ascii """ ) repeat int16
leftPad
    // trailing space 
    ``
    ,BodyLength
    @calculatedFrom(  ""a\\""
    ) ,
char[] f32a,
    tag// packet A { u8 x, }
rootA
, @rightPad (
    // " ++ [27880; 37322]%N ++ runes_of_ascii "
    ' ' ) @tag( 007 ) match o as
    // " ++ [27880; 37322]%N ++ runes_of_ascii "
    _x { [ 1
    // " ++ [27880; 37322]%N ++ runes_of_ascii "
    ,
""a	b""
, ""1"" ,
00 ,7
// " ++ [128512]%N ++ runes_of_ascii " emoji
//x
,""" ++ [233]%N ++ runes_of_ascii "t" ++ [233]%N ++ runes_of_ascii """
    ,
    // c
    7 ,00
    ]
    : Foo ,
    // " ++ [27880; 37322]%N ++ runes_of_ascii "
    ""\" ++ [233]%N ++ runes_of_ascii """// @lengthOf(
:  matchKey
    ,},//x
@rightPad (	'\x00' )string msg_type	, }
packet  trueish {u8x
``
, @lengthOf( Header
    )
    repeat int64 int	`` ,
} MetaData matchKey	{ string msg_type	, zchar[
    //	t
    4294967296
]
repeatCount `it's`
, u8
crc
, zchar
o ,int64 asx
, }root
packet chars{
    }
")).
Eval vm_compute in ("<<<M202>>>" ++ check (runes_of_ascii "packet i8i8// a // b
{ a1`{ , }` ,
// a // b
// " ++ [27880; 37322]%N ++ runes_of_ascii "
} //x")).
Eval vm_compute in ("<<<T202>>>" ++ terms [mkTok 35 "packet" 1 0 false; mkTok 42 "i8i8" 1 7 false; mkTok 44 "// a // b" 1 11 true; mkTok 2 "{" 2 0 false; mkTok 42 "a1" 2 2 false; mkTok 43 "`{ , }`" 2 4 false; mkTok 40 "," 2 12 false; mkTok 44 "// a // b" 3 0 true; mkTok 44 (string_of_bytes [47; 47; 32; 230; 179; 168; 233; 135; 138]%N) 4 0 true; mkTok 3 "}" 5 0 false; mkTok 44 "//x" 5 2 true; mkTok 0 "<EOF>" 5 5 false] (mkPacket (mkPtok 35 "packet" 1 0 0) (Some (mkPtok 3 "}" 5 0 9)) [(DPacket (mkPacketDef (mkSpan (mkPtok 35 "packet" 1 0 0) (mkPtok 3 "}" 5 0 9)) None (mkPtok 35 "packet" 1 0 0) (mkPtok 42 "i8i8" 1 7 1) (mkPtok 2 "{" 2 0 3) [(mkFieldWithAttr (mkSpan (mkPtok 42 "a1" 2 2 4) (mkPtok 40 "," 2 12 6)) [] (ObjectField (mkSpan (mkPtok 42 "a1" 2 2 4) (mkPtok 40 "," 2 12 6)) None (mkPtok 42 "a1" 2 2 4) None (Some (mkPtok 43 "`{ , }`" 2 4 5)) (mkPtok 40 "," 2 12 6)))] (mkPtok 3 "}" 5 0 9)))])).
Eval vm_compute in ("<<<M234>>>" ++ check (runes_of_ascii "
MetaData options1 { zchar[
    007 ] // `tick` ""quote"" 'q'
zchar	`a\` , uint32 As ,
    i8i8
Foo ,
// packet A { u8 x, }
//x
}
    packet falsey { }")).
Eval vm_compute in ("<<<M266>>>" ++ check (runes_of_ascii "packet
Pad // " ++ [27880; 37322]%N ++ runes_of_ascii "
{ @tag(	65535 )repeat char[
    //	t
    4294967296 ] o
    `u8 x,`  ,
@calculatedFrom(""x y"" )
metadata // c
@lengthOf(repeatCount )`tab	here`	,} packet u128 {
// packet A { u8 x, }
// " ++ [128512]%N ++ runes_of_ascii " emoji
repeat // " ++ [128512]%N ++ runes_of_ascii " emoji
zchar[
10 ]_x// " ++ [27880; 37322]%N ++ runes_of_ascii "
, /// triple
}
options
{ /// triple
msg_type
= true ;}packet tag {// c
@tag(7 ) i32
f32a @lengthOf( u8x)
`two words`
,
string
Foo  @lengthOf( Foo ) ,
@rightPad(
'0' ) match As as
// @lengthOf(
// `tick` ""quote"" 'q'
crc // a // b
{"""": float , //	t
} , repeat i16 i8i8 , @rightPad/// triple
(
    '0' ) repeat u128
    { i64 tag
@calculatedFrom( """ ++ [28040; 24687]%N ++ runes_of_ascii """ ) ,i8i8
@calculatedFrom( // " ++ [27880; 37322]%N ++ runes_of_ascii "
""{,}""
)`it's` , repeat string
    rootA /// triple
, }, repeat string
chars,
    asx, match calculatedFrom as
calculatedFrom {
    ""a\""b"" :  Logon ""a	b"" : asx } , char zchar @calculatedFrom( ""1""
    )
    `say ""hi""`
    ,  }
")).
Eval vm_compute in ("<<<M298>>>" ++ check (runes_of_ascii "MetaData
Header { int64
zchar
`u8 x,` , Header u8x ,  zchar[ 65535]u ,	A options1
`it's` , zchar[  007 ] MetaDataX , zchar[// `tick` ""quote"" 'q'
0] As , }
    MetaData Logon	{char[] rootA,
} packet int
{
f32 falsey, } MetaData float { len
leftPad ,
    A
    Foo
`tab	here`
    , char[ 65535
] T
`line1
line2` ,	} options // " ++ [128512]%N ++ runes_of_ascii " emoji
{
// " ++ [128512]%N ++ runes_of_ascii " emoji
// " ++ [27880; 37322]%N ++ runes_of_ascii "
float
    ='0'
//x
// a // b
;float
= true
    ;	Foo = ""\n""}")).
Eval vm_compute in ("<<<M330>>>" ++ check (runes_of_ascii "MetaData As{ }")).
Eval vm_compute in ("<<<M362>>>" ++ check (runes_of_ascii "// `tick` ""quote"" 'q'
root	packet /// triple
As { }packet x_y_z{@rightPad (
) @tag( 42 )
    @rightPad (' ' ) repeat f32a charz ,match Header as// a // b
stringy { [ 1	,	4294967296 ]// packet A { u8 x, }
: rootA ,
0123456789 : x_y_z
    , [
    65535
, 255]	:
/// triple
// a // b
metadata ,
[	7 , """ ++ [233]%N ++ runes_of_ascii "t" ++ [233]%N ++ runes_of_ascii """, ""{,}"" ,""{,}"" ] : T
// trailing space 
// " ++ [27880; 37322]%N ++ runes_of_ascii "
,""packet"" :
    chars , // trailing space 
[ 42
    , //
00] : Logon,} ,repeat i8i8 {
tag @calculatedFrom(// " ++ [27880; 37322]%N ++ runes_of_ascii "
""" ++ [128512]%N ++ runes_of_ascii """ )`{ , }` , }
,Z9_ @lengthOf(
    Packet
    // @lengthOf(
    ) ,
    // trailing space 
    lengthOf
    ,
trueish {
zchar[ 007/// triple
]
    packetx, zchar[ 0123456789
] MetaDataX `// not a comment`
, rootA @lengthOf(Z9_)
    `" ++ [233]%N ++ runes_of_ascii "`, }
,	} root// a // b
packet u8x { float64 len@calculatedFrom( ""packet"" )
//
// " ++ [27880; 37322]%N ++ runes_of_ascii "
, u8 calculatedFrom , @calculatedFrom( ""a\""b""
) @calculatedFrom( ""\n"") // trailing space 
@lengthOf(
    Foo ) Logon @lengthOf(	i8i8) , // trailing space 
@calculatedFrom(
""a\\"") falsey@calculatedFrom(
""" ++ [233]%N ++ runes_of_ascii "t" ++ [233]%N ++ runes_of_ascii """)`line1
line2` ,@leftPad('\x00' )
    // c
    match
i64_	as
    // c
    i64_{ [
    0123456789 ] :  a1
,[ ""1"" ,
3 , //
3 , 7 , 0
] :string_ ,
    """"// `tick` ""quote"" 'q'
:
    i64_ , }, @lengthOf( As )
    // packet A { u8 x, }
    T{zchar[ 0] roots
@lengthOf(
options1 )
    , /// triple
u16 pack
    ,//
} ,/// triple
string// `tick` ""quote"" 'q'
x	`crlf
line`
, }")).
Eval vm_compute in ("<<<M394>>>" ++ check (runes_of_ascii "//
packet u8x{
    }	packet
    crc { }")).
Eval vm_compute in ("<<<M426>>>" ++ check (runes_of_ascii "// " ++ [128512]%N ++ runes_of_ascii " emoji
packet
    roots
{x_y_z @lengthOf(
    u128
) ,
    @calculatedFrom( ""it's"")match
a1
as
    Pad
{ ""`tick`"" : x_y_z ,1
: leftPad 00
:
u8x
7 //x
:falsey , ""1"" :Packet ,
//x
// trailing space 
""`tick`""
    : As//x
}	, @tag(	007 )  char[]MetaDataX ,string chars @calculatedFrom( ""`tick`"" )
    , } root packet calculatedFrom
    { repeat zchar[ 255 ] matchKey `doc` , char[ 4294967296 ]  options1 @lengthOf(
stringy//	t
) , } // a // b")).
Eval vm_compute in ("<<<T426>>>" ++ terms [mkTok 44 (string_of_bytes [47; 47; 32; 240; 159; 152; 128; 32; 101; 109; 111; 106; 105]%N) 1 0 true; mkTok 35 "packet" 2 0 false; mkTok 42 "roots" 3 4 false; mkTok 2 "{" 4 0 false; mkTok 42 "x_y_z" 4 1 false; mkTok 7 "@lengthOf(" 4 7 false; mkTok 42 "u128" 5 4 false; mkTok 6 ")" 6 0 false; mkTok 40 "," 6 2 false; mkTok 5 "@calculatedFrom(" 7 4 false; mkTok 31 """it's""" 7 21 false; mkTok 6 ")" 7 27 false; mkTok 38 "match" 7 28 false; mkTok 42 "a1" 8 0 false; mkTok 17 "as" 9 0 false; mkTok 42 "Pad" 10 4 false; mkTok 2 "{" 11 0 false; mkTok 31 """`tick`""" 11 2 false; mkTok 39 ":" 11 11 false; mkTok 42 "x_y_z" 11 13 false; mkTok 40 "," 11 19 false; mkTok 30 "1" 11 20 false; mkTok 39 ":" 12 0 false; mkTok 42 "leftPad" 12 2 false; mkTok 30 "00" 12 10 false; mkTok 39 ":" 13 0 false; mkTok 42 "u8x" 14 0 false; mkTok 30 "7" 15 0 false; mkTok 44 "//x" 15 2 true; mkTok 39 ":" 16 0 false; mkTok 42 "falsey" 16 1 false; mkTok 40 "," 16 8 false; mkTok 31 """1""" 16 10 false; mkTok 39 ":" 16 14 false; mkTok 42 "Packet" 16 15 false; mkTok 40 "," 16 22 false; mkTok 44 "//x" 17 0 true; mkTok 44 "// trailing space " 18 0 true; mkTok 31 """`tick`""" 19 0 false; mkTok 39 ":" 20 4 false; mkTok 42 "As" 20 6 false; mkTok 44 "//x" 20 8 true; mkTok 3 "}" 21 0 false; mkTok 40 "," 21 2 false; mkTok 9 "@tag(" 21 4 false; mkTok 30 "007" 21 10 false; mkTok 6 ")" 21 14 false; mkTok 16 "char[]" 21 17 false; mkTok 42 "MetaDataX" 21 23 false; mkTok 40 "," 21 33 false; mkTok 15 "string" 21 34 false; mkTok 42 "chars" 21 41 false; mkTok 5 "@calculatedFrom(" 21 47 false; mkTok 31 """`tick`""" 21 64 false; mkTok 6 ")" 21 73 false; mkTok 40 "," 22 4 false; mkTok 3 "}" 22 6 false; mkTok 34 "root" 22 8 false; mkTok 35 "packet" 22 13 false; mkTok 42 "calculatedFrom" 22 20 false; mkTok 2 "{" 23 4 false; mkTok 36 "repeat" 23 6 false; mkTok 14 "zchar[" 23 13 false; mkTok 30 "255" 23 20 false; mkTok 13 "]" 23 24 false; mkTok 42 "matchKey" 23 26 false; mkTok 43 "`doc`" 23 35 false; mkTok 40 "," 23 41 false; mkTok 12 "char[" 23 43 false; mkTok 30 "4294967296" 23 49 false; mkTok 13 "]" 23 60 false; mkTok 42 "options1" 23 63 false; mkTok 7 "@lengthOf(" 23 72 false; mkTok 42 "stringy" 24 0 false; mkTok 44 (string_of_bytes [47; 47; 9; 116]%N) 24 7 true; mkTok 6 ")" 25 0 false; mkTok 40 "," 25 2 false; mkTok 3 "}" 25 4 false; mkTok 44 "// a // b" 25 6 true; mkTok 0 "<EOF>" 25 15 false] (mkPacket (mkPtok 35 "packet" 2 0 1) (Some (mkPtok 3 "}" 25 4 77)) [(DPacket (mkPacketDef (mkSpan (mkPtok 35 "packet" 2 0 1) (mkPtok 3 "}" 22 6 56)) None (mkPtok 35 "packet" 2 0 1) (mkPtok 42 "roots" 3 4 2) (mkPtok 2 "{" 4 0 3) [(mkFieldWithAttr (mkSpan (mkPtok 42 "x_y_z" 4 1 4) (mkPtok 40 "," 6 2 8)) [] (LengthField (mkSpan (mkPtok 42 "x_y_z" 4 1 4) (mkPtok 40 "," 6 2 8)) (mkLengthFieldDecl (mkSpan (mkPtok 42 "x_y_z" 4 1 4) (mkPtok 40 "," 6 2 8)) None (mkPtok 42 "x_y_z" 4 1 4) (mkLengthOf (mkSpan (mkPtok 7 "@lengthOf(" 4 7 5) (mkPtok 6 ")" 6 0 7)) (mkPtok 7 "@lengthOf(" 4 7 5) (mkPtok 42 "u128" 5 4 6) (mkPtok 6 ")" 6 0 7)) None (mkPtok 40 "," 6 2 8)))); (mkFieldWithAttr (mkSpan (mkPtok 5 "@calculatedFrom(" 7 4 9) (mkPtok 40 "," 21 2 43)) [(FACalculatedFrom (mkSpan (mkPtok 5 "@calculatedFrom(" 7 4 9) (mkPtok 6 ")" 7 27 11)) (mkCalculatedFrom (mkSpan (mkPtok 5 "@calculatedFrom(" 7 4 9) (mkPtok 6 ")" 7 27 11)) (mkPtok 5 "@calculatedFrom(" 7 4 9) (mkPtok 31 """it's""" 7 21 10) (mkPtok 6 ")" 7 27 11)))] (MatchField (mkSpan (mkPtok 38 "match" 7 28 12) (mkPtok 40 "," 21 2 43)) (mkMatchFieldDecl (mkSpan (mkPtok 38 "match" 7 28 12) (mkPtok 3 "}" 21 0 42)) (mkPtok 38 "match" 7 28 12) (mkPtok 42 "a1" 8 0 13) (mkPtok 17 "as" 9 0 14) (mkPtok 42 "Pad" 10 4 15) (mkPtok 2 "{" 11 0 16) [(mkMatchPair (mkSpan (mkPtok 31 """`tick`""" 11 2 17) (mkPtok 40 "," 11 19 20)) (MKString (mkPtok 31 """`tick`""" 11 2 17)) (mkPtok 39 ":" 11 11 18) (mkPtok 42 "x_y_z" 11 13 19) (Some (mkPtok 40 "," 11 19 20))); (mkMatchPair (mkSpan (mkPtok 30 "1" 11 20 21) (mkPtok 42 "leftPad" 12 2 23)) (MKDigits (mkPtok 30 "1" 11 20 21)) (mkPtok 39 ":" 12 0 22) (mkPtok 42 "leftPad" 12 2 23) None); (mkMatchPair (mkSpan (mkPtok 30 "00" 12 10 24) (mkPtok 42 "u8x" 14 0 26)) (MKDigits (mkPtok 30 "00" 12 10 24)) (mkPtok 39 ":" 13 0 25) (mkPtok 42 "u8x" 14 0 26) None); (mkMatchPair (mkSpan (mkPtok 30 "7" 15 0 27) (mkPtok 40 "," 16 8 31)) (MKDigits (mkPtok 30 "7" 15 0 27)) (mkPtok 39 ":" 16 0 29) (mkPtok 42 "falsey" 16 1 30) (Some (mkPtok 40 "," 16 8 31))); (mkMatchPair (mkSpan (mkPtok 31 """1""" 16 10 32) (mkPtok 40 "," 16 22 35)) (MKString (mkPtok 31 """1""" 16 10 32)) (mkPtok 39 ":" 16 14 33) (mkPtok 42 "Packet" 16 15 34) (Some (mkPtok 40 "," 16 22 35))); (mkMatchPair (mkSpan (mkPtok 31 """`tick`""" 19 0 38) (mkPtok 42 "As" 20 6 40)) (MKString (mkPtok 31 """`tick`""" 19 0 38)) (mkPtok 39 ":" 20 4 39) (mkPtok 42 "As" 20 6 40) None)] (mkPtok 3 "}" 21 0 42)) (mkPtok 40 "," 21 2 43))); (mkFieldWithAttr (mkSpan (mkPtok 9 "@tag(" 21 4 44) (mkPtok 40 "," 21 33 49)) [(FATag (mkSpan (mkPtok 9 "@tag(" 21 4 44) (mkPtok 6 ")" 21 14 46)) (mkTagAttr (mkSpan (mkPtok 9 "@tag(" 21 4 44) (mkPtok 6 ")" 21 14 46)) (mkPtok 9 "@tag(" 21 4 44) (mkPtok 30 "007" 21 10 45) (mkPtok 6 ")" 21 14 46)))] (MetaField (mkSpan (mkPtok 16 "char[]" 21 17 47) (mkPtok 40 "," 21 33 49)) None (mkMetaDecl (mkSpan (mkPtok 16 "char[]" 21 17 47) (mkPtok 40 "," 21 33 49)) (TyDynamic (mkSpan (mkPtok 16 "char[]" 21 17 47) (mkPtok 16 "char[]" 21 17 47)) (mkDynamicString (mkSpan (mkPtok 16 "char[]" 21 17 47) (mkPtok 16 "char[]" 21 17 47)) (mkPtok 16 "char[]" 21 17 47))) (mkPtok 42 "MetaDataX" 21 23 48) None (mkPtok 40 "," 21 33 49)))); (mkFieldWithAttr (mkSpan (mkPtok 15 "string" 21 34 50) (mkPtok 40 "," 22 4 55)) [] (CheckSumField (mkSpan (mkPtok 15 "string" 21 34 50) (mkPtok 40 "," 22 4 55)) (mkChecksumFieldDecl (mkSpan (mkPtok 15 "string" 21 34 50) (mkPtok 40 "," 22 4 55)) (Some (TyDynamic (mkSpan (mkPtok 15 "string" 21 34 50) (mkPtok 15 "string" 21 34 50)) (mkDynamicString (mkSpan (mkPtok 15 "string" 21 34 50) (mkPtok 15 "string" 21 34 50)) (mkPtok 15 "string" 21 34 50)))) (mkPtok 42 "chars" 21 41 51) (mkCalculatedFrom (mkSpan (mkPtok 5 "@calculatedFrom(" 21 47 52) (mkPtok 6 ")" 21 73 54)) (mkPtok 5 "@calculatedFrom(" 21 47 52) (mkPtok 31 """`tick`""" 21 64 53) (mkPtok 6 ")" 21 73 54)) None (mkPtok 40 "," 22 4 55))))] (mkPtok 3 "}" 22 6 56))); (DPacket (mkPacketDef (mkSpan (mkPtok 34 "root" 22 8 57) (mkPtok 3 "}" 25 4 77)) (Some (mkPtok 34 "root" 22 8 57)) (mkPtok 35 "packet" 22 13 58) (mkPtok 42 "calculatedFrom" 22 20 59) (mkPtok 2 "{" 23 4 60) [(mkFieldWithAttr (mkSpan (mkPtok 36 "repeat" 23 6 61) (mkPtok 40 "," 23 41 67)) [] (MetaField (mkSpan (mkPtok 36 "repeat" 23 6 61) (mkPtok 40 "," 23 41 67)) (Some (mkPtok 36 "repeat" 23 6 61)) (mkMetaDecl (mkSpan (mkPtok 14 "zchar[" 23 13 62) (mkPtok 40 "," 23 41 67)) (TyFixed (mkSpan (mkPtok 14 "zchar[" 23 13 62) (mkPtok 13 "]" 23 24 64)) (mkFixedString (mkSpan (mkPtok 14 "zchar[" 23 13 62) (mkPtok 13 "]" 23 24 64)) (mkPtok 14 "zchar[" 23 13 62) (mkPtok 30 "255" 23 20 63) (mkPtok 13 "]" 23 24 64))) (mkPtok 42 "matchKey" 23 26 65) (Some (mkPtok 43 "`doc`" 23 35 66)) (mkPtok 40 "," 23 41 67)))); (mkFieldWithAttr (mkSpan (mkPtok 12 "char[" 23 43 68) (mkPtok 40 "," 25 2 76)) [] (LengthField (mkSpan (mkPtok 12 "char[" 23 43 68) (mkPtok 40 "," 25 2 76)) (mkLengthFieldDecl (mkSpan (mkPtok 12 "char[" 23 43 68) (mkPtok 40 "," 25 2 76)) (Some (TyFixed (mkSpan (mkPtok 12 "char[" 23 43 68) (mkPtok 13 "]" 23 60 70)) (mkFixedString (mkSpan (mkPtok 12 "char[" 23 43 68) (mkPtok 13 "]" 23 60 70)) (mkPtok 12 "char[" 23 43 68) (mkPtok 30 "4294967296" 23 49 69) (mkPtok 13 "]" 23 60 70)))) (mkPtok 42 "options1" 23 63 71) (mkLengthOf (mkSpan (mkPtok 7 "@lengthOf(" 23 72 72) (mkPtok 6 ")" 25 0 75)) (mkPtok 7 "@lengthOf(" 23 72 72) (mkPtok 42 "stringy" 24 0 73) (mkPtok 6 ")" 25 0 75)) None (mkPtok 40 "," 25 2 76))))] (mkPtok 3 "}" 25 4 77)))])).
Eval vm_compute in ("<<<M458>>>" ++ check (runes_of_ascii "packet A {Logon// @lengthOf(
o
,	u8x{ // @lengthOf(
asx // " ++ [27880; 37322]%N ++ runes_of_ascii "
chars, }
    , x o
,@leftPad
    ( )// trailing space 
As
// c
//x
@lengthOf(
u)	,}MetaData f32a{crc
    Logon ,}	root packet
    u128 {stringy Logon// " ++ [128512]%N ++ runes_of_ascii " emoji
`a\`, @calculatedFrom( // c
""1""
)	@leftPad
    // a // b
    ( '\x00' ) @tag(255 )int64 stringy @lengthOf(lengthOf //	t
) `line1
line2`, rootA `
`,@calculatedFrom( ""a	b""
    )// packet A { u8 x, }
o
@calculatedFrom(  ""`tick`"" ) // @lengthOf(
`a\`
, repeatCount @lengthOf(
    T ) // @lengthOf(
, }
")).
Eval vm_compute in ("<<<M490>>>" ++ check (runes_of_ascii "packet x_y_z {msg_type {  char[]Z9_ @lengthOf( Packet
    ) `` , }, } // packet A { u8 x, }")).
Eval vm_compute in ("<<<M522>>>" ++ check (runes_of_ascii "MetaData pack{
    }
packet i64_ {
    uint16 T , // a // b
} 	 ")).
Eval vm_compute in ("<<<M554>>>" ++ check (runes_of_ascii "// `tick` ""quote"" 'q'
packet msg_type {
    // c
    uint8 leftPad ,  } packet roots {@tag(  3 )
// a // b
// `tick` ""quote"" 'q'
string_ //x
@lengthOf(body )
,  Header@lengthOf( Z9_
//x
/// triple
) , repeat zchar[ 007 ] roots	,	string_
msg_type `crlf
line` , Logon // c
@lengthOf(	pack // c
)
`say ""hi""` ,@rightPad ( '\x00' )
@leftPad
    // a // b
    ( '0' )
    repeat u8 float `it's` /// triple
, @calculatedFrom( ""\n"" )	@lengthOf(  falsey // " ++ [128512]%N ++ runes_of_ascii " emoji
)
    msg_type{ match
Packet
    as tag
{[
    10 ,
007 //x
]
    :int , 4294967296
    : //
asx
,} ,
uint32 string_ @lengthOf(
    _x ) `two words`
    //x
    ,
    _x
    //
    , } ,	f32a {f32 body , uint16  u128 ,
matchKey	@lengthOf(Packet ) , } ,
repeat
    zchar[
0123456789 ] // a // b
float `say ""hi""` ,f32 i8i8 `{ , }`, } root packet	options1 {@tag( 0
    )
packetx
, repeat
float64 BodyLength , }
    options { Pad =
    // packet A { u8 x, }
    true
// a // b
/// triple
; crc = 007; // @lengthOf(
}
MetaData packetx{ roots  Packet  `tab	here` , // " ++ [128512]%N ++ runes_of_ascii " emoji
asx
    len , }

")).
Eval vm_compute in ("<<<M586>>>" ++ check (runes_of_ascii "packet repeatCount
    { i64 falsey	,char[ 65535
]
calculatedFrom  @lengthOf( calculatedFrom
),int32
    repeatCount ,  @tag( 4294967296 ) repeat matchKey { repeat
int64 rootA , match Packet as BodyLength
    {[ 10]:
repeatCount
,""a\\""
    :	msg_type,  [ ""CRC32"",
    00
] : calculatedFrom , 7
    :
lengthOf
, // " ++ [128512]%N ++ runes_of_ascii " emoji
42 : Header // packet A { u8 x, }
, [ ""it's"" , ""\n""	,  65535
, ""`tick`"" ,0 , 65535
, ""{,}"",255 ]://
T ,
} ,} , @calculatedFrom(
""{,}""
) match asx
as metadata
    {
3
: Z9_, ""`tick`""
:
    // @lengthOf(
    string_
} // `tick` ""quote"" 'q'
,@rightPad ( '0' ) int8 u128 , @tag( // `tick` ""quote"" 'q'
3 ) repeat  i8 x_y_z `it's`,
    @lengthOf(chars )  @calculatedFrom(//
""" ++ [28040; 24687]%N ++ runes_of_ascii """)string float	, }
    packet zchar
    {match uint8x
    //	t
    as f32a
    {[ ""`tick`"" , ""CRC32"" ]
: repeatCount ,[
    00
, ""x y"", 255 , 255 ,
    1, 7 ,	007 ,
    7
]
    :	tag, ""{,}"": leftPad
    ,  007 : len , //x
},
@calculatedFrom( ""CRC32""  ) @lengthOf(
x )@calculatedFrom(""\" ++ [233]%N ++ runes_of_ascii """) char[
65535] string_ , }options { }
    MetaData u128
    // c
    {
// c
/// triple
trueish tag
// c
// a // b
, packetx i8i8 , f64 x_y_z//
, //x
trueish u128 , x Header `say ""hi""` , zchar[ 0
    // `tick` ""quote"" 'q'
    ] A, } MetaData i64_
    { }")).
Eval vm_compute in ("<<<M618>>>" ++ check (runes_of_ascii "
")).
Eval vm_compute in ("<<<M650>>>" ++ check (runes_of_ascii "options
{ stringy=
    '0' ; body// `tick` ""quote"" 'q'
=  ""// no comment"" ; pack
    =
char[] } options
{
x =65535 } //x")).
Eval vm_compute in ("<<<T650>>>" ++ terms [mkTok 1 "options" 1 0 false; mkTok 2 "{" 2 0 false; mkTok 42 "stringy" 2 2 false; mkTok 4 "=" 2 9 false; mkTok 33 "'0'" 3 4 false; mkTok 41 ";" 3 8 false; mkTok 42 "body" 3 10 false; mkTok 44 "// `tick` ""quote"" 'q'" 3 14 true; mkTok 4 "=" 4 0 false; mkTok 31 """// no comment""" 4 3 false; mkTok 41 ";" 4 19 false; mkTok 42 "pack" 4 21 false; mkTok 4 "=" 5 4 false; mkTok 16 "char[]" 6 0 false; mkTok 3 "}" 6 7 false; mkTok 1 "options" 6 9 false; mkTok 2 "{" 7 0 false; mkTok 42 "x" 8 0 false; mkTok 4 "=" 8 2 false; mkTok 30 "65535" 8 3 false; mkTok 3 "}" 8 9 false; mkTok 44 "//x" 8 11 true; mkTok 0 "<EOF>" 8 14 false] (mkPacket (mkPtok 1 "options" 1 0 0) (Some (mkPtok 3 "}" 8 9 20)) [(DOption (mkOptionDef (mkSpan (mkPtok 1 "options" 1 0 0) (mkPtok 3 "}" 6 7 14)) (mkPtok 1 "options" 1 0 0) (mkPtok 2 "{" 2 0 1) [(mkOptionDecl (mkSpan (mkPtok 42 "stringy" 2 2 2) (mkPtok 41 ";" 3 8 5)) (mkPtok 42 "stringy" 2 2 2) (mkPtok 4 "=" 2 9 3) (VPaddingChar (mkSpan (mkPtok 33 "'0'" 3 4 4) (mkPtok 33 "'0'" 3 4 4)) (mkPtok 33 "'0'" 3 4 4)) (Some (mkPtok 41 ";" 3 8 5))); (mkOptionDecl (mkSpan (mkPtok 42 "body" 3 10 6) (mkPtok 41 ";" 4 19 10)) (mkPtok 42 "body" 3 10 6) (mkPtok 4 "=" 4 0 8) (VString (mkSpan (mkPtok 31 """// no comment""" 4 3 9) (mkPtok 31 """// no comment""" 4 3 9)) (mkPtok 31 """// no comment""" 4 3 9)) (Some (mkPtok 41 ";" 4 19 10))); (mkOptionDecl (mkSpan (mkPtok 42 "pack" 4 21 11) (mkPtok 16 "char[]" 6 0 13)) (mkPtok 42 "pack" 4 21 11) (mkPtok 4 "=" 5 4 12) (VType (mkSpan (mkPtok 16 "char[]" 6 0 13) (mkPtok 16 "char[]" 6 0 13)) (TyDynamic (mkSpan (mkPtok 16 "char[]" 6 0 13) (mkPtok 16 "char[]" 6 0 13)) (mkDynamicString (mkSpan (mkPtok 16 "char[]" 6 0 13) (mkPtok 16 "char[]" 6 0 13)) (mkPtok 16 "char[]" 6 0 13)))) None)] (mkPtok 3 "}" 6 7 14))); (DOption (mkOptionDef (mkSpan (mkPtok 1 "options" 6 9 15) (mkPtok 3 "}" 8 9 20)) (mkPtok 1 "options" 6 9 15) (mkPtok 2 "{" 7 0 16) [(mkOptionDecl (mkSpan (mkPtok 42 "x" 8 0 17) (mkPtok 30 "65535" 8 3 19)) (mkPtok 42 "x" 8 0 17) (mkPtok 4 "=" 8 2 18) (VDigits (mkSpan (mkPtok 30 "65535" 8 3 19) (mkPtok 30 "65535" 8 3 19)) (mkPtok 30 "65535" 8 3 19)) None)] (mkPtok 3 "}" 8 9 20)))])).
Eval vm_compute in ("<<<M682>>>" ++ check (runes_of_ascii "
packet charz {
repeat
zchar[
    // @lengthOf(
    007/// triple
]/// triple
falsey
    `line1
line2` ,
}	root packet
    leftPad {
x
    metadata
, }	packet
rootA { char[65535
    // c
    ]chars , } options { body
= ' '
}")).
Eval vm_compute in ("<<<M714>>>" ++ check (runes_of_ascii "packet calculatedFrom
{ u32	metadata @lengthOf( Logon
)
, }
")).
Eval vm_compute in ("<<<M746>>>" ++ check (runes_of_ascii "// `tick` ""quote"" 'q'
root packet u8x{match zchar as falsey
    { """ ++ [128512]%N ++ runes_of_ascii """:
    len	},}MetaData// c
rootA
{
    //
    char[
3 ] rootA , uint64
asx
    , }")).
Eval vm_compute in ("<<<M778>>>" ++ check (runes_of_ascii "options { options1 = float64
    ; } // " ++ [27880; 37322]%N)).
Eval vm_compute in ("<<<M810>>>" ++ check (runes_of_ascii "packet	i64_ { }options{
    } options { MetaDataX = ""CRC32""} // a // b")).
Eval vm_compute in ("<<<M842>>>" ++ check (runes_of_ascii "
options { } options {a1
= ' ' falsey
=
    //	t
    false ; f32a =10 ;
    // packet A { u8 x, }
    } packet u8x
    { repeat BodyLength	{ calculatedFrom// " ++ [128512]%N ++ runes_of_ascii " emoji
@calculatedFrom( ""{,}"" ) `{ , }` , uint8
MetaDataX `say ""hi""` // `tick` ""quote"" 'q'
,
    },}
MetaData matchKey
    {
i8 roots
    `
` ,
i64	rootA`say ""hi""` ,/// triple
f64
chars
    //x
    `" ++ [28040; 24687; 31867; 22411]%N ++ runes_of_ascii "` , zchar[ 3
// packet A { u8 x, }
//
] asx `" ++ [233]%N ++ runes_of_ascii "` // a // b
,
string msg_type	, }
")).
Eval vm_compute in ("<<<M874>>>" ++ check (runes_of_ascii "
options { }options
{ } options
{ }
    packet options1 {
/// triple
// @lengthOf(
repeat stringy repeatCount	, int64 rootA
    ,@lengthOf(
    T)
// trailing space 
// @lengthOf(
chars Foo `line1
line2`, i64_ , repeat tag roots, @calculatedFrom(""CRC32""
) //x
@calculatedFrom( """ ++ [233]%N ++ runes_of_ascii "t" ++ [233]%N ++ runes_of_ascii """)
a1 @calculatedFrom(
    /// triple
    ""1"" )`two words` , }options {Logon =false uint8x	= ""x y""
Header = ""a	b"" ;
    calculatedFrom= true
}
")).
Eval vm_compute in ("<<<T874>>>" ++ terms [mkTok 1 "options" 2 0 false; mkTok 2 "{" 2 8 false; mkTok 3 "}" 2 10 false; mkTok 1 "options" 2 11 false; mkTok 2 "{" 3 0 false; mkTok 3 "}" 3 2 false; mkTok 1 "options" 3 4 false; mkTok 2 "{" 4 0 false; mkTok 3 "}" 4 2 false; mkTok 35 "packet" 5 4 false; mkTok 42 "options1" 5 11 false; mkTok 2 "{" 5 20 false; mkTok 44 "/// triple" 6 0 true; mkTok 44 "// @lengthOf(" 7 0 true; mkTok 36 "repeat" 8 0 false; mkTok 42 "stringy" 8 7 false; mkTok 42 "repeatCount" 8 15 false; mkTok 40 "," 8 27 false; mkTok 27 "int64" 8 29 false; mkTok 42 "rootA" 8 35 false; mkTok 40 "," 9 4 false; mkTok 7 "@lengthOf(" 9 5 false; mkTok 42 "T" 10 4 false; mkTok 6 ")" 10 5 false; mkTok 44 "// trailing space " 11 0 true; mkTok 44 "// @lengthOf(" 12 0 true; mkTok 42 "chars" 13 0 false; mkTok 42 "Foo" 13 6 false; mkTok 43 (string_of_bytes [96; 108; 105; 110; 101; 49; 10; 108; 105; 110; 101; 50; 96]%N) 13 10 false; mkTok 40 "," 14 6 false; mkTok 42 "i64_" 14 8 false; mkTok 40 "," 14 13 false; mkTok 36 "repeat" 14 15 false; mkTok 42 "tag" 14 22 false; mkTok 42 "roots" 14 26 false; mkTok 40 "," 14 31 false; mkTok 5 "@calculatedFrom(" 14 33 false; mkTok 31 """CRC32""" 14 49 false; mkTok 6 ")" 15 0 false; mkTok 44 "//x" 15 2 true; mkTok 5 "@calculatedFrom(" 16 0 false; mkTok 31 (string_of_bytes [34; 195; 169; 116; 195; 169; 34]%N) 16 17 false; mkTok 6 ")" 16 22 false; mkTok 42 "a1" 17 0 false; mkTok 5 "@calculatedFrom(" 17 3 false; mkTok 44 "/// triple" 18 4 true; mkTok 31 """1""" 19 4 false; mkTok 6 ")" 19 8 false; mkTok 43 "`two words`" 19 9 false; mkTok 40 "," 19 21 false; mkTok 3 "}" 19 23 false; mkTok 1 "options" 19 24 false; mkTok 2 "{" 19 32 false; mkTok 42 "Logon" 19 33 false; mkTok 4 "=" 19 39 false; mkTok 11 "false" 19 40 false; mkTok 42 "uint8x" 19 46 false; mkTok 4 "=" 19 53 false; mkTok 31 """x y""" 19 55 false; mkTok 42 "Header" 20 0 false; mkTok 4 "=" 20 7 false; mkTok 31 (string_of_bytes [34; 97; 9; 98; 34]%N) 20 9 false; mkTok 41 ";" 20 15 false; mkTok 42 "calculatedFrom" 21 4 false; mkTok 4 "=" 21 18 false; mkTok 10 "true" 21 20 false; mkTok 3 "}" 22 0 false; mkTok 0 "<EOF>" 23 0 false] (mkPacket (mkPtok 1 "options" 2 0 0) (Some (mkPtok 3 "}" 22 0 66)) [(DOption (mkOptionDef (mkSpan (mkPtok 1 "options" 2 0 0) (mkPtok 3 "}" 2 10 2)) (mkPtok 1 "options" 2 0 0) (mkPtok 2 "{" 2 8 1) [] (mkPtok 3 "}" 2 10 2))); (DOption (mkOptionDef (mkSpan (mkPtok 1 "options" 2 11 3) (mkPtok 3 "}" 3 2 5)) (mkPtok 1 "options" 2 11 3) (mkPtok 2 "{" 3 0 4) [] (mkPtok 3 "}" 3 2 5))); (DOption (mkOptionDef (mkSpan (mkPtok 1 "options" 3 4 6) (mkPtok 3 "}" 4 2 8)) (mkPtok 1 "options" 3 4 6) (mkPtok 2 "{" 4 0 7) [] (mkPtok 3 "}" 4 2 8))); (DPacket (mkPacketDef (mkSpan (mkPtok 35 "packet" 5 4 9) (mkPtok 3 "}" 19 23 50)) None (mkPtok 35 "packet" 5 4 9) (mkPtok 42 "options1" 5 11 10) (mkPtok 2 "{" 5 20 11) [(mkFieldWithAttr (mkSpan (mkPtok 36 "repeat" 8 0 14) (mkPtok 40 "," 8 27 17)) [] (ObjectField (mkSpan (mkPtok 36 "repeat" 8 0 14) (mkPtok 40 "," 8 27 17)) (Some (mkPtok 36 "repeat" 8 0 14)) (mkPtok 42 "stringy" 8 7 15) (Some (mkPtok 42 "repeatCount" 8 15 16)) None (mkPtok 40 "," 8 27 17))); (mkFieldWithAttr (mkSpan (mkPtok 27 "int64" 8 29 18) (mkPtok 40 "," 9 4 20)) [] (MetaField (mkSpan (mkPtok 27 "int64" 8 29 18) (mkPtok 40 "," 9 4 20)) None (mkMetaDecl (mkSpan (mkPtok 27 "int64" 8 29 18) (mkPtok 40 "," 9 4 20)) (TyBasic (mkSpan (mkPtok 27 "int64" 8 29 18) (mkPtok 27 "int64" 8 29 18)) (mkBasicType (mkSpan (mkPtok 27 "int64" 8 29 18) (mkPtok 27 "int64" 8 29 18)) (mkPtok 27 "int64" 8 29 18))) (mkPtok 42 "rootA" 8 35 19) None (mkPtok 40 "," 9 4 20)))); (mkFieldWithAttr (mkSpan (mkPtok 7 "@lengthOf(" 9 5 21) (mkPtok 40 "," 14 6 29)) [(FALengthOf (mkSpan (mkPtok 7 "@lengthOf(" 9 5 21) (mkPtok 6 ")" 10 5 23)) (mkLengthOf (mkSpan (mkPtok 7 "@lengthOf(" 9 5 21) (mkPtok 6 ")" 10 5 23)) (mkPtok 7 "@lengthOf(" 9 5 21) (mkPtok 42 "T" 10 4 22) (mkPtok 6 ")" 10 5 23)))] (ObjectField (mkSpan (mkPtok 42 "chars" 13 0 26) (mkPtok 40 "," 14 6 29)) None (mkPtok 42 "chars" 13 0 26) (Some (mkPtok 42 "Foo" 13 6 27)) (Some (mkPtok 43 (string_of_bytes [96; 108; 105; 110; 101; 49; 10; 108; 105; 110; 101; 50; 96]%N) 13 10 28)) (mkPtok 40 "," 14 6 29))); (mkFieldWithAttr (mkSpan (mkPtok 42 "i64_" 14 8 30) (mkPtok 40 "," 14 13 31)) [] (ObjectField (mkSpan (mkPtok 42 "i64_" 14 8 30) (mkPtok 40 "," 14 13 31)) None (mkPtok 42 "i64_" 14 8 30) None None (mkPtok 40 "," 14 13 31))); (mkFieldWithAttr (mkSpan (mkPtok 36 "repeat" 14 15 32) (mkPtok 40 "," 14 31 35)) [] (ObjectField (mkSpan (mkPtok 36 "repeat" 14 15 32) (mkPtok 40 "," 14 31 35)) (Some (mkPtok 36 "repeat" 14 15 32)) (mkPtok 42 "tag" 14 22 33) (Some (mkPtok 42 "roots" 14 26 34)) None (mkPtok 40 "," 14 31 35))); (mkFieldWithAttr (mkSpan (mkPtok 5 "@calculatedFrom(" 14 33 36) (mkPtok 40 "," 19 21 49)) [(FACalculatedFrom (mkSpan (mkPtok 5 "@calculatedFrom(" 14 33 36) (mkPtok 6 ")" 15 0 38)) (mkCalculatedFrom (mkSpan (mkPtok 5 "@calculatedFrom(" 14 33 36) (mkPtok 6 ")" 15 0 38)) (mkPtok 5 "@calculatedFrom(" 14 33 36) (mkPtok 31 """CRC32""" 14 49 37) (mkPtok 6 ")" 15 0 38))); (FACalculatedFrom (mkSpan (mkPtok 5 "@calculatedFrom(" 16 0 40) (mkPtok 6 ")" 16 22 42)) (mkCalculatedFrom (mkSpan (mkPtok 5 "@calculatedFrom(" 16 0 40) (mkPtok 6 ")" 16 22 42)) (mkPtok 5 "@calculatedFrom(" 16 0 40) (mkPtok 31 (string_of_bytes [34; 195; 169; 116; 195; 169; 34]%N) 16 17 41) (mkPtok 6 ")" 16 22 42)))] (CheckSumField (mkSpan (mkPtok 42 "a1" 17 0 43) (mkPtok 40 "," 19 21 49)) (mkChecksumFieldDecl (mkSpan (mkPtok 42 "a1" 17 0 43) (mkPtok 40 "," 19 21 49)) None (mkPtok 42 "a1" 17 0 43) (mkCalculatedFrom (mkSpan (mkPtok 5 "@calculatedFrom(" 17 3 44) (mkPtok 6 ")" 19 8 47)) (mkPtok 5 "@calculatedFrom(" 17 3 44) (mkPtok 31 """1""" 19 4 46) (mkPtok 6 ")" 19 8 47)) (Some (mkPtok 43 "`two words`" 19 9 48)) (mkPtok 40 "," 19 21 49))))] (mkPtok 3 "}" 19 23 50))); (DOption (mkOptionDef (mkSpan (mkPtok 1 "options" 19 24 51) (mkPtok 3 "}" 22 0 66)) (mkPtok 1 "options" 19 24 51) (mkPtok 2 "{" 19 32 52) [(mkOptionDecl (mkSpan (mkPtok 42 "Logon" 19 33 53) (mkPtok 11 "false" 19 40 55)) (mkPtok 42 "Logon" 19 33 53) (mkPtok 4 "=" 19 39 54) (VFalse (mkSpan (mkPtok 11 "false" 19 40 55) (mkPtok 11 "false" 19 40 55)) (mkPtok 11 "false" 19 40 55)) None); (mkOptionDecl (mkSpan (mkPtok 42 "uint8x" 19 46 56) (mkPtok 31 """x y""" 19 55 58)) (mkPtok 42 "uint8x" 19 46 56) (mkPtok 4 "=" 19 53 57) (VString (mkSpan (mkPtok 31 """x y""" 19 55 58) (mkPtok 31 """x y""" 19 55 58)) (mkPtok 31 """x y""" 19 55 58)) None); (mkOptionDecl (mkSpan (mkPtok 42 "Header" 20 0 59) (mkPtok 41 ";" 20 15 62)) (mkPtok 42 "Header" 20 0 59) (mkPtok 4 "=" 20 7 60) (VString (mkSpan (mkPtok 31 (string_of_bytes [34; 97; 9; 98; 34]%N) 20 9 61) (mkPtok 31 (string_of_bytes [34; 97; 9; 98; 34]%N) 20 9 61)) (mkPtok 31 (string_of_bytes [34; 97; 9; 98; 34]%N) 20 9 61)) (Some (mkPtok 41 ";" 20 15 62))); (mkOptionDecl (mkSpan (mkPtok 42 "calculatedFrom" 21 4 63) (mkPtok 10 "true" 21 20 65)) (mkPtok 42 "calculatedFrom" 21 4 63) (mkPtok 4 "=" 21 18 64) (VTrue (mkSpan (mkPtok 10 "true" 21 20 65) (mkPtok 10 "true" 21 20 65)) (mkPtok 10 "true" 21 20 65)) None)] (mkPtok 3 "}" 22 0 66)))])).
Eval vm_compute in ("<<<M906>>>" ++ check (runes_of_ascii "packet zchar { @lengthOf( i8i8 ) int16
msg_type @lengthOf(
    // c
    As // `tick` ""quote"" 'q'
) `
`
,}
")).
Eval vm_compute in ("<<<M938>>>" ++ check (runes_of_ascii "packet Z9_ {  @tag( 4294967296
) char[255
    ]msg_type @calculatedFrom(
    ""abc""	),
uint16 x  `" ++ [28040; 24687; 31867; 22411]%N ++ runes_of_ascii "`, @rightPad (
'0' ) match len as Logon {
    7 : metadata , ""{,}"": u8x
,[ ""\n"", 65535 ,
65535 ]
// " ++ [128512]%N ++ runes_of_ascii " emoji
// " ++ [27880; 37322]%N ++ runes_of_ascii "
: int
    ,""a\""b"" :	leftPad} , zchar[ 42] rootA, @calculatedFrom(
// @lengthOf(
// " ++ [128512]%N ++ runes_of_ascii " emoji
""a\\"" ) zchar[42] A , Packet// trailing space 
{
    repeat //
u128 {repeat
chars{ tag  BodyLength , float32 calculatedFrom	`doc` ,match x as string_ {
""{,}""
:
x """"
: packetx	, } , }, } /// triple
,  }
// trailing space 
/// triple
,
    // `tick` ""quote"" 'q'
    @rightPad( ) options1
`u8 x,`
, repeat//
i32 repeatCount,@lengthOf(Foo )@calculatedFrom( ""packet"" )int32 As
    @lengthOf( Pad )
, }
packet As {@tag(  65535 /// triple
)int asx
    `line1
line2` , @calculatedFrom( """ ++ [28040; 24687]%N ++ runes_of_ascii """) @rightPad (
// " ++ [27880; 37322]%N ++ runes_of_ascii "
//	t
)int32
    // c
    leftPad
`" ++ [28040; 24687; 31867; 22411]%N ++ runes_of_ascii "` ,char[] zchar , string x_y_z
,  f64
// a // b
/// triple
repeatCount
    @calculatedFrom(
// trailing space 
// @lengthOf(
""x y"") ,
    @leftPad () match falsey as
int  { """ ++ [28040; 24687]%N ++ runes_of_ascii """ : MetaDataX 007
: msg_type , ""CRC32""
: Header ,//
4294967296 : charz , 255
:trueish
    1  : Header , } ,@lengthOf(// packet A { u8 x, }
leftPad // c
)_x , }
packet chars //
{match string_ as A { /// triple
""`tick`""
: Foo ,  3:trueish
    ,} ,
match Header
    as	repeatCount{ """ ++ [128512]%N ++ runes_of_ascii """
: asx ,42	:leftPad , } , }
")).
Eval vm_compute in ("<<<M970>>>" ++ check (runes_of_ascii "  options	{
    i64_ =
    007; asx= ' '
;/// triple
}MetaData	tag { float32 uint8x , } packet  len { @tag( 7
) repeat uint8x {
    match zchar as	As { [ 00
,""" ++ [28040; 24687]%N ++ runes_of_ascii """
, 00 ,
    0123456789 , 0 , 3 ,
""\n""] :
    // " ++ [128512]%N ++ runes_of_ascii " emoji
    uint8x ,
},} , u8x @lengthOf(
    falsey ),
    @calculatedFrom( // a // b
""x y""
) // `tick` ""quote"" 'q'
int16 A `{ , }`
    ,	lengthOf { o
//x
// " ++ [128512]%N ++ runes_of_ascii " emoji
@lengthOf( repeatCount
    ) ,
uint16 // packet A { u8 x, }
i8i8 @calculatedFrom( """ ++ [28040; 24687]%N ++ runes_of_ascii """ ) ,
    char[ 42  ]
repeatCount , }
    ,@calculatedFrom(""{,}""
)//
repeat
    BodyLength
    ,
char[]
    lengthOf/// triple
@calculatedFrom(""{,}""	)
// `tick` ""quote"" 'q'
// packet A { u8 x, }
`
`	, @tag(  00 )
    repeat	u128
`a\` , } options {
}packet lengthOf { match MetaDataX as pack
{[
    ""\" ++ [233]%N ++ runes_of_ascii """ ] :	Packet // `tick` ""quote"" 'q'
, 42 :
lengthOf , ""// no comment"" : i64_ // @lengthOf(
,
    [ """ ++ [128512]%N ++ runes_of_ascii """
    ,
255
    , ""abc""
    , ""{,}"", ""{,}"" ,
    1 ]
    :Pad [ 3 // c
, 3 , 255
] : BodyLength	, }
//	t
// a // b
, repeatCount	asx ,falsey ,zchar[ 0123456789 ]a1 @calculatedFrom( // " ++ [128512]%N ++ runes_of_ascii " emoji
""it's""
    ) `// not a comment`
, @leftPad
    // " ++ [27880; 37322]%N ++ runes_of_ascii "
    ( '\x00' )f32a ,rootA@lengthOf( Pad ) ,
    match As as int { 0: calculatedFrom ,}
    ,
    }

")).
Eval vm_compute in ("<<<M1002>>>" ++ check (runes_of_ascii "packet metadata // `tick` ""quote"" 'q'
{ Z9_ @lengthOf(
// `tick` ""quote"" 'q'
// @lengthOf(
i64_)
, }
    packet pack
// " ++ [27880; 37322]%N ++ runes_of_ascii "
// " ++ [128512]%N ++ runes_of_ascii " emoji
{
options1
@lengthOf(asx
    ),
@leftPad( ' ' )
@calculatedFrom(	""abc"" )
// `tick` ""quote"" 'q'
// trailing space 
falsey , // trailing space 
char[ 3 ] rootA  , }
")).
Eval vm_compute in ("<<<M1034>>>" ++ check (runes_of_ascii "packet
int
    { @calculatedFrom( ""a\\""
    ) repeat
    // packet A { u8 x, }
    string int, }")).
Eval vm_compute in ("<<<M1066>>>" ++ check (runes_of_ascii "packet int
// a // b
// @lengthOf(
{i16 Logon @calculatedFrom(
    ""a\\"" ) ,  repeat
calculatedFrom	`// not a comment` , @calculatedFrom(
    // @lengthOf(
    ""CRC32"" ) Z9_ charz , @lengthOf(  Z9_) /// triple
matchKey  `u8 x,` , } MetaData asx { }packet
Packet {
    @tag( 65535  ) options1, int @lengthOf(
metadata
) `it's`,
    //x
    u8x{ char[00 ] Logon ,
repeat  i32 T
`// not a comment` , chars { float64
msg_type@lengthOf(
body	), f64 Z9_ ,
// a // b
// @lengthOf(
u16 string_
@lengthOf( int )`doc`	,//x
repeatCount
    @calculatedFrom( ""x y""	),} , }, match A/// triple
as	u { [
    ""packet"" , ""x y"" ] : f32a ,
[
65535 /// triple
,00 ] :stringy 255 : pack
    ,
[ 0 , ""`tick`""
    ] :
x
    ,
    1 : matchKey
, } , } packet
    roots{
@calculatedFrom( ""\n"" ) char[
65535
    // a // b
    ] Packet , }
")).
Eval vm_compute in ("<<<M1098>>>" ++ check (runes_of_ascii "
root packet
Foo
    {match As as// packet A { u8 x, }
rootA
{ ""CRC32""  : packetx
, 4294967296 : Header , [0123456789
    ,
    255
// @lengthOf(
//x
, 0
    , ""\n""
,
    ""packet"" ] : BodyLength
,
[
7
// a // b
// c
, 255
    , 65535  ,00,
    3 , ""packet""	, // @lengthOf(
""abc""] :  f32a
,} ,
    f32
calculatedFrom @lengthOf(// trailing space 
metadata
) `crlf
line` ,
    } //	t
options
{ // c
x_y_z //x
=7 body	=zchar[1
] ; }
packet i8i8// trailing space 
{string_{ u32 //x
options1 // c
@calculatedFrom(
""1"" )  , }// `tick` ""quote"" 'q'
,} // `tick` ""quote"" 'q'")).
Eval vm_compute in ("<<<T1098>>>" ++ terms [mkTok 34 "root" 2 0 false; mkTok 35 "packet" 2 5 false; mkTok 42 "Foo" 3 0 false; mkTok 2 "{" 4 4 false; mkTok 38 "match" 4 5 false; mkTok 42 "As" 4 11 false; mkTok 17 "as" 4 14 false; mkTok 44 "// packet A { u8 x, }" 4 16 true; mkTok 42 "rootA" 5 0 false; mkTok 2 "{" 6 0 false; mkTok 31 """CRC32""" 6 2 false; mkTok 39 ":" 6 11 false; mkTok 42 "packetx" 6 13 false; mkTok 40 "," 7 0 false; mkTok 30 "4294967296" 7 2 false; mkTok 39 ":" 7 13 false; mkTok 42 "Header" 7 15 false; mkTok 40 "," 7 22 false; mkTok 18 "[" 7 24 false; mkTok 30 "0123456789" 7 25 false; mkTok 40 "," 8 4 false; mkTok 30 "255" 9 4 false; mkTok 44 "// @lengthOf(" 10 0 true; mkTok 44 "//x" 11 0 true; mkTok 40 "," 12 0 false; mkTok 30 "0" 12 2 false; mkTok 40 "," 13 4 false; mkTok 31 """\n""" 13 6 false; mkTok 40 "," 14 0 false; mkTok 31 """packet""" 15 4 false; mkTok 13 "]" 15 13 false; mkTok 39 ":" 15 15 false; mkTok 42 "BodyLength" 15 17 false; mkTok 40 "," 16 0 false; mkTok 18 "[" 17 0 false; mkTok 30 "7" 18 0 false; mkTok 44 "// a // b" 19 0 true; mkTok 44 "// c" 20 0 true; mkTok 40 "," 21 0 false; mkTok 30 "255" 21 2 false; mkTok 40 "," 22 4 false; mkTok 30 "65535" 22 6 false; mkTok 40 "," 22 13 false; mkTok 30 "00" 22 14 false; mkTok 40 "," 22 16 false; mkTok 30 "3" 23 4 false; mkTok 40 "," 23 6 false; mkTok 31 """packet""" 23 8 false; mkTok 40 "," 23 17 false; mkTok 44 "// @lengthOf(" 23 19 true; mkTok 31 """abc""" 24 0 false; mkTok 13 "]" 24 5 false; mkTok 39 ":" 24 7 false; mkTok 42 "f32a" 24 10 false; mkTok 40 "," 25 0 false; mkTok 3 "}" 25 1 false; mkTok 40 "," 25 3 false; mkTok 28 "f32" 26 4 false; mkTok 42 "calculatedFrom" 27 0 false; mkTok 7 "@lengthOf(" 27 15 false; mkTok 44 "// trailing space " 27 25 true; mkTok 42 "metadata" 28 0 false; mkTok 6 ")" 29 0 false; mkTok 43 (string_of_bytes [96; 99; 114; 108; 102; 13; 10; 108; 105; 110; 101; 96]%N) 29 2 false; mkTok 40 "," 30 6 false; mkTok 3 "}" 31 4 false; mkTok 44 (string_of_bytes [47; 47; 9; 116]%N) 31 6 true; mkTok 1 "options" 32 0 false; mkTok 2 "{" 33 0 false; mkTok 44 "// c" 33 2 true; mkTok 42 "x_y_z" 34 0 false; mkTok 44 "//x" 34 6 true; mkTok 4 "=" 35 0 false; mkTok 30 "7" 35 1 false; mkTok 42 "body" 35 3 false; mkTok 4 "=" 35 8 false; mkTok 14 "zchar[" 35 9 false; mkTok 30 "1" 35 15 false; mkTok 13 "]" 36 0 false; mkTok 41 ";" 36 2 false; mkTok 3 "}" 36 4 false; mkTok 35 "packet" 37 0 false; mkTok 42 "i8i8" 37 7 false; mkTok 44 "// trailing space " 37 11 true; mkTok 2 "{" 38 0 false; mkTok 42 "string_" 38 1 false; mkTok 2 "{" 38 8 false; mkTok 22 "u32" 38 10 false; mkTok 44 "//x" 38 14 true; mkTok 42 "options1" 39 0 false; mkTok 44 "// c" 39 9 true; mkTok 5 "@calculatedFrom(" 40 0 false; mkTok 31 """1""" 41 0 false; mkTok 6 ")" 41 4 false; mkTok 40 "," 41 7 false; mkTok 3 "}" 41 9 false; mkTok 44 "// `tick` ""quote"" 'q'" 41 10 true; mkTok 40 "," 42 0 false; mkTok 3 "}" 42 1 false; mkTok 44 "// `tick` ""quote"" 'q'" 42 3 true; mkTok 0 "<EOF>" 42 24 false] (mkPacket (mkPtok 34 "root" 2 0 0) (Some (mkPtok 3 "}" 42 1 98)) [(DPacket (mkPacketDef (mkSpan (mkPtok 34 "root" 2 0 0) (mkPtok 3 "}" 31 4 65)) (Some (mkPtok 34 "root" 2 0 0)) (mkPtok 35 "packet" 2 5 1) (mkPtok 42 "Foo" 3 0 2) (mkPtok 2 "{" 4 4 3) [(mkFieldWithAttr (mkSpan (mkPtok 38 "match" 4 5 4) (mkPtok 40 "," 25 3 56)) [] (MatchField (mkSpan (mkPtok 38 "match" 4 5 4) (mkPtok 40 "," 25 3 56)) (mkMatchFieldDecl (mkSpan (mkPtok 38 "match" 4 5 4) (mkPtok 3 "}" 25 1 55)) (mkPtok 38 "match" 4 5 4) (mkPtok 42 "As" 4 11 5) (mkPtok 17 "as" 4 14 6) (mkPtok 42 "rootA" 5 0 8) (mkPtok 2 "{" 6 0 9) [(mkMatchPair (mkSpan (mkPtok 31 """CRC32""" 6 2 10) (mkPtok 40 "," 7 0 13)) (MKString (mkPtok 31 """CRC32""" 6 2 10)) (mkPtok 39 ":" 6 11 11) (mkPtok 42 "packetx" 6 13 12) (Some (mkPtok 40 "," 7 0 13))); (mkMatchPair (mkSpan (mkPtok 30 "4294967296" 7 2 14) (mkPtok 40 "," 7 22 17)) (MKDigits (mkPtok 30 "4294967296" 7 2 14)) (mkPtok 39 ":" 7 13 15) (mkPtok 42 "Header" 7 15 16) (Some (mkPtok 40 "," 7 22 17))); (mkMatchPair (mkSpan (mkPtok 18 "[" 7 24 18) (mkPtok 40 "," 16 0 33)) (MKList (mkKeyList (mkSpan (mkPtok 18 "[" 7 24 18) (mkPtok 13 "]" 15 13 30)) (mkPtok 18 "[" 7 24 18) (mkPtok 30 "0123456789" 7 25 19) [((mkPtok 40 "," 8 4 20), (mkPtok 30 "255" 9 4 21)); ((mkPtok 40 "," 12 0 24), (mkPtok 30 "0" 12 2 25)); ((mkPtok 40 "," 13 4 26), (mkPtok 31 """\n""" 13 6 27)); ((mkPtok 40 "," 14 0 28), (mkPtok 31 """packet""" 15 4 29))] (mkPtok 13 "]" 15 13 30))) (mkPtok 39 ":" 15 15 31) (mkPtok 42 "BodyLength" 15 17 32) (Some (mkPtok 40 "," 16 0 33))); (mkMatchPair (mkSpan (mkPtok 18 "[" 17 0 34) (mkPtok 40 "," 25 0 54)) (MKList (mkKeyList (mkSpan (mkPtok 18 "[" 17 0 34) (mkPtok 13 "]" 24 5 51)) (mkPtok 18 "[" 17 0 34) (mkPtok 30 "7" 18 0 35) [((mkPtok 40 "," 21 0 38), (mkPtok 30 "255" 21 2 39)); ((mkPtok 40 "," 22 4 40), (mkPtok 30 "65535" 22 6 41)); ((mkPtok 40 "," 22 13 42), (mkPtok 30 "00" 22 14 43)); ((mkPtok 40 "," 22 16 44), (mkPtok 30 "3" 23 4 45)); ((mkPtok 40 "," 23 6 46), (mkPtok 31 """packet""" 23 8 47)); ((mkPtok 40 "," 23 17 48), (mkPtok 31 """abc""" 24 0 50))] (mkPtok 13 "]" 24 5 51))) (mkPtok 39 ":" 24 7 52) (mkPtok 42 "f32a" 24 10 53) (Some (mkPtok 40 "," 25 0 54)))] (mkPtok 3 "}" 25 1 55)) (mkPtok 40 "," 25 3 56))); (mkFieldWithAttr (mkSpan (mkPtok 28 "f32" 26 4 57) (mkPtok 40 "," 30 6 64)) [] (LengthField (mkSpan (mkPtok 28 "f32" 26 4 57) (mkPtok 40 "," 30 6 64)) (mkLengthFieldDecl (mkSpan (mkPtok 28 "f32" 26 4 57) (mkPtok 40 "," 30 6 64)) (Some (TyBasic (mkSpan (mkPtok 28 "f32" 26 4 57) (mkPtok 28 "f32" 26 4 57)) (mkBasicType (mkSpan (mkPtok 28 "f32" 26 4 57) (mkPtok 28 "f32" 26 4 57)) (mkPtok 28 "f32" 26 4 57)))) (mkPtok 42 "calculatedFrom" 27 0 58) (mkLengthOf (mkSpan (mkPtok 7 "@lengthOf(" 27 15 59) (mkPtok 6 ")" 29 0 62)) (mkPtok 7 "@lengthOf(" 27 15 59) (mkPtok 42 "metadata" 28 0 61) (mkPtok 6 ")" 29 0 62)) (Some (mkPtok 43 (string_of_bytes [96; 99; 114; 108; 102; 13; 10; 108; 105; 110; 101; 96]%N) 29 2 63)) (mkPtok 40 "," 30 6 64))))] (mkPtok 3 "}" 31 4 65))); (DOption (mkOptionDef (mkSpan (mkPtok 1 "options" 32 0 67) (mkPtok 3 "}" 36 4 80)) (mkPtok 1 "options" 32 0 67) (mkPtok 2 "{" 33 0 68) [(mkOptionDecl (mkSpan (mkPtok 42 "x_y_z" 34 0 70) (mkPtok 30 "7" 35 1 73)) (mkPtok 42 "x_y_z" 34 0 70) (mkPtok 4 "=" 35 0 72) (VDigits (mkSpan (mkPtok 30 "7" 35 1 73) (mkPtok 30 "7" 35 1 73)) (mkPtok 30 "7" 35 1 73)) None); (mkOptionDecl (mkSpan (mkPtok 42 "body" 35 3 74) (mkPtok 41 ";" 36 2 79)) (mkPtok 42 "body" 35 3 74) (mkPtok 4 "=" 35 8 75) (VType (mkSpan (mkPtok 14 "zchar[" 35 9 76) (mkPtok 13 "]" 36 0 78)) (TyFixed (mkSpan (mkPtok 14 "zchar[" 35 9 76) (mkPtok 13 "]" 36 0 78)) (mkFixedString (mkSpan (mkPtok 14 "zchar[" 35 9 76) (mkPtok 13 "]" 36 0 78)) (mkPtok 14 "zchar[" 35 9 76) (mkPtok 30 "1" 35 15 77) (mkPtok 13 "]" 36 0 78)))) (Some (mkPtok 41 ";" 36 2 79)))] (mkPtok 3 "}" 36 4 80))); (DPacket (mkPacketDef (mkSpan (mkPtok 35 "packet" 37 0 81) (mkPtok 3 "}" 42 1 98)) None (mkPtok 35 "packet" 37 0 81) (mkPtok 42 "i8i8" 37 7 82) (mkPtok 2 "{" 38 0 84) [(mkFieldWithAttr (mkSpan (mkPtok 42 "string_" 38 1 85) (mkPtok 40 "," 42 0 97)) [] (InerObjectField (mkSpan (mkPtok 42 "string_" 38 1 85) (mkPtok 40 "," 42 0 97)) None (InerObjectDecl (mkSpan (mkPtok 42 "string_" 38 1 85) (mkPtok 3 "}" 41 9 95)) (mkPtok 42 "string_" 38 1 85) (mkPtok 2 "{" 38 8 86) [(CheckSumField (mkSpan (mkPtok 22 "u32" 38 10 87) (mkPtok 40 "," 41 7 94)) (mkChecksumFieldDecl (mkSpan (mkPtok 22 "u32" 38 10 87) (mkPtok 40 "," 41 7 94)) (Some (TyBasic (mkSpan (mkPtok 22 "u32" 38 10 87) (mkPtok 22 "u32" 38 10 87)) (mkBasicType (mkSpan (mkPtok 22 "u32" 38 10 87) (mkPtok 22 "u32" 38 10 87)) (mkPtok 22 "u32" 38 10 87)))) (mkPtok 42 "options1" 39 0 89) (mkCalculatedFrom (mkSpan (mkPtok 5 "@calculatedFrom(" 40 0 91) (mkPtok 6 ")" 41 4 93)) (mkPtok 5 "@calculatedFrom(" 40 0 91) (mkPtok 31 """1""" 41 0 92) (mkPtok 6 ")" 41 4 93)) None (mkPtok 40 "," 41 7 94)))] (mkPtok 3 "}" 41 9 95)) (mkPtok 40 "," 42 0 97)))] (mkPtok 3 "}" 42 1 98)))])).
Eval vm_compute in ("<<<M1130>>>" ++ check (runes_of_ascii " // trailing space ")).
Eval vm_compute in ("<<<M1162>>>" ++ check (runes_of_ascii "
packet// `tick` ""quote"" 'q'
BodyLength
{ @rightPad (	)int8
// @lengthOf(
// c
BodyLength  @calculatedFrom(	""packet"" )
// c
/// triple
`
`, u8x
calculatedFrom
    ,//x
repeat
    f32a {
zchar[ 3 ] BodyLength , match i8i8 // " ++ [128512]%N ++ runes_of_ascii " emoji
as A{
    3  : packetx , ""CRC32"" //x
:
options1
}  , } , @leftPad
( ' ' )@lengthOf( Header ) repeat
len string_ ,
@tag( 4294967296 // @lengthOf(
)@calculatedFrom(""" ++ [233]%N ++ runes_of_ascii "t" ++ [233]%N ++ runes_of_ascii """ )len
repeatCount
,  u64 i64_
`{ , }`	, i16 o , @lengthOf( repeatCount	) @lengthOf(
Header ) @rightPad(  '\x00'
    //x
    ) repeat options1{ // c
roots @calculatedFrom(
    ""1""// c
)
    `tab	here` ,repeat // @lengthOf(
options1 zchar , repeat a1{
    u128 {match Z9_ as x {
    ""`tick`"" :o, ""`tick`""// packet A { u8 x, }
:  pack , [ 255 ]
    : Header ,3 : asx ,
[ 255 , //	t
""CRC32""
]  : charz }, } ,}, char[10 ] stringy ,
    } ,// " ++ [27880; 37322]%N ++ runes_of_ascii "
@leftPad( )
// packet A { u8 x, }
// a // b
char[
007] len`doc` , }")).
Eval vm_compute in ("<<<M1194>>>" ++ check (runes_of_ascii "MetaData
// `tick` ""quote"" 'q'
/// triple
matchKey// " ++ [27880; 37322]%N ++ runes_of_ascii "
{  char[ //x
255
] Pad`it's`
, u8
x_y_z //
, i64_ packetx// a // b
`tab	here` // " ++ [128512]%N ++ runes_of_ascii " emoji
,trueish
zchar`it's` , }

")).
Eval vm_compute in ("<<<M1226>>>" ++ check (runes_of_ascii "options{
    //	t
    o=
float64 ; rootA =""a	b"" tag =
    // a // b
    true ;
BodyLength = //	t
""\" ++ [233]%N ++ runes_of_ascii """
    ;
} packet leftPad	{
    u8x
    //	t
    roots
`{ , }` // " ++ [27880; 37322]%N ++ runes_of_ascii "
, @calculatedFrom( ""// no comment"" ) i64_
a1,
// packet A { u8 x, }
/// triple
f64
    tag
, }MetaData charz { string msg_type ,  roots x_y_z	, Z9_ chars`tab	here`
    , packetx
    u128 `// not a comment` , // c
pack a1 ,} packet
falsey {
uint32 Foo ,
}
")).
Eval vm_compute in ("<<<M1258>>>" ++ check (runes_of_ascii "
")).
Eval vm_compute in ("<<<M1290>>>" ++ check (runes_of_ascii "MetaData// trailing space 
int {// " ++ [27880; 37322]%N ++ runes_of_ascii "
u128 uint8x , // a // b
string
    o ,A metadata `u8 x,`  ,
char[  10 ]
rootA
    , packetx x_y_z `doc` ,  string_ // `tick` ""quote"" 'q'
trueish`doc` , }")).
Eval vm_compute in ("<<<M1322>>>" ++ check (runes_of_ascii "packet
charz  { // @lengthOf(
} options
{
} packet float	{ metadata Logon ,
} packet
    body {
    @tag(
    42 // packet A { u8 x, }
) repeat tag i64_, /// triple
@lengthOf( string_  )	match chars as
    Z9_
    { [65535
// " ++ [27880; 37322]%N ++ runes_of_ascii "
//x
] :
o // `tick` ""quote"" 'q'
, [//	t
""{,}"" ,0123456789
    , ""packet""
// packet A { u8 x, }
//
, ""abc"" ,255 , """ ++ [233]%N ++ runes_of_ascii "t" ++ [233]%N ++ runes_of_ascii """
    ,
// packet A { u8 x, }
//x
""x y"" , 3 ]: pack
    , ""abc""
:
matchKey
    , [ 0123456789 , 1 ] : chars
    // c
    1 :int ,  """ ++ [233]%N ++ runes_of_ascii "t" ++ [233]%N ++ runes_of_ascii """ : i64_ , }
, match Pad as trueish { ""a	b"" : pack
    , }
,	@calculatedFrom( """ ++ [28040; 24687]%N ++ runes_of_ascii """
)
repeat u128 x
    ,
    string A
,
lengthOf
{
BodyLength T  ,int16 A @lengthOf(
i8i8
)//x
, // " ++ [27880; 37322]%N ++ runes_of_ascii "
} ,options1 chars  `line1
line2` ,
}
")).
Eval vm_compute in ("<<<T1322>>>" ++ terms [mkTok 35 "packet" 1 0 false; mkTok 42 "charz" 2 0 false; mkTok 2 "{" 2 7 false; mkTok 44 "// @lengthOf(" 2 9 true; mkTok 3 "}" 3 0 false; mkTok 1 "options" 3 2 false; mkTok 2 "{" 4 0 false; mkTok 3 "}" 5 0 false; mkTok 35 "packet" 5 2 false; mkTok 42 "float" 5 9 false; mkTok 2 "{" 5 15 false; mkTok 42 "metadata" 5 17 false; mkTok 42 "Logon" 5 26 false; mkTok 40 "," 5 32 false; mkTok 3 "}" 6 0 false; mkTok 35 "packet" 6 2 false; mkTok 42 "body" 7 4 false; mkTok 2 "{" 7 9 false; mkTok 9 "@tag(" 8 4 false; mkTok 30 "42" 9 4 false; mkTok 44 "// packet A { u8 x, }" 9 7 true; mkTok 6 ")" 10 0 false; mkTok 36 "repeat" 10 2 false; mkTok 42 "tag" 10 9 false; mkTok 42 "i64_" 10 13 false; mkTok 40 "," 10 17 false; mkTok 44 "/// triple" 10 19 true; mkTok 7 "@lengthOf(" 11 0 false; mkTok 42 "string_" 11 11 false; mkTok 6 ")" 11 20 false; mkTok 38 "match" 11 22 false; mkTok 42 "chars" 11 28 false; mkTok 17 "as" 11 34 false; mkTok 42 "Z9_" 12 4 false; mkTok 2 "{" 13 4 false; mkTok 18 "[" 13 6 false; mkTok 30 "65535" 13 7 false; mkTok 44 (string_of_bytes [47; 47; 32; 230; 179; 168; 233; 135; 138]%N) 14 0 true; mkTok 44 "//x" 15 0 true; mkTok 13 "]" 16 0 false; mkTok 39 ":" 16 2 false; mkTok 42 "o" 17 0 false; mkTok 44 "// `tick` ""quote"" 'q'" 17 2 true; mkTok 40 "," 18 0 false; mkTok 18 "[" 18 2 false; mkTok 44 (string_of_bytes [47; 47; 9; 116]%N) 18 3 true; mkTok 31 """{,}""" 19 0 false; mkTok 40 "," 19 6 false; mkTok 30 "0123456789" 19 7 false; mkTok 40 "," 20 4 false; mkTok 31 """packet""" 20 6 false; mkTok 44 "// packet A { u8 x, }" 21 0 true; mkTok 44 "//" 22 0 true; mkTok 40 "," 23 0 false; mkTok 31 """abc""" 23 2 false; mkTok 40 "," 23 8 false; mkTok 30 "255" 23 9 false; mkTok 40 "," 23 13 false; mkTok 31 (string_of_bytes [34; 195; 169; 116; 195; 169; 34]%N) 23 15 false; mkTok 40 "," 24 4 false; mkTok 44 "// packet A { u8 x, }" 25 0 true; mkTok 44 "//x" 26 0 true; mkTok 31 """x y""" 27 0 false; mkTok 40 "," 27 6 false; mkTok 30 "3" 27 8 false; mkTok 13 "]" 27 10 false; mkTok 39 ":" 27 11 false; mkTok 42 "pack" 27 13 false; mkTok 40 "," 28 4 false; mkTok 31 """abc""" 28 6 false; mkTok 39 ":" 29 0 false; mkTok 42 "matchKey" 30 0 false; mkTok 40 "," 31 4 false; mkTok 18 "[" 31 6 false; mkTok 30 "0123456789" 31 8 false; mkTok 40 "," 31 19 false; mkTok 30 "1" 31 21 false; mkTok 13 "]" 31 23 false; mkTok 39 ":" 31 25 false; mkTok 42 "chars" 31 27 false; mkTok 44 "// c" 32 4 true; mkTok 30 "1" 33 4 false; mkTok 39 ":" 33 6 false; mkTok 42 "int" 33 7 false; mkTok 40 "," 33 11 false; mkTok 31 (string_of_bytes [34; 195; 169; 116; 195; 169; 34]%N) 33 14 false; mkTok 39 ":" 33 20 false; mkTok 42 "i64_" 33 22 false; mkTok 40 "," 33 27 false; mkTok 3 "}" 33 29 false; mkTok 40 "," 34 0 false; mkTok 38 "match" 34 2 false; mkTok 42 "Pad" 34 8 false; mkTok 17 "as" 34 12 false; mkTok 42 "trueish" 34 15 false; mkTok 2 "{" 34 23 false; mkTok 31 (string_of_bytes [34; 97; 9; 98; 34]%N) 34 25 false; mkTok 39 ":" 34 31 false; mkTok 42 "pack" 34 33 false; mkTok 40 "," 35 4 false; mkTok 3 "}" 35 6 false; mkTok 40 "," 36 0 false; mkTok 5 "@calculatedFrom(" 36 2 false; mkTok 31 (string_of_bytes [34; 230; 182; 136; 230; 129; 175; 34]%N) 36 19 false; mkTok 6 ")" 37 0 false; mkTok 36 "repeat" 38 0 false; mkTok 42 "u128" 38 7 false; mkTok 42 "x" 38 12 false; mkTok 40 "," 39 4 false; mkTok 15 "string" 40 4 false; mkTok 42 "A" 40 11 false; mkTok 40 "," 41 0 false; mkTok 42 "lengthOf" 42 0 false; mkTok 2 "{" 43 0 false; mkTok 42 "BodyLength" 44 0 false; mkTok 42 "T" 44 11 false; mkTok 40 "," 44 14 false; mkTok 25 "int16" 44 15 false; mkTok 42 "A" 44 21 false; mkTok 7 "@lengthOf(" 44 23 false; mkTok 42 "i8i8" 45 0 false; mkTok 6 ")" 46 0 false; mkTok 44 "//x" 46 1 true; mkTok 40 "," 47 0 false; mkTok 44 (string_of_bytes [47; 47; 32; 230; 179; 168; 233; 135; 138]%N) 47 2 true; mkTok 3 "}" 48 0 false; mkTok 40 "," 48 2 false; mkTok 42 "options1" 48 3 false; mkTok 42 "chars" 48 12 false; mkTok 43 (string_of_bytes [96; 108; 105; 110; 101; 49; 10; 108; 105; 110; 101; 50; 96]%N) 48 19 false; mkTok 40 "," 49 7 false; mkTok 3 "}" 50 0 false; mkTok 0 "<EOF>" 51 0 false] (mkPacket (mkPtok 35 "packet" 1 0 0) (Some (mkPtok 3 "}" 50 0 131)) [(DPacket (mkPacketDef (mkSpan (mkPtok 35 "packet" 1 0 0) (mkPtok 3 "}" 3 0 4)) None (mkPtok 35 "packet" 1 0 0) (mkPtok 42 "charz" 2 0 1) (mkPtok 2 "{" 2 7 2) [] (mkPtok 3 "}" 3 0 4))); (DOption (mkOptionDef (mkSpan (mkPtok 1 "options" 3 2 5) (mkPtok 3 "}" 5 0 7)) (mkPtok 1 "options" 3 2 5) (mkPtok 2 "{" 4 0 6) [] (mkPtok 3 "}" 5 0 7))); (DPacket (mkPacketDef (mkSpan (mkPtok 35 "packet" 5 2 8) (mkPtok 3 "}" 6 0 14)) None (mkPtok 35 "packet" 5 2 8) (mkPtok 42 "float" 5 9 9) (mkPtok 2 "{" 5 15 10) [(mkFieldWithAttr (mkSpan (mkPtok 42 "metadata" 5 17 11) (mkPtok 40 "," 5 32 13)) [] (ObjectField (mkSpan (mkPtok 42 "metadata" 5 17 11) (mkPtok 40 "," 5 32 13)) None (mkPtok 42 "metadata" 5 17 11) (Some (mkPtok 42 "Logon" 5 26 12)) None (mkPtok 40 "," 5 32 13)))] (mkPtok 3 "}" 6 0 14))); (DPacket (mkPacketDef (mkSpan (mkPtok 35 "packet" 6 2 15) (mkPtok 3 "}" 50 0 131)) None (mkPtok 35 "packet" 6 2 15) (mkPtok 42 "body" 7 4 16) (mkPtok 2 "{" 7 9 17) [(mkFieldWithAttr (mkSpan (mkPtok 9 "@tag(" 8 4 18) (mkPtok 40 "," 10 17 25)) [(FATag (mkSpan (mkPtok 9 "@tag(" 8 4 18) (mkPtok 6 ")" 10 0 21)) (mkTagAttr (mkSpan (mkPtok 9 "@tag(" 8 4 18) (mkPtok 6 ")" 10 0 21)) (mkPtok 9 "@tag(" 8 4 18) (mkPtok 30 "42" 9 4 19) (mkPtok 6 ")" 10 0 21)))] (ObjectField (mkSpan (mkPtok 36 "repeat" 10 2 22) (mkPtok 40 "," 10 17 25)) (Some (mkPtok 36 "repeat" 10 2 22)) (mkPtok 42 "tag" 10 9 23) (Some (mkPtok 42 "i64_" 10 13 24)) None (mkPtok 40 "," 10 17 25))); (mkFieldWithAttr (mkSpan (mkPtok 7 "@lengthOf(" 11 0 27) (mkPtok 40 "," 34 0 90)) [(FALengthOf (mkSpan (mkPtok 7 "@lengthOf(" 11 0 27) (mkPtok 6 ")" 11 20 29)) (mkLengthOf (mkSpan (mkPtok 7 "@lengthOf(" 11 0 27) (mkPtok 6 ")" 11 20 29)) (mkPtok 7 "@lengthOf(" 11 0 27) (mkPtok 42 "string_" 11 11 28) (mkPtok 6 ")" 11 20 29)))] (MatchField (mkSpan (mkPtok 38 "match" 11 22 30) (mkPtok 40 "," 34 0 90)) (mkMatchFieldDecl (mkSpan (mkPtok 38 "match" 11 22 30) (mkPtok 3 "}" 33 29 89)) (mkPtok 38 "match" 11 22 30) (mkPtok 42 "chars" 11 28 31) (mkPtok 17 "as" 11 34 32) (mkPtok 42 "Z9_" 12 4 33) (mkPtok 2 "{" 13 4 34) [(mkMatchPair (mkSpan (mkPtok 18 "[" 13 6 35) (mkPtok 40 "," 18 0 43)) (MKList (mkKeyList (mkSpan (mkPtok 18 "[" 13 6 35) (mkPtok 13 "]" 16 0 39)) (mkPtok 18 "[" 13 6 35) (mkPtok 30 "65535" 13 7 36) [] (mkPtok 13 "]" 16 0 39))) (mkPtok 39 ":" 16 2 40) (mkPtok 42 "o" 17 0 41) (Some (mkPtok 40 "," 18 0 43))); (mkMatchPair (mkSpan (mkPtok 18 "[" 18 2 44) (mkPtok 40 "," 28 4 68)) (MKList (mkKeyList (mkSpan (mkPtok 18 "[" 18 2 44) (mkPtok 13 "]" 27 10 65)) (mkPtok 18 "[" 18 2 44) (mkPtok 31 """{,}""" 19 0 46) [((mkPtok 40 "," 19 6 47), (mkPtok 30 "0123456789" 19 7 48)); ((mkPtok 40 "," 20 4 49), (mkPtok 31 """packet""" 20 6 50)); ((mkPtok 40 "," 23 0 53), (mkPtok 31 """abc""" 23 2 54)); ((mkPtok 40 "," 23 8 55), (mkPtok 30 "255" 23 9 56)); ((mkPtok 40 "," 23 13 57), (mkPtok 31 (string_of_bytes [34; 195; 169; 116; 195; 169; 34]%N) 23 15 58)); ((mkPtok 40 "," 24 4 59), (mkPtok 31 """x y""" 27 0 62)); ((mkPtok 40 "," 27 6 63), (mkPtok 30 "3" 27 8 64))] (mkPtok 13 "]" 27 10 65))) (mkPtok 39 ":" 27 11 66) (mkPtok 42 "pack" 27 13 67) (Some (mkPtok 40 "," 28 4 68))); (mkMatchPair (mkSpan (mkPtok 31 """abc""" 28 6 69) (mkPtok 40 "," 31 4 72)) (MKString (mkPtok 31 """abc""" 28 6 69)) (mkPtok 39 ":" 29 0 70) (mkPtok 42 "matchKey" 30 0 71) (Some (mkPtok 40 "," 31 4 72))); (mkMatchPair (mkSpan (mkPtok 18 "[" 31 6 73) (mkPtok 42 "chars" 31 27 79)) (MKList (mkKeyList (mkSpan (mkPtok 18 "[" 31 6 73) (mkPtok 13 "]" 31 23 77)) (mkPtok 18 "[" 31 6 73) (mkPtok 30 "0123456789" 31 8 74) [((mkPtok 40 "," 31 19 75), (mkPtok 30 "1" 31 21 76))] (mkPtok 13 "]" 31 23 77))) (mkPtok 39 ":" 31 25 78) (mkPtok 42 "chars" 31 27 79) None); (mkMatchPair (mkSpan (mkPtok 30 "1" 33 4 81) (mkPtok 40 "," 33 11 84)) (MKDigits (mkPtok 30 "1" 33 4 81)) (mkPtok 39 ":" 33 6 82) (mkPtok 42 "int" 33 7 83) (Some (mkPtok 40 "," 33 11 84))); (mkMatchPair (mkSpan (mkPtok 31 (string_of_bytes [34; 195; 169; 116; 195; 169; 34]%N) 33 14 85) (mkPtok 40 "," 33 27 88)) (MKString (mkPtok 31 (string_of_bytes [34; 195; 169; 116; 195; 169; 34]%N) 33 14 85)) (mkPtok 39 ":" 33 20 86) (mkPtok 42 "i64_" 33 22 87) (Some (mkPtok 40 "," 33 27 88)))] (mkPtok 3 "}" 33 29 89)) (mkPtok 40 "," 34 0 90))); (mkFieldWithAttr (mkSpan (mkPtok 38 "match" 34 2 91) (mkPtok 40 "," 36 0 101)) [] (MatchField (mkSpan (mkPtok 38 "match" 34 2 91) (mkPtok 40 "," 36 0 101)) (mkMatchFieldDecl (mkSpan (mkPtok 38 "match" 34 2 91) (mkPtok 3 "}" 35 6 100)) (mkPtok 38 "match" 34 2 91) (mkPtok 42 "Pad" 34 8 92) (mkPtok 17 "as" 34 12 93) (mkPtok 42 "trueish" 34 15 94) (mkPtok 2 "{" 34 23 95) [(mkMatchPair (mkSpan (mkPtok 31 (string_of_bytes [34; 97; 9; 98; 34]%N) 34 25 96) (mkPtok 40 "," 35 4 99)) (MKString (mkPtok 31 (string_of_bytes [34; 97; 9; 98; 34]%N) 34 25 96)) (mkPtok 39 ":" 34 31 97) (mkPtok 42 "pack" 34 33 98) (Some (mkPtok 40 "," 35 4 99)))] (mkPtok 3 "}" 35 6 100)) (mkPtok 40 "," 36 0 101))); (mkFieldWithAttr (mkSpan (mkPtok 5 "@calculatedFrom(" 36 2 102) (mkPtok 40 "," 39 4 108)) [(FACalculatedFrom (mkSpan (mkPtok 5 "@calculatedFrom(" 36 2 102) (mkPtok 6 ")" 37 0 104)) (mkCalculatedFrom (mkSpan (mkPtok 5 "@calculatedFrom(" 36 2 102) (mkPtok 6 ")" 37 0 104)) (mkPtok 5 "@calculatedFrom(" 36 2 102) (mkPtok 31 (string_of_bytes [34; 230; 182; 136; 230; 129; 175; 34]%N) 36 19 103) (mkPtok 6 ")" 37 0 104)))] (ObjectField (mkSpan (mkPtok 36 "repeat" 38 0 105) (mkPtok 40 "," 39 4 108)) (Some (mkPtok 36 "repeat" 38 0 105)) (mkPtok 42 "u128" 38 7 106) (Some (mkPtok 42 "x" 38 12 107)) None (mkPtok 40 "," 39 4 108))); (mkFieldWithAttr (mkSpan (mkPtok 15 "string" 40 4 109) (mkPtok 40 "," 41 0 111)) [] (MetaField (mkSpan (mkPtok 15 "string" 40 4 109) (mkPtok 40 "," 41 0 111)) None (mkMetaDecl (mkSpan (mkPtok 15 "string" 40 4 109) (mkPtok 40 "," 41 0 111)) (TyDynamic (mkSpan (mkPtok 15 "string" 40 4 109) (mkPtok 15 "string" 40 4 109)) (mkDynamicString (mkSpan (mkPtok 15 "string" 40 4 109) (mkPtok 15 "string" 40 4 109)) (mkPtok 15 "string" 40 4 109))) (mkPtok 42 "A" 40 11 110) None (mkPtok 40 "," 41 0 111)))); (mkFieldWithAttr (mkSpan (mkPtok 42 "lengthOf" 42 0 112) (mkPtok 40 "," 48 2 126)) [] (InerObjectField (mkSpan (mkPtok 42 "lengthOf" 42 0 112) (mkPtok 40 "," 48 2 126)) None (InerObjectDecl (mkSpan (mkPtok 42 "lengthOf" 42 0 112) (mkPtok 3 "}" 48 0 125)) (mkPtok 42 "lengthOf" 42 0 112) (mkPtok 2 "{" 43 0 113) [(ObjectField (mkSpan (mkPtok 42 "BodyLength" 44 0 114) (mkPtok 40 "," 44 14 116)) None (mkPtok 42 "BodyLength" 44 0 114) (Some (mkPtok 42 "T" 44 11 115)) None (mkPtok 40 "," 44 14 116)); (LengthField (mkSpan (mkPtok 25 "int16" 44 15 117) (mkPtok 40 "," 47 0 123)) (mkLengthFieldDecl (mkSpan (mkPtok 25 "int16" 44 15 117) (mkPtok 40 "," 47 0 123)) (Some (TyBasic (mkSpan (mkPtok 25 "int16" 44 15 117) (mkPtok 25 "int16" 44 15 117)) (mkBasicType (mkSpan (mkPtok 25 "int16" 44 15 117) (mkPtok 25 "int16" 44 15 117)) (mkPtok 25 "int16" 44 15 117)))) (mkPtok 42 "A" 44 21 118) (mkLengthOf (mkSpan (mkPtok 7 "@lengthOf(" 44 23 119) (mkPtok 6 ")" 46 0 121)) (mkPtok 7 "@lengthOf(" 44 23 119) (mkPtok 42 "i8i8" 45 0 120) (mkPtok 6 ")" 46 0 121)) None (mkPtok 40 "," 47 0 123)))] (mkPtok 3 "}" 48 0 125)) (mkPtok 40 "," 48 2 126))); (mkFieldWithAttr (mkSpan (mkPtok 42 "options1" 48 3 127) (mkPtok 40 "," 49 7 130)) [] (ObjectField (mkSpan (mkPtok 42 "options1" 48 3 127) (mkPtok 40 "," 49 7 130)) None (mkPtok 42 "options1" 48 3 127) (Some (mkPtok 42 "chars" 48 12 128)) (Some (mkPtok 43 (string_of_bytes [96; 108; 105; 110; 101; 49; 10; 108; 105; 110; 101; 50; 96]%N) 48 19 129)) (mkPtok 40 "," 49 7 130)))] (mkPtok 3 "}" 50 0 131)))])).
Eval vm_compute in ("<<<M1354>>>" ++ check (runes_of_ascii "
packet
T {
uint64
rootA
    `it's`
    ,
// a // b
// packet A { u8 x, }
@tag( 255
    )
f32a
{
string
MetaDataX
`" ++ [28040; 24687; 31867; 22411]%N ++ runes_of_ascii "`
, } ,uint8x
    //x
    @lengthOf( u8x ),
match
x
    // a // b
    as As	{4294967296	: trueish , ""{,}"": Packet , 1  :float
,  007 : repeatCount , //	t
}, @leftPad (  '0' ) @lengthOf( crc ) int16 // trailing space 
u128 , calculatedFrom
asx
`u8 x,` ,
}
")).
Eval vm_compute in ("<<<M1386>>>" ++ check (runes_of_ascii "//x
packet	_x { repeat
    charz { repeat asx,//x
string metadata ,//x
uint64	a1 @calculatedFrom(	""it's"") `a\`
    , }
,
    @rightPad//
() msg_type len
``,MetaDataX asx // " ++ [128512]%N ++ runes_of_ascii " emoji
,@rightPad
(
    '\x00' )zchar[ 3] int,
}packet Packet
    { @leftPad(
    )
string_{ repeat
    calculatedFrom// a // b
`it's` , }
    // " ++ [128512]%N ++ runes_of_ascii " emoji
    , @calculatedFrom(""a	b""
    ) @tag( 00 )@rightPad(
' ')
u64 stringy // " ++ [128512]%N ++ runes_of_ascii " emoji
@calculatedFrom( ""a	b"" // @lengthOf(
)
, @leftPad
    (
'\x00' ) options1 `" ++ [233]%N ++ runes_of_ascii "`
    , @rightPad ( ) repeat char[ 007
]Foo `line1
line2`
,
} options
{len
    = '\x00' ;
    roots  =
""{,}""packetx =i64 ;
    }
")).
Eval vm_compute in ("<<<M1418>>>" ++ check (runes_of_ascii "MetaData rootA{ }packet BodyLength{repeat
    int32 falsey`a\`
, i64
rootA @lengthOf(
falsey
) , } root packet
x
    { u64 A  `" ++ [233]%N ++ runes_of_ascii "` ,} packet // @lengthOf(
BodyLength{}
    //x
    options { A
    =
""\n"" ; }
")).
Eval vm_compute in ("<<<M1450>>>" ++ check (runes_of_ascii "// packet A { u8 x, }
packet zchar { uint32 // packet A { u8 x, }
matchKey , i32 leftPad @calculatedFrom(
    //	t
    ""1"" ) `crlf
line` ,
_x{  f32a @calculatedFrom(""`tick`""// " ++ [128512]%N ++ runes_of_ascii " emoji
) ,// packet A { u8 x, }
char metadata `u8 x,` ,
    // c
    char[]
a1 @lengthOf(float )  `a\`
, } ,
@lengthOf(
A	)/// triple
zchar[ //
0123456789
]Header @lengthOf( o) `" ++ [28040; 24687; 31867; 22411]%N ++ runes_of_ascii "`// c
,	@tag(00) x `it's` ,
i8 msg_type @lengthOf(
len) `
` , @tag(
    00
    ) repeat matchKey// a // b
{
    string// " ++ [128512]%N ++ runes_of_ascii " emoji
u `" ++ [28040; 24687; 31867; 22411]%N ++ runes_of_ascii "` ,u8 u @calculatedFrom( ""a\""b"" ) ,
i8 len, packetx, }	,
    } options
    { Foo = 0
;
    }
")).
Eval vm_compute in ("<<<M1482>>>" ++ check (runes_of_ascii "
packet  _x {	repeat
    // packet A { u8 x, }
    A{
    int64 uint8x `tab	here` ,
}
    , } packet Pad  { @tag(	65535
)string _x //x
@lengthOf( asx)  , @rightPad ( '0'	)u8 MetaDataX , u64 chars,
    // c
    }

")).
Eval vm_compute in ("<<<M1514>>>" ++ check (runes_of_ascii "packet calculatedFrom{i16 trueish
,
    @tag( 10	) repeat zchar[ 1 ]	tag
, repeat crc
    `it's` ,
    @lengthOf( roots)@lengthOf( len)
@calculatedFrom(
// `tick` ""quote"" 'q'
/// triple
"""" ) repeat
    /// triple
    zchar[
255
] u8x , repeat
char[]
Header, match metadata as// " ++ [27880; 37322]%N ++ runes_of_ascii "
matchKey
    {0: o ""x y"" :
    T
    [ """ ++ [28040; 24687]%N ++ runes_of_ascii """ ]: float, }
    ,
zchar[ 3 ] Z9_ @lengthOf(Z9_) // " ++ [27880; 37322]%N ++ runes_of_ascii "
`two words` ,
    char[ 255	] x
    `line1
line2`
    ,repeat
    u16 Packet`// not a comment` ,} MetaData x_y_z{
char[10 ]
    f32a ,
    char[007 ]chars , f32 i8i8	`say ""hi""` , }root
packet lengthOf
{ string_
    crc
`" ++ [28040; 24687; 31867; 22411]%N ++ runes_of_ascii "` ,
    }root
    packet i64_ { @lengthOf( u8x ) match rootA
as asx // packet A { u8 x, }
{ [ ""// no comment""  ,
4294967296 , 10
, //
0123456789
    ] :// c
trueish ,1 :uint8x , 10  :
Packet, 3 : x
    // trailing space 
    , /// triple
""it's"" : x_y_z } , repeat zchar[ 0 ]tag , match falsey
as stringy
    { ""packet"": // packet A { u8 x, }
BodyLength
    ""\" ++ [233]%N ++ runes_of_ascii """ :
    falsey, 10 : packetx
, [  255] :Header }
/// triple
// trailing space 
,
    repeat
    zchar[
    3] Pad
    `" ++ [233]%N ++ runes_of_ascii "`	, @tag( 3) char[ 65535 ] f32a@lengthOf( f32a //x
) ,@rightPad ( //x
'\x00') match f32a as
u128 {
42 :
zchar , 007 :crc // @lengthOf(
[
1 , 00
    ]: matchKey , ""1""
: BodyLength,00 : packetx, },  }")).
Eval vm_compute in ("<<<M1546>>>" ++ check (runes_of_ascii "MetaData // " ++ [27880; 37322]%N ++ runes_of_ascii "
MetaDataX
    { zchar[
    0
] len ,} 	 ")).
Eval vm_compute in ("<<<T1546>>>" ++ terms [mkTok 37 "MetaData" 1 0 false; mkTok 44 (string_of_bytes [47; 47; 32; 230; 179; 168; 233; 135; 138]%N) 1 9 true; mkTok 42 "MetaDataX" 2 0 false; mkTok 2 "{" 3 4 false; mkTok 14 "zchar[" 3 6 false; mkTok 30 "0" 4 4 false; mkTok 13 "]" 5 0 false; mkTok 42 "len" 5 2 false; mkTok 40 "," 5 6 false; mkTok 3 "}" 5 7 false; mkTok 0 "<EOF>" 5 11 false] (mkPacket (mkPtok 37 "MetaData" 1 0 0) (Some (mkPtok 3 "}" 5 7 9)) [(DMeta (mkMetaDef (mkSpan (mkPtok 37 "MetaData" 1 0 0) (mkPtok 3 "}" 5 7 9)) (mkPtok 37 "MetaData" 1 0 0) (mkPtok 42 "MetaDataX" 2 0 2) (mkPtok 2 "{" 3 4 3) [(MIDecl (mkMetaDecl (mkSpan (mkPtok 14 "zchar[" 3 6 4) (mkPtok 40 "," 5 6 8)) (TyFixed (mkSpan (mkPtok 14 "zchar[" 3 6 4) (mkPtok 13 "]" 5 0 6)) (mkFixedString (mkSpan (mkPtok 14 "zchar[" 3 6 4) (mkPtok 13 "]" 5 0 6)) (mkPtok 14 "zchar[" 3 6 4) (mkPtok 30 "0" 4 4 5) (mkPtok 13 "]" 5 0 6))) (mkPtok 42 "len" 5 2 7) None (mkPtok 40 "," 5 6 8)))] (mkPtok 3 "}" 5 7 9)))])).
Eval vm_compute in ("<<<M1578>>>" ++ check (runes_of_ascii "root
    packet options1 //x
{
f32 chars , }MetaData charz {
char[
/// triple
//
0123456789 ] options1 // trailing space 
,
}")).
Eval vm_compute in ("<<<M1610>>>" ++ check (runes_of_ascii "// " ++ [128512]%N ++ runes_of_ascii " emoji
MetaData//x
Z9_ { char[] Pad `two words` ,} MetaData pack	{ body charz, }
options {
} root  packet T
    {
/// triple
//
@rightPad ( '\x00' ) string
    // `tick` ""quote"" 'q'
    roots , uint8 T@calculatedFrom( ""\" ++ [233]%N ++ runes_of_ascii """ )
`a\` , @tag(
0123456789 )
    char[
//
/// triple
00 ] //x
Foo @lengthOf( _x
    ) `tab	here`	, u16 Pad
@calculatedFrom( ""packet""	)
,
    float64 body,Header T ,
trueish@lengthOf( crc  ) //
,
char[ 0123456789] x_y_z
,//	t
string x_y_z//	t
@calculatedFrom(  ""\" ++ [233]%N ++ runes_of_ascii """	)// c
, char[] // " ++ [27880; 37322]%N ++ runes_of_ascii "
As ,}
// a // b
")).
Eval vm_compute in ("<<<M1642>>>" ++ check (runes_of_ascii "packet i64_{@calculatedFrom(
""" ++ [28040; 24687]%N ++ runes_of_ascii """
    )string crc @lengthOf(
u8x  )
,
    } root packet
    stringy {	@lengthOf(Foo
)//	t
asx , repeat Z9_  ,string
chars ,
// `tick` ""quote"" 'q'
// c
char[007 ] falsey // " ++ [27880; 37322]%N ++ runes_of_ascii "
, // a // b
repeat
    f32 i64_ `doc` , repeat trueish
{ uint8x {repeat Logon
,
    } ,	}
, } MetaData chars
    { calculatedFrom A `a\` ,}
")).
Eval vm_compute in ("<<<M1674>>>" ++ check (runes_of_ascii "MetaData trueish	{u8
Header , char[] body ,} root
packet rootA
    {@tag(255 )
    zchar[ 0123456789 ]
u8x , } root packet roots
{ match matchKey as  stringy {	255 : //x
packetx,""a\""b"" :
    f32a ,  1
:  trueish , 7 :u128 ,3 : Z9_
    , ""CRC32""
:leftPad	, }
,repeat f32a string_// packet A { u8 x, }
`" ++ [28040; 24687; 31867; 22411]%N ++ runes_of_ascii "` , @lengthOf( packetx ) string o
    // " ++ [128512]%N ++ runes_of_ascii " emoji
    , }
")).
Eval vm_compute in ("<<<M1706>>>" ++ check (runes_of_ascii "packet
falsey{ char[]
    // trailing space 
    f32a, @calculatedFrom(
""{,}"" )repeat
    //	t
    uint32 u8x	,
o @lengthOf(
repeatCount
) , zchar[ 65535 ]
// trailing space 
//x
uint8x @calculatedFrom( ""a\""b"") `two words`,char MetaDataX  @calculatedFrom( ""it's""
    ), }")).
Eval vm_compute in ("<<<M1738>>>" ++ check (runes_of_ascii "MetaData BodyLength{
roots
    trueish, string string_ ,
metadata
BodyLength , i8// packet A { u8 x, }
i8i8 , char[ 7 //
] Pad	, }
")).
Eval vm_compute in ("<<<M1770>>>" ++ check (runes_of_ascii "
")).
Eval vm_compute in ("<<<T1770>>>" ++ terms [mkTok 0 "<EOF>" 2 0 false] (mkPacket (mkPtok 0 "<EOF>" 2 0 0) None [])).
Eval vm_compute in ("<<<M1802>>>" ++ check (runes_of_ascii "
MetaData Foo { int32 a1 ,
i16 options1 `{ , }`
    , i64_ packetx
`" ++ [233]%N ++ runes_of_ascii "` ,	int64 Foo `tab	here`
,
// " ++ [27880; 37322]%N ++ runes_of_ascii "
// " ++ [27880; 37322]%N ++ runes_of_ascii "
repeatCount metadata ,
    u
    //
    MetaDataX
    ,
    }
/// triple
")).
Eval vm_compute in ("<<<M1834>>>" ++ check (runes_of_ascii "// c
root packet
msg_type {
@lengthOf( stringy ) o{repeat leftPad ,
    // packet A { u8 x, }
    f32a
    {
zchar[  10
] roots @calculatedFrom( """ ++ [233]%N ++ runes_of_ascii "t" ++ [233]%N ++ runes_of_ascii """ // `tick` ""quote"" 'q'
)	,},
}
    // " ++ [27880; 37322]%N ++ runes_of_ascii "
    ,@tag( 4294967296
)// `tick` ""quote"" 'q'
@lengthOf( calculatedFrom ) match
a1
as Pad { [  """" , 255 , ""`tick`""
, ""`tick`"" ,  007 ]
: f32a , } , repeat
//	t
//
string packetx
`say ""hi""`
, @tag( 1 ) u32 leftPad`line1
line2`
// " ++ [27880; 37322]%N ++ runes_of_ascii "
// @lengthOf(
,
// trailing space 
// trailing space 
@lengthOf(  len )
repeat char[ 0123456789 ] Packet , } MetaData	calculatedFrom  {	u64
    Foo
    ,
    int metadata `say ""hi""`
    , pack stringy ,  } root packet
i8i8
    {matchKey { repeat T
{repeat char[]options1
``
    , int64 As@lengthOf(
zchar), // " ++ [128512]%N ++ runes_of_ascii " emoji
string chars
    // " ++ [27880; 37322]%N ++ runes_of_ascii "
    ,	zchar[ 7]
//
// c
u
@calculatedFrom(
""\" ++ [233]%N ++ runes_of_ascii """), } ,
    // @lengthOf(
    }	,} root
    packet leftPad{ @lengthOf(
u128 ) float64 Logon	, } root packet u{ string	Foo
    , @leftPad (
'0' )
@rightPad ( )  uint16 u128
, @tag(
255 )	@rightPad
    ( ) match
    Z9_ as o { // `tick` ""quote"" 'q'
0123456789:
    uint8x
,
[ ""packet"", ""`tick`""
    /// triple
    , ""`tick`""
    , // trailing space 
255 ,""a\""b"" ,  ""x y"" ,00
, 10 // a // b
] :
T , } ,
@tag( 1
)repeat
    char[] f32a , //x
@leftPad
    (' ') match
u as
uint8x
    {7 : i8i8, }, repeat zchar[ 00
]falsey
`" ++ [233]%N ++ runes_of_ascii "`, }
")).
Eval vm_compute in ("<<<M1866>>>" ++ check (runes_of_ascii "/// triple
root packet f32a {
// trailing space 
// packet A { u8 x, }
@rightPad
    ( '\x00'
)
//x
//
f32
// @lengthOf(
/// triple
len@lengthOf(  u128) `a\` , } root
// " ++ [128512]%N ++ runes_of_ascii " emoji
//
packet	int
// `tick` ""quote"" 'q'
//	t
{ @leftPad
( '\x00' ) @calculatedFrom(""\n"" ) u16 i64_	,i8 Z9_ , char[ 3 ] calculatedFrom @lengthOf(
int),	}
")).
Eval vm_compute in ("<<<M1898>>>" ++ check (runes_of_ascii "
packet msg_type { repeat rootA
,
@lengthOf(// packet A { u8 x, }
uint8x )	match u128
as roots {
    ""x y""
    /// triple
    : // " ++ [27880; 37322]%N ++ runes_of_ascii "
o
,[ ""a	b""
    , 007 ] : //x
trueish ,
4294967296
/// triple
// a // b
: Z9_,[42]
: Pad , 1 :asx , } // " ++ [27880; 37322]%N ++ runes_of_ascii "
, @tag(
7 ) @tag( 42
)
    @tag( 0
) u32 x_y_z
,
Z9_@lengthOf(
    x_y_z
), @lengthOf(
    Pad ) // @lengthOf(
uint16 //
a1 , @calculatedFrom(
    ""packet"")//x
string_
{ uint32
Logon
    @calculatedFrom(// c
""\n"" ) ,  u128 ,x_y_z @lengthOf(
// packet A { u8 x, }
// packet A { u8 x, }
calculatedFrom
    ) ,} , repeatCount@lengthOf( falsey )
    `doc`
    ,
    string
o `tab	here`, match
packetx as MetaDataX	{
""" ++ [28040; 24687]%N ++ runes_of_ascii """
:
// packet A { u8 x, }
// a // b
crc	,
[	7 ,  42 , 00
,4294967296 ,""it's""
, 007,""\n"" , ""1"" ] :
f32a 255: options1
    [""`tick`"" ]  : x,  65535 // @lengthOf(
:
    //	t
    uint8x ,
    0123456789
:stringy ,
    // trailing space 
    },
    } /// triple")).
Eval vm_compute in ("<<<M1930>>>" ++ check (runes_of_ascii "// " ++ [27880; 37322]%N ++ runes_of_ascii "
packet x_y_z
    {
BodyLength , stringy // trailing space 
@calculatedFrom( ""1"")
    , //x
@tag( 0123456789
)
// `tick` ""quote"" 'q'
// " ++ [27880; 37322]%N ++ runes_of_ascii "
uint16
asx
    // c
    @lengthOf(
// " ++ [128512]%N ++ runes_of_ascii " emoji
// packet A { u8 x, }
rootA ) ,	tag {zchar[ 007 //x
]
crc  @calculatedFrom( ""// no comment"" ) // trailing space 
`// not a comment` , i32 int
,match lengthOf as Foo //
{ [
// `tick` ""quote"" 'q'
// c
""\" ++ [233]%N ++ runes_of_ascii """  , 42 , 4294967296
/// triple
// `tick` ""quote"" 'q'
,  7 ,
42, ""1""	, """ ++ [28040; 24687]%N ++ runes_of_ascii """,""x y"" ] :metadata , } , // trailing space 
roots ,
}
    ,
@leftPad// packet A { u8 x, }
( '\x00' )  repeat
    char[]
calculatedFrom, zchar[
    007  ] body @calculatedFrom(""`tick`"" ) `u8 x,` ,
repeatCount , @lengthOf( uint8x ) zchar[ 4294967296 ]  i8i8 , @tag(	0) @calculatedFrom( ""CRC32"")
match trueish as chars/// triple
{
    65535 : u128  }
    ,
// c
//x
}
    root packet u8x { match charz
as chars
    {
4294967296 :
    Header[
""\" ++ [233]%N ++ runes_of_ascii """ , ""a	b""
,10 ,
7 ,
""it's"" ] : Pad// c
00 : uint8x[	4294967296,
007 ] : int
} , } packet Foo {// `tick` ""quote"" 'q'
zchar As ``
    ,
}packet chars{
    @lengthOf(
charz ) Packet // " ++ [128512]%N ++ runes_of_ascii " emoji
`a\` , }")).
Eval vm_compute in ("<<<M1962>>>" ++ check (runes_of_ascii "
")).
Eval vm_compute in ("<<<M1994>>>" ++ check (runes_of_ascii "// packet A { u8 x, }
 // `tick` ""quote"" 'q'")).
Eval vm_compute in ("<<<T1994>>>" ++ terms [mkTok 44 "// packet A { u8 x, }" 1 0 true; mkTok 44 "// `tick` ""quote"" 'q'" 2 1 true; mkTok 0 "<EOF>" 2 22 false] (mkPacket (mkPtok 0 "<EOF>" 2 22 2) None [])).
Eval vm_compute in ("<<<M2026>>>" ++ check (runes_of_ascii "options{ i64_ string = ; trueish =
    '\x00'
    leftPad = ""a\\"" /// triple
; crc
    = 255; uint8x
=
""abc""
    ;}")).
Eval vm_compute in ("<<<M2058>>>" ++ check (runes_of_ascii "options{ i64_ = string ; trueish =
    '\x00'")).
Eval vm_compute in ("<<<M2090>>>" ++ check (runes_of_ascii "options{ i64_ = string ; trueish =
    '\x00'
    leftPad = ""a\\"" /// triple
; crc
    = 255; ; uint8x
=
""abc""
    ;}")).
Eval vm_compute in ("<<<M2122>>>" ++ check (runes_of_ascii "options{ i64_ ")).
Eval vm_compute in ("<<<M2154>>>" ++ check (runes_of_ascii "  packet
asx")).
Eval vm_compute in ("<<<M2186>>>" ++ check (runes_of_ascii "  packet
asx
{
/// triple
// @lengthOf(
u32 stringy
`" ++ [28040; 24687; 31867; 22411]%N ++ runes_of_ascii "` ,} MetaData
    A A {string  _x, zchar Header `a\`
// @lengthOf(
// packet A { u8 x, }
, char[] MetaDataX
,zchar[ 1 ]
    matchKey
    , char[] //
u,	char[0123456789 ]
    matchKey
    `{ , }`, }
")).
Eval vm_compute in ("<<<M2218>>>" ++ check (runes_of_ascii "  packet
asx
{
/// triple
// @lengthOf(
u32 stringy
`" ++ [28040; 24687; 31867; 22411]%N ++ runes_of_ascii "` ,} MetaData
    A {string  _x, zchar @tag( `a\`
// @lengthOf(
// packet A { u8 x, }
, char[] MetaDataX
,zchar[ 1 ]
    matchKey
    , char[] //
u,	char[0123456789 ]
    matchKey
    `{ , }`, }
")).
Eval vm_compute in ("<<<M2250>>>" ++ check (runes_of_ascii "  packet
asx
{
/// triple
// @lengthOf(
u32 stringy
`" ++ [28040; 24687; 31867; 22411]%N ++ runes_of_ascii "` ,} MetaData
    A {string  _x, zchar Header `a\`
// @lengthOf(
// packet A { u8 x, }
, char[] MetaDataX
,zchar[  ]
    matchKey
    , char[] //
u,	char[0123456789 ]
    matchKey
    `{ , }`, }
")).
Eval vm_compute in ("<<<M2282>>>" ++ check (runes_of_ascii "  packet
asx
{
/// triple
// @lengthOf(
u32 stringy
`" ++ [28040; 24687; 31867; 22411]%N ++ runes_of_ascii "` ,} MetaData
    A {string  _x, zchar Header `a\`
// @lengthOf(
// packet A { u8 x, }
, char[] MetaDataX
,zchar[ 1 ]
    matchKey
    , char[] //
u char[	,0123456789 ]
    matchKey
    `{ , }`, }
")).
Eval vm_compute in ("<<<M2314>>>" ++ check (runes_of_ascii "  packet
asx
{
/// triple
// @lengthOf(
u32 stringy
`" ++ [28040; 24687; 31867; 22411]%N ++ runes_of_ascii "` ,} MetaData
    A {string  _x, zchar Header `a\`
// @lengthOf(
// packet A { u8 x, }
, char[] MetaDataX
,zchar[ 1 ]
    matchKey
    , char[] //
u,	char[0123456789 ]
    matchKey
    `{ , }`")).
Eval vm_compute in ("<<<M2346>>>" ++ check (runes_of_ascii "root
    
Packet
{ // trailing space 
matchKey `tab	here` ,}")).
Eval vm_compute in ("<<<M2378>>>" ++ check (runes_of_ascii "root
    packet
Packet
{ // trailing space 
matchKey `tab	here` ,zchar[")).
Eval vm_compute in ("<<<M2410>>>" ++ check (runes_of_ascii "options f32 falsey // a // b
=
    '0' } options { repeatCount =
true ; string_// a // b
=
// c
// " ++ [27880; 37322]%N ++ runes_of_ascii "
int64
// trailing space 
/// triple
; } // @lengthOf(")).
Eval vm_compute in ("<<<M2442>>>" ++ check (runes_of_ascii "options{ falsey // a // b
=
    '0' } options {  =
true ; string_// a // b
=
// c
// " ++ [27880; 37322]%N ++ runes_of_ascii "
int64
// trailing space 
/// triple
; } // @lengthOf(")).
Eval vm_compute in ("<<<M2474>>>" ++ check (runes_of_ascii "options{ falsey // a // b
=
    '0' } options { repeatCount =
true ; string_// a // b
=
// c
// " ++ [27880; 37322]%N ++ runes_of_ascii "
;
// trailing space 
/// triple
int64 } // @lengthOf(")).
Eval vm_compute in ("<<<M2506>>>" ++ check (runes_of_ascii "options{ " ++ [21517; 23383]%N ++ runes_of_ascii " // a // b
=
    '0' } options { repeatCount =
true ; string_// a // b
=
// c
// " ++ [27880; 37322]%N ++ runes_of_ascii "
int64
// trailing space 
/// triple
; } // @lengthOf(")).
Eval vm_compute in ("<<<M2538>>>" ++ check (runes_of_ascii "options{}root packet
metadata 
@lengthOf(x ) float32
body ``, }
    MetaData
Z9_
    {
    string string_ , Logon x
,
uint32
    // packet A { u8 x, }
    Z9_,asx
_x
    `tab	here` , }
")).
Eval vm_compute in ("<<<M2570>>>" ++ check (runes_of_ascii "options{}root packet
metadata {
@lengthOf(x ) float32
body ,`` }
    MetaData
Z9_
    {
    string string_ , Logon x
,
uint32
    // packet A { u8 x, }
    Z9_,asx
_x
    `tab	here` , }
")).
Eval vm_compute in ("<<<M2602>>>" ++ check (runes_of_ascii "options{}root packet
metadata {
@lengthOf(x ) float32
body ``, }
    MetaData
Z9_
    {")).
Eval vm_compute in ("<<<M2634>>>" ++ check (runes_of_ascii "options{}root packet
metadata {
@lengthOf(x ) float32
body ``, }
    MetaData
Z9_
    {
    string string_ , Logon x
,
uint32
    // packet A { u8 x, }
    Z9_ Z9_,asx
_x
    `tab	here` , }
")).
Eval vm_compute in ("<<<M2666>>>" ++ check (runes_of_ascii "options{}root packet
metadata {
@lengthOf(x ) float32
body ``, }
    MetaData
Z9_
    {
    string string_ , Logon x
,
uint32
    // packet A { u8 x, }
    Z9_,asx
_x
    `tab	here` ,")).
Eval vm_compute in ("<<<M2698>>>" ++ check (runes_of_ascii "options")).
Eval vm_compute in ("<<<M2730>>>" ++ check (runes_of_ascii "options {
    falsey=
""a\\"" ; }| ")).
Eval vm_compute in ("<<<M2762>>>" ++ check (runes_of_ascii "MetaData f32a
{
    //	t
    root}
    packet tag  {
}
")).
Eval vm_compute in ("<<<M2794>>>" ++ check (runes_of_ascii "'1'MetaData f32a
{
    //	t
    }root
    packet tag  {
}
")).
Eval vm_compute in ("<<<M2826>>>" ++ check (runes_of_ascii "
options
    {msg_type 
    float32  }root
packet Z9_{ char /// triple
crc @lengthOf(
options1 ) //
,} MetaData a1{}
")).
Eval vm_compute in ("<<<M2858>>>" ++ check (runes_of_ascii "
options
    {msg_type =
    float32  }root
packet Z9_ char { /// triple
crc @lengthOf(
options1 ) //
,} MetaData a1{}
")).
Eval vm_compute in ("<<<M2890>>>" ++ check (runes_of_ascii "
options
    {msg_type =
    float32  }root
packet Z9_{ char /// triple
crc @lengthOf(
options1 )")).
Eval vm_compute in ("<<<M2922>>>" ++ check (runes_of_ascii "
/ options
    {msg_type =
    float32  }root
packet Z9_{ char /// triple
crc @lengthOf(
options1 ) //
,} MetaData a1{}
")).
Eval vm_compute in ("<<<M2954>>>" ++ check (runes_of_ascii "packet crc{ // " ++ [128512]%N ++ runes_of_ascii " emoji
string repeat i8i8
`a\`, }
")).
Eval vm_compute in ("<<<M2986>>>" ++ check (runes_of_ascii "packet crc{ // " ++ [128512]%N ++ runes_of_ascii " emoji
repeat string i8i8
`a\``, }
")).
Eval vm_compute in ("<<<M3018>>>" ++ check (runes_of_ascii "packet BodyLength { MetaData zchar{ zchar[// @lengthOf(
42 ]
    pack , string_
A , char[]crc , _x trueish ,
// " ++ [27880; 37322]%N ++ runes_of_ascii "
// " ++ [128512]%N ++ runes_of_ascii " emoji
zchar[
    3 ]	T // trailing space 
, } packet body
{
    }
")).
Eval vm_compute in ("<<<M3050>>>" ++ check (runes_of_ascii "packet BodyLength {} MetaData zchar{ zchar[// @lengthOf(
42 pack
    ] , string_
A , char[]crc , _x trueish ,
// " ++ [27880; 37322]%N ++ runes_of_ascii "
// " ++ [128512]%N ++ runes_of_ascii " emoji
zchar[
    3 ]	T // trailing space 
, } packet body
{
    }
")).
Eval vm_compute in ("<<<M3082>>>" ++ check (runes_of_ascii "packet BodyLength {} MetaData zchar{ zchar[// @lengthOf(
42 ]
    pack , string_
A ,")).
Eval vm_compute in ("<<<M3114>>>" ++ check (runes_of_ascii "packet BodyLength {} MetaData zchar{ zchar[// @lengthOf(
42 ]
    pack , string_
A , char[]crc , _x trueish ,
// " ++ [27880; 37322]%N ++ runes_of_ascii "
// " ++ [128512]%N ++ runes_of_ascii " emoji
zchar[
    3 3 ]	T // trailing space 
, } packet body
{
    }
")).
Eval vm_compute in ("<<<M3146>>>" ++ check (runes_of_ascii "packet BodyLength {} MetaData zchar{ zchar[// @lengthOf(
42 ]
    pack , string_
A , char[]crc , _x trueish ,
// " ++ [27880; 37322]%N ++ runes_of_ascii "
// " ++ [128512]%N ++ runes_of_ascii " emoji
zchar[
    3 ]	T // trailing space 
, } packet int8
{
    }
")).
Eval vm_compute in ("<<<M3178>>>" ++ check (runes_of_ascii "packet BodyLength {} MetaData " ++ [21517; 23383]%N ++ runes_of_ascii "{ zchar[// @lengthOf(
42 ]
    pack , string_
A , char[]crc , _x trueish ,
// " ++ [27880; 37322]%N ++ runes_of_ascii "
// " ++ [128512]%N ++ runes_of_ascii " emoji
zchar[
    3 ]	T // trailing space 
, } packet body
{
    }
")).
Eval vm_compute in ("<<<M3210>>>" ++ check (runes_of_ascii "packet
string_ {@lengthOf( int ) match match packetx as f32a {
    1 :	calculatedFrom , }  ,
    } packet len
    //	t
    { @calculatedFrom( """ ++ [233]%N ++ runes_of_ascii "t" ++ [233]%N ++ runes_of_ascii """ ) body Header , char[] lengthOf  `two words` ,chars{repeat string_ matchKey ,
    } ,
    }
")).
Eval vm_compute in ("<<<M3242>>>" ++ check (runes_of_ascii "packet
string_ {@lengthOf( int ) match packetx as f32a {
    1 ,	calculatedFrom , }  ,
    } packet len
    //	t
    { @calculatedFrom( """ ++ [233]%N ++ runes_of_ascii "t" ++ [233]%N ++ runes_of_ascii """ ) body Header , char[] lengthOf  `two words` ,chars{repeat string_ matchKey ,
    } ,
    }
")).
Eval vm_compute in ("<<<M3274>>>" ++ check (runes_of_ascii "packet
string_ {@lengthOf( int ) match packetx as f32a {
    1 :	calculatedFrom , }  ,
    } packet 
    //	t
    { @calculatedFrom( """ ++ [233]%N ++ runes_of_ascii "t" ++ [233]%N ++ runes_of_ascii """ ) body Header , char[] lengthOf  `two words` ,chars{repeat string_ matchKey ,
    } ,
    }
")).
Eval vm_compute in ("<<<M3306>>>" ++ check (runes_of_ascii "packet
string_ {@lengthOf( int ) match packetx as f32a {
    1 :	calculatedFrom , }  ,
    } packet len
    //	t
    { @calculatedFrom( """ ++ [233]%N ++ runes_of_ascii "t" ++ [233]%N ++ runes_of_ascii """ ) body , Header char[] lengthOf  `two words` ,chars{repeat string_ matchKey ,
    } ,
    }
")).
Eval vm_compute in ("<<<M3338>>>" ++ check (runes_of_ascii "packet
string_ {@lengthOf( int ) match packetx as f32a {
    1 :	calculatedFrom , }  ,
    } packet len
    //	t
    { @calculatedFrom( """ ++ [233]%N ++ runes_of_ascii "t" ++ [233]%N ++ runes_of_ascii """ ) body Header , char[] lengthOf  `two words` ,")).
Eval vm_compute in ("<<<M3370>>>" ++ check (runes_of_ascii "packet
string_ {@lengthOf( int ) match packetx as f32a {
    1 :	calculatedFrom , }  ,
    } packet len
    //	t
    { @calculatedFrom( """ ++ [233]%N ++ runes_of_ascii "t" ++ [233]%N ++ runes_of_ascii """ ) body Header , char[] lengthOf  `two words` ,chars{repeat string_ matchKey ,
    } , ,
    }
")).
Eval vm_compute in ("<<<M3402>>>" ++ check (runes_of_ascii "/// triple
root
packet // packet A { u8 x, }
chars { @lengthOf(charz )
stringy,  @tag(  0 ) // a // b
asx
    As
,
// trailing space 
// trailing space 
x_y_z {
repeat i16 charz , } , ,	int16  crc ,}
")).
Eval vm_compute in ("<<<M3434>>>" ++ check (runes_of_ascii "/// triple

packet // packet A { u8 x, }
chars { @lengthOf(charz )
stringy,  @tag(  0 ) // a // b
asx
    As
,
// trailing space 
// trailing space 
x_y_z {
repeat i16 charz , } ,	int16  crc ,}
")).
Eval vm_compute in ("<<<M3466>>>" ++ check (runes_of_ascii "/// triple
root
packet // packet A { u8 x, }
chars { @lengthOf(charz )
stringy,  @tag(  0 )")).
Eval vm_compute in ("<<<M3498>>>" ++ check (runes_of_ascii "zchar [")).
Eval vm_compute in ("<<<M3530>>>" ++ check (runes_of_ascii "MetaData")).
Eval vm_compute in ("<<<M3562>>>" ++ check (runes_of_ascii "@@")).
Eval vm_compute in ("<<<M3594>>>" ++ check (runes_of_ascii "007")).
Eval vm_compute in ("<<<M3626>>>" ++ check (runes_of_ascii "packet A { repeat u8 x @lengthOf(y), }")).
Eval vm_compute in ("<<<M3658>>>" ++ check (runes_of_ascii "packet A { x @calculatedFrom(c), }")).
Eval vm_compute in ("<<<M3690>>>" ++ check (runes_of_ascii "packet A { @leftPad u8 x, }")).
Eval vm_compute in ("<<<M3722>>>" ++ check (runes_of_ascii "MetaData M M { }")).
Eval vm_compute in ("<<<M3754>>>" ++ check (runes_of_ascii "")).
Eval vm_compute in ("<<<M3786>>>" ++ check (runes_of_ascii "@calculatedFrom( u32 MetaData @leftPad MetaData match , `a\` )")).
Eval vm_compute in ("<<<M3818>>>" ++ check (runes_of_ascii "@rightPad")).
Eval vm_compute in ("<<<M3850>>>" ++ check (runes_of_ascii "MetaData match ) char i16 repeat @tag( ] int64")).
Eval vm_compute in ("<<<M3882>>>" ++ check (runes_of_ascii "uint8 ,")).
Eval vm_compute in ("<<<M3914>>>" ++ check (runes_of_ascii "[ float32 false int32 `a\` ( } match ( string {")).
Eval vm_compute in ("<<<M3946>>>" ++ check (runes_of_ascii "@leftPad : false packet match")).
Eval vm_compute in ("<<<M3978>>>" ++ check (runes_of_ascii "options ; as false u64 as u32 i64 : int8 u8 root uint16")).
