From FP Require Import Lexer Parser ShowPT Digest.
From Coq Require Import String List NArith.
Import ListNotations.
Open Scope string_scope.
Set Printing Width 100000000.
Set Printing Depth 100000000.
Definition nl : string := String (Ascii.ascii_of_nat 10) EmptyString.
Definition model_lex (rs : list rune) : string := show_toks (lex rs).
Definition model_parse (rs : list rune) : string :=
  show_pt (match lex rs with Some ts => parse ts | None => None end).
(* coqc is slow at printing long strings: digests first (Digest.v), full texts on demand *)
Definition check (rs : list rune) : string :=
  digest (model_lex rs) ++ " " ++ digest (model_parse rs).
Definition full (rs : list rune) : string := model_lex rs ++ nl ++ model_parse rs.
Definition terms (ts : list tok) (t : pt) : string :=
  digest (show_toks (Some ts)) ++ " " ++ digest (show_pt (Some t)) ++ " " ++ digest (show_pt (parse ts)).
Definition terms_full (ts : list tok) (t : pt) : string :=
  show_toks (Some ts) ++ nl ++ show_pt (Some t) ++ nl ++ show_pt (parse ts).
Eval vm_compute in ("<<<M10>>>" ++ check (runes_of_ascii "
packet As {
// " ++ [27880; 37322]%N ++ runes_of_ascii "
// " ++ [27880; 37322]%N ++ runes_of_ascii "
Foo , @lengthOf( f32a ) float32 a1 ,	string pack @lengthOf( i64_
)`crlf
line`, @rightPad () @leftPad
    ( '\x00'
    ) @calculatedFrom(
""// no comment"") repeat Header charz , }
")).
Eval vm_compute in ("<<<M42>>>" ++ check (runes_of_ascii "options	{
    // 50% %s
    Foo
=
zchar[ 1
    ]
uint8x= ""// no comment""Pad =
char[]
    // 50% %s
    ; // c
A
    =
4294967296 a1
    = ""`tick`"" ; } packet BodyLength {  @calculatedFrom(
""packet""
) roots `100% of %d` ,@tag(10 ) f32 uint8x `{ , }`/// triple
,
}
")).
Eval vm_compute in ("<<<M74>>>" ++ check (runes_of_ascii "packet	x_y_z
{ @tag( 00 // @lengthOf(
) i16 packetx
,string stringy @lengthOf( u
    ) , repeat packetx
,	@rightPad
    (
'\x00' ) @tag(
007 ) uint64 f32a
@lengthOf( asx
) ,
    msg_type@calculatedFrom(
    ""a\""b"" ), string_
    @lengthOf( packetx	), char[]calculatedFrom, @lengthOf( msg_type)  @calculatedFrom( """" )
    @rightPad
( '0' ) rootA , @leftPad(
' ' )  match
_x  as
    string_{ 00 :
chars ,
    } ,
u32 Z9_ `" ++ [233]%N ++ runes_of_ascii "` , }MetaData i64_
//
//x
{u8x//	t
Logon
    , char	Z9_
, char[] Packet`u8 x,` , char[ 10
    ] // a // b
options1
    , }")).
Eval vm_compute in ("<<<M106>>>" ++ check (runes_of_ascii "//	t
root packet As
// c
// " ++ [128512]%N ++ runes_of_ascii " emoji
{
} options
{ }
")).
Eval vm_compute in ("<<<M138>>>" ++ check (runes_of_ascii "MetaData//
uint8x { } packet
BodyLength{ @calculatedFrom( ""{,}"" ) zchar // packet A { u8 x, }
body ,
char // a // b
a1 `tab	here`	, match
    matchKey as rootA { 0123456789
    :float
    }, match packetx as	calculatedFrom {
    42//	t
: x_y_z , } ,
    } packet pack	{
    // " ++ [128512]%N ++ runes_of_ascii " emoji
    string// packet A { u8 x, }
x_y_z
    ,
    @calculatedFrom( ""a\\"" // " ++ [27880; 37322]%N ++ runes_of_ascii "
) repeat
u Foo
`` , //	t
}
")).
Eval vm_compute in ("<<<M170>>>" ++ check (runes_of_ascii "packet int
{
    // " ++ [128512]%N ++ runes_of_ascii " emoji
    } options{
Z9_ = ' ';
    repeatCount = 0
    Header = zchar[ 007
    ] i64_
/// triple
// " ++ [128512]%N ++ runes_of_ascii " emoji
= """ ++ [128512]%N ++ runes_of_ascii """ ;  }root packet leftPad{
roots, }root packet Foo { repeat//x
MetaDataX u8x
    `crlf
line`
, @lengthOf(
    Header ) zchar[ 65535 ] metadata `u8 x,` , @tag( 65535 ) stringy{ options1 @lengthOf( asx ) , } , char[0
]
    Packet `two words`
,@lengthOf( u8x) int @lengthOf(
Logon ) , } 	 ")).
Eval vm_compute in ("<<<M202>>>" ++ check (runes_of_ascii "
")).
Eval vm_compute in ("<<<T202>>>" ++ terms [mkTok 0 "<EOF>" 2 0 false] (mkPacket (mkPtok 0 "<EOF>" 2 0 0) None [])).
Eval vm_compute in ("<<<M234>>>" ++ check (runes_of_ascii "MetaData stringy
{
    char[]
    u
    ,	leftPad body, char[] matchKey , u32
    Z9_	, crc body `" ++ [28040; 24687; 31867; 22411]%N ++ runes_of_ascii "`, uint8 packetx , } root //	t
packet
    pack// " ++ [128512]%N ++ runes_of_ascii " emoji
{ @rightPad( ' ' ) float
    int ,
@calculatedFrom( """" )
body
    {
match
lengthOf
    // a // b
    as a1 { 255 // `tick` ""quote"" 'q'
: trueish
    ,""\" ++ [233]%N ++ runes_of_ascii """
:
// 50% %s
// @lengthOf(
trueish 1
:rootA	}
    ,	},
}	options { }")).
Eval vm_compute in ("<<<M266>>>" ++ check (runes_of_ascii "packet // 50% %s
o { @tag( 255 )rootA
chars , u { len @lengthOf( msg_type )`tab	here`,// " ++ [128512]%N ++ runes_of_ascii " emoji
char[] pack `a\`
,} ,@lengthOf(uint8x )match
// " ++ [27880; 37322]%N ++ runes_of_ascii "
// `tick` ""quote"" 'q'
MetaDataX as BodyLength
    {""CRC32"" :// trailing space 
A
} , @tag(
    65535)	int32 u8x @calculatedFrom( ""// no comment"" )
`two words` ,	@tag( 42 ) match zchar as stringy { [
4294967296
]
    :
    i64_ }, }root
    packet
options1
{ repeat As`// not a comment` ,
    repeat lengthOf {A chars , } , packetx  { f32 metadata ,
int64 u8x
    // " ++ [128512]%N ++ runes_of_ascii " emoji
    @calculatedFrom(""1""  ) , int16 rootA , repeat
    i16	_x
, }
// " ++ [27880; 37322]%N ++ runes_of_ascii "
// c
, repeat x_y_z {repeat
    u16 Header
    `100% of %d` ,
    // @lengthOf(
    }, match x // packet A { u8 x, }
as
charz
    { ""// no comment""	:
    // " ++ [128512]%N ++ runes_of_ascii " emoji
    As
, [ 65535
,4294967296] :i8i8 , [
""x y"" //x
,42	,4294967296 ] : i8i8 ,[007,3  ]: options1
,""a\\"" : f32a ,	} , repeat body , @calculatedFrom(// trailing space 
""" ++ [233]%N ++ runes_of_ascii "t" ++ [233]%N ++ runes_of_ascii """ ) char[ 007 ]
trueish @lengthOf( // c
_x) , }
    MetaData packetx { }options {
    lengthOf
= 7 lengthOf
    = ' ' ; string_=
0
;
}")).
Eval vm_compute in ("<<<M298>>>" ++ check (runes_of_ascii "// `tick` ""quote"" 'q'
MetaData
string_ { uint8
asx
    ,
    string A //	t
, }
")).
Eval vm_compute in ("<<<M330>>>" ++ check (runes_of_ascii "// a // b
 // packet A { u8 x, }")).
Eval vm_compute in ("<<<M362>>>" ++ check (runes_of_ascii "// a // b
options {
    // `tick` ""quote"" 'q'
    metadata = i64 string_=uint16 _x = i8 calculatedFrom  =  ""1"" ; } options {
i8i8 =  uint32 ;tag = ""a\\"" ;
roots = char[7	] Logon
=  ""a\\""	; } MetaData repeatCount {
    // 50% %s
    MetaDataX falsey`// not a comment` ,// c
} // `tick` ""quote"" 'q'")).
Eval vm_compute in ("<<<M394>>>" ++ check (runes_of_ascii "
")).
Eval vm_compute in ("<<<M426>>>" ++ check (runes_of_ascii "MetaData packetx{ zchar T ,u128 x
,	} options // `tick` ""quote"" 'q'
{ }")).
Eval vm_compute in ("<<<T426>>>" ++ terms [mkTok 37 "MetaData" 1 0 false; mkTok 42 "packetx" 1 9 false; mkTok 2 "{" 1 16 false; mkTok 42 "zchar" 1 18 false; mkTok 42 "T" 1 24 false; mkTok 40 "," 1 26 false; mkTok 42 "u128" 1 27 false; mkTok 42 "x" 1 32 false; mkTok 40 "," 2 0 false; mkTok 3 "}" 2 2 false; mkTok 1 "options" 2 4 false; mkTok 44 "// `tick` ""quote"" 'q'" 2 12 true; mkTok 2 "{" 3 0 false; mkTok 3 "}" 3 2 false; mkTok 0 "<EOF>" 3 3 false] (mkPacket (mkPtok 37 "MetaData" 1 0 0) (Some (mkPtok 3 "}" 3 2 13)) [(DMeta (mkMetaDef (mkSpan (mkPtok 37 "MetaData" 1 0 0) (mkPtok 3 "}" 2 2 9)) (mkPtok 37 "MetaData" 1 0 0) (mkPtok 42 "packetx" 1 9 1) (mkPtok 2 "{" 1 16 2) [(MIRef (mkRefMetaDecl (mkSpan (mkPtok 42 "zchar" 1 18 3) (mkPtok 40 "," 1 26 5)) (mkPtok 42 "zchar" 1 18 3) (mkPtok 42 "T" 1 24 4) None (mkPtok 40 "," 1 26 5))); (MIRef (mkRefMetaDecl (mkSpan (mkPtok 42 "u128" 1 27 6) (mkPtok 40 "," 2 0 8)) (mkPtok 42 "u128" 1 27 6) (mkPtok 42 "x" 1 32 7) None (mkPtok 40 "," 2 0 8)))] (mkPtok 3 "}" 2 2 9))); (DOption (mkOptionDef (mkSpan (mkPtok 1 "options" 2 4 10) (mkPtok 3 "}" 3 2 13)) (mkPtok 1 "options" 2 4 10) (mkPtok 2 "{" 3 0 12) [] (mkPtok 3 "}" 3 2 13)))])).
Eval vm_compute in ("<<<M458>>>" ++ check (runes_of_ascii "root
packet i8i8 {
repeat int8 tag
`two words`
,}
")).
Eval vm_compute in ("<<<M490>>>" ++ check (runes_of_ascii "options {}")).
Eval vm_compute in ("<<<M522>>>" ++ check (runes_of_ascii "options {
roots= true
;/// triple
MetaDataX =3 ;
    trueish	= 10
    //	t
    } packet o  { @calculatedFrom(
""" ++ [233]%N ++ runes_of_ascii "t" ++ [233]%N ++ runes_of_ascii """ ) match calculatedFrom as Foo { 1
: leftPad
,7 :
    Foo[	""" ++ [233]%N ++ runes_of_ascii "t" ++ [233]%N ++ runes_of_ascii """ ] :roots //	t
,
}
    , @calculatedFrom( ""\n""	) @tag( 7	)	@tag( 0123456789) match Header as asx { 10 //	t
:
    pack//
,42 :
// trailing space 
// c
asx, [ 0 ]
    :
leftPad , ""CRC32"" :	stringy
, }	, @tag( 0 )
u128@lengthOf(
    calculatedFrom) `" ++ [28040; 24687; 31867; 22411]%N ++ runes_of_ascii "`,zchar[ // `tick` ""quote"" 'q'
42 ] i64_ // a // b
@lengthOf(	u128 )
    `line1
line2`
    ,} root packet x_y_z
    {
repeat
    zchar[255
    ]
leftPad ,BodyLength
, @calculatedFrom( ""x y"") int8 /// triple
o @calculatedFrom( // @lengthOf(
""\" ++ [233]%N ++ runes_of_ascii """ )
,} // " ++ [27880; 37322]%N)).
Eval vm_compute in ("<<<M554>>>" ++ check (runes_of_ascii "
packet calculatedFrom { } options { leftPad = true	Pad=true pack
=int64
    ; calculatedFrom=
'0' ; stringy
= false } MetaData As { calculatedFrom u8x,
} root
    packet	charz{ }packet
// `tick` ""quote"" 'q'
// 50% %s
calculatedFrom {
    @calculatedFrom( ""\" ++ [233]%N ++ runes_of_ascii """
)@leftPad
    // " ++ [128512]%N ++ runes_of_ascii " emoji
    ( )
repeat char[
3] chars `// not a comment`, // @lengthOf(
match packetx // " ++ [128512]%N ++ runes_of_ascii " emoji
as	MetaDataX { ""a	b"" :
As , [
    //	t
    255 , 42
] :len
    , } , }
// " ++ [27880; 37322]%N ++ runes_of_ascii "
")).
Eval vm_compute in ("<<<M586>>>" ++ check (runes_of_ascii "root packet packetx
    {
    @calculatedFrom(""a\\"" ) repeat
zchar[1 ]Pad
    ,repeat trueish
    , //	t
@rightPad (
// `tick` ""quote"" 'q'
// " ++ [128512]%N ++ runes_of_ascii " emoji
' ' )// trailing space 
match u as zchar
{ 42
:BodyLength
,
[
0123456789
,0,
    ""\n"" ,	""{,}"" , ""x y"",
    ""CRC32"" ,
00 ]
:
tag// " ++ [27880; 37322]%N ++ runes_of_ascii "
[ 65535, 65535 , ""{,}"" ,
""" ++ [28040; 24687]%N ++ runes_of_ascii """
,//	t
""CRC32"" ,
""{,}"" ,
    ""`tick`"" , ""x y"" ]
    : x
    ,""abc"": x , 42	: f32a ""a\""b"" :Logon }, @rightPad  ( '\x00' // `tick` ""quote"" 'q'
) stringy
asx , @tag(
    007 )
    u64 a1 `crlf
line` , }
packet/// triple
A {@calculatedFrom( ""abc"" )@calculatedFrom(
    """ ++ [128512]%N ++ runes_of_ascii """
)repeat
    char[ 42	]
Packet
    //
    , zchar[ 42
] i8i8@calculatedFrom(
    ""{,}"" )  `100% of %d` ,// @lengthOf(
string int @lengthOf( T
) , }")).
Eval vm_compute in ("<<<M618>>>" ++ check (runes_of_ascii "packet body {
    @lengthOf( Pad
    )
@tag( 007)
    @tag( 00
    ) crc// 50% %s
@lengthOf( falsey
// @lengthOf(
//	t
) ,  @leftPad ( ' ' )  repeat	string repeatCount `u8 x,` ,@rightPad ( )@leftPad (' ')
uint8x
    u128 ,@calculatedFrom(
// " ++ [27880; 37322]%N ++ runes_of_ascii "
// 50% %s
""\n""
) packetx
lengthOf , } packet  body
{ @calculatedFrom( ""\" ++ [233]%N ++ runes_of_ascii """ )	metadata // `tick` ""quote"" 'q'
asx
    `100% of %d` , //
match
    chars as uint8x
{""1""
: //	t
options1  ,	7: rootA ,""// no comment"" :float
    }
, char[  4294967296 // " ++ [128512]%N ++ runes_of_ascii " emoji
] o
,}")).
Eval vm_compute in ("<<<M650>>>" ++ check (runes_of_ascii "root //x
packet  u{
    /// triple
    chars
// trailing space 
//x
u128
,
}

")).
Eval vm_compute in ("<<<T650>>>" ++ terms [mkTok 34 "root" 1 0 false; mkTok 44 "//x" 1 5 true; mkTok 35 "packet" 2 0 false; mkTok 42 "u" 2 8 false; mkTok 2 "{" 2 9 false; mkTok 44 "/// triple" 3 4 true; mkTok 42 "chars" 4 4 false; mkTok 44 "// trailing space " 5 0 true; mkTok 44 "//x" 6 0 true; mkTok 42 "u128" 7 0 false; mkTok 40 "," 8 0 false; mkTok 3 "}" 9 0 false; mkTok 0 "<EOF>" 11 0 false] (mkPacket (mkPtok 34 "root" 1 0 0) (Some (mkPtok 3 "}" 9 0 11)) [(DPacket (mkPacketDef (mkSpan (mkPtok 34 "root" 1 0 0) (mkPtok 3 "}" 9 0 11)) (Some (mkPtok 34 "root" 1 0 0)) (mkPtok 35 "packet" 2 0 2) (mkPtok 42 "u" 2 8 3) (mkPtok 2 "{" 2 9 4) [(mkFieldWithAttr (mkSpan (mkPtok 42 "chars" 4 4 6) (mkPtok 40 "," 8 0 10)) [] (ObjectField (mkSpan (mkPtok 42 "chars" 4 4 6) (mkPtok 40 "," 8 0 10)) None (mkPtok 42 "chars" 4 4 6) (Some (mkPtok 42 "u128" 7 0 9)) None (mkPtok 40 "," 8 0 10)))] (mkPtok 3 "}" 9 0 11)))])).
Eval vm_compute in ("<<<M682>>>" ++ check (runes_of_ascii "root packet
    _x {  zchar[ 10 ] A `tab	here`
    // `tick` ""quote"" 'q'
    , }
")).
Eval vm_compute in ("<<<M714>>>" ++ check (runes_of_ascii "packet
float // a // b
{ repeat string_
{
f64 trueish,  u8
    /// triple
    body `// not a comment` //
,
// a // b
// @lengthOf(
int64
    //x
    packetx@lengthOf(  zchar ), }
, @calculatedFrom( ""`tick`"")
repeat  zchar[ 007]u8x// trailing space 
`line1
line2` ,
// " ++ [27880; 37322]%N ++ runes_of_ascii "
// c
repeat chars`say ""hi""`
,// trailing space 
} MetaData
asx {//	t
a1
    chars
// trailing space 
// c
`it's`
, i64 // " ++ [128512]%N ++ runes_of_ascii " emoji
int
,
}")).
Eval vm_compute in ("<<<M746>>>" ++ check (runes_of_ascii "root packet
    pack {}  packet Z9_	{
u64 BodyLength ,
    @calculatedFrom( ""// no comment""
)@lengthOf(	tag  ) packetx `
` ,// `tick` ""quote"" 'q'
charz
, @tag( 255 ) lengthOf { repeat calculatedFrom
{
// c
// 50% %s
char[]stringy `
`, }
,	repeat
len `" ++ [233]%N ++ runes_of_ascii "` , string falsey `a\`,	repeat string
x `tab	here`  ,
    }, char[]roots ,char metadata
, @leftPad(
'\x00' ) @lengthOf(As ) Packet//
@lengthOf(
BodyLength )`" ++ [28040; 24687; 31867; 22411]%N ++ runes_of_ascii "`
,	repeat lengthOf{
// c
//	t
repeat
MetaDataX u128`
`
    , repeat string  calculatedFrom , char len ,  float32 _x,}
,match trueish as pack{ [ """"
,
""CRC32""
, 3 , 00 ,
    1 , 65535,
""a\""b"" // c
] : charz	,
    }, }
packet tag // a // b
{ zchar[ 4294967296 ]
    uint8x ,
@tag(
4294967296)
    char[ // " ++ [128512]%N ++ runes_of_ascii " emoji
0 ]  Pad `{ , }` ,// a // b
repeatCount falsey
    ,repeat uint64 _x , @calculatedFrom( ""// no comment"" ) repeat calculatedFrom ,
repeat metadata
    { repeat char trueish
`{ , }` ,
}  ,repeat
charz
roots
, @tag( 00 )
    //	t
    u16 x `{ , }` ,
// c
//x
@tag( 3 )
@lengthOf(
    metadata ) // packet A { u8 x, }
@tag( 0123456789)
repeat
    u64 roots
, //x
repeat
char[] MetaDataX ,
// `tick` ""quote"" 'q'
// packet A { u8 x, }
}
")).
Eval vm_compute in ("<<<M778>>>" ++ check (runes_of_ascii "MetaData float {  i64_
    roots , char[ 007
    ]
int, /// triple
msg_type
    rootA
// " ++ [27880; 37322]%N ++ runes_of_ascii "
/// triple
,
    char[	255 ]x_y_z
`crlf
line` ,
uint8x	body, }	options { // " ++ [128512]%N ++ runes_of_ascii " emoji
msg_type =false} packet
string_	{o Pad ,zchar[0123456789 ] zchar
    @calculatedFrom( ""CRC32"" ) , uint8  matchKey , }options { //
T= f32 ;options1 // packet A { u8 x, }
= """" ; matchKey = """ ++ [233]%N ++ runes_of_ascii "t" ++ [233]%N ++ runes_of_ascii """
;
    x// packet A { u8 x, }
= ""x y"" packetx =
    // 50% %s
    ""x y""
//
// a // b
}
")).
Eval vm_compute in ("<<<M810>>>" ++ check (runes_of_ascii "root
packet asx {  packetx u128 `a\`
//x
// " ++ [128512]%N ++ runes_of_ascii " emoji
,repeat
    //	t
    i32 x , }	options { pack  =
    true As = """ ++ [128512]%N ++ runes_of_ascii """
    ;  }
// a // b
")).
Eval vm_compute in ("<<<M842>>>" ++ check (runes_of_ascii "packet
Packet { char[]
    len ,}
")).
Eval vm_compute in ("<<<M874>>>" ++ check (runes_of_ascii "
options { BodyLength
    =7 ; len=string As =char[ 7 ] ;
    } options // c
{	} root packet zchar {
    @rightPad( ' '
)
    char[]zchar @calculatedFrom(
""a\\""
), zchar[/// triple
7
] i64_ , @lengthOf(  u8x )
    /// triple
    @lengthOf( i8i8)
body @lengthOf( body ) , roots{ match string_ as Z9_{""" ++ [128512]%N ++ runes_of_ascii """	: body  ,10 /// triple
:matchKey , 0123456789 :packetx
,[""packet"" ,  ""abc"" , ""CRC32"" ,  0 ,
1 , 0123456789 ] :Header, 65535
    //
    :
    lengthOf , }	, }
    ,
@calculatedFrom( """")match
float  as calculatedFrom
    {// 50% %s
""" ++ [128512]%N ++ runes_of_ascii """ :	Logon [ 3 , 65535	] :options1 , ""a\\""	:
    Foo } ,Logon//
,match o as calculatedFrom//
{
3 : uint8x }
, rootA repeatCount ,// c
options1  { f32
    // `tick` ""quote"" 'q'
    crc	,
    char[]MetaDataX , repeat
    // packet A { u8 x, }
    zchar[ 3 ] Header`line1
line2` , body {
    repeat Packet ,
Header
{char[] float @calculatedFrom( ""\" ++ [233]%N ++ runes_of_ascii """) `" ++ [233]%N ++ runes_of_ascii "`	,
match zchar as matchKey { [	""CRC32""
    ]: Foo ,
    // @lengthOf(
    """ ++ [233]%N ++ runes_of_ascii "t" ++ [233]%N ++ runes_of_ascii """ :	BodyLength , 0123456789 :crc ,""it's""
: stringy ,
    ""a\\"" :
    asx
,
} , u64 leftPad  @calculatedFrom(""`tick`"" ),
// 50% %s
// c
packetx , } ,
f64 crc , zchar[	65535]zchar
, } , // a // b
},
    @calculatedFrom( // `tick` ""quote"" 'q'
""// no comment"" ) u64 i8i8
, }
    // " ++ [27880; 37322]%N ++ runes_of_ascii "
    MetaData
    u128
    // c
    {
} 	 ")).
Eval vm_compute in ("<<<T874>>>" ++ terms [mkTok 1 "options" 2 0 false; mkTok 2 "{" 2 8 false; mkTok 42 "BodyLength" 2 10 false; mkTok 4 "=" 3 4 false; mkTok 30 "7" 3 5 false; mkTok 41 ";" 3 7 false; mkTok 42 "len" 3 9 false; mkTok 4 "=" 3 12 false; mkTok 15 "string" 3 13 false; mkTok 42 "As" 3 20 false; mkTok 4 "=" 3 23 false; mkTok 12 "char[" 3 24 false; mkTok 30 "7" 3 30 false; mkTok 13 "]" 3 32 false; mkTok 41 ";" 3 34 false; mkTok 3 "}" 4 4 false; mkTok 1 "options" 4 6 false; mkTok 44 "// c" 4 14 true; mkTok 2 "{" 5 0 false; mkTok 3 "}" 5 2 false; mkTok 34 "root" 5 4 false; mkTok 35 "packet" 5 9 false; mkTok 42 "zchar" 5 16 false; mkTok 2 "{" 5 22 false; mkTok 32 "@rightPad" 6 4 false; mkTok 8 "(" 6 13 false; mkTok 33 "' '" 6 15 false; mkTok 6 ")" 7 0 false; mkTok 16 "char[]" 8 4 false; mkTok 42 "zchar" 8 10 false; mkTok 5 "@calculatedFrom(" 8 16 false; mkTok 31 """a\\""" 9 0 false; mkTok 6 ")" 10 0 false; mkTok 40 "," 10 1 false; mkTok 14 "zchar[" 10 3 false; mkTok 44 "/// triple" 10 9 true; mkTok 30 "7" 11 0 false; mkTok 13 "]" 12 0 false; mkTok 42 "i64_" 12 2 false; mkTok 40 "," 12 7 false; mkTok 7 "@lengthOf(" 12 9 false; mkTok 42 "u8x" 12 21 false; mkTok 6 ")" 12 25 false; mkTok 44 "/// triple" 13 4 true; mkTok 7 "@lengthOf(" 14 4 false; mkTok 42 "i8i8" 14 15 false; mkTok 6 ")" 14 19 false; mkTok 42 "body" 15 0 false; mkTok 7 "@lengthOf(" 15 5 false; mkTok 42 "body" 15 16 false; mkTok 6 ")" 15 21 false; mkTok 40 "," 15 23 false; mkTok 42 "roots" 15 25 false; mkTok 2 "{" 15 30 false; mkTok 38 "match" 15 32 false; mkTok 42 "string_" 15 38 false; mkTok 17 "as" 15 46 false; mkTok 42 "Z9_" 15 49 false; mkTok 2 "{" 15 52 false; mkTok 31 (string_of_bytes [34; 240; 159; 152; 128; 34]%N) 15 53 false; mkTok 39 ":" 15 57 false; mkTok 42 "body" 15 59 false; mkTok 40 "," 15 65 false; mkTok 30 "10" 15 66 false; mkTok 44 "/// triple" 15 69 true; mkTok 39 ":" 16 0 false; mkTok 42 "matchKey" 16 1 false; mkTok 40 "," 16 10 false; mkTok 30 "0123456789" 16 12 false; mkTok 39 ":" 16 23 false; mkTok 42 "packetx" 16 24 false; mkTok 40 "," 17 0 false; mkTok 18 "[" 17 1 false; mkTok 31 """packet""" 17 2 false; mkTok 40 "," 17 11 false; mkTok 31 """abc""" 17 14 false; mkTok 40 "," 17 20 false; mkTok 31 """CRC32""" 17 22 false; mkTok 40 "," 17 30 false; mkTok 30 "0" 17 33 false; mkTok 40 "," 17 35 false; mkTok 30 "1" 18 0 false; mkTok 40 "," 18 2 false; mkTok 30 "0123456789" 18 4 false; mkTok 13 "]" 18 15 false; mkTok 39 ":" 18 17 false; mkTok 42 "Header" 18 18 false; mkTok 40 "," 18 24 false; mkTok 30 "65535" 18 26 false; mkTok 44 "//" 19 4 true; mkTok 39 ":" 20 4 false; mkTok 42 "lengthOf" 21 4 false; mkTok 40 "," 21 13 false; mkTok 3 "}" 21 15 false; mkTok 40 "," 21 17 false; mkTok 3 "}" 21 19 false; mkTok 40 "," 22 4 false; mkTok 5 "@calculatedFrom(" 23 0 false; mkTok 31 """""" 23 17 false; mkTok 6 ")" 23 19 false; mkTok 38 "match" 23 20 false; mkTok 42 "float" 24 0 false; mkTok 17 "as" 24 7 false; mkTok 42 "calculatedFrom" 24 10 false; mkTok 2 "{" 25 4 false; mkTok 44 "// 50% %s" 25 5 true; mkTok 31 (string_of_bytes [34; 240; 159; 152; 128; 34]%N) 26 0 false; mkTok 39 ":" 26 4 false; mkTok 42 "Logon" 26 6 false; mkTok 18 "[" 26 12 false; mkTok 30 "3" 26 14 false; mkTok 40 "," 26 16 false; mkTok 30 "65535" 26 18 false; mkTok 13 "]" 26 24 false; mkTok 39 ":" 26 26 false; mkTok 42 "options1" 26 27 false; mkTok 40 "," 26 36 false; mkTok 31 """a\\""" 26 38 false; mkTok 39 ":" 26 44 false; mkTok 42 "Foo" 27 4 false; mkTok 3 "}" 27 8 false; mkTok 40 "," 27 10 false; mkTok 42 "Logon" 27 11 false; mkTok 44 "//" 27 16 true; mkTok 40 "," 28 0 false; mkTok 38 "match" 28 1 false; mkTok 42 "o" 28 7 false; mkTok 17 "as" 28 9 false; mkTok 42 "calculatedFrom" 28 12 false; mkTok 44 "//" 28 26 true; mkTok 2 "{" 29 0 false; mkTok 30 "3" 30 0 false; mkTok 39 ":" 30 2 false; mkTok 42 "uint8x" 30 4 false; mkTok 3 "}" 30 11 false; mkTok 40 "," 31 0 false; mkTok 42 "rootA" 31 2 false; mkTok 42 "repeatCount" 31 8 false; mkTok 40 "," 31 20 false; mkTok 44 "// c" 31 21 true; mkTok 42 "options1" 32 0 false; mkTok 2 "{" 32 10 false; mkTok 28 "f32" 32 12 false; mkTok 44 "// `tick` ""quote"" 'q'" 33 4 true; mkTok 42 "crc" 34 4 false; mkTok 40 "," 34 8 false; mkTok 16 "char[]" 35 4 false; mkTok 42 "MetaDataX" 35 10 false; mkTok 40 "," 35 20 false; mkTok 36 "repeat" 35 22 false; mkTok 44 "// packet A { u8 x, }" 36 4 true; mkTok 14 "zchar[" 37 4 false; mkTok 30 "3" 37 11 false; mkTok 13 "]" 37 13 false; mkTok 42 "Header" 37 15 false; mkTok 43 (string_of_bytes [96; 108; 105; 110; 101; 49; 10; 108; 105; 110; 101; 50; 96]%N) 37 21 false; mkTok 40 "," 38 7 false; mkTok 42 "body" 38 9 false; mkTok 2 "{" 38 14 false; mkTok 36 "repeat" 39 4 false; mkTok 42 "Packet" 39 11 false; mkTok 40 "," 39 18 false; mkTok 42 "Header" 40 0 false; mkTok 2 "{" 41 0 false; mkTok 16 "char[]" 41 1 false; mkTok 42 "float" 41 8 false; mkTok 5 "@calculatedFrom(" 41 14 false; mkTok 31 (string_of_bytes [34; 92; 195; 169; 34]%N) 41 31 false; mkTok 6 ")" 41 35 false; mkTok 43 (string_of_bytes [96; 195; 169; 96]%N) 41 37 false; mkTok 40 "," 41 41 false; mkTok 38 "match" 42 0 false; mkTok 42 "zchar" 42 6 false; mkTok 17 "as" 42 12 false; mkTok 42 "matchKey" 42 15 false; mkTok 2 "{" 42 24 false; mkTok 18 "[" 42 26 false; mkTok 31 """CRC32""" 42 28 false; mkTok 13 "]" 43 4 false; mkTok 39 ":" 43 5 false; mkTok 42 "Foo" 43 7 false; mkTok 40 "," 43 11 false; mkTok 44 "// @lengthOf(" 44 4 true; mkTok 31 (string_of_bytes [34; 195; 169; 116; 195; 169; 34]%N) 45 4 false; mkTok 39 ":" 45 10 false; mkTok 42 "BodyLength" 45 12 false; mkTok 40 "," 45 23 false; mkTok 30 "0123456789" 45 25 false; mkTok 39 ":" 45 36 false; mkTok 42 "crc" 45 37 false; mkTok 40 "," 45 41 false; mkTok 31 """it's""" 45 42 false; mkTok 39 ":" 46 0 false; mkTok 42 "stringy" 46 2 false; mkTok 40 "," 46 10 false; mkTok 31 """a\\""" 47 4 false; mkTok 39 ":" 47 10 false; mkTok 42 "asx" 48 4 false; mkTok 40 "," 49 0 false; mkTok 3 "}" 50 0 false; mkTok 40 "," 50 2 false; mkTok 23 "u64" 50 4 false; mkTok 42 "leftPad" 50 8 false; mkTok 5 "@calculatedFrom(" 50 17 false; mkTok 31 """`tick`""" 50 33 false; mkTok 6 ")" 50 42 false; mkTok 40 "," 50 43 false; mkTok 44 "// 50% %s" 51 0 true; mkTok 44 "// c" 52 0 true; mkTok 42 "packetx" 53 0 false; mkTok 40 "," 53 8 false; mkTok 3 "}" 53 10 false; mkTok 40 "," 53 12 false; mkTok 29 "f64" 54 0 false; mkTok 42 "crc" 54 4 false; mkTok 40 "," 54 8 false; mkTok 14 "zchar[" 54 10 false; mkTok 30 "65535" 54 17 false; mkTok 13 "]" 54 22 false; mkTok 42 "zchar" 54 23 false; mkTok 40 "," 55 0 false; mkTok 3 "}" 55 2 false; mkTok 40 "," 55 4 false; mkTok 44 "// a // b" 55 6 true; mkTok 3 "}" 56 0 false; mkTok 40 "," 56 1 false; mkTok 5 "@calculatedFrom(" 57 4 false; mkTok 44 "// `tick` ""quote"" 'q'" 57 21 true; mkTok 31 """// no comment""" 58 0 false; mkTok 6 ")" 58 16 false; mkTok 23 "u64" 58 18 false; mkTok 42 "i8i8" 58 22 false; mkTok 40 "," 59 0 false; mkTok 3 "}" 59 2 false; mkTok 44 (string_of_bytes [47; 47; 32; 230; 179; 168; 233; 135; 138]%N) 60 4 true; mkTok 37 "MetaData" 61 4 false; mkTok 42 "u128" 62 4 false; mkTok 44 "// c" 63 4 true; mkTok 2 "{" 64 4 false; mkTok 3 "}" 65 0 false; mkTok 0 "<EOF>" 65 4 false] (mkPacket (mkPtok 1 "options" 2 0 0) (Some (mkPtok 3 "}" 65 0 239)) [(DOption (mkOptionDef (mkSpan (mkPtok 1 "options" 2 0 0) (mkPtok 3 "}" 4 4 15)) (mkPtok 1 "options" 2 0 0) (mkPtok 2 "{" 2 8 1) [(mkOptionDecl (mkSpan (mkPtok 42 "BodyLength" 2 10 2) (mkPtok 41 ";" 3 7 5)) (mkPtok 42 "BodyLength" 2 10 2) (mkPtok 4 "=" 3 4 3) (VDigits (mkSpan (mkPtok 30 "7" 3 5 4) (mkPtok 30 "7" 3 5 4)) (mkPtok 30 "7" 3 5 4)) (Some (mkPtok 41 ";" 3 7 5))); (mkOptionDecl (mkSpan (mkPtok 42 "len" 3 9 6) (mkPtok 15 "string" 3 13 8)) (mkPtok 42 "len" 3 9 6) (mkPtok 4 "=" 3 12 7) (VType (mkSpan (mkPtok 15 "string" 3 13 8) (mkPtok 15 "string" 3 13 8)) (TyDynamic (mkSpan (mkPtok 15 "string" 3 13 8) (mkPtok 15 "string" 3 13 8)) (mkDynamicString (mkSpan (mkPtok 15 "string" 3 13 8) (mkPtok 15 "string" 3 13 8)) (mkPtok 15 "string" 3 13 8)))) None); (mkOptionDecl (mkSpan (mkPtok 42 "As" 3 20 9) (mkPtok 41 ";" 3 34 14)) (mkPtok 42 "As" 3 20 9) (mkPtok 4 "=" 3 23 10) (VType (mkSpan (mkPtok 12 "char[" 3 24 11) (mkPtok 13 "]" 3 32 13)) (TyFixed (mkSpan (mkPtok 12 "char[" 3 24 11) (mkPtok 13 "]" 3 32 13)) (mkFixedString (mkSpan (mkPtok 12 "char[" 3 24 11) (mkPtok 13 "]" 3 32 13)) (mkPtok 12 "char[" 3 24 11) (mkPtok 30 "7" 3 30 12) (mkPtok 13 "]" 3 32 13)))) (Some (mkPtok 41 ";" 3 34 14)))] (mkPtok 3 "}" 4 4 15))); (DOption (mkOptionDef (mkSpan (mkPtok 1 "options" 4 6 16) (mkPtok 3 "}" 5 2 19)) (mkPtok 1 "options" 4 6 16) (mkPtok 2 "{" 5 0 18) [] (mkPtok 3 "}" 5 2 19))); (DPacket (mkPacketDef (mkSpan (mkPtok 34 "root" 5 4 20) (mkPtok 3 "}" 59 2 233)) (Some (mkPtok 34 "root" 5 4 20)) (mkPtok 35 "packet" 5 9 21) (mkPtok 42 "zchar" 5 16 22) (mkPtok 2 "{" 5 22 23) [(mkFieldWithAttr (mkSpan (mkPtok 32 "@rightPad" 6 4 24) (mkPtok 40 "," 10 1 33)) [(FAPadding (mkSpan (mkPtok 32 "@rightPad" 6 4 24) (mkPtok 6 ")" 7 0 27)) (mkPaddingAttr (mkSpan (mkPtok 32 "@rightPad" 6 4 24) (mkPtok 6 ")" 7 0 27)) (mkPtok 32 "@rightPad" 6 4 24) (mkPtok 8 "(" 6 13 25) (Some (mkPtok 33 "' '" 6 15 26)) (mkPtok 6 ")" 7 0 27)))] (CheckSumField (mkSpan (mkPtok 16 "char[]" 8 4 28) (mkPtok 40 "," 10 1 33)) (mkChecksumFieldDecl (mkSpan (mkPtok 16 "char[]" 8 4 28) (mkPtok 40 "," 10 1 33)) (Some (TyDynamic (mkSpan (mkPtok 16 "char[]" 8 4 28) (mkPtok 16 "char[]" 8 4 28)) (mkDynamicString (mkSpan (mkPtok 16 "char[]" 8 4 28) (mkPtok 16 "char[]" 8 4 28)) (mkPtok 16 "char[]" 8 4 28)))) (mkPtok 42 "zchar" 8 10 29) (mkCalculatedFrom (mkSpan (mkPtok 5 "@calculatedFrom(" 8 16 30) (mkPtok 6 ")" 10 0 32)) (mkPtok 5 "@calculatedFrom(" 8 16 30) (mkPtok 31 """a\\""" 9 0 31) (mkPtok 6 ")" 10 0 32)) None (mkPtok 40 "," 10 1 33)))); (mkFieldWithAttr (mkSpan (mkPtok 14 "zchar[" 10 3 34) (mkPtok 40 "," 12 7 39)) [] (MetaField (mkSpan (mkPtok 14 "zchar[" 10 3 34) (mkPtok 40 "," 12 7 39)) None (mkMetaDecl (mkSpan (mkPtok 14 "zchar[" 10 3 34) (mkPtok 40 "," 12 7 39)) (TyFixed (mkSpan (mkPtok 14 "zchar[" 10 3 34) (mkPtok 13 "]" 12 0 37)) (mkFixedString (mkSpan (mkPtok 14 "zchar[" 10 3 34) (mkPtok 13 "]" 12 0 37)) (mkPtok 14 "zchar[" 10 3 34) (mkPtok 30 "7" 11 0 36) (mkPtok 13 "]" 12 0 37))) (mkPtok 42 "i64_" 12 2 38) None (mkPtok 40 "," 12 7 39)))); (mkFieldWithAttr (mkSpan (mkPtok 7 "@lengthOf(" 12 9 40) (mkPtok 40 "," 15 23 51)) [(FALengthOf (mkSpan (mkPtok 7 "@lengthOf(" 12 9 40) (mkPtok 6 ")" 12 25 42)) (mkLengthOf (mkSpan (mkPtok 7 "@lengthOf(" 12 9 40) (mkPtok 6 ")" 12 25 42)) (mkPtok 7 "@lengthOf(" 12 9 40) (mkPtok 42 "u8x" 12 21 41) (mkPtok 6 ")" 12 25 42))); (FALengthOf (mkSpan (mkPtok 7 "@lengthOf(" 14 4 44) (mkPtok 6 ")" 14 19 46)) (mkLengthOf (mkSpan (mkPtok 7 "@lengthOf(" 14 4 44) (mkPtok 6 ")" 14 19 46)) (mkPtok 7 "@lengthOf(" 14 4 44) (mkPtok 42 "i8i8" 14 15 45) (mkPtok 6 ")" 14 19 46)))] (LengthField (mkSpan (mkPtok 42 "body" 15 0 47) (mkPtok 40 "," 15 23 51)) (mkLengthFieldDecl (mkSpan (mkPtok 42 "body" 15 0 47) (mkPtok 40 "," 15 23 51)) None (mkPtok 42 "body" 15 0 47) (mkLengthOf (mkSpan (mkPtok 7 "@lengthOf(" 15 5 48) (mkPtok 6 ")" 15 21 50)) (mkPtok 7 "@lengthOf(" 15 5 48) (mkPtok 42 "body" 15 16 49) (mkPtok 6 ")" 15 21 50)) None (mkPtok 40 "," 15 23 51)))); (mkFieldWithAttr (mkSpan (mkPtok 42 "roots" 15 25 52) (mkPtok 40 "," 22 4 96)) [] (InerObjectField (mkSpan (mkPtok 42 "roots" 15 25 52) (mkPtok 40 "," 22 4 96)) None (InerObjectDecl (mkSpan (mkPtok 42 "roots" 15 25 52) (mkPtok 3 "}" 21 19 95)) (mkPtok 42 "roots" 15 25 52) (mkPtok 2 "{" 15 30 53) [(MatchField (mkSpan (mkPtok 38 "match" 15 32 54) (mkPtok 40 "," 21 17 94)) (mkMatchFieldDecl (mkSpan (mkPtok 38 "match" 15 32 54) (mkPtok 3 "}" 21 15 93)) (mkPtok 38 "match" 15 32 54) (mkPtok 42 "string_" 15 38 55) (mkPtok 17 "as" 15 46 56) (mkPtok 42 "Z9_" 15 49 57) (mkPtok 2 "{" 15 52 58) [(mkMatchPair (mkSpan (mkPtok 31 (string_of_bytes [34; 240; 159; 152; 128; 34]%N) 15 53 59) (mkPtok 40 "," 15 65 62)) (MKString (mkPtok 31 (string_of_bytes [34; 240; 159; 152; 128; 34]%N) 15 53 59)) (mkPtok 39 ":" 15 57 60) (mkPtok 42 "body" 15 59 61) (Some (mkPtok 40 "," 15 65 62))); (mkMatchPair (mkSpan (mkPtok 30 "10" 15 66 63) (mkPtok 40 "," 16 10 67)) (MKDigits (mkPtok 30 "10" 15 66 63)) (mkPtok 39 ":" 16 0 65) (mkPtok 42 "matchKey" 16 1 66) (Some (mkPtok 40 "," 16 10 67))); (mkMatchPair (mkSpan (mkPtok 30 "0123456789" 16 12 68) (mkPtok 40 "," 17 0 71)) (MKDigits (mkPtok 30 "0123456789" 16 12 68)) (mkPtok 39 ":" 16 23 69) (mkPtok 42 "packetx" 16 24 70) (Some (mkPtok 40 "," 17 0 71))); (mkMatchPair (mkSpan (mkPtok 18 "[" 17 1 72) (mkPtok 40 "," 18 24 87)) (MKList (mkKeyList (mkSpan (mkPtok 18 "[" 17 1 72) (mkPtok 13 "]" 18 15 84)) (mkPtok 18 "[" 17 1 72) (mkPtok 31 """packet""" 17 2 73) [((mkPtok 40 "," 17 11 74), (mkPtok 31 """abc""" 17 14 75)); ((mkPtok 40 "," 17 20 76), (mkPtok 31 """CRC32""" 17 22 77)); ((mkPtok 40 "," 17 30 78), (mkPtok 30 "0" 17 33 79)); ((mkPtok 40 "," 17 35 80), (mkPtok 30 "1" 18 0 81)); ((mkPtok 40 "," 18 2 82), (mkPtok 30 "0123456789" 18 4 83))] (mkPtok 13 "]" 18 15 84))) (mkPtok 39 ":" 18 17 85) (mkPtok 42 "Header" 18 18 86) (Some (mkPtok 40 "," 18 24 87))); (mkMatchPair (mkSpan (mkPtok 30 "65535" 18 26 88) (mkPtok 40 "," 21 13 92)) (MKDigits (mkPtok 30 "65535" 18 26 88)) (mkPtok 39 ":" 20 4 90) (mkPtok 42 "lengthOf" 21 4 91) (Some (mkPtok 40 "," 21 13 92)))] (mkPtok 3 "}" 21 15 93)) (mkPtok 40 "," 21 17 94))] (mkPtok 3 "}" 21 19 95)) (mkPtok 40 "," 22 4 96))); (mkFieldWithAttr (mkSpan (mkPtok 5 "@calculatedFrom(" 23 0 97) (mkPtok 40 "," 27 10 121)) [(FACalculatedFrom (mkSpan (mkPtok 5 "@calculatedFrom(" 23 0 97) (mkPtok 6 ")" 23 19 99)) (mkCalculatedFrom (mkSpan (mkPtok 5 "@calculatedFrom(" 23 0 97) (mkPtok 6 ")" 23 19 99)) (mkPtok 5 "@calculatedFrom(" 23 0 97) (mkPtok 31 """""" 23 17 98) (mkPtok 6 ")" 23 19 99)))] (MatchField (mkSpan (mkPtok 38 "match" 23 20 100) (mkPtok 40 "," 27 10 121)) (mkMatchFieldDecl (mkSpan (mkPtok 38 "match" 23 20 100) (mkPtok 3 "}" 27 8 120)) (mkPtok 38 "match" 23 20 100) (mkPtok 42 "float" 24 0 101) (mkPtok 17 "as" 24 7 102) (mkPtok 42 "calculatedFrom" 24 10 103) (mkPtok 2 "{" 25 4 104) [(mkMatchPair (mkSpan (mkPtok 31 (string_of_bytes [34; 240; 159; 152; 128; 34]%N) 26 0 106) (mkPtok 42 "Logon" 26 6 108)) (MKString (mkPtok 31 (string_of_bytes [34; 240; 159; 152; 128; 34]%N) 26 0 106)) (mkPtok 39 ":" 26 4 107) (mkPtok 42 "Logon" 26 6 108) None); (mkMatchPair (mkSpan (mkPtok 18 "[" 26 12 109) (mkPtok 40 "," 26 36 116)) (MKList (mkKeyList (mkSpan (mkPtok 18 "[" 26 12 109) (mkPtok 13 "]" 26 24 113)) (mkPtok 18 "[" 26 12 109) (mkPtok 30 "3" 26 14 110) [((mkPtok 40 "," 26 16 111), (mkPtok 30 "65535" 26 18 112))] (mkPtok 13 "]" 26 24 113))) (mkPtok 39 ":" 26 26 114) (mkPtok 42 "options1" 26 27 115) (Some (mkPtok 40 "," 26 36 116))); (mkMatchPair (mkSpan (mkPtok 31 """a\\""" 26 38 117) (mkPtok 42 "Foo" 27 4 119)) (MKString (mkPtok 31 """a\\""" 26 38 117)) (mkPtok 39 ":" 26 44 118) (mkPtok 42 "Foo" 27 4 119) None)] (mkPtok 3 "}" 27 8 120)) (mkPtok 40 "," 27 10 121))); (mkFieldWithAttr (mkSpan (mkPtok 42 "Logon" 27 11 122) (mkPtok 40 "," 28 0 124)) [] (ObjectField (mkSpan (mkPtok 42 "Logon" 27 11 122) (mkPtok 40 "," 28 0 124)) None (mkPtok 42 "Logon" 27 11 122) None None (mkPtok 40 "," 28 0 124))); (mkFieldWithAttr (mkSpan (mkPtok 38 "match" 28 1 125) (mkPtok 40 "," 31 0 135)) [] (MatchField (mkSpan (mkPtok 38 "match" 28 1 125) (mkPtok 40 "," 31 0 135)) (mkMatchFieldDecl (mkSpan (mkPtok 38 "match" 28 1 125) (mkPtok 3 "}" 30 11 134)) (mkPtok 38 "match" 28 1 125) (mkPtok 42 "o" 28 7 126) (mkPtok 17 "as" 28 9 127) (mkPtok 42 "calculatedFrom" 28 12 128) (mkPtok 2 "{" 29 0 130) [(mkMatchPair (mkSpan (mkPtok 30 "3" 30 0 131) (mkPtok 42 "uint8x" 30 4 133)) (MKDigits (mkPtok 30 "3" 30 0 131)) (mkPtok 39 ":" 30 2 132) (mkPtok 42 "uint8x" 30 4 133) None)] (mkPtok 3 "}" 30 11 134)) (mkPtok 40 "," 31 0 135))); (mkFieldWithAttr (mkSpan (mkPtok 42 "rootA" 31 2 136) (mkPtok 40 "," 31 20 138)) [] (ObjectField (mkSpan (mkPtok 42 "rootA" 31 2 136) (mkPtok 40 "," 31 20 138)) None (mkPtok 42 "rootA" 31 2 136) (Some (mkPtok 42 "repeatCount" 31 8 137)) None (mkPtok 40 "," 31 20 138))); (mkFieldWithAttr (mkSpan (mkPtok 42 "options1" 32 0 140) (mkPtok 40 "," 56 1 225)) [] (InerObjectField (mkSpan (mkPtok 42 "options1" 32 0 140) (mkPtok 40 "," 56 1 225)) None (InerObjectDecl (mkSpan (mkPtok 42 "options1" 32 0 140) (mkPtok 3 "}" 56 0 224)) (mkPtok 42 "options1" 32 0 140) (mkPtok 2 "{" 32 10 141) [(MetaField (mkSpan (mkPtok 28 "f32" 32 12 142) (mkPtok 40 "," 34 8 145)) None (mkMetaDecl (mkSpan (mkPtok 28 "f32" 32 12 142) (mkPtok 40 "," 34 8 145)) (TyBasic (mkSpan (mkPtok 28 "f32" 32 12 142) (mkPtok 28 "f32" 32 12 142)) (mkBasicType (mkSpan (mkPtok 28 "f32" 32 12 142) (mkPtok 28 "f32" 32 12 142)) (mkPtok 28 "f32" 32 12 142))) (mkPtok 42 "crc" 34 4 144) None (mkPtok 40 "," 34 8 145))); (MetaField (mkSpan (mkPtok 16 "char[]" 35 4 146) (mkPtok 40 "," 35 20 148)) None (mkMetaDecl (mkSpan (mkPtok 16 "char[]" 35 4 146) (mkPtok 40 "," 35 20 148)) (TyDynamic (mkSpan (mkPtok 16 "char[]" 35 4 146) (mkPtok 16 "char[]" 35 4 146)) (mkDynamicString (mkSpan (mkPtok 16 "char[]" 35 4 146) (mkPtok 16 "char[]" 35 4 146)) (mkPtok 16 "char[]" 35 4 146))) (mkPtok 42 "MetaDataX" 35 10 147) None (mkPtok 40 "," 35 20 148))); (MetaField (mkSpan (mkPtok 36 "repeat" 35 22 149) (mkPtok 40 "," 38 7 156)) (Some (mkPtok 36 "repeat" 35 22 149)) (mkMetaDecl (mkSpan (mkPtok 14 "zchar[" 37 4 151) (mkPtok 40 "," 38 7 156)) (TyFixed (mkSpan (mkPtok 14 "zchar[" 37 4 151) (mkPtok 13 "]" 37 13 153)) (mkFixedString (mkSpan (mkPtok 14 "zchar[" 37 4 151) (mkPtok 13 "]" 37 13 153)) (mkPtok 14 "zchar[" 37 4 151) (mkPtok 30 "3" 37 11 152) (mkPtok 13 "]" 37 13 153))) (mkPtok 42 "Header" 37 15 154) (Some (mkPtok 43 (string_of_bytes [96; 108; 105; 110; 101; 49; 10; 108; 105; 110; 101; 50; 96]%N) 37 21 155)) (mkPtok 40 "," 38 7 156))); (InerObjectField (mkSpan (mkPtok 42 "body" 38 9 157) (mkPtok 40 "," 55 4 222)) None (InerObjectDecl (mkSpan (mkPtok 42 "body" 38 9 157) (mkPtok 3 "}" 55 2 221)) (mkPtok 42 "body" 38 9 157) (mkPtok 2 "{" 38 14 158) [(ObjectField (mkSpan (mkPtok 36 "repeat" 39 4 159) (mkPtok 40 "," 39 18 161)) (Some (mkPtok 36 "repeat" 39 4 159)) (mkPtok 42 "Packet" 39 11 160) None None (mkPtok 40 "," 39 18 161)); (InerObjectField (mkSpan (mkPtok 42 "Header" 40 0 162) (mkPtok 40 "," 53 12 212)) None (InerObjectDecl (mkSpan (mkPtok 42 "Header" 40 0 162) (mkPtok 3 "}" 53 10 211)) (mkPtok 42 "Header" 40 0 162) (mkPtok 2 "{" 41 0 163) [(CheckSumField (mkSpan (mkPtok 16 "char[]" 41 1 164) (mkPtok 40 "," 41 41 170)) (mkChecksumFieldDecl (mkSpan (mkPtok 16 "char[]" 41 1 164) (mkPtok 40 "," 41 41 170)) (Some (TyDynamic (mkSpan (mkPtok 16 "char[]" 41 1 164) (mkPtok 16 "char[]" 41 1 164)) (mkDynamicString (mkSpan (mkPtok 16 "char[]" 41 1 164) (mkPtok 16 "char[]" 41 1 164)) (mkPtok 16 "char[]" 41 1 164)))) (mkPtok 42 "float" 41 8 165) (mkCalculatedFrom (mkSpan (mkPtok 5 "@calculatedFrom(" 41 14 166) (mkPtok 6 ")" 41 35 168)) (mkPtok 5 "@calculatedFrom(" 41 14 166) (mkPtok 31 (string_of_bytes [34; 92; 195; 169; 34]%N) 41 31 167) (mkPtok 6 ")" 41 35 168)) (Some (mkPtok 43 (string_of_bytes [96; 195; 169; 96]%N) 41 37 169)) (mkPtok 40 "," 41 41 170))); (MatchField (mkSpan (mkPtok 38 "match" 42 0 171) (mkPtok 40 "," 50 2 200)) (mkMatchFieldDecl (mkSpan (mkPtok 38 "match" 42 0 171) (mkPtok 3 "}" 50 0 199)) (mkPtok 38 "match" 42 0 171) (mkPtok 42 "zchar" 42 6 172) (mkPtok 17 "as" 42 12 173) (mkPtok 42 "matchKey" 42 15 174) (mkPtok 2 "{" 42 24 175) [(mkMatchPair (mkSpan (mkPtok 18 "[" 42 26 176) (mkPtok 40 "," 43 11 181)) (MKList (mkKeyList (mkSpan (mkPtok 18 "[" 42 26 176) (mkPtok 13 "]" 43 4 178)) (mkPtok 18 "[" 42 26 176) (mkPtok 31 """CRC32""" 42 28 177) [] (mkPtok 13 "]" 43 4 178))) (mkPtok 39 ":" 43 5 179) (mkPtok 42 "Foo" 43 7 180) (Some (mkPtok 40 "," 43 11 181))); (mkMatchPair (mkSpan (mkPtok 31 (string_of_bytes [34; 195; 169; 116; 195; 169; 34]%N) 45 4 183) (mkPtok 40 "," 45 23 186)) (MKString (mkPtok 31 (string_of_bytes [34; 195; 169; 116; 195; 169; 34]%N) 45 4 183)) (mkPtok 39 ":" 45 10 184) (mkPtok 42 "BodyLength" 45 12 185) (Some (mkPtok 40 "," 45 23 186))); (mkMatchPair (mkSpan (mkPtok 30 "0123456789" 45 25 187) (mkPtok 40 "," 45 41 190)) (MKDigits (mkPtok 30 "0123456789" 45 25 187)) (mkPtok 39 ":" 45 36 188) (mkPtok 42 "crc" 45 37 189) (Some (mkPtok 40 "," 45 41 190))); (mkMatchPair (mkSpan (mkPtok 31 """it's""" 45 42 191) (mkPtok 40 "," 46 10 194)) (MKString (mkPtok 31 """it's""" 45 42 191)) (mkPtok 39 ":" 46 0 192) (mkPtok 42 "stringy" 46 2 193) (Some (mkPtok 40 "," 46 10 194))); (mkMatchPair (mkSpan (mkPtok 31 """a\\""" 47 4 195) (mkPtok 40 "," 49 0 198)) (MKString (mkPtok 31 """a\\""" 47 4 195)) (mkPtok 39 ":" 47 10 196) (mkPtok 42 "asx" 48 4 197) (Some (mkPtok 40 "," 49 0 198)))] (mkPtok 3 "}" 50 0 199)) (mkPtok 40 "," 50 2 200)); (CheckSumField (mkSpan (mkPtok 23 "u64" 50 4 201) (mkPtok 40 "," 50 43 206)) (mkChecksumFieldDecl (mkSpan (mkPtok 23 "u64" 50 4 201) (mkPtok 40 "," 50 43 206)) (Some (TyBasic (mkSpan (mkPtok 23 "u64" 50 4 201) (mkPtok 23 "u64" 50 4 201)) (mkBasicType (mkSpan (mkPtok 23 "u64" 50 4 201) (mkPtok 23 "u64" 50 4 201)) (mkPtok 23 "u64" 50 4 201)))) (mkPtok 42 "leftPad" 50 8 202) (mkCalculatedFrom (mkSpan (mkPtok 5 "@calculatedFrom(" 50 17 203) (mkPtok 6 ")" 50 42 205)) (mkPtok 5 "@calculatedFrom(" 50 17 203) (mkPtok 31 """`tick`""" 50 33 204) (mkPtok 6 ")" 50 42 205)) None (mkPtok 40 "," 50 43 206))); (ObjectField (mkSpan (mkPtok 42 "packetx" 53 0 209) (mkPtok 40 "," 53 8 210)) None (mkPtok 42 "packetx" 53 0 209) None None (mkPtok 40 "," 53 8 210))] (mkPtok 3 "}" 53 10 211)) (mkPtok 40 "," 53 12 212)); (MetaField (mkSpan (mkPtok 29 "f64" 54 0 213) (mkPtok 40 "," 54 8 215)) None (mkMetaDecl (mkSpan (mkPtok 29 "f64" 54 0 213) (mkPtok 40 "," 54 8 215)) (TyBasic (mkSpan (mkPtok 29 "f64" 54 0 213) (mkPtok 29 "f64" 54 0 213)) (mkBasicType (mkSpan (mkPtok 29 "f64" 54 0 213) (mkPtok 29 "f64" 54 0 213)) (mkPtok 29 "f64" 54 0 213))) (mkPtok 42 "crc" 54 4 214) None (mkPtok 40 "," 54 8 215))); (MetaField (mkSpan (mkPtok 14 "zchar[" 54 10 216) (mkPtok 40 "," 55 0 220)) None (mkMetaDecl (mkSpan (mkPtok 14 "zchar[" 54 10 216) (mkPtok 40 "," 55 0 220)) (TyFixed (mkSpan (mkPtok 14 "zchar[" 54 10 216) (mkPtok 13 "]" 54 22 218)) (mkFixedString (mkSpan (mkPtok 14 "zchar[" 54 10 216) (mkPtok 13 "]" 54 22 218)) (mkPtok 14 "zchar[" 54 10 216) (mkPtok 30 "65535" 54 17 217) (mkPtok 13 "]" 54 22 218))) (mkPtok 42 "zchar" 54 23 219) None (mkPtok 40 "," 55 0 220)))] (mkPtok 3 "}" 55 2 221)) (mkPtok 40 "," 55 4 222))] (mkPtok 3 "}" 56 0 224)) (mkPtok 40 "," 56 1 225))); (mkFieldWithAttr (mkSpan (mkPtok 5 "@calculatedFrom(" 57 4 226) (mkPtok 40 "," 59 0 232)) [(FACalculatedFrom (mkSpan (mkPtok 5 "@calculatedFrom(" 57 4 226) (mkPtok 6 ")" 58 16 229)) (mkCalculatedFrom (mkSpan (mkPtok 5 "@calculatedFrom(" 57 4 226) (mkPtok 6 ")" 58 16 229)) (mkPtok 5 "@calculatedFrom(" 57 4 226) (mkPtok 31 """// no comment""" 58 0 228) (mkPtok 6 ")" 58 16 229)))] (MetaField (mkSpan (mkPtok 23 "u64" 58 18 230) (mkPtok 40 "," 59 0 232)) None (mkMetaDecl (mkSpan (mkPtok 23 "u64" 58 18 230) (mkPtok 40 "," 59 0 232)) (TyBasic (mkSpan (mkPtok 23 "u64" 58 18 230) (mkPtok 23 "u64" 58 18 230)) (mkBasicType (mkSpan (mkPtok 23 "u64" 58 18 230) (mkPtok 23 "u64" 58 18 230)) (mkPtok 23 "u64" 58 18 230))) (mkPtok 42 "i8i8" 58 22 231) None (mkPtok 40 "," 59 0 232))))] (mkPtok 3 "}" 59 2 233))); (DMeta (mkMetaDef (mkSpan (mkPtok 37 "MetaData" 61 4 235) (mkPtok 3 "}" 65 0 239)) (mkPtok 37 "MetaData" 61 4 235) (mkPtok 42 "u128" 62 4 236) (mkPtok 2 "{" 64 4 238) [] (mkPtok 3 "}" 65 0 239)))])).
Eval vm_compute in ("<<<M906>>>" ++ check (runes_of_ascii "  MetaData
    //	t
    u8x
    //	t
    {u8x packetx `say ""hi""`, // trailing space 
char[]
options1
`100% of %d`, char[ 00 ]	i64_ `" ++ [28040; 24687; 31867; 22411]%N ++ runes_of_ascii "` ,}")).
Eval vm_compute in ("<<<M938>>>" ++ check (runes_of_ascii "packet  chars{ char[255
] Header , @leftPad ( '0' ) repeat i64_ { zchar @lengthOf( Foo) ,} , charz // packet A { u8 x, }
{ // packet A { u8 x, }
float64 packetx ,  o { char[	255 ] tag @calculatedFrom( ""CRC32"" ) `// not a comment`	,
    MetaDataX
    @calculatedFrom(
"""" )
    , } ,
    calculatedFrom{ zchar[ 3 ]
i8i8	@calculatedFrom( ""{,}"" ) , repeat
    packetx As ,
    repeat	leftPad {
    repeat u16 // @lengthOf(
packetx
// packet A { u8 x, }
// " ++ [27880; 37322]%N ++ runes_of_ascii "
`" ++ [28040; 24687; 31867; 22411]%N ++ runes_of_ascii "`
    ,repeat zchar[ 0123456789// @lengthOf(
] i64_ , }
    /// triple
    , }, // " ++ [128512]%N ++ runes_of_ascii " emoji
int16 As @calculatedFrom( """ ++ [128512]%N ++ runes_of_ascii """
    ), } , @calculatedFrom( """ ++ [233]%N ++ runes_of_ascii "t" ++ [233]%N ++ runes_of_ascii """ ) repeat zchar[ 7
//x
//x
] options1 `{ , }`  , } MetaData
//	t
// @lengthOf(
crc { roots u `line1
line2` ,
uint16
    // trailing space 
    int ,
    /// triple
    } root packet  Packet {  T{ char[
007
    // " ++ [128512]%N ++ runes_of_ascii " emoji
    ]
A
    , repeat
leftPad tag,}, @leftPad // @lengthOf(
()
@tag( // a // b
42 )@lengthOf( u128) repeat metadata,  repeat zchar[007]
crc
`u8 x,`,
@calculatedFrom( ""{,}"" )
match
o as falsey  {// a // b
[ 0 ,
1 , // @lengthOf(
""\n"" // packet A { u8 x, }
, 10
    ,
42, 7 , ""1"" ] : MetaDataX  ,
0// trailing space 
:
    metadata ,""{,}"" : Logon, ""1"" : float 0123456789
: a1
,007 : _x }
    , // " ++ [27880; 37322]%N ++ runes_of_ascii "
repeat
    As //
, } packet string_
{}
")).
Eval vm_compute in ("<<<M970>>>" ++ check (runes_of_ascii "  packet len//	t
{ repeat o { //
zchar[ 0]  lengthOf `u8 x,` ,
leftPad
    { lengthOf x`doc`
    ,	zchar[ 65535
] u @lengthOf(asx
),repeat
u8 u`tab	here` , }
,
    //
    },
} root packet
packetx // packet A { u8 x, }
{
// " ++ [27880; 37322]%N ++ runes_of_ascii "
// @lengthOf(
}
root packet Logon
{ zchar[00 ] leftPad	@lengthOf( repeatCount	) , crc packetx
    // a // b
    `
`
    , x
    @lengthOf( pack /// triple
) `tab	here` /// triple
, lengthOf Header, }
")).
Eval vm_compute in ("<<<M1002>>>" ++ check (@nil rune)).
Eval vm_compute in ("<<<M1034>>>" ++ check (runes_of_ascii "packet x {
    @tag(	1 )// " ++ [27880; 37322]%N ++ runes_of_ascii "
match crc as options1 {
    ""x y"" : // trailing space 
Packet ,
// 50% %s
// `tick` ""quote"" 'q'
[ """"] : a1,
// 50% %s
// a // b
7
    : Packet
    ,
} ,
@leftPad ( ' ' )zchar[ 7
] asx ,
@rightPad
// " ++ [128512]%N ++ runes_of_ascii " emoji
// trailing space 
('\x00')
    @rightPad ( ' ' )
//	t
//x
repeat// `tick` ""quote"" 'q'
leftPad
{ tag { repeat uint64 charz	,} , }, @tag( 4294967296) len body `it's`
    // " ++ [27880; 37322]%N ++ runes_of_ascii "
    , char[
    3
] trueish
@calculatedFrom( ""CRC32""
)
    ,}  packet A { match Pad as Z9_ { ""packet"" : f32a , ""{,}""
: f32a // a // b
7 :
    _x
,00 :  repeatCount ,
    // c
    4294967296
: asx
, ""CRC32"" : u128
},
// trailing space 
// " ++ [27880; 37322]%N ++ runes_of_ascii "
u16 float  ``
, @tag( 1 )
    // c
    @tag(65535
) @rightPad ( )repeat
uint64
// c
/// triple
Header ,
    u64 repeatCount
    , match //	t
asx as float
{ // a // b
[
    3	]
    :
MetaDataX ,
}
, match repeatCount
as
calculatedFrom
{	""" ++ [233]%N ++ runes_of_ascii "t" ++ [233]%N ++ runes_of_ascii """	: calculatedFrom [""" ++ [28040; 24687]%N ++ runes_of_ascii """] : falsey ,
}
    ,
}")).
Eval vm_compute in ("<<<M1066>>>" ++ check (runes_of_ascii " //")).
Eval vm_compute in ("<<<M1098>>>" ++ check (runes_of_ascii "options{ As
=// `tick` ""quote"" 'q'
false leftPad = true }
")).
Eval vm_compute in ("<<<T1098>>>" ++ terms [mkTok 1 "options" 1 0 false; mkTok 2 "{" 1 7 false; mkTok 42 "As" 1 9 false; mkTok 4 "=" 2 0 false; mkTok 44 "// `tick` ""quote"" 'q'" 2 1 true; mkTok 11 "false" 3 0 false; mkTok 42 "leftPad" 3 6 false; mkTok 4 "=" 3 14 false; mkTok 10 "true" 3 16 false; mkTok 3 "}" 3 21 false; mkTok 0 "<EOF>" 4 0 false] (mkPacket (mkPtok 1 "options" 1 0 0) (Some (mkPtok 3 "}" 3 21 9)) [(DOption (mkOptionDef (mkSpan (mkPtok 1 "options" 1 0 0) (mkPtok 3 "}" 3 21 9)) (mkPtok 1 "options" 1 0 0) (mkPtok 2 "{" 1 7 1) [(mkOptionDecl (mkSpan (mkPtok 42 "As" 1 9 2) (mkPtok 11 "false" 3 0 5)) (mkPtok 42 "As" 1 9 2) (mkPtok 4 "=" 2 0 3) (VFalse (mkSpan (mkPtok 11 "false" 3 0 5) (mkPtok 11 "false" 3 0 5)) (mkPtok 11 "false" 3 0 5)) None); (mkOptionDecl (mkSpan (mkPtok 42 "leftPad" 3 6 6) (mkPtok 10 "true" 3 16 8)) (mkPtok 42 "leftPad" 3 6 6) (mkPtok 4 "=" 3 14 7) (VTrue (mkSpan (mkPtok 10 "true" 3 16 8) (mkPtok 10 "true" 3 16 8)) (mkPtok 10 "true" 3 16 8)) None)] (mkPtok 3 "}" 3 21 9)))])).
Eval vm_compute in ("<<<M1130>>>" ++ check (runes_of_ascii "packet pack{zchar[ //
255] f32a @calculatedFrom(""a\\"" ) ,}
")).
Eval vm_compute in ("<<<M1162>>>" ++ check (runes_of_ascii "//
options
    {	} options{ // 50% %s
stringy = 0123456789 string_= ""\n""  int =
false
;
/// triple
// a // b
}
")).
Eval vm_compute in ("<<<M1194>>>" ++ check (runes_of_ascii "// `tick` ""quote"" 'q'
packet
    x {
    @calculatedFrom(
""\n"") repeat calculatedFrom _x
    // a // b
    `{ , }`, char[]	u128
    ,
stringy @calculatedFrom(
"""" ) , @lengthOf(x_y_z  )
    @tag( 42)
    @rightPad ( '0'
    ) char[]
    trueish , }
")).
Eval vm_compute in ("<<<M1226>>>" ++ check (runes_of_ascii "
root packet Pad{
@calculatedFrom( ""`tick`""  ) repeat i8i8 u8x  ,	}	MetaData lengthOf { uint8 tag `it's` , tag	f32a`" ++ [28040; 24687; 31867; 22411]%N ++ runes_of_ascii "`// " ++ [27880; 37322]%N ++ runes_of_ascii "
, metadata calculatedFrom
,  u16 T // " ++ [128512]%N ++ runes_of_ascii " emoji
`tab	here` , len	stringy
    `100% of %d`
,	}MetaData roots
    { } // @lengthOf(
root
packet // a // b
x_y_z {
    repeat options1 As, @calculatedFrom( ""a\""b"" )
    match float as calculatedFrom
{1:float , 0123456789 :Packet , ""{,}""// " ++ [27880; 37322]%N ++ runes_of_ascii "
:leftPad ,[
4294967296
,	""CRC32"" ] :
// `tick` ""quote"" 'q'
// @lengthOf(
Foo// 50% %s
0123456789
    : roots ,
    [""a\""b"" ,	4294967296, 0123456789 , 10 ] : u128 ,  }// " ++ [128512]%N ++ runes_of_ascii " emoji
,
    /// triple
    }")).
Eval vm_compute in ("<<<M1258>>>" ++ check (runes_of_ascii "MetaData trueish {	char[ 42 ]
    tag `line1
line2`
, // " ++ [27880; 37322]%N ++ runes_of_ascii "
} // trailing space 
MetaData Pad{ f64 pack  ,
    As matchKey,u32 // 50% %s
As , int64
    repeatCount , Foo o
    , string // trailing space 
charz, }packet Header
{}
")).
Eval vm_compute in ("<<<M1290>>>" ++ check (runes_of_ascii "root
    packet
o { uint8 charz `" ++ [233]%N ++ runes_of_ascii "`
,	char[ 65535
] Header @calculatedFrom( ""a\\"" ) ,repeat
uint32
pack,
    chars{u32 metadata @calculatedFrom(
// @lengthOf(
// c
""x y""
    // packet A { u8 x, }
    ) `" ++ [233]%N ++ runes_of_ascii "` //	t
,	x_y_z
,string_ @calculatedFrom(
    ""a	b"" ) ,
    //	t
    float	@lengthOf(	leftPad ), } ,}MetaData body
    { string Pad `
` ,	}
root packet o
    {@calculatedFrom( ""{,}""
    ) @calculatedFrom(
    // 50% %s
    ""1"")
_x
    //
    { zchar[
    1]crc ,char[]//x
u128
    @lengthOf( matchKey)
,o @lengthOf(matchKey  )`{ , }` ,
}, }

")).
Eval vm_compute in ("<<<M1322>>>" ++ check (runes_of_ascii "packet
uint8x {
u32// 50% %s
body	,	repeat string // packet A { u8 x, }
tag  ,	@calculatedFrom( ""CRC32"") string_  int// " ++ [27880; 37322]%N ++ runes_of_ascii "
,i8 u128 , @lengthOf( // packet A { u8 x, }
_x//x
) uint16 trueish
    `say ""hi""` ,@tag(
10 )@lengthOf( int	) @rightPad (
    '\x00'  ) x_y_z
body
, As @calculatedFrom(""// no comment"" ) ,
// c
//	t
repeat uint8 Z9_// c
, } packet
trueish {
    char
    u @calculatedFrom(
""{,}"" ) ,@tag(7
) // " ++ [27880; 37322]%N ++ runes_of_ascii "
i8
    a1  ,crc @lengthOf( // " ++ [128512]%N ++ runes_of_ascii " emoji
chars ) `say ""hi""` , zchar[ 42 ]
metadata ``
    , float64  repeatCount
`` , @lengthOf( /// triple
chars
    // " ++ [128512]%N ++ runes_of_ascii " emoji
    ) repeat  Logon
// 50% %s
// " ++ [128512]%N ++ runes_of_ascii " emoji
{ string len@lengthOf(
    crc)
    ,u128	@lengthOf( x) , } ,
Packet { i8 uint8x
    ,repeatCount
Packet `" ++ [233]%N ++ runes_of_ascii "`,i64 lengthOf ,  MetaDataX
{ zchar[ 10]
    // " ++ [128512]%N ++ runes_of_ascii " emoji
    a1
    @lengthOf( metadata),
} ,
    /// triple
    } ,
    }
")).
Eval vm_compute in ("<<<T1322>>>" ++ terms [mkTok 35 "packet" 1 0 false; mkTok 42 "uint8x" 2 0 false; mkTok 2 "{" 2 7 false; mkTok 22 "u32" 3 0 false; mkTok 44 "// 50% %s" 3 3 true; mkTok 42 "body" 4 0 false; mkTok 40 "," 4 5 false; mkTok 36 "repeat" 4 7 false; mkTok 15 "string" 4 14 false; mkTok 44 "// packet A { u8 x, }" 4 21 true; mkTok 42 "tag" 5 0 false; mkTok 40 "," 5 5 false; mkTok 5 "@calculatedFrom(" 5 7 false; mkTok 31 """CRC32""" 5 24 false; mkTok 6 ")" 5 31 false; mkTok 42 "string_" 5 33 false; mkTok 42 "int" 5 42 false; mkTok 44 (string_of_bytes [47; 47; 32; 230; 179; 168; 233; 135; 138]%N) 5 45 true; mkTok 40 "," 6 0 false; mkTok 24 "i8" 6 1 false; mkTok 42 "u128" 6 4 false; mkTok 40 "," 6 9 false; mkTok 7 "@lengthOf(" 6 11 false; mkTok 44 "// packet A { u8 x, }" 6 22 true; mkTok 42 "_x" 7 0 false; mkTok 44 "//x" 7 2 true; mkTok 6 ")" 8 0 false; mkTok 21 "uint16" 8 2 false; mkTok 42 "trueish" 8 9 false; mkTok 43 "`say ""hi""`" 9 4 false; mkTok 40 "," 9 15 false; mkTok 9 "@tag(" 9 16 false; mkTok 30 "10" 10 0 false; mkTok 6 ")" 10 3 false; mkTok 7 "@lengthOf(" 10 4 false; mkTok 42 "int" 10 15 false; mkTok 6 ")" 10 19 false; mkTok 32 "@rightPad" 10 21 false; mkTok 8 "(" 10 31 false; mkTok 33 "'\x00'" 11 4 false; mkTok 6 ")" 11 12 false; mkTok 42 "x_y_z" 11 14 false; mkTok 42 "body" 12 0 false; mkTok 40 "," 13 0 false; mkTok 42 "As" 13 2 false; mkTok 5 "@calculatedFrom(" 13 5 false; mkTok 31 """// no comment""" 13 21 false; mkTok 6 ")" 13 37 false; mkTok 40 "," 13 39 false; mkTok 44 "// c" 14 0 true; mkTok 44 (string_of_bytes [47; 47; 9; 116]%N) 15 0 true; mkTok 36 "repeat" 16 0 false; mkTok 20 "uint8" 16 7 false; mkTok 42 "Z9_" 16 13 false; mkTok 44 "// c" 16 16 true; mkTok 40 "," 17 0 false; mkTok 3 "}" 17 2 false; mkTok 35 "packet" 17 4 false; mkTok 42 "trueish" 18 0 false; mkTok 2 "{" 18 8 false; mkTok 19 "char" 19 4 false; mkTok 42 "u" 20 4 false; mkTok 5 "@calculatedFrom(" 20 6 false; mkTok 31 """{,}""" 21 0 false; mkTok 6 ")" 21 6 false; mkTok 40 "," 21 8 false; mkTok 9 "@tag(" 21 9 false; mkTok 30 "7" 21 14 false; mkTok 6 ")" 22 0 false; mkTok 44 (string_of_bytes [47; 47; 32; 230; 179; 168; 233; 135; 138]%N) 22 2 true; mkTok 24 "i8" 23 0 false; mkTok 42 "a1" 24 4 false; mkTok 40 "," 24 8 false; mkTok 42 "crc" 24 9 false; mkTok 7 "@lengthOf(" 24 13 false; mkTok 44 (string_of_bytes [47; 47; 32; 240; 159; 152; 128; 32; 101; 109; 111; 106; 105]%N) 24 24 true; mkTok 42 "chars" 25 0 false; mkTok 6 ")" 25 6 false; mkTok 43 "`say ""hi""`" 25 8 false; mkTok 40 "," 25 19 false; mkTok 14 "zchar[" 25 21 false; mkTok 30 "42" 25 28 false; mkTok 13 "]" 25 31 false; mkTok 42 "metadata" 26 0 false; mkTok 43 "``" 26 9 false; mkTok 40 "," 27 4 false; mkTok 29 "float64" 27 6 false; mkTok 42 "repeatCount" 27 15 false; mkTok 43 "``" 28 0 false; mkTok 40 "," 28 3 false; mkTok 7 "@lengthOf(" 28 5 false; mkTok 44 "/// triple" 28 16 true; mkTok 42 "chars" 29 0 false; mkTok 44 (string_of_bytes [47; 47; 32; 240; 159; 152; 128; 32; 101; 109; 111; 106; 105]%N) 30 4 true; mkTok 6 ")" 31 4 false; mkTok 36 "repeat" 31 6 false; mkTok 42 "Logon" 31 14 false; mkTok 44 "// 50% %s" 32 0 true; mkTok 44 (string_of_bytes [47; 47; 32; 240; 159; 152; 128; 32; 101; 109; 111; 106; 105]%N) 33 0 true; mkTok 2 "{" 34 0 false; mkTok 15 "string" 34 2 false; mkTok 42 "len" 34 9 false; mkTok 7 "@lengthOf(" 34 12 false; mkTok 42 "crc" 35 4 false; mkTok 6 ")" 35 7 false; mkTok 40 "," 36 4 false; mkTok 42 "u128" 36 5 false; mkTok 7 "@lengthOf(" 36 10 false; mkTok 42 "x" 36 21 false; mkTok 6 ")" 36 22 false; mkTok 40 "," 36 24 false; mkTok 3 "}" 36 26 false; mkTok 40 "," 36 28 false; mkTok 42 "Packet" 37 0 false; mkTok 2 "{" 37 7 false; mkTok 24 "i8" 37 9 false; mkTok 42 "uint8x" 37 12 false; mkTok 40 "," 38 4 false; mkTok 42 "repeatCount" 38 5 false; mkTok 42 "Packet" 39 0 false; mkTok 43 (string_of_bytes [96; 195; 169; 96]%N) 39 7 false; mkTok 40 "," 39 10 false; mkTok 27 "i64" 39 11 false; mkTok 42 "lengthOf" 39 15 false; mkTok 40 "," 39 24 false; mkTok 42 "MetaDataX" 39 27 false; mkTok 2 "{" 40 0 false; mkTok 14 "zchar[" 40 2 false; mkTok 30 "10" 40 9 false; mkTok 13 "]" 40 11 false; mkTok 44 (string_of_bytes [47; 47; 32; 240; 159; 152; 128; 32; 101; 109; 111; 106; 105]%N) 41 4 true; mkTok 42 "a1" 42 4 false; mkTok 7 "@lengthOf(" 43 4 false; mkTok 42 "metadata" 43 15 false; mkTok 6 ")" 43 23 false; mkTok 40 "," 43 24 false; mkTok 3 "}" 44 0 false; mkTok 40 "," 44 2 false; mkTok 44 "/// triple" 45 4 true; mkTok 3 "}" 46 4 false; mkTok 40 "," 46 6 false; mkTok 3 "}" 47 4 false; mkTok 0 "<EOF>" 48 0 false] (mkPacket (mkPtok 35 "packet" 1 0 0) (Some (mkPtok 3 "}" 47 4 141)) [(DPacket (mkPacketDef (mkSpan (mkPtok 35 "packet" 1 0 0) (mkPtok 3 "}" 17 2 56)) None (mkPtok 35 "packet" 1 0 0) (mkPtok 42 "uint8x" 2 0 1) (mkPtok 2 "{" 2 7 2) [(mkFieldWithAttr (mkSpan (mkPtok 22 "u32" 3 0 3) (mkPtok 40 "," 4 5 6)) [] (MetaField (mkSpan (mkPtok 22 "u32" 3 0 3) (mkPtok 40 "," 4 5 6)) None (mkMetaDecl (mkSpan (mkPtok 22 "u32" 3 0 3) (mkPtok 40 "," 4 5 6)) (TyBasic (mkSpan (mkPtok 22 "u32" 3 0 3) (mkPtok 22 "u32" 3 0 3)) (mkBasicType (mkSpan (mkPtok 22 "u32" 3 0 3) (mkPtok 22 "u32" 3 0 3)) (mkPtok 22 "u32" 3 0 3))) (mkPtok 42 "body" 4 0 5) None (mkPtok 40 "," 4 5 6)))); (mkFieldWithAttr (mkSpan (mkPtok 36 "repeat" 4 7 7) (mkPtok 40 "," 5 5 11)) [] (MetaField (mkSpan (mkPtok 36 "repeat" 4 7 7) (mkPtok 40 "," 5 5 11)) (Some (mkPtok 36 "repeat" 4 7 7)) (mkMetaDecl (mkSpan (mkPtok 15 "string" 4 14 8) (mkPtok 40 "," 5 5 11)) (TyDynamic (mkSpan (mkPtok 15 "string" 4 14 8) (mkPtok 15 "string" 4 14 8)) (mkDynamicString (mkSpan (mkPtok 15 "string" 4 14 8) (mkPtok 15 "string" 4 14 8)) (mkPtok 15 "string" 4 14 8))) (mkPtok 42 "tag" 5 0 10) None (mkPtok 40 "," 5 5 11)))); (mkFieldWithAttr (mkSpan (mkPtok 5 "@calculatedFrom(" 5 7 12) (mkPtok 40 "," 6 0 18)) [(FACalculatedFrom (mkSpan (mkPtok 5 "@calculatedFrom(" 5 7 12) (mkPtok 6 ")" 5 31 14)) (mkCalculatedFrom (mkSpan (mkPtok 5 "@calculatedFrom(" 5 7 12) (mkPtok 6 ")" 5 31 14)) (mkPtok 5 "@calculatedFrom(" 5 7 12) (mkPtok 31 """CRC32""" 5 24 13) (mkPtok 6 ")" 5 31 14)))] (ObjectField (mkSpan (mkPtok 42 "string_" 5 33 15) (mkPtok 40 "," 6 0 18)) None (mkPtok 42 "string_" 5 33 15) (Some (mkPtok 42 "int" 5 42 16)) None (mkPtok 40 "," 6 0 18))); (mkFieldWithAttr (mkSpan (mkPtok 24 "i8" 6 1 19) (mkPtok 40 "," 6 9 21)) [] (MetaField (mkSpan (mkPtok 24 "i8" 6 1 19) (mkPtok 40 "," 6 9 21)) None (mkMetaDecl (mkSpan (mkPtok 24 "i8" 6 1 19) (mkPtok 40 "," 6 9 21)) (TyBasic (mkSpan (mkPtok 24 "i8" 6 1 19) (mkPtok 24 "i8" 6 1 19)) (mkBasicType (mkSpan (mkPtok 24 "i8" 6 1 19) (mkPtok 24 "i8" 6 1 19)) (mkPtok 24 "i8" 6 1 19))) (mkPtok 42 "u128" 6 4 20) None (mkPtok 40 "," 6 9 21)))); (mkFieldWithAttr (mkSpan (mkPtok 7 "@lengthOf(" 6 11 22) (mkPtok 40 "," 9 15 30)) [(FALengthOf (mkSpan (mkPtok 7 "@lengthOf(" 6 11 22) (mkPtok 6 ")" 8 0 26)) (mkLengthOf (mkSpan (mkPtok 7 "@lengthOf(" 6 11 22) (mkPtok 6 ")" 8 0 26)) (mkPtok 7 "@lengthOf(" 6 11 22) (mkPtok 42 "_x" 7 0 24) (mkPtok 6 ")" 8 0 26)))] (MetaField (mkSpan (mkPtok 21 "uint16" 8 2 27) (mkPtok 40 "," 9 15 30)) None (mkMetaDecl (mkSpan (mkPtok 21 "uint16" 8 2 27) (mkPtok 40 "," 9 15 30)) (TyBasic (mkSpan (mkPtok 21 "uint16" 8 2 27) (mkPtok 21 "uint16" 8 2 27)) (mkBasicType (mkSpan (mkPtok 21 "uint16" 8 2 27) (mkPtok 21 "uint16" 8 2 27)) (mkPtok 21 "uint16" 8 2 27))) (mkPtok 42 "trueish" 8 9 28) (Some (mkPtok 43 "`say ""hi""`" 9 4 29)) (mkPtok 40 "," 9 15 30)))); (mkFieldWithAttr (mkSpan (mkPtok 9 "@tag(" 9 16 31) (mkPtok 40 "," 13 0 43)) [(FATag (mkSpan (mkPtok 9 "@tag(" 9 16 31) (mkPtok 6 ")" 10 3 33)) (mkTagAttr (mkSpan (mkPtok 9 "@tag(" 9 16 31) (mkPtok 6 ")" 10 3 33)) (mkPtok 9 "@tag(" 9 16 31) (mkPtok 30 "10" 10 0 32) (mkPtok 6 ")" 10 3 33))); (FALengthOf (mkSpan (mkPtok 7 "@lengthOf(" 10 4 34) (mkPtok 6 ")" 10 19 36)) (mkLengthOf (mkSpan (mkPtok 7 "@lengthOf(" 10 4 34) (mkPtok 6 ")" 10 19 36)) (mkPtok 7 "@lengthOf(" 10 4 34) (mkPtok 42 "int" 10 15 35) (mkPtok 6 ")" 10 19 36))); (FAPadding (mkSpan (mkPtok 32 "@rightPad" 10 21 37) (mkPtok 6 ")" 11 12 40)) (mkPaddingAttr (mkSpan (mkPtok 32 "@rightPad" 10 21 37) (mkPtok 6 ")" 11 12 40)) (mkPtok 32 "@rightPad" 10 21 37) (mkPtok 8 "(" 10 31 38) (Some (mkPtok 33 "'\x00'" 11 4 39)) (mkPtok 6 ")" 11 12 40)))] (ObjectField (mkSpan (mkPtok 42 "x_y_z" 11 14 41) (mkPtok 40 "," 13 0 43)) None (mkPtok 42 "x_y_z" 11 14 41) (Some (mkPtok 42 "body" 12 0 42)) None (mkPtok 40 "," 13 0 43))); (mkFieldWithAttr (mkSpan (mkPtok 42 "As" 13 2 44) (mkPtok 40 "," 13 39 48)) [] (CheckSumField (mkSpan (mkPtok 42 "As" 13 2 44) (mkPtok 40 "," 13 39 48)) (mkChecksumFieldDecl (mkSpan (mkPtok 42 "As" 13 2 44) (mkPtok 40 "," 13 39 48)) None (mkPtok 42 "As" 13 2 44) (mkCalculatedFrom (mkSpan (mkPtok 5 "@calculatedFrom(" 13 5 45) (mkPtok 6 ")" 13 37 47)) (mkPtok 5 "@calculatedFrom(" 13 5 45) (mkPtok 31 """// no comment""" 13 21 46) (mkPtok 6 ")" 13 37 47)) None (mkPtok 40 "," 13 39 48)))); (mkFieldWithAttr (mkSpan (mkPtok 36 "repeat" 16 0 51) (mkPtok 40 "," 17 0 55)) [] (MetaField (mkSpan (mkPtok 36 "repeat" 16 0 51) (mkPtok 40 "," 17 0 55)) (Some (mkPtok 36 "repeat" 16 0 51)) (mkMetaDecl (mkSpan (mkPtok 20 "uint8" 16 7 52) (mkPtok 40 "," 17 0 55)) (TyBasic (mkSpan (mkPtok 20 "uint8" 16 7 52) (mkPtok 20 "uint8" 16 7 52)) (mkBasicType (mkSpan (mkPtok 20 "uint8" 16 7 52) (mkPtok 20 "uint8" 16 7 52)) (mkPtok 20 "uint8" 16 7 52))) (mkPtok 42 "Z9_" 16 13 53) None (mkPtok 40 "," 17 0 55))))] (mkPtok 3 "}" 17 2 56))); (DPacket (mkPacketDef (mkSpan (mkPtok 35 "packet" 17 4 57) (mkPtok 3 "}" 47 4 141)) None (mkPtok 35 "packet" 17 4 57) (mkPtok 42 "trueish" 18 0 58) (mkPtok 2 "{" 18 8 59) [(mkFieldWithAttr (mkSpan (mkPtok 19 "char" 19 4 60) (mkPtok 40 "," 21 8 65)) [] (CheckSumField (mkSpan (mkPtok 19 "char" 19 4 60) (mkPtok 40 "," 21 8 65)) (mkChecksumFieldDecl (mkSpan (mkPtok 19 "char" 19 4 60) (mkPtok 40 "," 21 8 65)) (Some (TyBasic (mkSpan (mkPtok 19 "char" 19 4 60) (mkPtok 19 "char" 19 4 60)) (mkBasicType (mkSpan (mkPtok 19 "char" 19 4 60) (mkPtok 19 "char" 19 4 60)) (mkPtok 19 "char" 19 4 60)))) (mkPtok 42 "u" 20 4 61) (mkCalculatedFrom (mkSpan (mkPtok 5 "@calculatedFrom(" 20 6 62) (mkPtok 6 ")" 21 6 64)) (mkPtok 5 "@calculatedFrom(" 20 6 62) (mkPtok 31 """{,}""" 21 0 63) (mkPtok 6 ")" 21 6 64)) None (mkPtok 40 "," 21 8 65)))); (mkFieldWithAttr (mkSpan (mkPtok 9 "@tag(" 21 9 66) (mkPtok 40 "," 24 8 72)) [(FATag (mkSpan (mkPtok 9 "@tag(" 21 9 66) (mkPtok 6 ")" 22 0 68)) (mkTagAttr (mkSpan (mkPtok 9 "@tag(" 21 9 66) (mkPtok 6 ")" 22 0 68)) (mkPtok 9 "@tag(" 21 9 66) (mkPtok 30 "7" 21 14 67) (mkPtok 6 ")" 22 0 68)))] (MetaField (mkSpan (mkPtok 24 "i8" 23 0 70) (mkPtok 40 "," 24 8 72)) None (mkMetaDecl (mkSpan (mkPtok 24 "i8" 23 0 70) (mkPtok 40 "," 24 8 72)) (TyBasic (mkSpan (mkPtok 24 "i8" 23 0 70) (mkPtok 24 "i8" 23 0 70)) (mkBasicType (mkSpan (mkPtok 24 "i8" 23 0 70) (mkPtok 24 "i8" 23 0 70)) (mkPtok 24 "i8" 23 0 70))) (mkPtok 42 "a1" 24 4 71) None (mkPtok 40 "," 24 8 72)))); (mkFieldWithAttr (mkSpan (mkPtok 42 "crc" 24 9 73) (mkPtok 40 "," 25 19 79)) [] (LengthField (mkSpan (mkPtok 42 "crc" 24 9 73) (mkPtok 40 "," 25 19 79)) (mkLengthFieldDecl (mkSpan (mkPtok 42 "crc" 24 9 73) (mkPtok 40 "," 25 19 79)) None (mkPtok 42 "crc" 24 9 73) (mkLengthOf (mkSpan (mkPtok 7 "@lengthOf(" 24 13 74) (mkPtok 6 ")" 25 6 77)) (mkPtok 7 "@lengthOf(" 24 13 74) (mkPtok 42 "chars" 25 0 76) (mkPtok 6 ")" 25 6 77)) (Some (mkPtok 43 "`say ""hi""`" 25 8 78)) (mkPtok 40 "," 25 19 79)))); (mkFieldWithAttr (mkSpan (mkPtok 14 "zchar[" 25 21 80) (mkPtok 40 "," 27 4 85)) [] (MetaField (mkSpan (mkPtok 14 "zchar[" 25 21 80) (mkPtok 40 "," 27 4 85)) None (mkMetaDecl (mkSpan (mkPtok 14 "zchar[" 25 21 80) (mkPtok 40 "," 27 4 85)) (TyFixed (mkSpan (mkPtok 14 "zchar[" 25 21 80) (mkPtok 13 "]" 25 31 82)) (mkFixedString (mkSpan (mkPtok 14 "zchar[" 25 21 80) (mkPtok 13 "]" 25 31 82)) (mkPtok 14 "zchar[" 25 21 80) (mkPtok 30 "42" 25 28 81) (mkPtok 13 "]" 25 31 82))) (mkPtok 42 "metadata" 26 0 83) (Some (mkPtok 43 "``" 26 9 84)) (mkPtok 40 "," 27 4 85)))); (mkFieldWithAttr (mkSpan (mkPtok 29 "float64" 27 6 86) (mkPtok 40 "," 28 3 89)) [] (MetaField (mkSpan (mkPtok 29 "float64" 27 6 86) (mkPtok 40 "," 28 3 89)) None (mkMetaDecl (mkSpan (mkPtok 29 "float64" 27 6 86) (mkPtok 40 "," 28 3 89)) (TyBasic (mkSpan (mkPtok 29 "float64" 27 6 86) (mkPtok 29 "float64" 27 6 86)) (mkBasicType (mkSpan (mkPtok 29 "float64" 27 6 86) (mkPtok 29 "float64" 27 6 86)) (mkPtok 29 "float64" 27 6 86))) (mkPtok 42 "repeatCount" 27 15 87) (Some (mkPtok 43 "``" 28 0 88)) (mkPtok 40 "," 28 3 89)))); (mkFieldWithAttr (mkSpan (mkPtok 7 "@lengthOf(" 28 5 90) (mkPtok 40 "," 36 28 112)) [(FALengthOf (mkSpan (mkPtok 7 "@lengthOf(" 28 5 90) (mkPtok 6 ")" 31 4 94)) (mkLengthOf (mkSpan (mkPtok 7 "@lengthOf(" 28 5 90) (mkPtok 6 ")" 31 4 94)) (mkPtok 7 "@lengthOf(" 28 5 90) (mkPtok 42 "chars" 29 0 92) (mkPtok 6 ")" 31 4 94)))] (InerObjectField (mkSpan (mkPtok 36 "repeat" 31 6 95) (mkPtok 40 "," 36 28 112)) (Some (mkPtok 36 "repeat" 31 6 95)) (InerObjectDecl (mkSpan (mkPtok 42 "Logon" 31 14 96) (mkPtok 3 "}" 36 26 111)) (mkPtok 42 "Logon" 31 14 96) (mkPtok 2 "{" 34 0 99) [(LengthField (mkSpan (mkPtok 15 "string" 34 2 100) (mkPtok 40 "," 36 4 105)) (mkLengthFieldDecl (mkSpan (mkPtok 15 "string" 34 2 100) (mkPtok 40 "," 36 4 105)) (Some (TyDynamic (mkSpan (mkPtok 15 "string" 34 2 100) (mkPtok 15 "string" 34 2 100)) (mkDynamicString (mkSpan (mkPtok 15 "string" 34 2 100) (mkPtok 15 "string" 34 2 100)) (mkPtok 15 "string" 34 2 100)))) (mkPtok 42 "len" 34 9 101) (mkLengthOf (mkSpan (mkPtok 7 "@lengthOf(" 34 12 102) (mkPtok 6 ")" 35 7 104)) (mkPtok 7 "@lengthOf(" 34 12 102) (mkPtok 42 "crc" 35 4 103) (mkPtok 6 ")" 35 7 104)) None (mkPtok 40 "," 36 4 105))); (LengthField (mkSpan (mkPtok 42 "u128" 36 5 106) (mkPtok 40 "," 36 24 110)) (mkLengthFieldDecl (mkSpan (mkPtok 42 "u128" 36 5 106) (mkPtok 40 "," 36 24 110)) None (mkPtok 42 "u128" 36 5 106) (mkLengthOf (mkSpan (mkPtok 7 "@lengthOf(" 36 10 107) (mkPtok 6 ")" 36 22 109)) (mkPtok 7 "@lengthOf(" 36 10 107) (mkPtok 42 "x" 36 21 108) (mkPtok 6 ")" 36 22 109)) None (mkPtok 40 "," 36 24 110)))] (mkPtok 3 "}" 36 26 111)) (mkPtok 40 "," 36 28 112))); (mkFieldWithAttr (mkSpan (mkPtok 42 "Packet" 37 0 113) (mkPtok 40 "," 46 6 140)) [] (InerObjectField (mkSpan (mkPtok 42 "Packet" 37 0 113) (mkPtok 40 "," 46 6 140)) None (InerObjectDecl (mkSpan (mkPtok 42 "Packet" 37 0 113) (mkPtok 3 "}" 46 4 139)) (mkPtok 42 "Packet" 37 0 113) (mkPtok 2 "{" 37 7 114) [(MetaField (mkSpan (mkPtok 24 "i8" 37 9 115) (mkPtok 40 "," 38 4 117)) None (mkMetaDecl (mkSpan (mkPtok 24 "i8" 37 9 115) (mkPtok 40 "," 38 4 117)) (TyBasic (mkSpan (mkPtok 24 "i8" 37 9 115) (mkPtok 24 "i8" 37 9 115)) (mkBasicType (mkSpan (mkPtok 24 "i8" 37 9 115) (mkPtok 24 "i8" 37 9 115)) (mkPtok 24 "i8" 37 9 115))) (mkPtok 42 "uint8x" 37 12 116) None (mkPtok 40 "," 38 4 117))); (ObjectField (mkSpan (mkPtok 42 "repeatCount" 38 5 118) (mkPtok 40 "," 39 10 121)) None (mkPtok 42 "repeatCount" 38 5 118) (Some (mkPtok 42 "Packet" 39 0 119)) (Some (mkPtok 43 (string_of_bytes [96; 195; 169; 96]%N) 39 7 120)) (mkPtok 40 "," 39 10 121)); (MetaField (mkSpan (mkPtok 27 "i64" 39 11 122) (mkPtok 40 "," 39 24 124)) None (mkMetaDecl (mkSpan (mkPtok 27 "i64" 39 11 122) (mkPtok 40 "," 39 24 124)) (TyBasic (mkSpan (mkPtok 27 "i64" 39 11 122) (mkPtok 27 "i64" 39 11 122)) (mkBasicType (mkSpan (mkPtok 27 "i64" 39 11 122) (mkPtok 27 "i64" 39 11 122)) (mkPtok 27 "i64" 39 11 122))) (mkPtok 42 "lengthOf" 39 15 123) None (mkPtok 40 "," 39 24 124))); (InerObjectField (mkSpan (mkPtok 42 "MetaDataX" 39 27 125) (mkPtok 40 "," 44 2 137)) None (InerObjectDecl (mkSpan (mkPtok 42 "MetaDataX" 39 27 125) (mkPtok 3 "}" 44 0 136)) (mkPtok 42 "MetaDataX" 39 27 125) (mkPtok 2 "{" 40 0 126) [(LengthField (mkSpan (mkPtok 14 "zchar[" 40 2 127) (mkPtok 40 "," 43 24 135)) (mkLengthFieldDecl (mkSpan (mkPtok 14 "zchar[" 40 2 127) (mkPtok 40 "," 43 24 135)) (Some (TyFixed (mkSpan (mkPtok 14 "zchar[" 40 2 127) (mkPtok 13 "]" 40 11 129)) (mkFixedString (mkSpan (mkPtok 14 "zchar[" 40 2 127) (mkPtok 13 "]" 40 11 129)) (mkPtok 14 "zchar[" 40 2 127) (mkPtok 30 "10" 40 9 128) (mkPtok 13 "]" 40 11 129)))) (mkPtok 42 "a1" 42 4 131) (mkLengthOf (mkSpan (mkPtok 7 "@lengthOf(" 43 4 132) (mkPtok 6 ")" 43 23 134)) (mkPtok 7 "@lengthOf(" 43 4 132) (mkPtok 42 "metadata" 43 15 133) (mkPtok 6 ")" 43 23 134)) None (mkPtok 40 "," 43 24 135)))] (mkPtok 3 "}" 44 0 136)) (mkPtok 40 "," 44 2 137))] (mkPtok 3 "}" 46 4 139)) (mkPtok 40 "," 46 6 140)))] (mkPtok 3 "}" 47 4 141)))])).
Eval vm_compute in ("<<<M1354>>>" ++ check (runes_of_ascii "MetaData trueish { T
    Pad //
,
    char[]
    _x , } // trailing space ")).
Eval vm_compute in ("<<<M1386>>>" ++ check (runes_of_ascii "root packet metadata{ }
")).
Eval vm_compute in ("<<<M1418>>>" ++ check (runes_of_ascii "MetaData // trailing space 
Header{
x_y_z// packet A { u8 x, }
metadata	`two words`
, }MetaData A { zchar[ 255 ] packetx , msg_type
charz`it's` ,pack BodyLength
,
} MetaData repeatCount {u64 x `u8 x,`,  char[	7
    ] u ,
    crc
asx , char[
10 ] x_y_z , }")).
Eval vm_compute in ("<<<M1450>>>" ++ check (runes_of_ascii "packet
    //x
    i8i8{	}
")).
Eval vm_compute in ("<<<M1482>>>" ++ check (runes_of_ascii "MetaData Logon// " ++ [128512]%N ++ runes_of_ascii " emoji
{pack body
//
//
`say ""hi""`
,}/// triple
packet MetaDataX { }")).
Eval vm_compute in ("<<<M1514>>>" ++ check (runes_of_ascii "// " ++ [128512]%N ++ runes_of_ascii " emoji
options	{
u =zchar[ 0123456789 ] ;string_ =
false
}
")).
Eval vm_compute in ("<<<M1546>>>" ++ check (runes_of_ascii "// a // b
packet	metadata { char[]
repeatCount @calculatedFrom( ""CRC32"" )
    // " ++ [27880; 37322]%N ++ runes_of_ascii "
    ,}
root
packet
    // a // b
    Logon {// trailing space 
@tag(
3)
leftPad
    @calculatedFrom( ""`tick`""	)
, repeat leftPad //
len`{ , }` ,repeat
// c
// trailing space 
string tag `
` , @lengthOf( // a // b
Packet ) roots {i32 len `" ++ [28040; 24687; 31867; 22411]%N ++ runes_of_ascii "`
,}	, repeat calculatedFrom
asx ,
repeat packetx `" ++ [28040; 24687; 31867; 22411]%N ++ runes_of_ascii "` , @rightPad
( '\x00' ) uint8x
o,
}")).
Eval vm_compute in ("<<<T1546>>>" ++ terms [mkTok 44 "// a // b" 1 0 true; mkTok 35 "packet" 2 0 false; mkTok 42 "metadata" 2 7 false; mkTok 2 "{" 2 16 false; mkTok 16 "char[]" 2 18 false; mkTok 42 "repeatCount" 3 0 false; mkTok 5 "@calculatedFrom(" 3 12 false; mkTok 31 """CRC32""" 3 29 false; mkTok 6 ")" 3 37 false; mkTok 44 (string_of_bytes [47; 47; 32; 230; 179; 168; 233; 135; 138]%N) 4 4 true; mkTok 40 "," 5 4 false; mkTok 3 "}" 5 5 false; mkTok 34 "root" 6 0 false; mkTok 35 "packet" 7 0 false; mkTok 44 "// a // b" 8 4 true; mkTok 42 "Logon" 9 4 false; mkTok 2 "{" 9 10 false; mkTok 44 "// trailing space " 9 11 true; mkTok 9 "@tag(" 10 0 false; mkTok 30 "3" 11 0 false; mkTok 6 ")" 11 1 false; mkTok 42 "leftPad" 12 0 false; mkTok 5 "@calculatedFrom(" 13 4 false; mkTok 31 """`tick`""" 13 21 false; mkTok 6 ")" 13 30 false; mkTok 40 "," 14 0 false; mkTok 36 "repeat" 14 2 false; mkTok 42 "leftPad" 14 9 false; mkTok 44 "//" 14 17 true; mkTok 42 "len" 15 0 false; mkTok 43 "`{ , }`" 15 3 false; mkTok 40 "," 15 11 false; mkTok 36 "repeat" 15 12 false; mkTok 44 "// c" 16 0 true; mkTok 44 "// trailing space " 17 0 true; mkTok 15 "string" 18 0 false; mkTok 42 "tag" 18 7 false; mkTok 43 (string_of_bytes [96; 10; 96]%N) 18 11 false; mkTok 40 "," 19 2 false; mkTok 7 "@lengthOf(" 19 4 false; mkTok 44 "// a // b" 19 15 true; mkTok 42 "Packet" 20 0 false; mkTok 6 ")" 20 7 false; mkTok 42 "roots" 20 9 false; mkTok 2 "{" 20 15 false; mkTok 26 "i32" 20 16 false; mkTok 42 "len" 20 20 false; mkTok 43 (string_of_bytes [96; 230; 182; 136; 230; 129; 175; 231; 177; 187; 229; 158; 139; 96]%N) 20 24 false; mkTok 40 "," 21 0 false; mkTok 3 "}" 21 1 false; mkTok 40 "," 21 3 false; mkTok 36 "repeat" 21 5 false; mkTok 42 "calculatedFrom" 21 12 false; mkTok 42 "asx" 22 0 false; mkTok 40 "," 22 4 false; mkTok 36 "repeat" 23 0 false; mkTok 42 "packetx" 23 7 false; mkTok 43 (string_of_bytes [96; 230; 182; 136; 230; 129; 175; 231; 177; 187; 229; 158; 139; 96]%N) 23 15 false; mkTok 40 "," 23 22 false; mkTok 32 "@rightPad" 23 24 false; mkTok 8 "(" 24 0 false; mkTok 33 "'\x00'" 24 2 false; mkTok 6 ")" 24 9 false; mkTok 42 "uint8x" 24 11 false; mkTok 42 "o" 25 0 false; mkTok 40 "," 25 1 false; mkTok 3 "}" 26 0 false; mkTok 0 "<EOF>" 26 1 false] (mkPacket (mkPtok 35 "packet" 2 0 1) (Some (mkPtok 3 "}" 26 0 66)) [(DPacket (mkPacketDef (mkSpan (mkPtok 35 "packet" 2 0 1) (mkPtok 3 "}" 5 5 11)) None (mkPtok 35 "packet" 2 0 1) (mkPtok 42 "metadata" 2 7 2) (mkPtok 2 "{" 2 16 3) [(mkFieldWithAttr (mkSpan (mkPtok 16 "char[]" 2 18 4) (mkPtok 40 "," 5 4 10)) [] (CheckSumField (mkSpan (mkPtok 16 "char[]" 2 18 4) (mkPtok 40 "," 5 4 10)) (mkChecksumFieldDecl (mkSpan (mkPtok 16 "char[]" 2 18 4) (mkPtok 40 "," 5 4 10)) (Some (TyDynamic (mkSpan (mkPtok 16 "char[]" 2 18 4) (mkPtok 16 "char[]" 2 18 4)) (mkDynamicString (mkSpan (mkPtok 16 "char[]" 2 18 4) (mkPtok 16 "char[]" 2 18 4)) (mkPtok 16 "char[]" 2 18 4)))) (mkPtok 42 "repeatCount" 3 0 5) (mkCalculatedFrom (mkSpan (mkPtok 5 "@calculatedFrom(" 3 12 6) (mkPtok 6 ")" 3 37 8)) (mkPtok 5 "@calculatedFrom(" 3 12 6) (mkPtok 31 """CRC32""" 3 29 7) (mkPtok 6 ")" 3 37 8)) None (mkPtok 40 "," 5 4 10))))] (mkPtok 3 "}" 5 5 11))); (DPacket (mkPacketDef (mkSpan (mkPtok 34 "root" 6 0 12) (mkPtok 3 "}" 26 0 66)) (Some (mkPtok 34 "root" 6 0 12)) (mkPtok 35 "packet" 7 0 13) (mkPtok 42 "Logon" 9 4 15) (mkPtok 2 "{" 9 10 16) [(mkFieldWithAttr (mkSpan (mkPtok 9 "@tag(" 10 0 18) (mkPtok 40 "," 14 0 25)) [(FATag (mkSpan (mkPtok 9 "@tag(" 10 0 18) (mkPtok 6 ")" 11 1 20)) (mkTagAttr (mkSpan (mkPtok 9 "@tag(" 10 0 18) (mkPtok 6 ")" 11 1 20)) (mkPtok 9 "@tag(" 10 0 18) (mkPtok 30 "3" 11 0 19) (mkPtok 6 ")" 11 1 20)))] (CheckSumField (mkSpan (mkPtok 42 "leftPad" 12 0 21) (mkPtok 40 "," 14 0 25)) (mkChecksumFieldDecl (mkSpan (mkPtok 42 "leftPad" 12 0 21) (mkPtok 40 "," 14 0 25)) None (mkPtok 42 "leftPad" 12 0 21) (mkCalculatedFrom (mkSpan (mkPtok 5 "@calculatedFrom(" 13 4 22) (mkPtok 6 ")" 13 30 24)) (mkPtok 5 "@calculatedFrom(" 13 4 22) (mkPtok 31 """`tick`""" 13 21 23) (mkPtok 6 ")" 13 30 24)) None (mkPtok 40 "," 14 0 25)))); (mkFieldWithAttr (mkSpan (mkPtok 36 "repeat" 14 2 26) (mkPtok 40 "," 15 11 31)) [] (ObjectField (mkSpan (mkPtok 36 "repeat" 14 2 26) (mkPtok 40 "," 15 11 31)) (Some (mkPtok 36 "repeat" 14 2 26)) (mkPtok 42 "leftPad" 14 9 27) (Some (mkPtok 42 "len" 15 0 29)) (Some (mkPtok 43 "`{ , }`" 15 3 30)) (mkPtok 40 "," 15 11 31))); (mkFieldWithAttr (mkSpan (mkPtok 36 "repeat" 15 12 32) (mkPtok 40 "," 19 2 38)) [] (MetaField (mkSpan (mkPtok 36 "repeat" 15 12 32) (mkPtok 40 "," 19 2 38)) (Some (mkPtok 36 "repeat" 15 12 32)) (mkMetaDecl (mkSpan (mkPtok 15 "string" 18 0 35) (mkPtok 40 "," 19 2 38)) (TyDynamic (mkSpan (mkPtok 15 "string" 18 0 35) (mkPtok 15 "string" 18 0 35)) (mkDynamicString (mkSpan (mkPtok 15 "string" 18 0 35) (mkPtok 15 "string" 18 0 35)) (mkPtok 15 "string" 18 0 35))) (mkPtok 42 "tag" 18 7 36) (Some (mkPtok 43 (string_of_bytes [96; 10; 96]%N) 18 11 37)) (mkPtok 40 "," 19 2 38)))); (mkFieldWithAttr (mkSpan (mkPtok 7 "@lengthOf(" 19 4 39) (mkPtok 40 "," 21 3 50)) [(FALengthOf (mkSpan (mkPtok 7 "@lengthOf(" 19 4 39) (mkPtok 6 ")" 20 7 42)) (mkLengthOf (mkSpan (mkPtok 7 "@lengthOf(" 19 4 39) (mkPtok 6 ")" 20 7 42)) (mkPtok 7 "@lengthOf(" 19 4 39) (mkPtok 42 "Packet" 20 0 41) (mkPtok 6 ")" 20 7 42)))] (InerObjectField (mkSpan (mkPtok 42 "roots" 20 9 43) (mkPtok 40 "," 21 3 50)) None (InerObjectDecl (mkSpan (mkPtok 42 "roots" 20 9 43) (mkPtok 3 "}" 21 1 49)) (mkPtok 42 "roots" 20 9 43) (mkPtok 2 "{" 20 15 44) [(MetaField (mkSpan (mkPtok 26 "i32" 20 16 45) (mkPtok 40 "," 21 0 48)) None (mkMetaDecl (mkSpan (mkPtok 26 "i32" 20 16 45) (mkPtok 40 "," 21 0 48)) (TyBasic (mkSpan (mkPtok 26 "i32" 20 16 45) (mkPtok 26 "i32" 20 16 45)) (mkBasicType (mkSpan (mkPtok 26 "i32" 20 16 45) (mkPtok 26 "i32" 20 16 45)) (mkPtok 26 "i32" 20 16 45))) (mkPtok 42 "len" 20 20 46) (Some (mkPtok 43 (string_of_bytes [96; 230; 182; 136; 230; 129; 175; 231; 177; 187; 229; 158; 139; 96]%N) 20 24 47)) (mkPtok 40 "," 21 0 48)))] (mkPtok 3 "}" 21 1 49)) (mkPtok 40 "," 21 3 50))); (mkFieldWithAttr (mkSpan (mkPtok 36 "repeat" 21 5 51) (mkPtok 40 "," 22 4 54)) [] (ObjectField (mkSpan (mkPtok 36 "repeat" 21 5 51) (mkPtok 40 "," 22 4 54)) (Some (mkPtok 36 "repeat" 21 5 51)) (mkPtok 42 "calculatedFrom" 21 12 52) (Some (mkPtok 42 "asx" 22 0 53)) None (mkPtok 40 "," 22 4 54))); (mkFieldWithAttr (mkSpan (mkPtok 36 "repeat" 23 0 55) (mkPtok 40 "," 23 22 58)) [] (ObjectField (mkSpan (mkPtok 36 "repeat" 23 0 55) (mkPtok 40 "," 23 22 58)) (Some (mkPtok 36 "repeat" 23 0 55)) (mkPtok 42 "packetx" 23 7 56) None (Some (mkPtok 43 (string_of_bytes [96; 230; 182; 136; 230; 129; 175; 231; 177; 187; 229; 158; 139; 96]%N) 23 15 57)) (mkPtok 40 "," 23 22 58))); (mkFieldWithAttr (mkSpan (mkPtok 32 "@rightPad" 23 24 59) (mkPtok 40 "," 25 1 65)) [(FAPadding (mkSpan (mkPtok 32 "@rightPad" 23 24 59) (mkPtok 6 ")" 24 9 62)) (mkPaddingAttr (mkSpan (mkPtok 32 "@rightPad" 23 24 59) (mkPtok 6 ")" 24 9 62)) (mkPtok 32 "@rightPad" 23 24 59) (mkPtok 8 "(" 24 0 60) (Some (mkPtok 33 "'\x00'" 24 2 61)) (mkPtok 6 ")" 24 9 62)))] (ObjectField (mkSpan (mkPtok 42 "uint8x" 24 11 63) (mkPtok 40 "," 25 1 65)) None (mkPtok 42 "uint8x" 24 11 63) (Some (mkPtok 42 "o" 25 0 64)) None (mkPtok 40 "," 25 1 65)))] (mkPtok 3 "}" 26 0 66)))])).
Eval vm_compute in ("<<<M1578>>>" ++ check (runes_of_ascii "MetaData _x
    { }packet Header
{ @rightPad ()  float @calculatedFrom(""1"" )`doc`
    ,
Foo
    { roots
, } // `tick` ""quote"" 'q'
, pack Pad	, }")).
Eval vm_compute in ("<<<M1610>>>" ++ check (runes_of_ascii "root  packet lengthOf { }packet Z9_ { char[
10 ]	Pad ,	} root packet
charz { } root packet metadata
{ @leftPad // `tick` ""quote"" 'q'
( )char[
    // a // b
    00]
asx `two words`
    // @lengthOf(
    ,}")).
Eval vm_compute in ("<<<M1642>>>" ++ check (runes_of_ascii "MetaData Pad{
Header A , T BodyLength
, u32 Header
    // @lengthOf(
    `u8 x,`	,
BodyLength
uint8x`
` ,
i8i8 trueish `u8 x,`
    // a // b
    , string
//
// " ++ [128512]%N ++ runes_of_ascii " emoji
o
    , } root
    /// triple
    packet lengthOf//	t
{ }
")).
Eval vm_compute in ("<<<M1674>>>" ++ check (runes_of_ascii "
packet metadata { char zchar @lengthOf(body ) `// not a comment`	, char[]
    zchar , // packet A { u8 x, }
@calculatedFrom( """ ++ [233]%N ++ runes_of_ascii "t" ++ [233]%N ++ runes_of_ascii """	)@tag( 65535 ) string u @lengthOf(
    // `tick` ""quote"" 'q'
    i64_ )
,
    }
")).
Eval vm_compute in ("<<<M1706>>>" ++ check (runes_of_ascii "
packet packetx// " ++ [27880; 37322]%N ++ runes_of_ascii "
{
    repeat
chars// " ++ [128512]%N ++ runes_of_ascii " emoji
Logon ,@calculatedFrom( ""packet"")
float64 crc, repeat Pad zchar `tab	here`
,@tag(	0123456789 ) roots {tag
x
    `tab	here`
, } ,
@leftPad ('\x00' ) char[
007] u128@calculatedFrom( ""`tick`"" ) , @lengthOf( Packet )@rightPad (	) @lengthOf( body
)
    i8
    stringy @calculatedFrom(""CRC32"" ),@calculatedFrom( ""it's""
) i8 chars , i32 calculatedFrom	@lengthOf( // `tick` ""quote"" 'q'
x ) `" ++ [28040; 24687; 31867; 22411]%N ++ runes_of_ascii "`,a1 // c
{ repeat string_ u
`100% of %d`
, match
    matchKey as
    leftPad { 0
    :int
    ,
255
// c
// `tick` ""quote"" 'q'
:
    roots
// packet A { u8 x, }
//x
[ ""a\""b""] : // 50% %s
Logon
,[ ""it's"",
    65535 ]
    :u128 , }// 50% %s
,
} ,}
")).
Eval vm_compute in ("<<<M1738>>>" ++ check (runes_of_ascii "root
    /// triple
    packet rootA{ @tag(
    10 ) zchar[ 007
    // `tick` ""quote"" 'q'
    ] int `line1
line2` , }
// " ++ [128512]%N ++ runes_of_ascii " emoji
//x
packet asx{
    repeat
// " ++ [128512]%N ++ runes_of_ascii " emoji
//
Z9_ `" ++ [233]%N ++ runes_of_ascii "`,
}")).
Eval vm_compute in ("<<<M1770>>>" ++ check (runes_of_ascii "packet charz{ charz { repeat // packet A { u8 x, }
o
, }
    // c
    , uint8x
// " ++ [128512]%N ++ runes_of_ascii " emoji
// " ++ [128512]%N ++ runes_of_ascii " emoji
repeatCount , repeat string msg_type `tab	here` ,
    i8 /// triple
calculatedFrom, }")).
Eval vm_compute in ("<<<T1770>>>" ++ terms [mkTok 35 "packet" 1 0 false; mkTok 42 "charz" 1 7 false; mkTok 2 "{" 1 12 false; mkTok 42 "charz" 1 14 false; mkTok 2 "{" 1 20 false; mkTok 36 "repeat" 1 22 false; mkTok 44 "// packet A { u8 x, }" 1 29 true; mkTok 42 "o" 2 0 false; mkTok 40 "," 3 0 false; mkTok 3 "}" 3 2 false; mkTok 44 "// c" 4 4 true; mkTok 40 "," 5 4 false; mkTok 42 "uint8x" 5 6 false; mkTok 44 (string_of_bytes [47; 47; 32; 240; 159; 152; 128; 32; 101; 109; 111; 106; 105]%N) 6 0 true; mkTok 44 (string_of_bytes [47; 47; 32; 240; 159; 152; 128; 32; 101; 109; 111; 106; 105]%N) 7 0 true; mkTok 42 "repeatCount" 8 0 false; mkTok 40 "," 8 12 false; mkTok 36 "repeat" 8 14 false; mkTok 15 "string" 8 21 false; mkTok 42 "msg_type" 8 28 false; mkTok 43 (string_of_bytes [96; 116; 97; 98; 9; 104; 101; 114; 101; 96]%N) 8 37 false; mkTok 40 "," 8 48 false; mkTok 24 "i8" 9 4 false; mkTok 44 "/// triple" 9 7 true; mkTok 42 "calculatedFrom" 10 0 false; mkTok 40 "," 10 14 false; mkTok 3 "}" 10 16 false; mkTok 0 "<EOF>" 10 17 false] (mkPacket (mkPtok 35 "packet" 1 0 0) (Some (mkPtok 3 "}" 10 16 26)) [(DPacket (mkPacketDef (mkSpan (mkPtok 35 "packet" 1 0 0) (mkPtok 3 "}" 10 16 26)) None (mkPtok 35 "packet" 1 0 0) (mkPtok 42 "charz" 1 7 1) (mkPtok 2 "{" 1 12 2) [(mkFieldWithAttr (mkSpan (mkPtok 42 "charz" 1 14 3) (mkPtok 40 "," 5 4 11)) [] (InerObjectField (mkSpan (mkPtok 42 "charz" 1 14 3) (mkPtok 40 "," 5 4 11)) None (InerObjectDecl (mkSpan (mkPtok 42 "charz" 1 14 3) (mkPtok 3 "}" 3 2 9)) (mkPtok 42 "charz" 1 14 3) (mkPtok 2 "{" 1 20 4) [(ObjectField (mkSpan (mkPtok 36 "repeat" 1 22 5) (mkPtok 40 "," 3 0 8)) (Some (mkPtok 36 "repeat" 1 22 5)) (mkPtok 42 "o" 2 0 7) None None (mkPtok 40 "," 3 0 8))] (mkPtok 3 "}" 3 2 9)) (mkPtok 40 "," 5 4 11))); (mkFieldWithAttr (mkSpan (mkPtok 42 "uint8x" 5 6 12) (mkPtok 40 "," 8 12 16)) [] (ObjectField (mkSpan (mkPtok 42 "uint8x" 5 6 12) (mkPtok 40 "," 8 12 16)) None (mkPtok 42 "uint8x" 5 6 12) (Some (mkPtok 42 "repeatCount" 8 0 15)) None (mkPtok 40 "," 8 12 16))); (mkFieldWithAttr (mkSpan (mkPtok 36 "repeat" 8 14 17) (mkPtok 40 "," 8 48 21)) [] (MetaField (mkSpan (mkPtok 36 "repeat" 8 14 17) (mkPtok 40 "," 8 48 21)) (Some (mkPtok 36 "repeat" 8 14 17)) (mkMetaDecl (mkSpan (mkPtok 15 "string" 8 21 18) (mkPtok 40 "," 8 48 21)) (TyDynamic (mkSpan (mkPtok 15 "string" 8 21 18) (mkPtok 15 "string" 8 21 18)) (mkDynamicString (mkSpan (mkPtok 15 "string" 8 21 18) (mkPtok 15 "string" 8 21 18)) (mkPtok 15 "string" 8 21 18))) (mkPtok 42 "msg_type" 8 28 19) (Some (mkPtok 43 (string_of_bytes [96; 116; 97; 98; 9; 104; 101; 114; 101; 96]%N) 8 37 20)) (mkPtok 40 "," 8 48 21)))); (mkFieldWithAttr (mkSpan (mkPtok 24 "i8" 9 4 22) (mkPtok 40 "," 10 14 25)) [] (MetaField (mkSpan (mkPtok 24 "i8" 9 4 22) (mkPtok 40 "," 10 14 25)) None (mkMetaDecl (mkSpan (mkPtok 24 "i8" 9 4 22) (mkPtok 40 "," 10 14 25)) (TyBasic (mkSpan (mkPtok 24 "i8" 9 4 22) (mkPtok 24 "i8" 9 4 22)) (mkBasicType (mkSpan (mkPtok 24 "i8" 9 4 22) (mkPtok 24 "i8" 9 4 22)) (mkPtok 24 "i8" 9 4 22))) (mkPtok 42 "calculatedFrom" 10 0 24) None (mkPtok 40 "," 10 14 25))))] (mkPtok 3 "}" 10 16 26)))])).
Eval vm_compute in ("<<<M1802>>>" ++ check (runes_of_ascii "packet// 50% %s
options1 { @lengthOf(
_x
// " ++ [128512]%N ++ runes_of_ascii " emoji
//	t
) repeat
i64_`
`	, options1 Foo ,@lengthOf( f32a ) // a // b
zchar[65535]
_x , MetaDataX
    repeatCount
`crlf
line` , match tag
    as
metadata {
[ ""packet""
] :	string_ , } , int8 Logon
    //x
    `u8 x,` ,
@lengthOf( charz
    )
@rightPad
(
'0' // c
)@tag( 42	)zchar[ /// triple
4294967296  ] zchar @lengthOf( i64_ ), repeat
    //x
    f32a { Pad ,
}
    ,@leftPad () repeat x
Foo ,	repeat
    u128 trueish , }// `tick` ""quote"" 'q'
packet Foo {@calculatedFrom( ""a\""b"")	repeat calculatedFrom  {string_ u128 , } ,
    } packet asx{ @calculatedFrom( ""`tick`"" ) repeat
i64_ string_  , @calculatedFrom(	""\" ++ [233]%N ++ runes_of_ascii """ )char[
    //	t
    1 ]
    // " ++ [27880; 37322]%N ++ runes_of_ascii "
    chars@calculatedFrom( """ ++ [28040; 24687]%N ++ runes_of_ascii """ )
`line1
line2` , char // @lengthOf(
matchKey // c
@lengthOf(
metadata)
, // c
@lengthOf(
    u128 // 50% %s
)
    int16 A,	f32a{
match i64_ as
msg_type {
7 :
    x
255
:
body , ""abc"" : chars
    ,} , },
    } // trailing space ")).
Eval vm_compute in ("<<<M1834>>>" ++ check (runes_of_ascii "packet MetaDataX {uint64 BodyLength , }
    packet
zchar { uint32 options1
/// triple
//
, }")).
Eval vm_compute in ("<<<M1866>>>" ++ check (runes_of_ascii "
root packet roots{  repeat i32 falsey , }
// 50% %s
")).
Eval vm_compute in ("<<<M1898>>>" ++ check (runes_of_ascii "
")).
Eval vm_compute in ("<<<M1930>>>" ++ check (runes_of_ascii "MetaData Header// a // b
{ // @lengthOf(
tag
msg_type ,char[]	packetx
    , u8x // " ++ [27880; 37322]%N ++ runes_of_ascii "
_x , // " ++ [128512]%N ++ runes_of_ascii " emoji
}packet repeatCount { }")).
Eval vm_compute in ("<<<M1962>>>" ++ check (runes_of_ascii "
MetaData
tag {
    trueish packetx`two words`, int metadata ,
// 50% %s
// c
options1 chars ,
    i32
    T
, _x int ,
} packet BodyLength {
a1 `two words` ,  } packet
    x
{ char[ 1]
T // c
@lengthOf( leftPad
    )
,@calculatedFrom(""a\\""
)	u64 zchar
// " ++ [27880; 37322]%N ++ runes_of_ascii "
// `tick` ""quote"" 'q'
@calculatedFrom(
    ""a	b"" ) ,}
//	t
")).
Eval vm_compute in ("<<<M1994>>>" ++ check (runes_of_ascii "options	{
tag
= string u8x =""abc"" tag
    = i8
;  } root packet options1 {int16	string_
    @calculatedFrom( ""CRC32"")`it's` ,
    }
    packet roots{	}
packet
    u8x {
    @calculatedFrom( """ ++ [233]%N ++ runes_of_ascii "t" ++ [233]%N ++ runes_of_ascii """  )// " ++ [27880; 37322]%N ++ runes_of_ascii "
float32  Pad `
` ,	}")).
Eval vm_compute in ("<<<T1994>>>" ++ terms [mkTok 1 "options" 1 0 false; mkTok 2 "{" 1 8 false; mkTok 42 "tag" 2 0 false; mkTok 4 "=" 3 0 false; mkTok 15 "string" 3 2 false; mkTok 42 "u8x" 3 9 false; mkTok 4 "=" 3 13 false; mkTok 31 """abc""" 3 14 false; mkTok 42 "tag" 3 20 false; mkTok 4 "=" 4 4 false; mkTok 24 "i8" 4 6 false; mkTok 41 ";" 5 0 false; mkTok 3 "}" 5 3 false; mkTok 34 "root" 5 5 false; mkTok 35 "packet" 5 10 false; mkTok 42 "options1" 5 17 false; mkTok 2 "{" 5 26 false; mkTok 25 "int16" 5 27 false; mkTok 42 "string_" 5 33 false; mkTok 5 "@calculatedFrom(" 6 4 false; mkTok 31 """CRC32""" 6 21 false; mkTok 6 ")" 6 28 false; mkTok 43 "`it's`" 6 29 false; mkTok 40 "," 6 36 false; mkTok 3 "}" 7 4 false; mkTok 35 "packet" 8 4 false; mkTok 42 "roots" 8 11 false; mkTok 2 "{" 8 16 false; mkTok 3 "}" 8 18 false; mkTok 35 "packet" 9 0 false; mkTok 42 "u8x" 10 4 false; mkTok 2 "{" 10 8 false; mkTok 5 "@calculatedFrom(" 11 4 false; mkTok 31 (string_of_bytes [34; 195; 169; 116; 195; 169; 34]%N) 11 21 false; mkTok 6 ")" 11 28 false; mkTok 44 (string_of_bytes [47; 47; 32; 230; 179; 168; 233; 135; 138]%N) 11 29 true; mkTok 28 "float32" 12 0 false; mkTok 42 "Pad" 12 9 false; mkTok 43 (string_of_bytes [96; 10; 96]%N) 12 13 false; mkTok 40 "," 13 2 false; mkTok 3 "}" 13 4 false; mkTok 0 "<EOF>" 13 5 false] (mkPacket (mkPtok 1 "options" 1 0 0) (Some (mkPtok 3 "}" 13 4 40)) [(DOption (mkOptionDef (mkSpan (mkPtok 1 "options" 1 0 0) (mkPtok 3 "}" 5 3 12)) (mkPtok 1 "options" 1 0 0) (mkPtok 2 "{" 1 8 1) [(mkOptionDecl (mkSpan (mkPtok 42 "tag" 2 0 2) (mkPtok 15 "string" 3 2 4)) (mkPtok 42 "tag" 2 0 2) (mkPtok 4 "=" 3 0 3) (VType (mkSpan (mkPtok 15 "string" 3 2 4) (mkPtok 15 "string" 3 2 4)) (TyDynamic (mkSpan (mkPtok 15 "string" 3 2 4) (mkPtok 15 "string" 3 2 4)) (mkDynamicString (mkSpan (mkPtok 15 "string" 3 2 4) (mkPtok 15 "string" 3 2 4)) (mkPtok 15 "string" 3 2 4)))) None); (mkOptionDecl (mkSpan (mkPtok 42 "u8x" 3 9 5) (mkPtok 31 """abc""" 3 14 7)) (mkPtok 42 "u8x" 3 9 5) (mkPtok 4 "=" 3 13 6) (VString (mkSpan (mkPtok 31 """abc""" 3 14 7) (mkPtok 31 """abc""" 3 14 7)) (mkPtok 31 """abc""" 3 14 7)) None); (mkOptionDecl (mkSpan (mkPtok 42 "tag" 3 20 8) (mkPtok 41 ";" 5 0 11)) (mkPtok 42 "tag" 3 20 8) (mkPtok 4 "=" 4 4 9) (VType (mkSpan (mkPtok 24 "i8" 4 6 10) (mkPtok 24 "i8" 4 6 10)) (TyBasic (mkSpan (mkPtok 24 "i8" 4 6 10) (mkPtok 24 "i8" 4 6 10)) (mkBasicType (mkSpan (mkPtok 24 "i8" 4 6 10) (mkPtok 24 "i8" 4 6 10)) (mkPtok 24 "i8" 4 6 10)))) (Some (mkPtok 41 ";" 5 0 11)))] (mkPtok 3 "}" 5 3 12))); (DPacket (mkPacketDef (mkSpan (mkPtok 34 "root" 5 5 13) (mkPtok 3 "}" 7 4 24)) (Some (mkPtok 34 "root" 5 5 13)) (mkPtok 35 "packet" 5 10 14) (mkPtok 42 "options1" 5 17 15) (mkPtok 2 "{" 5 26 16) [(mkFieldWithAttr (mkSpan (mkPtok 25 "int16" 5 27 17) (mkPtok 40 "," 6 36 23)) [] (CheckSumField (mkSpan (mkPtok 25 "int16" 5 27 17) (mkPtok 40 "," 6 36 23)) (mkChecksumFieldDecl (mkSpan (mkPtok 25 "int16" 5 27 17) (mkPtok 40 "," 6 36 23)) (Some (TyBasic (mkSpan (mkPtok 25 "int16" 5 27 17) (mkPtok 25 "int16" 5 27 17)) (mkBasicType (mkSpan (mkPtok 25 "int16" 5 27 17) (mkPtok 25 "int16" 5 27 17)) (mkPtok 25 "int16" 5 27 17)))) (mkPtok 42 "string_" 5 33 18) (mkCalculatedFrom (mkSpan (mkPtok 5 "@calculatedFrom(" 6 4 19) (mkPtok 6 ")" 6 28 21)) (mkPtok 5 "@calculatedFrom(" 6 4 19) (mkPtok 31 """CRC32""" 6 21 20) (mkPtok 6 ")" 6 28 21)) (Some (mkPtok 43 "`it's`" 6 29 22)) (mkPtok 40 "," 6 36 23))))] (mkPtok 3 "}" 7 4 24))); (DPacket (mkPacketDef (mkSpan (mkPtok 35 "packet" 8 4 25) (mkPtok 3 "}" 8 18 28)) None (mkPtok 35 "packet" 8 4 25) (mkPtok 42 "roots" 8 11 26) (mkPtok 2 "{" 8 16 27) [] (mkPtok 3 "}" 8 18 28))); (DPacket (mkPacketDef (mkSpan (mkPtok 35 "packet" 9 0 29) (mkPtok 3 "}" 13 4 40)) None (mkPtok 35 "packet" 9 0 29) (mkPtok 42 "u8x" 10 4 30) (mkPtok 2 "{" 10 8 31) [(mkFieldWithAttr (mkSpan (mkPtok 5 "@calculatedFrom(" 11 4 32) (mkPtok 40 "," 13 2 39)) [(FACalculatedFrom (mkSpan (mkPtok 5 "@calculatedFrom(" 11 4 32) (mkPtok 6 ")" 11 28 34)) (mkCalculatedFrom (mkSpan (mkPtok 5 "@calculatedFrom(" 11 4 32) (mkPtok 6 ")" 11 28 34)) (mkPtok 5 "@calculatedFrom(" 11 4 32) (mkPtok 31 (string_of_bytes [34; 195; 169; 116; 195; 169; 34]%N) 11 21 33) (mkPtok 6 ")" 11 28 34)))] (MetaField (mkSpan (mkPtok 28 "float32" 12 0 36) (mkPtok 40 "," 13 2 39)) None (mkMetaDecl (mkSpan (mkPtok 28 "float32" 12 0 36) (mkPtok 40 "," 13 2 39)) (TyBasic (mkSpan (mkPtok 28 "float32" 12 0 36) (mkPtok 28 "float32" 12 0 36)) (mkBasicType (mkSpan (mkPtok 28 "float32" 12 0 36) (mkPtok 28 "float32" 12 0 36)) (mkPtok 28 "float32" 12 0 36))) (mkPtok 42 "Pad" 12 9 37) (Some (mkPtok 43 (string_of_bytes [96; 10; 96]%N) 12 13 38)) (mkPtok 40 "," 13 2 39))))] (mkPtok 3 "}" 13 4 40)))])).
Eval vm_compute in ("<<<M2026>>>" ++ check (runes_of_ascii "MetaData repeatCount { packetx float64,
} root packet  metadata {
char _x @lengthOf( trueish ), @leftPad
( ' '// " ++ [27880; 37322]%N ++ runes_of_ascii "
)/// triple
char[] len`doc` , // packet A { u8 x, }
repeatCount , }
")).
Eval vm_compute in ("<<<M2058>>>" ++ check (runes_of_ascii "MetaData repeatCount { float64 packetx,
} root packet")).
Eval vm_compute in ("<<<M2090>>>" ++ check (runes_of_ascii "MetaData repeatCount { float64 packetx,
} root packet  metadata {
char _x @lengthOf( trueish ), , @leftPad
( ' '// " ++ [27880; 37322]%N ++ runes_of_ascii "
)/// triple
char[] len`doc` , // packet A { u8 x, }
repeatCount , }
")).
Eval vm_compute in ("<<<M2122>>>" ++ check (runes_of_ascii "MetaData repeatCount { float64 packetx,
} root packet  metadata {
char _x @lengthOf( trueish ), @leftPad
( ' '// " ++ [27880; 37322]%N ++ runes_of_ascii "
)/// triple
char[] int32`doc` , // packet A { u8 x, }
repeatCount , }
")).
Eval vm_compute in ("<<<M2154>>>" ++ check (runes_of_ascii "MetaData repeatCount { float64 packetx,
} root packet  metadata {
char _x @lengthOf( trueish ), @leftPad
( ' '// " ++ [27880; 37322]%N ++ runes_of_ascii "
)/// triple
char[] len`doc` , /?/ packet A { u8 x, }
repeatCount , }
")).
Eval vm_compute in ("<<<M2186>>>" ++ check (runes_of_ascii "options{
leftPad
    = =65535
;
a1 = true ; packetx=  '\x00' ; packetx
=  """ ++ [28040; 24687]%N ++ runes_of_ascii """MetaDataX= // " ++ [27880; 37322]%N ++ runes_of_ascii "
false }root // c
packet // packet A { u8 x, }
Pad { repeat
u8 Header
// packet A { u8 x, }
//	t
`{ , }`
// a // b
//x
, }
")).
Eval vm_compute in ("<<<M2218>>>" ++ check (runes_of_ascii "options{
leftPad
    =65535
;
a1 = true uint32 packetx=  '\x00' ; packetx
=  """ ++ [28040; 24687]%N ++ runes_of_ascii """MetaDataX= // " ++ [27880; 37322]%N ++ runes_of_ascii "
false }root // c
packet // packet A { u8 x, }
Pad { repeat
u8 Header
// packet A { u8 x, }
//	t
`{ , }`
// a // b
//x
, }
")).
Eval vm_compute in ("<<<M2250>>>" ++ check (runes_of_ascii "options{
leftPad
    =65535
;
a1 = true ; packetx=  '\x00' ; packetx
=  MetaDataX= // " ++ [27880; 37322]%N ++ runes_of_ascii "
false }root // c
packet // packet A { u8 x, }
Pad { repeat
u8 Header
// packet A { u8 x, }
//	t
`{ , }`
// a // b
//x
, }
")).
Eval vm_compute in ("<<<M2282>>>" ++ check (runes_of_ascii "options{
leftPad
    =65535
;
a1 = true ; packetx=  '\x00' ; packetx
=  """ ++ [28040; 24687]%N ++ runes_of_ascii """MetaDataX= // " ++ [27880; 37322]%N ++ runes_of_ascii "
false }root // c
Pad // packet A { u8 x, }
packet { repeat
u8 Header
// packet A { u8 x, }
//	t
`{ , }`
// a // b
//x
, }
")).
Eval vm_compute in ("<<<M2314>>>" ++ check (runes_of_ascii "options{
leftPad
    =65535
;
a1 = true ; packetx=  '\x00' ; packetx
=  """ ++ [28040; 24687]%N ++ runes_of_ascii """MetaDataX= // " ++ [27880; 37322]%N ++ runes_of_ascii "
false }root // c
packet // packet A { u8 x, }
Pad { repeat
u8 Header")).
Eval vm_compute in ("<<<M2346>>>" ++ check (runes_of_ascii "
 float
{	@calculatedFrom( """ ++ [233]%N ++ runes_of_ascii "t" ++ [233]%N ++ runes_of_ascii """ )
@rightPad ( '\x00' )
    @calculatedFrom( ""x y"" ) string chars  ,
    // a // b
    char[0 ]
    u	@lengthOf( i8i8 ) `{ , }` ,repeat char[] o //x
`// not a comment`, } // c")).
Eval vm_compute in ("<<<M2378>>>" ++ check (runes_of_ascii "
packet float
{	@calculatedFrom( """ ++ [233]%N ++ runes_of_ascii "t" ++ [233]%N ++ runes_of_ascii """ )
( @rightPad '\x00' )
    @calculatedFrom( ""x y"" ) string chars  ,
    // a // b
    char[0 ]
    u	@lengthOf( i8i8 ) `{ , }` ,repeat char[] o //x
`// not a comment`, } // c")).
Eval vm_compute in ("<<<M2410>>>" ++ check (runes_of_ascii "
packet float
{	@calculatedFrom( """ ++ [233]%N ++ runes_of_ascii "t" ++ [233]%N ++ runes_of_ascii """ )
@rightPad ( '\x00' )
    @calculatedFrom( ""x y""")).
Eval vm_compute in ("<<<M2442>>>" ++ check (runes_of_ascii "
packet float
{	@calculatedFrom( """ ++ [233]%N ++ runes_of_ascii "t" ++ [233]%N ++ runes_of_ascii """ )
@rightPad ( '\x00' )
    @calculatedFrom( ""x y"" ) string chars  ,
    // a // b
    char[0 ]
    u u	@lengthOf( i8i8 ) `{ , }` ,repeat char[] o //x
`// not a comment`, } // c")).
Eval vm_compute in ("<<<M2474>>>" ++ check (runes_of_ascii "
packet float
{	@calculatedFrom( """ ++ [233]%N ++ runes_of_ascii "t" ++ [233]%N ++ runes_of_ascii """ )
@rightPad ( '\x00' )
    @calculatedFrom( ""x y"" ) string chars  ,
    // a // b
    char[0 ]
    u	@lengthOf( i8i8 ) `{ , }` ,uint16 char[] o //x
`// not a comment`, } // c")).
Eval vm_compute in ("<<<M2506>>>" ++ check (runes_of_ascii "
packet float
{	@calculatedFrom( """ ++ [233]%N ++ runes_of_ascii "t" ++ [233]%N ++ runes_of_ascii """ )
@rig@taghtPad ( '\x00' )
    @calculatedFrom( ""x y"" ) string chars  ,
    // a // b
    char[0 ]
    u	@lengthOf( i8i8 ) `{ , }` ,repeat char[] o //x
`// not a comment`, } // c")).
Eval vm_compute in ("<<<M2538>>>" ++ check (runes_of_ascii "root packet u128{ {
    repeat
    zchar[ 65535 ] u `" ++ [28040; 24687; 31867; 22411]%N ++ runes_of_ascii "` ,// `tick` ""quote"" 'q'
} packet i64_ {repeatCount
    `
` ,	} // " ++ [128512]%N ++ runes_of_ascii " emoji")).
Eval vm_compute in ("<<<M2570>>>" ++ check (runes_of_ascii "root packet u128{
    repeat
    zchar[ 65535 ] u ; ,// `tick` ""quote"" 'q'
} packet i64_ {repeatCount
    `
` ,	} // " ++ [128512]%N ++ runes_of_ascii " emoji")).
Eval vm_compute in ("<<<M2602>>>" ++ check (runes_of_ascii "root packet u128{
    repeat
    zchar[ 65535 ] u `" ++ [28040; 24687; 31867; 22411]%N ++ runes_of_ascii "` ,// `tick` ""quote"" 'q'
} packet i64_ {repeatCount
     ,	} // " ++ [128512]%N ++ runes_of_ascii " emoji")).
Eval vm_compute in ("<<<M2634>>>" ++ check (runes_of_ascii "root packet u128{
    repeat" ++ [233]%N ++ runes_of_ascii "
    zchar[ 65535 ] u `" ++ [28040; 24687; 31867; 22411]%N ++ runes_of_ascii "` ,// `tick` ""quote"" 'q'
} packet i64_ {repeatCount
    `
` ,	} // " ++ [128512]%N ++ runes_of_ascii " emoji")).
Eval vm_compute in ("<<<M2666>>>" ++ check (runes_of_ascii "
MetaData
roots { int8
    BodyLength match//	t
}
")).
Eval vm_compute in ("<<<M2698>>>" ++ check (@nil rune)).
Eval vm_compute in ("<<<M2730>>>" ++ check (runes_of_ascii "options {Packet = ""CRC32""i8i8 = false false; leftPad =
    '\x00'
    // `tick` ""quote"" 'q'
    ; o=255  ;
    // packet A { u8 x, }
    }")).
Eval vm_compute in ("<<<M2762>>>" ++ check (runes_of_ascii "options {Packet = ""CRC32""i8i8 = false; leftPad =
    '\x00'
    // `tick` ""quote"" 'q'
    ; int16=255  ;
    // packet A { u8 x, }
    }")).
Eval vm_compute in ("<<<M2794>>>" ++ check (runes_of_ascii "options {Packet = ""CRC32""i8i8 = false; leftPad =
    '\x00'
    // `tick` ""quote"" 'q'
    ; o''=255  ;
    // packet A { u8 x, }
    }")).
Eval vm_compute in ("<<<M2826>>>" ++ check (runes_of_ascii "
packet metadata { @rightPad ( (
    // packet A { u8 x, }
    ' ' ) repeat u32	A
,matchKey ,
    @lengthOf( string_ ) @lengthOf( body )
    // a // b
    @lengthOf(float  )	repeat
int32 u8x
    // c
    `tab	here`
, } // a // b")).
Eval vm_compute in ("<<<M2858>>>" ++ check (runes_of_ascii "
packet metadata { @rightPad (
    // packet A { u8 x, }
    ' ' ) repeat u32	A
'0'matchKey ,
    @lengthOf( string_ ) @lengthOf( body )
    // a // b
    @lengthOf(float  )	repeat
int32 u8x
    // c
    `tab	here`
, } // a // b")).
Eval vm_compute in ("<<<M2890>>>" ++ check (runes_of_ascii "
packet metadata { @rightPad (
    // packet A { u8 x, }
    ' ' ) repeat u32	A
,matchKey ,
    @lengthOf( string_ ) @lengthOf(  )
    // a // b
    @lengthOf(float  )	repeat
int32 u8x
    // c
    `tab	here`
, } // a // b")).
Eval vm_compute in ("<<<M2922>>>" ++ check (runes_of_ascii "
packet metadata { @rightPad (
    // packet A { u8 x, }
    ' ' ) repeat u32	A
,matchKey ,
    @lengthOf( string_ ) @lengthOf( body )
    // a // b
    @lengthOf(float  )	repeat
u8x int32
    // c
    `tab	here`
, } // a // b")).
Eval vm_compute in ("<<<M2954>>>" ++ check (runes_of_ascii "
packet metadata { @rightPad (
    // packet A { u8 x, }
    ' ' ) repeat u32	A
,matchKey ,
    @lengthOf( string_ ) @lengthOf( body )
    // a // b
    @len'1'gthOf(float  )	repeat
int32 u8x
    // c
    `tab	here`
, } // a // b")).
Eval vm_compute in ("<<<M2986>>>" ++ check (runes_of_ascii "packet x{
string
 , //	t
}
")).
Eval vm_compute in ("<<<M3018>>>" ++ check (runes_of_ascii "pa`cket x{
string
zchar , //	t
}
")).
Eval vm_compute in ("<<<M3050>>>" ++ check (runes_of_ascii "
MetaData Logon
{ // c
}root true
    Pad {
    } options
{
u
    =
    ""CRC32""
    // " ++ [128512]%N ++ runes_of_ascii " emoji
    i64_ = u16;
T =65535 x = ' '
    ; u128
= true ; }")).
Eval vm_compute in ("<<<M3082>>>" ++ check (runes_of_ascii "
MetaData Logon
{ // c
}root packet
    Pad {
    } options
{
u
    
    ""CRC32""
    // " ++ [128512]%N ++ runes_of_ascii " emoji
    i64_ = u16;
T =65535 x = ' '
    ; u128
= true ; }")).
Eval vm_compute in ("<<<M3114>>>" ++ check (runes_of_ascii "
MetaData Logon
{ // c
}root packet
    Pad {
    } options
{
u
    =
    ""CRC32""
    // " ++ [128512]%N ++ runes_of_ascii " emoji
    i64_ = u16;
= T 65535 x = ' '
    ; u128
= true ; }")).
Eval vm_compute in ("<<<M3146>>>" ++ check (runes_of_ascii "
MetaData Logon
{ // c
}root packet
    Pad {
    } options
{
u
    =
    ""CRC32""
    // " ++ [128512]%N ++ runes_of_ascii " emoji
    i64_ = u16;
T =65535 x = ' '")).
Eval vm_compute in ("<<<M3178>>>" ++ check (runes_of_ascii "
| MetaData Logon
{ // c
}root packet
    Pad {
    } options
{
u
    =
    ""CRC32""
    // " ++ [128512]%N ++ runes_of_ascii " emoji
    i64_ = u16;
T =65535 x = ' '
    ; u128
= true ; }")).
Eval vm_compute in ("<<<M3210>>>" ++ check (runes_of_ascii "MetaData body{packet
}	Packet { x_y_z @calculatedFrom(  ""a\\"")// `tick` ""quote"" 'q'
, }
")).
Eval vm_compute in ("<<<M3242>>>" ++ check (runes_of_ascii "MetaData body{}
packet	Packet { x_y_z @calculatedFrom(")).
Eval vm_compute in ("<<<M3274>>>" ++ check (runes_of_ascii "MetaData ~body{}
packet	Packet { x_y_z @calculatedFrom(  ""a\\"")// `tick` ""quote"" 'q'
, }
")).
Eval vm_compute in ("<<<M3306>>>" ++ check (runes_of_ascii "packet f32a {} root len packet {repeat u // " ++ [128512]%N ++ runes_of_ascii " emoji
`{ , }` , }
")).
Eval vm_compute in ("<<<M3338>>>" ++ check (runes_of_ascii "packet f32a {} root packet len {repeat u // " ++ [128512]%N ++ runes_of_ascii " emoji
`{ , }`")).
Eval vm_compute in ("<<<M3370>>>" ++ check (runes_of_ascii "options{ _x=""\" ++ [233]%N ++ runes_of_ascii """;
    Logon = 10	; Foo= 7;
i64_= char[]} options {
matchKey = ""// no comment"" // a // b
falsey = string
; trueish =
    4294967296
options1=
    ""it's"" string_	= true true } options {
    /// triple
    }")).
Eval vm_compute in ("<<<M3402>>>" ++ check (runes_of_ascii "options{ _x=""\" ++ [233]%N ++ runes_of_ascii """;
    Logon = 10	; Foo= 7;
i64_= char[]} options {
matchKey = ""// no comment"" // a // b
falsey = string
; trueish =
    4294967296
options1=
    ""it's"" string_	= ) } options {
    /// triple
    }")).
Eval vm_compute in ("<<<M3434>>>" ++ check (runes_of_ascii "options{ _x=""\" ++ [233]%N ++ runes_of_ascii """;
    Logon = 10	; Foo= 7;
i64_= char[]} options {
matchKey = ""// no comment"" // a // b
falsey = string
; trueish =
    4294967296
options1=
     string_	= true } options {
    /// triple
    }")).
Eval vm_compute in ("<<<M3466>>>" ++ check (runes_of_ascii "options{ _x=""\" ++ [233]%N ++ runes_of_ascii """;
    Logon = 10	; Foo= 7;
i64_= char[]} options {
matchKey = ""// no comment"" // a // b
falsey = string
; trueish =
    4294967296
options1=
    ""it's"" string_	= } true options {
    /// triple
    }")).
Eval vm_compute in ("<<<M3498>>>" ++ check (runes_of_ascii "zchar [")).
Eval vm_compute in ("<<<M3530>>>" ++ check (runes_of_ascii "MetaData")).
Eval vm_compute in ("<<<M3562>>>" ++ check (runes_of_ascii "@@")).
Eval vm_compute in ("<<<M3594>>>" ++ check (runes_of_ascii "007")).
Eval vm_compute in ("<<<M3626>>>" ++ check (runes_of_ascii "packet A { repeat u8 x @lengthOf(y), }")).
Eval vm_compute in ("<<<M3658>>>" ++ check (runes_of_ascii "packet A { x @calculatedFrom(c), }")).
Eval vm_compute in ("<<<M3690>>>" ++ check (runes_of_ascii "packet A { @leftPad u8 x, }")).
Eval vm_compute in ("<<<M3722>>>" ++ check (runes_of_ascii "MetaData M M { }")).
Eval vm_compute in ("<<<M3754>>>" ++ check (runes_of_ascii "")).
Eval vm_compute in ("<<<M3786>>>" ++ check (runes_of_ascii "u64 ; char[] uint8 10")).
Eval vm_compute in ("<<<M3818>>>" ++ check (runes_of_ascii "@leftPad ( as u64 string uint16")).
Eval vm_compute in ("<<<M3850>>>" ++ check (runes_of_ascii "{ ] ""\" ++ [233]%N ++ runes_of_ascii """ int16 MetaData char")).
Eval vm_compute in ("<<<M3882>>>" ++ check (runes_of_ascii "u64 ( ; float32 false MetaData u64 trueish")).
Eval vm_compute in ("<<<M3914>>>" ++ check (runes_of_ascii "int16 u64 uint16 repeat")).
Eval vm_compute in ("<<<M3946>>>" ++ check (runes_of_ascii "@tag(")).
Eval vm_compute in ("<<<M3978>>>" ++ check (runes_of_ascii "match : f32 char[ zchar[ 65535")).
