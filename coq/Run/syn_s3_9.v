From FP Require Import Lexer Parser ShowPT Digest.
From Coq Require Import String List NArith.
Import ListNotations.
Open Scope string_scope.
Set Printing Width 100000000.
Set Printing Depth 100000000.
Definition nl : string := String (Ascii.ascii_of_nat 10) EmptyString.
Definition model_lex (rs : list rune) : string := show_toks (lex rs).
Definition model_parse (rs : list rune) : string :=
  show_pt (match lex rs with Some ts => parse ts | None => None end).
(* coqc is slow at printing long strings: digests first (Digest.v), full texts on demand *)
Definition check (rs : list rune) : string :=
  digest (model_lex rs) ++ " " ++ digest (model_parse rs).
Definition full (rs : list rune) : string := model_lex rs ++ nl ++ model_parse rs.
Definition terms (ts : list tok) (t : pt) : string :=
  digest (show_toks (Some ts)) ++ " " ++ digest (show_pt (Some t)) ++ " " ++ digest (show_pt (parse ts)).
Definition terms_full (ts : list tok) (t : pt) : string :=
  show_toks (Some ts) ++ nl ++ show_pt (Some t) ++ nl ++ show_pt (parse ts).
Eval vm_compute in ("<<<M9>>>" ++ check (runes_of_ascii "
options
{ }
")).
Eval vm_compute in ("<<<M19>>>" ++ check (runes_of_ascii "//
options
{ Header
=' '}root packet len
//
// a // b
{
    // a // b
    @tag(
00 ) match u	as stringy
// `tick` ""quote"" 'q'
// " ++ [27880; 37322]%N ++ runes_of_ascii "
{ 4294967296 : msg_type ,""1"" :asx } , A  @calculatedFrom( ""CRC32"" )
`" ++ [28040; 24687; 31867; 22411]%N ++ runes_of_ascii "`, MetaDataX // packet A { u8 x, }
`u8 x,`,@tag( 10 ) @lengthOf( i8i8
    )  repeat Z9_ x
    `" ++ [28040; 24687; 31867; 22411]%N ++ runes_of_ascii "`
    // packet A { u8 x, }
    ,
} packet Foo{
MetaDataX matchKey `" ++ [233]%N ++ runes_of_ascii "` ,} packet
a1 {  u16 Pad @calculatedFrom( """ ++ [128512]%N ++ runes_of_ascii """ ) `// not a comment`  , repeat char[]
    // a // b
    u128 `" ++ [28040; 24687; 31867; 22411]%N ++ runes_of_ascii "` ,@lengthOf( stringy ) @tag( 0123456789
    )Header stringy ,@lengthOf(
len )
repeat zchar[ 0 // `tick` ""quote"" 'q'
]	falsey ,} options{ asx= ' ' // " ++ [27880; 37322]%N ++ runes_of_ascii "
; }
")).
Eval vm_compute in ("<<<M29>>>" ++ check (runes_of_ascii "packet Header {	} packet
    metadata
{  char // packet A { u8 x, }
rootA@lengthOf(
leftPad ) , Pad	trueish  ,
u128,  string repeatCount , @tag( 0123456789
) repeat	float64 u128 `two words`, @calculatedFrom(""`tick`""
    )
    repeat A// a // b
x `u8 x,`, char[ 007 ]float @calculatedFrom(""x y"" ),  @rightPad (
' '
) i8	crc ,}root packet
uint8x { }root// c
packet zchar{repeat calculatedFrom { int32
    // c
    x_y_z @lengthOf(
trueish
)
``
    , } , metadata
,repeat char[ 65535 ]
    pack `it's` , T@lengthOf( uint8x ) `crlf
line`  ,}  packet
x {@calculatedFrom( ""1""	)
@leftPad // c
( ) @calculatedFrom( ""CRC32"" ) string
tag `" ++ [233]%N ++ runes_of_ascii "` ,
@calculatedFrom( ""abc""	) int32 T
`it's` , f32  body `u8 x,`	, }")).
Eval vm_compute in ("<<<M39>>>" ++ check (runes_of_ascii "packet
    A { } options{
f32a= false
} packet	falsey
{ repeat string tag ,
    @calculatedFrom( ""a\\"" )repeatCount
,
    @leftPad ( )
    tag { int8 a1 `say ""hi""` , }
    , options1
//	t
// a // b
{
f32  Logon @calculatedFrom( // " ++ [27880; 37322]%N ++ runes_of_ascii "
""" ++ [233]%N ++ runes_of_ascii "t" ++ [233]%N ++ runes_of_ascii """) `two words` ,
}, }

")).
Eval vm_compute in ("<<<M49>>>" ++ check (runes_of_ascii "MetaData
i8i8
{ // " ++ [27880; 37322]%N ++ runes_of_ascii "
uint8x stringy
`tab	here`
    //
    ,	zchar[	0]  f32a , calculatedFrom Pad
`it's` , string string_
    // trailing space 
    , // `tick` ""quote"" 'q'
char[ 3 ] o
, int32 repeatCount, } // a // b")).
Eval vm_compute in ("<<<M59>>>" ++ check (runes_of_ascii "
MetaData crc
{ }
")).
Eval vm_compute in ("<<<M69>>>" ++ check (runes_of_ascii "options {leftPad=
    char[]
}
")).
Eval vm_compute in ("<<<T69>>>" ++ terms [mkTok 1 "options" 1 0 false; mkTok 2 "{" 1 8 false; mkTok 42 "leftPad" 1 9 false; mkTok 4 "=" 1 16 false; mkTok 16 "char[]" 2 4 false; mkTok 3 "}" 3 0 false; mkTok 0 "<EOF>" 4 0 false] (mkPacket (mkPtok 1 "options" 1 0 0) (Some (mkPtok 3 "}" 3 0 5)) [(DOption (mkOptionDef (mkSpan (mkPtok 1 "options" 1 0 0) (mkPtok 3 "}" 3 0 5)) (mkPtok 1 "options" 1 0 0) (mkPtok 2 "{" 1 8 1) [(mkOptionDecl (mkSpan (mkPtok 42 "leftPad" 1 9 2) (mkPtok 16 "char[]" 2 4 4)) (mkPtok 42 "leftPad" 1 9 2) (mkPtok 4 "=" 1 16 3) (VType (mkSpan (mkPtok 16 "char[]" 2 4 4) (mkPtok 16 "char[]" 2 4 4)) (TyDynamic (mkSpan (mkPtok 16 "char[]" 2 4 4) (mkPtok 16 "char[]" 2 4 4)) (mkDynamicString (mkSpan (mkPtok 16 "char[]" 2 4 4) (mkPtok 16 "char[]" 2 4 4)) (mkPtok 16 "char[]" 2 4 4)))) None)] (mkPtok 3 "}" 3 0 5)))])).
Eval vm_compute in ("<<<M79>>>" ++ check (runes_of_ascii "options {x_y_z = // `tick` ""quote"" 'q'
u16 ;_x =
""a	b""
Foo = ""a	b"" Foo  = '0'
    }")).
Eval vm_compute in ("<<<M89>>>" ++ check (runes_of_ascii "// @lengthOf(
options
    { leftPad=	'\x00' x
=
// a // b
// packet A { u8 x, }
'0';	metadata
    // trailing space 
    = char // @lengthOf(
; }packet
Packet {
    // `tick` ""quote"" 'q'
    } root packet u { }")).
Eval vm_compute in ("<<<M99>>>" ++ check (runes_of_ascii "packet	BodyLength { char[ 007
    ]
    pack, //x
}root packet float
{ lengthOf	float, match
Foo as	As{""" ++ [28040; 24687]%N ++ runes_of_ascii """ : msg_type // " ++ [128512]%N ++ runes_of_ascii " emoji
,
    42
: // " ++ [128512]%N ++ runes_of_ascii " emoji
string_
    } , }
root
    packet i64_// a // b
{ @tag(7)msg_type
    //x
    `say ""hi""`  ,uint8 asx  `" ++ [28040; 24687; 31867; 22411]%N ++ runes_of_ascii "` , @tag(//x
007 ) match
//	t
// c
uint8x as Packet {[//	t
""\n""
, ""// no comment""
]
: //
zchar
007 : //
crc 65535: // c
zchar
, 0123456789:zchar
    }, }
")).
Eval vm_compute in ("<<<M109>>>" ++ check (runes_of_ascii "MetaData chars /// triple
{ string BodyLength	, } //x")).
Eval vm_compute in ("<<<M119>>>" ++ check (runes_of_ascii "MetaData asx
    //	t
    {
}	packet	MetaDataX
    {
    //x
    }
packet charz { int8 lengthOf  @lengthOf(u8x) // c
`" ++ [28040; 24687; 31867; 22411]%N ++ runes_of_ascii "` ,	} 	 ")).
Eval vm_compute in ("<<<M129>>>" ++ check (runes_of_ascii "options {
    pack=char } options{ options1=  char[// @lengthOf(
3  ];chars =
    ""{,}""
;
    }
    options {	Pad= '0' ; }
")).
Eval vm_compute in ("<<<M139>>>" ++ check (runes_of_ascii "options {
Header
    = zchar[
    1
] ; falsey = // " ++ [27880; 37322]%N ++ runes_of_ascii "
char[ 4294967296
    ]; Header = //	t
u32
    } options {} options
{asx =true ; asx
    // trailing space 
    = '0'  ;tag =char[]
packetx = '\x00' ;
calculatedFrom = '0'
// `tick` ""quote"" 'q'
//
}packet asx
{ char[ 42 ] tag`u8 x,` ,match /// triple
rootA as options1
{ 65535
:
    //	t
    _x } , //
Header{ lengthOf { uint8x
    {
    //x
    int32 trueish ,  repeat char[ 007
    // `tick` ""quote"" 'q'
    ] pack ``
,
    repeat //x
zchar[ 10 ] // a // b
tag`doc`,}
    , repeat
zchar[
    3 ] o `line1
line2`,
} // a // b
, repeat metadata
    , repeat  Z9_ `u8 x,` ,
zchar[	10
]
u128
    , },
u128@lengthOf( packetx
    ) `// not a comment` , char[]matchKey
    `a\` , }")).
Eval vm_compute in ("<<<T139>>>" ++ terms [mkTok 1 "options" 1 0 false; mkTok 2 "{" 1 8 false; mkTok 42 "Header" 2 0 false; mkTok 4 "=" 3 4 false; mkTok 14 "zchar[" 3 6 false; mkTok 30 "1" 4 4 false; mkTok 13 "]" 5 0 false; mkTok 41 ";" 5 2 false; mkTok 42 "falsey" 5 4 false; mkTok 4 "=" 5 11 false; mkTok 44 (string_of_bytes [47; 47; 32; 230; 179; 168; 233; 135; 138]%N) 5 13 true; mkTok 12 "char[" 6 0 false; mkTok 30 "4294967296" 6 6 false; mkTok 13 "]" 7 4 false; mkTok 41 ";" 7 5 false; mkTok 42 "Header" 7 7 false; mkTok 4 "=" 7 14 false; mkTok 44 (string_of_bytes [47; 47; 9; 116]%N) 7 16 true; mkTok 22 "u32" 8 0 false; mkTok 3 "}" 9 4 false; mkTok 1 "options" 9 6 false; mkTok 2 "{" 9 14 false; mkTok 3 "}" 9 15 false; mkTok 1 "options" 9 17 false; mkTok 2 "{" 10 0 false; mkTok 42 "asx" 10 1 false; mkTok 4 "=" 10 5 false; mkTok 10 "true" 10 6 false; mkTok 41 ";" 10 11 false; mkTok 42 "asx" 10 13 false; mkTok 44 "// trailing space " 11 4 true; mkTok 4 "=" 12 4 false; mkTok 33 "'0'" 12 6 false; mkTok 41 ";" 12 11 false; mkTok 42 "tag" 12 12 false; mkTok 4 "=" 12 16 false; mkTok 16 "char[]" 12 17 false; mkTok 42 "packetx" 13 0 false; mkTok 4 "=" 13 8 false; mkTok 33 "'\x00'" 13 10 false; mkTok 41 ";" 13 17 false; mkTok 42 "calculatedFrom" 14 0 false; mkTok 4 "=" 14 15 false; mkTok 33 "'0'" 14 17 false; mkTok 44 "// `tick` ""quote"" 'q'" 15 0 true; mkTok 44 "//" 16 0 true; mkTok 3 "}" 17 0 false; mkTok 35 "packet" 17 1 false; mkTok 42 "asx" 17 8 false; mkTok 2 "{" 18 0 false; mkTok 12 "char[" 18 2 false; mkTok 30 "42" 18 8 false; mkTok 13 "]" 18 11 false; mkTok 42 "tag" 18 13 false; mkTok 43 "`u8 x,`" 18 16 false; mkTok 40 "," 18 24 false; mkTok 38 "match" 18 25 false; mkTok 44 "/// triple" 18 31 true; mkTok 42 "rootA" 19 0 false; mkTok 17 "as" 19 6 false; mkTok 42 "options1" 19 9 false; mkTok 2 "{" 20 0 false; mkTok 30 "65535" 20 2 false; mkTok 39 ":" 21 0 false; mkTok 44 (string_of_bytes [47; 47; 9; 116]%N) 22 4 true; mkTok 42 "_x" 23 4 false; mkTok 3 "}" 23 7 false; mkTok 40 "," 23 9 false; mkTok 44 "//" 23 11 true; mkTok 42 "Header" 24 0 false; mkTok 2 "{" 24 6 false; mkTok 42 "lengthOf" 24 8 false; mkTok 2 "{" 24 17 false; mkTok 42 "uint8x" 24 19 false; mkTok 2 "{" 25 4 false; mkTok 44 "//x" 26 4 true; mkTok 26 "int32" 27 4 false; mkTok 42 "trueish" 27 10 false; mkTok 40 "," 27 18 false; mkTok 36 "repeat" 27 21 false; mkTok 12 "char[" 27 28 false; mkTok 30 "007" 27 34 false; mkTok 44 "// `tick` ""quote"" 'q'" 28 4 true; mkTok 13 "]" 29 4 false; mkTok 42 "pack" 29 6 false; mkTok 43 "``" 29 11 false; mkTok 40 "," 30 0 false; mkTok 36 "repeat" 31 4 false; mkTok 44 "//x" 31 11 true; mkTok 14 "zchar[" 32 0 false; mkTok 30 "10" 32 7 false; mkTok 13 "]" 32 10 false; mkTok 44 "// a // b" 32 12 true; mkTok 42 "tag" 33 0 false; mkTok 43 "`doc`" 33 3 false; mkTok 40 "," 33 8 false; mkTok 3 "}" 33 9 false; mkTok 40 "," 34 4 false; mkTok 36 "repeat" 34 6 false; mkTok 14 "zchar[" 35 0 false; mkTok 30 "3" 36 4 false; mkTok 13 "]" 36 6 false; mkTok 42 "o" 36 8 false; mkTok 43 (string_of_bytes [96; 108; 105; 110; 101; 49; 10; 108; 105; 110; 101; 50; 96]%N) 36 10 false; mkTok 40 "," 37 6 false; mkTok 3 "}" 38 0 false; mkTok 44 "// a // b" 38 2 true; mkTok 40 "," 39 0 false; mkTok 36 "repeat" 39 2 false; mkTok 42 "metadata" 39 9 false; mkTok 40 "," 40 4 false; mkTok 36 "repeat" 40 6 false; mkTok 42 "Z9_" 40 14 false; mkTok 43 "`u8 x,`" 40 18 false; mkTok 40 "," 40 26 false; mkTok 14 "zchar[" 41 0 false; mkTok 30 "10" 41 7 false; mkTok 13 "]" 42 0 false; mkTok 42 "u128" 43 0 false; mkTok 40 "," 44 4 false; mkTok 3 "}" 44 6 false; mkTok 40 "," 44 7 false; mkTok 42 "u128" 45 0 false; mkTok 7 "@lengthOf(" 45 4 false; mkTok 42 "packetx" 45 15 false; mkTok 6 ")" 46 4 false; mkTok 43 "`// not a comment`" 46 6 false; mkTok 40 "," 46 25 false; mkTok 16 "char[]" 46 27 false; mkTok 42 "matchKey" 46 33 false; mkTok 43 "`a\`" 47 4 false; mkTok 40 "," 47 9 false; mkTok 3 "}" 47 11 false; mkTok 0 "<EOF>" 47 12 false] (mkPacket (mkPtok 1 "options" 1 0 0) (Some (mkPtok 3 "}" 47 11 132)) [(DOption (mkOptionDef (mkSpan (mkPtok 1 "options" 1 0 0) (mkPtok 3 "}" 9 4 19)) (mkPtok 1 "options" 1 0 0) (mkPtok 2 "{" 1 8 1) [(mkOptionDecl (mkSpan (mkPtok 42 "Header" 2 0 2) (mkPtok 41 ";" 5 2 7)) (mkPtok 42 "Header" 2 0 2) (mkPtok 4 "=" 3 4 3) (VType (mkSpan (mkPtok 14 "zchar[" 3 6 4) (mkPtok 13 "]" 5 0 6)) (TyFixed (mkSpan (mkPtok 14 "zchar[" 3 6 4) (mkPtok 13 "]" 5 0 6)) (mkFixedString (mkSpan (mkPtok 14 "zchar[" 3 6 4) (mkPtok 13 "]" 5 0 6)) (mkPtok 14 "zchar[" 3 6 4) (mkPtok 30 "1" 4 4 5) (mkPtok 13 "]" 5 0 6)))) (Some (mkPtok 41 ";" 5 2 7))); (mkOptionDecl (mkSpan (mkPtok 42 "falsey" 5 4 8) (mkPtok 41 ";" 7 5 14)) (mkPtok 42 "falsey" 5 4 8) (mkPtok 4 "=" 5 11 9) (VType (mkSpan (mkPtok 12 "char[" 6 0 11) (mkPtok 13 "]" 7 4 13)) (TyFixed (mkSpan (mkPtok 12 "char[" 6 0 11) (mkPtok 13 "]" 7 4 13)) (mkFixedString (mkSpan (mkPtok 12 "char[" 6 0 11) (mkPtok 13 "]" 7 4 13)) (mkPtok 12 "char[" 6 0 11) (mkPtok 30 "4294967296" 6 6 12) (mkPtok 13 "]" 7 4 13)))) (Some (mkPtok 41 ";" 7 5 14))); (mkOptionDecl (mkSpan (mkPtok 42 "Header" 7 7 15) (mkPtok 22 "u32" 8 0 18)) (mkPtok 42 "Header" 7 7 15) (mkPtok 4 "=" 7 14 16) (VType (mkSpan (mkPtok 22 "u32" 8 0 18) (mkPtok 22 "u32" 8 0 18)) (TyBasic (mkSpan (mkPtok 22 "u32" 8 0 18) (mkPtok 22 "u32" 8 0 18)) (mkBasicType (mkSpan (mkPtok 22 "u32" 8 0 18) (mkPtok 22 "u32" 8 0 18)) (mkPtok 22 "u32" 8 0 18)))) None)] (mkPtok 3 "}" 9 4 19))); (DOption (mkOptionDef (mkSpan (mkPtok 1 "options" 9 6 20) (mkPtok 3 "}" 9 15 22)) (mkPtok 1 "options" 9 6 20) (mkPtok 2 "{" 9 14 21) [] (mkPtok 3 "}" 9 15 22))); (DOption (mkOptionDef (mkSpan (mkPtok 1 "options" 9 17 23) (mkPtok 3 "}" 17 0 46)) (mkPtok 1 "options" 9 17 23) (mkPtok 2 "{" 10 0 24) [(mkOptionDecl (mkSpan (mkPtok 42 "asx" 10 1 25) (mkPtok 41 ";" 10 11 28)) (mkPtok 42 "asx" 10 1 25) (mkPtok 4 "=" 10 5 26) (VTrue (mkSpan (mkPtok 10 "true" 10 6 27) (mkPtok 10 "true" 10 6 27)) (mkPtok 10 "true" 10 6 27)) (Some (mkPtok 41 ";" 10 11 28))); (mkOptionDecl (mkSpan (mkPtok 42 "asx" 10 13 29) (mkPtok 41 ";" 12 11 33)) (mkPtok 42 "asx" 10 13 29) (mkPtok 4 "=" 12 4 31) (VPaddingChar (mkSpan (mkPtok 33 "'0'" 12 6 32) (mkPtok 33 "'0'" 12 6 32)) (mkPtok 33 "'0'" 12 6 32)) (Some (mkPtok 41 ";" 12 11 33))); (mkOptionDecl (mkSpan (mkPtok 42 "tag" 12 12 34) (mkPtok 16 "char[]" 12 17 36)) (mkPtok 42 "tag" 12 12 34) (mkPtok 4 "=" 12 16 35) (VType (mkSpan (mkPtok 16 "char[]" 12 17 36) (mkPtok 16 "char[]" 12 17 36)) (TyDynamic (mkSpan (mkPtok 16 "char[]" 12 17 36) (mkPtok 16 "char[]" 12 17 36)) (mkDynamicString (mkSpan (mkPtok 16 "char[]" 12 17 36) (mkPtok 16 "char[]" 12 17 36)) (mkPtok 16 "char[]" 12 17 36)))) None); (mkOptionDecl (mkSpan (mkPtok 42 "packetx" 13 0 37) (mkPtok 41 ";" 13 17 40)) (mkPtok 42 "packetx" 13 0 37) (mkPtok 4 "=" 13 8 38) (VPaddingChar (mkSpan (mkPtok 33 "'\x00'" 13 10 39) (mkPtok 33 "'\x00'" 13 10 39)) (mkPtok 33 "'\x00'" 13 10 39)) (Some (mkPtok 41 ";" 13 17 40))); (mkOptionDecl (mkSpan (mkPtok 42 "calculatedFrom" 14 0 41) (mkPtok 33 "'0'" 14 17 43)) (mkPtok 42 "calculatedFrom" 14 0 41) (mkPtok 4 "=" 14 15 42) (VPaddingChar (mkSpan (mkPtok 33 "'0'" 14 17 43) (mkPtok 33 "'0'" 14 17 43)) (mkPtok 33 "'0'" 14 17 43)) None)] (mkPtok 3 "}" 17 0 46))); (DPacket (mkPacketDef (mkSpan (mkPtok 35 "packet" 17 1 47) (mkPtok 3 "}" 47 11 132)) None (mkPtok 35 "packet" 17 1 47) (mkPtok 42 "asx" 17 8 48) (mkPtok 2 "{" 18 0 49) [(mkFieldWithAttr (mkSpan (mkPtok 12 "char[" 18 2 50) (mkPtok 40 "," 18 24 55)) [] (MetaField (mkSpan (mkPtok 12 "char[" 18 2 50) (mkPtok 40 "," 18 24 55)) None (mkMetaDecl (mkSpan (mkPtok 12 "char[" 18 2 50) (mkPtok 40 "," 18 24 55)) (TyFixed (mkSpan (mkPtok 12 "char[" 18 2 50) (mkPtok 13 "]" 18 11 52)) (mkFixedString (mkSpan (mkPtok 12 "char[" 18 2 50) (mkPtok 13 "]" 18 11 52)) (mkPtok 12 "char[" 18 2 50) (mkPtok 30 "42" 18 8 51) (mkPtok 13 "]" 18 11 52))) (mkPtok 42 "tag" 18 13 53) (Some (mkPtok 43 "`u8 x,`" 18 16 54)) (mkPtok 40 "," 18 24 55)))); (mkFieldWithAttr (mkSpan (mkPtok 38 "match" 18 25 56) (mkPtok 40 "," 23 9 67)) [] (MatchField (mkSpan (mkPtok 38 "match" 18 25 56) (mkPtok 40 "," 23 9 67)) (mkMatchFieldDecl (mkSpan (mkPtok 38 "match" 18 25 56) (mkPtok 3 "}" 23 7 66)) (mkPtok 38 "match" 18 25 56) (mkPtok 42 "rootA" 19 0 58) (mkPtok 17 "as" 19 6 59) (mkPtok 42 "options1" 19 9 60) (mkPtok 2 "{" 20 0 61) [(mkMatchPair (mkSpan (mkPtok 30 "65535" 20 2 62) (mkPtok 42 "_x" 23 4 65)) (MKDigits (mkPtok 30 "65535" 20 2 62)) (mkPtok 39 ":" 21 0 63) (mkPtok 42 "_x" 23 4 65) None)] (mkPtok 3 "}" 23 7 66)) (mkPtok 40 "," 23 9 67))); (mkFieldWithAttr (mkSpan (mkPtok 42 "Header" 24 0 69) (mkPtok 40 "," 44 7 121)) [] (InerObjectField (mkSpan (mkPtok 42 "Header" 24 0 69) (mkPtok 40 "," 44 7 121)) None (InerObjectDecl (mkSpan (mkPtok 42 "Header" 24 0 69) (mkPtok 3 "}" 44 6 120)) (mkPtok 42 "Header" 24 0 69) (mkPtok 2 "{" 24 6 70) [(InerObjectField (mkSpan (mkPtok 42 "lengthOf" 24 8 71) (mkPtok 40 "," 39 0 107)) None (InerObjectDecl (mkSpan (mkPtok 42 "lengthOf" 24 8 71) (mkPtok 3 "}" 38 0 105)) (mkPtok 42 "lengthOf" 24 8 71) (mkPtok 2 "{" 24 17 72) [(InerObjectField (mkSpan (mkPtok 42 "uint8x" 24 19 73) (mkPtok 40 "," 34 4 97)) None (InerObjectDecl (mkSpan (mkPtok 42 "uint8x" 24 19 73) (mkPtok 3 "}" 33 9 96)) (mkPtok 42 "uint8x" 24 19 73) (mkPtok 2 "{" 25 4 74) [(MetaField (mkSpan (mkPtok 26 "int32" 27 4 76) (mkPtok 40 "," 27 18 78)) None (mkMetaDecl (mkSpan (mkPtok 26 "int32" 27 4 76) (mkPtok 40 "," 27 18 78)) (TyBasic (mkSpan (mkPtok 26 "int32" 27 4 76) (mkPtok 26 "int32" 27 4 76)) (mkBasicType (mkSpan (mkPtok 26 "int32" 27 4 76) (mkPtok 26 "int32" 27 4 76)) (mkPtok 26 "int32" 27 4 76))) (mkPtok 42 "trueish" 27 10 77) None (mkPtok 40 "," 27 18 78))); (MetaField (mkSpan (mkPtok 36 "repeat" 27 21 79) (mkPtok 40 "," 30 0 86)) (Some (mkPtok 36 "repeat" 27 21 79)) (mkMetaDecl (mkSpan (mkPtok 12 "char[" 27 28 80) (mkPtok 40 "," 30 0 86)) (TyFixed (mkSpan (mkPtok 12 "char[" 27 28 80) (mkPtok 13 "]" 29 4 83)) (mkFixedString (mkSpan (mkPtok 12 "char[" 27 28 80) (mkPtok 13 "]" 29 4 83)) (mkPtok 12 "char[" 27 28 80) (mkPtok 30 "007" 27 34 81) (mkPtok 13 "]" 29 4 83))) (mkPtok 42 "pack" 29 6 84) (Some (mkPtok 43 "``" 29 11 85)) (mkPtok 40 "," 30 0 86))); (MetaField (mkSpan (mkPtok 36 "repeat" 31 4 87) (mkPtok 40 "," 33 8 95)) (Some (mkPtok 36 "repeat" 31 4 87)) (mkMetaDecl (mkSpan (mkPtok 14 "zchar[" 32 0 89) (mkPtok 40 "," 33 8 95)) (TyFixed (mkSpan (mkPtok 14 "zchar[" 32 0 89) (mkPtok 13 "]" 32 10 91)) (mkFixedString (mkSpan (mkPtok 14 "zchar[" 32 0 89) (mkPtok 13 "]" 32 10 91)) (mkPtok 14 "zchar[" 32 0 89) (mkPtok 30 "10" 32 7 90) (mkPtok 13 "]" 32 10 91))) (mkPtok 42 "tag" 33 0 93) (Some (mkPtok 43 "`doc`" 33 3 94)) (mkPtok 40 "," 33 8 95)))] (mkPtok 3 "}" 33 9 96)) (mkPtok 40 "," 34 4 97)); (MetaField (mkSpan (mkPtok 36 "repeat" 34 6 98) (mkPtok 40 "," 37 6 104)) (Some (mkPtok 36 "repeat" 34 6 98)) (mkMetaDecl (mkSpan (mkPtok 14 "zchar[" 35 0 99) (mkPtok 40 "," 37 6 104)) (TyFixed (mkSpan (mkPtok 14 "zchar[" 35 0 99) (mkPtok 13 "]" 36 6 101)) (mkFixedString (mkSpan (mkPtok 14 "zchar[" 35 0 99) (mkPtok 13 "]" 36 6 101)) (mkPtok 14 "zchar[" 35 0 99) (mkPtok 30 "3" 36 4 100) (mkPtok 13 "]" 36 6 101))) (mkPtok 42 "o" 36 8 102) (Some (mkPtok 43 (string_of_bytes [96; 108; 105; 110; 101; 49; 10; 108; 105; 110; 101; 50; 96]%N) 36 10 103)) (mkPtok 40 "," 37 6 104)))] (mkPtok 3 "}" 38 0 105)) (mkPtok 40 "," 39 0 107)); (ObjectField (mkSpan (mkPtok 36 "repeat" 39 2 108) (mkPtok 40 "," 40 4 110)) (Some (mkPtok 36 "repeat" 39 2 108)) (mkPtok 42 "metadata" 39 9 109) None None (mkPtok 40 "," 40 4 110)); (ObjectField (mkSpan (mkPtok 36 "repeat" 40 6 111) (mkPtok 40 "," 40 26 114)) (Some (mkPtok 36 "repeat" 40 6 111)) (mkPtok 42 "Z9_" 40 14 112) None (Some (mkPtok 43 "`u8 x,`" 40 18 113)) (mkPtok 40 "," 40 26 114)); (MetaField (mkSpan (mkPtok 14 "zchar[" 41 0 115) (mkPtok 40 "," 44 4 119)) None (mkMetaDecl (mkSpan (mkPtok 14 "zchar[" 41 0 115) (mkPtok 40 "," 44 4 119)) (TyFixed (mkSpan (mkPtok 14 "zchar[" 41 0 115) (mkPtok 13 "]" 42 0 117)) (mkFixedString (mkSpan (mkPtok 14 "zchar[" 41 0 115) (mkPtok 13 "]" 42 0 117)) (mkPtok 14 "zchar[" 41 0 115) (mkPtok 30 "10" 41 7 116) (mkPtok 13 "]" 42 0 117))) (mkPtok 42 "u128" 43 0 118) None (mkPtok 40 "," 44 4 119)))] (mkPtok 3 "}" 44 6 120)) (mkPtok 40 "," 44 7 121))); (mkFieldWithAttr (mkSpan (mkPtok 42 "u128" 45 0 122) (mkPtok 40 "," 46 25 127)) [] (LengthField (mkSpan (mkPtok 42 "u128" 45 0 122) (mkPtok 40 "," 46 25 127)) (mkLengthFieldDecl (mkSpan (mkPtok 42 "u128" 45 0 122) (mkPtok 40 "," 46 25 127)) None (mkPtok 42 "u128" 45 0 122) (mkLengthOf (mkSpan (mkPtok 7 "@lengthOf(" 45 4 123) (mkPtok 6 ")" 46 4 125)) (mkPtok 7 "@lengthOf(" 45 4 123) (mkPtok 42 "packetx" 45 15 124) (mkPtok 6 ")" 46 4 125)) (Some (mkPtok 43 "`// not a comment`" 46 6 126)) (mkPtok 40 "," 46 25 127)))); (mkFieldWithAttr (mkSpan (mkPtok 16 "char[]" 46 27 128) (mkPtok 40 "," 47 9 131)) [] (MetaField (mkSpan (mkPtok 16 "char[]" 46 27 128) (mkPtok 40 "," 47 9 131)) None (mkMetaDecl (mkSpan (mkPtok 16 "char[]" 46 27 128) (mkPtok 40 "," 47 9 131)) (TyDynamic (mkSpan (mkPtok 16 "char[]" 46 27 128) (mkPtok 16 "char[]" 46 27 128)) (mkDynamicString (mkSpan (mkPtok 16 "char[]" 46 27 128) (mkPtok 16 "char[]" 46 27 128)) (mkPtok 16 "char[]" 46 27 128))) (mkPtok 42 "matchKey" 46 33 129) (Some (mkPtok 43 "`a\`" 47 4 130)) (mkPtok 40 "," 47 9 131))))] (mkPtok 3 "}" 47 11 132)))])).
Eval vm_compute in ("<<<M149>>>" ++ check (runes_of_ascii "


")).
Eval vm_compute in ("<<<M159>>>" ++ check (runes_of_ascii "options {	repeatCount =7}
")).
Eval vm_compute in ("<<<M169>>>" ++ check (runes_of_ascii "MetaData asx {
u As `" ++ [28040; 24687; 31867; 22411]%N ++ runes_of_ascii "` , A  _x `a\`  ,
    int32 trueish
    // c
    ,  } MetaData	stringy
{ }
    MetaData roots{ asx msg_type
    `tab	here` , Header
    // c
    Logon , char[
00 ]
    // a // b
    matchKey , u16 packetx`crlf
line` , body
    crc `two words` //x
, _x
metadata , }")).
Eval vm_compute in ("<<<M179>>>" ++ check (runes_of_ascii "packet falsey{ x//x
, }
MetaData options1 { // `tick` ""quote"" 'q'
}
    options {	} options
{ Foo= false packetx // a // b
=
10 calculatedFrom = false;
Packet	=
true
; }
")).
Eval vm_compute in ("<<<M189>>>" ++ check (runes_of_ascii "packet u128{
f64
// " ++ [128512]%N ++ runes_of_ascii " emoji
//	t
As
, @tag( 255 //
) @calculatedFrom( ""CRC32"" ) leftPad, crc
    ,
    char[
10 ]u `{ , }`	,	}")).
Eval vm_compute in ("<<<M199>>>" ++ check (runes_of_ascii "  MetaData
charz{tag Pad ,
int packetx	`// not a comment`
,  Header float `doc`,	char[ 7	] tag
    , } // `tick` ""quote"" 'q'")).
Eval vm_compute in ("<<<M209>>>" ++ check (runes_of_ascii "options{metadata = /// triple
char[
// trailing space 
// `tick` ""quote"" 'q'
4294967296
] ;}")).
Eval vm_compute in ("<<<T209>>>" ++ terms [mkTok 1 "options" 1 0 false; mkTok 2 "{" 1 7 false; mkTok 42 "metadata" 1 8 false; mkTok 4 "=" 1 17 false; mkTok 44 "/// triple" 1 19 true; mkTok 12 "char[" 2 0 false; mkTok 44 "// trailing space " 3 0 true; mkTok 44 "// `tick` ""quote"" 'q'" 4 0 true; mkTok 30 "4294967296" 5 0 false; mkTok 13 "]" 6 0 false; mkTok 41 ";" 6 2 false; mkTok 3 "}" 6 3 false; mkTok 0 "<EOF>" 6 4 false] (mkPacket (mkPtok 1 "options" 1 0 0) (Some (mkPtok 3 "}" 6 3 11)) [(DOption (mkOptionDef (mkSpan (mkPtok 1 "options" 1 0 0) (mkPtok 3 "}" 6 3 11)) (mkPtok 1 "options" 1 0 0) (mkPtok 2 "{" 1 7 1) [(mkOptionDecl (mkSpan (mkPtok 42 "metadata" 1 8 2) (mkPtok 41 ";" 6 2 10)) (mkPtok 42 "metadata" 1 8 2) (mkPtok 4 "=" 1 17 3) (VType (mkSpan (mkPtok 12 "char[" 2 0 5) (mkPtok 13 "]" 6 0 9)) (TyFixed (mkSpan (mkPtok 12 "char[" 2 0 5) (mkPtok 13 "]" 6 0 9)) (mkFixedString (mkSpan (mkPtok 12 "char[" 2 0 5) (mkPtok 13 "]" 6 0 9)) (mkPtok 12 "char[" 2 0 5) (mkPtok 30 "4294967296" 5 0 8) (mkPtok 13 "]" 6 0 9)))) (Some (mkPtok 41 ";" 6 2 10)))] (mkPtok 3 "}" 6 3 11)))])).
Eval vm_compute in ("<<<M219>>>" ++ check (runes_of_ascii "packet
u8x // packet A { u8 x, }
{ } options {T=// packet A { u8 x, }
'0'
;
// `tick` ""quote"" 'q'
// `tick` ""quote"" 'q'
asx = ""\n"" ;
    }  root
packet u { @tag( 10  )
    @lengthOf(repeatCount ) @rightPad ( '\x00' ) char[
3 ] lengthOf
,
}
")).
Eval vm_compute in ("<<<M229>>>" ++ check (runes_of_ascii "root packet //x
pack  {
@tag(// c
00
) int8 o ,
    @rightPad  ( ' ' ) @rightPad ( ) repeat rootA u8x
`
` ,	zchar msg_type	`doc` ,@calculatedFrom(//x
""abc""
    ) msg_type	{match i8i8 as a1
// @lengthOf(
/// triple
{""{,}"" :len , 3
    :	rootA, ""a\\""
    :	pack , ""{,}"" : roots , ""x y""
: x_y_z , ""a	b"" :x_y_z ,
} , }
, zchar[//	t
1 ]string_ `tab	here`
// packet A { u8 x, }
// packet A { u8 x, }
, } // @lengthOf(")).
Eval vm_compute in ("<<<M239>>>" ++ check (runes_of_ascii "//	t
MetaData u8x
{ charz  rootA `say ""hi""`, }
    packet options1 { int16 u	,	x @lengthOf( leftPad ) ,
@calculatedFrom(	""x y"" )
@lengthOf( x //
) match len as falsey// packet A { u8 x, }
{ ""// no comment"" : float ""a\\"" :
    x } , }MetaData Header{ i16 Pad `line1
line2` ,zchar[ 0 ]options1 `two words`, // trailing space 
zchar rootA
`" ++ [28040; 24687; 31867; 22411]%N ++ runes_of_ascii "`
    ,
x_y_z pack ,} MetaData u {
    } packet _x {}
")).
Eval vm_compute in ("<<<M249>>>" ++ check (@nil rune)).
Eval vm_compute in ("<<<M259>>>" ++ check (runes_of_ascii "packet rootA // a // b
{ } packet repeatCount {}
// @lengthOf(
// packet A { u8 x, }
MetaData
u { char[]  charz`
` , matchKey Pad , a1 len ,
    Packet i8i8 `line1
line2`  ,	} packet u8x {}
/// triple
")).
Eval vm_compute in ("<<<M269>>>" ++ check (runes_of_ascii "root
    packet
    // " ++ [128512]%N ++ runes_of_ascii " emoji
    int { repeat
stringy { string falsey `" ++ [28040; 24687; 31867; 22411]%N ++ runes_of_ascii "`
    ,
match f32a as Packet // packet A { u8 x, }
{7 :MetaDataX } ,
a1 `line1
line2` , /// triple
T `it's` , } // @lengthOf(
,} options
{ //
charz
// packet A { u8 x, }
// packet A { u8 x, }
=
/// triple
//x
true	} packet pack
    { @calculatedFrom(
"""" )
char
    repeatCount @lengthOf( zchar
    ) ``
    ,
u@calculatedFrom(""\" ++ [233]%N ++ runes_of_ascii """),float32 _x  `line1
line2`
,repeat
chars
{repeat u8x Pad `
` , char[]
lengthOf @lengthOf( packetx ) , Header @lengthOf(Pad
)
// " ++ [27880; 37322]%N ++ runes_of_ascii "
// c
,
zchar[ 1
    ] i8i8 @lengthOf(
string_ ) , } ,
// `tick` ""quote"" 'q'
// a // b
options1 metadata	`// not a comment` ,	string
u8x @calculatedFrom( ""\n""
) `a\` ,
    // " ++ [128512]%N ++ runes_of_ascii " emoji
    @calculatedFrom( ""abc"" ) // " ++ [128512]%N ++ runes_of_ascii " emoji
Z9_{i64 rootA ,u64 Header //x
@lengthOf( rootA
),  }
// packet A { u8 x, }
// a // b
,
    } root packet
asx{  }")).
Eval vm_compute in ("<<<M279>>>" ++ check (runes_of_ascii "packet Header
    {
}
")).
Eval vm_compute in ("<<<T279>>>" ++ terms [mkTok 35 "packet" 1 0 false; mkTok 42 "Header" 1 7 false; mkTok 2 "{" 2 4 false; mkTok 3 "}" 3 0 false; mkTok 0 "<EOF>" 4 0 false] (mkPacket (mkPtok 35 "packet" 1 0 0) (Some (mkPtok 3 "}" 3 0 3)) [(DPacket (mkPacketDef (mkSpan (mkPtok 35 "packet" 1 0 0) (mkPtok 3 "}" 3 0 3)) None (mkPtok 35 "packet" 1 0 0) (mkPtok 42 "Header" 1 7 1) (mkPtok 2 "{" 2 4 2) [] (mkPtok 3 "}" 3 0 3)))])).
Eval vm_compute in ("<<<M289>>>" ++ check (runes_of_ascii "packet crc {
    uint8x
,
@lengthOf(falsey )string_ packetx`// not a comment`
    ,i8 Z9_
    ,uint32 calculatedFrom @calculatedFrom( ""a\""b"" ) `crlf
line` , @calculatedFrom(	""abc"" )charz Foo ,
BodyLength,}
")).
Eval vm_compute in ("<<<M299>>>" ++ check (runes_of_ascii "

")).
Eval vm_compute in ("<<<M309>>>" ++ check (runes_of_ascii "  calculatedFrom{ @rightPad(	' '
    )@lengthOf( uint8x
)	i32  options1 ,u ,
    //	t
    len @lengthOf(
int // trailing space 
)
    , @tag( 42 ) repeat uint32 u ,
    }")).
Eval vm_compute in ("<<<M319>>>" ++ check (runes_of_ascii "packet  calculatedFrom @rightPad(	' '
    )@lengthOf( uint8x
)	i32  options1 ,u ,
    //	t
    len @lengthOf(
int // trailing space 
)
    , @tag( 42 ) repeat uint32 u ,
    }")).
Eval vm_compute in ("<<<M329>>>" ++ check (runes_of_ascii "packet  calculatedFrom{ @rightPad	' '
    )@lengthOf( uint8x
)	i32  options1 ,u ,
    //	t
    len @lengthOf(
int // trailing space 
)
    , @tag( 42 ) repeat uint32 u ,
    }")).
Eval vm_compute in ("<<<M339>>>" ++ check (runes_of_ascii "packet  calculatedFrom{ @rightPad(	' '
    @lengthOf( uint8x
)	i32  options1 ,u ,
    //	t
    len @lengthOf(
int // trailing space 
)
    , @tag( 42 ) repeat uint32 u ,
    }")).
Eval vm_compute in ("<<<M349>>>" ++ check (runes_of_ascii "packet  calculatedFrom{ @rightPad(	' '
    )@lengthOf( 
)	i32  options1 ,u ,
    //	t
    len @lengthOf(
int // trailing space 
)
    , @tag( 42 ) repeat uint32 u ,
    }")).
Eval vm_compute in ("<<<M359>>>" ++ check (runes_of_ascii "packet  calculatedFrom{ @rightPad(	' '
    )@lengthOf( uint8x
)	  options1 ,u ,
    //	t
    len @lengthOf(
int // trailing space 
)
    , @tag( 42 ) repeat uint32 u ,
    }")).
Eval vm_compute in ("<<<M369>>>" ++ check (runes_of_ascii "packet  calculatedFrom{ @rightPad(	' '
    )@lengthOf( uint8x
)	i32  options1 u ,
    //	t
    len @lengthOf(
int // trailing space 
)
    , @tag( 42 ) repeat uint32 u ,
    }")).
Eval vm_compute in ("<<<M379>>>" ++ check (runes_of_ascii "packet  calculatedFrom{ @rightPad(	' '
    )@lengthOf( uint8x
)	i32  options1 ,u 
    //	t
    len @lengthOf(
int // trailing space 
)
    , @tag( 42 ) repeat uint32 u ,
    }")).
Eval vm_compute in ("<<<M389>>>" ++ check (runes_of_ascii "packet  calculatedFrom{ @rightPad(	' '
    )@lengthOf( uint8x
)	i32  options1 ,u ,
    //	t
    len 
int // trailing space 
)
    , @tag( 42 ) repeat uint32 u ,
    }")).
Eval vm_compute in ("<<<M399>>>" ++ check (runes_of_ascii "packet  calculatedFrom{ @rightPad(	' '
    )@lengthOf( uint8x
)	i32  options1 ,u ,
    //	t
    len @lengthOf(
int // trailing space 

    , @tag( 42 ) repeat uint32 u ,
    }")).
Eval vm_compute in ("<<<M409>>>" ++ check (runes_of_ascii "packet  calculatedFrom{ @rightPad(	' '
    )@lengthOf( uint8x
)	i32  options1 ,u ,
    //	t
    len @lengthOf(
int // trailing space 
)
    ,  42 ) repeat uint32 u ,
    }")).
Eval vm_compute in ("<<<M419>>>" ++ check (runes_of_ascii "packet  calculatedFrom{ @rightPad(	' '
    )@lengthOf( uint8x
)	i32  options1 ,u ,
    //	t
    len @lengthOf(
int // trailing space 
)
    , @tag( 42  repeat uint32 u ,
    }")).
Eval vm_compute in ("<<<M429>>>" ++ check (runes_of_ascii "packet  calculatedFrom{ @rightPad(	' '
    )@lengthOf( uint8x
)	i32  options1 ,u ,
    //	t
    len @lengthOf(
int // trailing space 
)
    , @tag( 42 ) repeat  u ,
    }")).
Eval vm_compute in ("<<<T429>>>" ++ terms [mkTok 35 "packet" 1 0 false; mkTok 42 "calculatedFrom" 1 8 false; mkTok 2 "{" 1 22 false; mkTok 32 "@rightPad" 1 24 false; mkTok 8 "(" 1 33 false; mkTok 33 "' '" 1 35 false; mkTok 6 ")" 2 4 false; mkTok 7 "@lengthOf(" 2 5 false; mkTok 42 "uint8x" 2 16 false; mkTok 6 ")" 3 0 false; mkTok 26 "i32" 3 2 false; mkTok 42 "options1" 3 7 false; mkTok 40 "," 3 16 false; mkTok 42 "u" 3 17 false; mkTok 40 "," 3 19 false; mkTok 44 (string_of_bytes [47; 47; 9; 116]%N) 4 4 true; mkTok 42 "len" 5 4 false; mkTok 7 "@lengthOf(" 5 8 false; mkTok 42 "int" 6 0 false; mkTok 44 "// trailing space " 6 4 true; mkTok 6 ")" 7 0 false; mkTok 40 "," 8 4 false; mkTok 9 "@tag(" 8 6 false; mkTok 30 "42" 8 12 false; mkTok 6 ")" 8 15 false; mkTok 36 "repeat" 8 17 false; mkTok 42 "u" 8 25 false; mkTok 40 "," 8 27 false; mkTok 3 "}" 9 4 false; mkTok 0 "<EOF>" 9 5 false] (mkPacket (mkPtok 35 "packet" 1 0 0) (Some (mkPtok 3 "}" 9 4 28)) [(DPacket (mkPacketDef (mkSpan (mkPtok 35 "packet" 1 0 0) (mkPtok 3 "}" 9 4 28)) None (mkPtok 35 "packet" 1 0 0) (mkPtok 42 "calculatedFrom" 1 8 1) (mkPtok 2 "{" 1 22 2) [(mkFieldWithAttr (mkSpan (mkPtok 32 "@rightPad" 1 24 3) (mkPtok 40 "," 3 16 12)) [(FAPadding (mkSpan (mkPtok 32 "@rightPad" 1 24 3) (mkPtok 6 ")" 2 4 6)) (mkPaddingAttr (mkSpan (mkPtok 32 "@rightPad" 1 24 3) (mkPtok 6 ")" 2 4 6)) (mkPtok 32 "@rightPad" 1 24 3) (mkPtok 8 "(" 1 33 4) (Some (mkPtok 33 "' '" 1 35 5)) (mkPtok 6 ")" 2 4 6))); (FALengthOf (mkSpan (mkPtok 7 "@lengthOf(" 2 5 7) (mkPtok 6 ")" 3 0 9)) (mkLengthOf (mkSpan (mkPtok 7 "@lengthOf(" 2 5 7) (mkPtok 6 ")" 3 0 9)) (mkPtok 7 "@lengthOf(" 2 5 7) (mkPtok 42 "uint8x" 2 16 8) (mkPtok 6 ")" 3 0 9)))] (MetaField (mkSpan (mkPtok 26 "i32" 3 2 10) (mkPtok 40 "," 3 16 12)) None (mkMetaDecl (mkSpan (mkPtok 26 "i32" 3 2 10) (mkPtok 40 "," 3 16 12)) (TyBasic (mkSpan (mkPtok 26 "i32" 3 2 10) (mkPtok 26 "i32" 3 2 10)) (mkBasicType (mkSpan (mkPtok 26 "i32" 3 2 10) (mkPtok 26 "i32" 3 2 10)) (mkPtok 26 "i32" 3 2 10))) (mkPtok 42 "options1" 3 7 11) None (mkPtok 40 "," 3 16 12)))); (mkFieldWithAttr (mkSpan (mkPtok 42 "u" 3 17 13) (mkPtok 40 "," 3 19 14)) [] (ObjectField (mkSpan (mkPtok 42 "u" 3 17 13) (mkPtok 40 "," 3 19 14)) None (mkPtok 42 "u" 3 17 13) None None (mkPtok 40 "," 3 19 14))); (mkFieldWithAttr (mkSpan (mkPtok 42 "len" 5 4 16) (mkPtok 40 "," 8 4 21)) [] (LengthField (mkSpan (mkPtok 42 "len" 5 4 16) (mkPtok 40 "," 8 4 21)) (mkLengthFieldDecl (mkSpan (mkPtok 42 "len" 5 4 16) (mkPtok 40 "," 8 4 21)) None (mkPtok 42 "len" 5 4 16) (mkLengthOf (mkSpan (mkPtok 7 "@lengthOf(" 5 8 17) (mkPtok 6 ")" 7 0 20)) (mkPtok 7 "@lengthOf(" 5 8 17) (mkPtok 42 "int" 6 0 18) (mkPtok 6 ")" 7 0 20)) None (mkPtok 40 "," 8 4 21)))); (mkFieldWithAttr (mkSpan (mkPtok 9 "@tag(" 8 6 22) (mkPtok 40 "," 8 27 27)) [(FATag (mkSpan (mkPtok 9 "@tag(" 8 6 22) (mkPtok 6 ")" 8 15 24)) (mkTagAttr (mkSpan (mkPtok 9 "@tag(" 8 6 22) (mkPtok 6 ")" 8 15 24)) (mkPtok 9 "@tag(" 8 6 22) (mkPtok 30 "42" 8 12 23) (mkPtok 6 ")" 8 15 24)))] (ObjectField (mkSpan (mkPtok 36 "repeat" 8 17 25) (mkPtok 40 "," 8 27 27)) (Some (mkPtok 36 "repeat" 8 17 25)) (mkPtok 42 "u" 8 25 26) None None (mkPtok 40 "," 8 27 27)))] (mkPtok 3 "}" 9 4 28)))])).
Eval vm_compute in ("<<<M439>>>" ++ check (runes_of_ascii "packet  calculatedFrom{ @rightPad(	' '
    )@lengthOf( uint8x
)	i32  options1 ,u ,
    //	t
    len @lengthOf(
int // trailing space 
)
    , @tag( 42 ) repeat uint32 u 
    }")).
Eval vm_compute in ("<<<M449>>>" ++ check (runes_of_ascii "packet  calculatedFrom{ @rightPad(	' '
    )@lengthOf( uint8x
)	i32  options1 ,u ,
    //	t
    len @lengthOf(
int // trailing space 
)
")).
Eval vm_compute in ("<<<M459>>>" ++ check (runes_of_ascii "packet  calculatedFrom{ @rightPad(	' '
    )@lengthOf( uint8x
)	" ++ [8232]%N ++ runes_of_ascii " i32  options1 ,u ,
    //	t
    len @lengthOf(
int // trailing space 
)
    , @tag( 42 ) repeat uint32 u ,
    }")).
Eval vm_compute in ("<<<M469>>>" ++ check (runes_of_ascii "packet  calculatedFrom{ @rightPad(	' '
    )@lengthOf( uint8x
)	i32  na" ++ [239]%N ++ runes_of_ascii "ve ,u ,
    //	t
    len @lengthOf(
int // trailing space 
)
    , @tag( 42 ) repeat uint32 u ,
    }")).
Eval vm_compute in ("<<<M479>>>" ++ check (runes_of_ascii "MetaData u// packet A { u8 x, }
{ { A
// c
//	t
i64_ ,char[ 255 ]
    repeatCount , zchar[
65535 ]
    tag `" ++ [233]%N ++ runes_of_ascii "`
    ,int32 lengthOf	, }
")).
Eval vm_compute in ("<<<M489>>>" ++ check (runes_of_ascii "MetaData u// packet A { u8 x, }
{ A
// c
//	t
i64_ ,char[ 255 ]
    repeatCount , zchar[
65535 ]
    tag `" ++ [233]%N ++ runes_of_ascii "`
    int32 lengthOf	, }
")).
Eval vm_compute in ("<<<M499>>>" ++ check (@nil rune)).
Eval vm_compute in ("<<<M509>>>" ++ check (runes_of_ascii "MetaData u// packet A { u8 x, }
{ A
// c
//	t
i64_ ,char[")).
Eval vm_compute in ("<<<M519>>>" ++ check (runes_of_ascii "MetaData u// packet A { u8 x, }
{ A
// c
//	t
""packet"" ,char[ 255 ]
    repeatCount , zchar[
65535 ]
    tag `" ++ [233]%N ++ runes_of_ascii "`
    ,int32 lengthOf	, }
")).
Eval vm_compute in ("<<<M529>>>" ++ check (runes_of_ascii "MetaData u// packet A { u8 x, }
A {
// c
//	t
i64_ ,char[ 255 ]
    repeatCount , zchar[
65535 ]
    tag `" ++ [233]%N ++ runes_of_ascii "`
    ,int32 lengthOf	, }
")).
Eval vm_compute in ("<<<M539>>>" ++ check (runes_of_ascii "MetaData u// packet A { u8 x, }
{ A
// c
//	t
i64_ ,char[  ]
    repeatCount , zchar[
65535 ]
    tag `" ++ [233]%N ++ runes_of_ascii "`
    ,int32 lengthOf	, }
")).
Eval vm_compute in ("<<<M549>>>" ++ check (runes_of_ascii "MetaData u// packet A { u8 x, }
{ A
// c
//	t
i64_ ,char[ 255 ]
    repeatCount , zchar[
65535 ]
    tag `" ++ [233; 0]%N ++ runes_of_ascii "`
    ,int32 lengthOf	, }
")).
Eval vm_compute in ("<<<M559>>>" ++ check (runes_of_ascii "MetaData u// packet A { u8 x, }
{ A
// c
//	t
i64_ ,char[ 255 ]
    repeatCount , zchar[
65535 ]
    tag `" ++ [233]%N ++ runes_of_ascii "`
    ,int32 lengt$hOf	, }
")).
Eval vm_compute in ("<<<M569>>>" ++ check (runes_of_ascii "// only a comment")).
Eval vm_compute in ("<<<M579>>>" ++ check (runes_of_ascii "; true MetaData MetaData @lengthOf( @tag( zchar[")).
Eval vm_compute in ("<<<M589>>>" ++ check ([966; 65533; 65533; 65533; 65533]%N ++ runes_of_ascii "5" ++ [65533]%N ++ runes_of_ascii "c" ++ [65533]%N ++ runes_of_ascii " ^-j" ++ [65533]%N)).
Eval vm_compute in ("<<<M599>>>" ++ check (runes_of_ascii "zchar[ float32 @calculatedFrom( ""packet"" , zchar[")).
