From FP Require Import Lexer Parser ShowPT Digest.
From Coq Require Import String List NArith.
Import ListNotations.
Open Scope string_scope.
Set Printing Width 100000000.
Set Printing Depth 100000000.
Definition nl : string := String (Ascii.ascii_of_nat 10) EmptyString.
Definition model_lex (rs : list rune) : string := show_toks (lex rs).
Definition model_parse (rs : list rune) : string :=
  show_pt (match lex rs with Some ts => parse ts | None => None end).
(* coqc is slow at printing long strings: digests first (Digest.v), full texts on demand *)
Definition check (rs : list rune) : string :=
  digest (model_lex rs) ++ " " ++ digest (model_parse rs).
Definition full (rs : list rune) : string := model_lex rs ++ nl ++ model_parse rs.
Definition terms (ts : list tok) (t : pt) : string :=
  digest (show_toks (Some ts)) ++ " " ++ digest (show_pt (Some t)) ++ " " ++ digest (show_pt (parse ts)).
Definition terms_full (ts : list tok) (t : pt) : string :=
  show_toks (Some ts) ++ nl ++ show_pt (Some t) ++ nl ++ show_pt (parse ts).
Eval vm_compute in ("<<<M16>>>" ++ check (runes_of_ascii "
")).
Eval vm_compute in ("<<<M48>>>" ++ check (runes_of_ascii "// c
MetaData Packet { i8i8 repeatCount , calculatedFrom
falsey `
` // 50% %s
, float32
tag//
,string Packet `line1
line2`
    ,	}
// c
")).
Eval vm_compute in ("<<<T48>>>" ++ terms [mkTok 44 "// c" 1 0 true; mkTok 37 "MetaData" 2 0 false; mkTok 42 "Packet" 2 9 false; mkTok 2 "{" 2 16 false; mkTok 42 "i8i8" 2 18 false; mkTok 42 "repeatCount" 2 23 false; mkTok 40 "," 2 35 false; mkTok 42 "calculatedFrom" 2 37 false; mkTok 42 "falsey" 3 0 false; mkTok 43 (string_of_bytes [96; 10; 96]%N) 3 7 false; mkTok 44 "// 50% %s" 4 2 true; mkTok 40 "," 5 0 false; mkTok 28 "float32" 5 2 false; mkTok 42 "tag" 6 0 false; mkTok 44 "//" 6 3 true; mkTok 40 "," 7 0 false; mkTok 15 "string" 7 1 false; mkTok 42 "Packet" 7 8 false; mkTok 43 (string_of_bytes [96; 108; 105; 110; 101; 49; 10; 108; 105; 110; 101; 50; 96]%N) 7 15 false; mkTok 40 "," 9 4 false; mkTok 3 "}" 9 6 false; mkTok 44 "// c" 10 0 true; mkTok 0 "<EOF>" 11 0 false] (mkPacket (mkPtok 37 "MetaData" 2 0 1) (Some (mkPtok 3 "}" 9 6 20)) [(DMeta (mkMetaDef (mkSpan (mkPtok 37 "MetaData" 2 0 1) (mkPtok 3 "}" 9 6 20)) (mkPtok 37 "MetaData" 2 0 1) (mkPtok 42 "Packet" 2 9 2) (mkPtok 2 "{" 2 16 3) [(MIRef (mkRefMetaDecl (mkSpan (mkPtok 42 "i8i8" 2 18 4) (mkPtok 40 "," 2 35 6)) (mkPtok 42 "i8i8" 2 18 4) (mkPtok 42 "repeatCount" 2 23 5) None (mkPtok 40 "," 2 35 6))); (MIRef (mkRefMetaDecl (mkSpan (mkPtok 42 "calculatedFrom" 2 37 7) (mkPtok 40 "," 5 0 11)) (mkPtok 42 "calculatedFrom" 2 37 7) (mkPtok 42 "falsey" 3 0 8) (Some (mkPtok 43 (string_of_bytes [96; 10; 96]%N) 3 7 9)) (mkPtok 40 "," 5 0 11))); (MIDecl (mkMetaDecl (mkSpan (mkPtok 28 "float32" 5 2 12) (mkPtok 40 "," 7 0 15)) (TyBasic (mkSpan (mkPtok 28 "float32" 5 2 12) (mkPtok 28 "float32" 5 2 12)) (mkBasicType (mkSpan (mkPtok 28 "float32" 5 2 12) (mkPtok 28 "float32" 5 2 12)) (mkPtok 28 "float32" 5 2 12))) (mkPtok 42 "tag" 6 0 13) None (mkPtok 40 "," 7 0 15))); (MIDecl (mkMetaDecl (mkSpan (mkPtok 15 "string" 7 1 16) (mkPtok 40 "," 9 4 19)) (TyDynamic (mkSpan (mkPtok 15 "string" 7 1 16) (mkPtok 15 "string" 7 1 16)) (mkDynamicString (mkSpan (mkPtok 15 "string" 7 1 16) (mkPtok 15 "string" 7 1 16)) (mkPtok 15 "string" 7 1 16))) (mkPtok 42 "Packet" 7 8 17) (Some (mkPtok 43 (string_of_bytes [96; 108; 105; 110; 101; 49; 10; 108; 105; 110; 101; 50; 96]%N) 7 15 18)) (mkPtok 40 "," 9 4 19)))] (mkPtok 3 "}" 9 6 20)))])).
Eval vm_compute in ("<<<M80>>>" ++ check (runes_of_ascii "// trailing space 
options{ x
=	""it's"" }")).
Eval vm_compute in ("<<<M112>>>" ++ check (runes_of_ascii "// 50% %s
packet leftPad	{ } packet Packet
{
@lengthOf(	chars  ) repeat u128 u8x`" ++ [233]%N ++ runes_of_ascii "`
, }
")).
Eval vm_compute in ("<<<M144>>>" ++ check (runes_of_ascii "
packet T {
    f32a {
a1 , }// @lengthOf(
, zchar[ 7 ]stringy `100% of %d` // @lengthOf(
, // `tick` ""quote"" 'q'
}
    options {  } packet A
{
    @rightPad
( )
    @lengthOf( lengthOf// `tick` ""quote"" 'q'
)	@tag( 1)T
@calculatedFrom(
    ""a\""b"" )
`` , Header , @tag(
// `tick` ""quote"" 'q'
// trailing space 
4294967296
) options1
    {char[] A//
`{ , }` , match Z9_ // packet A { u8 x, }
as rootA {
[3, """ ++ [233]%N ++ runes_of_ascii "t" ++ [233]%N ++ runes_of_ascii """]
    // packet A { u8 x, }
    :Logon
,}, options1
Header`" ++ [233]%N ++ runes_of_ascii "`, repeat
f64 /// triple
MetaDataX `it's`
,
    },
    // trailing space 
    float64 BodyLength, }")).
Eval vm_compute in ("<<<M176>>>" ++ check (runes_of_ascii "packet
Z9_ { u32
pack `crlf
line` ,
    /// triple
    @lengthOf(len) u128 {match
    x_y_z as  Logon  { 7 : pack ,1
: int 4294967296// " ++ [27880; 37322]%N ++ runes_of_ascii "
: rootA, 1 :
f32a,
[
    """" , // 50% %s
42	, ""\n"" ,
// " ++ [128512]%N ++ runes_of_ascii " emoji
// packet A { u8 x, }
7
, // c
0 ,
""// no comment"", 4294967296 ,
""// no comment""
] :
    matchKey  ,
},
    // " ++ [27880; 37322]%N ++ runes_of_ascii "
    match float
as trueish // a // b
{007 : packetx, 65535	: repeatCount} , repeat
    // @lengthOf(
    roots lengthOf
, repeat
i8 string_, } ,  i64
    leftPad @lengthOf( msg_type ) , // a // b
@tag(
    // c
    7 )zchar[ 7] f32a //	t
@calculatedFrom(""\n"" ) , string falsey ,
    // packet A { u8 x, }
    repeat leftPad{ match matchKey // a // b
as	repeatCount { ""\n"" :metadata  ,""x y""
:Logon
// " ++ [128512]%N ++ runes_of_ascii " emoji
// " ++ [27880; 37322]%N ++ runes_of_ascii "
, }
    , }
    , /// triple
}
")).
Eval vm_compute in ("<<<M208>>>" ++ check (runes_of_ascii "MetaData
msg_type { options1 A, string metadata `tab	here`
    , uint32 BodyLength ,} packet
// trailing space 
// a // b
T {// packet A { u8 x, }
}
    packet
    charz { roots  @lengthOf( msg_type ) // 50% %s
`// not a comment` , int32 a1 `{ , }` ,	match leftPad as string_	{	65535 :f32a
, }
, } options
{ options1 = true ; }")).
Eval vm_compute in ("<<<M240>>>" ++ check (runes_of_ascii "packet A { repeat crc uint8x // @lengthOf(
,
@calculatedFrom( ""it's""
) uint64 Logon `a\`,
    }")).
Eval vm_compute in ("<<<M272>>>" ++ check (runes_of_ascii "root packet uint8x
    {
char[]pack  @calculatedFrom( ""`tick`"" ) ,
    }")).
Eval vm_compute in ("<<<T272>>>" ++ terms [mkTok 34 "root" 1 0 false; mkTok 35 "packet" 1 5 false; mkTok 42 "uint8x" 1 12 false; mkTok 2 "{" 2 4 false; mkTok 16 "char[]" 3 0 false; mkTok 42 "pack" 3 6 false; mkTok 5 "@calculatedFrom(" 3 12 false; mkTok 31 """`tick`""" 3 29 false; mkTok 6 ")" 3 38 false; mkTok 40 "," 3 40 false; mkTok 3 "}" 4 4 false; mkTok 0 "<EOF>" 4 5 false] (mkPacket (mkPtok 34 "root" 1 0 0) (Some (mkPtok 3 "}" 4 4 10)) [(DPacket (mkPacketDef (mkSpan (mkPtok 34 "root" 1 0 0) (mkPtok 3 "}" 4 4 10)) (Some (mkPtok 34 "root" 1 0 0)) (mkPtok 35 "packet" 1 5 1) (mkPtok 42 "uint8x" 1 12 2) (mkPtok 2 "{" 2 4 3) [(mkFieldWithAttr (mkSpan (mkPtok 16 "char[]" 3 0 4) (mkPtok 40 "," 3 40 9)) [] (CheckSumField (mkSpan (mkPtok 16 "char[]" 3 0 4) (mkPtok 40 "," 3 40 9)) (mkChecksumFieldDecl (mkSpan (mkPtok 16 "char[]" 3 0 4) (mkPtok 40 "," 3 40 9)) (Some (TyDynamic (mkSpan (mkPtok 16 "char[]" 3 0 4) (mkPtok 16 "char[]" 3 0 4)) (mkDynamicString (mkSpan (mkPtok 16 "char[]" 3 0 4) (mkPtok 16 "char[]" 3 0 4)) (mkPtok 16 "char[]" 3 0 4)))) (mkPtok 42 "pack" 3 6 5) (mkCalculatedFrom (mkSpan (mkPtok 5 "@calculatedFrom(" 3 12 6) (mkPtok 6 ")" 3 38 8)) (mkPtok 5 "@calculatedFrom(" 3 12 6) (mkPtok 31 """`tick`""" 3 29 7) (mkPtok 6 ")" 3 38 8)) None (mkPtok 40 "," 3 40 9))))] (mkPtok 3 "}" 4 4 10)))])).
Eval vm_compute in ("<<<M304>>>" ++ check (runes_of_ascii "packet options1 { }packet o
    {	o Header `` , @calculatedFrom( ""\n"" ) int32 MetaDataX ,
// @lengthOf(
//	t
rootA
{match tag as	Header{	""x y"" :
string_ ,
00
: roots
4294967296: trueish // @lengthOf(
""a\""b"" : u
, ""a\""b"" :
packetx ""\n"" : float
//	t
/// triple
,
} ,
} ,	match//
x_y_z
as
float { ""a	b"" :float , // trailing space 
[ 7 // " ++ [128512]%N ++ runes_of_ascii " emoji
,
0123456789
, 4294967296
,  ""x y"" ,7, ""a\""b"" , 7 ] : Header , ""x y"":Pad ,""`tick`"":  len
} , @calculatedFrom( ""packet""
    )
repeat string As , Foo { int16 trueish	, repeat
int16
    metadata `{ , }` , match lengthOf
//
// `tick` ""quote"" 'q'
as Pad { ""\" ++ [233]%N ++ runes_of_ascii """ :metadata// a // b
, } , Foo
    @calculatedFrom( ""\n"" )// `tick` ""quote"" 'q'
`crlf
line` , // 50% %s
},u@lengthOf(repeatCount
) `doc`
    , T @lengthOf( calculatedFrom ) ,} MetaData trueish{
    }
// " ++ [128512]%N ++ runes_of_ascii " emoji
// packet A { u8 x, }
options{
    trueish	= uint8; }
MetaData
Pad {}
")).
Eval vm_compute in ("<<<M336>>>" ++ check (runes_of_ascii "packet Pad {@lengthOf(
int  ) // c
charz@calculatedFrom(
    // " ++ [27880; 37322]%N ++ runes_of_ascii "
    """" ) ,
    }// " ++ [27880; 37322]%N ++ runes_of_ascii "
packet
    pack { // 50% %s
u8
    pack
    , @tag( 0
    ) @tag( 00  ) string rootA @calculatedFrom( ""CRC32"" ) , // " ++ [27880; 37322]%N ++ runes_of_ascii "
@tag(  65535
) stringy @calculatedFrom( ""a	b"" // a // b
) , match  o as f32a { [0123456789 ]:Header 7
:
Pad
,	[ ""a\\"", ""1"" , 65535
    ,// trailing space 
""\n"" , ""\n"" ,
3 ,""CRC32"" ,	00 ] :
    packetx,	[
""`tick`"" , ""packet"" ,  ""x y""
, 7 , 00 , //	t
""x y"" , 10 ]:
// packet A { u8 x, }
// trailing space 
matchKey ,
""{,}"" : // @lengthOf(
body
    ""a\""b"" : tag
} ,
// trailing space 
// trailing space 
} /// triple")).
Eval vm_compute in ("<<<M368>>>" ++ check (runes_of_ascii "packet charz
{ }
root packet options1 {
    @rightPad ( '0')match
/// triple
// 50% %s
len // 50% %s
as roots { 3: lengthOf // a // b
, ""{,}"":
MetaDataX
// 50% %s
// c
, 65535 :
    MetaDataX } , char[4294967296
    //x
    ]
u128  ,uint32 x // a // b
,
    //x
    @tag(007 )  x_y_z @calculatedFrom( ""packet""
), zchar[ 255 ] Header @calculatedFrom( ""a	b"" ),  string
leftPad
, Z9_
    x_y_z
    `two words`
, i8
    x_y_z
@lengthOf(
    // 50% %s
    MetaDataX  ) `" ++ [28040; 24687; 31867; 22411]%N ++ runes_of_ascii "`
// " ++ [27880; 37322]%N ++ runes_of_ascii "
// trailing space 
, }MetaData
msg_type {lengthOf msg_type /// triple
`crlf
line` , i64
    // a // b
    crc // c
, packetx zchar `100% of %d` , string falsey`line1
line2` ,} packet options1{
repeat string
u128 , // trailing space 
repeat char[
3 ]lengthOf ,
zchar[ 00]stringy , @lengthOf(a1 )  @lengthOf(int) @calculatedFrom( ""{,}""
    ) match
    // `tick` ""quote"" 'q'
    Foo as u8x {""it's"" :	charz [ 255 ] : u128, }, string x // trailing space 
,
match //x
Packet as Logon
    { //x
""{,}"" : roots,
// packet A { u8 x, }
// `tick` ""quote"" 'q'
""abc""
:
//	t
// a // b
zchar , /// triple
[  1,
""" ++ [128512]%N ++ runes_of_ascii """ , ""packet"",
"""" , """" ,  42 , """"] : Z9_ ,
} , u64 u @lengthOf(body )
// " ++ [128512]%N ++ runes_of_ascii " emoji
// 50% %s
`it's`, } options {
    uint8x
    =
0123456789 ; }")).
Eval vm_compute in ("<<<M400>>>" ++ check (runes_of_ascii "packet // a // b
Z9_
    { @calculatedFrom(""\" ++ [233]%N ++ runes_of_ascii """// c
) Z9_
, @calculatedFrom(""" ++ [233]%N ++ runes_of_ascii "t" ++ [233]%N ++ runes_of_ascii """ )
repeat leftPad,
// packet A { u8 x, }
//	t
@rightPad
( '0' )
    // trailing space 
    Foo
, //
@tag(10	)
    chars `line1
line2` ,
@leftPad
    // " ++ [128512]%N ++ runes_of_ascii " emoji
    ( ) repeat zchar[ 255 ] u128
,
@lengthOf( // c
body
    ) charz//	t
{ As
,	string // @lengthOf(
zchar `" ++ [28040; 24687; 31867; 22411]%N ++ runes_of_ascii "` , o @calculatedFrom(""1"" ) // packet A { u8 x, }
, repeat u32 Header	`crlf
line` , }
    ,
zchar[ 0123456789
] uint8x @calculatedFrom(	""CRC32"" )
`` ,
u32
    a1 ,	}")).
Eval vm_compute in ("<<<M432>>>" ++ check (runes_of_ascii "options{ x_y_z =
false Logon =  ""packet""; // packet A { u8 x, }
}
")).
Eval vm_compute in ("<<<M464>>>" ++ check (runes_of_ascii "packet
    u128 {} packet
    Foo
{packetx , }
    packet
    float
    { @tag( 1 ) // " ++ [128512]%N ++ runes_of_ascii " emoji
@lengthOf(
Pad )
// a // b
// a // b
match x_y_z as metadata
    {
    // a // b
    0: u8x 42 :	len
, ""a\\"" : Packet , [
""a	b"" , 0123456789 ,""\n"" , 65535] :
    asx
    ,
[
0 ]
:_x , 255 :
    _x	, }
,} // trailing space 
packet pack{ @lengthOf(i64_
)
    repeat
    zchar[ 1] Foo
    , repeat
// trailing space 
// trailing space 
char[] u8x
    , }
")).
Eval vm_compute in ("<<<M496>>>" ++ check (runes_of_ascii "packet  string_ {@calculatedFrom(
    """ ++ [233]%N ++ runes_of_ascii "t" ++ [233]%N ++ runes_of_ascii """
    )asx
@calculatedFrom( ""CRC32"" ) ,} 	 ")).
Eval vm_compute in ("<<<T496>>>" ++ terms [mkTok 35 "packet" 1 0 false; mkTok 42 "string_" 1 8 false; mkTok 2 "{" 1 16 false; mkTok 5 "@calculatedFrom(" 1 17 false; mkTok 31 (string_of_bytes [34; 195; 169; 116; 195; 169; 34]%N) 2 4 false; mkTok 6 ")" 3 4 false; mkTok 42 "asx" 3 5 false; mkTok 5 "@calculatedFrom(" 4 0 false; mkTok 31 """CRC32""" 4 17 false; mkTok 6 ")" 4 25 false; mkTok 40 "," 4 27 false; mkTok 3 "}" 4 28 false; mkTok 0 "<EOF>" 4 32 false] (mkPacket (mkPtok 35 "packet" 1 0 0) (Some (mkPtok 3 "}" 4 28 11)) [(DPacket (mkPacketDef (mkSpan (mkPtok 35 "packet" 1 0 0) (mkPtok 3 "}" 4 28 11)) None (mkPtok 35 "packet" 1 0 0) (mkPtok 42 "string_" 1 8 1) (mkPtok 2 "{" 1 16 2) [(mkFieldWithAttr (mkSpan (mkPtok 5 "@calculatedFrom(" 1 17 3) (mkPtok 40 "," 4 27 10)) [(FACalculatedFrom (mkSpan (mkPtok 5 "@calculatedFrom(" 1 17 3) (mkPtok 6 ")" 3 4 5)) (mkCalculatedFrom (mkSpan (mkPtok 5 "@calculatedFrom(" 1 17 3) (mkPtok 6 ")" 3 4 5)) (mkPtok 5 "@calculatedFrom(" 1 17 3) (mkPtok 31 (string_of_bytes [34; 195; 169; 116; 195; 169; 34]%N) 2 4 4) (mkPtok 6 ")" 3 4 5)))] (CheckSumField (mkSpan (mkPtok 42 "asx" 3 5 6) (mkPtok 40 "," 4 27 10)) (mkChecksumFieldDecl (mkSpan (mkPtok 42 "asx" 3 5 6) (mkPtok 40 "," 4 27 10)) None (mkPtok 42 "asx" 3 5 6) (mkCalculatedFrom (mkSpan (mkPtok 5 "@calculatedFrom(" 4 0 7) (mkPtok 6 ")" 4 25 9)) (mkPtok 5 "@calculatedFrom(" 4 0 7) (mkPtok 31 """CRC32""" 4 17 8) (mkPtok 6 ")" 4 25 9)) None (mkPtok 40 "," 4 27 10))))] (mkPtok 3 "}" 4 28 11)))])).
Eval vm_compute in ("<<<M528>>>" ++ check (runes_of_ascii "packet asx { @tag( //x
00) _x	{	repeat rootA
    , } , }packet u{@calculatedFrom( ""a\""b""
)u8
    roots
`" ++ [233]%N ++ runes_of_ascii "`, tag{repeat
    // " ++ [27880; 37322]%N ++ runes_of_ascii "
    asx , // c
}
, @tag(	255 ) options1
    { len	{
// packet A { u8 x, }
//
Logon ,repeat leftPad ,	}
    // packet A { u8 x, }
    ,} , } 	 ")).
Eval vm_compute in ("<<<M560>>>" ++ check (runes_of_ascii "//
MetaData u8x{ f64 //x
Z9_
``,char[
    3
    ] _x ,
    u8x matchKey ,
char[ 1 ]
    int
// `tick` ""quote"" 'q'
// packet A { u8 x, }
`tab	here`
,
i32 matchKey `` , msg_type Logon
, } root packet charz {
    zchar
{
repeat MetaDataX // `tick` ""quote"" 'q'
{
    char[ 10
] Pad @calculatedFrom( ""packet"" )
    ,zchar[ 0123456789  ]
o
@lengthOf( rootA
    ) ,	zchar[ 0 ]
u128 ,u32	uint8x @calculatedFrom( ""{,}"") , }	, match	zchar
as trueish { ""packet""
    :
string_ , [00
,
// packet A { u8 x, }
// " ++ [27880; 37322]%N ++ runes_of_ascii "
""1""]	: repeatCount , ""\n"" :tag ,""1""  : matchKey
,
}
,} ,match string_ as BodyLength  {""" ++ [233]%N ++ runes_of_ascii "t" ++ [233]%N ++ runes_of_ascii """: A
    , [
    0 , 1
,
    """ ++ [128512]%N ++ runes_of_ascii """  , ""`tick`"" ]
    : uint8x , """ ++ [28040; 24687]%N ++ runes_of_ascii """ : string_ ,
}
    // " ++ [128512]%N ++ runes_of_ascii " emoji
    , /// triple
@lengthOf(
i64_  ) i8 stringy@calculatedFrom( // 50% %s
""1"" )	, zchar[ 0 ] charz ,
    @lengthOf( matchKey
)repeat As leftPad ,
    @calculatedFrom( ""\" ++ [233]%N ++ runes_of_ascii """ )	match Header as i64_ {
7:
stringy, ""// no comment"": _x
, // " ++ [27880; 37322]%N ++ runes_of_ascii "
0	: options1 , [""// no comment""  , ""packet""
    ,""x y""
, ""a\""b"" ,"""" ,00 ,00 ,
7] :As, [ 007 ] : zchar
// a // b
//
, } //
,// " ++ [27880; 37322]%N ++ runes_of_ascii "
} packet metadata //
{  match string_ // a // b
as x {
// 50% %s
//
""1"": tag
    [ ""1""
    ]//x
: metadata , }, zchar[255]
    // a // b
    matchKey ,
@calculatedFrom( ""a	b""// @lengthOf(
) u64
As// " ++ [27880; 37322]%N ++ runes_of_ascii "
, @rightPad(  '0' ) // a // b
@lengthOf( metadata )
@rightPad ('\x00' ) char[]
T
    @calculatedFrom( //x
""" ++ [128512]%N ++ runes_of_ascii """ )
    `line1
line2` , f32 options1@lengthOf(
MetaDataX ) ,} // trailing space ")).
Eval vm_compute in ("<<<M592>>>" ++ check (runes_of_ascii "  packet options1 {
@calculatedFrom( ""\n""
) // `tick` ""quote"" 'q'
string int @lengthOf(
    packetx
//
// " ++ [128512]%N ++ runes_of_ascii " emoji
) ,@tag( 0
) @tag( 0123456789)@tag(10 ) match//
len// @lengthOf(
as
// a // b
// packet A { u8 x, }
rootA { [
    ""\" ++ [233]%N ++ runes_of_ascii """ , 1	, 3
]:charz ,[ ""a\""b""
]// trailing space 
:  x, }
,@lengthOf( i64_ ) match BodyLength // trailing space 
as
    //
    roots {""\n"":
u,
    }
, repeat float{options1 {
    repeat f32 len , } ,} ,
zchar[ 0123456789
    ] // a // b
chars
, @leftPad (
'\x00'
) @calculatedFrom(
    ""// no comment"" )@calculatedFrom( """") int64 rootA // packet A { u8 x, }
, } packet len
    { @tag( 10 // 50% %s
) repeat float32 len,match matchKey as x_y_z
{ ""CRC32"" : matchKey ,
    [00
,3
    ] : f32a ,""x y""
    //	t
    :
lengthOf 10 : MetaDataX 7 :// packet A { u8 x, }
MetaDataX,""" ++ [233]%N ++ runes_of_ascii "t" ++ [233]%N ++ runes_of_ascii """
    :	x_y_z } ,
@rightPad (
    '0'
)
    // packet A { u8 x, }
    @leftPad ()
    @tag(
10 ) u8x @lengthOf(lengthOf), }
packet
As {
char[]
calculatedFrom , }
    options {
    calculatedFrom= ""a\\"" ; len =
007 ; i64_
= 10 ;
}
packet Header// trailing space 
{ match o as matchKey{ [ 3 , """"] : T
,""{,}"" :
    calculatedFrom } ,repeat char[// a // b
255 ]
    u // packet A { u8 x, }
,  char[]
    Packet , // a // b
repeat int64 packetx
,
@leftPad
(
'\x00' )
    @calculatedFrom(
    """" )
//x
// @lengthOf(
zchar {f32 zchar `
`
, match u128	as
    options1 { [
// c
// 50% %s
""abc""
    // a // b
    , 10
,65535
,  0, ""\n"" , """ ++ [128512]%N ++ runes_of_ascii """ , 0123456789 ] : chars ,// 50% %s
00 :	As , ""a	b"" :// " ++ [128512]%N ++ runes_of_ascii " emoji
packetx , //
10  : a1 , }
    ,	} , float64
    calculatedFrom
    @lengthOf(
    packetx ) , char[
    00 ]
string_ `
`
    , uint8
charz	@lengthOf(
body ) // packet A { u8 x, }
`two words`
    // @lengthOf(
    ,@calculatedFrom(
    ""`tick`"" ) zchar[
    00]crc @lengthOf( a1	)
//x
// c
`line1
line2` ,}
")).
Eval vm_compute in ("<<<M624>>>" ++ check (runes_of_ascii "
packet
options1 {
}
")).
Eval vm_compute in ("<<<M656>>>" ++ check (runes_of_ascii "  packet float
{
    }packet	o { zchar[ 3 ]  x `doc` ,repeat
    string_{ char[] stringy `" ++ [233]%N ++ runes_of_ascii "` , }
    , repeat uint32 a1 ``
, //
int64// c
Pad@calculatedFrom(""1"" ) ,
    @lengthOf( crc ) repeat /// triple
u16 packetx , msg_type
    @lengthOf( crc) , @tag(
3
) i16 u128 ,	zchar[65535 ]Logon `crlf
line`, @lengthOf(
repeatCount )
    @calculatedFrom( ""a\""b"" )
    crc tag
, }
root packet i8i8{ repeat
    Packet	{
msg_type @calculatedFrom(
    ""a\""b"" )  ,
/// triple
// 50% %s
}
,  }// c
packet i8i8{ //	t
i32 a1 // packet A { u8 x, }
@calculatedFrom( ""\n""	)
`// not a comment`
, } root packet
u128
{@leftPad
    (
'\x00'
)
x_y_z
@lengthOf(lengthOf )
, repeat u32 calculatedFrom // packet A { u8 x, }
,u8 _x@calculatedFrom( """ ++ [128512]%N ++ runes_of_ascii """ )  `u8 x,` , int8 Pad ,
crc
,
    }
")).
Eval vm_compute in ("<<<M688>>>" ++ check (runes_of_ascii "packet trueish {
    char[// a // b
007 ] asx  @lengthOf(a1
) `a\`, @tag(	00 ) @leftPad ( ' ' ) repeat zchar[ 7
// " ++ [128512]%N ++ runes_of_ascii " emoji
//
]// 50% %s
charz ,int64 len @calculatedFrom(	""\" ++ [233]%N ++ runes_of_ascii """ ) , u64
f32a , /// triple
@lengthOf(
    Pad ) u @calculatedFrom(""packet"")
    `line1
line2` ,@calculatedFrom(  """ ++ [28040; 24687]%N ++ runes_of_ascii """  )
// @lengthOf(
//
@lengthOf( Foo
    ) @calculatedFrom( ""abc""
)
    u64 zchar
// @lengthOf(
// trailing space 
,
    match body as
    body {
0 :
    charz ""packet"": charz , 0123456789 : repeatCount
    //	t
    , ""\" ++ [233]%N ++ runes_of_ascii """	:  Foo}
    ,}
packet
    u128
    {
    //x
    u8x `two words`// trailing space 
,
} packet options1
    { @calculatedFrom( """"
) repeat  Foo metadata
, @tag(42	) f32a
uint8x `u8 x,` , crc , @leftPad (
    // `tick` ""quote"" 'q'
    '\x00'
    )
    @lengthOf(pack //
)
    @calculatedFrom( """ ++ [28040; 24687]%N ++ runes_of_ascii """  )
    // a // b
    Pad  @lengthOf( uint8x )  ,
repeat
u { uint8x
    packetx	, chars
    @calculatedFrom( ""x y"" ) , repeat
    Header
{char[4294967296  ] // trailing space 
i64_, tag {
    string
msg_type@calculatedFrom(
""a\\""
) , }, f32a o`100% of %d`
    ,
    } ,} // c
, char[ 7]f32a , string charz ,
} MetaData chars { zchar[3 //	t
] _x, falsey u8x
    /// triple
    , char[ 255 ]
    matchKey , uint32 charz
//
// " ++ [27880; 37322]%N ++ runes_of_ascii "
,float32 Logon , u  MetaDataX  ,} options { Pad
=// packet A { u8 x, }
' ' ;  }")).
Eval vm_compute in ("<<<M720>>>" ++ check (runes_of_ascii "MetaData  repeatCount{
}  root
//x
// 50% %s
packet
A {@tag( // @lengthOf(
0) @tag( 10	)
    match metadata as
tag {
007 : u [ 10 , ""a\\""
    , ""a\""b"" , 00 , 255
    , ""it's""
    , 3
    ] :
    f32a  } ,char[
    // c
    0123456789 ] int , }
    packet trueish{ float { zchar[ 00]MetaDataX @lengthOf(leftPad ) `it's`,}
// @lengthOf(
// `tick` ""quote"" 'q'
,
}
")).
Eval vm_compute in ("<<<T720>>>" ++ terms [mkTok 37 "MetaData" 1 0 false; mkTok 42 "repeatCount" 1 10 false; mkTok 2 "{" 1 21 false; mkTok 3 "}" 2 0 false; mkTok 34 "root" 2 3 false; mkTok 44 "//x" 3 0 true; mkTok 44 "// 50% %s" 4 0 true; mkTok 35 "packet" 5 0 false; mkTok 42 "A" 6 0 false; mkTok 2 "{" 6 2 false; mkTok 9 "@tag(" 6 3 false; mkTok 44 "// @lengthOf(" 6 9 true; mkTok 30 "0" 7 0 false; mkTok 6 ")" 7 1 false; mkTok 9 "@tag(" 7 3 false; mkTok 30 "10" 7 9 false; mkTok 6 ")" 7 12 false; mkTok 38 "match" 8 4 false; mkTok 42 "metadata" 8 10 false; mkTok 17 "as" 8 19 false; mkTok 42 "tag" 9 0 false; mkTok 2 "{" 9 4 false; mkTok 30 "007" 10 0 false; mkTok 39 ":" 10 4 false; mkTok 42 "u" 10 6 false; mkTok 18 "[" 10 8 false; mkTok 30 "10" 10 10 false; mkTok 40 "," 10 13 false; mkTok 31 """a\\""" 10 15 false; mkTok 40 "," 11 4 false; mkTok 31 """a\""b""" 11 6 false; mkTok 40 "," 11 13 false; mkTok 30 "00" 11 15 false; mkTok 40 "," 11 18 false; mkTok 30 "255" 11 20 false; mkTok 40 "," 12 4 false; mkTok 31 """it's""" 12 6 false; mkTok 40 "," 13 4 false; mkTok 30 "3" 13 6 false; mkTok 13 "]" 14 4 false; mkTok 39 ":" 14 6 false; mkTok 42 "f32a" 15 4 false; mkTok 3 "}" 15 10 false; mkTok 40 "," 15 12 false; mkTok 12 "char[" 15 13 false; mkTok 44 "// c" 16 4 true; mkTok 30 "0123456789" 17 4 false; mkTok 13 "]" 17 15 false; mkTok 42 "int" 17 17 false; mkTok 40 "," 17 21 false; mkTok 3 "}" 17 23 false; mkTok 35 "packet" 18 4 false; mkTok 42 "trueish" 18 11 false; mkTok 2 "{" 18 18 false; mkTok 42 "float" 18 20 false; mkTok 2 "{" 18 26 false; mkTok 14 "zchar[" 18 28 false; mkTok 30 "00" 18 35 false; mkTok 13 "]" 18 37 false; mkTok 42 "MetaDataX" 18 38 false; mkTok 7 "@lengthOf(" 18 48 false; mkTok 42 "leftPad" 18 58 false; mkTok 6 ")" 18 66 false; mkTok 43 "`it's`" 18 68 false; mkTok 40 "," 18 74 false; mkTok 3 "}" 18 75 false; mkTok 44 "// @lengthOf(" 19 0 true; mkTok 44 "// `tick` ""quote"" 'q'" 20 0 true; mkTok 40 "," 21 0 false; mkTok 3 "}" 22 0 false; mkTok 0 "<EOF>" 23 0 false] (mkPacket (mkPtok 37 "MetaData" 1 0 0) (Some (mkPtok 3 "}" 22 0 69)) [(DMeta (mkMetaDef (mkSpan (mkPtok 37 "MetaData" 1 0 0) (mkPtok 3 "}" 2 0 3)) (mkPtok 37 "MetaData" 1 0 0) (mkPtok 42 "repeatCount" 1 10 1) (mkPtok 2 "{" 1 21 2) [] (mkPtok 3 "}" 2 0 3))); (DPacket (mkPacketDef (mkSpan (mkPtok 34 "root" 2 3 4) (mkPtok 3 "}" 17 23 50)) (Some (mkPtok 34 "root" 2 3 4)) (mkPtok 35 "packet" 5 0 7) (mkPtok 42 "A" 6 0 8) (mkPtok 2 "{" 6 2 9) [(mkFieldWithAttr (mkSpan (mkPtok 9 "@tag(" 6 3 10) (mkPtok 40 "," 15 12 43)) [(FATag (mkSpan (mkPtok 9 "@tag(" 6 3 10) (mkPtok 6 ")" 7 1 13)) (mkTagAttr (mkSpan (mkPtok 9 "@tag(" 6 3 10) (mkPtok 6 ")" 7 1 13)) (mkPtok 9 "@tag(" 6 3 10) (mkPtok 30 "0" 7 0 12) (mkPtok 6 ")" 7 1 13))); (FATag (mkSpan (mkPtok 9 "@tag(" 7 3 14) (mkPtok 6 ")" 7 12 16)) (mkTagAttr (mkSpan (mkPtok 9 "@tag(" 7 3 14) (mkPtok 6 ")" 7 12 16)) (mkPtok 9 "@tag(" 7 3 14) (mkPtok 30 "10" 7 9 15) (mkPtok 6 ")" 7 12 16)))] (MatchField (mkSpan (mkPtok 38 "match" 8 4 17) (mkPtok 40 "," 15 12 43)) (mkMatchFieldDecl (mkSpan (mkPtok 38 "match" 8 4 17) (mkPtok 3 "}" 15 10 42)) (mkPtok 38 "match" 8 4 17) (mkPtok 42 "metadata" 8 10 18) (mkPtok 17 "as" 8 19 19) (mkPtok 42 "tag" 9 0 20) (mkPtok 2 "{" 9 4 21) [(mkMatchPair (mkSpan (mkPtok 30 "007" 10 0 22) (mkPtok 42 "u" 10 6 24)) (MKDigits (mkPtok 30 "007" 10 0 22)) (mkPtok 39 ":" 10 4 23) (mkPtok 42 "u" 10 6 24) None); (mkMatchPair (mkSpan (mkPtok 18 "[" 10 8 25) (mkPtok 42 "f32a" 15 4 41)) (MKList (mkKeyList (mkSpan (mkPtok 18 "[" 10 8 25) (mkPtok 13 "]" 14 4 39)) (mkPtok 18 "[" 10 8 25) (mkPtok 30 "10" 10 10 26) [((mkPtok 40 "," 10 13 27), (mkPtok 31 """a\\""" 10 15 28)); ((mkPtok 40 "," 11 4 29), (mkPtok 31 """a\""b""" 11 6 30)); ((mkPtok 40 "," 11 13 31), (mkPtok 30 "00" 11 15 32)); ((mkPtok 40 "," 11 18 33), (mkPtok 30 "255" 11 20 34)); ((mkPtok 40 "," 12 4 35), (mkPtok 31 """it's""" 12 6 36)); ((mkPtok 40 "," 13 4 37), (mkPtok 30 "3" 13 6 38))] (mkPtok 13 "]" 14 4 39))) (mkPtok 39 ":" 14 6 40) (mkPtok 42 "f32a" 15 4 41) None)] (mkPtok 3 "}" 15 10 42)) (mkPtok 40 "," 15 12 43))); (mkFieldWithAttr (mkSpan (mkPtok 12 "char[" 15 13 44) (mkPtok 40 "," 17 21 49)) [] (MetaField (mkSpan (mkPtok 12 "char[" 15 13 44) (mkPtok 40 "," 17 21 49)) None (mkMetaDecl (mkSpan (mkPtok 12 "char[" 15 13 44) (mkPtok 40 "," 17 21 49)) (TyFixed (mkSpan (mkPtok 12 "char[" 15 13 44) (mkPtok 13 "]" 17 15 47)) (mkFixedString (mkSpan (mkPtok 12 "char[" 15 13 44) (mkPtok 13 "]" 17 15 47)) (mkPtok 12 "char[" 15 13 44) (mkPtok 30 "0123456789" 17 4 46) (mkPtok 13 "]" 17 15 47))) (mkPtok 42 "int" 17 17 48) None (mkPtok 40 "," 17 21 49))))] (mkPtok 3 "}" 17 23 50))); (DPacket (mkPacketDef (mkSpan (mkPtok 35 "packet" 18 4 51) (mkPtok 3 "}" 22 0 69)) None (mkPtok 35 "packet" 18 4 51) (mkPtok 42 "trueish" 18 11 52) (mkPtok 2 "{" 18 18 53) [(mkFieldWithAttr (mkSpan (mkPtok 42 "float" 18 20 54) (mkPtok 40 "," 21 0 68)) [] (InerObjectField (mkSpan (mkPtok 42 "float" 18 20 54) (mkPtok 40 "," 21 0 68)) None (InerObjectDecl (mkSpan (mkPtok 42 "float" 18 20 54) (mkPtok 3 "}" 18 75 65)) (mkPtok 42 "float" 18 20 54) (mkPtok 2 "{" 18 26 55) [(LengthField (mkSpan (mkPtok 14 "zchar[" 18 28 56) (mkPtok 40 "," 18 74 64)) (mkLengthFieldDecl (mkSpan (mkPtok 14 "zchar[" 18 28 56) (mkPtok 40 "," 18 74 64)) (Some (TyFixed (mkSpan (mkPtok 14 "zchar[" 18 28 56) (mkPtok 13 "]" 18 37 58)) (mkFixedString (mkSpan (mkPtok 14 "zchar[" 18 28 56) (mkPtok 13 "]" 18 37 58)) (mkPtok 14 "zchar[" 18 28 56) (mkPtok 30 "00" 18 35 57) (mkPtok 13 "]" 18 37 58)))) (mkPtok 42 "MetaDataX" 18 38 59) (mkLengthOf (mkSpan (mkPtok 7 "@lengthOf(" 18 48 60) (mkPtok 6 ")" 18 66 62)) (mkPtok 7 "@lengthOf(" 18 48 60) (mkPtok 42 "leftPad" 18 58 61) (mkPtok 6 ")" 18 66 62)) (Some (mkPtok 43 "`it's`" 18 68 63)) (mkPtok 40 "," 18 74 64)))] (mkPtok 3 "}" 18 75 65)) (mkPtok 40 "," 21 0 68)))] (mkPtok 3 "}" 22 0 69)))])).
Eval vm_compute in ("<<<M752>>>" ++ check (runes_of_ascii "packet falsey { }
MetaData
Logon
    //
    { }  packet//	t
x_y_z
    {
} packet repeatCount {
    lengthOf
@calculatedFrom( """ ++ [28040; 24687]%N ++ runes_of_ascii """) `u8 x,`
, }options { Z9_= false ;
Foo=
float64  ; }
// packet A { u8 x, }
")).
Eval vm_compute in ("<<<M784>>>" ++ check (runes_of_ascii "root packet  asx { @lengthOf( o ) @rightPad(
'0'
) uint32 len`it's`
    ,	} options
{f32a =
string ;
    rootA =
""\" ++ [233]%N ++ runes_of_ascii """ crc = '\x00' ;
} options { tag = zchar[
0123456789
] // packet A { u8 x, }
; metadata=
""CRC32"" ;	As  = """ ++ [233]%N ++ runes_of_ascii "t" ++ [233]%N ++ runes_of_ascii """ ; // c
string_
    = uint32 ;
    }
//x
")).
Eval vm_compute in ("<<<M816>>>" ++ check (runes_of_ascii "packet	zchar
{} MetaData
    T { i64
A ,
    // @lengthOf(
    i32 u
, o Packet , }
")).
Eval vm_compute in ("<<<M848>>>" ++ check (runes_of_ascii "
packet crc{ charz @lengthOf( Header )
, }")).
Eval vm_compute in ("<<<M880>>>" ++ check (runes_of_ascii "
")).
Eval vm_compute in ("<<<M912>>>" ++ check (runes_of_ascii "packet x_y_z { @tag( 7 ) zchar[ 255 ]
calculatedFrom
    , zchar[  1
    ]	Header
    `u8 x,`, @lengthOf(falsey)u16 u8x,@lengthOf(
    chars ) charz @calculatedFrom(""`tick`"" ) `" ++ [233]%N ++ runes_of_ascii "`,
    } MetaData
    roots{ packetx
msg_type `" ++ [233]%N ++ runes_of_ascii "` // `tick` ""quote"" 'q'
,
    _x stringy
    // trailing space 
    ,	zchar uint8x,}")).
Eval vm_compute in ("<<<M944>>>" ++ check (runes_of_ascii "packet string_ { i8 matchKey`
`// 50% %s
, //x
}MetaData // packet A { u8 x, }
repeatCount { char[ 007  ] uint8x `{ , }`, } packet A
{
    T {
    // trailing space 
    uint8 len @lengthOf( packetx
    ) // c
, tag `u8 x,`
, float32 BodyLength , crc @calculatedFrom( // packet A { u8 x, }
""""
    ) ,} ,}
")).
Eval vm_compute in ("<<<T944>>>" ++ terms [mkTok 35 "packet" 1 0 false; mkTok 42 "string_" 1 7 false; mkTok 2 "{" 1 15 false; mkTok 24 "i8" 1 17 false; mkTok 42 "matchKey" 1 20 false; mkTok 43 (string_of_bytes [96; 10; 96]%N) 1 28 false; mkTok 44 "// 50% %s" 2 1 true; mkTok 40 "," 3 0 false; mkTok 44 "//x" 3 2 true; mkTok 3 "}" 4 0 false; mkTok 37 "MetaData" 4 1 false; mkTok 44 "// packet A { u8 x, }" 4 10 true; mkTok 42 "repeatCount" 5 0 false; mkTok 2 "{" 5 12 false; mkTok 12 "char[" 5 14 false; mkTok 30 "007" 5 20 false; mkTok 13 "]" 5 25 false; mkTok 42 "uint8x" 5 27 false; mkTok 43 "`{ , }`" 5 34 false; mkTok 40 "," 5 41 false; mkTok 3 "}" 5 43 false; mkTok 35 "packet" 5 45 false; mkTok 42 "A" 5 52 false; mkTok 2 "{" 6 0 false; mkTok 42 "T" 7 4 false; mkTok 2 "{" 7 6 false; mkTok 44 "// trailing space " 8 4 true; mkTok 20 "uint8" 9 4 false; mkTok 42 "len" 9 10 false; mkTok 7 "@lengthOf(" 9 14 false; mkTok 42 "packetx" 9 25 false; mkTok 6 ")" 10 4 false; mkTok 44 "// c" 10 6 true; mkTok 40 "," 11 0 false; mkTok 42 "tag" 11 2 false; mkTok 43 "`u8 x,`" 11 6 false; mkTok 40 "," 12 0 false; mkTok 28 "float32" 12 2 false; mkTok 42 "BodyLength" 12 10 false; mkTok 40 "," 12 21 false; mkTok 42 "crc" 12 23 false; mkTok 5 "@calculatedFrom(" 12 27 false; mkTok 44 "// packet A { u8 x, }" 12 44 true; mkTok 31 """""" 13 0 false; mkTok 6 ")" 14 4 false; mkTok 40 "," 14 6 false; mkTok 3 "}" 14 7 false; mkTok 40 "," 14 9 false; mkTok 3 "}" 14 10 false; mkTok 0 "<EOF>" 15 0 false] (mkPacket (mkPtok 35 "packet" 1 0 0) (Some (mkPtok 3 "}" 14 10 48)) [(DPacket (mkPacketDef (mkSpan (mkPtok 35 "packet" 1 0 0) (mkPtok 3 "}" 4 0 9)) None (mkPtok 35 "packet" 1 0 0) (mkPtok 42 "string_" 1 7 1) (mkPtok 2 "{" 1 15 2) [(mkFieldWithAttr (mkSpan (mkPtok 24 "i8" 1 17 3) (mkPtok 40 "," 3 0 7)) [] (MetaField (mkSpan (mkPtok 24 "i8" 1 17 3) (mkPtok 40 "," 3 0 7)) None (mkMetaDecl (mkSpan (mkPtok 24 "i8" 1 17 3) (mkPtok 40 "," 3 0 7)) (TyBasic (mkSpan (mkPtok 24 "i8" 1 17 3) (mkPtok 24 "i8" 1 17 3)) (mkBasicType (mkSpan (mkPtok 24 "i8" 1 17 3) (mkPtok 24 "i8" 1 17 3)) (mkPtok 24 "i8" 1 17 3))) (mkPtok 42 "matchKey" 1 20 4) (Some (mkPtok 43 (string_of_bytes [96; 10; 96]%N) 1 28 5)) (mkPtok 40 "," 3 0 7))))] (mkPtok 3 "}" 4 0 9))); (DMeta (mkMetaDef (mkSpan (mkPtok 37 "MetaData" 4 1 10) (mkPtok 3 "}" 5 43 20)) (mkPtok 37 "MetaData" 4 1 10) (mkPtok 42 "repeatCount" 5 0 12) (mkPtok 2 "{" 5 12 13) [(MIDecl (mkMetaDecl (mkSpan (mkPtok 12 "char[" 5 14 14) (mkPtok 40 "," 5 41 19)) (TyFixed (mkSpan (mkPtok 12 "char[" 5 14 14) (mkPtok 13 "]" 5 25 16)) (mkFixedString (mkSpan (mkPtok 12 "char[" 5 14 14) (mkPtok 13 "]" 5 25 16)) (mkPtok 12 "char[" 5 14 14) (mkPtok 30 "007" 5 20 15) (mkPtok 13 "]" 5 25 16))) (mkPtok 42 "uint8x" 5 27 17) (Some (mkPtok 43 "`{ , }`" 5 34 18)) (mkPtok 40 "," 5 41 19)))] (mkPtok 3 "}" 5 43 20))); (DPacket (mkPacketDef (mkSpan (mkPtok 35 "packet" 5 45 21) (mkPtok 3 "}" 14 10 48)) None (mkPtok 35 "packet" 5 45 21) (mkPtok 42 "A" 5 52 22) (mkPtok 2 "{" 6 0 23) [(mkFieldWithAttr (mkSpan (mkPtok 42 "T" 7 4 24) (mkPtok 40 "," 14 9 47)) [] (InerObjectField (mkSpan (mkPtok 42 "T" 7 4 24) (mkPtok 40 "," 14 9 47)) None (InerObjectDecl (mkSpan (mkPtok 42 "T" 7 4 24) (mkPtok 3 "}" 14 7 46)) (mkPtok 42 "T" 7 4 24) (mkPtok 2 "{" 7 6 25) [(LengthField (mkSpan (mkPtok 20 "uint8" 9 4 27) (mkPtok 40 "," 11 0 33)) (mkLengthFieldDecl (mkSpan (mkPtok 20 "uint8" 9 4 27) (mkPtok 40 "," 11 0 33)) (Some (TyBasic (mkSpan (mkPtok 20 "uint8" 9 4 27) (mkPtok 20 "uint8" 9 4 27)) (mkBasicType (mkSpan (mkPtok 20 "uint8" 9 4 27) (mkPtok 20 "uint8" 9 4 27)) (mkPtok 20 "uint8" 9 4 27)))) (mkPtok 42 "len" 9 10 28) (mkLengthOf (mkSpan (mkPtok 7 "@lengthOf(" 9 14 29) (mkPtok 6 ")" 10 4 31)) (mkPtok 7 "@lengthOf(" 9 14 29) (mkPtok 42 "packetx" 9 25 30) (mkPtok 6 ")" 10 4 31)) None (mkPtok 40 "," 11 0 33))); (ObjectField (mkSpan (mkPtok 42 "tag" 11 2 34) (mkPtok 40 "," 12 0 36)) None (mkPtok 42 "tag" 11 2 34) None (Some (mkPtok 43 "`u8 x,`" 11 6 35)) (mkPtok 40 "," 12 0 36)); (MetaField (mkSpan (mkPtok 28 "float32" 12 2 37) (mkPtok 40 "," 12 21 39)) None (mkMetaDecl (mkSpan (mkPtok 28 "float32" 12 2 37) (mkPtok 40 "," 12 21 39)) (TyBasic (mkSpan (mkPtok 28 "float32" 12 2 37) (mkPtok 28 "float32" 12 2 37)) (mkBasicType (mkSpan (mkPtok 28 "float32" 12 2 37) (mkPtok 28 "float32" 12 2 37)) (mkPtok 28 "float32" 12 2 37))) (mkPtok 42 "BodyLength" 12 10 38) None (mkPtok 40 "," 12 21 39))); (CheckSumField (mkSpan (mkPtok 42 "crc" 12 23 40) (mkPtok 40 "," 14 6 45)) (mkChecksumFieldDecl (mkSpan (mkPtok 42 "crc" 12 23 40) (mkPtok 40 "," 14 6 45)) None (mkPtok 42 "crc" 12 23 40) (mkCalculatedFrom (mkSpan (mkPtok 5 "@calculatedFrom(" 12 27 41) (mkPtok 6 ")" 14 4 44)) (mkPtok 5 "@calculatedFrom(" 12 27 41) (mkPtok 31 """""" 13 0 43) (mkPtok 6 ")" 14 4 44)) None (mkPtok 40 "," 14 6 45)))] (mkPtok 3 "}" 14 7 46)) (mkPtok 40 "," 14 9 47)))] (mkPtok 3 "}" 14 10 48)))])).
Eval vm_compute in ("<<<M976>>>" ++ check (runes_of_ascii "MetaData uint8x {
} // " ++ [27880; 37322]%N)).
Eval vm_compute in ("<<<M1008>>>" ++ check (runes_of_ascii "packet asx
{
@calculatedFrom(
""" ++ [28040; 24687]%N ++ runes_of_ascii """ )
    u8 Packet @lengthOf(u128
)/// triple
,i64	lengthOf @calculatedFrom( ""it's"" )
,
@leftPad // packet A { u8 x, }
( ) Foo
    @lengthOf( msg_type ) ,
@lengthOf(
leftPad // c
)tag`" ++ [233]%N ++ runes_of_ascii "`
    ,
} packet A {zchar[255] len @lengthOf(
matchKey ) ,
@calculatedFrom( ""CRC32"") Foo {	int8 /// triple
asx @lengthOf( metadata ) `u8 x,` ,} , }
MetaData len { // @lengthOf(
} 	 ")).
Eval vm_compute in ("<<<M1040>>>" ++ check (runes_of_ascii "
root	packet
chars
{ match
    u as tag { 1 :	u//x
, [	10 ]
    : A
    , ""`tick`"":BodyLength , }// " ++ [27880; 37322]%N ++ runes_of_ascii "
,repeat u8x
{ i16 // a // b
u
@lengthOf(
i64_ ) , string
    /// triple
    Packet , } ,
}
")).
Eval vm_compute in ("<<<M1072>>>" ++ check (runes_of_ascii "root
    // @lengthOf(
    packet falsey
{ @leftPad ( )repeat T
    //	t
    { x_y_z @calculatedFrom( ""\" ++ [233]%N ++ runes_of_ascii """)
// a // b
/// triple
, }
,
} packet
//	t
// " ++ [128512]%N ++ runes_of_ascii " emoji
matchKey{ @tag(7 )	leftPad @calculatedFrom( ""\" ++ [233]%N ++ runes_of_ascii """ ) `crlf
line`,
    @calculatedFrom( ""{,}""
    ) leftPad u128 , // packet A { u8 x, }
@calculatedFrom(""""  )@calculatedFrom(""a\\"" ) uint32 x`" ++ [28040; 24687; 31867; 22411]%N ++ runes_of_ascii "` ,
    // packet A { u8 x, }
    @tag(  0123456789 )// 50% %s
@tag( 007) @rightPad( '0'
) repeat trueish ,  stringy // packet A { u8 x, }
@lengthOf( stringy ) `line1
line2`,
    @tag( 255)repeat int8
repeatCount ,} //x
MetaData
repeatCount { // @lengthOf(
char[ 0123456789] Foo
`{ , }`, }
")).
Eval vm_compute in ("<<<M1104>>>" ++ check (runes_of_ascii "packet chars {	i8i8 @calculatedFrom(
// " ++ [27880; 37322]%N ++ runes_of_ascii "
// `tick` ""quote"" 'q'
""a\""b""
) `
` , @lengthOf(Foo
    ) @lengthOf( roots)@tag( 255 ) zchar[ 7
] rootA@calculatedFrom(	"""")`" ++ [28040; 24687; 31867; 22411]%N ++ runes_of_ascii "` ,
    }
// packet A { u8 x, }
//x
packet u128 {
match calculatedFrom as i64_ {	007
    : // @lengthOf(
charz 1	: u8x, 00 : // @lengthOf(
stringy
""1""	: roots 42
    :
Packet	, }
    ,
// " ++ [27880; 37322]%N ++ runes_of_ascii "
//	t
a1
    , u``,
    @calculatedFrom( ""`tick`"" ) @leftPad  (
    /// triple
    '0' )	repeat char[ 1]	x
,
    }
    options {Z9_
    =
'0'	;
    }
")).
Eval vm_compute in ("<<<M1136>>>" ++ check (runes_of_ascii "// @lengthOf(
options {
    T = ""{,}""
    ; Logon	=
    // packet A { u8 x, }
    10 }	root packet chars { string A `crlf
line` , }
")).
Eval vm_compute in ("<<<M1168>>>" ++ check (runes_of_ascii "options {}
packet
Pad  { }
root	packet i64_ { repeat char[ 1	] Z9_
, }
")).
Eval vm_compute in ("<<<T1168>>>" ++ terms [mkTok 1 "options" 1 0 false; mkTok 2 "{" 1 8 false; mkTok 3 "}" 1 9 false; mkTok 35 "packet" 2 0 false; mkTok 42 "Pad" 3 0 false; mkTok 2 "{" 3 5 false; mkTok 3 "}" 3 7 false; mkTok 34 "root" 4 0 false; mkTok 35 "packet" 4 5 false; mkTok 42 "i64_" 4 12 false; mkTok 2 "{" 4 17 false; mkTok 36 "repeat" 4 19 false; mkTok 12 "char[" 4 26 false; mkTok 30 "1" 4 32 false; mkTok 13 "]" 4 34 false; mkTok 42 "Z9_" 4 36 false; mkTok 40 "," 5 0 false; mkTok 3 "}" 5 2 false; mkTok 0 "<EOF>" 6 0 false] (mkPacket (mkPtok 1 "options" 1 0 0) (Some (mkPtok 3 "}" 5 2 17)) [(DOption (mkOptionDef (mkSpan (mkPtok 1 "options" 1 0 0) (mkPtok 3 "}" 1 9 2)) (mkPtok 1 "options" 1 0 0) (mkPtok 2 "{" 1 8 1) [] (mkPtok 3 "}" 1 9 2))); (DPacket (mkPacketDef (mkSpan (mkPtok 35 "packet" 2 0 3) (mkPtok 3 "}" 3 7 6)) None (mkPtok 35 "packet" 2 0 3) (mkPtok 42 "Pad" 3 0 4) (mkPtok 2 "{" 3 5 5) [] (mkPtok 3 "}" 3 7 6))); (DPacket (mkPacketDef (mkSpan (mkPtok 34 "root" 4 0 7) (mkPtok 3 "}" 5 2 17)) (Some (mkPtok 34 "root" 4 0 7)) (mkPtok 35 "packet" 4 5 8) (mkPtok 42 "i64_" 4 12 9) (mkPtok 2 "{" 4 17 10) [(mkFieldWithAttr (mkSpan (mkPtok 36 "repeat" 4 19 11) (mkPtok 40 "," 5 0 16)) [] (MetaField (mkSpan (mkPtok 36 "repeat" 4 19 11) (mkPtok 40 "," 5 0 16)) (Some (mkPtok 36 "repeat" 4 19 11)) (mkMetaDecl (mkSpan (mkPtok 12 "char[" 4 26 12) (mkPtok 40 "," 5 0 16)) (TyFixed (mkSpan (mkPtok 12 "char[" 4 26 12) (mkPtok 13 "]" 4 34 14)) (mkFixedString (mkSpan (mkPtok 12 "char[" 4 26 12) (mkPtok 13 "]" 4 34 14)) (mkPtok 12 "char[" 4 26 12) (mkPtok 30 "1" 4 32 13) (mkPtok 13 "]" 4 34 14))) (mkPtok 42 "Z9_" 4 36 15) None (mkPtok 40 "," 5 0 16))))] (mkPtok 3 "}" 5 2 17)))])).
Eval vm_compute in ("<<<M1200>>>" ++ check (runes_of_ascii " // @lengthOf(")).
Eval vm_compute in ("<<<M1232>>>" ++ check (runes_of_ascii "root
packet T { @leftPad // " ++ [128512]%N ++ runes_of_ascii " emoji
( '0' ) repeat leftPad
    {  char[
3	]
    roots,}
, }
    packet _x
    {
    int32  int
@calculatedFrom(""\n""  ) , }
")).
Eval vm_compute in ("<<<M1264>>>" ++ check (runes_of_ascii "
options{ MetaDataX
= 4294967296 } MetaData
    body{zchar[ 00
]Logon , //	t
}
")).
Eval vm_compute in ("<<<M1296>>>" ++ check (runes_of_ascii "
packet
    falsey { }
packet x { } packet repeatCount { @tag(
    // 50% %s
    007 ) @lengthOf( body
) @lengthOf( Z9_  ) repeat T  {repeat
    int {	char[] lengthOf @calculatedFrom( ""// no comment"" )
    ,
} ,
i8 tag , repeat char packetx // packet A { u8 x, }
`// not a comment`
,
} ,lengthOf @lengthOf(  T ), @calculatedFrom(
""{,}"" )
@calculatedFrom( ""`tick`"" )@tag(
    65535 ) zchar[ 0123456789 ] Z9_
@lengthOf(
stringy )`tab	here`
    , }
//x
")).
Eval vm_compute in ("<<<M1328>>>" ++ check (runes_of_ascii "
root packet x_y_z {
    @leftPad ( )// @lengthOf(
trueish
a1 , repeat int64
A , //	t
@lengthOf(trueish)trueish @lengthOf(  falsey ) ``,i8i8 { match
    x as// packet A { u8 x, }
x{	""`tick`"" : Logon ,} ,
// `tick` ""quote"" 'q'
// packet A { u8 x, }
uint16 o// " ++ [128512]%N ++ runes_of_ascii " emoji
,
i8i8 {_x {
string
    zchar ,uint8
    matchKey
`a\` , }	,
    len
    Pad , match u8x as
    A { 3 :lengthOf
, [ //
65535 ,
""""
    ,
// " ++ [27880; 37322]%N ++ runes_of_ascii "
/// triple
255 , ""x y""
    ] : x  ,
    ""packet"" : //
x_y_z
    42 : a1
    [
    ""a	b""	]: pack, } , f32 uint8x @calculatedFrom( ""`tick`"")
    `" ++ [233]%N ++ runes_of_ascii "` , }	,// `tick` ""quote"" 'q'
string i8i8@lengthOf(chars
    )// " ++ [128512]%N ++ runes_of_ascii " emoji
,} ,
@leftPad ( ) repeat uint64 lengthOf ,	i8i8 { match crc as a1{""packet"" :int, } ,
    trueish
    {zchar[ // a // b
255 ]
float , len  {repeat Packet Pad `" ++ [233]%N ++ runes_of_ascii "` ,
string_ msg_type, } , string Pad``
,repeat char[ 0 ]float `it's`  ,
} ,repeat string Header	`{ , }` ,repeat zchar[
0123456789  ]o ,} , i64_ @calculatedFrom(// @lengthOf(
""it's"" )`u8 x,`
,@calculatedFrom(""// no comment""	)	rootA{ char[ 4294967296] repeatCount, } , } options { Pad =
"""" ; body=// " ++ [128512]%N ++ runes_of_ascii " emoji
uint8 ; packetx
    = '0' // " ++ [128512]%N ++ runes_of_ascii " emoji
; crc
// @lengthOf(
// @lengthOf(
= ""x y"" ; }
")).
Eval vm_compute in ("<<<M1360>>>" ++ check (runes_of_ascii "// @lengthOf(
packet x { }packet
falsey {
    repeat char[ //	t
65535 ] roots `doc` , }
")).
Eval vm_compute in ("<<<M1392>>>" ++ check (runes_of_ascii "packet repeatCount //	t
{@calculatedFrom( ""a\""b"" )
int16
A, }options{	u8x =
' '	;
}")).
Eval vm_compute in ("<<<T1392>>>" ++ terms [mkTok 35 "packet" 1 0 false; mkTok 42 "repeatCount" 1 7 false; mkTok 44 (string_of_bytes [47; 47; 9; 116]%N) 1 19 true; mkTok 2 "{" 2 0 false; mkTok 5 "@calculatedFrom(" 2 1 false; mkTok 31 """a\""b""" 2 18 false; mkTok 6 ")" 2 25 false; mkTok 25 "int16" 3 0 false; mkTok 42 "A" 4 0 false; mkTok 40 "," 4 1 false; mkTok 3 "}" 4 3 false; mkTok 1 "options" 4 4 false; mkTok 2 "{" 4 11 false; mkTok 42 "u8x" 4 13 false; mkTok 4 "=" 4 17 false; mkTok 33 "' '" 5 0 false; mkTok 41 ";" 5 4 false; mkTok 3 "}" 6 0 false; mkTok 0 "<EOF>" 6 1 false] (mkPacket (mkPtok 35 "packet" 1 0 0) (Some (mkPtok 3 "}" 6 0 17)) [(DPacket (mkPacketDef (mkSpan (mkPtok 35 "packet" 1 0 0) (mkPtok 3 "}" 4 3 10)) None (mkPtok 35 "packet" 1 0 0) (mkPtok 42 "repeatCount" 1 7 1) (mkPtok 2 "{" 2 0 3) [(mkFieldWithAttr (mkSpan (mkPtok 5 "@calculatedFrom(" 2 1 4) (mkPtok 40 "," 4 1 9)) [(FACalculatedFrom (mkSpan (mkPtok 5 "@calculatedFrom(" 2 1 4) (mkPtok 6 ")" 2 25 6)) (mkCalculatedFrom (mkSpan (mkPtok 5 "@calculatedFrom(" 2 1 4) (mkPtok 6 ")" 2 25 6)) (mkPtok 5 "@calculatedFrom(" 2 1 4) (mkPtok 31 """a\""b""" 2 18 5) (mkPtok 6 ")" 2 25 6)))] (MetaField (mkSpan (mkPtok 25 "int16" 3 0 7) (mkPtok 40 "," 4 1 9)) None (mkMetaDecl (mkSpan (mkPtok 25 "int16" 3 0 7) (mkPtok 40 "," 4 1 9)) (TyBasic (mkSpan (mkPtok 25 "int16" 3 0 7) (mkPtok 25 "int16" 3 0 7)) (mkBasicType (mkSpan (mkPtok 25 "int16" 3 0 7) (mkPtok 25 "int16" 3 0 7)) (mkPtok 25 "int16" 3 0 7))) (mkPtok 42 "A" 4 0 8) None (mkPtok 40 "," 4 1 9))))] (mkPtok 3 "}" 4 3 10))); (DOption (mkOptionDef (mkSpan (mkPtok 1 "options" 4 4 11) (mkPtok 3 "}" 6 0 17)) (mkPtok 1 "options" 4 4 11) (mkPtok 2 "{" 4 11 12) [(mkOptionDecl (mkSpan (mkPtok 42 "u8x" 4 13 13) (mkPtok 41 ";" 5 4 16)) (mkPtok 42 "u8x" 4 13 13) (mkPtok 4 "=" 4 17 14) (VPaddingChar (mkSpan (mkPtok 33 "' '" 5 0 15) (mkPtok 33 "' '" 5 0 15)) (mkPtok 33 "' '" 5 0 15)) (Some (mkPtok 41 ";" 5 4 16)))] (mkPtok 3 "}" 6 0 17)))])).
Eval vm_compute in ("<<<M1424>>>" ++ check (runes_of_ascii "packet	charz{
    // a // b
    @rightPad( )
    @tag(007
)
@tag( 255)
repeat
_x {
crc @lengthOf( u)
    `doc`	,u16	x , }
    , match
    u128 as // " ++ [128512]%N ++ runes_of_ascii " emoji
As // trailing space 
{  10
:
x_y_z
,	} , zchar[ 007
]int @calculatedFrom( """ ++ [233]%N ++ runes_of_ascii "t" ++ [233]%N ++ runes_of_ascii """ ) ,
match tag as//
float { // c
[""" ++ [28040; 24687]%N ++ runes_of_ascii """
    // " ++ [27880; 37322]%N ++ runes_of_ascii "
    ,
""" ++ [28040; 24687]%N ++ runes_of_ascii """] : leftPad , """ ++ [128512]%N ++ runes_of_ascii """ : repeatCount ,
    10 : stringy , // " ++ [27880; 37322]%N ++ runes_of_ascii "
""\n"" :msg_type , 1
    : float , [ ""{,}"" ]  : i64_,} ,
    @lengthOf( u128 ) @tag( 007  )  match f32a as string_
    {
    // `tick` ""quote"" 'q'
    0:	i8i8 ,} ,
uint64 falsey ,
} MetaData Foo
{u16 T , crc tag
    , A falsey
    `{ , }` // `tick` ""quote"" 'q'
,
}	packet
    float {
}
    MetaData
    rootA{ _x x,char[ 10 //x
]
options1 , pack x_y_z
//x
// trailing space 
,
    char[] u128, uint32 Pad
//x
//x
,
}
")).
Eval vm_compute in ("<<<M1456>>>" ++ check (runes_of_ascii "
packet
x { packetx  @calculatedFrom(
    // 50% %s
    ""1"" ) `{ , }` ,
repeat u8 packetx	, tag @calculatedFrom(
""\n"" ) , @lengthOf( len )
    u16 Header ,
    } options {
    u = """ ++ [128512]%N ++ runes_of_ascii """ }MetaData x_y_z{
float64  lengthOf ,// a // b
}	root// " ++ [128512]%N ++ runes_of_ascii " emoji
packet // 50% %s
BodyLength {  }
")).
Eval vm_compute in ("<<<M1488>>>" ++ check (runes_of_ascii "packet roots
{ } options
{	len
= zchar[
    //
    42]
    Packet
    = // 50% %s
007  ; pack  = ""a\\""
;}
")).
Eval vm_compute in ("<<<M1520>>>" ++ check (runes_of_ascii "
packet x {@calculatedFrom(""" ++ [128512]%N ++ runes_of_ascii """ )
    pack
    Packet
,
uint8x
{ repeat
u64
    zchar , i16 Foo @lengthOf( string_) `doc` , },	}  root packet Foo { }  packet  tag	{
}packet string_ {
zchar[ 7 ]
charz @lengthOf(  packetx ) , } packet matchKey{ }
")).
Eval vm_compute in ("<<<M1552>>>" ++ check (runes_of_ascii "  MetaData
tag{
    char[]//
tag ,
char[4294967296
]	charz ,	char[
    007 ]T , rootA o	, }//x
options
{Foo
=
    '\x00' ; i64_ =255 ; matchKey // `tick` ""quote"" 'q'
= '\x00' // " ++ [27880; 37322]%N ++ runes_of_ascii "
;	pack= // c
""CRC32"";}
")).
Eval vm_compute in ("<<<M1584>>>" ++ check (runes_of_ascii "packet// " ++ [128512]%N ++ runes_of_ascii " emoji
i64_ { matchKey
//	t
// c
@lengthOf(
string_ // 50% %s
) , char[ 1
]
    int ,  repeat string leftPad // " ++ [128512]%N ++ runes_of_ascii " emoji
,}options {//	t
}
    packet leftPad{ repeat stringy
falsey `{ , }`	,repeat // " ++ [27880; 37322]%N ++ runes_of_ascii "
i64
    Foo , charz
, i32
    charz@lengthOf(
    BodyLength ) , } 	 ")).
Eval vm_compute in ("<<<M1616>>>" ++ check (runes_of_ascii "options// " ++ [128512]%N ++ runes_of_ascii " emoji
{msg_type
=
u32 }")).
Eval vm_compute in ("<<<T1616>>>" ++ terms [mkTok 1 "options" 1 0 false; mkTok 44 (string_of_bytes [47; 47; 32; 240; 159; 152; 128; 32; 101; 109; 111; 106; 105]%N) 1 7 true; mkTok 2 "{" 2 0 false; mkTok 42 "msg_type" 2 1 false; mkTok 4 "=" 3 0 false; mkTok 22 "u32" 4 0 false; mkTok 3 "}" 4 4 false; mkTok 0 "<EOF>" 4 5 false] (mkPacket (mkPtok 1 "options" 1 0 0) (Some (mkPtok 3 "}" 4 4 6)) [(DOption (mkOptionDef (mkSpan (mkPtok 1 "options" 1 0 0) (mkPtok 3 "}" 4 4 6)) (mkPtok 1 "options" 1 0 0) (mkPtok 2 "{" 2 0 2) [(mkOptionDecl (mkSpan (mkPtok 42 "msg_type" 2 1 3) (mkPtok 22 "u32" 4 0 5)) (mkPtok 42 "msg_type" 2 1 3) (mkPtok 4 "=" 3 0 4) (VType (mkSpan (mkPtok 22 "u32" 4 0 5) (mkPtok 22 "u32" 4 0 5)) (TyBasic (mkSpan (mkPtok 22 "u32" 4 0 5) (mkPtok 22 "u32" 4 0 5)) (mkBasicType (mkSpan (mkPtok 22 "u32" 4 0 5) (mkPtok 22 "u32" 4 0 5)) (mkPtok 22 "u32" 4 0 5)))) None)] (mkPtok 3 "}" 4 4 6)))])).
Eval vm_compute in ("<<<M1648>>>" ++ check (runes_of_ascii "options
    {} root packet
    int
    {
    metadata	lengthOf `say ""hi""` ,
// " ++ [27880; 37322]%N ++ runes_of_ascii "
// trailing space 
@calculatedFrom( ""abc""
) lengthOf { metadata {
    u16 matchKey  , match crc as metadata { 10:	Logon ,}
    , trueish
@lengthOf( i8i8
    )	`a\` , repeat i64_ metadata `a\` ,} , repeat tag ,//x
repeat matchKey
{ repeat  crc// 50% %s
falsey
// `tick` ""quote"" 'q'
//x
, repeat T {
    tag @calculatedFrom(
""" ++ [128512]%N ++ runes_of_ascii """),
    // `tick` ""quote"" 'q'
    } ,
}
    , }
    ,pack	@calculatedFrom(""it's"")
`it's` //	t
, }
")).
Eval vm_compute in ("<<<M1680>>>" ++ check (runes_of_ascii "
packet	u { repeat As , @rightPad( '0' ) @rightPad
(
' ' ) @rightPad (
    ' ' )
    // 50% %s
    repeat
f32
metadata , } packet	MetaDataX
    { Z9_
    asx
,@tag( 3
    )repeat f32a  Z9_  ,
//
// @lengthOf(
@rightPad ()
    // packet A { u8 x, }
    @rightPad ( ' ') tag
    // c
    {	uint64 // " ++ [128512]%N ++ runes_of_ascii " emoji
BodyLength	`
`
,},
}	packet T{ match
    i64_ as  uint8x {[ ""it's"" ,	7 ] :A , }
    ,	}")).
Eval vm_compute in ("<<<M1712>>>" ++ check (runes_of_ascii "MetaData a1 { _x Z9_ `tab	here`  ,
    //
    Z9_ string_
    `u8 x,`  ,crc
    stringy , string packetx	, }
")).
Eval vm_compute in ("<<<M1744>>>" ++ check (runes_of_ascii "root packet
chars {	A `u8 x,`
,repeat metadata
    //	t
    { zchar[ 10 ] Packet
    `a\` , i32 MetaDataX , options1
@lengthOf(
Pad
    //	t
    ),} ,
@leftPad (' ' ) options1 @lengthOf( Pad // trailing space 
)
, match msg_type
    as u
/// triple
//x
{ 3
    : chars , }
, @tag( 255  ) char[]
calculatedFrom
, string o @calculatedFrom( ""a\\"" )
    , zchar[	0123456789
    ]packetx
@lengthOf(BodyLength ) , repeat packetx ,repeat zchar[ 0123456789 ]repeatCount ,
    } root // " ++ [27880; 37322]%N ++ runes_of_ascii "
packet MetaDataX {
i16 // packet A { u8 x, }
o ,} packet options1{ @tag(
    // `tick` ""quote"" 'q'
    10 ) @lengthOf(A // packet A { u8 x, }
)u8 x_y_z , f64 uint8x , } MetaData metadata
    {
    string MetaDataX , f32a
Pad
    // `tick` ""quote"" 'q'
    ,
}
")).
Eval vm_compute in ("<<<M1776>>>" ++ check (runes_of_ascii "MetaData As
    //x
    {
    char lengthOf `
`, //
zchar[
    4294967296 ]	x_y_z , } options{
asx =	' '; }	options
    { }
")).
Eval vm_compute in ("<<<M1808>>>" ++ check (runes_of_ascii "root packet a1 {@calculatedFrom( ""it's"" ) As u128 , }
// 50% %s
")).
Eval vm_compute in ("<<<M1840>>>" ++ check (runes_of_ascii "packet// 50% %s
roots{ // " ++ [128512]%N ++ runes_of_ascii " emoji
MetaDataX zchar`
`	, @lengthOf( stringy
    ) lengthOf {match Logon as
    charz  { [ 0,
    ""// no comment"" ]
:// trailing space 
Header	,
    ""it's"":
A // " ++ [27880; 37322]%N ++ runes_of_ascii "
3	: leftPad  , ""a\""b""  :u8x //x
,1
    : As  , ""a\\"" : // a // b
matchKey
, }// a // b
, len { i32 uint8x `crlf
line` , i64_	, uint64
    rootA`two words` , uint8 zchar,} ,
repeat uint32 msg_type ,len
    float  , }  , repeat string
stringy ,@tag( 42)@tag( 0 )i8i8 T
    `// not a comment` , tag
@lengthOf(charz ) ,
@calculatedFrom( ""a\\""  ) repeat body {x_y_z
    {repeat  falsey { len `crlf
line` , char[]
Header ,
    repeat i16 chars,} ,i64 asx
    ,
},
    zchar[ 00 ]
    // " ++ [27880; 37322]%N ++ runes_of_ascii "
    Foo`line1
line2`
,//
zchar[ 0123456789
]matchKey @calculatedFrom( ""it's""
) `say ""hi""` ,  } ,int64 // c
trueish `100% of %d`
,len zchar , As pack
`it's` // trailing space 
, }root
packet x_y_z { } root packet	leftPad {
/// triple
// c
repeat char[] crc`100% of %d`
    ,
    // c
    @lengthOf( Header ) i8 Foo
/// triple
// " ++ [27880; 37322]%N ++ runes_of_ascii "
@calculatedFrom(""CRC32""
) `tab	here` , string
    trueish,  @calculatedFrom(  """ ++ [28040; 24687]%N ++ runes_of_ascii """
    ) char options1 @lengthOf(
    // c
    float  )`it's` , msg_type
    // trailing space 
    @lengthOf( pack
    ) ,match len as asx {""" ++ [233]%N ++ runes_of_ascii "t" ++ [233]%N ++ runes_of_ascii """ : As ,
} ,
    @lengthOf( Z9_) A
o , u64 Foo@lengthOf(
lengthOf ) `doc`, float // " ++ [27880; 37322]%N ++ runes_of_ascii "
BodyLength `{ , }`
    // packet A { u8 x, }
    , match falsey
as float  { """ ++ [233]%N ++ runes_of_ascii "t" ++ [233]%N ++ runes_of_ascii """ :int, }
,} options{
x_y_z	=	7 BodyLength
//x
//
= f64 i64_ = uint64 lengthOf
    = f64 // a // b
; // 50% %s
}
MetaData int  {
    _x uint8x,
}
")).
Eval vm_compute in ("<<<T1840>>>" ++ terms [mkTok 35 "packet" 1 0 false; mkTok 44 "// 50% %s" 1 6 true; mkTok 42 "roots" 2 0 false; mkTok 2 "{" 2 5 false; mkTok 44 (string_of_bytes [47; 47; 32; 240; 159; 152; 128; 32; 101; 109; 111; 106; 105]%N) 2 7 true; mkTok 42 "MetaDataX" 3 0 false; mkTok 42 "zchar" 3 10 false; mkTok 43 (string_of_bytes [96; 10; 96]%N) 3 15 false; mkTok 40 "," 4 2 false; mkTok 7 "@lengthOf(" 4 4 false; mkTok 42 "stringy" 4 15 false; mkTok 6 ")" 5 4 false; mkTok 42 "lengthOf" 5 6 false; mkTok 2 "{" 5 15 false; mkTok 38 "match" 5 16 false; mkTok 42 "Logon" 5 22 false; mkTok 17 "as" 5 28 false; mkTok 42 "charz" 6 4 false; mkTok 2 "{" 6 11 false; mkTok 18 "[" 6 13 false; mkTok 30 "0" 6 15 false; mkTok 40 "," 6 16 false; mkTok 31 """// no comment""" 7 4 false; mkTok 13 "]" 7 20 false; mkTok 39 ":" 8 0 false; mkTok 44 "// trailing space " 8 1 true; mkTok 42 "Header" 9 0 false; mkTok 40 "," 9 7 false; mkTok 31 """it's""" 10 4 false; mkTok 39 ":" 10 10 false; mkTok 42 "A" 11 0 false; mkTok 44 (string_of_bytes [47; 47; 32; 230; 179; 168; 233; 135; 138]%N) 11 2 true; mkTok 30 "3" 12 0 false; mkTok 39 ":" 12 2 false; mkTok 42 "leftPad" 12 4 false; mkTok 40 "," 12 13 false; mkTok 31 """a\""b""" 12 15 false; mkTok 39 ":" 12 23 false; mkTok 42 "u8x" 12 24 false; mkTok 44 "//x" 12 28 true; mkTok 40 "," 13 0 false; mkTok 30 "1" 13 1 false; mkTok 39 ":" 14 4 false; mkTok 42 "As" 14 6 false; mkTok 40 "," 14 10 false; mkTok 31 """a\\""" 14 12 false; mkTok 39 ":" 14 18 false; mkTok 44 "// a // b" 14 20 true; mkTok 42 "matchKey" 15 0 false; mkTok 40 "," 16 0 false; mkTok 3 "}" 16 2 false; mkTok 44 "// a // b" 16 3 true; mkTok 40 "," 17 0 false; mkTok 42 "len" 17 2 false; mkTok 2 "{" 17 6 false; mkTok 26 "i32" 17 8 false; mkTok 42 "uint8x" 17 12 false; mkTok 43 (string_of_bytes [96; 99; 114; 108; 102; 13; 10; 108; 105; 110; 101; 96]%N) 17 19 false; mkTok 40 "," 18 6 false; mkTok 42 "i64_" 18 8 false; mkTok 40 "," 18 13 false; mkTok 23 "uint64" 18 15 false; mkTok 42 "rootA" 19 4 false; mkTok 43 "`two words`" 19 9 false; mkTok 40 "," 19 21 false; mkTok 20 "uint8" 19 23 false; mkTok 42 "zchar" 19 29 false; mkTok 40 "," 19 34 false; mkTok 3 "}" 19 35 false; mkTok 40 "," 19 37 false; mkTok 36 "repeat" 20 0 false; mkTok 22 "uint32" 20 7 false; mkTok 42 "msg_type" 20 14 false; mkTok 40 "," 20 23 false; mkTok 42 "len" 20 24 false; mkTok 42 "float" 21 4 false; mkTok 40 "," 21 11 false; mkTok 3 "}" 21 13 false; mkTok 40 "," 21 16 false; mkTok 36 "repeat" 21 18 false; mkTok 15 "string" 21 25 false; mkTok 42 "stringy" 22 0 false; mkTok 40 "," 22 8 false; mkTok 9 "@tag(" 22 9 false; mkTok 30 "42" 22 15 false; mkTok 6 ")" 22 17 false; mkTok 9 "@tag(" 22 18 false; mkTok 30 "0" 22 24 false; mkTok 6 ")" 22 26 false; mkTok 42 "i8i8" 22 27 false; mkTok 42 "T" 22 32 false; mkTok 43 "`// not a comment`" 23 4 false; mkTok 40 "," 23 23 false; mkTok 42 "tag" 23 25 false; mkTok 7 "@lengthOf(" 24 0 false; mkTok 42 "charz" 24 10 false; mkTok 6 ")" 24 16 false; mkTok 40 "," 24 18 false; mkTok 5 "@calculatedFrom(" 25 0 false; mkTok 31 """a\\""" 25 17 false; mkTok 6 ")" 25 24 false; mkTok 36 "repeat" 25 26 false; mkTok 42 "body" 25 33 false; mkTok 2 "{" 25 38 false; mkTok 42 "x_y_z" 25 39 false; mkTok 2 "{" 26 4 false; mkTok 36 "repeat" 26 5 false; mkTok 42 "falsey" 26 13 false; mkTok 2 "{" 26 20 false; mkTok 42 "len" 26 22 false; mkTok 43 (string_of_bytes [96; 99; 114; 108; 102; 13; 10; 108; 105; 110; 101; 96]%N) 26 26 false; mkTok 40 "," 27 6 false; mkTok 16 "char[]" 27 8 false; mkTok 42 "Header" 28 0 false; mkTok 40 "," 28 7 false; mkTok 36 "repeat" 29 4 false; mkTok 25 "i16" 29 11 false; mkTok 42 "chars" 29 15 false; mkTok 40 "," 29 20 false; mkTok 3 "}" 29 21 false; mkTok 40 "," 29 23 false; mkTok 27 "i64" 29 24 false; mkTok 42 "asx" 29 28 false; mkTok 40 "," 30 4 false; mkTok 3 "}" 31 0 false; mkTok 40 "," 31 1 false; mkTok 14 "zchar[" 32 4 false; mkTok 30 "00" 32 11 false; mkTok 13 "]" 32 14 false; mkTok 44 (string_of_bytes [47; 47; 32; 230; 179; 168; 233; 135; 138]%N) 33 4 true; mkTok 42 "Foo" 34 4 false; mkTok 43 (string_of_bytes [96; 108; 105; 110; 101; 49; 10; 108; 105; 110; 101; 50; 96]%N) 34 7 false; mkTok 40 "," 36 0 false; mkTok 44 "//" 36 1 true; mkTok 14 "zchar[" 37 0 false; mkTok 30 "0123456789" 37 7 false; mkTok 13 "]" 38 0 false; mkTok 42 "matchKey" 38 1 false; mkTok 5 "@calculatedFrom(" 38 10 false; mkTok 31 """it's""" 38 27 false; mkTok 6 ")" 39 0 false; mkTok 43 "`say ""hi""`" 39 2 false; mkTok 40 "," 39 13 false; mkTok 3 "}" 39 16 false; mkTok 40 "," 39 18 false; mkTok 27 "int64" 39 19 false; mkTok 44 "// c" 39 25 true; mkTok 42 "trueish" 40 0 false; mkTok 43 "`100% of %d`" 40 8 false; mkTok 40 "," 41 0 false; mkTok 42 "len" 41 1 false; mkTok 42 "zchar" 41 5 false; mkTok 40 "," 41 11 false; mkTok 42 "As" 41 13 false; mkTok 42 "pack" 41 16 false; mkTok 43 "`it's`" 42 0 false; mkTok 44 "// trailing space " 42 7 true; mkTok 40 "," 43 0 false; mkTok 3 "}" 43 2 false; mkTok 34 "root" 43 3 false; mkTok 35 "packet" 44 0 false; mkTok 42 "x_y_z" 44 7 false; mkTok 2 "{" 44 13 false; mkTok 3 "}" 44 15 false; mkTok 34 "root" 44 17 false; mkTok 35 "packet" 44 22 false; mkTok 42 "leftPad" 44 29 false; mkTok 2 "{" 44 37 false; mkTok 44 "/// triple" 45 0 true; mkTok 44 "// c" 46 0 true; mkTok 36 "repeat" 47 0 false; mkTok 16 "char[]" 47 7 false; mkTok 42 "crc" 47 14 false; mkTok 43 "`100% of %d`" 47 17 false; mkTok 40 "," 48 4 false; mkTok 44 "// c" 49 4 true; mkTok 7 "@lengthOf(" 50 4 false; mkTok 42 "Header" 50 15 false; mkTok 6 ")" 50 22 false; mkTok 24 "i8" 50 24 false; mkTok 42 "Foo" 50 27 false; mkTok 44 "/// triple" 51 0 true; mkTok 44 (string_of_bytes [47; 47; 32; 230; 179; 168; 233; 135; 138]%N) 52 0 true; mkTok 5 "@calculatedFrom(" 53 0 false; mkTok 31 """CRC32""" 53 16 false; mkTok 6 ")" 54 0 false; mkTok 43 (string_of_bytes [96; 116; 97; 98; 9; 104; 101; 114; 101; 96]%N) 54 2 false; mkTok 40 "," 54 13 false; mkTok 15 "string" 54 15 false; mkTok 42 "trueish" 55 4 false; mkTok 40 "," 55 11 false; mkTok 5 "@calculatedFrom(" 55 14 false; mkTok 31 (string_of_bytes [34; 230; 182; 136; 230; 129; 175; 34]%N) 55 32 false; mkTok 6 ")" 56 4 false; mkTok 19 "char" 56 6 false; mkTok 42 "options1" 56 11 false; mkTok 7 "@lengthOf(" 56 20 false; mkTok 44 "// c" 57 4 true; mkTok 42 "float" 58 4 false; mkTok 6 ")" 58 11 false; mkTok 43 "`it's`" 58 12 false; mkTok 40 "," 58 19 false; mkTok 42 "msg_type" 58 21 false; mkTok 44 "// trailing space " 59 4 true; mkTok 7 "@lengthOf(" 60 4 false; mkTok 42 "pack" 60 15 false; mkTok 6 ")" 61 4 false; mkTok 40 "," 61 6 false; mkTok 38 "match" 61 7 false; mkTok 42 "len" 61 13 false; mkTok 17 "as" 61 17 false; mkTok 42 "asx" 61 20 false; mkTok 2 "{" 61 24 false; mkTok 31 (string_of_bytes [34; 195; 169; 116; 195; 169; 34]%N) 61 25 false; mkTok 39 ":" 61 31 false; mkTok 42 "As" 61 33 false; mkTok 40 "," 61 36 false; mkTok 3 "}" 62 0 false; mkTok 40 "," 62 2 false; mkTok 7 "@lengthOf(" 63 4 false; mkTok 42 "Z9_" 63 15 false; mkTok 6 ")" 63 18 false; mkTok 42 "A" 63 20 false; mkTok 42 "o" 64 0 false; mkTok 40 "," 64 2 false; mkTok 23 "u64" 64 4 false; mkTok 42 "Foo" 64 8 false; mkTok 7 "@lengthOf(" 64 11 false; mkTok 42 "lengthOf" 65 0 false; mkTok 6 ")" 65 9 false; mkTok 43 "`doc`" 65 11 false; mkTok 40 "," 65 16 false; mkTok 42 "float" 65 18 false; mkTok 44 (string_of_bytes [47; 47; 32; 230; 179; 168; 233; 135; 138]%N) 65 24 true; mkTok 42 "BodyLength" 66 0 false; mkTok 43 "`{ , }`" 66 11 false; mkTok 44 "// packet A { u8 x, }" 67 4 true; mkTok 40 "," 68 4 false; mkTok 38 "match" 68 6 false; mkTok 42 "falsey" 68 12 false; mkTok 17 "as" 69 0 false; mkTok 42 "float" 69 3 false; mkTok 2 "{" 69 10 false; mkTok 31 (string_of_bytes [34; 195; 169; 116; 195; 169; 34]%N) 69 12 false; mkTok 39 ":" 69 18 false; mkTok 42 "int" 69 19 false; mkTok 40 "," 69 22 false; mkTok 3 "}" 69 24 false; mkTok 40 "," 70 0 false; mkTok 3 "}" 70 1 false; mkTok 1 "options" 70 3 false; mkTok 2 "{" 70 10 false; mkTok 42 "x_y_z" 71 0 false; mkTok 4 "=" 71 6 false; mkTok 30 "7" 71 8 false; mkTok 42 "BodyLength" 71 10 false; mkTok 44 "//x" 72 0 true; mkTok 44 "//" 73 0 true; mkTok 4 "=" 74 0 false; mkTok 29 "f64" 74 2 false; mkTok 42 "i64_" 74 6 false; mkTok 4 "=" 74 11 false; mkTok 23 "uint64" 74 13 false; mkTok 42 "lengthOf" 74 20 false; mkTok 4 "=" 75 4 false; mkTok 29 "f64" 75 6 false; mkTok 44 "// a // b" 75 10 true; mkTok 41 ";" 76 0 false; mkTok 44 "// 50% %s" 76 2 true; mkTok 3 "}" 77 0 false; mkTok 37 "MetaData" 78 0 false; mkTok 42 "int" 78 9 false; mkTok 2 "{" 78 14 false; mkTok 42 "_x" 79 4 false; mkTok 42 "uint8x" 79 7 false; mkTok 40 "," 79 13 false; mkTok 3 "}" 80 0 false; mkTok 0 "<EOF>" 81 0 false] (mkPacket (mkPtok 35 "packet" 1 0 0) (Some (mkPtok 3 "}" 80 0 276)) [(DPacket (mkPacketDef (mkSpan (mkPtok 35 "packet" 1 0 0) (mkPtok 3 "}" 43 2 158)) None (mkPtok 35 "packet" 1 0 0) (mkPtok 42 "roots" 2 0 2) (mkPtok 2 "{" 2 5 3) [(mkFieldWithAttr (mkSpan (mkPtok 42 "MetaDataX" 3 0 5) (mkPtok 40 "," 4 2 8)) [] (ObjectField (mkSpan (mkPtok 42 "MetaDataX" 3 0 5) (mkPtok 40 "," 4 2 8)) None (mkPtok 42 "MetaDataX" 3 0 5) (Some (mkPtok 42 "zchar" 3 10 6)) (Some (mkPtok 43 (string_of_bytes [96; 10; 96]%N) 3 15 7)) (mkPtok 40 "," 4 2 8))); (mkFieldWithAttr (mkSpan (mkPtok 7 "@lengthOf(" 4 4 9) (mkPtok 40 "," 21 16 78)) [(FALengthOf (mkSpan (mkPtok 7 "@lengthOf(" 4 4 9) (mkPtok 6 ")" 5 4 11)) (mkLengthOf (mkSpan (mkPtok 7 "@lengthOf(" 4 4 9) (mkPtok 6 ")" 5 4 11)) (mkPtok 7 "@lengthOf(" 4 4 9) (mkPtok 42 "stringy" 4 15 10) (mkPtok 6 ")" 5 4 11)))] (InerObjectField (mkSpan (mkPtok 42 "lengthOf" 5 6 12) (mkPtok 40 "," 21 16 78)) None (InerObjectDecl (mkSpan (mkPtok 42 "lengthOf" 5 6 12) (mkPtok 3 "}" 21 13 77)) (mkPtok 42 "lengthOf" 5 6 12) (mkPtok 2 "{" 5 15 13) [(MatchField (mkSpan (mkPtok 38 "match" 5 16 14) (mkPtok 40 "," 17 0 52)) (mkMatchFieldDecl (mkSpan (mkPtok 38 "match" 5 16 14) (mkPtok 3 "}" 16 2 50)) (mkPtok 38 "match" 5 16 14) (mkPtok 42 "Logon" 5 22 15) (mkPtok 17 "as" 5 28 16) (mkPtok 42 "charz" 6 4 17) (mkPtok 2 "{" 6 11 18) [(mkMatchPair (mkSpan (mkPtok 18 "[" 6 13 19) (mkPtok 40 "," 9 7 27)) (MKList (mkKeyList (mkSpan (mkPtok 18 "[" 6 13 19) (mkPtok 13 "]" 7 20 23)) (mkPtok 18 "[" 6 13 19) (mkPtok 30 "0" 6 15 20) [((mkPtok 40 "," 6 16 21), (mkPtok 31 """// no comment""" 7 4 22))] (mkPtok 13 "]" 7 20 23))) (mkPtok 39 ":" 8 0 24) (mkPtok 42 "Header" 9 0 26) (Some (mkPtok 40 "," 9 7 27))); (mkMatchPair (mkSpan (mkPtok 31 """it's""" 10 4 28) (mkPtok 42 "A" 11 0 30)) (MKString (mkPtok 31 """it's""" 10 4 28)) (mkPtok 39 ":" 10 10 29) (mkPtok 42 "A" 11 0 30) None); (mkMatchPair (mkSpan (mkPtok 30 "3" 12 0 32) (mkPtok 40 "," 12 13 35)) (MKDigits (mkPtok 30 "3" 12 0 32)) (mkPtok 39 ":" 12 2 33) (mkPtok 42 "leftPad" 12 4 34) (Some (mkPtok 40 "," 12 13 35))); (mkMatchPair (mkSpan (mkPtok 31 """a\""b""" 12 15 36) (mkPtok 40 "," 13 0 40)) (MKString (mkPtok 31 """a\""b""" 12 15 36)) (mkPtok 39 ":" 12 23 37) (mkPtok 42 "u8x" 12 24 38) (Some (mkPtok 40 "," 13 0 40))); (mkMatchPair (mkSpan (mkPtok 30 "1" 13 1 41) (mkPtok 40 "," 14 10 44)) (MKDigits (mkPtok 30 "1" 13 1 41)) (mkPtok 39 ":" 14 4 42) (mkPtok 42 "As" 14 6 43) (Some (mkPtok 40 "," 14 10 44))); (mkMatchPair (mkSpan (mkPtok 31 """a\\""" 14 12 45) (mkPtok 40 "," 16 0 49)) (MKString (mkPtok 31 """a\\""" 14 12 45)) (mkPtok 39 ":" 14 18 46) (mkPtok 42 "matchKey" 15 0 48) (Some (mkPtok 40 "," 16 0 49)))] (mkPtok 3 "}" 16 2 50)) (mkPtok 40 "," 17 0 52)); (InerObjectField (mkSpan (mkPtok 42 "len" 17 2 53) (mkPtok 40 "," 19 37 69)) None (InerObjectDecl (mkSpan (mkPtok 42 "len" 17 2 53) (mkPtok 3 "}" 19 35 68)) (mkPtok 42 "len" 17 2 53) (mkPtok 2 "{" 17 6 54) [(MetaField (mkSpan (mkPtok 26 "i32" 17 8 55) (mkPtok 40 "," 18 6 58)) None (mkMetaDecl (mkSpan (mkPtok 26 "i32" 17 8 55) (mkPtok 40 "," 18 6 58)) (TyBasic (mkSpan (mkPtok 26 "i32" 17 8 55) (mkPtok 26 "i32" 17 8 55)) (mkBasicType (mkSpan (mkPtok 26 "i32" 17 8 55) (mkPtok 26 "i32" 17 8 55)) (mkPtok 26 "i32" 17 8 55))) (mkPtok 42 "uint8x" 17 12 56) (Some (mkPtok 43 (string_of_bytes [96; 99; 114; 108; 102; 13; 10; 108; 105; 110; 101; 96]%N) 17 19 57)) (mkPtok 40 "," 18 6 58))); (ObjectField (mkSpan (mkPtok 42 "i64_" 18 8 59) (mkPtok 40 "," 18 13 60)) None (mkPtok 42 "i64_" 18 8 59) None None (mkPtok 40 "," 18 13 60)); (MetaField (mkSpan (mkPtok 23 "uint64" 18 15 61) (mkPtok 40 "," 19 21 64)) None (mkMetaDecl (mkSpan (mkPtok 23 "uint64" 18 15 61) (mkPtok 40 "," 19 21 64)) (TyBasic (mkSpan (mkPtok 23 "uint64" 18 15 61) (mkPtok 23 "uint64" 18 15 61)) (mkBasicType (mkSpan (mkPtok 23 "uint64" 18 15 61) (mkPtok 23 "uint64" 18 15 61)) (mkPtok 23 "uint64" 18 15 61))) (mkPtok 42 "rootA" 19 4 62) (Some (mkPtok 43 "`two words`" 19 9 63)) (mkPtok 40 "," 19 21 64))); (MetaField (mkSpan (mkPtok 20 "uint8" 19 23 65) (mkPtok 40 "," 19 34 67)) None (mkMetaDecl (mkSpan (mkPtok 20 "uint8" 19 23 65) (mkPtok 40 "," 19 34 67)) (TyBasic (mkSpan (mkPtok 20 "uint8" 19 23 65) (mkPtok 20 "uint8" 19 23 65)) (mkBasicType (mkSpan (mkPtok 20 "uint8" 19 23 65) (mkPtok 20 "uint8" 19 23 65)) (mkPtok 20 "uint8" 19 23 65))) (mkPtok 42 "zchar" 19 29 66) None (mkPtok 40 "," 19 34 67)))] (mkPtok 3 "}" 19 35 68)) (mkPtok 40 "," 19 37 69)); (MetaField (mkSpan (mkPtok 36 "repeat" 20 0 70) (mkPtok 40 "," 20 23 73)) (Some (mkPtok 36 "repeat" 20 0 70)) (mkMetaDecl (mkSpan (mkPtok 22 "uint32" 20 7 71) (mkPtok 40 "," 20 23 73)) (TyBasic (mkSpan (mkPtok 22 "uint32" 20 7 71) (mkPtok 22 "uint32" 20 7 71)) (mkBasicType (mkSpan (mkPtok 22 "uint32" 20 7 71) (mkPtok 22 "uint32" 20 7 71)) (mkPtok 22 "uint32" 20 7 71))) (mkPtok 42 "msg_type" 20 14 72) None (mkPtok 40 "," 20 23 73))); (ObjectField (mkSpan (mkPtok 42 "len" 20 24 74) (mkPtok 40 "," 21 11 76)) None (mkPtok 42 "len" 20 24 74) (Some (mkPtok 42 "float" 21 4 75)) None (mkPtok 40 "," 21 11 76))] (mkPtok 3 "}" 21 13 77)) (mkPtok 40 "," 21 16 78))); (mkFieldWithAttr (mkSpan (mkPtok 36 "repeat" 21 18 79) (mkPtok 40 "," 22 8 82)) [] (MetaField (mkSpan (mkPtok 36 "repeat" 21 18 79) (mkPtok 40 "," 22 8 82)) (Some (mkPtok 36 "repeat" 21 18 79)) (mkMetaDecl (mkSpan (mkPtok 15 "string" 21 25 80) (mkPtok 40 "," 22 8 82)) (TyDynamic (mkSpan (mkPtok 15 "string" 21 25 80) (mkPtok 15 "string" 21 25 80)) (mkDynamicString (mkSpan (mkPtok 15 "string" 21 25 80) (mkPtok 15 "string" 21 25 80)) (mkPtok 15 "string" 21 25 80))) (mkPtok 42 "stringy" 22 0 81) None (mkPtok 40 "," 22 8 82)))); (mkFieldWithAttr (mkSpan (mkPtok 9 "@tag(" 22 9 83) (mkPtok 40 "," 23 23 92)) [(FATag (mkSpan (mkPtok 9 "@tag(" 22 9 83) (mkPtok 6 ")" 22 17 85)) (mkTagAttr (mkSpan (mkPtok 9 "@tag(" 22 9 83) (mkPtok 6 ")" 22 17 85)) (mkPtok 9 "@tag(" 22 9 83) (mkPtok 30 "42" 22 15 84) (mkPtok 6 ")" 22 17 85))); (FATag (mkSpan (mkPtok 9 "@tag(" 22 18 86) (mkPtok 6 ")" 22 26 88)) (mkTagAttr (mkSpan (mkPtok 9 "@tag(" 22 18 86) (mkPtok 6 ")" 22 26 88)) (mkPtok 9 "@tag(" 22 18 86) (mkPtok 30 "0" 22 24 87) (mkPtok 6 ")" 22 26 88)))] (ObjectField (mkSpan (mkPtok 42 "i8i8" 22 27 89) (mkPtok 40 "," 23 23 92)) None (mkPtok 42 "i8i8" 22 27 89) (Some (mkPtok 42 "T" 22 32 90)) (Some (mkPtok 43 "`// not a comment`" 23 4 91)) (mkPtok 40 "," 23 23 92))); (mkFieldWithAttr (mkSpan (mkPtok 42 "tag" 23 25 93) (mkPtok 40 "," 24 18 97)) [] (LengthField (mkSpan (mkPtok 42 "tag" 23 25 93) (mkPtok 40 "," 24 18 97)) (mkLengthFieldDecl (mkSpan (mkPtok 42 "tag" 23 25 93) (mkPtok 40 "," 24 18 97)) None (mkPtok 42 "tag" 23 25 93) (mkLengthOf (mkSpan (mkPtok 7 "@lengthOf(" 24 0 94) (mkPtok 6 ")" 24 16 96)) (mkPtok 7 "@lengthOf(" 24 0 94) (mkPtok 42 "charz" 24 10 95) (mkPtok 6 ")" 24 16 96)) None (mkPtok 40 "," 24 18 97)))); (mkFieldWithAttr (mkSpan (mkPtok 5 "@calculatedFrom(" 25 0 98) (mkPtok 40 "," 39 18 144)) [(FACalculatedFrom (mkSpan (mkPtok 5 "@calculatedFrom(" 25 0 98) (mkPtok 6 ")" 25 24 100)) (mkCalculatedFrom (mkSpan (mkPtok 5 "@calculatedFrom(" 25 0 98) (mkPtok 6 ")" 25 24 100)) (mkPtok 5 "@calculatedFrom(" 25 0 98) (mkPtok 31 """a\\""" 25 17 99) (mkPtok 6 ")" 25 24 100)))] (InerObjectField (mkSpan (mkPtok 36 "repeat" 25 26 101) (mkPtok 40 "," 39 18 144)) (Some (mkPtok 36 "repeat" 25 26 101)) (InerObjectDecl (mkSpan (mkPtok 42 "body" 25 33 102) (mkPtok 3 "}" 39 16 143)) (mkPtok 42 "body" 25 33 102) (mkPtok 2 "{" 25 38 103) [(InerObjectField (mkSpan (mkPtok 42 "x_y_z" 25 39 104) (mkPtok 40 "," 31 1 125)) None (InerObjectDecl (mkSpan (mkPtok 42 "x_y_z" 25 39 104) (mkPtok 3 "}" 31 0 124)) (mkPtok 42 "x_y_z" 25 39 104) (mkPtok 2 "{" 26 4 105) [(InerObjectField (mkSpan (mkPtok 36 "repeat" 26 5 106) (mkPtok 40 "," 29 23 120)) (Some (mkPtok 36 "repeat" 26 5 106)) (InerObjectDecl (mkSpan (mkPtok 42 "falsey" 26 13 107) (mkPtok 3 "}" 29 21 119)) (mkPtok 42 "falsey" 26 13 107) (mkPtok 2 "{" 26 20 108) [(ObjectField (mkSpan (mkPtok 42 "len" 26 22 109) (mkPtok 40 "," 27 6 111)) None (mkPtok 42 "len" 26 22 109) None (Some (mkPtok 43 (string_of_bytes [96; 99; 114; 108; 102; 13; 10; 108; 105; 110; 101; 96]%N) 26 26 110)) (mkPtok 40 "," 27 6 111)); (MetaField (mkSpan (mkPtok 16 "char[]" 27 8 112) (mkPtok 40 "," 28 7 114)) None (mkMetaDecl (mkSpan (mkPtok 16 "char[]" 27 8 112) (mkPtok 40 "," 28 7 114)) (TyDynamic (mkSpan (mkPtok 16 "char[]" 27 8 112) (mkPtok 16 "char[]" 27 8 112)) (mkDynamicString (mkSpan (mkPtok 16 "char[]" 27 8 112) (mkPtok 16 "char[]" 27 8 112)) (mkPtok 16 "char[]" 27 8 112))) (mkPtok 42 "Header" 28 0 113) None (mkPtok 40 "," 28 7 114))); (MetaField (mkSpan (mkPtok 36 "repeat" 29 4 115) (mkPtok 40 "," 29 20 118)) (Some (mkPtok 36 "repeat" 29 4 115)) (mkMetaDecl (mkSpan (mkPtok 25 "i16" 29 11 116) (mkPtok 40 "," 29 20 118)) (TyBasic (mkSpan (mkPtok 25 "i16" 29 11 116) (mkPtok 25 "i16" 29 11 116)) (mkBasicType (mkSpan (mkPtok 25 "i16" 29 11 116) (mkPtok 25 "i16" 29 11 116)) (mkPtok 25 "i16" 29 11 116))) (mkPtok 42 "chars" 29 15 117) None (mkPtok 40 "," 29 20 118)))] (mkPtok 3 "}" 29 21 119)) (mkPtok 40 "," 29 23 120)); (MetaField (mkSpan (mkPtok 27 "i64" 29 24 121) (mkPtok 40 "," 30 4 123)) None (mkMetaDecl (mkSpan (mkPtok 27 "i64" 29 24 121) (mkPtok 40 "," 30 4 123)) (TyBasic (mkSpan (mkPtok 27 "i64" 29 24 121) (mkPtok 27 "i64" 29 24 121)) (mkBasicType (mkSpan (mkPtok 27 "i64" 29 24 121) (mkPtok 27 "i64" 29 24 121)) (mkPtok 27 "i64" 29 24 121))) (mkPtok 42 "asx" 29 28 122) None (mkPtok 40 "," 30 4 123)))] (mkPtok 3 "}" 31 0 124)) (mkPtok 40 "," 31 1 125)); (MetaField (mkSpan (mkPtok 14 "zchar[" 32 4 126) (mkPtok 40 "," 36 0 132)) None (mkMetaDecl (mkSpan (mkPtok 14 "zchar[" 32 4 126) (mkPtok 40 "," 36 0 132)) (TyFixed (mkSpan (mkPtok 14 "zchar[" 32 4 126) (mkPtok 13 "]" 32 14 128)) (mkFixedString (mkSpan (mkPtok 14 "zchar[" 32 4 126) (mkPtok 13 "]" 32 14 128)) (mkPtok 14 "zchar[" 32 4 126) (mkPtok 30 "00" 32 11 127) (mkPtok 13 "]" 32 14 128))) (mkPtok 42 "Foo" 34 4 130) (Some (mkPtok 43 (string_of_bytes [96; 108; 105; 110; 101; 49; 10; 108; 105; 110; 101; 50; 96]%N) 34 7 131)) (mkPtok 40 "," 36 0 132))); (CheckSumField (mkSpan (mkPtok 14 "zchar[" 37 0 134) (mkPtok 40 "," 39 13 142)) (mkChecksumFieldDecl (mkSpan (mkPtok 14 "zchar[" 37 0 134) (mkPtok 40 "," 39 13 142)) (Some (TyFixed (mkSpan (mkPtok 14 "zchar[" 37 0 134) (mkPtok 13 "]" 38 0 136)) (mkFixedString (mkSpan (mkPtok 14 "zchar[" 37 0 134) (mkPtok 13 "]" 38 0 136)) (mkPtok 14 "zchar[" 37 0 134) (mkPtok 30 "0123456789" 37 7 135) (mkPtok 13 "]" 38 0 136)))) (mkPtok 42 "matchKey" 38 1 137) (mkCalculatedFrom (mkSpan (mkPtok 5 "@calculatedFrom(" 38 10 138) (mkPtok 6 ")" 39 0 140)) (mkPtok 5 "@calculatedFrom(" 38 10 138) (mkPtok 31 """it's""" 38 27 139) (mkPtok 6 ")" 39 0 140)) (Some (mkPtok 43 "`say ""hi""`" 39 2 141)) (mkPtok 40 "," 39 13 142)))] (mkPtok 3 "}" 39 16 143)) (mkPtok 40 "," 39 18 144))); (mkFieldWithAttr (mkSpan (mkPtok 27 "int64" 39 19 145) (mkPtok 40 "," 41 0 149)) [] (MetaField (mkSpan (mkPtok 27 "int64" 39 19 145) (mkPtok 40 "," 41 0 149)) None (mkMetaDecl (mkSpan (mkPtok 27 "int64" 39 19 145) (mkPtok 40 "," 41 0 149)) (TyBasic (mkSpan (mkPtok 27 "int64" 39 19 145) (mkPtok 27 "int64" 39 19 145)) (mkBasicType (mkSpan (mkPtok 27 "int64" 39 19 145) (mkPtok 27 "int64" 39 19 145)) (mkPtok 27 "int64" 39 19 145))) (mkPtok 42 "trueish" 40 0 147) (Some (mkPtok 43 "`100% of %d`" 40 8 148)) (mkPtok 40 "," 41 0 149)))); (mkFieldWithAttr (mkSpan (mkPtok 42 "len" 41 1 150) (mkPtok 40 "," 41 11 152)) [] (ObjectField (mkSpan (mkPtok 42 "len" 41 1 150) (mkPtok 40 "," 41 11 152)) None (mkPtok 42 "len" 41 1 150) (Some (mkPtok 42 "zchar" 41 5 151)) None (mkPtok 40 "," 41 11 152))); (mkFieldWithAttr (mkSpan (mkPtok 42 "As" 41 13 153) (mkPtok 40 "," 43 0 157)) [] (ObjectField (mkSpan (mkPtok 42 "As" 41 13 153) (mkPtok 40 "," 43 0 157)) None (mkPtok 42 "As" 41 13 153) (Some (mkPtok 42 "pack" 41 16 154)) (Some (mkPtok 43 "`it's`" 42 0 155)) (mkPtok 40 "," 43 0 157)))] (mkPtok 3 "}" 43 2 158))); (DPacket (mkPacketDef (mkSpan (mkPtok 34 "root" 43 3 159) (mkPtok 3 "}" 44 15 163)) (Some (mkPtok 34 "root" 43 3 159)) (mkPtok 35 "packet" 44 0 160) (mkPtok 42 "x_y_z" 44 7 161) (mkPtok 2 "{" 44 13 162) [] (mkPtok 3 "}" 44 15 163))); (DPacket (mkPacketDef (mkSpan (mkPtok 34 "root" 44 17 164) (mkPtok 3 "}" 70 1 249)) (Some (mkPtok 34 "root" 44 17 164)) (mkPtok 35 "packet" 44 22 165) (mkPtok 42 "leftPad" 44 29 166) (mkPtok 2 "{" 44 37 167) [(mkFieldWithAttr (mkSpan (mkPtok 36 "repeat" 47 0 170) (mkPtok 40 "," 48 4 174)) [] (MetaField (mkSpan (mkPtok 36 "repeat" 47 0 170) (mkPtok 40 "," 48 4 174)) (Some (mkPtok 36 "repeat" 47 0 170)) (mkMetaDecl (mkSpan (mkPtok 16 "char[]" 47 7 171) (mkPtok 40 "," 48 4 174)) (TyDynamic (mkSpan (mkPtok 16 "char[]" 47 7 171) (mkPtok 16 "char[]" 47 7 171)) (mkDynamicString (mkSpan (mkPtok 16 "char[]" 47 7 171) (mkPtok 16 "char[]" 47 7 171)) (mkPtok 16 "char[]" 47 7 171))) (mkPtok 42 "crc" 47 14 172) (Some (mkPtok 43 "`100% of %d`" 47 17 173)) (mkPtok 40 "," 48 4 174)))); (mkFieldWithAttr (mkSpan (mkPtok 7 "@lengthOf(" 50 4 176) (mkPtok 40 "," 54 13 187)) [(FALengthOf (mkSpan (mkPtok 7 "@lengthOf(" 50 4 176) (mkPtok 6 ")" 50 22 178)) (mkLengthOf (mkSpan (mkPtok 7 "@lengthOf(" 50 4 176) (mkPtok 6 ")" 50 22 178)) (mkPtok 7 "@lengthOf(" 50 4 176) (mkPtok 42 "Header" 50 15 177) (mkPtok 6 ")" 50 22 178)))] (CheckSumField (mkSpan (mkPtok 24 "i8" 50 24 179) (mkPtok 40 "," 54 13 187)) (mkChecksumFieldDecl (mkSpan (mkPtok 24 "i8" 50 24 179) (mkPtok 40 "," 54 13 187)) (Some (TyBasic (mkSpan (mkPtok 24 "i8" 50 24 179) (mkPtok 24 "i8" 50 24 179)) (mkBasicType (mkSpan (mkPtok 24 "i8" 50 24 179) (mkPtok 24 "i8" 50 24 179)) (mkPtok 24 "i8" 50 24 179)))) (mkPtok 42 "Foo" 50 27 180) (mkCalculatedFrom (mkSpan (mkPtok 5 "@calculatedFrom(" 53 0 183) (mkPtok 6 ")" 54 0 185)) (mkPtok 5 "@calculatedFrom(" 53 0 183) (mkPtok 31 """CRC32""" 53 16 184) (mkPtok 6 ")" 54 0 185)) (Some (mkPtok 43 (string_of_bytes [96; 116; 97; 98; 9; 104; 101; 114; 101; 96]%N) 54 2 186)) (mkPtok 40 "," 54 13 187)))); (mkFieldWithAttr (mkSpan (mkPtok 15 "string" 54 15 188) (mkPtok 40 "," 55 11 190)) [] (MetaField (mkSpan (mkPtok 15 "string" 54 15 188) (mkPtok 40 "," 55 11 190)) None (mkMetaDecl (mkSpan (mkPtok 15 "string" 54 15 188) (mkPtok 40 "," 55 11 190)) (TyDynamic (mkSpan (mkPtok 15 "string" 54 15 188) (mkPtok 15 "string" 54 15 188)) (mkDynamicString (mkSpan (mkPtok 15 "string" 54 15 188) (mkPtok 15 "string" 54 15 188)) (mkPtok 15 "string" 54 15 188))) (mkPtok 42 "trueish" 55 4 189) None (mkPtok 40 "," 55 11 190)))); (mkFieldWithAttr (mkSpan (mkPtok 5 "@calculatedFrom(" 55 14 191) (mkPtok 40 "," 58 19 201)) [(FACalculatedFrom (mkSpan (mkPtok 5 "@calculatedFrom(" 55 14 191) (mkPtok 6 ")" 56 4 193)) (mkCalculatedFrom (mkSpan (mkPtok 5 "@calculatedFrom(" 55 14 191) (mkPtok 6 ")" 56 4 193)) (mkPtok 5 "@calculatedFrom(" 55 14 191) (mkPtok 31 (string_of_bytes [34; 230; 182; 136; 230; 129; 175; 34]%N) 55 32 192) (mkPtok 6 ")" 56 4 193)))] (LengthField (mkSpan (mkPtok 19 "char" 56 6 194) (mkPtok 40 "," 58 19 201)) (mkLengthFieldDecl (mkSpan (mkPtok 19 "char" 56 6 194) (mkPtok 40 "," 58 19 201)) (Some (TyBasic (mkSpan (mkPtok 19 "char" 56 6 194) (mkPtok 19 "char" 56 6 194)) (mkBasicType (mkSpan (mkPtok 19 "char" 56 6 194) (mkPtok 19 "char" 56 6 194)) (mkPtok 19 "char" 56 6 194)))) (mkPtok 42 "options1" 56 11 195) (mkLengthOf (mkSpan (mkPtok 7 "@lengthOf(" 56 20 196) (mkPtok 6 ")" 58 11 199)) (mkPtok 7 "@lengthOf(" 56 20 196) (mkPtok 42 "float" 58 4 198) (mkPtok 6 ")" 58 11 199)) (Some (mkPtok 43 "`it's`" 58 12 200)) (mkPtok 40 "," 58 19 201)))); (mkFieldWithAttr (mkSpan (mkPtok 42 "msg_type" 58 21 202) (mkPtok 40 "," 61 6 207)) [] (LengthField (mkSpan (mkPtok 42 "msg_type" 58 21 202) (mkPtok 40 "," 61 6 207)) (mkLengthFieldDecl (mkSpan (mkPtok 42 "msg_type" 58 21 202) (mkPtok 40 "," 61 6 207)) None (mkPtok 42 "msg_type" 58 21 202) (mkLengthOf (mkSpan (mkPtok 7 "@lengthOf(" 60 4 204) (mkPtok 6 ")" 61 4 206)) (mkPtok 7 "@lengthOf(" 60 4 204) (mkPtok 42 "pack" 60 15 205) (mkPtok 6 ")" 61 4 206)) None (mkPtok 40 "," 61 6 207)))); (mkFieldWithAttr (mkSpan (mkPtok 38 "match" 61 7 208) (mkPtok 40 "," 62 2 218)) [] (MatchField (mkSpan (mkPtok 38 "match" 61 7 208) (mkPtok 40 "," 62 2 218)) (mkMatchFieldDecl (mkSpan (mkPtok 38 "match" 61 7 208) (mkPtok 3 "}" 62 0 217)) (mkPtok 38 "match" 61 7 208) (mkPtok 42 "len" 61 13 209) (mkPtok 17 "as" 61 17 210) (mkPtok 42 "asx" 61 20 211) (mkPtok 2 "{" 61 24 212) [(mkMatchPair (mkSpan (mkPtok 31 (string_of_bytes [34; 195; 169; 116; 195; 169; 34]%N) 61 25 213) (mkPtok 40 "," 61 36 216)) (MKString (mkPtok 31 (string_of_bytes [34; 195; 169; 116; 195; 169; 34]%N) 61 25 213)) (mkPtok 39 ":" 61 31 214) (mkPtok 42 "As" 61 33 215) (Some (mkPtok 40 "," 61 36 216)))] (mkPtok 3 "}" 62 0 217)) (mkPtok 40 "," 62 2 218))); (mkFieldWithAttr (mkSpan (mkPtok 7 "@lengthOf(" 63 4 219) (mkPtok 40 "," 64 2 224)) [(FALengthOf (mkSpan (mkPtok 7 "@lengthOf(" 63 4 219) (mkPtok 6 ")" 63 18 221)) (mkLengthOf (mkSpan (mkPtok 7 "@lengthOf(" 63 4 219) (mkPtok 6 ")" 63 18 221)) (mkPtok 7 "@lengthOf(" 63 4 219) (mkPtok 42 "Z9_" 63 15 220) (mkPtok 6 ")" 63 18 221)))] (ObjectField (mkSpan (mkPtok 42 "A" 63 20 222) (mkPtok 40 "," 64 2 224)) None (mkPtok 42 "A" 63 20 222) (Some (mkPtok 42 "o" 64 0 223)) None (mkPtok 40 "," 64 2 224))); (mkFieldWithAttr (mkSpan (mkPtok 23 "u64" 64 4 225) (mkPtok 40 "," 65 16 231)) [] (LengthField (mkSpan (mkPtok 23 "u64" 64 4 225) (mkPtok 40 "," 65 16 231)) (mkLengthFieldDecl (mkSpan (mkPtok 23 "u64" 64 4 225) (mkPtok 40 "," 65 16 231)) (Some (TyBasic (mkSpan (mkPtok 23 "u64" 64 4 225) (mkPtok 23 "u64" 64 4 225)) (mkBasicType (mkSpan (mkPtok 23 "u64" 64 4 225) (mkPtok 23 "u64" 64 4 225)) (mkPtok 23 "u64" 64 4 225)))) (mkPtok 42 "Foo" 64 8 226) (mkLengthOf (mkSpan (mkPtok 7 "@lengthOf(" 64 11 227) (mkPtok 6 ")" 65 9 229)) (mkPtok 7 "@lengthOf(" 64 11 227) (mkPtok 42 "lengthOf" 65 0 228) (mkPtok 6 ")" 65 9 229)) (Some (mkPtok 43 "`doc`" 65 11 230)) (mkPtok 40 "," 65 16 231)))); (mkFieldWithAttr (mkSpan (mkPtok 42 "float" 65 18 232) (mkPtok 40 "," 68 4 237)) [] (ObjectField (mkSpan (mkPtok 42 "float" 65 18 232) (mkPtok 40 "," 68 4 237)) None (mkPtok 42 "float" 65 18 232) (Some (mkPtok 42 "BodyLength" 66 0 234)) (Some (mkPtok 43 "`{ , }`" 66 11 235)) (mkPtok 40 "," 68 4 237))); (mkFieldWithAttr (mkSpan (mkPtok 38 "match" 68 6 238) (mkPtok 40 "," 70 0 248)) [] (MatchField (mkSpan (mkPtok 38 "match" 68 6 238) (mkPtok 40 "," 70 0 248)) (mkMatchFieldDecl (mkSpan (mkPtok 38 "match" 68 6 238) (mkPtok 3 "}" 69 24 247)) (mkPtok 38 "match" 68 6 238) (mkPtok 42 "falsey" 68 12 239) (mkPtok 17 "as" 69 0 240) (mkPtok 42 "float" 69 3 241) (mkPtok 2 "{" 69 10 242) [(mkMatchPair (mkSpan (mkPtok 31 (string_of_bytes [34; 195; 169; 116; 195; 169; 34]%N) 69 12 243) (mkPtok 40 "," 69 22 246)) (MKString (mkPtok 31 (string_of_bytes [34; 195; 169; 116; 195; 169; 34]%N) 69 12 243)) (mkPtok 39 ":" 69 18 244) (mkPtok 42 "int" 69 19 245) (Some (mkPtok 40 "," 69 22 246)))] (mkPtok 3 "}" 69 24 247)) (mkPtok 40 "," 70 0 248)))] (mkPtok 3 "}" 70 1 249))); (DOption (mkOptionDef (mkSpan (mkPtok 1 "options" 70 3 250) (mkPtok 3 "}" 77 0 269)) (mkPtok 1 "options" 70 3 250) (mkPtok 2 "{" 70 10 251) [(mkOptionDecl (mkSpan (mkPtok 42 "x_y_z" 71 0 252) (mkPtok 30 "7" 71 8 254)) (mkPtok 42 "x_y_z" 71 0 252) (mkPtok 4 "=" 71 6 253) (VDigits (mkSpan (mkPtok 30 "7" 71 8 254) (mkPtok 30 "7" 71 8 254)) (mkPtok 30 "7" 71 8 254)) None); (mkOptionDecl (mkSpan (mkPtok 42 "BodyLength" 71 10 255) (mkPtok 29 "f64" 74 2 259)) (mkPtok 42 "BodyLength" 71 10 255) (mkPtok 4 "=" 74 0 258) (VType (mkSpan (mkPtok 29 "f64" 74 2 259) (mkPtok 29 "f64" 74 2 259)) (TyBasic (mkSpan (mkPtok 29 "f64" 74 2 259) (mkPtok 29 "f64" 74 2 259)) (mkBasicType (mkSpan (mkPtok 29 "f64" 74 2 259) (mkPtok 29 "f64" 74 2 259)) (mkPtok 29 "f64" 74 2 259)))) None); (mkOptionDecl (mkSpan (mkPtok 42 "i64_" 74 6 260) (mkPtok 23 "uint64" 74 13 262)) (mkPtok 42 "i64_" 74 6 260) (mkPtok 4 "=" 74 11 261) (VType (mkSpan (mkPtok 23 "uint64" 74 13 262) (mkPtok 23 "uint64" 74 13 262)) (TyBasic (mkSpan (mkPtok 23 "uint64" 74 13 262) (mkPtok 23 "uint64" 74 13 262)) (mkBasicType (mkSpan (mkPtok 23 "uint64" 74 13 262) (mkPtok 23 "uint64" 74 13 262)) (mkPtok 23 "uint64" 74 13 262)))) None); (mkOptionDecl (mkSpan (mkPtok 42 "lengthOf" 74 20 263) (mkPtok 41 ";" 76 0 267)) (mkPtok 42 "lengthOf" 74 20 263) (mkPtok 4 "=" 75 4 264) (VType (mkSpan (mkPtok 29 "f64" 75 6 265) (mkPtok 29 "f64" 75 6 265)) (TyBasic (mkSpan (mkPtok 29 "f64" 75 6 265) (mkPtok 29 "f64" 75 6 265)) (mkBasicType (mkSpan (mkPtok 29 "f64" 75 6 265) (mkPtok 29 "f64" 75 6 265)) (mkPtok 29 "f64" 75 6 265)))) (Some (mkPtok 41 ";" 76 0 267)))] (mkPtok 3 "}" 77 0 269))); (DMeta (mkMetaDef (mkSpan (mkPtok 37 "MetaData" 78 0 270) (mkPtok 3 "}" 80 0 276)) (mkPtok 37 "MetaData" 78 0 270) (mkPtok 42 "int" 78 9 271) (mkPtok 2 "{" 78 14 272) [(MIRef (mkRefMetaDecl (mkSpan (mkPtok 42 "_x" 79 4 273) (mkPtok 40 "," 79 13 275)) (mkPtok 42 "_x" 79 4 273) (mkPtok 42 "uint8x" 79 7 274) None (mkPtok 40 "," 79 13 275)))] (mkPtok 3 "}" 80 0 276)))])).
Eval vm_compute in ("<<<M1872>>>" ++ check (runes_of_ascii "packet Z9_  {
    string
T
    @lengthOf(string_ )
, }
//
")).
Eval vm_compute in ("<<<M1904>>>" ++ check (runes_of_ascii "options { asx
    =
f32}
packet a1
    {
    } root packet o { // packet A { u8 x, }
@lengthOf( As
    ) u8x
    `u8 x,` , }
")).
Eval vm_compute in ("<<<M1936>>>" ++ check (runes_of_ascii "// " ++ [128512]%N ++ runes_of_ascii " emoji
 // @lengthOf(")).
Eval vm_compute in ("<<<M1968>>>" ++ check (runes_of_ascii "
//	t
")).
Eval vm_compute in ("<<<M2000>>>" ++ check (runes_of_ascii "options {
	StringPrefixLenType = u16;
	ArrayPrefixLenType = u16;
}

packet SampleBinary {
    uint16 MsgType `" ++ [28040; 24687; 31867; 22411]%N ++ runes_of_ascii "`,
    u16 BodyLenght @lengthOf(Body) `" ++ [28040; 24687; 20307; 38271; 24230]%N ++ runes_of_ascii "`,
    match MsgType as Body {
        1 : Logon,
        2 : Logout,
        3 : Heartbeat,
        4 : RiskControlRequest,
        5 : RiskControlResponse,
    },
        @calculatedFrom(""CRC32"")
    u32 Ckecksum `" ++ [26657; 39564; 21644]%N ++ runes_of_ascii "`,
}

packet Logon {
     @leftPad('0')
    char[10] UserName `" ++ [29992; 25143; 21517]%N ++ runes_of_ascii "`,
    string Password `" ++ [23494; 30721]%N ++ runes_of_ascii "`,
    uint64 ClientId `" ++ [23458; 25143; 31471]%N ++ runes_of_ascii "ID`,
    u16 HeartbeatInterval `" ++ [24515; 36339; 38388; 38548]%N ++ runes_of_ascii "`,
}

packet Logout {
      @rightPad('0')
    char[10] UserName `" ++ [29992; 25143; 21517]%N ++ runes_of_ascii "`,
    uint64 ClientId `" ++ [23458; 25143; 31471]%N ++ runes_of_ascii "ID`,
}

packet Heartbeat {
}

packet RiskControlRequest {
    string UniqueOrderId `" ++ [21807; 19968; 35746; 21333; 21495]%N ++ runes_of_ascii "`,
    char[16] ClOrdID `" ++ [23458; 25143; 35746; 21333; 21495]%N ++ runes_of_ascii "`,
    char[3] MarketID `" ++ [24066; 22330]%N ++ runes_of_ascii "id`,
    char[12] SecurityID `" ++ [35777; 21048; 20195; 30721]%N ++ runes_of_ascii "`,
    char Side `" ++ [20080; 21334; 26041; 21521]%N ++ runes_of_ascii "`,
    char OrderType `" ++ [35746; 21333; 31867; 22411]%N ++ runes_of_ascii "`,
    u64 Price `" ++ [20215; 26684]%N ++ runes_of_ascii "`,
    u32 Qty `" ++ [25968; 37327]%N ++ runes_of_ascii "`,
    repeat string ExtraInfo `" ++ [38468; 21152; 20449; 24687]%N ++ runes_of_ascii "`,
    repeat SubOrder {
    		char[16] ClOrdID `" ++ [23376; 35746; 21333; 21495]%N ++ runes_of_ascii "`,
    		u64 Price `" ++ [23376; 35746; 21333; 20215; 26684]%N ++ runes_of_ascii "`,
    		u32 Qty `" ++ [23376; 35746; 21333; 25968; 37327]%N ++ runes_of_ascii "`,
    	},
}

packet RiskControlResponse {
    string UniqueOrderId `" ++ [21807; 19968; 35746; 21333; 21495]%N ++ runes_of_ascii "`,
    i32 Status `" ++ [29366; 24577]%N ++ runes_of_ascii "`,
    string Msg `" ++ [32467; 26524; 20449; 24687]%N ++ runes_of_ascii "`,
    repeat Detail,
}

packet Detail {
    string RuleName `" ++ [35268; 21017; 21517; 31216]%N ++ runes_of_ascii "`,
    u16 Code `" ++ [21407; 22240; 20195; 30721]%N ++ runes_of_ascii "`,
}")).
Eval vm_compute in ("<<<M2032>>>" ++ check (runes_of_ascii "MetaData repeatCount { float64 ;,
} root packet  metadata {
char _x @lengthOf( trueish ), @leftPad
( ' '// " ++ [27880; 37322]%N ++ runes_of_ascii "
)/// triple
char[] len`doc` , // packet A { u8 x, }
repeatCount , }
")).
Eval vm_compute in ("<<<M2064>>>" ++ check (runes_of_ascii "MetaData repeatCount { float64 packetx,
} root packet  metadata {
 _x @lengthOf( trueish ), @leftPad
( ' '// " ++ [27880; 37322]%N ++ runes_of_ascii "
)/// triple
char[] len`doc` , // packet A { u8 x, }
repeatCount , }
")).
Eval vm_compute in ("<<<M2096>>>" ++ check (runes_of_ascii "MetaData repeatCount { float64 packetx,
} root packet  metadata {
char _x @lengthOf( trueish ), (
@leftPad ' '// " ++ [27880; 37322]%N ++ runes_of_ascii "
)/// triple
char[] len`doc` , // packet A { u8 x, }
repeatCount , }
")).
Eval vm_compute in ("<<<M2128>>>" ++ check (runes_of_ascii "MetaData repeatCount { float64 packetx,
} root packet  metadata {
char _x @lengthOf( trueish ), @leftPad
( ' '// " ++ [27880; 37322]%N ++ runes_of_ascii "
)/// triple
char[] len")).
Eval vm_compute in ("<<<M2160>>>" ++ check (runes_of_ascii "MetaData repeatCount { float64 pac" ++ [8232]%N ++ runes_of_ascii "ketx,
} root packet  metadata {
char _x @lengthOf( trueish ), @leftPad
( ' '// " ++ [27880; 37322]%N ++ runes_of_ascii "
)/// triple
char[] len`doc` , // packet A { u8 x, }
repeatCount , }
")).
Eval vm_compute in ("<<<M2192>>>" ++ check (runes_of_ascii "options{
leftPad
    =;
65535
a1 = true ; packetx=  '\x00' ; packetx
=  """ ++ [28040; 24687]%N ++ runes_of_ascii """MetaDataX= // " ++ [27880; 37322]%N ++ runes_of_ascii "
false }root // c
packet // packet A { u8 x, }
Pad { repeat
u8 Header
// packet A { u8 x, }
//	t
`{ , }`
// a // b
//x
, }
")).
Eval vm_compute in ("<<<M2224>>>" ++ check (runes_of_ascii "options{
leftPad
    =65535
;
a1 = true ;")).
Eval vm_compute in ("<<<M2256>>>" ++ check (runes_of_ascii "options{
leftPad
    =65535
;
a1 = true ; packetx=  '\x00' ; packetx
=  """ ++ [28040; 24687]%N ++ runes_of_ascii """MetaDataX MetaDataX= // " ++ [27880; 37322]%N ++ runes_of_ascii "
false }root // c
packet // packet A { u8 x, }
Pad { repeat
u8 Header
// packet A { u8 x, }
//	t
`{ , }`
// a // b
//x
, }
")).
Eval vm_compute in ("<<<M2288>>>" ++ check (runes_of_ascii "options{
leftPad
    =65535
;
a1 = true ; packetx=  '\x00' ; packetx
=  """ ++ [28040; 24687]%N ++ runes_of_ascii """MetaDataX= // " ++ [27880; 37322]%N ++ runes_of_ascii "
false }root // c
packet // packet A { u8 x, }
'0' { repeat
u8 Header
// packet A { u8 x, }
//	t
`{ , }`
// a // b
//x
, }
")).
Eval vm_compute in ("<<<M2320>>>" ++ check (runes_of_ascii "options{
leftPad
    =65535
;
a1 = true ; packetx=  '\x00' ; packetx
=  """ ++ [28040; 24687]%N ++ runes_of_ascii """MetaDataX= // " ++ [27880; 37322]%N ++ runes_of_ascii "
false }root // c
packet // packet A { u8 x, }
Pad { repeat
u8 Header
// packet A { u8 x, }
//	t
`{ , }`
// a // b
//x
, 
")).
Eval vm_compute in ("<<<M2352>>>" ++ check (runes_of_ascii "
packet float float
{	@calculatedFrom( """ ++ [233]%N ++ runes_of_ascii "t" ++ [233]%N ++ runes_of_ascii """ )
@rightPad ( '\x00' )
    @calculatedFrom( ""x y"" ) string chars  ,
    // a // b
    char[0 ]
    u	@lengthOf( i8i8 ) `{ , }` ,repeat char[] o //x
`// not a comment`, } // c")).
Eval vm_compute in ("<<<M2384>>>" ++ check (runes_of_ascii "
packet float
{	@calculatedFrom( """ ++ [233]%N ++ runes_of_ascii "t" ++ [233]%N ++ runes_of_ascii """ )
@rightPad @calculatedFrom( '\x00' )
    @calculatedFrom( ""x y"" ) string chars  ,
    // a // b
    char[0 ]
    u	@lengthOf( i8i8 ) `{ , }` ,repeat char[] o //x
`// not a comment`, } // c")).
Eval vm_compute in ("<<<M2416>>>" ++ check (runes_of_ascii "
packet float
{	@calculatedFrom( """ ++ [233]%N ++ runes_of_ascii "t" ++ [233]%N ++ runes_of_ascii """ )
@rightPad ( '\x00' )
    @calculatedFrom( ""x y"" ) string   ,
    // a // b
    char[0 ]
    u	@lengthOf( i8i8 ) `{ , }` ,repeat char[] o //x
`// not a comment`, } // c")).
Eval vm_compute in ("<<<M2448>>>" ++ check (runes_of_ascii "
packet float
{	@calculatedFrom( """ ++ [233]%N ++ runes_of_ascii "t" ++ [233]%N ++ runes_of_ascii """ )
@rightPad ( '\x00' )
    @calculatedFrom( ""x y"" ) string chars  ,
    // a // b
    char[0 ]
    u	i8i8 @lengthOf( ) `{ , }` ,repeat char[] o //x
`// not a comment`, } // c")).
Eval vm_compute in ("<<<M2480>>>" ++ check (runes_of_ascii "
packet float
{	@calculatedFrom( """ ++ [233]%N ++ runes_of_ascii "t" ++ [233]%N ++ runes_of_ascii """ )
@rightPad ( '\x00' )
    @calculatedFrom( ""x y"" ) string chars  ,
    // a // b
    char[0 ]
    u	@lengthOf( i8i8 ) `{ , }` ,repeat")).
Eval vm_compute in ("<<<M2512>>>" ++ check (runes_of_ascii "
packet float
{	@calculatedFrom( """ ++ [233]%N ++ runes_of_ascii "t" ++ [233]%N ++ runes_of_ascii """ )
@rightPad ( '\x00' )
    @calculatedFrom(@leftpad ""x y"" ) string chars  ,
    // a // b
    char[0 ]
    u	@lengthOf( i8i8 ) `{ , }` ,repeat char[] o //x
`// not a comment`, } // c")).
Eval vm_compute in ("<<<M2544>>>" ++ check (runes_of_ascii "root packet u128{
    zchar[
    repeat 65535 ] u `" ++ [28040; 24687; 31867; 22411]%N ++ runes_of_ascii "` ,// `tick` ""quote"" 'q'
} packet i64_ {repeatCount
    `
` ,	} // " ++ [128512]%N ++ runes_of_ascii " emoji")).
Eval vm_compute in ("<<<M2576>>>" ++ check (runes_of_ascii "root packet u128{
    repeat
    zchar[ 65535 ] u `" ++ [28040; 24687; 31867; 22411]%N ++ runes_of_ascii "`")).
Eval vm_compute in ("<<<M2608>>>" ++ check (runes_of_ascii "root packet u128{
    repeat
    zchar[ 65535 ] u `" ++ [28040; 24687; 31867; 22411]%N ++ runes_of_ascii "` ,// `tick` ""quote"" 'q'
} packet i64_ {repeatCount
    `
` , ,	} // " ++ [128512]%N ++ runes_of_ascii " emoji")).
Eval vm_compute in ("<<<M2640>>>" ++ check (runes_of_ascii "
roots
MetaData { int8
    BodyLength ,//	t
}
")).
Eval vm_compute in ("<<<M2672>>>" ++ check (runes_of_ascii "
MetaData
roots { int8
    ")).
Eval vm_compute in ("<<<M2704>>>" ++ check (runes_of_ascii "options { = ""CRC32""i8i8 = false; leftPad =
    '\x00'
    // `tick` ""quote"" 'q'
    ; o=255  ;
    // packet A { u8 x, }
    }")).
Eval vm_compute in ("<<<M2736>>>" ++ check (runes_of_ascii "options {Packet = ""CRC32""i8i8 = false leftPad ; =
    '\x00'
    // `tick` ""quote"" 'q'
    ; o=255  ;
    // packet A { u8 x, }
    }")).
Eval vm_compute in ("<<<M2768>>>" ++ check (runes_of_ascii "options {Packet = ""CRC32""i8i8 = false; leftPad =
    '\x00'
    // `tick` ""quote"" 'q'
    ; o")).
Eval vm_compute in ("<<<M2800>>>" ++ check (runes_of_ascii "options {Packet = ""CRC32""i8i8 = false; leftPad =
    '\x00'
    // `tick` ""quote"" 'q'
    ; o=255  ;
    // packet A { u8 x, }
    \}")).
Eval vm_compute in ("<<<M2832>>>" ++ check (runes_of_ascii "
packet metadata { @rightPad (
    // packet A { u8 x, }
    ) ' ' repeat u32	A
,matchKey ,
    @lengthOf( string_ ) @lengthOf( body )
    // a // b
    @lengthOf(float  )	repeat
int32 u8x
    // c
    `tab	here`
, } // a // b")).
Eval vm_compute in ("<<<M2864>>>" ++ check (runes_of_ascii "
packet metadata { @rightPad (
    // packet A { u8 x, }
    ' ' ) repeat u32	A
,")).
Eval vm_compute in ("<<<M2896>>>" ++ check (runes_of_ascii "
packet metadata { @rightPad (
    // packet A { u8 x, }
    ' ' ) repeat u32	A
,matchKey ,
    @lengthOf( string_ ) @lengthOf( body ) )
    // a // b
    @lengthOf(float  )	repeat
int32 u8x
    // c
    `tab	here`
, } // a // b")).
Eval vm_compute in ("<<<M2928>>>" ++ check (runes_of_ascii "
packet metadata { @rightPad (
    // packet A { u8 x, }
    ' ' ) repeat u32	A
,matchKey ,
    @lengthOf( string_ ) @lengthOf( body )
    // a // b
    @lengthOf(float  )	repeat
int32 true
    // c
    `tab	here`
, } // a // b")).
Eval vm_compute in ("<<<M2960>>>" ++ check (runes_of_ascii "
packet metadata { @rightPad (
    // packet A { u8 x, }
    ' ' ) repeat u32	A
,matchKey ,
    @lengthOf( s" ++ [8232]%N ++ runes_of_ascii "tring_ ) @lengthOf( body )
    // a // b
    @lengthOf(float  )	repeat
int32 u8x
    // c
    `tab	here`
, } // a // b")).
Eval vm_compute in ("<<<M2992>>>" ++ check (runes_of_ascii "packet x{
string
zchar , , //	t
}
")).
Eval vm_compute in ("<<<M3024>>>" ++ check (runes_of_ascii "
Logon MetaData
{ // c
}root packet
    Pad {
    } options
{
u
    =
    ""CRC32""
    // " ++ [128512]%N ++ runes_of_ascii " emoji
    i64_ = u16;
T =65535 x = ' '
    ; u128
= true ; }")).
Eval vm_compute in ("<<<M3056>>>" ++ check (runes_of_ascii "
MetaData Logon
{ // c
}root packet")).
Eval vm_compute in ("<<<M3088>>>" ++ check (runes_of_ascii "
MetaData Logon
{ // c
}root packet
    Pad {
    } options
{
u
    =
    ""CRC32"" ""CRC32""
    // " ++ [128512]%N ++ runes_of_ascii " emoji
    i64_ = u16;
T =65535 x = ' '
    ; u128
= true ; }")).
Eval vm_compute in ("<<<M3120>>>" ++ check (runes_of_ascii "
MetaData Logon
{ // c
}root packet
    Pad {
    } options
{
u
    =
    ""CRC32""
    // " ++ [128512]%N ++ runes_of_ascii " emoji
    i64_ = u16;
T string 65535 x = ' '
    ; u128
= true ; }")).
Eval vm_compute in ("<<<M3152>>>" ++ check (runes_of_ascii "
MetaData Logon
{ // c
}root packet
    Pad {
    } options
{
u
    =
    ""CRC32""
    // " ++ [128512]%N ++ runes_of_ascii " emoji
    i64_ = u16;
T =65535 x = ' '
    ; u128
 true ; }")).
Eval vm_compute in ("<<<M3184>>>" ++ check (runes_of_ascii "
MetaData Logon
{ // c
}root packet
    Pad {
    } options
{
u
    @x =
    ""CRC32""
    // " ++ [128512]%N ++ runes_of_ascii " emoji
    i64_ = u16;
T =65535 x = ' '
    ; u128
= true ; }")).
Eval vm_compute in ("<<<M3216>>>" ++ check (runes_of_ascii "MetaData body{}
u8	Packet { x_y_z @calculatedFrom(  ""a\\"")// `tick` ""quote"" 'q'
, }
")).
Eval vm_compute in ("<<<M3248>>>" ++ check (runes_of_ascii "MetaData body{}
packet	Packet { x_y_z @calculatedFrom(  ""a\\"")// `tick` ""quote"" 'q'
 }
")).
Eval vm_compute in ("<<<M3280>>>" ++ check (runes_of_ascii "packet packet f32a {} root packet len {repeat u // " ++ [128512]%N ++ runes_of_ascii " emoji
`{ , }` , }
")).
Eval vm_compute in ("<<<M3312>>>" ++ check (runes_of_ascii "packet f32a {} root packet as {repeat u // " ++ [128512]%N ++ runes_of_ascii " emoji
`{ , }` , }
")).
Eval vm_compute in ("<<<M3344>>>" ++ check (runes_of_ascii "packet f32a {} root packet len {repeat u // ")).
Eval vm_compute in ("<<<M3376>>>" ++ check (runes_of_ascii "options{ _x=""\" ++ [233]%N ++ runes_of_ascii """;
    Logon = 10	; Foo= 7;
i64_= char[]} options {
matchKey = ""// no comment"" // a // b
falsey = string
; trueish =
    4294967296
options1=
    ""it's"" string_	= true } options {
    /// triple
    } }")).
Eval vm_compute in ("<<<M3408>>>" ++ check (runes_of_ascii "options{ _x=""\" ++ [233]%N ++ runes_of_ascii """;
    Logon 10 =	; Foo= 7;
i64_= char[]} options {
matchKey = ""// no comment"" // a // b
falsey = string
; trueish =
    4294967296
options1=
    ""it's"" string_	= true } options {
    /// triple
    }")).
Eval vm_compute in ("<<<M3440>>>" ++ check (runes_of_ascii "options{ _x=""\" ++ [233]%N ++ runes_of_ascii """; ;
    Logon = 10	; Foo= 7;
i64_= char[]} options {
matchKey = ""// no comment"" // a // b
falsey = string
; trueish =
    4294967296
options1=
    ""it's"" string_	= true } options {
    /// triple
    }")).
Eval vm_compute in ("<<<M3472>>>" ++ check (runes_of_ascii "options{ _x=""\" ++ [233]%N ++ runes_of_ascii """;
    Logon = 10	; char= 7;
i64_= char[]} options {
matchKey = ""// no comment"" // a // b
falsey = string
; trueish =
    4294967296
options1=
    ""it's"" string_	= true } options {
    /// triple
    }")).
Eval vm_compute in ("<<<M3504>>>" ++ check (runes_of_ascii "uint8")).
Eval vm_compute in ("<<<M3536>>>" ++ check (runes_of_ascii "ROOT")).
Eval vm_compute in ("<<<M3568>>>" ++ check (runes_of_ascii "//")).
Eval vm_compute in ("<<<M3600>>>" ++ check (runes_of_ascii "a_b")).
Eval vm_compute in ("<<<M3632>>>" ++ check (runes_of_ascii "packet A { repeat repeat u8 x, }")).
Eval vm_compute in ("<<<M3664>>>" ++ check (runes_of_ascii "packet A { B { u8 x, }, }")).
Eval vm_compute in ("<<<M3696>>>" ++ check (runes_of_ascii "packet A { } }")).
Eval vm_compute in ("<<<M3728>>>" ++ check (runes_of_ascii "options { a = b; }")).
Eval vm_compute in ("<<<M3760>>>" ++ check (runes_of_ascii "


")).
Eval vm_compute in ("<<<M3792>>>" ++ check ([65533; 65533]%N ++ runes_of_ascii "=" ++ [65533; 65533; 65533]%N ++ runes_of_ascii ">7" ++ [65533]%N ++ runes_of_ascii "%g" ++ [65533; 65533]%N ++ runes_of_ascii "2" ++ [65533; 65533]%N ++ runes_of_ascii "x" ++ [65533; 809; 1269; 65533; 65533; 65533; 65533]%N ++ runes_of_ascii "P" ++ [65533]%N ++ runes_of_ascii ",Y" ++ [65533; 1514; 30; 18]%N ++ runes_of_ascii "-")).
Eval vm_compute in ("<<<M3824>>>" ++ check ([65533]%N ++ runes_of_ascii "^" ++ [65533]%N ++ runes_of_ascii "
" ++ [65533; 65533; 1851]%N ++ runes_of_ascii "I" ++ [65533]%N ++ runes_of_ascii "R5-`" ++ [15]%N ++ runes_of_ascii "pZQ" ++ [65533]%N ++ runes_of_ascii "
")).
Eval vm_compute in ("<<<M3856>>>" ++ check (runes_of_ascii "U" ++ [65533; 65533; 65533]%N ++ runes_of_ascii "<" ++ [65533; 65533; 65533; 65533; 65533; 0; 2032; 65533; 65533]%N ++ runes_of_ascii "-" ++ [65533]%N ++ runes_of_ascii "S" ++ [65533; 7; 65533; 7; 65533]%N ++ runes_of_ascii ";l")).
Eval vm_compute in ("<<<M3888>>>" ++ check (runes_of_ascii "R" ++ [65533]%N ++ runes_of_ascii "Tg" ++ [65533; 65533]%N ++ runes_of_ascii ".w" ++ [65533]%N ++ runes_of_ascii "U	" ++ [31]%N ++ runes_of_ascii "." ++ [949; 65533; 642]%N ++ runes_of_ascii "'" ++ [65533; 65533; 65533]%N ++ runes_of_ascii "X" ++ [15]%N ++ runes_of_ascii "|x" ++ [12; 65533; 65533]%N ++ runes_of_ascii "Y" ++ [65533; 65533; 65533; 1186; 65533; 65533]%N)).
Eval vm_compute in ("<<<M3920>>>" ++ check ([1924; 65533; 65533; 18; 65533]%N ++ runes_of_ascii "}" ++ [65533]%N ++ runes_of_ascii "V" ++ [65533; 14; 12]%N)).
Eval vm_compute in ("<<<M3952>>>" ++ check ([65533]%N ++ runes_of_ascii "Mg" ++ [25; 2]%N ++ runes_of_ascii "#" ++ [65533]%N ++ runes_of_ascii "O" ++ [65533; 65533]%N ++ runes_of_ascii "/!" ++ [65533; 65533; 65533]%N ++ runes_of_ascii "e" ++ [65533]%N ++ runes_of_ascii "4" ++ [65533; 586]%N ++ runes_of_ascii "J" ++ [5]%N ++ runes_of_ascii "|" ++ [65533; 65533; 6; 14; 65533; 65533; 65533; 26]%N ++ runes_of_ascii "v!")).
Eval vm_compute in ("<<<M3984>>>" ++ check ([16; 65533; 65533]%N ++ runes_of_ascii "8^" ++ [65533; 65533; 65533; 65533; 65533]%N ++ runes_of_ascii "@" ++ [12; 65533]%N ++ runes_of_ascii "&" ++ [65533; 65533; 65533; 65533; 65533]%N ++ runes_of_ascii "F" ++ [65533]%N ++ runes_of_ascii "Nc" ++ [65533; 7; 65533; 23; 65533]%N ++ runes_of_ascii "@")).
