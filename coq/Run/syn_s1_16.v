From FP Require Import Lexer Parser ShowPT Digest.
From Coq Require Import String List NArith.
Import ListNotations.
Open Scope string_scope.
Set Printing Width 100000000.
Set Printing Depth 100000000.
Definition nl : string := String (Ascii.ascii_of_nat 10) EmptyString.
Definition model_lex (rs : list rune) : string := show_toks (lex rs).
Definition model_parse (rs : list rune) : string :=
  show_pt (match lex rs with Some ts => parse ts | None => None end).
(* coqc is slow at printing long strings: digests first (Digest.v), full texts on demand *)
Definition check (rs : list rune) : string :=
  digest (model_lex rs) ++ " " ++ digest (model_parse rs).
Definition full (rs : list rune) : string := model_lex rs ++ nl ++ model_parse rs.
Definition terms (ts : list tok) (t : pt) : string :=
  digest (show_toks (Some ts)) ++ " " ++ digest (show_pt (Some t)) ++ " " ++ digest (show_pt (parse ts)).
Definition terms_full (ts : list tok) (t : pt) : string :=
  show_toks (Some ts) ++ nl ++ show_pt (Some t) ++ nl ++ show_pt (parse ts).
Eval vm_compute in ("<<<M16>>>" ++ check (runes_of_ascii "
")).
Eval vm_compute in ("<<<M48>>>" ++ check (runes_of_ascii "
")).
Eval vm_compute in ("<<<T48>>>" ++ terms [mkTok 0 "<EOF>" 2 0 false] (mkPacket (mkPtok 0 "<EOF>" 2 0 0) None [])).
Eval vm_compute in ("<<<M80>>>" ++ check (runes_of_ascii "packet stringy
{  @calculatedFrom(""a	b""
)uint8x,}
// @lengthOf(
// @lengthOf(
root packet  i8i8
{ @lengthOf( options1
) @tag( 0 )
    repeat
metadata _x `" ++ [233]%N ++ runes_of_ascii "`	, repeat
i8i8`
` // a // b
,
repeat  char[ //x
3 ]o , // " ++ [128512]%N ++ runes_of_ascii " emoji
@calculatedFrom(""a	b""
) repeat
    u16 x `doc`
,string_
`tab	here`  , @calculatedFrom(
    """ ++ [233]%N ++ runes_of_ascii "t" ++ [233]%N ++ runes_of_ascii """)@tag(	4294967296)
repeat Logon stringy , } root
    packet
    tag { }")).
Eval vm_compute in ("<<<M112>>>" ++ check (runes_of_ascii "packet  o {  } // " ++ [128512]%N ++ runes_of_ascii " emoji")).
Eval vm_compute in ("<<<M144>>>" ++ check (runes_of_ascii "options
{ MetaDataX=""\n""
    /// triple
    stringy = 4294967296 ; Packet=
    false	; As = ""a\\"" /// triple
; stringy = ' ';} options {
}
    MetaData roots {
stringy MetaDataX
    , }")).
Eval vm_compute in ("<<<M176>>>" ++ check (runes_of_ascii "packet
body { // @lengthOf(
}")).
Eval vm_compute in ("<<<M208>>>" ++ check (runes_of_ascii "packet _x{
    u ,@lengthOf( len)
    match f32a as
    Pad{""packet"": metadata,
""CRC32"":x_y_z[ ""abc"" , ""{,}"" ] : Logon , }
    // c
    , zchar[ 7  ]	a1  ,
    @tag( 65535 ) @tag(
0123456789
    )
    //x
    @lengthOf(
asx ) repeat
i16 // @lengthOf(
tag `{ , }` // `tick` ""quote"" 'q'
,
    @leftPad	(
'\x00' ) match i64_ as x { 0 :crc , [
//	t
// trailing space 
""// no comment"" ] : uint8x ,
    42
// a // b
// trailing space 
:  string_	, 007 : trueish , [10 ]// " ++ [128512]%N ++ runes_of_ascii " emoji
: rootA
""" ++ [28040; 24687]%N ++ runes_of_ascii """
    : // trailing space 
len , } //
, @rightPad (
'\x00' // trailing space 
) @tag(
    //
    00 ) @calculatedFrom( """ ++ [233]%N ++ runes_of_ascii "t" ++ [233]%N ++ runes_of_ascii """ ) // c
char[]float
@calculatedFrom(	""\n"" ),repeat f32 trueish `crlf
line` ,} // @lengthOf(")).
Eval vm_compute in ("<<<M240>>>" ++ check (runes_of_ascii "MetaData/// triple
float {	f64
    // trailing space 
    u8x
`
` ,	}")).
Eval vm_compute in ("<<<M272>>>" ++ check (runes_of_ascii "root packet pack { match MetaDataX as Packet { 7: trueish , /// triple
""" ++ [233]%N ++ runes_of_ascii "t" ++ [233]%N ++ runes_of_ascii """: MetaDataX
,4294967296
:msg_type  65535 : metadata ,3: x_y_z 42 :
//
/// triple
_x// trailing space 
,}	, } packet x_y_z
    {repeat crc	metadata,match A as u8x  { [""it's"" ,""\" ++ [233]%N ++ runes_of_ascii """ ,
0123456789  , ""1"" ,""abc""
,""// no comment"", 4294967296 ]
: pack ,007 : tag , } , } packet
// c
//x
repeatCount  { @lengthOf(stringy )
uint8 f32a , }options
{
BodyLength
    =  '\x00' ; body
    = ' ' ; } packet
    charz { repeat Z9_ rootA `two words` , //
@calculatedFrom( ""a\\""  ) f32a @lengthOf( msg_type
    )	`say ""hi""` ,int8 As , string	stringy
@lengthOf(options1 )
`crlf
line`,	i8 i8i8
, f32a options1,
@leftPad(
    '\x00' )
u
    @calculatedFrom( """ ++ [128512]%N ++ runes_of_ascii """
) ,
@calculatedFrom(
""\" ++ [233]%N ++ runes_of_ascii """ ) @tag(  00 ) @tag(
0)
int64 trueish@calculatedFrom(""`tick`"" // trailing space 
)
, @leftPad (
' ' )
    zchar@lengthOf( Z9_ )
,} // " ++ [27880; 37322]%N)).
Eval vm_compute in ("<<<T272>>>" ++ terms [mkTok 34 "root" 1 0 false; mkTok 35 "packet" 1 5 false; mkTok 42 "pack" 1 12 false; mkTok 2 "{" 1 17 false; mkTok 38 "match" 1 19 false; mkTok 42 "MetaDataX" 1 25 false; mkTok 17 "as" 1 35 false; mkTok 42 "Packet" 1 38 false; mkTok 2 "{" 1 45 false; mkTok 30 "7" 1 47 false; mkTok 39 ":" 1 48 false; mkTok 42 "trueish" 1 50 false; mkTok 40 "," 1 58 false; mkTok 44 "/// triple" 1 60 true; mkTok 31 (string_of_bytes [34; 195; 169; 116; 195; 169; 34]%N) 2 0 false; mkTok 39 ":" 2 5 false; mkTok 42 "MetaDataX" 2 7 false; mkTok 40 "," 3 0 false; mkTok 30 "4294967296" 3 1 false; mkTok 39 ":" 4 0 false; mkTok 42 "msg_type" 4 1 false; mkTok 30 "65535" 4 11 false; mkTok 39 ":" 4 17 false; mkTok 42 "metadata" 4 19 false; mkTok 40 "," 4 28 false; mkTok 30 "3" 4 29 false; mkTok 39 ":" 4 30 false; mkTok 42 "x_y_z" 4 32 false; mkTok 30 "42" 4 38 false; mkTok 39 ":" 4 41 false; mkTok 44 "//" 5 0 true; mkTok 44 "/// triple" 6 0 true; mkTok 42 "_x" 7 0 false; mkTok 44 "// trailing space " 7 2 true; mkTok 40 "," 8 0 false; mkTok 3 "}" 8 1 false; mkTok 40 "," 8 3 false; mkTok 3 "}" 8 5 false; mkTok 35 "packet" 8 7 false; mkTok 42 "x_y_z" 8 14 false; mkTok 2 "{" 9 4 false; mkTok 36 "repeat" 9 5 false; mkTok 42 "crc" 9 12 false; mkTok 42 "metadata" 9 16 false; mkTok 40 "," 9 24 false; mkTok 38 "match" 9 25 false; mkTok 42 "A" 9 31 false; mkTok 17 "as" 9 33 false; mkTok 42 "u8x" 9 36 false; mkTok 2 "{" 9 41 false; mkTok 18 "[" 9 43 false; mkTok 31 """it's""" 9 44 false; mkTok 40 "," 9 51 false; mkTok 31 (string_of_bytes [34; 92; 195; 169; 34]%N) 9 52 false; mkTok 40 "," 9 57 false; mkTok 30 "0123456789" 10 0 false; mkTok 40 "," 10 12 false; mkTok 31 """1""" 10 14 false; mkTok 40 "," 10 18 false; mkTok 31 """abc""" 10 19 false; mkTok 40 "," 11 0 false; mkTok 31 """// no comment""" 11 1 false; mkTok 40 "," 11 16 false; mkTok 30 "4294967296" 11 18 false; mkTok 13 "]" 11 29 false; mkTok 39 ":" 12 0 false; mkTok 42 "pack" 12 2 false; mkTok 40 "," 12 7 false; mkTok 30 "007" 12 8 false; mkTok 39 ":" 12 12 false; mkTok 42 "tag" 12 14 false; mkTok 40 "," 12 18 false; mkTok 3 "}" 12 20 false; mkTok 40 "," 12 22 false; mkTok 3 "}" 12 24 false; mkTok 35 "packet" 12 26 false; mkTok 44 "// c" 13 0 true; mkTok 44 "//x" 14 0 true; mkTok 42 "repeatCount" 15 0 false; mkTok 2 "{" 15 13 false; mkTok 7 "@lengthOf(" 15 15 false; mkTok 42 "stringy" 15 25 false; mkTok 6 ")" 15 33 false; mkTok 20 "uint8" 16 0 false; mkTok 42 "f32a" 16 6 false; mkTok 40 "," 16 11 false; mkTok 3 "}" 16 13 false; mkTok 1 "options" 16 14 false; mkTok 2 "{" 17 0 false; mkTok 42 "BodyLength" 18 0 false; mkTok 4 "=" 19 4 false; mkTok 33 "'\x00'" 19 7 false; mkTok 41 ";" 19 14 false; mkTok 42 "body" 19 16 false; mkTok 4 "=" 20 4 false; mkTok 33 "' '" 20 6 false; mkTok 41 ";" 20 10 false; mkTok 3 "}" 20 12 false; mkTok 35 "packet" 20 14 false; mkTok 42 "charz" 21 4 false; mkTok 2 "{" 21 10 false; mkTok 36 "repeat" 21 12 false; mkTok 42 "Z9_" 21 19 false; mkTok 42 "rootA" 21 23 false; mkTok 43 "`two words`" 21 29 false; mkTok 40 "," 21 41 false; mkTok 44 "//" 21 43 true; mkTok 5 "@calculatedFrom(" 22 0 false; mkTok 31 """a\\""" 22 17 false; mkTok 6 ")" 22 24 false; mkTok 42 "f32a" 22 26 false; mkTok 7 "@lengthOf(" 22 31 false; mkTok 42 "msg_type" 22 42 false; mkTok 6 ")" 23 4 false; mkTok 43 "`say ""hi""`" 23 6 false; mkTok 40 "," 23 17 false; mkTok 24 "int8" 23 18 false; mkTok 42 "As" 23 23 false; mkTok 40 "," 23 26 false; mkTok 15 "string" 23 28 false; mkTok 42 "stringy" 23 35 false; mkTok 7 "@lengthOf(" 24 0 false; mkTok 42 "options1" 24 10 false; mkTok 6 ")" 24 19 false; mkTok 43 (string_of_bytes [96; 99; 114; 108; 102; 13; 10; 108; 105; 110; 101; 96]%N) 25 0 false; mkTok 40 "," 26 5 false; mkTok 24 "i8" 26 7 false; mkTok 42 "i8i8" 26 10 false; mkTok 40 "," 27 0 false; mkTok 42 "f32a" 27 2 false; mkTok 42 "options1" 27 7 false; mkTok 40 "," 27 15 false; mkTok 32 "@leftPad" 28 0 false; mkTok 8 "(" 28 8 false; mkTok 33 "'\x00'" 29 4 false; mkTok 6 ")" 29 11 false; mkTok 42 "u" 30 0 false; mkTok 5 "@calculatedFrom(" 31 4 false; mkTok 31 (string_of_bytes [34; 240; 159; 152; 128; 34]%N) 31 21 false; mkTok 6 ")" 32 0 false; mkTok 40 "," 32 2 false; mkTok 5 "@calculatedFrom(" 33 0 false; mkTok 31 (string_of_bytes [34; 92; 195; 169; 34]%N) 34 0 false; mkTok 6 ")" 34 5 false; mkTok 9 "@tag(" 34 7 false; mkTok 30 "00" 34 14 false; mkTok 6 ")" 34 17 false; mkTok 9 "@tag(" 34 19 false; mkTok 30 "0" 35 0 false; mkTok 6 ")" 35 1 false; mkTok 27 "int64" 36 0 false; mkTok 42 "trueish" 36 6 false; mkTok 5 "@calculatedFrom(" 36 13 false; mkTok 31 """`tick`""" 36 29 false; mkTok 44 "// trailing space " 36 38 true; mkTok 6 ")" 37 0 false; mkTok 40 "," 38 0 false; mkTok 32 "@leftPad" 38 2 false; mkTok 8 "(" 38 11 false; mkTok 33 "' '" 39 0 false; mkTok 6 ")" 39 4 false; mkTok 42 "zchar" 40 4 false; mkTok 7 "@lengthOf(" 40 9 false; mkTok 42 "Z9_" 40 20 false; mkTok 6 ")" 40 24 false; mkTok 40 "," 41 0 false; mkTok 3 "}" 41 1 false; mkTok 44 (string_of_bytes [47; 47; 32; 230; 179; 168; 233; 135; 138]%N) 41 3 true; mkTok 0 "<EOF>" 41 8 false] (mkPacket (mkPtok 34 "root" 1 0 0) (Some (mkPtok 3 "}" 41 1 166)) [(DPacket (mkPacketDef (mkSpan (mkPtok 34 "root" 1 0 0) (mkPtok 3 "}" 8 5 37)) (Some (mkPtok 34 "root" 1 0 0)) (mkPtok 35 "packet" 1 5 1) (mkPtok 42 "pack" 1 12 2) (mkPtok 2 "{" 1 17 3) [(mkFieldWithAttr (mkSpan (mkPtok 38 "match" 1 19 4) (mkPtok 40 "," 8 3 36)) [] (MatchField (mkSpan (mkPtok 38 "match" 1 19 4) (mkPtok 40 "," 8 3 36)) (mkMatchFieldDecl (mkSpan (mkPtok 38 "match" 1 19 4) (mkPtok 3 "}" 8 1 35)) (mkPtok 38 "match" 1 19 4) (mkPtok 42 "MetaDataX" 1 25 5) (mkPtok 17 "as" 1 35 6) (mkPtok 42 "Packet" 1 38 7) (mkPtok 2 "{" 1 45 8) [(mkMatchPair (mkSpan (mkPtok 30 "7" 1 47 9) (mkPtok 40 "," 1 58 12)) (MKDigits (mkPtok 30 "7" 1 47 9)) (mkPtok 39 ":" 1 48 10) (mkPtok 42 "trueish" 1 50 11) (Some (mkPtok 40 "," 1 58 12))); (mkMatchPair (mkSpan (mkPtok 31 (string_of_bytes [34; 195; 169; 116; 195; 169; 34]%N) 2 0 14) (mkPtok 40 "," 3 0 17)) (MKString (mkPtok 31 (string_of_bytes [34; 195; 169; 116; 195; 169; 34]%N) 2 0 14)) (mkPtok 39 ":" 2 5 15) (mkPtok 42 "MetaDataX" 2 7 16) (Some (mkPtok 40 "," 3 0 17))); (mkMatchPair (mkSpan (mkPtok 30 "4294967296" 3 1 18) (mkPtok 42 "msg_type" 4 1 20)) (MKDigits (mkPtok 30 "4294967296" 3 1 18)) (mkPtok 39 ":" 4 0 19) (mkPtok 42 "msg_type" 4 1 20) None); (mkMatchPair (mkSpan (mkPtok 30 "65535" 4 11 21) (mkPtok 40 "," 4 28 24)) (MKDigits (mkPtok 30 "65535" 4 11 21)) (mkPtok 39 ":" 4 17 22) (mkPtok 42 "metadata" 4 19 23) (Some (mkPtok 40 "," 4 28 24))); (mkMatchPair (mkSpan (mkPtok 30 "3" 4 29 25) (mkPtok 42 "x_y_z" 4 32 27)) (MKDigits (mkPtok 30 "3" 4 29 25)) (mkPtok 39 ":" 4 30 26) (mkPtok 42 "x_y_z" 4 32 27) None); (mkMatchPair (mkSpan (mkPtok 30 "42" 4 38 28) (mkPtok 40 "," 8 0 34)) (MKDigits (mkPtok 30 "42" 4 38 28)) (mkPtok 39 ":" 4 41 29) (mkPtok 42 "_x" 7 0 32) (Some (mkPtok 40 "," 8 0 34)))] (mkPtok 3 "}" 8 1 35)) (mkPtok 40 "," 8 3 36)))] (mkPtok 3 "}" 8 5 37))); (DPacket (mkPacketDef (mkSpan (mkPtok 35 "packet" 8 7 38) (mkPtok 3 "}" 12 24 74)) None (mkPtok 35 "packet" 8 7 38) (mkPtok 42 "x_y_z" 8 14 39) (mkPtok 2 "{" 9 4 40) [(mkFieldWithAttr (mkSpan (mkPtok 36 "repeat" 9 5 41) (mkPtok 40 "," 9 24 44)) [] (ObjectField (mkSpan (mkPtok 36 "repeat" 9 5 41) (mkPtok 40 "," 9 24 44)) (Some (mkPtok 36 "repeat" 9 5 41)) (mkPtok 42 "crc" 9 12 42) (Some (mkPtok 42 "metadata" 9 16 43)) None (mkPtok 40 "," 9 24 44))); (mkFieldWithAttr (mkSpan (mkPtok 38 "match" 9 25 45) (mkPtok 40 "," 12 22 73)) [] (MatchField (mkSpan (mkPtok 38 "match" 9 25 45) (mkPtok 40 "," 12 22 73)) (mkMatchFieldDecl (mkSpan (mkPtok 38 "match" 9 25 45) (mkPtok 3 "}" 12 20 72)) (mkPtok 38 "match" 9 25 45) (mkPtok 42 "A" 9 31 46) (mkPtok 17 "as" 9 33 47) (mkPtok 42 "u8x" 9 36 48) (mkPtok 2 "{" 9 41 49) [(mkMatchPair (mkSpan (mkPtok 18 "[" 9 43 50) (mkPtok 40 "," 12 7 67)) (MKList (mkKeyList (mkSpan (mkPtok 18 "[" 9 43 50) (mkPtok 13 "]" 11 29 64)) (mkPtok 18 "[" 9 43 50) (mkPtok 31 """it's""" 9 44 51) [((mkPtok 40 "," 9 51 52), (mkPtok 31 (string_of_bytes [34; 92; 195; 169; 34]%N) 9 52 53)); ((mkPtok 40 "," 9 57 54), (mkPtok 30 "0123456789" 10 0 55)); ((mkPtok 40 "," 10 12 56), (mkPtok 31 """1""" 10 14 57)); ((mkPtok 40 "," 10 18 58), (mkPtok 31 """abc""" 10 19 59)); ((mkPtok 40 "," 11 0 60), (mkPtok 31 """// no comment""" 11 1 61)); ((mkPtok 40 "," 11 16 62), (mkPtok 30 "4294967296" 11 18 63))] (mkPtok 13 "]" 11 29 64))) (mkPtok 39 ":" 12 0 65) (mkPtok 42 "pack" 12 2 66) (Some (mkPtok 40 "," 12 7 67))); (mkMatchPair (mkSpan (mkPtok 30 "007" 12 8 68) (mkPtok 40 "," 12 18 71)) (MKDigits (mkPtok 30 "007" 12 8 68)) (mkPtok 39 ":" 12 12 69) (mkPtok 42 "tag" 12 14 70) (Some (mkPtok 40 "," 12 18 71)))] (mkPtok 3 "}" 12 20 72)) (mkPtok 40 "," 12 22 73)))] (mkPtok 3 "}" 12 24 74))); (DPacket (mkPacketDef (mkSpan (mkPtok 35 "packet" 12 26 75) (mkPtok 3 "}" 16 13 86)) None (mkPtok 35 "packet" 12 26 75) (mkPtok 42 "repeatCount" 15 0 78) (mkPtok 2 "{" 15 13 79) [(mkFieldWithAttr (mkSpan (mkPtok 7 "@lengthOf(" 15 15 80) (mkPtok 40 "," 16 11 85)) [(FALengthOf (mkSpan (mkPtok 7 "@lengthOf(" 15 15 80) (mkPtok 6 ")" 15 33 82)) (mkLengthOf (mkSpan (mkPtok 7 "@lengthOf(" 15 15 80) (mkPtok 6 ")" 15 33 82)) (mkPtok 7 "@lengthOf(" 15 15 80) (mkPtok 42 "stringy" 15 25 81) (mkPtok 6 ")" 15 33 82)))] (MetaField (mkSpan (mkPtok 20 "uint8" 16 0 83) (mkPtok 40 "," 16 11 85)) None (mkMetaDecl (mkSpan (mkPtok 20 "uint8" 16 0 83) (mkPtok 40 "," 16 11 85)) (TyBasic (mkSpan (mkPtok 20 "uint8" 16 0 83) (mkPtok 20 "uint8" 16 0 83)) (mkBasicType (mkSpan (mkPtok 20 "uint8" 16 0 83) (mkPtok 20 "uint8" 16 0 83)) (mkPtok 20 "uint8" 16 0 83))) (mkPtok 42 "f32a" 16 6 84) None (mkPtok 40 "," 16 11 85))))] (mkPtok 3 "}" 16 13 86))); (DOption (mkOptionDef (mkSpan (mkPtok 1 "options" 16 14 87) (mkPtok 3 "}" 20 12 97)) (mkPtok 1 "options" 16 14 87) (mkPtok 2 "{" 17 0 88) [(mkOptionDecl (mkSpan (mkPtok 42 "BodyLength" 18 0 89) (mkPtok 41 ";" 19 14 92)) (mkPtok 42 "BodyLength" 18 0 89) (mkPtok 4 "=" 19 4 90) (VPaddingChar (mkSpan (mkPtok 33 "'\x00'" 19 7 91) (mkPtok 33 "'\x00'" 19 7 91)) (mkPtok 33 "'\x00'" 19 7 91)) (Some (mkPtok 41 ";" 19 14 92))); (mkOptionDecl (mkSpan (mkPtok 42 "body" 19 16 93) (mkPtok 41 ";" 20 10 96)) (mkPtok 42 "body" 19 16 93) (mkPtok 4 "=" 20 4 94) (VPaddingChar (mkSpan (mkPtok 33 "' '" 20 6 95) (mkPtok 33 "' '" 20 6 95)) (mkPtok 33 "' '" 20 6 95)) (Some (mkPtok 41 ";" 20 10 96)))] (mkPtok 3 "}" 20 12 97))); (DPacket (mkPacketDef (mkSpan (mkPtok 35 "packet" 20 14 98) (mkPtok 3 "}" 41 1 166)) None (mkPtok 35 "packet" 20 14 98) (mkPtok 42 "charz" 21 4 99) (mkPtok 2 "{" 21 10 100) [(mkFieldWithAttr (mkSpan (mkPtok 36 "repeat" 21 12 101) (mkPtok 40 "," 21 41 105)) [] (ObjectField (mkSpan (mkPtok 36 "repeat" 21 12 101) (mkPtok 40 "," 21 41 105)) (Some (mkPtok 36 "repeat" 21 12 101)) (mkPtok 42 "Z9_" 21 19 102) (Some (mkPtok 42 "rootA" 21 23 103)) (Some (mkPtok 43 "`two words`" 21 29 104)) (mkPtok 40 "," 21 41 105))); (mkFieldWithAttr (mkSpan (mkPtok 5 "@calculatedFrom(" 22 0 107) (mkPtok 40 "," 23 17 115)) [(FACalculatedFrom (mkSpan (mkPtok 5 "@calculatedFrom(" 22 0 107) (mkPtok 6 ")" 22 24 109)) (mkCalculatedFrom (mkSpan (mkPtok 5 "@calculatedFrom(" 22 0 107) (mkPtok 6 ")" 22 24 109)) (mkPtok 5 "@calculatedFrom(" 22 0 107) (mkPtok 31 """a\\""" 22 17 108) (mkPtok 6 ")" 22 24 109)))] (LengthField (mkSpan (mkPtok 42 "f32a" 22 26 110) (mkPtok 40 "," 23 17 115)) (mkLengthFieldDecl (mkSpan (mkPtok 42 "f32a" 22 26 110) (mkPtok 40 "," 23 17 115)) None (mkPtok 42 "f32a" 22 26 110) (mkLengthOf (mkSpan (mkPtok 7 "@lengthOf(" 22 31 111) (mkPtok 6 ")" 23 4 113)) (mkPtok 7 "@lengthOf(" 22 31 111) (mkPtok 42 "msg_type" 22 42 112) (mkPtok 6 ")" 23 4 113)) (Some (mkPtok 43 "`say ""hi""`" 23 6 114)) (mkPtok 40 "," 23 17 115)))); (mkFieldWithAttr (mkSpan (mkPtok 24 "int8" 23 18 116) (mkPtok 40 "," 23 26 118)) [] (MetaField (mkSpan (mkPtok 24 "int8" 23 18 116) (mkPtok 40 "," 23 26 118)) None (mkMetaDecl (mkSpan (mkPtok 24 "int8" 23 18 116) (mkPtok 40 "," 23 26 118)) (TyBasic (mkSpan (mkPtok 24 "int8" 23 18 116) (mkPtok 24 "int8" 23 18 116)) (mkBasicType (mkSpan (mkPtok 24 "int8" 23 18 116) (mkPtok 24 "int8" 23 18 116)) (mkPtok 24 "int8" 23 18 116))) (mkPtok 42 "As" 23 23 117) None (mkPtok 40 "," 23 26 118)))); (mkFieldWithAttr (mkSpan (mkPtok 15 "string" 23 28 119) (mkPtok 40 "," 26 5 125)) [] (LengthField (mkSpan (mkPtok 15 "string" 23 28 119) (mkPtok 40 "," 26 5 125)) (mkLengthFieldDecl (mkSpan (mkPtok 15 "string" 23 28 119) (mkPtok 40 "," 26 5 125)) (Some (TyDynamic (mkSpan (mkPtok 15 "string" 23 28 119) (mkPtok 15 "string" 23 28 119)) (mkDynamicString (mkSpan (mkPtok 15 "string" 23 28 119) (mkPtok 15 "string" 23 28 119)) (mkPtok 15 "string" 23 28 119)))) (mkPtok 42 "stringy" 23 35 120) (mkLengthOf (mkSpan (mkPtok 7 "@lengthOf(" 24 0 121) (mkPtok 6 ")" 24 19 123)) (mkPtok 7 "@lengthOf(" 24 0 121) (mkPtok 42 "options1" 24 10 122) (mkPtok 6 ")" 24 19 123)) (Some (mkPtok 43 (string_of_bytes [96; 99; 114; 108; 102; 13; 10; 108; 105; 110; 101; 96]%N) 25 0 124)) (mkPtok 40 "," 26 5 125)))); (mkFieldWithAttr (mkSpan (mkPtok 24 "i8" 26 7 126) (mkPtok 40 "," 27 0 128)) [] (MetaField (mkSpan (mkPtok 24 "i8" 26 7 126) (mkPtok 40 "," 27 0 128)) None (mkMetaDecl (mkSpan (mkPtok 24 "i8" 26 7 126) (mkPtok 40 "," 27 0 128)) (TyBasic (mkSpan (mkPtok 24 "i8" 26 7 126) (mkPtok 24 "i8" 26 7 126)) (mkBasicType (mkSpan (mkPtok 24 "i8" 26 7 126) (mkPtok 24 "i8" 26 7 126)) (mkPtok 24 "i8" 26 7 126))) (mkPtok 42 "i8i8" 26 10 127) None (mkPtok 40 "," 27 0 128)))); (mkFieldWithAttr (mkSpan (mkPtok 42 "f32a" 27 2 129) (mkPtok 40 "," 27 15 131)) [] (ObjectField (mkSpan (mkPtok 42 "f32a" 27 2 129) (mkPtok 40 "," 27 15 131)) None (mkPtok 42 "f32a" 27 2 129) (Some (mkPtok 42 "options1" 27 7 130)) None (mkPtok 40 "," 27 15 131))); (mkFieldWithAttr (mkSpan (mkPtok 32 "@leftPad" 28 0 132) (mkPtok 40 "," 32 2 140)) [(FAPadding (mkSpan (mkPtok 32 "@leftPad" 28 0 132) (mkPtok 6 ")" 29 11 135)) (mkPaddingAttr (mkSpan (mkPtok 32 "@leftPad" 28 0 132) (mkPtok 6 ")" 29 11 135)) (mkPtok 32 "@leftPad" 28 0 132) (mkPtok 8 "(" 28 8 133) (Some (mkPtok 33 "'\x00'" 29 4 134)) (mkPtok 6 ")" 29 11 135)))] (CheckSumField (mkSpan (mkPtok 42 "u" 30 0 136) (mkPtok 40 "," 32 2 140)) (mkChecksumFieldDecl (mkSpan (mkPtok 42 "u" 30 0 136) (mkPtok 40 "," 32 2 140)) None (mkPtok 42 "u" 30 0 136) (mkCalculatedFrom (mkSpan (mkPtok 5 "@calculatedFrom(" 31 4 137) (mkPtok 6 ")" 32 0 139)) (mkPtok 5 "@calculatedFrom(" 31 4 137) (mkPtok 31 (string_of_bytes [34; 240; 159; 152; 128; 34]%N) 31 21 138) (mkPtok 6 ")" 32 0 139)) None (mkPtok 40 "," 32 2 140)))); (mkFieldWithAttr (mkSpan (mkPtok 5 "@calculatedFrom(" 33 0 141) (mkPtok 40 "," 38 0 156)) [(FACalculatedFrom (mkSpan (mkPtok 5 "@calculatedFrom(" 33 0 141) (mkPtok 6 ")" 34 5 143)) (mkCalculatedFrom (mkSpan (mkPtok 5 "@calculatedFrom(" 33 0 141) (mkPtok 6 ")" 34 5 143)) (mkPtok 5 "@calculatedFrom(" 33 0 141) (mkPtok 31 (string_of_bytes [34; 92; 195; 169; 34]%N) 34 0 142) (mkPtok 6 ")" 34 5 143))); (FATag (mkSpan (mkPtok 9 "@tag(" 34 7 144) (mkPtok 6 ")" 34 17 146)) (mkTagAttr (mkSpan (mkPtok 9 "@tag(" 34 7 144) (mkPtok 6 ")" 34 17 146)) (mkPtok 9 "@tag(" 34 7 144) (mkPtok 30 "00" 34 14 145) (mkPtok 6 ")" 34 17 146))); (FATag (mkSpan (mkPtok 9 "@tag(" 34 19 147) (mkPtok 6 ")" 35 1 149)) (mkTagAttr (mkSpan (mkPtok 9 "@tag(" 34 19 147) (mkPtok 6 ")" 35 1 149)) (mkPtok 9 "@tag(" 34 19 147) (mkPtok 30 "0" 35 0 148) (mkPtok 6 ")" 35 1 149)))] (CheckSumField (mkSpan (mkPtok 27 "int64" 36 0 150) (mkPtok 40 "," 38 0 156)) (mkChecksumFieldDecl (mkSpan (mkPtok 27 "int64" 36 0 150) (mkPtok 40 "," 38 0 156)) (Some (TyBasic (mkSpan (mkPtok 27 "int64" 36 0 150) (mkPtok 27 "int64" 36 0 150)) (mkBasicType (mkSpan (mkPtok 27 "int64" 36 0 150) (mkPtok 27 "int64" 36 0 150)) (mkPtok 27 "int64" 36 0 150)))) (mkPtok 42 "trueish" 36 6 151) (mkCalculatedFrom (mkSpan (mkPtok 5 "@calculatedFrom(" 36 13 152) (mkPtok 6 ")" 37 0 155)) (mkPtok 5 "@calculatedFrom(" 36 13 152) (mkPtok 31 """`tick`""" 36 29 153) (mkPtok 6 ")" 37 0 155)) None (mkPtok 40 "," 38 0 156)))); (mkFieldWithAttr (mkSpan (mkPtok 32 "@leftPad" 38 2 157) (mkPtok 40 "," 41 0 165)) [(FAPadding (mkSpan (mkPtok 32 "@leftPad" 38 2 157) (mkPtok 6 ")" 39 4 160)) (mkPaddingAttr (mkSpan (mkPtok 32 "@leftPad" 38 2 157) (mkPtok 6 ")" 39 4 160)) (mkPtok 32 "@leftPad" 38 2 157) (mkPtok 8 "(" 38 11 158) (Some (mkPtok 33 "' '" 39 0 159)) (mkPtok 6 ")" 39 4 160)))] (LengthField (mkSpan (mkPtok 42 "zchar" 40 4 161) (mkPtok 40 "," 41 0 165)) (mkLengthFieldDecl (mkSpan (mkPtok 42 "zchar" 40 4 161) (mkPtok 40 "," 41 0 165)) None (mkPtok 42 "zchar" 40 4 161) (mkLengthOf (mkSpan (mkPtok 7 "@lengthOf(" 40 9 162) (mkPtok 6 ")" 40 24 164)) (mkPtok 7 "@lengthOf(" 40 9 162) (mkPtok 42 "Z9_" 40 20 163) (mkPtok 6 ")" 40 24 164)) None (mkPtok 40 "," 41 0 165))))] (mkPtok 3 "}" 41 1 166)))])).
Eval vm_compute in ("<<<M304>>>" ++ check (runes_of_ascii "packet i8i8
{ zchar[	10 ]a1 ,	}packet x_y_z {
//
// c
} options{	matchKey
= false// " ++ [128512]%N ++ runes_of_ascii " emoji
;
Foo=
i32 ; MetaDataX  = 007 pack =
""" ++ [28040; 24687]%N ++ runes_of_ascii """
// a // b
// c
; }  packet leftPad  {} root packet// a // b
stringy{/// triple
rootA Pad ,	falsey @calculatedFrom( ""it's"") `two words` , u8x float
, int64
u8x, } //x")).
Eval vm_compute in ("<<<M336>>>" ++ check (runes_of_ascii "MetaData // " ++ [128512]%N ++ runes_of_ascii " emoji
Header { // trailing space 
u64 falsey ,
}")).
Eval vm_compute in ("<<<M368>>>" ++ check (runes_of_ascii "packet
matchKey
    {	zchar[ 3
    ]
// `tick` ""quote"" 'q'
// packet A { u8 x, }
A,msg_type
`a\` , MetaDataX As  , @lengthOf(
    Z9_ )repeat
    f32 _x ,
    @lengthOf(Pad ) uint32 //	t
Logon
    , // a // b
@tag( 4294967296 ) T	`doc` ,
len  ,
body { repeat
    o { match i8i8 as	body{ 65535
:lengthOf,
[ ""\n"" ] : i64_ 3
: asx , [
""packet""
,
    /// triple
    007	,
""{,}""  , ""// no comment""
] : repeatCount ,[ ""// no comment"",
    7
    ,	""\" ++ [233]%N ++ runes_of_ascii """, 0123456789 //
, ""a\""b"" ] : roots
} ,
match repeatCount as As
{ """"
    /// triple
    : //	t
o ,
    }
, } , zchar[ 0 ]BodyLength `` ,
    lengthOf,}, i16 Z9_ , } packet
    tag { @tag(
    // `tick` ""quote"" 'q'
    1 ) repeat float i8i8`" ++ [28040; 24687; 31867; 22411]%N ++ runes_of_ascii "` // `tick` ""quote"" 'q'
,  @rightPad ( )@lengthOf( _x) @rightPad ( // c
'0'
)
Packet, Foo /// triple
@lengthOf(
    u128
) `doc` ,
@tag( 007 ) // packet A { u8 x, }
string repeatCount , o {match leftPad as lengthOf {
[
    0123456789  ,
""1"" ] :
    x_y_z  , [ """ ++ [128512]%N ++ runes_of_ascii """] : i8i8
, [// @lengthOf(
""a\""b"" , ""a	b"" ]
: Foo , [ ""\" ++ [233]%N ++ runes_of_ascii """ ] : Pad,
    [ ""a	b"" , 42
//
//	t
, """ ++ [233]%N ++ runes_of_ascii "t" ++ [233]%N ++ runes_of_ascii """ ,	3 ,	""" ++ [28040; 24687]%N ++ runes_of_ascii """,
    00 ,
7 ]  : packetx ,
42
    //x
    : falsey,}
,},}packet body
{ }")).
Eval vm_compute in ("<<<M400>>>" ++ check (runes_of_ascii "
options{}")).
Eval vm_compute in ("<<<M432>>>" ++ check (runes_of_ascii "// a // b
packet// a // b
o
{ body
// trailing space 
// `tick` ""quote"" 'q'
{ repeat string Z9_ ,
    match roots as A
{ [""" ++ [28040; 24687]%N ++ runes_of_ascii """,0
,00
    ,
0 ,	00 ,
65535 ]
:
// c
//x
T } , }
    , @calculatedFrom( ""\" ++ [233]%N ++ runes_of_ascii """  ) repeat asx{uint8  x_y_z
,
}
,  f64  Header
`line1
line2` ,}options {
    f32a	=
    // c
    7  ; packetx = 0123456789 u8x = """"
    ;
    } // a // b
root packet stringy { Foo @calculatedFrom(  ""abc""
    )
    `
`, @lengthOf( pack) repeat
    u8x{ f32
    zchar ,
    //x
    uint32 Z9_`tab	here`	,	leftPad {
msg_type @lengthOf(BodyLength )
,
repeat int8 T, string_ uint8x, match trueish as A{
[
""a	b"" ,
""a\\""
] : // packet A { u8 x, }
trueish
, [ ""a\\"",42,
""it's""
    ,
00, """ ++ [128512]%N ++ runes_of_ascii """] :  msg_type , ""a\\""
    : Z9_
/// triple
/// triple
, ""it's"" : // `tick` ""quote"" 'q'
T , ""\" ++ [233]%N ++ runes_of_ascii """ : As [4294967296, ""x y""
, 3 //
, ""abc"", // packet A { u8 x, }
""1""
, """ ++ [233]%N ++ runes_of_ascii "t" ++ [233]%N ++ runes_of_ascii """
    , 42	, ""\n""
    ]
: matchKey
,
}, }
, }
, }
")).
Eval vm_compute in ("<<<M464>>>" ++ check (runes_of_ascii "packet // a // b
int{ } // a // b")).
Eval vm_compute in ("<<<M496>>>" ++ check (runes_of_ascii "options
{ metadata = char[
4294967296
    ] ;}  packet f32a
{
    match Z9_ as repeatCount
    { 3 : crc
,""{,}"" :pack , }, char[]
calculatedFrom
    @lengthOf( // @lengthOf(
MetaDataX	)
, @calculatedFrom( ""`tick`""
    )// " ++ [128512]%N ++ runes_of_ascii " emoji
x_y_z
    // " ++ [27880; 37322]%N ++ runes_of_ascii "
    , i8 leftPad ,  i8 uint8x @calculatedFrom(
""packet"" ) // trailing space 
`// not a comment`,
@calculatedFrom(""""  ) @tag( 007)	char[ 10
    ] T
    @calculatedFrom(
"""" //
) ,u8x {zchar
    @lengthOf( // packet A { u8 x, }
u )
    `{ , }`
    // c
    , },
    float`say ""hi""`
    ,i64 packetx,@lengthOf(BodyLength ) string  calculatedFrom , } packet
MetaDataX // " ++ [27880; 37322]%N ++ runes_of_ascii "
{ @calculatedFrom( ""{,}"" )
match/// triple
metadata as //
_x
    { ""1""	: // c
uint8x  ,""{,}"" :
falsey } ,} packet // " ++ [27880; 37322]%N ++ runes_of_ascii "
Logon {  o @lengthOf( i8i8 )  , @rightPad ( '0'
)
    int64
msg_type , char calculatedFrom
, @tag( 255 )i8i8  @calculatedFrom( ""x y"" )
    ,i8i8 // @lengthOf(
@calculatedFrom( ""\" ++ [233]%N ++ runes_of_ascii """
    )	, @tag( 0123456789
    ) lengthOf ,@lengthOf( // `tick` ""quote"" 'q'
o ) @tag(
10 )
    match options1 as u{ ""1"" :
Pad  , // c
""\" ++ [233]%N ++ runes_of_ascii """:metadata , // @lengthOf(
} , @tag( // " ++ [128512]%N ++ runes_of_ascii " emoji
1) @tag(
65535 ) @lengthOf( Packet ) repeat T , @tag( 4294967296 )
match x_y_z as uint8x {
""{,}"":uint8x
    7 : metadata, 7: i64_ [""" ++ [233]%N ++ runes_of_ascii "t" ++ [233]%N ++ runes_of_ascii """ ,""CRC32"" , // trailing space 
""packet"" , 00
    ,65535 , ""x y""	, // " ++ [27880; 37322]%N ++ runes_of_ascii "
""packet"" //x
]	:metadata , // packet A { u8 x, }
""packet"" :
    uint8x ,	} , repeat
    x ,	}")).
Eval vm_compute in ("<<<T496>>>" ++ terms [mkTok 1 "options" 1 0 false; mkTok 2 "{" 2 0 false; mkTok 42 "metadata" 2 2 false; mkTok 4 "=" 2 11 false; mkTok 12 "char[" 2 13 false; mkTok 30 "4294967296" 3 0 false; mkTok 13 "]" 4 4 false; mkTok 41 ";" 4 6 false; mkTok 3 "}" 4 7 false; mkTok 35 "packet" 4 10 false; mkTok 42 "f32a" 4 17 false; mkTok 2 "{" 5 0 false; mkTok 38 "match" 6 4 false; mkTok 42 "Z9_" 6 10 false; mkTok 17 "as" 6 14 false; mkTok 42 "repeatCount" 6 17 false; mkTok 2 "{" 7 4 false; mkTok 30 "3" 7 6 false; mkTok 39 ":" 7 8 false; mkTok 42 "crc" 7 10 false; mkTok 40 "," 8 0 false; mkTok 31 """{,}""" 8 1 false; mkTok 39 ":" 8 7 false; mkTok 42 "pack" 8 8 false; mkTok 40 "," 8 13 false; mkTok 3 "}" 8 15 false; mkTok 40 "," 8 16 false; mkTok 16 "char[]" 8 18 false; mkTok 42 "calculatedFrom" 9 0 false; mkTok 7 "@lengthOf(" 10 4 false; mkTok 44 "// @lengthOf(" 10 15 true; mkTok 42 "MetaDataX" 11 0 false; mkTok 6 ")" 11 10 false; mkTok 40 "," 12 0 false; mkTok 5 "@calculatedFrom(" 12 2 false; mkTok 31 """`tick`""" 12 19 false; mkTok 6 ")" 13 4 false; mkTok 44 (string_of_bytes [47; 47; 32; 240; 159; 152; 128; 32; 101; 109; 111; 106; 105]%N) 13 5 true; mkTok 42 "x_y_z" 14 0 false; mkTok 44 (string_of_bytes [47; 47; 32; 230; 179; 168; 233; 135; 138]%N) 15 4 true; mkTok 40 "," 16 4 false; mkTok 24 "i8" 16 6 false; mkTok 42 "leftPad" 16 9 false; mkTok 40 "," 16 17 false; mkTok 24 "i8" 16 20 false; mkTok 42 "uint8x" 16 23 false; mkTok 5 "@calculatedFrom(" 16 30 false; mkTok 31 """packet""" 17 0 false; mkTok 6 ")" 17 9 false; mkTok 44 "// trailing space " 17 11 true; mkTok 43 "`// not a comment`" 18 0 false; mkTok 40 "," 18 18 false; mkTok 5 "@calculatedFrom(" 19 0 false; mkTok 31 """""" 19 16 false; mkTok 6 ")" 19 20 false; mkTok 9 "@tag(" 19 22 false; mkTok 30 "007" 19 28 false; mkTok 6 ")" 19 31 false; mkTok 12 "char[" 19 33 false; mkTok 30 "10" 19 39 false; mkTok 13 "]" 20 4 false; mkTok 42 "T" 20 6 false; mkTok 5 "@calculatedFrom(" 21 4 false; mkTok 31 """""" 22 0 false; mkTok 44 "//" 22 3 true; mkTok 6 ")" 23 0 false; mkTok 40 "," 23 2 false; mkTok 42 "u8x" 23 3 false; mkTok 2 "{" 23 7 false; mkTok 42 "zchar" 23 8 false; mkTok 7 "@lengthOf(" 24 4 false; mkTok 44 "// packet A { u8 x, }" 24 15 true; mkTok 42 "u" 25 0 false; mkTok 6 ")" 25 2 false; mkTok 43 "`{ , }`" 26 4 false; mkTok 44 "// c" 27 4 true; mkTok 40 "," 28 4 false; mkTok 3 "}" 28 6 false; mkTok 40 "," 28 7 false; mkTok 42 "float" 29 4 false; mkTok 43 "`say ""hi""`" 29 9 false; mkTok 40 "," 30 4 false; mkTok 27 "i64" 30 5 false; mkTok 42 "packetx" 30 9 false; mkTok 40 "," 30 16 false; mkTok 7 "@lengthOf(" 30 17 false; mkTok 42 "BodyLength" 30 27 false; mkTok 6 ")" 30 38 false; mkTok 15 "string" 30 40 false; mkTok 42 "calculatedFrom" 30 48 false; mkTok 40 "," 30 63 false; mkTok 3 "}" 30 65 false; mkTok 35 "packet" 30 67 false; mkTok 42 "MetaDataX" 31 0 false; mkTok 44 (string_of_bytes [47; 47; 32; 230; 179; 168; 233; 135; 138]%N) 31 10 true; mkTok 2 "{" 32 0 false; mkTok 5 "@calculatedFrom(" 32 2 false; mkTok 31 """{,}""" 32 19 false; mkTok 6 ")" 32 25 false; mkTok 38 "match" 33 0 false; mkTok 44 "/// triple" 33 5 true; mkTok 42 "metadata" 34 0 false; mkTok 17 "as" 34 9 false; mkTok 44 "//" 34 12 true; mkTok 42 "_x" 35 0 false; mkTok 2 "{" 36 4 false; mkTok 31 """1""" 36 6 false; mkTok 39 ":" 36 10 false; mkTok 44 "// c" 36 12 true; mkTok 42 "uint8x" 37 0 false; mkTok 40 "," 37 8 false; mkTok 31 """{,}""" 37 9 false; mkTok 39 ":" 37 15 false; mkTok 42 "falsey" 38 0 false; mkTok 3 "}" 38 7 false; mkTok 40 "," 38 9 false; mkTok 3 "}" 38 10 false; mkTok 35 "packet" 38 12 false; mkTok 44 (string_of_bytes [47; 47; 32; 230; 179; 168; 233; 135; 138]%N) 38 19 true; mkTok 42 "Logon" 39 0 false; mkTok 2 "{" 39 6 false; mkTok 42 "o" 39 9 false; mkTok 7 "@lengthOf(" 39 11 false; mkTok 42 "i8i8" 39 22 false; mkTok 6 ")" 39 27 false; mkTok 40 "," 39 30 false; mkTok 32 "@rightPad" 39 32 false; mkTok 8 "(" 39 42 false; mkTok 33 "'0'" 39 44 false; mkTok 6 ")" 40 0 false; mkTok 27 "int64" 41 4 false; mkTok 42 "msg_type" 42 0 false; mkTok 40 "," 42 9 false; mkTok 19 "char" 42 11 false; mkTok 42 "calculatedFrom" 42 16 false; mkTok 40 "," 43 0 false; mkTok 9 "@tag(" 43 2 false; mkTok 30 "255" 43 8 false; mkTok 6 ")" 43 12 false; mkTok 42 "i8i8" 43 13 false; mkTok 5 "@calculatedFrom(" 43 19 false; mkTok 31 """x y""" 43 36 false; mkTok 6 ")" 43 42 false; mkTok 40 "," 44 4 false; mkTok 42 "i8i8" 44 5 false; mkTok 44 "// @lengthOf(" 44 10 true; mkTok 5 "@calculatedFrom(" 45 0 false; mkTok 31 (string_of_bytes [34; 92; 195; 169; 34]%N) 45 17 false; mkTok 6 ")" 46 4 false; mkTok 40 "," 46 6 false; mkTok 9 "@tag(" 46 8 false; mkTok 30 "0123456789" 46 14 false; mkTok 6 ")" 47 4 false; mkTok 42 "lengthOf" 47 6 false; mkTok 40 "," 47 15 false; mkTok 7 "@lengthOf(" 47 16 false; mkTok 44 "// `tick` ""quote"" 'q'" 47 27 true; mkTok 42 "o" 48 0 false; mkTok 6 ")" 48 2 false; mkTok 9 "@tag(" 48 4 false; mkTok 30 "10" 49 0 false; mkTok 6 ")" 49 3 false; mkTok 38 "match" 50 4 false; mkTok 42 "options1" 50 10 false; mkTok 17 "as" 50 19 false; mkTok 42 "u" 50 22 false; mkTok 2 "{" 50 23 false; mkTok 31 """1""" 50 25 false; mkTok 39 ":" 50 29 false; mkTok 42 "Pad" 51 0 false; mkTok 40 "," 51 5 false; mkTok 44 "// c" 51 7 true; mkTok 31 (string_of_bytes [34; 92; 195; 169; 34]%N) 52 0 false; mkTok 39 ":" 52 4 false; mkTok 42 "metadata" 52 5 false; mkTok 40 "," 52 14 false; mkTok 44 "// @lengthOf(" 52 16 true; mkTok 3 "}" 53 0 false; mkTok 40 "," 53 2 false; mkTok 9 "@tag(" 53 4 false; mkTok 44 (string_of_bytes [47; 47; 32; 240; 159; 152; 128; 32; 101; 109; 111; 106; 105]%N) 53 10 true; mkTok 30 "1" 54 0 false; mkTok 6 ")" 54 1 false; mkTok 9 "@tag(" 54 3 false; mkTok 30 "65535" 55 0 false; mkTok 6 ")" 55 6 false; mkTok 7 "@lengthOf(" 55 8 false; mkTok 42 "Packet" 55 19 false; mkTok 6 ")" 55 26 false; mkTok 36 "repeat" 55 28 false; mkTok 42 "T" 55 35 false; mkTok 40 "," 55 37 false; mkTok 9 "@tag(" 55 39 false; mkTok 30 "4294967296" 55 45 false; mkTok 6 ")" 55 56 false; mkTok 38 "match" 56 0 false; mkTok 42 "x_y_z" 56 6 false; mkTok 17 "as" 56 12 false; mkTok 42 "uint8x" 56 15 false; mkTok 2 "{" 56 22 false; mkTok 31 """{,}""" 57 0 false; mkTok 39 ":" 57 5 false; mkTok 42 "uint8x" 57 6 false; mkTok 30 "7" 58 4 false; mkTok 39 ":" 58 6 false; mkTok 42 "metadata" 58 8 false; mkTok 40 "," 58 16 false; mkTok 30 "7" 58 18 false; mkTok 39 ":" 58 19 false; mkTok 42 "i64_" 58 21 false; mkTok 18 "[" 58 26 false; mkTok 31 (string_of_bytes [34; 195; 169; 116; 195; 169; 34]%N) 58 27 false; mkTok 40 "," 58 33 false; mkTok 31 """CRC32""" 58 34 false; mkTok 40 "," 58 42 false; mkTok 44 "// trailing space " 58 44 true; mkTok 31 """packet""" 59 0 false; mkTok 40 "," 59 9 false; mkTok 30 "00" 59 11 false; mkTok 40 "," 60 4 false; mkTok 30 "65535" 60 5 false; mkTok 40 "," 60 11 false; mkTok 31 """x y""" 60 13 false; mkTok 40 "," 60 19 false; mkTok 44 (string_of_bytes [47; 47; 32; 230; 179; 168; 233; 135; 138]%N) 60 21 true; mkTok 31 """packet""" 61 0 false; mkTok 44 "//x" 61 9 true; mkTok 13 "]" 62 0 false; mkTok 39 ":" 62 2 false; mkTok 42 "metadata" 62 3 false; mkTok 40 "," 62 12 false; mkTok 44 "// packet A { u8 x, }" 62 14 true; mkTok 31 """packet""" 63 0 false; mkTok 39 ":" 63 9 false; mkTok 42 "uint8x" 64 4 false; mkTok 40 "," 64 11 false; mkTok 3 "}" 64 13 false; mkTok 40 "," 64 15 false; mkTok 36 "repeat" 64 17 false; mkTok 42 "x" 65 4 false; mkTok 40 "," 65 6 false; mkTok 3 "}" 65 8 false; mkTok 0 "<EOF>" 65 9 false] (mkPacket (mkPtok 1 "options" 1 0 0) (Some (mkPtok 3 "}" 65 8 241)) [(DOption (mkOptionDef (mkSpan (mkPtok 1 "options" 1 0 0) (mkPtok 3 "}" 4 7 8)) (mkPtok 1 "options" 1 0 0) (mkPtok 2 "{" 2 0 1) [(mkOptionDecl (mkSpan (mkPtok 42 "metadata" 2 2 2) (mkPtok 41 ";" 4 6 7)) (mkPtok 42 "metadata" 2 2 2) (mkPtok 4 "=" 2 11 3) (VType (mkSpan (mkPtok 12 "char[" 2 13 4) (mkPtok 13 "]" 4 4 6)) (TyFixed (mkSpan (mkPtok 12 "char[" 2 13 4) (mkPtok 13 "]" 4 4 6)) (mkFixedString (mkSpan (mkPtok 12 "char[" 2 13 4) (mkPtok 13 "]" 4 4 6)) (mkPtok 12 "char[" 2 13 4) (mkPtok 30 "4294967296" 3 0 5) (mkPtok 13 "]" 4 4 6)))) (Some (mkPtok 41 ";" 4 6 7)))] (mkPtok 3 "}" 4 7 8))); (DPacket (mkPacketDef (mkSpan (mkPtok 35 "packet" 4 10 9) (mkPtok 3 "}" 30 65 91)) None (mkPtok 35 "packet" 4 10 9) (mkPtok 42 "f32a" 4 17 10) (mkPtok 2 "{" 5 0 11) [(mkFieldWithAttr (mkSpan (mkPtok 38 "match" 6 4 12) (mkPtok 40 "," 8 16 26)) [] (MatchField (mkSpan (mkPtok 38 "match" 6 4 12) (mkPtok 40 "," 8 16 26)) (mkMatchFieldDecl (mkSpan (mkPtok 38 "match" 6 4 12) (mkPtok 3 "}" 8 15 25)) (mkPtok 38 "match" 6 4 12) (mkPtok 42 "Z9_" 6 10 13) (mkPtok 17 "as" 6 14 14) (mkPtok 42 "repeatCount" 6 17 15) (mkPtok 2 "{" 7 4 16) [(mkMatchPair (mkSpan (mkPtok 30 "3" 7 6 17) (mkPtok 40 "," 8 0 20)) (MKDigits (mkPtok 30 "3" 7 6 17)) (mkPtok 39 ":" 7 8 18) (mkPtok 42 "crc" 7 10 19) (Some (mkPtok 40 "," 8 0 20))); (mkMatchPair (mkSpan (mkPtok 31 """{,}""" 8 1 21) (mkPtok 40 "," 8 13 24)) (MKString (mkPtok 31 """{,}""" 8 1 21)) (mkPtok 39 ":" 8 7 22) (mkPtok 42 "pack" 8 8 23) (Some (mkPtok 40 "," 8 13 24)))] (mkPtok 3 "}" 8 15 25)) (mkPtok 40 "," 8 16 26))); (mkFieldWithAttr (mkSpan (mkPtok 16 "char[]" 8 18 27) (mkPtok 40 "," 12 0 33)) [] (LengthField (mkSpan (mkPtok 16 "char[]" 8 18 27) (mkPtok 40 "," 12 0 33)) (mkLengthFieldDecl (mkSpan (mkPtok 16 "char[]" 8 18 27) (mkPtok 40 "," 12 0 33)) (Some (TyDynamic (mkSpan (mkPtok 16 "char[]" 8 18 27) (mkPtok 16 "char[]" 8 18 27)) (mkDynamicString (mkSpan (mkPtok 16 "char[]" 8 18 27) (mkPtok 16 "char[]" 8 18 27)) (mkPtok 16 "char[]" 8 18 27)))) (mkPtok 42 "calculatedFrom" 9 0 28) (mkLengthOf (mkSpan (mkPtok 7 "@lengthOf(" 10 4 29) (mkPtok 6 ")" 11 10 32)) (mkPtok 7 "@lengthOf(" 10 4 29) (mkPtok 42 "MetaDataX" 11 0 31) (mkPtok 6 ")" 11 10 32)) None (mkPtok 40 "," 12 0 33)))); (mkFieldWithAttr (mkSpan (mkPtok 5 "@calculatedFrom(" 12 2 34) (mkPtok 40 "," 16 4 40)) [(FACalculatedFrom (mkSpan (mkPtok 5 "@calculatedFrom(" 12 2 34) (mkPtok 6 ")" 13 4 36)) (mkCalculatedFrom (mkSpan (mkPtok 5 "@calculatedFrom(" 12 2 34) (mkPtok 6 ")" 13 4 36)) (mkPtok 5 "@calculatedFrom(" 12 2 34) (mkPtok 31 """`tick`""" 12 19 35) (mkPtok 6 ")" 13 4 36)))] (ObjectField (mkSpan (mkPtok 42 "x_y_z" 14 0 38) (mkPtok 40 "," 16 4 40)) None (mkPtok 42 "x_y_z" 14 0 38) None None (mkPtok 40 "," 16 4 40))); (mkFieldWithAttr (mkSpan (mkPtok 24 "i8" 16 6 41) (mkPtok 40 "," 16 17 43)) [] (MetaField (mkSpan (mkPtok 24 "i8" 16 6 41) (mkPtok 40 "," 16 17 43)) None (mkMetaDecl (mkSpan (mkPtok 24 "i8" 16 6 41) (mkPtok 40 "," 16 17 43)) (TyBasic (mkSpan (mkPtok 24 "i8" 16 6 41) (mkPtok 24 "i8" 16 6 41)) (mkBasicType (mkSpan (mkPtok 24 "i8" 16 6 41) (mkPtok 24 "i8" 16 6 41)) (mkPtok 24 "i8" 16 6 41))) (mkPtok 42 "leftPad" 16 9 42) None (mkPtok 40 "," 16 17 43)))); (mkFieldWithAttr (mkSpan (mkPtok 24 "i8" 16 20 44) (mkPtok 40 "," 18 18 51)) [] (CheckSumField (mkSpan (mkPtok 24 "i8" 16 20 44) (mkPtok 40 "," 18 18 51)) (mkChecksumFieldDecl (mkSpan (mkPtok 24 "i8" 16 20 44) (mkPtok 40 "," 18 18 51)) (Some (TyBasic (mkSpan (mkPtok 24 "i8" 16 20 44) (mkPtok 24 "i8" 16 20 44)) (mkBasicType (mkSpan (mkPtok 24 "i8" 16 20 44) (mkPtok 24 "i8" 16 20 44)) (mkPtok 24 "i8" 16 20 44)))) (mkPtok 42 "uint8x" 16 23 45) (mkCalculatedFrom (mkSpan (mkPtok 5 "@calculatedFrom(" 16 30 46) (mkPtok 6 ")" 17 9 48)) (mkPtok 5 "@calculatedFrom(" 16 30 46) (mkPtok 31 """packet""" 17 0 47) (mkPtok 6 ")" 17 9 48)) (Some (mkPtok 43 "`// not a comment`" 18 0 50)) (mkPtok 40 "," 18 18 51)))); (mkFieldWithAttr (mkSpan (mkPtok 5 "@calculatedFrom(" 19 0 52) (mkPtok 40 "," 23 2 66)) [(FACalculatedFrom (mkSpan (mkPtok 5 "@calculatedFrom(" 19 0 52) (mkPtok 6 ")" 19 20 54)) (mkCalculatedFrom (mkSpan (mkPtok 5 "@calculatedFrom(" 19 0 52) (mkPtok 6 ")" 19 20 54)) (mkPtok 5 "@calculatedFrom(" 19 0 52) (mkPtok 31 """""" 19 16 53) (mkPtok 6 ")" 19 20 54))); (FATag (mkSpan (mkPtok 9 "@tag(" 19 22 55) (mkPtok 6 ")" 19 31 57)) (mkTagAttr (mkSpan (mkPtok 9 "@tag(" 19 22 55) (mkPtok 6 ")" 19 31 57)) (mkPtok 9 "@tag(" 19 22 55) (mkPtok 30 "007" 19 28 56) (mkPtok 6 ")" 19 31 57)))] (CheckSumField (mkSpan (mkPtok 12 "char[" 19 33 58) (mkPtok 40 "," 23 2 66)) (mkChecksumFieldDecl (mkSpan (mkPtok 12 "char[" 19 33 58) (mkPtok 40 "," 23 2 66)) (Some (TyFixed (mkSpan (mkPtok 12 "char[" 19 33 58) (mkPtok 13 "]" 20 4 60)) (mkFixedString (mkSpan (mkPtok 12 "char[" 19 33 58) (mkPtok 13 "]" 20 4 60)) (mkPtok 12 "char[" 19 33 58) (mkPtok 30 "10" 19 39 59) (mkPtok 13 "]" 20 4 60)))) (mkPtok 42 "T" 20 6 61) (mkCalculatedFrom (mkSpan (mkPtok 5 "@calculatedFrom(" 21 4 62) (mkPtok 6 ")" 23 0 65)) (mkPtok 5 "@calculatedFrom(" 21 4 62) (mkPtok 31 """""" 22 0 63) (mkPtok 6 ")" 23 0 65)) None (mkPtok 40 "," 23 2 66)))); (mkFieldWithAttr (mkSpan (mkPtok 42 "u8x" 23 3 67) (mkPtok 40 "," 28 7 78)) [] (InerObjectField (mkSpan (mkPtok 42 "u8x" 23 3 67) (mkPtok 40 "," 28 7 78)) None (InerObjectDecl (mkSpan (mkPtok 42 "u8x" 23 3 67) (mkPtok 3 "}" 28 6 77)) (mkPtok 42 "u8x" 23 3 67) (mkPtok 2 "{" 23 7 68) [(LengthField (mkSpan (mkPtok 42 "zchar" 23 8 69) (mkPtok 40 "," 28 4 76)) (mkLengthFieldDecl (mkSpan (mkPtok 42 "zchar" 23 8 69) (mkPtok 40 "," 28 4 76)) None (mkPtok 42 "zchar" 23 8 69) (mkLengthOf (mkSpan (mkPtok 7 "@lengthOf(" 24 4 70) (mkPtok 6 ")" 25 2 73)) (mkPtok 7 "@lengthOf(" 24 4 70) (mkPtok 42 "u" 25 0 72) (mkPtok 6 ")" 25 2 73)) (Some (mkPtok 43 "`{ , }`" 26 4 74)) (mkPtok 40 "," 28 4 76)))] (mkPtok 3 "}" 28 6 77)) (mkPtok 40 "," 28 7 78))); (mkFieldWithAttr (mkSpan (mkPtok 42 "float" 29 4 79) (mkPtok 40 "," 30 4 81)) [] (ObjectField (mkSpan (mkPtok 42 "float" 29 4 79) (mkPtok 40 "," 30 4 81)) None (mkPtok 42 "float" 29 4 79) None (Some (mkPtok 43 "`say ""hi""`" 29 9 80)) (mkPtok 40 "," 30 4 81))); (mkFieldWithAttr (mkSpan (mkPtok 27 "i64" 30 5 82) (mkPtok 40 "," 30 16 84)) [] (MetaField (mkSpan (mkPtok 27 "i64" 30 5 82) (mkPtok 40 "," 30 16 84)) None (mkMetaDecl (mkSpan (mkPtok 27 "i64" 30 5 82) (mkPtok 40 "," 30 16 84)) (TyBasic (mkSpan (mkPtok 27 "i64" 30 5 82) (mkPtok 27 "i64" 30 5 82)) (mkBasicType (mkSpan (mkPtok 27 "i64" 30 5 82) (mkPtok 27 "i64" 30 5 82)) (mkPtok 27 "i64" 30 5 82))) (mkPtok 42 "packetx" 30 9 83) None (mkPtok 40 "," 30 16 84)))); (mkFieldWithAttr (mkSpan (mkPtok 7 "@lengthOf(" 30 17 85) (mkPtok 40 "," 30 63 90)) [(FALengthOf (mkSpan (mkPtok 7 "@lengthOf(" 30 17 85) (mkPtok 6 ")" 30 38 87)) (mkLengthOf (mkSpan (mkPtok 7 "@lengthOf(" 30 17 85) (mkPtok 6 ")" 30 38 87)) (mkPtok 7 "@lengthOf(" 30 17 85) (mkPtok 42 "BodyLength" 30 27 86) (mkPtok 6 ")" 30 38 87)))] (MetaField (mkSpan (mkPtok 15 "string" 30 40 88) (mkPtok 40 "," 30 63 90)) None (mkMetaDecl (mkSpan (mkPtok 15 "string" 30 40 88) (mkPtok 40 "," 30 63 90)) (TyDynamic (mkSpan (mkPtok 15 "string" 30 40 88) (mkPtok 15 "string" 30 40 88)) (mkDynamicString (mkSpan (mkPtok 15 "string" 30 40 88) (mkPtok 15 "string" 30 40 88)) (mkPtok 15 "string" 30 40 88))) (mkPtok 42 "calculatedFrom" 30 48 89) None (mkPtok 40 "," 30 63 90))))] (mkPtok 3 "}" 30 65 91))); (DPacket (mkPacketDef (mkSpan (mkPtok 35 "packet" 30 67 92) (mkPtok 3 "}" 38 10 116)) None (mkPtok 35 "packet" 30 67 92) (mkPtok 42 "MetaDataX" 31 0 93) (mkPtok 2 "{" 32 0 95) [(mkFieldWithAttr (mkSpan (mkPtok 5 "@calculatedFrom(" 32 2 96) (mkPtok 40 "," 38 9 115)) [(FACalculatedFrom (mkSpan (mkPtok 5 "@calculatedFrom(" 32 2 96) (mkPtok 6 ")" 32 25 98)) (mkCalculatedFrom (mkSpan (mkPtok 5 "@calculatedFrom(" 32 2 96) (mkPtok 6 ")" 32 25 98)) (mkPtok 5 "@calculatedFrom(" 32 2 96) (mkPtok 31 """{,}""" 32 19 97) (mkPtok 6 ")" 32 25 98)))] (MatchField (mkSpan (mkPtok 38 "match" 33 0 99) (mkPtok 40 "," 38 9 115)) (mkMatchFieldDecl (mkSpan (mkPtok 38 "match" 33 0 99) (mkPtok 3 "}" 38 7 114)) (mkPtok 38 "match" 33 0 99) (mkPtok 42 "metadata" 34 0 101) (mkPtok 17 "as" 34 9 102) (mkPtok 42 "_x" 35 0 104) (mkPtok 2 "{" 36 4 105) [(mkMatchPair (mkSpan (mkPtok 31 """1""" 36 6 106) (mkPtok 40 "," 37 8 110)) (MKString (mkPtok 31 """1""" 36 6 106)) (mkPtok 39 ":" 36 10 107) (mkPtok 42 "uint8x" 37 0 109) (Some (mkPtok 40 "," 37 8 110))); (mkMatchPair (mkSpan (mkPtok 31 """{,}""" 37 9 111) (mkPtok 42 "falsey" 38 0 113)) (MKString (mkPtok 31 """{,}""" 37 9 111)) (mkPtok 39 ":" 37 15 112) (mkPtok 42 "falsey" 38 0 113) None)] (mkPtok 3 "}" 38 7 114)) (mkPtok 40 "," 38 9 115)))] (mkPtok 3 "}" 38 10 116))); (DPacket (mkPacketDef (mkSpan (mkPtok 35 "packet" 38 12 117) (mkPtok 3 "}" 65 8 241)) None (mkPtok 35 "packet" 38 12 117) (mkPtok 42 "Logon" 39 0 119) (mkPtok 2 "{" 39 6 120) [(mkFieldWithAttr (mkSpan (mkPtok 42 "o" 39 9 121) (mkPtok 40 "," 39 30 125)) [] (LengthField (mkSpan (mkPtok 42 "o" 39 9 121) (mkPtok 40 "," 39 30 125)) (mkLengthFieldDecl (mkSpan (mkPtok 42 "o" 39 9 121) (mkPtok 40 "," 39 30 125)) None (mkPtok 42 "o" 39 9 121) (mkLengthOf (mkSpan (mkPtok 7 "@lengthOf(" 39 11 122) (mkPtok 6 ")" 39 27 124)) (mkPtok 7 "@lengthOf(" 39 11 122) (mkPtok 42 "i8i8" 39 22 123) (mkPtok 6 ")" 39 27 124)) None (mkPtok 40 "," 39 30 125)))); (mkFieldWithAttr (mkSpan (mkPtok 32 "@rightPad" 39 32 126) (mkPtok 40 "," 42 9 132)) [(FAPadding (mkSpan (mkPtok 32 "@rightPad" 39 32 126) (mkPtok 6 ")" 40 0 129)) (mkPaddingAttr (mkSpan (mkPtok 32 "@rightPad" 39 32 126) (mkPtok 6 ")" 40 0 129)) (mkPtok 32 "@rightPad" 39 32 126) (mkPtok 8 "(" 39 42 127) (Some (mkPtok 33 "'0'" 39 44 128)) (mkPtok 6 ")" 40 0 129)))] (MetaField (mkSpan (mkPtok 27 "int64" 41 4 130) (mkPtok 40 "," 42 9 132)) None (mkMetaDecl (mkSpan (mkPtok 27 "int64" 41 4 130) (mkPtok 40 "," 42 9 132)) (TyBasic (mkSpan (mkPtok 27 "int64" 41 4 130) (mkPtok 27 "int64" 41 4 130)) (mkBasicType (mkSpan (mkPtok 27 "int64" 41 4 130) (mkPtok 27 "int64" 41 4 130)) (mkPtok 27 "int64" 41 4 130))) (mkPtok 42 "msg_type" 42 0 131) None (mkPtok 40 "," 42 9 132)))); (mkFieldWithAttr (mkSpan (mkPtok 19 "char" 42 11 133) (mkPtok 40 "," 43 0 135)) [] (MetaField (mkSpan (mkPtok 19 "char" 42 11 133) (mkPtok 40 "," 43 0 135)) None (mkMetaDecl (mkSpan (mkPtok 19 "char" 42 11 133) (mkPtok 40 "," 43 0 135)) (TyBasic (mkSpan (mkPtok 19 "char" 42 11 133) (mkPtok 19 "char" 42 11 133)) (mkBasicType (mkSpan (mkPtok 19 "char" 42 11 133) (mkPtok 19 "char" 42 11 133)) (mkPtok 19 "char" 42 11 133))) (mkPtok 42 "calculatedFrom" 42 16 134) None (mkPtok 40 "," 43 0 135)))); (mkFieldWithAttr (mkSpan (mkPtok 9 "@tag(" 43 2 136) (mkPtok 40 "," 44 4 143)) [(FATag (mkSpan (mkPtok 9 "@tag(" 43 2 136) (mkPtok 6 ")" 43 12 138)) (mkTagAttr (mkSpan (mkPtok 9 "@tag(" 43 2 136) (mkPtok 6 ")" 43 12 138)) (mkPtok 9 "@tag(" 43 2 136) (mkPtok 30 "255" 43 8 137) (mkPtok 6 ")" 43 12 138)))] (CheckSumField (mkSpan (mkPtok 42 "i8i8" 43 13 139) (mkPtok 40 "," 44 4 143)) (mkChecksumFieldDecl (mkSpan (mkPtok 42 "i8i8" 43 13 139) (mkPtok 40 "," 44 4 143)) None (mkPtok 42 "i8i8" 43 13 139) (mkCalculatedFrom (mkSpan (mkPtok 5 "@calculatedFrom(" 43 19 140) (mkPtok 6 ")" 43 42 142)) (mkPtok 5 "@calculatedFrom(" 43 19 140) (mkPtok 31 """x y""" 43 36 141) (mkPtok 6 ")" 43 42 142)) None (mkPtok 40 "," 44 4 143)))); (mkFieldWithAttr (mkSpan (mkPtok 42 "i8i8" 44 5 144) (mkPtok 40 "," 46 6 149)) [] (CheckSumField (mkSpan (mkPtok 42 "i8i8" 44 5 144) (mkPtok 40 "," 46 6 149)) (mkChecksumFieldDecl (mkSpan (mkPtok 42 "i8i8" 44 5 144) (mkPtok 40 "," 46 6 149)) None (mkPtok 42 "i8i8" 44 5 144) (mkCalculatedFrom (mkSpan (mkPtok 5 "@calculatedFrom(" 45 0 146) (mkPtok 6 ")" 46 4 148)) (mkPtok 5 "@calculatedFrom(" 45 0 146) (mkPtok 31 (string_of_bytes [34; 92; 195; 169; 34]%N) 45 17 147) (mkPtok 6 ")" 46 4 148)) None (mkPtok 40 "," 46 6 149)))); (mkFieldWithAttr (mkSpan (mkPtok 9 "@tag(" 46 8 150) (mkPtok 40 "," 47 15 154)) [(FATag (mkSpan (mkPtok 9 "@tag(" 46 8 150) (mkPtok 6 ")" 47 4 152)) (mkTagAttr (mkSpan (mkPtok 9 "@tag(" 46 8 150) (mkPtok 6 ")" 47 4 152)) (mkPtok 9 "@tag(" 46 8 150) (mkPtok 30 "0123456789" 46 14 151) (mkPtok 6 ")" 47 4 152)))] (ObjectField (mkSpan (mkPtok 42 "lengthOf" 47 6 153) (mkPtok 40 "," 47 15 154)) None (mkPtok 42 "lengthOf" 47 6 153) None None (mkPtok 40 "," 47 15 154))); (mkFieldWithAttr (mkSpan (mkPtok 7 "@lengthOf(" 47 16 155) (mkPtok 40 "," 53 2 178)) [(FALengthOf (mkSpan (mkPtok 7 "@lengthOf(" 47 16 155) (mkPtok 6 ")" 48 2 158)) (mkLengthOf (mkSpan (mkPtok 7 "@lengthOf(" 47 16 155) (mkPtok 6 ")" 48 2 158)) (mkPtok 7 "@lengthOf(" 47 16 155) (mkPtok 42 "o" 48 0 157) (mkPtok 6 ")" 48 2 158))); (FATag (mkSpan (mkPtok 9 "@tag(" 48 4 159) (mkPtok 6 ")" 49 3 161)) (mkTagAttr (mkSpan (mkPtok 9 "@tag(" 48 4 159) (mkPtok 6 ")" 49 3 161)) (mkPtok 9 "@tag(" 48 4 159) (mkPtok 30 "10" 49 0 160) (mkPtok 6 ")" 49 3 161)))] (MatchField (mkSpan (mkPtok 38 "match" 50 4 162) (mkPtok 40 "," 53 2 178)) (mkMatchFieldDecl (mkSpan (mkPtok 38 "match" 50 4 162) (mkPtok 3 "}" 53 0 177)) (mkPtok 38 "match" 50 4 162) (mkPtok 42 "options1" 50 10 163) (mkPtok 17 "as" 50 19 164) (mkPtok 42 "u" 50 22 165) (mkPtok 2 "{" 50 23 166) [(mkMatchPair (mkSpan (mkPtok 31 """1""" 50 25 167) (mkPtok 40 "," 51 5 170)) (MKString (mkPtok 31 """1""" 50 25 167)) (mkPtok 39 ":" 50 29 168) (mkPtok 42 "Pad" 51 0 169) (Some (mkPtok 40 "," 51 5 170))); (mkMatchPair (mkSpan (mkPtok 31 (string_of_bytes [34; 92; 195; 169; 34]%N) 52 0 172) (mkPtok 40 "," 52 14 175)) (MKString (mkPtok 31 (string_of_bytes [34; 92; 195; 169; 34]%N) 52 0 172)) (mkPtok 39 ":" 52 4 173) (mkPtok 42 "metadata" 52 5 174) (Some (mkPtok 40 "," 52 14 175)))] (mkPtok 3 "}" 53 0 177)) (mkPtok 40 "," 53 2 178))); (mkFieldWithAttr (mkSpan (mkPtok 9 "@tag(" 53 4 179) (mkPtok 40 "," 55 37 191)) [(FATag (mkSpan (mkPtok 9 "@tag(" 53 4 179) (mkPtok 6 ")" 54 1 182)) (mkTagAttr (mkSpan (mkPtok 9 "@tag(" 53 4 179) (mkPtok 6 ")" 54 1 182)) (mkPtok 9 "@tag(" 53 4 179) (mkPtok 30 "1" 54 0 181) (mkPtok 6 ")" 54 1 182))); (FATag (mkSpan (mkPtok 9 "@tag(" 54 3 183) (mkPtok 6 ")" 55 6 185)) (mkTagAttr (mkSpan (mkPtok 9 "@tag(" 54 3 183) (mkPtok 6 ")" 55 6 185)) (mkPtok 9 "@tag(" 54 3 183) (mkPtok 30 "65535" 55 0 184) (mkPtok 6 ")" 55 6 185))); (FALengthOf (mkSpan (mkPtok 7 "@lengthOf(" 55 8 186) (mkPtok 6 ")" 55 26 188)) (mkLengthOf (mkSpan (mkPtok 7 "@lengthOf(" 55 8 186) (mkPtok 6 ")" 55 26 188)) (mkPtok 7 "@lengthOf(" 55 8 186) (mkPtok 42 "Packet" 55 19 187) (mkPtok 6 ")" 55 26 188)))] (ObjectField (mkSpan (mkPtok 36 "repeat" 55 28 189) (mkPtok 40 "," 55 37 191)) (Some (mkPtok 36 "repeat" 55 28 189)) (mkPtok 42 "T" 55 35 190) None None (mkPtok 40 "," 55 37 191))); (mkFieldWithAttr (mkSpan (mkPtok 9 "@tag(" 55 39 192) (mkPtok 40 "," 64 15 237)) [(FATag (mkSpan (mkPtok 9 "@tag(" 55 39 192) (mkPtok 6 ")" 55 56 194)) (mkTagAttr (mkSpan (mkPtok 9 "@tag(" 55 39 192) (mkPtok 6 ")" 55 56 194)) (mkPtok 9 "@tag(" 55 39 192) (mkPtok 30 "4294967296" 55 45 193) (mkPtok 6 ")" 55 56 194)))] (MatchField (mkSpan (mkPtok 38 "match" 56 0 195) (mkPtok 40 "," 64 15 237)) (mkMatchFieldDecl (mkSpan (mkPtok 38 "match" 56 0 195) (mkPtok 3 "}" 64 13 236)) (mkPtok 38 "match" 56 0 195) (mkPtok 42 "x_y_z" 56 6 196) (mkPtok 17 "as" 56 12 197) (mkPtok 42 "uint8x" 56 15 198) (mkPtok 2 "{" 56 22 199) [(mkMatchPair (mkSpan (mkPtok 31 """{,}""" 57 0 200) (mkPtok 42 "uint8x" 57 6 202)) (MKString (mkPtok 31 """{,}""" 57 0 200)) (mkPtok 39 ":" 57 5 201) (mkPtok 42 "uint8x" 57 6 202) None); (mkMatchPair (mkSpan (mkPtok 30 "7" 58 4 203) (mkPtok 40 "," 58 16 206)) (MKDigits (mkPtok 30 "7" 58 4 203)) (mkPtok 39 ":" 58 6 204) (mkPtok 42 "metadata" 58 8 205) (Some (mkPtok 40 "," 58 16 206))); (mkMatchPair (mkSpan (mkPtok 30 "7" 58 18 207) (mkPtok 42 "i64_" 58 21 209)) (MKDigits (mkPtok 30 "7" 58 18 207)) (mkPtok 39 ":" 58 19 208) (mkPtok 42 "i64_" 58 21 209) None); (mkMatchPair (mkSpan (mkPtok 18 "[" 58 26 210) (mkPtok 40 "," 62 12 230)) (MKList (mkKeyList (mkSpan (mkPtok 18 "[" 58 26 210) (mkPtok 13 "]" 62 0 227)) (mkPtok 18 "[" 58 26 210) (mkPtok 31 (string_of_bytes [34; 195; 169; 116; 195; 169; 34]%N) 58 27 211) [((mkPtok 40 "," 58 33 212), (mkPtok 31 """CRC32""" 58 34 213)); ((mkPtok 40 "," 58 42 214), (mkPtok 31 """packet""" 59 0 216)); ((mkPtok 40 "," 59 9 217), (mkPtok 30 "00" 59 11 218)); ((mkPtok 40 "," 60 4 219), (mkPtok 30 "65535" 60 5 220)); ((mkPtok 40 "," 60 11 221), (mkPtok 31 """x y""" 60 13 222)); ((mkPtok 40 "," 60 19 223), (mkPtok 31 """packet""" 61 0 225))] (mkPtok 13 "]" 62 0 227))) (mkPtok 39 ":" 62 2 228) (mkPtok 42 "metadata" 62 3 229) (Some (mkPtok 40 "," 62 12 230))); (mkMatchPair (mkSpan (mkPtok 31 """packet""" 63 0 232) (mkPtok 40 "," 64 11 235)) (MKString (mkPtok 31 """packet""" 63 0 232)) (mkPtok 39 ":" 63 9 233) (mkPtok 42 "uint8x" 64 4 234) (Some (mkPtok 40 "," 64 11 235)))] (mkPtok 3 "}" 64 13 236)) (mkPtok 40 "," 64 15 237))); (mkFieldWithAttr (mkSpan (mkPtok 36 "repeat" 64 17 238) (mkPtok 40 "," 65 6 240)) [] (ObjectField (mkSpan (mkPtok 36 "repeat" 64 17 238) (mkPtok 40 "," 65 6 240)) (Some (mkPtok 36 "repeat" 64 17 238)) (mkPtok 42 "x" 65 4 239) None None (mkPtok 40 "," 65 6 240)))] (mkPtok 3 "}" 65 8 241)))])).
Eval vm_compute in ("<<<M528>>>" ++ check (runes_of_ascii "
options { repeatCount = ""a	b"" ;As = ' '
    ;
    len= true ;string_ = int16 ; }
")).
Eval vm_compute in ("<<<M560>>>" ++ check (runes_of_ascii "root packet repeatCount{ T {
char[ 255 ] T
// c
// packet A { u8 x, }
`a\`,zchar[ 00// trailing space 
]Foo	@lengthOf( repeatCount
    )// " ++ [128512]%N ++ runes_of_ascii " emoji
, Foo x_y_z
, packetx @calculatedFrom( ""packet""
    )// " ++ [27880; 37322]%N ++ runes_of_ascii "
,
}
    , }
")).
Eval vm_compute in ("<<<M592>>>" ++ check (runes_of_ascii "MetaData repeatCount { char[ 4294967296 ]
BodyLength `it's` , } packet Header { zchar[255] chars `line1
line2` ,BodyLength
    // " ++ [128512]%N ++ runes_of_ascii " emoji
    tag// a // b
,	} options { body // packet A { u8 x, }
=""" ++ [28040; 24687]%N ++ runes_of_ascii """// @lengthOf(
}
    // `tick` ""quote"" 'q'
    packet f32a { char metadata `// not a comment` , } /// triple")).
Eval vm_compute in ("<<<M624>>>" ++ check (runes_of_ascii "options {Packet =
    255 ; f32a
    = '0'
T= '0' }")).
Eval vm_compute in ("<<<M656>>>" ++ check (runes_of_ascii "root
//	t
// @lengthOf(
packet int //x
{ @rightPad ( '0' ) match Packet as x_y_z
{ 3 //	t
:zchar // a // b
, ""1""
:
x //
, 42 : a1	, [ """ ++ [233]%N ++ runes_of_ascii "t" ++ [233]%N ++ runes_of_ascii """ ]:	matchKey
    ,42: x_y_z
[ ""a\""b"",
    7	, // packet A { u8 x, }
""it's"" ,
    // c
    007	, ""a\""b"" ] :
    Foo
    ,
    },} // c
MetaData Foo { u32 chars//	t
`it's` //
,u32
    falsey
, Header
trueish
,
    tag As, } options { asx=u16
    ; }
packet
    options1
{repeat char[255  ] charz , }options { }")).
Eval vm_compute in ("<<<M688>>>" ++ check (runes_of_ascii "
packet metadata {
// trailing space 
// trailing space 
@calculatedFrom(// `tick` ""quote"" 'q'
""CRC32"" )
stringy As ,
    }
")).
Eval vm_compute in ("<<<M720>>>" ++ check (runes_of_ascii "root packet  Foo	{
repeat
Packet { match i64_ as f32a{ ""1"" : Z9_, } ,
match
    // " ++ [128512]%N ++ runes_of_ascii " emoji
    options1  as stringy{
[
1
] :Foo	1 : x_y_z
    // trailing space 
    ,
// packet A { u8 x, }
// packet A { u8 x, }
[ 7 , 42
,
""1""  , """ ++ [233]%N ++ runes_of_ascii "t" ++ [233]%N ++ runes_of_ascii """ ,
""\" ++ [233]%N ++ runes_of_ascii """
, """ ++ [128512]%N ++ runes_of_ascii """ , ""{,}"" ] // packet A { u8 x, }
: float,
0123456789 : x ,	} , }
, @lengthOf(// `tick` ""quote"" 'q'
u // " ++ [128512]%N ++ runes_of_ascii " emoji
) char[] // " ++ [128512]%N ++ runes_of_ascii " emoji
MetaDataX ,@tag( 4294967296
) u128 , @calculatedFrom( """ ++ [128512]%N ++ runes_of_ascii """ )@tag( 4294967296 ) MetaDataX
    // @lengthOf(
    @calculatedFrom( """ ++ [128512]%N ++ runes_of_ascii """
) `tab	here` ,
    } packet BodyLength
    {
    char[ 0]u128	``// packet A { u8 x, }
, i64_
    ,
    repeat//
matchKey{
    char[]
x  `u8 x,`
, u128 f32a `u8 x,`
, char[	42 ]  calculatedFrom ,packetx @calculatedFrom(// packet A { u8 x, }
""" ++ [128512]%N ++ runes_of_ascii """ ) `a\`  , } , @lengthOf( Foo ) @rightPad
(
    // trailing space 
    '0'  ) int64	o
// trailing space 
// `tick` ""quote"" 'q'
@lengthOf( float	) , }
    MetaData
// a // b
// `tick` ""quote"" 'q'
_x
// @lengthOf(
// " ++ [27880; 37322]%N ++ runes_of_ascii "
{
u16 x_y_z ,
    //x
    zchar[ 42 ] falsey , }")).
Eval vm_compute in ("<<<T720>>>" ++ terms [mkTok 34 "root" 1 0 false; mkTok 35 "packet" 1 5 false; mkTok 42 "Foo" 1 13 false; mkTok 2 "{" 1 17 false; mkTok 36 "repeat" 2 0 false; mkTok 42 "Packet" 3 0 false; mkTok 2 "{" 3 7 false; mkTok 38 "match" 3 9 false; mkTok 42 "i64_" 3 15 false; mkTok 17 "as" 3 20 false; mkTok 42 "f32a" 3 23 false; mkTok 2 "{" 3 27 false; mkTok 31 """1""" 3 29 false; mkTok 39 ":" 3 33 false; mkTok 42 "Z9_" 3 35 false; mkTok 40 "," 3 38 false; mkTok 3 "}" 3 40 false; mkTok 40 "," 3 42 false; mkTok 38 "match" 4 0 false; mkTok 44 (string_of_bytes [47; 47; 32; 240; 159; 152; 128; 32; 101; 109; 111; 106; 105]%N) 5 4 true; mkTok 42 "options1" 6 4 false; mkTok 17 "as" 6 14 false; mkTok 42 "stringy" 6 17 false; mkTok 2 "{" 6 24 false; mkTok 18 "[" 7 0 false; mkTok 30 "1" 8 0 false; mkTok 13 "]" 9 0 false; mkTok 39 ":" 9 2 false; mkTok 42 "Foo" 9 3 false; mkTok 30 "1" 9 7 false; mkTok 39 ":" 9 9 false; mkTok 42 "x_y_z" 9 11 false; mkTok 44 "// trailing space " 10 4 true; mkTok 40 "," 11 4 false; mkTok 44 "// packet A { u8 x, }" 12 0 true; mkTok 44 "// packet A { u8 x, }" 13 0 true; mkTok 18 "[" 14 0 false; mkTok 30 "7" 14 2 false; mkTok 40 "," 14 4 false; mkTok 30 "42" 14 6 false; mkTok 40 "," 15 0 false; mkTok 31 """1""" 16 0 false; mkTok 40 "," 16 5 false; mkTok 31 (string_of_bytes [34; 195; 169; 116; 195; 169; 34]%N) 16 7 false; mkTok 40 "," 16 13 false; mkTok 31 (string_of_bytes [34; 92; 195; 169; 34]%N) 17 0 false; mkTok 40 "," 18 0 false; mkTok 31 (string_of_bytes [34; 240; 159; 152; 128; 34]%N) 18 2 false; mkTok 40 "," 18 6 false; mkTok 31 """{,}""" 18 8 false; mkTok 13 "]" 18 14 false; mkTok 44 "// packet A { u8 x, }" 18 16 true; mkTok 39 ":" 19 0 false; mkTok 42 "float" 19 2 false; mkTok 40 "," 19 7 false; mkTok 30 "0123456789" 20 0 false; mkTok 39 ":" 20 11 false; mkTok 42 "x" 20 13 false; mkTok 40 "," 20 15 false; mkTok 3 "}" 20 17 false; mkTok 40 "," 20 19 false; mkTok 3 "}" 20 21 false; mkTok 40 "," 21 0 false; mkTok 7 "@lengthOf(" 21 2 false; mkTok 44 "// `tick` ""quote"" 'q'" 21 12 true; mkTok 42 "u" 22 0 false; mkTok 44 (string_of_bytes [47; 47; 32; 240; 159; 152; 128; 32; 101; 109; 111; 106; 105]%N) 22 2 true; mkTok 6 ")" 23 0 false; mkTok 16 "char[]" 23 2 false; mkTok 44 (string_of_bytes [47; 47; 32; 240; 159; 152; 128; 32; 101; 109; 111; 106; 105]%N) 23 9 true; mkTok 42 "MetaDataX" 24 0 false; mkTok 40 "," 24 10 false; mkTok 9 "@tag(" 24 11 false; mkTok 30 "4294967296" 24 17 false; mkTok 6 ")" 25 0 false; mkTok 42 "u128" 25 2 false; mkTok 40 "," 25 7 false; mkTok 5 "@calculatedFrom(" 25 9 false; mkTok 31 (string_of_bytes [34; 240; 159; 152; 128; 34]%N) 25 26 false; mkTok 6 ")" 25 30 false; mkTok 9 "@tag(" 25 31 false; mkTok 30 "4294967296" 25 37 false; mkTok 6 ")" 25 48 false; mkTok 42 "MetaDataX" 25 50 false; mkTok 44 "// @lengthOf(" 26 4 true; mkTok 5 "@calculatedFrom(" 27 4 false; mkTok 31 (string_of_bytes [34; 240; 159; 152; 128; 34]%N) 27 21 false; mkTok 6 ")" 28 0 false; mkTok 43 (string_of_bytes [96; 116; 97; 98; 9; 104; 101; 114; 101; 96]%N) 28 2 false; mkTok 40 "," 28 13 false; mkTok 3 "}" 29 4 false; mkTok 35 "packet" 29 6 false; mkTok 42 "BodyLength" 29 13 false; mkTok 2 "{" 30 4 false; mkTok 12 "char[" 31 4 false; mkTok 30 "0" 31 10 false; mkTok 13 "]" 31 11 false; mkTok 42 "u128" 31 12 false; mkTok 43 "``" 31 17 false; mkTok 44 "// packet A { u8 x, }" 31 19 true; mkTok 40 "," 32 0 false; mkTok 42 "i64_" 32 2 false; mkTok 40 "," 33 4 false; mkTok 36 "repeat" 34 4 false; mkTok 44 "//" 34 10 true; mkTok 42 "matchKey" 35 0 false; mkTok 2 "{" 35 8 false; mkTok 16 "char[]" 36 4 false; mkTok 42 "x" 37 0 false; mkTok 43 "`u8 x,`" 37 3 false; mkTok 40 "," 38 0 false; mkTok 42 "u128" 38 2 false; mkTok 42 "f32a" 38 7 false; mkTok 43 "`u8 x,`" 38 12 false; mkTok 40 "," 39 0 false; mkTok 12 "char[" 39 2 false; mkTok 30 "42" 39 8 false; mkTok 13 "]" 39 11 false; mkTok 42 "calculatedFrom" 39 14 false; mkTok 40 "," 39 29 false; mkTok 42 "packetx" 39 30 false; mkTok 5 "@calculatedFrom(" 39 38 false; mkTok 44 "// packet A { u8 x, }" 39 54 true; mkTok 31 (string_of_bytes [34; 240; 159; 152; 128; 34]%N) 40 0 false; mkTok 6 ")" 40 4 false; mkTok 43 "`a\`" 40 6 false; mkTok 40 "," 40 12 false; mkTok 3 "}" 40 14 false; mkTok 40 "," 40 16 false; mkTok 7 "@lengthOf(" 40 18 false; mkTok 42 "Foo" 40 29 false; mkTok 6 ")" 40 33 false; mkTok 32 "@rightPad" 40 35 false; mkTok 8 "(" 41 0 false; mkTok 44 "// trailing space " 42 4 true; mkTok 33 "'0'" 43 4 false; mkTok 6 ")" 43 9 false; mkTok 27 "int64" 43 11 false; mkTok 42 "o" 43 17 false; mkTok 44 "// trailing space " 44 0 true; mkTok 44 "// `tick` ""quote"" 'q'" 45 0 true; mkTok 7 "@lengthOf(" 46 0 false; mkTok 42 "float" 46 11 false; mkTok 6 ")" 46 17 false; mkTok 40 "," 46 19 false; mkTok 3 "}" 46 21 false; mkTok 37 "MetaData" 47 4 false; mkTok 44 "// a // b" 48 0 true; mkTok 44 "// `tick` ""quote"" 'q'" 49 0 true; mkTok 42 "_x" 50 0 false; mkTok 44 "// @lengthOf(" 51 0 true; mkTok 44 (string_of_bytes [47; 47; 32; 230; 179; 168; 233; 135; 138]%N) 52 0 true; mkTok 2 "{" 53 0 false; mkTok 21 "u16" 54 0 false; mkTok 42 "x_y_z" 54 4 false; mkTok 40 "," 54 10 false; mkTok 44 "//x" 55 4 true; mkTok 14 "zchar[" 56 4 false; mkTok 30 "42" 56 11 false; mkTok 13 "]" 56 14 false; mkTok 42 "falsey" 56 16 false; mkTok 40 "," 56 23 false; mkTok 3 "}" 56 25 false; mkTok 0 "<EOF>" 56 26 false] (mkPacket (mkPtok 34 "root" 1 0 0) (Some (mkPtok 3 "}" 56 25 162)) [(DPacket (mkPacketDef (mkSpan (mkPtok 34 "root" 1 0 0) (mkPtok 3 "}" 29 4 90)) (Some (mkPtok 34 "root" 1 0 0)) (mkPtok 35 "packet" 1 5 1) (mkPtok 42 "Foo" 1 13 2) (mkPtok 2 "{" 1 17 3) [(mkFieldWithAttr (mkSpan (mkPtok 36 "repeat" 2 0 4) (mkPtok 40 "," 21 0 62)) [] (InerObjectField (mkSpan (mkPtok 36 "repeat" 2 0 4) (mkPtok 40 "," 21 0 62)) (Some (mkPtok 36 "repeat" 2 0 4)) (InerObjectDecl (mkSpan (mkPtok 42 "Packet" 3 0 5) (mkPtok 3 "}" 20 21 61)) (mkPtok 42 "Packet" 3 0 5) (mkPtok 2 "{" 3 7 6) [(MatchField (mkSpan (mkPtok 38 "match" 3 9 7) (mkPtok 40 "," 3 42 17)) (mkMatchFieldDecl (mkSpan (mkPtok 38 "match" 3 9 7) (mkPtok 3 "}" 3 40 16)) (mkPtok 38 "match" 3 9 7) (mkPtok 42 "i64_" 3 15 8) (mkPtok 17 "as" 3 20 9) (mkPtok 42 "f32a" 3 23 10) (mkPtok 2 "{" 3 27 11) [(mkMatchPair (mkSpan (mkPtok 31 """1""" 3 29 12) (mkPtok 40 "," 3 38 15)) (MKString (mkPtok 31 """1""" 3 29 12)) (mkPtok 39 ":" 3 33 13) (mkPtok 42 "Z9_" 3 35 14) (Some (mkPtok 40 "," 3 38 15)))] (mkPtok 3 "}" 3 40 16)) (mkPtok 40 "," 3 42 17)); (MatchField (mkSpan (mkPtok 38 "match" 4 0 18) (mkPtok 40 "," 20 19 60)) (mkMatchFieldDecl (mkSpan (mkPtok 38 "match" 4 0 18) (mkPtok 3 "}" 20 17 59)) (mkPtok 38 "match" 4 0 18) (mkPtok 42 "options1" 6 4 20) (mkPtok 17 "as" 6 14 21) (mkPtok 42 "stringy" 6 17 22) (mkPtok 2 "{" 6 24 23) [(mkMatchPair (mkSpan (mkPtok 18 "[" 7 0 24) (mkPtok 42 "Foo" 9 3 28)) (MKList (mkKeyList (mkSpan (mkPtok 18 "[" 7 0 24) (mkPtok 13 "]" 9 0 26)) (mkPtok 18 "[" 7 0 24) (mkPtok 30 "1" 8 0 25) [] (mkPtok 13 "]" 9 0 26))) (mkPtok 39 ":" 9 2 27) (mkPtok 42 "Foo" 9 3 28) None); (mkMatchPair (mkSpan (mkPtok 30 "1" 9 7 29) (mkPtok 40 "," 11 4 33)) (MKDigits (mkPtok 30 "1" 9 7 29)) (mkPtok 39 ":" 9 9 30) (mkPtok 42 "x_y_z" 9 11 31) (Some (mkPtok 40 "," 11 4 33))); (mkMatchPair (mkSpan (mkPtok 18 "[" 14 0 36) (mkPtok 40 "," 19 7 54)) (MKList (mkKeyList (mkSpan (mkPtok 18 "[" 14 0 36) (mkPtok 13 "]" 18 14 50)) (mkPtok 18 "[" 14 0 36) (mkPtok 30 "7" 14 2 37) [((mkPtok 40 "," 14 4 38), (mkPtok 30 "42" 14 6 39)); ((mkPtok 40 "," 15 0 40), (mkPtok 31 """1""" 16 0 41)); ((mkPtok 40 "," 16 5 42), (mkPtok 31 (string_of_bytes [34; 195; 169; 116; 195; 169; 34]%N) 16 7 43)); ((mkPtok 40 "," 16 13 44), (mkPtok 31 (string_of_bytes [34; 92; 195; 169; 34]%N) 17 0 45)); ((mkPtok 40 "," 18 0 46), (mkPtok 31 (string_of_bytes [34; 240; 159; 152; 128; 34]%N) 18 2 47)); ((mkPtok 40 "," 18 6 48), (mkPtok 31 """{,}""" 18 8 49))] (mkPtok 13 "]" 18 14 50))) (mkPtok 39 ":" 19 0 52) (mkPtok 42 "float" 19 2 53) (Some (mkPtok 40 "," 19 7 54))); (mkMatchPair (mkSpan (mkPtok 30 "0123456789" 20 0 55) (mkPtok 40 "," 20 15 58)) (MKDigits (mkPtok 30 "0123456789" 20 0 55)) (mkPtok 39 ":" 20 11 56) (mkPtok 42 "x" 20 13 57) (Some (mkPtok 40 "," 20 15 58)))] (mkPtok 3 "}" 20 17 59)) (mkPtok 40 "," 20 19 60))] (mkPtok 3 "}" 20 21 61)) (mkPtok 40 "," 21 0 62))); (mkFieldWithAttr (mkSpan (mkPtok 7 "@lengthOf(" 21 2 63) (mkPtok 40 "," 24 10 71)) [(FALengthOf (mkSpan (mkPtok 7 "@lengthOf(" 21 2 63) (mkPtok 6 ")" 23 0 67)) (mkLengthOf (mkSpan (mkPtok 7 "@lengthOf(" 21 2 63) (mkPtok 6 ")" 23 0 67)) (mkPtok 7 "@lengthOf(" 21 2 63) (mkPtok 42 "u" 22 0 65) (mkPtok 6 ")" 23 0 67)))] (MetaField (mkSpan (mkPtok 16 "char[]" 23 2 68) (mkPtok 40 "," 24 10 71)) None (mkMetaDecl (mkSpan (mkPtok 16 "char[]" 23 2 68) (mkPtok 40 "," 24 10 71)) (TyDynamic (mkSpan (mkPtok 16 "char[]" 23 2 68) (mkPtok 16 "char[]" 23 2 68)) (mkDynamicString (mkSpan (mkPtok 16 "char[]" 23 2 68) (mkPtok 16 "char[]" 23 2 68)) (mkPtok 16 "char[]" 23 2 68))) (mkPtok 42 "MetaDataX" 24 0 70) None (mkPtok 40 "," 24 10 71)))); (mkFieldWithAttr (mkSpan (mkPtok 9 "@tag(" 24 11 72) (mkPtok 40 "," 25 7 76)) [(FATag (mkSpan (mkPtok 9 "@tag(" 24 11 72) (mkPtok 6 ")" 25 0 74)) (mkTagAttr (mkSpan (mkPtok 9 "@tag(" 24 11 72) (mkPtok 6 ")" 25 0 74)) (mkPtok 9 "@tag(" 24 11 72) (mkPtok 30 "4294967296" 24 17 73) (mkPtok 6 ")" 25 0 74)))] (ObjectField (mkSpan (mkPtok 42 "u128" 25 2 75) (mkPtok 40 "," 25 7 76)) None (mkPtok 42 "u128" 25 2 75) None None (mkPtok 40 "," 25 7 76))); (mkFieldWithAttr (mkSpan (mkPtok 5 "@calculatedFrom(" 25 9 77) (mkPtok 40 "," 28 13 89)) [(FACalculatedFrom (mkSpan (mkPtok 5 "@calculatedFrom(" 25 9 77) (mkPtok 6 ")" 25 30 79)) (mkCalculatedFrom (mkSpan (mkPtok 5 "@calculatedFrom(" 25 9 77) (mkPtok 6 ")" 25 30 79)) (mkPtok 5 "@calculatedFrom(" 25 9 77) (mkPtok 31 (string_of_bytes [34; 240; 159; 152; 128; 34]%N) 25 26 78) (mkPtok 6 ")" 25 30 79))); (FATag (mkSpan (mkPtok 9 "@tag(" 25 31 80) (mkPtok 6 ")" 25 48 82)) (mkTagAttr (mkSpan (mkPtok 9 "@tag(" 25 31 80) (mkPtok 6 ")" 25 48 82)) (mkPtok 9 "@tag(" 25 31 80) (mkPtok 30 "4294967296" 25 37 81) (mkPtok 6 ")" 25 48 82)))] (CheckSumField (mkSpan (mkPtok 42 "MetaDataX" 25 50 83) (mkPtok 40 "," 28 13 89)) (mkChecksumFieldDecl (mkSpan (mkPtok 42 "MetaDataX" 25 50 83) (mkPtok 40 "," 28 13 89)) None (mkPtok 42 "MetaDataX" 25 50 83) (mkCalculatedFrom (mkSpan (mkPtok 5 "@calculatedFrom(" 27 4 85) (mkPtok 6 ")" 28 0 87)) (mkPtok 5 "@calculatedFrom(" 27 4 85) (mkPtok 31 (string_of_bytes [34; 240; 159; 152; 128; 34]%N) 27 21 86) (mkPtok 6 ")" 28 0 87)) (Some (mkPtok 43 (string_of_bytes [96; 116; 97; 98; 9; 104; 101; 114; 101; 96]%N) 28 2 88)) (mkPtok 40 "," 28 13 89))))] (mkPtok 3 "}" 29 4 90))); (DPacket (mkPacketDef (mkSpan (mkPtok 35 "packet" 29 6 91) (mkPtok 3 "}" 46 21 145)) None (mkPtok 35 "packet" 29 6 91) (mkPtok 42 "BodyLength" 29 13 92) (mkPtok 2 "{" 30 4 93) [(mkFieldWithAttr (mkSpan (mkPtok 12 "char[" 31 4 94) (mkPtok 40 "," 32 0 100)) [] (MetaField (mkSpan (mkPtok 12 "char[" 31 4 94) (mkPtok 40 "," 32 0 100)) None (mkMetaDecl (mkSpan (mkPtok 12 "char[" 31 4 94) (mkPtok 40 "," 32 0 100)) (TyFixed (mkSpan (mkPtok 12 "char[" 31 4 94) (mkPtok 13 "]" 31 11 96)) (mkFixedString (mkSpan (mkPtok 12 "char[" 31 4 94) (mkPtok 13 "]" 31 11 96)) (mkPtok 12 "char[" 31 4 94) (mkPtok 30 "0" 31 10 95) (mkPtok 13 "]" 31 11 96))) (mkPtok 42 "u128" 31 12 97) (Some (mkPtok 43 "``" 31 17 98)) (mkPtok 40 "," 32 0 100)))); (mkFieldWithAttr (mkSpan (mkPtok 42 "i64_" 32 2 101) (mkPtok 40 "," 33 4 102)) [] (ObjectField (mkSpan (mkPtok 42 "i64_" 32 2 101) (mkPtok 40 "," 33 4 102)) None (mkPtok 42 "i64_" 32 2 101) None None (mkPtok 40 "," 33 4 102))); (mkFieldWithAttr (mkSpan (mkPtok 36 "repeat" 34 4 103) (mkPtok 40 "," 40 16 128)) [] (InerObjectField (mkSpan (mkPtok 36 "repeat" 34 4 103) (mkPtok 40 "," 40 16 128)) (Some (mkPtok 36 "repeat" 34 4 103)) (InerObjectDecl (mkSpan (mkPtok 42 "matchKey" 35 0 105) (mkPtok 3 "}" 40 14 127)) (mkPtok 42 "matchKey" 35 0 105) (mkPtok 2 "{" 35 8 106) [(MetaField (mkSpan (mkPtok 16 "char[]" 36 4 107) (mkPtok 40 "," 38 0 110)) None (mkMetaDecl (mkSpan (mkPtok 16 "char[]" 36 4 107) (mkPtok 40 "," 38 0 110)) (TyDynamic (mkSpan (mkPtok 16 "char[]" 36 4 107) (mkPtok 16 "char[]" 36 4 107)) (mkDynamicString (mkSpan (mkPtok 16 "char[]" 36 4 107) (mkPtok 16 "char[]" 36 4 107)) (mkPtok 16 "char[]" 36 4 107))) (mkPtok 42 "x" 37 0 108) (Some (mkPtok 43 "`u8 x,`" 37 3 109)) (mkPtok 40 "," 38 0 110))); (ObjectField (mkSpan (mkPtok 42 "u128" 38 2 111) (mkPtok 40 "," 39 0 114)) None (mkPtok 42 "u128" 38 2 111) (Some (mkPtok 42 "f32a" 38 7 112)) (Some (mkPtok 43 "`u8 x,`" 38 12 113)) (mkPtok 40 "," 39 0 114)); (MetaField (mkSpan (mkPtok 12 "char[" 39 2 115) (mkPtok 40 "," 39 29 119)) None (mkMetaDecl (mkSpan (mkPtok 12 "char[" 39 2 115) (mkPtok 40 "," 39 29 119)) (TyFixed (mkSpan (mkPtok 12 "char[" 39 2 115) (mkPtok 13 "]" 39 11 117)) (mkFixedString (mkSpan (mkPtok 12 "char[" 39 2 115) (mkPtok 13 "]" 39 11 117)) (mkPtok 12 "char[" 39 2 115) (mkPtok 30 "42" 39 8 116) (mkPtok 13 "]" 39 11 117))) (mkPtok 42 "calculatedFrom" 39 14 118) None (mkPtok 40 "," 39 29 119))); (CheckSumField (mkSpan (mkPtok 42 "packetx" 39 30 120) (mkPtok 40 "," 40 12 126)) (mkChecksumFieldDecl (mkSpan (mkPtok 42 "packetx" 39 30 120) (mkPtok 40 "," 40 12 126)) None (mkPtok 42 "packetx" 39 30 120) (mkCalculatedFrom (mkSpan (mkPtok 5 "@calculatedFrom(" 39 38 121) (mkPtok 6 ")" 40 4 124)) (mkPtok 5 "@calculatedFrom(" 39 38 121) (mkPtok 31 (string_of_bytes [34; 240; 159; 152; 128; 34]%N) 40 0 123) (mkPtok 6 ")" 40 4 124)) (Some (mkPtok 43 "`a\`" 40 6 125)) (mkPtok 40 "," 40 12 126)))] (mkPtok 3 "}" 40 14 127)) (mkPtok 40 "," 40 16 128))); (mkFieldWithAttr (mkSpan (mkPtok 7 "@lengthOf(" 40 18 129) (mkPtok 40 "," 46 19 144)) [(FALengthOf (mkSpan (mkPtok 7 "@lengthOf(" 40 18 129) (mkPtok 6 ")" 40 33 131)) (mkLengthOf (mkSpan (mkPtok 7 "@lengthOf(" 40 18 129) (mkPtok 6 ")" 40 33 131)) (mkPtok 7 "@lengthOf(" 40 18 129) (mkPtok 42 "Foo" 40 29 130) (mkPtok 6 ")" 40 33 131))); (FAPadding (mkSpan (mkPtok 32 "@rightPad" 40 35 132) (mkPtok 6 ")" 43 9 136)) (mkPaddingAttr (mkSpan (mkPtok 32 "@rightPad" 40 35 132) (mkPtok 6 ")" 43 9 136)) (mkPtok 32 "@rightPad" 40 35 132) (mkPtok 8 "(" 41 0 133) (Some (mkPtok 33 "'0'" 43 4 135)) (mkPtok 6 ")" 43 9 136)))] (LengthField (mkSpan (mkPtok 27 "int64" 43 11 137) (mkPtok 40 "," 46 19 144)) (mkLengthFieldDecl (mkSpan (mkPtok 27 "int64" 43 11 137) (mkPtok 40 "," 46 19 144)) (Some (TyBasic (mkSpan (mkPtok 27 "int64" 43 11 137) (mkPtok 27 "int64" 43 11 137)) (mkBasicType (mkSpan (mkPtok 27 "int64" 43 11 137) (mkPtok 27 "int64" 43 11 137)) (mkPtok 27 "int64" 43 11 137)))) (mkPtok 42 "o" 43 17 138) (mkLengthOf (mkSpan (mkPtok 7 "@lengthOf(" 46 0 141) (mkPtok 6 ")" 46 17 143)) (mkPtok 7 "@lengthOf(" 46 0 141) (mkPtok 42 "float" 46 11 142) (mkPtok 6 ")" 46 17 143)) None (mkPtok 40 "," 46 19 144))))] (mkPtok 3 "}" 46 21 145))); (DMeta (mkMetaDef (mkSpan (mkPtok 37 "MetaData" 47 4 146) (mkPtok 3 "}" 56 25 162)) (mkPtok 37 "MetaData" 47 4 146) (mkPtok 42 "_x" 50 0 149) (mkPtok 2 "{" 53 0 152) [(MIDecl (mkMetaDecl (mkSpan (mkPtok 21 "u16" 54 0 153) (mkPtok 40 "," 54 10 155)) (TyBasic (mkSpan (mkPtok 21 "u16" 54 0 153) (mkPtok 21 "u16" 54 0 153)) (mkBasicType (mkSpan (mkPtok 21 "u16" 54 0 153) (mkPtok 21 "u16" 54 0 153)) (mkPtok 21 "u16" 54 0 153))) (mkPtok 42 "x_y_z" 54 4 154) None (mkPtok 40 "," 54 10 155))); (MIDecl (mkMetaDecl (mkSpan (mkPtok 14 "zchar[" 56 4 157) (mkPtok 40 "," 56 23 161)) (TyFixed (mkSpan (mkPtok 14 "zchar[" 56 4 157) (mkPtok 13 "]" 56 14 159)) (mkFixedString (mkSpan (mkPtok 14 "zchar[" 56 4 157) (mkPtok 13 "]" 56 14 159)) (mkPtok 14 "zchar[" 56 4 157) (mkPtok 30 "42" 56 11 158) (mkPtok 13 "]" 56 14 159))) (mkPtok 42 "falsey" 56 16 160) None (mkPtok 40 "," 56 23 161)))] (mkPtok 3 "}" 56 25 162)))])).
Eval vm_compute in ("<<<M752>>>" ++ check (runes_of_ascii "
packet
matchKey { @calculatedFrom( """ ++ [28040; 24687]%N ++ runes_of_ascii """
) @lengthOf(
lengthOf ) @calculatedFrom( """ ++ [28040; 24687]%N ++ runes_of_ascii """
) match
    /// triple
    trueish as options1// trailing space 
{ 42
:matchKey,} , // " ++ [128512]%N ++ runes_of_ascii " emoji
i64
// trailing space 
//x
u8x , }MetaData float
    { options1 u8x// " ++ [27880; 37322]%N ++ runes_of_ascii "
, options1
//
//
x	, string u `it's` , pack Header `u8 x,` ,
char[] i64_ , } options{ } packet o  { } //
MetaData
    //	t
    MetaDataX
{  }
")).
Eval vm_compute in ("<<<M784>>>" ++ check (runes_of_ascii "options {
    } packet x {	MetaDataX @lengthOf( _x // @lengthOf(
),
    // " ++ [128512]%N ++ runes_of_ascii " emoji
    }
root
    packet metadata{ string float``
,char[ 65535 ]  T `it's`, @lengthOf( msg_type) @tag(42 )
match Header as
    chars  { [
10,
    7
]:
a1 ,
    [//x
""1""
// c
//
] : u128 4294967296
    : options1 , } , // trailing space 
int	@calculatedFrom( ""`tick`""
    ) ,
    MetaDataX
// `tick` ""quote"" 'q'
// c
packetx , zchar[ 10] o, @tag( 007)
    u128 Pad , @calculatedFrom( ""{,}""
    //	t
    )
    // `tick` ""quote"" 'q'
    match options1 as BodyLength{ [00	, 255 , ""x y""
]	:
A ""a\\"" :T ,[ 7	,
    42 ,65535, ""a\""b""
, 7
    , 007 , //	t
""`tick`""  , 0 ]: matchKey ""CRC32""
    // c
    :	falsey ,
} , }
")).
Eval vm_compute in ("<<<M816>>>" ++ check (runes_of_ascii "// trailing space 
packet x_y_z { @tag( 255 )char[] float ,
}")).
Eval vm_compute in ("<<<M848>>>" ++ check (runes_of_ascii "packet
    roots { @calculatedFrom(
    ""1"")
repeat char f32a , zchar[
// " ++ [128512]%N ++ runes_of_ascii " emoji
// `tick` ""quote"" 'q'
42
/// triple
// " ++ [128512]%N ++ runes_of_ascii " emoji
] options1
`
` ,
/// triple
// " ++ [27880; 37322]%N ++ runes_of_ascii "
@calculatedFrom( """ ++ [233]%N ++ runes_of_ascii "t" ++ [233]%N ++ runes_of_ascii """ ) float64 uint8x `say ""hi""`  , packetx
    //	t
    @lengthOf( BodyLength	)  `a\`  ,	@calculatedFrom( ""\" ++ [233]%N ++ runes_of_ascii """ ) chars u8x	`{ , }`
, match _x as len {
    42 : crc, 4294967296 // packet A { u8 x, }
: uint8x ,  10 : BodyLength,
    } //
,@tag(0 )
    // @lengthOf(
    char[ 7] // trailing space 
metadata,
    /// triple
    @tag( 4294967296
)
    match BodyLength
as  chars { ""`tick`"":
x_y_z
    , 42
    //x
    : x_y_z ,0123456789: x },
char[
7 ] rootA`" ++ [28040; 24687; 31867; 22411]%N ++ runes_of_ascii "` ,}
    packet string_ { @calculatedFrom(
    """ ++ [128512]%N ++ runes_of_ascii """)@lengthOf( f32a
    // packet A { u8 x, }
    ) @lengthOf( Pad ) repeat
    //	t
    pack i64_
`line1
line2`,	}
")).
Eval vm_compute in ("<<<M880>>>" ++ check (runes_of_ascii "
")).
Eval vm_compute in ("<<<M912>>>" ++ check (runes_of_ascii "options {
_x
    =	""`tick`"";
    body = 65535 packetx=int8
; metadata =0123456789
    ; }
packet matchKey {
@tag(
//	t
// c
4294967296 ) match leftPad
as T  { ""a\""b"" //
:metadata // " ++ [128512]%N ++ runes_of_ascii " emoji
, [ 42 , 007 , 0 ,
00  ,
// trailing space 
// @lengthOf(
7 ,	""a\\""
,
// c
//	t
""1"" ]
    :metadata
,
[	"""" , ""a	b"" ,
""CRC32""
, 255 ,
    ""a	b"" ]
    : // c
asx
3 :
_x , 65535 // @lengthOf(
: _x , ""\n"" :
Logon ,} ,
    } options { }")).
Eval vm_compute in ("<<<M944>>>" ++ check (runes_of_ascii "MetaData chars
    {
pack
// " ++ [27880; 37322]%N ++ runes_of_ascii "
/// triple
calculatedFrom , }options { } // trailing space ")).
Eval vm_compute in ("<<<T944>>>" ++ terms [mkTok 37 "MetaData" 1 0 false; mkTok 42 "chars" 1 9 false; mkTok 2 "{" 2 4 false; mkTok 42 "pack" 3 0 false; mkTok 44 (string_of_bytes [47; 47; 32; 230; 179; 168; 233; 135; 138]%N) 4 0 true; mkTok 44 "/// triple" 5 0 true; mkTok 42 "calculatedFrom" 6 0 false; mkTok 40 "," 6 15 false; mkTok 3 "}" 6 17 false; mkTok 1 "options" 6 18 false; mkTok 2 "{" 6 26 false; mkTok 3 "}" 6 28 false; mkTok 44 "// trailing space " 6 30 true; mkTok 0 "<EOF>" 6 48 false] (mkPacket (mkPtok 37 "MetaData" 1 0 0) (Some (mkPtok 3 "}" 6 28 11)) [(DMeta (mkMetaDef (mkSpan (mkPtok 37 "MetaData" 1 0 0) (mkPtok 3 "}" 6 17 8)) (mkPtok 37 "MetaData" 1 0 0) (mkPtok 42 "chars" 1 9 1) (mkPtok 2 "{" 2 4 2) [(MIRef (mkRefMetaDecl (mkSpan (mkPtok 42 "pack" 3 0 3) (mkPtok 40 "," 6 15 7)) (mkPtok 42 "pack" 3 0 3) (mkPtok 42 "calculatedFrom" 6 0 6) None (mkPtok 40 "," 6 15 7)))] (mkPtok 3 "}" 6 17 8))); (DOption (mkOptionDef (mkSpan (mkPtok 1 "options" 6 18 9) (mkPtok 3 "}" 6 28 11)) (mkPtok 1 "options" 6 18 9) (mkPtok 2 "{" 6 26 10) [] (mkPtok 3 "}" 6 28 11)))])).
Eval vm_compute in ("<<<M976>>>" ++ check (runes_of_ascii "
root
packet
    u
{ @tag(
    4294967296	) // packet A { u8 x, }
@rightPad( '0' ) @tag(
    7 ) repeat x , char[ // packet A { u8 x, }
42	]
charz
    @lengthOf(Z9_) `line1
line2`,zchar[ 65535 ] // `tick` ""quote"" 'q'
crc @lengthOf( string_// a // b
),
    char[ 65535
]// trailing space 
trueish `crlf
line` ,repeat x_y_z leftPad `" ++ [233]%N ++ runes_of_ascii "` ,T
@calculatedFrom(
""\n"")
,  A ,
char[]  crc @lengthOf( matchKey ) , repeat
// @lengthOf(
/// triple
rootA // @lengthOf(
`tab	here` , @rightPad
//
//	t
( ' ' ) match roots as charz {
""{,}""	: len ,
    """" :
Z9_ ,// trailing space 
""abc""
    : roots
    ,
} ,} packet _x {	@leftPad(// a // b
'\x00' )
    match tag	as u8x { """ ++ [128512]%N ++ runes_of_ascii """ : asx // packet A { u8 x, }
, 4294967296
:
// a // b
// `tick` ""quote"" 'q'
u,
    [
""" ++ [28040; 24687]%N ++ runes_of_ascii """ , 7 , 7 ,
    ""{,}"" , ""a	b"" //x
]// `tick` ""quote"" 'q'
:
metadata
    ,} ,
match
uint8x	as // a // b
x_y_z // c
{	[ 3 //x
, 42
    , // @lengthOf(
""\" ++ [233]%N ++ runes_of_ascii """ ,""\" ++ [233]%N ++ runes_of_ascii """,
""a	b"",007 ,42// packet A { u8 x, }
, ""{,}"" // c
]
: u128
    // trailing space 
    , //	t
""a\\""
    : Foo
,} ,i16 metadata,@leftPad ( ' '	)  u8 Logon
// c
// @lengthOf(
`// not a comment` , Pad {
zchar[  0//x
] int @calculatedFrom( ""it's"" ) , } ,char[
65535
    // trailing space 
    ]
    //x
    i8i8`crlf
line` , string_
, } packet x_y_z {u8 uint8x, match pack as Pad
    { ""it's"" : asx ""`tick`"" :a1 , [  0
    ] : // `tick` ""quote"" 'q'
u128
    , 42 : o
    ,	""" ++ [128512]%N ++ runes_of_ascii """  :	tag // " ++ [27880; 37322]%N ++ runes_of_ascii "
,	} , repeat
i8
    // packet A { u8 x, }
    MetaDataX,@lengthOf( charz ) asx @lengthOf(
    A
) ,  @calculatedFrom(
""{,}"" )@lengthOf( leftPad )@rightPad (
) stringy
    // @lengthOf(
    Z9_ `` ,
calculatedFrom `" ++ [28040; 24687; 31867; 22411]%N ++ runes_of_ascii "`, }	packet // " ++ [27880; 37322]%N ++ runes_of_ascii "
matchKey {@calculatedFrom( ""\n"" ) f32 msg_type , zchar[	10	] chars ,}
")).
Eval vm_compute in ("<<<M1008>>>" ++ check (runes_of_ascii "options {	o/// triple
= '0'
; } packet // @lengthOf(
u128	{
// @lengthOf(
// `tick` ""quote"" 'q'
@calculatedFrom(""{,}"" )
uint16
pack
@calculatedFrom( """ ++ [233]%N ++ runes_of_ascii "t" ++ [233]%N ++ runes_of_ascii """)
, }
packet
A { //x
u8 chars@lengthOf( BodyLength )
    ,
    lengthOf @calculatedFrom(//x
""// no comment""
    ) , x_y_z{ string
    Pad  `" ++ [233]%N ++ runes_of_ascii "` ,
    // " ++ [27880; 37322]%N ++ runes_of_ascii "
    len{ zchar[ 0123456789 ]
T
    ,
    match // a // b
u128 as	metadata  { 3 : u128 , ""\n"" :x [ """ ++ [233]%N ++ runes_of_ascii "t" ++ [233]%N ++ runes_of_ascii """,
//
// " ++ [27880; 37322]%N ++ runes_of_ascii "
""packet""
    ] : // @lengthOf(
tag 10
: options1 , ""abc""
    : // trailing space 
u ,	},} ,tag
@calculatedFrom(
    // packet A { u8 x, }
    """" )
`it's`	, } , } // " ++ [27880; 37322]%N)).
Eval vm_compute in ("<<<M1040>>>" ++ check (@nil rune)).
Eval vm_compute in ("<<<M1072>>>" ++ check (runes_of_ascii "// c
packet options1 {	roots
    // " ++ [128512]%N ++ runes_of_ascii " emoji
    @lengthOf( zchar ) , @calculatedFrom(
""" ++ [128512]%N ++ runes_of_ascii """
)uint64 //
matchKey
, @tag(
42 ) i64
    // trailing space 
    Logon@lengthOf(
i64_  )// `tick` ""quote"" 'q'
`doc` //x
, @calculatedFrom(""a\""b""
    ) A , @calculatedFrom(
    ""it's"")repeat Pad``
, @tag( 7 ) zchar[ 00 ]  trueish`" ++ [233]%N ++ runes_of_ascii "`, repeat options1 {
repeatCount
{
Header ,
char[
// " ++ [128512]%N ++ runes_of_ascii " emoji
// packet A { u8 x, }
7 ]
Logon
`a\` , /// triple
}
,}, char[1
] int
`doc` , // a // b
@calculatedFrom(""""
)@calculatedFrom(
    ""a	b""
)
@lengthOf( packetx )
msg_type// trailing space 
{ string calculatedFrom `{ , }`
    // `tick` ""quote"" 'q'
    , zchar  @calculatedFrom(""" ++ [28040; 24687]%N ++ runes_of_ascii """
) , uint8
// " ++ [128512]%N ++ runes_of_ascii " emoji
// trailing space 
o `doc` // " ++ [128512]%N ++ runes_of_ascii " emoji
, f32a ,}  , //x
} MetaData
    Z9_ {
char A//	t
, }packet // trailing space 
options1 {
msg_type { chars ,	zchar[
3 ] crc
    `doc`, } ,
@lengthOf( crc) @tag(10) @lengthOf(asx
    )zchar[ 10 ]
Header @calculatedFrom( ""a\\"" ) `u8 x,` ,
} packet
int
{ string x_y_z , @calculatedFrom( ""\" ++ [233]%N ++ runes_of_ascii """)	match pack as
    roots { 65535 :
    options1 , // @lengthOf(
}
,
    }
")).
Eval vm_compute in ("<<<M1104>>>" ++ check (runes_of_ascii "packet x_y_z { char stringy@calculatedFrom( """ ++ [233]%N ++ runes_of_ascii "t" ++ [233]%N ++ runes_of_ascii """ ), } /// triple")).
Eval vm_compute in ("<<<M1136>>>" ++ check (runes_of_ascii "MetaData Logon {
    }
    packet trueish	{calculatedFrom@lengthOf(
leftPad )
    ,
char[]chars @lengthOf(rootA) `u8 x,`
,
@calculatedFrom(""""
// @lengthOf(
// @lengthOf(
)As @lengthOf( repeatCount) // " ++ [128512]%N ++ runes_of_ascii " emoji
`two words`// c
,
asx
`it's` // packet A { u8 x, }
,// " ++ [27880; 37322]%N ++ runes_of_ascii "
} packet
MetaDataX	{repeat	u8  i8i8
`" ++ [233]%N ++ runes_of_ascii "`
, uint8 int @lengthOf( uint8x)  ,
u16 T@lengthOf( body
// packet A { u8 x, }
/// triple
) `" ++ [28040; 24687; 31867; 22411]%N ++ runes_of_ascii "` , zchar[ 3] trueish , @calculatedFrom( ""x y"" ) repeat zchar[ 00 ] zchar , }")).
Eval vm_compute in ("<<<M1168>>>" ++ check (runes_of_ascii "packet i8i8 {
@calculatedFrom( // @lengthOf(
""it's"")@leftPad ( // " ++ [27880; 37322]%N ++ runes_of_ascii "
'0'
) @lengthOf(msg_type  )u8 Logon
    `tab	here`,
}
")).
Eval vm_compute in ("<<<T1168>>>" ++ terms [mkTok 35 "packet" 1 0 false; mkTok 42 "i8i8" 1 7 false; mkTok 2 "{" 1 12 false; mkTok 5 "@calculatedFrom(" 2 0 false; mkTok 44 "// @lengthOf(" 2 17 true; mkTok 31 """it's""" 3 0 false; mkTok 6 ")" 3 6 false; mkTok 32 "@leftPad" 3 7 false; mkTok 8 "(" 3 16 false; mkTok 44 (string_of_bytes [47; 47; 32; 230; 179; 168; 233; 135; 138]%N) 3 18 true; mkTok 33 "'0'" 4 0 false; mkTok 6 ")" 5 0 false; mkTok 7 "@lengthOf(" 5 2 false; mkTok 42 "msg_type" 5 12 false; mkTok 6 ")" 5 22 false; mkTok 20 "u8" 5 23 false; mkTok 42 "Logon" 5 26 false; mkTok 43 (string_of_bytes [96; 116; 97; 98; 9; 104; 101; 114; 101; 96]%N) 6 4 false; mkTok 40 "," 6 14 false; mkTok 3 "}" 7 0 false; mkTok 0 "<EOF>" 8 0 false] (mkPacket (mkPtok 35 "packet" 1 0 0) (Some (mkPtok 3 "}" 7 0 19)) [(DPacket (mkPacketDef (mkSpan (mkPtok 35 "packet" 1 0 0) (mkPtok 3 "}" 7 0 19)) None (mkPtok 35 "packet" 1 0 0) (mkPtok 42 "i8i8" 1 7 1) (mkPtok 2 "{" 1 12 2) [(mkFieldWithAttr (mkSpan (mkPtok 5 "@calculatedFrom(" 2 0 3) (mkPtok 40 "," 6 14 18)) [(FACalculatedFrom (mkSpan (mkPtok 5 "@calculatedFrom(" 2 0 3) (mkPtok 6 ")" 3 6 6)) (mkCalculatedFrom (mkSpan (mkPtok 5 "@calculatedFrom(" 2 0 3) (mkPtok 6 ")" 3 6 6)) (mkPtok 5 "@calculatedFrom(" 2 0 3) (mkPtok 31 """it's""" 3 0 5) (mkPtok 6 ")" 3 6 6))); (FAPadding (mkSpan (mkPtok 32 "@leftPad" 3 7 7) (mkPtok 6 ")" 5 0 11)) (mkPaddingAttr (mkSpan (mkPtok 32 "@leftPad" 3 7 7) (mkPtok 6 ")" 5 0 11)) (mkPtok 32 "@leftPad" 3 7 7) (mkPtok 8 "(" 3 16 8) (Some (mkPtok 33 "'0'" 4 0 10)) (mkPtok 6 ")" 5 0 11))); (FALengthOf (mkSpan (mkPtok 7 "@lengthOf(" 5 2 12) (mkPtok 6 ")" 5 22 14)) (mkLengthOf (mkSpan (mkPtok 7 "@lengthOf(" 5 2 12) (mkPtok 6 ")" 5 22 14)) (mkPtok 7 "@lengthOf(" 5 2 12) (mkPtok 42 "msg_type" 5 12 13) (mkPtok 6 ")" 5 22 14)))] (MetaField (mkSpan (mkPtok 20 "u8" 5 23 15) (mkPtok 40 "," 6 14 18)) None (mkMetaDecl (mkSpan (mkPtok 20 "u8" 5 23 15) (mkPtok 40 "," 6 14 18)) (TyBasic (mkSpan (mkPtok 20 "u8" 5 23 15) (mkPtok 20 "u8" 5 23 15)) (mkBasicType (mkSpan (mkPtok 20 "u8" 5 23 15) (mkPtok 20 "u8" 5 23 15)) (mkPtok 20 "u8" 5 23 15))) (mkPtok 42 "Logon" 5 26 16) (Some (mkPtok 43 (string_of_bytes [96; 116; 97; 98; 9; 104; 101; 114; 101; 96]%N) 6 4 17)) (mkPtok 40 "," 6 14 18))))] (mkPtok 3 "}" 7 0 19)))])).
Eval vm_compute in ("<<<M1200>>>" ++ check (runes_of_ascii "  ")).
Eval vm_compute in ("<<<M1232>>>" ++ check (runes_of_ascii "root packet len
    { }
")).
Eval vm_compute in ("<<<M1264>>>" ++ check (runes_of_ascii "
")).
Eval vm_compute in ("<<<M1296>>>" ++ check (runes_of_ascii "
MetaData u8x { msg_type
    matchKey, }
")).
Eval vm_compute in ("<<<M1328>>>" ++ check (runes_of_ascii "packet leftPad { repeat string x	,float matchKey  `u8 x,` ,	repeat zchar[1 ]  u8x `doc` , @leftPad
( ' ' ) i8i8 @lengthOf(
rootA )// c
,
//	t
// trailing space 
int8 //
x `doc` ,
// c
// @lengthOf(
@tag( 1) @leftPad (
'\x00' ) @lengthOf( // packet A { u8 x, }
_x
)
char[] x @calculatedFrom(""""
    )
    ,	}
")).
Eval vm_compute in ("<<<M1360>>>" ++ check (runes_of_ascii "MetaData stringy {string
zchar, zchar
uint8x  , string BodyLength `{ , }`
// @lengthOf(
// " ++ [128512]%N ++ runes_of_ascii " emoji
,
    zchar[  1 ]
crc `doc` ,	zchar[ 7
] T//	t
`two words`, char[] A `a\`,
} packet
    string_{
repeat len `a\` ,
zchar
    `" ++ [233]%N ++ runes_of_ascii "` ,	}
    MetaData
x_y_z { stringy
    metadata
    , char[]Z9_
`it's` ,}
packet // a // b
falsey {
    @calculatedFrom(
// " ++ [27880; 37322]%N ++ runes_of_ascii "
// @lengthOf(
""" ++ [233]%N ++ runes_of_ascii "t" ++ [233]%N ++ runes_of_ascii """
)match Pad as u
{0123456789
    //	t
    :	trueish,	} , // " ++ [128512]%N ++ runes_of_ascii " emoji
repeat
    char[] calculatedFrom `u8 x,`, f64
    A ,
    body @calculatedFrom( ""`tick`"" // `tick` ""quote"" 'q'
) , }root
packet roots  { zchar[ 10 ]roots
`crlf
line`	,
Z9_
{ zchar[ 7 ] leftPad`" ++ [233]%N ++ runes_of_ascii "` ,} ,
int64 calculatedFrom `a\` , crc
    u128 ,
char[
1	] A@calculatedFrom( ""{,}"") `doc`  , }
")).
Eval vm_compute in ("<<<M1392>>>" ++ check (runes_of_ascii "/// triple
packet BodyLength { @calculatedFrom( ""packet"" ) //x
char[]
    options1 @calculatedFrom( ""\" ++ [233]%N ++ runes_of_ascii """ )
,zchar[ 255 // " ++ [128512]%N ++ runes_of_ascii " emoji
] metadata , }options	{ int =	'\x00'; stringy =
false
    T
    // " ++ [128512]%N ++ runes_of_ascii " emoji
    =
    0 trueish
    =
    //	t
    10
}
")).
Eval vm_compute in ("<<<T1392>>>" ++ terms [mkTok 44 "/// triple" 1 0 true; mkTok 35 "packet" 2 0 false; mkTok 42 "BodyLength" 2 7 false; mkTok 2 "{" 2 18 false; mkTok 5 "@calculatedFrom(" 2 20 false; mkTok 31 """packet""" 2 37 false; mkTok 6 ")" 2 46 false; mkTok 44 "//x" 2 48 true; mkTok 16 "char[]" 3 0 false; mkTok 42 "options1" 4 4 false; mkTok 5 "@calculatedFrom(" 4 13 false; mkTok 31 (string_of_bytes [34; 92; 195; 169; 34]%N) 4 30 false; mkTok 6 ")" 4 35 false; mkTok 40 "," 5 0 false; mkTok 14 "zchar[" 5 1 false; mkTok 30 "255" 5 8 false; mkTok 44 (string_of_bytes [47; 47; 32; 240; 159; 152; 128; 32; 101; 109; 111; 106; 105]%N) 5 12 true; mkTok 13 "]" 6 0 false; mkTok 42 "metadata" 6 2 false; mkTok 40 "," 6 11 false; mkTok 3 "}" 6 13 false; mkTok 1 "options" 6 14 false; mkTok 2 "{" 6 22 false; mkTok 42 "int" 6 24 false; mkTok 4 "=" 6 28 false; mkTok 33 "'\x00'" 6 30 false; mkTok 41 ";" 6 36 false; mkTok 42 "stringy" 6 38 false; mkTok 4 "=" 6 46 false; mkTok 11 "false" 7 0 false; mkTok 42 "T" 8 4 false; mkTok 44 (string_of_bytes [47; 47; 32; 240; 159; 152; 128; 32; 101; 109; 111; 106; 105]%N) 9 4 true; mkTok 4 "=" 10 4 false; mkTok 30 "0" 11 4 false; mkTok 42 "trueish" 11 6 false; mkTok 4 "=" 12 4 false; mkTok 44 (string_of_bytes [47; 47; 9; 116]%N) 13 4 true; mkTok 30 "10" 14 4 false; mkTok 3 "}" 15 0 false; mkTok 0 "<EOF>" 16 0 false] (mkPacket (mkPtok 35 "packet" 2 0 1) (Some (mkPtok 3 "}" 15 0 38)) [(DPacket (mkPacketDef (mkSpan (mkPtok 35 "packet" 2 0 1) (mkPtok 3 "}" 6 13 20)) None (mkPtok 35 "packet" 2 0 1) (mkPtok 42 "BodyLength" 2 7 2) (mkPtok 2 "{" 2 18 3) [(mkFieldWithAttr (mkSpan (mkPtok 5 "@calculatedFrom(" 2 20 4) (mkPtok 40 "," 5 0 13)) [(FACalculatedFrom (mkSpan (mkPtok 5 "@calculatedFrom(" 2 20 4) (mkPtok 6 ")" 2 46 6)) (mkCalculatedFrom (mkSpan (mkPtok 5 "@calculatedFrom(" 2 20 4) (mkPtok 6 ")" 2 46 6)) (mkPtok 5 "@calculatedFrom(" 2 20 4) (mkPtok 31 """packet""" 2 37 5) (mkPtok 6 ")" 2 46 6)))] (CheckSumField (mkSpan (mkPtok 16 "char[]" 3 0 8) (mkPtok 40 "," 5 0 13)) (mkChecksumFieldDecl (mkSpan (mkPtok 16 "char[]" 3 0 8) (mkPtok 40 "," 5 0 13)) (Some (TyDynamic (mkSpan (mkPtok 16 "char[]" 3 0 8) (mkPtok 16 "char[]" 3 0 8)) (mkDynamicString (mkSpan (mkPtok 16 "char[]" 3 0 8) (mkPtok 16 "char[]" 3 0 8)) (mkPtok 16 "char[]" 3 0 8)))) (mkPtok 42 "options1" 4 4 9) (mkCalculatedFrom (mkSpan (mkPtok 5 "@calculatedFrom(" 4 13 10) (mkPtok 6 ")" 4 35 12)) (mkPtok 5 "@calculatedFrom(" 4 13 10) (mkPtok 31 (string_of_bytes [34; 92; 195; 169; 34]%N) 4 30 11) (mkPtok 6 ")" 4 35 12)) None (mkPtok 40 "," 5 0 13)))); (mkFieldWithAttr (mkSpan (mkPtok 14 "zchar[" 5 1 14) (mkPtok 40 "," 6 11 19)) [] (MetaField (mkSpan (mkPtok 14 "zchar[" 5 1 14) (mkPtok 40 "," 6 11 19)) None (mkMetaDecl (mkSpan (mkPtok 14 "zchar[" 5 1 14) (mkPtok 40 "," 6 11 19)) (TyFixed (mkSpan (mkPtok 14 "zchar[" 5 1 14) (mkPtok 13 "]" 6 0 17)) (mkFixedString (mkSpan (mkPtok 14 "zchar[" 5 1 14) (mkPtok 13 "]" 6 0 17)) (mkPtok 14 "zchar[" 5 1 14) (mkPtok 30 "255" 5 8 15) (mkPtok 13 "]" 6 0 17))) (mkPtok 42 "metadata" 6 2 18) None (mkPtok 40 "," 6 11 19))))] (mkPtok 3 "}" 6 13 20))); (DOption (mkOptionDef (mkSpan (mkPtok 1 "options" 6 14 21) (mkPtok 3 "}" 15 0 38)) (mkPtok 1 "options" 6 14 21) (mkPtok 2 "{" 6 22 22) [(mkOptionDecl (mkSpan (mkPtok 42 "int" 6 24 23) (mkPtok 41 ";" 6 36 26)) (mkPtok 42 "int" 6 24 23) (mkPtok 4 "=" 6 28 24) (VPaddingChar (mkSpan (mkPtok 33 "'\x00'" 6 30 25) (mkPtok 33 "'\x00'" 6 30 25)) (mkPtok 33 "'\x00'" 6 30 25)) (Some (mkPtok 41 ";" 6 36 26))); (mkOptionDecl (mkSpan (mkPtok 42 "stringy" 6 38 27) (mkPtok 11 "false" 7 0 29)) (mkPtok 42 "stringy" 6 38 27) (mkPtok 4 "=" 6 46 28) (VFalse (mkSpan (mkPtok 11 "false" 7 0 29) (mkPtok 11 "false" 7 0 29)) (mkPtok 11 "false" 7 0 29)) None); (mkOptionDecl (mkSpan (mkPtok 42 "T" 8 4 30) (mkPtok 30 "0" 11 4 33)) (mkPtok 42 "T" 8 4 30) (mkPtok 4 "=" 10 4 32) (VDigits (mkSpan (mkPtok 30 "0" 11 4 33) (mkPtok 30 "0" 11 4 33)) (mkPtok 30 "0" 11 4 33)) None); (mkOptionDecl (mkSpan (mkPtok 42 "trueish" 11 6 34) (mkPtok 30 "10" 14 4 37)) (mkPtok 42 "trueish" 11 6 34) (mkPtok 4 "=" 12 4 35) (VDigits (mkSpan (mkPtok 30 "10" 14 4 37) (mkPtok 30 "10" 14 4 37)) (mkPtok 30 "10" 14 4 37)) None)] (mkPtok 3 "}" 15 0 38)))])).
Eval vm_compute in ("<<<M1424>>>" ++ check (runes_of_ascii "/// triple
MetaData T {
    string_ falsey `u8 x,`, // packet A { u8 x, }
matchKey chars `u8 x,`, calculatedFrom
f32a `doc` ,
/// triple
// trailing space 
}")).
Eval vm_compute in ("<<<M1456>>>" ++ check (runes_of_ascii "options {	x=
    ""// no comment"" }	packet trueish { @lengthOf(
_x )Header // " ++ [128512]%N ++ runes_of_ascii " emoji
{
char[]
    Pad @calculatedFrom( """ ++ [28040; 24687]%N ++ runes_of_ascii """ )  ,  float64 msg_type , }	,repeat string
    packetx `u8 x,`, match Header
    as  charz
    {
    65535: pack
    ,} // " ++ [128512]%N ++ runes_of_ascii " emoji
, } packet float { } root packet A { @calculatedFrom(	""x y"" )// @lengthOf(
string
// " ++ [128512]%N ++ runes_of_ascii " emoji
// " ++ [128512]%N ++ runes_of_ascii " emoji
len @lengthOf( metadata
)
, }")).
Eval vm_compute in ("<<<M1488>>>" ++ check (runes_of_ascii "packet trueish { Header repeatCount
,
    repeat metadata //	t
tag // packet A { u8 x, }
, //	t
@lengthOf( calculatedFrom	) MetaDataX @lengthOf( packetx ) // a // b
, }
")).
Eval vm_compute in ("<<<M1520>>>" ++ check (runes_of_ascii "MetaData /// triple
Foo{ float32 Foo // @lengthOf(
,	} // " ++ [27880; 37322]%N)).
Eval vm_compute in ("<<<M1552>>>" ++ check (runes_of_ascii "// " ++ [27880; 37322]%N ++ runes_of_ascii "
MetaData	float
    { char[] matchKey ,
    char[
//x
//
1 ]Pad
// " ++ [27880; 37322]%N ++ runes_of_ascii "
// trailing space 
`doc` , i16
    metadata,
zchar[ 0 ] metadata`// not a comment`,
metadata pack,
}options
{ int=""it's""; Header=65535; float  = // packet A { u8 x, }
""abc"" chars
= 65535}packet Packet { @tag(
255)
    @tag(// a // b
4294967296
    )
rootA
`two words` , }")).
Eval vm_compute in ("<<<M1584>>>" ++ check (@nil rune)).
Eval vm_compute in ("<<<M1616>>>" ++ check (@nil rune)).
Eval vm_compute in ("<<<T1616>>>" ++ terms [mkTok 0 "<EOF>" 1 0 false] (mkPacket (mkPtok 0 "<EOF>" 1 0 0) None [])).
Eval vm_compute in ("<<<M1648>>>" ++ check (runes_of_ascii "MetaData Packet { char[
    255  ]  _x `line1
line2`	,
Z9_ u8x ,	} 	 ")).
Eval vm_compute in ("<<<M1680>>>" ++ check (runes_of_ascii "options
    { f32a
    =
true
calculatedFrom
= """ ++ [28040; 24687]%N ++ runes_of_ascii """
    packetx	=4294967296 } MetaData	tag{
    uint8x
calculatedFrom , }
")).
Eval vm_compute in ("<<<M1712>>>" ++ check (runes_of_ascii "
MetaData u8x
    {	int32 Pad `tab	here`
/// triple
// @lengthOf(
,uint16 stringy
    ,Z9_
    msg_type
// packet A { u8 x, }
// @lengthOf(
, char[]  As /// triple
,
// " ++ [27880; 37322]%N ++ runes_of_ascii "
//	t
u8
    matchKey ,}// " ++ [27880; 37322]%N ++ runes_of_ascii "
packet repeatCount
{ } options { }packet // c
u
{ // `tick` ""quote"" 'q'
zchar[
65535 ] len ,
    // packet A { u8 x, }
    }
MetaData MetaDataX {
char[
    7 ]
u8x	``
    // " ++ [128512]%N ++ runes_of_ascii " emoji
    , }
// packet A { u8 x, }
")).
Eval vm_compute in ("<<<M1744>>>" ++ check (runes_of_ascii "packet  Pad {}

")).
Eval vm_compute in ("<<<M1776>>>" ++ check (runes_of_ascii "options
{	Pad
= ' ' ; }
packet roots {char[
255 ]
u8x @calculatedFrom( ""`tick`"" ) ,} options
    //x
    { //
i8i8
=
char[] }
")).
Eval vm_compute in ("<<<M1808>>>" ++ check (runes_of_ascii "packet Logon{ }root
    packet
    _x {
match packetx as asx
    //
    {	0123456789:options1, } , zchar[ 10
    ] f32a @lengthOf(
    Z9_
// c
// trailing space 
) ,uint64 A
@calculatedFrom( """ ++ [28040; 24687]%N ++ runes_of_ascii """// packet A { u8 x, }
) , } 	 ")).
Eval vm_compute in ("<<<M1840>>>" ++ check (runes_of_ascii "options { u128  = true string_ = zchar[ 1 ] ; body
    = '\x00';} options
{ stringy // " ++ [128512]%N ++ runes_of_ascii " emoji
= true ; // " ++ [27880; 37322]%N ++ runes_of_ascii "
o= ""a	b"" Z9_
    = """ ++ [233]%N ++ runes_of_ascii "t" ++ [233]%N ++ runes_of_ascii """ crc = true
;  packetx
    =
uint32
    ; }
    options	{lengthOf
// trailing space 
// @lengthOf(
=	3 ; i8i8 =int16
    ;
metadata =
    4294967296 T  =""""; /// triple
Z9_
=//x
255 ;
    }")).
Eval vm_compute in ("<<<T1840>>>" ++ terms [mkTok 1 "options" 1 0 false; mkTok 2 "{" 1 8 false; mkTok 42 "u128" 1 10 false; mkTok 4 "=" 1 16 false; mkTok 10 "true" 1 18 false; mkTok 42 "string_" 1 23 false; mkTok 4 "=" 1 31 false; mkTok 14 "zchar[" 1 33 false; mkTok 30 "1" 1 40 false; mkTok 13 "]" 1 42 false; mkTok 41 ";" 1 44 false; mkTok 42 "body" 1 46 false; mkTok 4 "=" 2 4 false; mkTok 33 "'\x00'" 2 6 false; mkTok 41 ";" 2 12 false; mkTok 3 "}" 2 13 false; mkTok 1 "options" 2 15 false; mkTok 2 "{" 3 0 false; mkTok 42 "stringy" 3 2 false; mkTok 44 (string_of_bytes [47; 47; 32; 240; 159; 152; 128; 32; 101; 109; 111; 106; 105]%N) 3 10 true; mkTok 4 "=" 4 0 false; mkTok 10 "true" 4 2 false; mkTok 41 ";" 4 7 false; mkTok 44 (string_of_bytes [47; 47; 32; 230; 179; 168; 233; 135; 138]%N) 4 9 true; mkTok 42 "o" 5 0 false; mkTok 4 "=" 5 1 false; mkTok 31 (string_of_bytes [34; 97; 9; 98; 34]%N) 5 3 false; mkTok 42 "Z9_" 5 9 false; mkTok 4 "=" 6 4 false; mkTok 31 (string_of_bytes [34; 195; 169; 116; 195; 169; 34]%N) 6 6 false; mkTok 42 "crc" 6 12 false; mkTok 4 "=" 6 16 false; mkTok 10 "true" 6 18 false; mkTok 41 ";" 7 0 false; mkTok 42 "packetx" 7 3 false; mkTok 4 "=" 8 4 false; mkTok 22 "uint32" 9 0 false; mkTok 41 ";" 10 4 false; mkTok 3 "}" 10 6 false; mkTok 1 "options" 11 4 false; mkTok 2 "{" 11 12 false; mkTok 42 "lengthOf" 11 13 false; mkTok 44 "// trailing space " 12 0 true; mkTok 44 "// @lengthOf(" 13 0 true; mkTok 4 "=" 14 0 false; mkTok 30 "3" 14 2 false; mkTok 41 ";" 14 4 false; mkTok 42 "i8i8" 14 6 false; mkTok 4 "=" 14 11 false; mkTok 25 "int16" 14 12 false; mkTok 41 ";" 15 4 false; mkTok 42 "metadata" 16 0 false; mkTok 4 "=" 16 9 false; mkTok 30 "4294967296" 17 4 false; mkTok 42 "T" 17 15 false; mkTok 4 "=" 17 18 false; mkTok 31 """""" 17 19 false; mkTok 41 ";" 17 21 false; mkTok 44 "/// triple" 17 23 true; mkTok 42 "Z9_" 18 0 false; mkTok 4 "=" 19 0 false; mkTok 44 "//x" 19 1 true; mkTok 30 "255" 20 0 false; mkTok 41 ";" 20 4 false; mkTok 3 "}" 21 4 false; mkTok 0 "<EOF>" 21 5 false] (mkPacket (mkPtok 1 "options" 1 0 0) (Some (mkPtok 3 "}" 21 4 64)) [(DOption (mkOptionDef (mkSpan (mkPtok 1 "options" 1 0 0) (mkPtok 3 "}" 2 13 15)) (mkPtok 1 "options" 1 0 0) (mkPtok 2 "{" 1 8 1) [(mkOptionDecl (mkSpan (mkPtok 42 "u128" 1 10 2) (mkPtok 10 "true" 1 18 4)) (mkPtok 42 "u128" 1 10 2) (mkPtok 4 "=" 1 16 3) (VTrue (mkSpan (mkPtok 10 "true" 1 18 4) (mkPtok 10 "true" 1 18 4)) (mkPtok 10 "true" 1 18 4)) None); (mkOptionDecl (mkSpan (mkPtok 42 "string_" 1 23 5) (mkPtok 41 ";" 1 44 10)) (mkPtok 42 "string_" 1 23 5) (mkPtok 4 "=" 1 31 6) (VType (mkSpan (mkPtok 14 "zchar[" 1 33 7) (mkPtok 13 "]" 1 42 9)) (TyFixed (mkSpan (mkPtok 14 "zchar[" 1 33 7) (mkPtok 13 "]" 1 42 9)) (mkFixedString (mkSpan (mkPtok 14 "zchar[" 1 33 7) (mkPtok 13 "]" 1 42 9)) (mkPtok 14 "zchar[" 1 33 7) (mkPtok 30 "1" 1 40 8) (mkPtok 13 "]" 1 42 9)))) (Some (mkPtok 41 ";" 1 44 10))); (mkOptionDecl (mkSpan (mkPtok 42 "body" 1 46 11) (mkPtok 41 ";" 2 12 14)) (mkPtok 42 "body" 1 46 11) (mkPtok 4 "=" 2 4 12) (VPaddingChar (mkSpan (mkPtok 33 "'\x00'" 2 6 13) (mkPtok 33 "'\x00'" 2 6 13)) (mkPtok 33 "'\x00'" 2 6 13)) (Some (mkPtok 41 ";" 2 12 14)))] (mkPtok 3 "}" 2 13 15))); (DOption (mkOptionDef (mkSpan (mkPtok 1 "options" 2 15 16) (mkPtok 3 "}" 10 6 38)) (mkPtok 1 "options" 2 15 16) (mkPtok 2 "{" 3 0 17) [(mkOptionDecl (mkSpan (mkPtok 42 "stringy" 3 2 18) (mkPtok 41 ";" 4 7 22)) (mkPtok 42 "stringy" 3 2 18) (mkPtok 4 "=" 4 0 20) (VTrue (mkSpan (mkPtok 10 "true" 4 2 21) (mkPtok 10 "true" 4 2 21)) (mkPtok 10 "true" 4 2 21)) (Some (mkPtok 41 ";" 4 7 22))); (mkOptionDecl (mkSpan (mkPtok 42 "o" 5 0 24) (mkPtok 31 (string_of_bytes [34; 97; 9; 98; 34]%N) 5 3 26)) (mkPtok 42 "o" 5 0 24) (mkPtok 4 "=" 5 1 25) (VString (mkSpan (mkPtok 31 (string_of_bytes [34; 97; 9; 98; 34]%N) 5 3 26) (mkPtok 31 (string_of_bytes [34; 97; 9; 98; 34]%N) 5 3 26)) (mkPtok 31 (string_of_bytes [34; 97; 9; 98; 34]%N) 5 3 26)) None); (mkOptionDecl (mkSpan (mkPtok 42 "Z9_" 5 9 27) (mkPtok 31 (string_of_bytes [34; 195; 169; 116; 195; 169; 34]%N) 6 6 29)) (mkPtok 42 "Z9_" 5 9 27) (mkPtok 4 "=" 6 4 28) (VString (mkSpan (mkPtok 31 (string_of_bytes [34; 195; 169; 116; 195; 169; 34]%N) 6 6 29) (mkPtok 31 (string_of_bytes [34; 195; 169; 116; 195; 169; 34]%N) 6 6 29)) (mkPtok 31 (string_of_bytes [34; 195; 169; 116; 195; 169; 34]%N) 6 6 29)) None); (mkOptionDecl (mkSpan (mkPtok 42 "crc" 6 12 30) (mkPtok 41 ";" 7 0 33)) (mkPtok 42 "crc" 6 12 30) (mkPtok 4 "=" 6 16 31) (VTrue (mkSpan (mkPtok 10 "true" 6 18 32) (mkPtok 10 "true" 6 18 32)) (mkPtok 10 "true" 6 18 32)) (Some (mkPtok 41 ";" 7 0 33))); (mkOptionDecl (mkSpan (mkPtok 42 "packetx" 7 3 34) (mkPtok 41 ";" 10 4 37)) (mkPtok 42 "packetx" 7 3 34) (mkPtok 4 "=" 8 4 35) (VType (mkSpan (mkPtok 22 "uint32" 9 0 36) (mkPtok 22 "uint32" 9 0 36)) (TyBasic (mkSpan (mkPtok 22 "uint32" 9 0 36) (mkPtok 22 "uint32" 9 0 36)) (mkBasicType (mkSpan (mkPtok 22 "uint32" 9 0 36) (mkPtok 22 "uint32" 9 0 36)) (mkPtok 22 "uint32" 9 0 36)))) (Some (mkPtok 41 ";" 10 4 37)))] (mkPtok 3 "}" 10 6 38))); (DOption (mkOptionDef (mkSpan (mkPtok 1 "options" 11 4 39) (mkPtok 3 "}" 21 4 64)) (mkPtok 1 "options" 11 4 39) (mkPtok 2 "{" 11 12 40) [(mkOptionDecl (mkSpan (mkPtok 42 "lengthOf" 11 13 41) (mkPtok 41 ";" 14 4 46)) (mkPtok 42 "lengthOf" 11 13 41) (mkPtok 4 "=" 14 0 44) (VDigits (mkSpan (mkPtok 30 "3" 14 2 45) (mkPtok 30 "3" 14 2 45)) (mkPtok 30 "3" 14 2 45)) (Some (mkPtok 41 ";" 14 4 46))); (mkOptionDecl (mkSpan (mkPtok 42 "i8i8" 14 6 47) (mkPtok 41 ";" 15 4 50)) (mkPtok 42 "i8i8" 14 6 47) (mkPtok 4 "=" 14 11 48) (VType (mkSpan (mkPtok 25 "int16" 14 12 49) (mkPtok 25 "int16" 14 12 49)) (TyBasic (mkSpan (mkPtok 25 "int16" 14 12 49) (mkPtok 25 "int16" 14 12 49)) (mkBasicType (mkSpan (mkPtok 25 "int16" 14 12 49) (mkPtok 25 "int16" 14 12 49)) (mkPtok 25 "int16" 14 12 49)))) (Some (mkPtok 41 ";" 15 4 50))); (mkOptionDecl (mkSpan (mkPtok 42 "metadata" 16 0 51) (mkPtok 30 "4294967296" 17 4 53)) (mkPtok 42 "metadata" 16 0 51) (mkPtok 4 "=" 16 9 52) (VDigits (mkSpan (mkPtok 30 "4294967296" 17 4 53) (mkPtok 30 "4294967296" 17 4 53)) (mkPtok 30 "4294967296" 17 4 53)) None); (mkOptionDecl (mkSpan (mkPtok 42 "T" 17 15 54) (mkPtok 41 ";" 17 21 57)) (mkPtok 42 "T" 17 15 54) (mkPtok 4 "=" 17 18 55) (VString (mkSpan (mkPtok 31 """""" 17 19 56) (mkPtok 31 """""" 17 19 56)) (mkPtok 31 """""" 17 19 56)) (Some (mkPtok 41 ";" 17 21 57))); (mkOptionDecl (mkSpan (mkPtok 42 "Z9_" 18 0 59) (mkPtok 41 ";" 20 4 63)) (mkPtok 42 "Z9_" 18 0 59) (mkPtok 4 "=" 19 0 60) (VDigits (mkSpan (mkPtok 30 "255" 20 0 62) (mkPtok 30 "255" 20 0 62)) (mkPtok 30 "255" 20 0 62)) (Some (mkPtok 41 ";" 20 4 63)))] (mkPtok 3 "}" 21 4 64)))])).
Eval vm_compute in ("<<<M1872>>>" ++ check (runes_of_ascii "options{
    //	t
    u8x
    =true;
rootA = 0123456789 pack =false ;x_y_z
= // `tick` ""quote"" 'q'
float32 ;
    lengthOf= 1} options { rootA = false } packet Packet {
roots {  f64 o // a // b
@lengthOf(
// @lengthOf(
// `tick` ""quote"" 'q'
trueish) ,//	t
falsey
{match	stringy// " ++ [27880; 37322]%N ++ runes_of_ascii "
as u8x
{// " ++ [27880; 37322]%N ++ runes_of_ascii "
4294967296
:
    string_,
7
    : lengthOf
,  [ ""// no comment"" ,
    007 ] :
// " ++ [27880; 37322]%N ++ runes_of_ascii "
// " ++ [27880; 37322]%N ++ runes_of_ascii "
crc
// `tick` ""quote"" 'q'
// " ++ [128512]%N ++ runes_of_ascii " emoji
1 :
string_ , ""abc""
:tag	0:
    // " ++ [128512]%N ++ runes_of_ascii " emoji
    Z9_  } , match calculatedFrom as float
    { ""x y"" :
falsey },	} ,	} // trailing space 
,
    //
    repeat char[]x `it's`
    , repeat int ,
uint64
crc @lengthOf( stringy ) ,
    } // c")).
Eval vm_compute in ("<<<M1904>>>" ++ check (runes_of_ascii "
packet string_ {
    @rightPad
( ' ') u64 A, repeat
options1
{ match	string_ as  tag {10// a // b
:trueish
    // " ++ [27880; 37322]%N ++ runes_of_ascii "
    4294967296 :	BodyLength
    , """ ++ [233]%N ++ runes_of_ascii "t" ++ [233]%N ++ runes_of_ascii """
: falsey,}
, } ,u8x { f32 msg_type `u8 x,`
    //	t
    ,
}, falsey@lengthOf( BodyLength //x
)
    ``, repeat
    packetx `line1
line2` ,zchar	, }
")).
Eval vm_compute in ("<<<M1936>>>" ++ check (runes_of_ascii "options
    { //	t
}
")).
Eval vm_compute in ("<<<M1968>>>" ++ check (runes_of_ascii "
options
{ crc =
    true; }
packet pack  { match f32a as T // `tick` ""quote"" 'q'
{// a // b
[ 3
,	3  ]:pack
    , } , @lengthOf(	T )zchar[10 ] // packet A { u8 x, }
x
@calculatedFrom( ""CRC32"" )`" ++ [28040; 24687; 31867; 22411]%N ++ runes_of_ascii "`
, @rightPad (
// c
/// triple
'0' )repeat //
u8x
u128 `it's`
    ,
@leftPad
(
// @lengthOf(
// c
'\x00' )
f64
    rootA
    @calculatedFrom(
    ""\" ++ [233]%N ++ runes_of_ascii """ ) , }
")).
Eval vm_compute in ("<<<M2000>>>" ++ check (runes_of_ascii "options {
	StringPrefixLenType = u16;
	ArrayPrefixLenType = u16;
}

packet SampleBinary {
    uint16 MsgType `" ++ [28040; 24687; 31867; 22411]%N ++ runes_of_ascii "`,
    u16 BodyLenght @lengthOf(Body) `" ++ [28040; 24687; 20307; 38271; 24230]%N ++ runes_of_ascii "`,
    match MsgType as Body {
        1 : Logon,
        2 : Logout,
        3 : Heartbeat,
        4 : RiskControlRequest,
        5 : RiskControlResponse,
    },
        @calculatedFrom(""CRC32"")
    u32 Ckecksum `" ++ [26657; 39564; 21644]%N ++ runes_of_ascii "`,
}

packet Logon {
     @leftPad('0')
    char[10] UserName `" ++ [29992; 25143; 21517]%N ++ runes_of_ascii "`,
    string Password `" ++ [23494; 30721]%N ++ runes_of_ascii "`,
    uint64 ClientId `" ++ [23458; 25143; 31471]%N ++ runes_of_ascii "ID`,
    u16 HeartbeatInterval `" ++ [24515; 36339; 38388; 38548]%N ++ runes_of_ascii "`,
}

packet Logout {
      @rightPad('0')
    char[10] UserName `" ++ [29992; 25143; 21517]%N ++ runes_of_ascii "`,
    uint64 ClientId `" ++ [23458; 25143; 31471]%N ++ runes_of_ascii "ID`,
}

packet Heartbeat {
}

packet RiskControlRequest {
    string UniqueOrderId `" ++ [21807; 19968; 35746; 21333; 21495]%N ++ runes_of_ascii "`,
    char[16] ClOrdID `" ++ [23458; 25143; 35746; 21333; 21495]%N ++ runes_of_ascii "`,
    char[3] MarketID `" ++ [24066; 22330]%N ++ runes_of_ascii "id`,
    char[12] SecurityID `" ++ [35777; 21048; 20195; 30721]%N ++ runes_of_ascii "`,
    char Side `" ++ [20080; 21334; 26041; 21521]%N ++ runes_of_ascii "`,
    char OrderType `" ++ [35746; 21333; 31867; 22411]%N ++ runes_of_ascii "`,
    u64 Price `" ++ [20215; 26684]%N ++ runes_of_ascii "`,
    u32 Qty `" ++ [25968; 37327]%N ++ runes_of_ascii "`,
    repeat string ExtraInfo `" ++ [38468; 21152; 20449; 24687]%N ++ runes_of_ascii "`,
    repeat SubOrder {
    		char[16] ClOrdID `" ++ [23376; 35746; 21333; 21495]%N ++ runes_of_ascii "`,
    		u64 Price `" ++ [23376; 35746; 21333; 20215; 26684]%N ++ runes_of_ascii "`,
    		u32 Qty `" ++ [23376; 35746; 21333; 25968; 37327]%N ++ runes_of_ascii "`,
    	},
}

packet RiskControlResponse {
    string UniqueOrderId `" ++ [21807; 19968; 35746; 21333; 21495]%N ++ runes_of_ascii "`,
    i32 Status `" ++ [29366; 24577]%N ++ runes_of_ascii "`,
    string Msg `" ++ [32467; 26524; 20449; 24687]%N ++ runes_of_ascii "`,
    repeat Detail,
}

packet Detail {
    string RuleName `" ++ [35268; 21017; 21517; 31216]%N ++ runes_of_ascii "`,
    u16 Code `" ++ [21407; 22240; 20195; 30721]%N ++ runes_of_ascii "`,
}")).
Eval vm_compute in ("<<<M2032>>>" ++ check (runes_of_ascii "options{ i64_ = ""{,}"" ; trueish =
    '\x00'
    leftPad = ""a\\"" /// triple
; crc
    = 255; uint8x
=
""abc""
    ;}")).
Eval vm_compute in ("<<<M2064>>>" ++ check (runes_of_ascii "options{ i64_ = string ; trueish =
    '\x00'
    leftPad =  /// triple
; crc
    = 255; uint8x
=
""abc""
    ;}")).
Eval vm_compute in ("<<<M2096>>>" ++ check (runes_of_ascii "options{ i64_ = string ; trueish =
    '\x00'
    leftPad = ""a\\"" /// triple
; crc
    = 255; =
uint8x
""abc""
    ;}")).
Eval vm_compute in ("<<<M2128>>>" ++ check (runes_of_ascii "options{ i64_ = string ; trueish =
    '\x00'
    leftPad = ""a\\"" /// triple
; crc
    = 255; uint'\x01'8x
=
""abc""
    ;}")).
Eval vm_compute in ("<<<M2160>>>" ++ check (runes_of_ascii "  packet
asx
{
/// triple
// @lengthOf(
u32 
`" ++ [28040; 24687; 31867; 22411]%N ++ runes_of_ascii "` ,} MetaData
    A {string  _x, zchar Header `a\`
// @lengthOf(
// packet A { u8 x, }
, char[] MetaDataX
,zchar[ 1 ]
    matchKey
    , char[] //
u,	char[0123456789 ]
    matchKey
    `{ , }`, }
")).
Eval vm_compute in ("<<<M2192>>>" ++ check (runes_of_ascii "  packet
asx
{
/// triple
// @lengthOf(
u32 stringy
`" ++ [28040; 24687; 31867; 22411]%N ++ runes_of_ascii "` ,} MetaData
    A string{  _x, zchar Header `a\`
// @lengthOf(
// packet A { u8 x, }
, char[] MetaDataX
,zchar[ 1 ]
    matchKey
    , char[] //
u,	char[0123456789 ]
    matchKey
    `{ , }`, }
")).
Eval vm_compute in ("<<<M2224>>>" ++ check (runes_of_ascii "  packet
asx
{
/// triple
// @lengthOf(
u32 stringy
`" ++ [28040; 24687; 31867; 22411]%N ++ runes_of_ascii "` ,} MetaData
    A {string  _x, zchar Header")).
Eval vm_compute in ("<<<M2256>>>" ++ check (runes_of_ascii "  packet
asx
{
/// triple
// @lengthOf(
u32 stringy
`" ++ [28040; 24687; 31867; 22411]%N ++ runes_of_ascii "` ,} MetaData
    A {string  _x, zchar Header `a\`
// @lengthOf(
// packet A { u8 x, }
, char[] MetaDataX
,zchar[ 1 ] ]
    matchKey
    , char[] //
u,	char[0123456789 ]
    matchKey
    `{ , }`, }
")).
Eval vm_compute in ("<<<M2288>>>" ++ check (runes_of_ascii "  packet
asx
{
/// triple
// @lengthOf(
u32 stringy
`" ++ [28040; 24687; 31867; 22411]%N ++ runes_of_ascii "` ,} MetaData
    A {string  _x, zchar Header `a\`
// @lengthOf(
// packet A { u8 x, }
, char[] MetaDataX
,zchar[ 1 ]
    matchKey
    , char[] //
u,	packet 0123456789 ]
    matchKey
    `{ , }`, }
")).
Eval vm_compute in ("<<<M2320>>>" ++ check (runes_of_ascii "  packet
asx
{
/// triple
// @lengthOf(
u32 stringy
`" ++ [28040; 24687; 31867; 22411]%N ++ runes_of_ascii "` ,} MetaData
    A {string  _x, zchar Header `a\`
// @lengthOf(
// packet A { u8 x, }
, char[] MetaDataX
,zchar[ 1 ]
    matchKey
    , char[] //
u,	char[0123456789 ]")).
Eval vm_compute in ("<<<M2352>>>" ++ check (runes_of_ascii "root
    packet
Packet Packet
{ // trailing space 
matchKey `tab	here` ,}")).
Eval vm_compute in ("<<<M2384>>>" ++ check (runes_of_ascii "root
    packet
Packet
{ // trailing s")).
Eval vm_compute in ("<<<M2416>>>" ++ check (runes_of_ascii "options{")).
Eval vm_compute in ("<<<M2448>>>" ++ check (runes_of_ascii "options{ falsey // a // b
=
    '0' } options { repeatCount = =
true ; string_// a // b
=
// c
// " ++ [27880; 37322]%N ++ runes_of_ascii "
int64
// trailing space 
/// triple
; } // @lengthOf(")).
Eval vm_compute in ("<<<M2480>>>" ++ check (runes_of_ascii "options{ falsey // a // b
=
    '0' } options { repeatCount =
true ; string_// a // b
=
// c
// " ++ [27880; 37322]%N ++ runes_of_ascii "
int64
// trailing space 
/// triple
zchar[ } // @lengthOf(")).
Eval vm_compute in ("<<<M2512>>>" ++ check (@nil rune)).
Eval vm_compute in ("<<<M2544>>>" ++ check (runes_of_ascii "options{}root packet
metadata {
@lengthOf( @lengthOf(x ) float32
body ``, }
    MetaData
Z9_
    {
    string string_ , Logon x
,
uint32
    // packet A { u8 x, }
    Z9_,asx
_x
    `tab	here` , }
")).
Eval vm_compute in ("<<<M2576>>>" ++ check (runes_of_ascii "options{}root packet
metadata {
@lengthOf(x ) float32
body ``] }
    MetaData
Z9_
    {
    string string_ , Logon x
,
uint32
    // packet A { u8 x, }
    Z9_,asx
_x
    `tab	here` , }
")).
Eval vm_compute in ("<<<M2608>>>" ++ check (runes_of_ascii "options{}root packet
metadata {
@lengthOf(x ) float32
body ``, }
    MetaData
Z9_
    {
    string string_  Logon x
,
uint32
    // packet A { u8 x, }
    Z9_,asx
_x
    `tab	here` , }
")).
Eval vm_compute in ("<<<M2640>>>" ++ check (runes_of_ascii "options{}root packet
metadata {
@lengthOf(x ) float32
body ``, }
    MetaData
Z9_
    {
    string string_ , Logon x
,
uint32
    // packet A { u8 x, }
    Z9_ asx,
_x
    `tab	here` , }
")).
Eval vm_compute in ("<<<M2672>>>" ++ check (runes_of_ascii "options{}root packet
metadata {
@lengthOf(x ) float32
body ``, }
    MetaData
Z9_
    {
    string string_ , Logon x
,
# uint32
    // packet A { u8 x, }
    Z9_,asx
_x
    `tab	here` , }
")).
Eval vm_compute in ("<<<M2704>>>" ++ check (runes_of_ascii "options {
    falsey
""a\\"" ; }")).
Eval vm_compute in ("<<<M2736>>>" ++ check (runes_of_ascii "options {
    falsey=
# ""a\\"" ; }")).
Eval vm_compute in ("<<<M2768>>>" ++ check (runes_of_ascii "MetaData f32a
{
    //	t
    }int16
    packet tag  {
}
")).
Eval vm_compute in ("<<<M2800>>>" ++ check (runes_of_ascii "MetaData f32a
{
    //	t
    }root
    @leftpad packet tag  {
}
")).
Eval vm_compute in ("<<<M2832>>>" ++ check (runes_of_ascii "
options
    {msg_type =
    float32 float32  }root
packet Z9_{ char /// triple
crc @lengthOf(
options1 ) //
,} MetaData a1{}
")).
Eval vm_compute in ("<<<M2864>>>" ++ check (runes_of_ascii "
options
    {msg_type =
    float32  }root
packet Z9_{ [ /// triple
crc @lengthOf(
options1 ) //
,} MetaData a1{}
")).
Eval vm_compute in ("<<<M2896>>>" ++ check (runes_of_ascii "
options
    {msg_type =
    float32  }root
packet Z9_{ char /// triple
crc @lengthOf(
options1 ) //
,}  a1{}
")).
Eval vm_compute in ("<<<M2928>>>" ++ check (runes_of_ascii "
options
    {msg_type =
    float32  }root
packet Z9_{ char /// triple
crc @lengthOf(
options1 " ++ [8232]%N ++ runes_of_ascii " ) //
,} MetaData a1{}
")).
Eval vm_compute in ("<<<M2960>>>" ++ check (runes_of_ascii "packet crc{ // " ++ [128512]%N ++ runes_of_ascii " emoji
repeat ( i8i8
`a\`, }
")).
Eval vm_compute in ("<<<M2992>>>" ++ check (runes_of_ascii "packet crc{ // " ++ [128512]%N ++ runes_of_ascii " emoji
?repeat string i8i8
`a\`, }
")).
Eval vm_compute in ("<<<M3024>>>" ++ check (runes_of_ascii "packet BodyLength {} MetaData MetaData zchar{ zchar[// @lengthOf(
42 ]
    pack , string_
A , char[]crc , _x trueish ,
// " ++ [27880; 37322]%N ++ runes_of_ascii "
// " ++ [128512]%N ++ runes_of_ascii " emoji
zchar[
    3 ]	T // trailing space 
, } packet body
{
    }
")).
Eval vm_compute in ("<<<M3056>>>" ++ check (runes_of_ascii "packet BodyLength {} MetaData zchar{ zchar[// @lengthOf(
42 ]
    int8 , string_
A , char[]crc , _x trueish ,
// " ++ [27880; 37322]%N ++ runes_of_ascii "
// " ++ [128512]%N ++ runes_of_ascii " emoji
zchar[
    3 ]	T // trailing space 
, } packet body
{
    }
")).
Eval vm_compute in ("<<<M3088>>>" ++ check (runes_of_ascii "packet BodyLength {} MetaData zchar{ zchar[// @lengthOf(
42 ]
    pack , string_
A , char[]crc  _x trueish ,
// " ++ [27880; 37322]%N ++ runes_of_ascii "
// " ++ [128512]%N ++ runes_of_ascii " emoji
zchar[
    3 ]	T // trailing space 
, } packet body
{
    }
")).
Eval vm_compute in ("<<<M3120>>>" ++ check (runes_of_ascii "packet BodyLength {} MetaData zchar{ zchar[// @lengthOf(
42 ]
    pack , string_
A , char[]crc , _x trueish ,
// " ++ [27880; 37322]%N ++ runes_of_ascii "
// " ++ [128512]%N ++ runes_of_ascii " emoji
zchar[
    3 T	] // trailing space 
, } packet body
{
    }
")).
Eval vm_compute in ("<<<M3152>>>" ++ check (runes_of_ascii "packet BodyLength {} MetaData zchar{ zchar[// @lengthOf(
42 ]
    pack , string_
A , char[]crc , _x trueish ,
// " ++ [27880; 37322]%N ++ runes_of_ascii "
// " ++ [128512]%N ++ runes_of_ascii " emoji
zchar[
    3 ]	T // trailing space 
, } packet body")).
Eval vm_compute in ("<<<M3184>>>" ++ check (runes_of_ascii "packet
 {@lengthOf( int ) match packetx as f32a {
    1 :	calculatedFrom , }  ,
    } packet len
    //	t
    { @calculatedFrom( """ ++ [233]%N ++ runes_of_ascii "t" ++ [233]%N ++ runes_of_ascii """ ) body Header , char[] lengthOf  `two words` ,chars{repeat string_ matchKey ,
    } ,
    }
")).
Eval vm_compute in ("<<<M3216>>>" ++ check (runes_of_ascii "packet
string_ {@lengthOf( int ) match as packetx f32a {
    1 :	calculatedFrom , }  ,
    } packet len
    //	t
    { @calculatedFrom( """ ++ [233]%N ++ runes_of_ascii "t" ++ [233]%N ++ runes_of_ascii """ ) body Header , char[] lengthOf  `two words` ,chars{repeat string_ matchKey ,
    } ,
    }
")).
Eval vm_compute in ("<<<M3248>>>" ++ check (runes_of_ascii "packet
string_ {@lengthOf( int ) match packetx as f32a {
    1 :")).
Eval vm_compute in ("<<<M3280>>>" ++ check (runes_of_ascii "packet
string_ {@lengthOf( int ) match packetx as f32a {
    1 :	calculatedFrom , }  ,
    } packet len
    //	t
    { { @calculatedFrom( """ ++ [233]%N ++ runes_of_ascii "t" ++ [233]%N ++ runes_of_ascii """ ) body Header , char[] lengthOf  `two words` ,chars{repeat string_ matchKey ,
    } ,
    }
")).
Eval vm_compute in ("<<<M3312>>>" ++ check (runes_of_ascii "packet
string_ {@lengthOf( int ) match packetx as f32a {
    1 :	calculatedFrom , }  ,
    } packet len
    //	t
    { @calculatedFrom( """ ++ [233]%N ++ runes_of_ascii "t" ++ [233]%N ++ runes_of_ascii """ ) body Header zchar[ char[] lengthOf  `two words` ,chars{repeat string_ matchKey ,
    } ,
    }
")).
Eval vm_compute in ("<<<M3344>>>" ++ check (runes_of_ascii "packet
string_ {@lengthOf( int ) match packetx as f32a {
    1 :	calculatedFrom , }  ,
    } packet len
    //	t
    { @calculatedFrom( """ ++ [233]%N ++ runes_of_ascii "t" ++ [233]%N ++ runes_of_ascii """ ) body Header , char[] lengthOf  `two words` ,chars{ string_ matchKey ,
    } ,
    }
")).
Eval vm_compute in ("<<<M3376>>>" ++ check (runes_of_ascii "packet
string_ {@lengthOf( int ) match packetx as f32a {
    1 :	calculatedFrom , }  ,
    } packet len
    //	t
    { @calculatedFrom( """ ++ [233]%N ++ runes_of_ascii "t" ++ [233]%N ++ runes_of_ascii """ ) body Header , char[] lengthOf  `two words` ,chars{repeat string_ matchKey ,
    } ,
    @leftPad
")).
Eval vm_compute in ("<<<M3408>>>" ++ check (runes_of_ascii "/// triple
root
packet // packet A { u8 x, }
chars {")).
Eval vm_compute in ("<<<M3440>>>" ++ check (runes_of_ascii "/// triple
root
packet")).
Eval vm_compute in ("<<<M3472>>>" ++ check (runes_of_ascii "/// triple
root
packet // packet A { u8 x, }
chars { @lengthOf(charz )
stringy,  @tag(  0 ) // a // b
asx
    As
,
// trailing space 
// trailing space 
x_y_z")).
Eval vm_compute in ("<<<M3504>>>" ++ check (runes_of_ascii "uint8")).
Eval vm_compute in ("<<<M3536>>>" ++ check (runes_of_ascii "ROOT")).
Eval vm_compute in ("<<<M3568>>>" ++ check (runes_of_ascii "//")).
Eval vm_compute in ("<<<M3600>>>" ++ check (runes_of_ascii "a_b")).
Eval vm_compute in ("<<<M3632>>>" ++ check (runes_of_ascii "packet A { repeat repeat u8 x, }")).
Eval vm_compute in ("<<<M3664>>>" ++ check (runes_of_ascii "packet A { B { u8 x, }, }")).
Eval vm_compute in ("<<<M3696>>>" ++ check (runes_of_ascii "packet A { } }")).
Eval vm_compute in ("<<<M3728>>>" ++ check (runes_of_ascii "options { a = b; }")).
Eval vm_compute in ("<<<M3760>>>" ++ check (runes_of_ascii "


")).
Eval vm_compute in ("<<<T3760>>>" ++ terms [mkTok 0 "<EOF>" 4 0 false] (mkPacket (mkPtok 0 "<EOF>" 4 0 0) None [])).
Eval vm_compute in ("<<<M3792>>>" ++ check (runes_of_ascii "f" ++ [65533; 65533]%N ++ runes_of_ascii "F" ++ [65533; 27]%N ++ runes_of_ascii "3""(y" ++ [65533]%N ++ runes_of_ascii ">vO" ++ [65533; 65533; 65533; 65533; 18; 65533]%N ++ runes_of_ascii "7" ++ [65533; 65533]%N ++ runes_of_ascii "Z" ++ [65533]%N ++ runes_of_ascii ">" ++ [65533; 65533; 65533]%N ++ runes_of_ascii "1r" ++ [65533]%N ++ runes_of_ascii "t" ++ [29; 30; 65533]%N ++ runes_of_ascii " x")).
Eval vm_compute in ("<<<M3824>>>" ++ check (runes_of_ascii "F")).
Eval vm_compute in ("<<<M3856>>>" ++ check ([65533]%N ++ runes_of_ascii "hF!" ++ [65533; 16; 65533]%N ++ runes_of_ascii "]" ++ [65533; 5; 65533]%N ++ runes_of_ascii "q" ++ [65533]%N ++ runes_of_ascii "q)" ++ [65533; 65533; 65533]%N ++ runes_of_ascii "na" ++ [65533; 65533; 28; 65533; 65533]%N ++ runes_of_ascii "Wo" ++ [26]%N)).
Eval vm_compute in ("<<<M3888>>>" ++ check ([65533]%N ++ runes_of_ascii "RX@")).
Eval vm_compute in ("<<<M3920>>>" ++ check (runes_of_ascii "h(" ++ [65533; 65533]%N ++ runes_of_ascii "*" ++ [65533]%N ++ runes_of_ascii "Ylxn" ++ [656; 24; 65533; 65533; 0]%N ++ runes_of_ascii "]C" ++ [65533; 65533]%N ++ runes_of_ascii "s" ++ [65533; 65533]%N ++ runes_of_ascii "-" ++ [21; 65533]%N ++ runes_of_ascii "<" ++ [65533]%N ++ runes_of_ascii "d")).
Eval vm_compute in ("<<<M3952>>>" ++ check ([65533]%N)).
Eval vm_compute in ("<<<M3984>>>" ++ check (runes_of_ascii "/" ++ [65533; 65533; 25; 65533; 28; 65533]%N ++ runes_of_ascii ";" ++ [65533]%N ++ runes_of_ascii "H'")).
