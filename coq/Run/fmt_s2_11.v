From FP Require Import Lexer Parser ShowPT Digest Formatter.
From Coq Require Import String List NArith.
Import ListNotations.
Open Scope string_scope.
Set Printing Width 100000000.
Set Printing Depth 100000000.
Definition show_fres (r : fres) : string :=
  match r with
  | FOk s => "OK:" ++ sh_escaped s ""
  | FErr s => "ERR:" ++ sh_escaped s ""
  | FPanic p => "PANIC:" ++ p
  end.
Definition check (rs : list rune) : string := digest (show_fres (format_res rs)).
Definition full (rs : list rune) : string := show_fres (format_res rs).
Eval vm_compute in ("<<<M4234>>>" ++ check (runes_of_ascii "
MetaData

string_	{} packet
	Packet 
	// c
		// c
  { 
  // @lengthOf(
      zchar[
	65535 ] metadata ,
}
	MetaData
    body
{	u

    packetx ,
char[]roots
	`" ++ [233]%N ++ runes_of_ascii "`
,

i32 
Header
, 
uint32 packetx  /// triple
  , 
} 
packet Foo {
@rightPad (  ) match

crc as
u128
    { // c

""it's"" :
    As
    ,0 
:
x_y_z  , """"

    :
	msg_type
}  // @lengthOf(
    ,	match pack

    as x_y_z{
255  :
	msg_type
    ,},
i8

A	,	int8

    BodyLength@lengthOf(	tag)	,@calculatedFrom(
""CRC32""
) 
match

    int

as Header	{ 4294967296 :x_y_z , 
  // @lengthOf(
	}, match chars

as // a // b
      calculatedFrom {
[
0

    ,

    0 
,// c
1,  0123456789 ,
00// c
  , 
""a\""b""

,// `tick` ""quote"" 'q'
4294967296

] :  stringy ,
""`tick`""

    :

    T}

,@tag(
    0 )
@tag(

    1  )

    @lengthOf(u8x
)  u8x
    { body  , 
repeat 	 // trailing space 
  calculatedFrom 
x_y_z	`two words`, }
, match
    falsey
    as
	leftPad{007
:A
,[ """ ++ [28040; 24687]%N ++ runes_of_ascii """	]	:tag	,

    1
: 
        //
Pad  ,
    } ,// c
	  float64  repeatCount  ,
    @tag(
    10 )match	stringy

as	Logon{ 7 : Pad
	,},	}  packet Packet {	@calculatedFrom( 
""\n""
	)
@calculatedFrom(
""`tick`"" ) matchKey  , @lengthOf(  zchar) roots

    {	repeat i16
Z9_ 
,match  repeatCount
as	stringy
	{[""x y""
]:
packetx ,	[""" ++ [128512]%N ++ runes_of_ascii """

, 
""x y""  ,
	""\n"" ]:
crc	,
    }
,} 
        // `tick` ""quote"" 'q'
	//x
  , // packet A { u8 x, }
	match // trailing space 
    tag
	as

    a1 // " ++ [128512]%N ++ runes_of_ascii " emoji
    {
	""abc""
	:packetx

    1:
	u8x	1
    : body 
007

    :
leftPad 0123456789	:	Header
} ,  i16

    x_y_z 
, @calculatedFrom(
""{,}""

    )

o

`it's`
    , string_	@calculatedFrom( ""it's"" )
	`crlf
line` ,	match
	i8i8	as  lengthOf
{	[  1
, 
""a\\""
    ,42 , 
""""
    ,
""a\\""  ] 
    // " ++ [128512]%N ++ runes_of_ascii " emoji
  	:o
,	10
    :
Foo	//x

[7 ] 
: // trailing space 
  lengthOf,	}	, repeat
A
{ 
repeat T

    { char[ 
007
//x
  ]
i64_	@lengthOf(
	Packet

    // a // b
	  ) ,match
T 
as
    repeatCount  // " ++ [27880; 37322]%N ++ runes_of_ascii "
    	{ 
""x y""

: As
    , 
}
    ,repeat
metadata	,

msg_type { 
float64  //

float , i8 
o
`u8 x,` 	 // " ++ [27880; 37322]%N ++ runes_of_ascii "
  ,

    char[0 ]

A@calculatedFrom(
""1"" ) `two words`//	t
,  i8
body

    @lengthOf(Packet )
,} , //
		}
	, rootA
    {

    f32a
@lengthOf(
    pack
	)  ,  } 
,	repeat

    char[]
u	,
    },
	}
")).
Eval vm_compute in ("<<<M3521>>>" ++ check (runes_of_ascii "// top
options // c0
{ // c1
LittleEndian // c2a
  // c2b
=
    // c3
false // c4
; StringPrefixLenType // c6a
  // c6b
=
    // c7
u16 // c8
; ArrayPrefixLenType
    // c10
=
    // c11
u64
    // c12
; // c13
FixedStringPadFromLeft // c14a
  // c14b
= // c15
true ; // c17
FixedStringPadChar // c18
= ' ' ; // c21a
  // c21b
} // c22
packet
    // c23
Logon
    // c24
{
    // c25
u16 // c26a
  // c26b
Tail // c27
, // c28
repeat // c29a
  // c29b
string // c30a
  // c30b
x , // c32a
  // c32b
i16 count // c34a
  // c34b
, @leftPad ( // c37a
  // c37b
'0'
    // c38
) // c39
char[
    // c40
3
    // c41
] // c42
Note // c43a
  // c43b
, // c44a
  // c44b
} // c45
packet Fill // c47
{ } // c49
packet Heartbeat // c51a
  // c51b
{ // c52
} packet
    // c54
Reject
    // c55
{ string msgKind // c58
, // c59a
  // c59b
repeat
    // c60
Logon
    // c61
, InFlags25 {
    // c64
repeat InPrice29 // c66
{ u8 price // c69a
  // c69b
, // c70
Logon // c71
, // c72
repeat // c73
char[ // c74
1 ] // c76a
  // c76b
Note // c77
, // c78
} // c79a
  // c79b
, char[]
    // c81
x , // c83
Fill
    // c84
, } // c86a
  // c86b
,
    // c87
repeat Heartbeat
    // c89
,
    // c90
} root // c92a
  // c92b
packet // c93
Order // c94a
  // c94b
{ // c95a
  // c95b
InNote88
    // c96
{ repeat
    // c98
i32 Acct
    // c100
, // c101a
  // c101b
repeat
    // c102
i16 // c103a
  // c103b
clOrdID // c104
, repeat // c106a
  // c106b
Logon
    // c107
, } , u16 tag7 , // c113a
  // c113b
match
    // c114
tag7 as
    // c116
Body // c117
{ [
    // c119
14 , // c121
22
    // c122
] // c123
: Logon // c125
, 55 // c127
: // c128a
  // c128b
Heartbeat // c129
, // c130
93 // c131
: // c132
Reject // c133
, 13
    // c135
: Fill // c137a
  // c137b
, } // c139a
  // c139b
, // c140
} // c141a
  // c141b
")).
Eval vm_compute in ("<<<M121>>>" ++ check (runes_of_ascii "packet body{ Z9_ {
    string leftPad `crlf
line` , msg_type { // c
uint64 tag  `{ , }` ,repeat f64 BodyLength
,} , i8i8 BodyLength , }
    // " ++ [128512]%N ++ runes_of_ascii " emoji
    , falsey //
,@leftPad ( // c
'0') @lengthOf(
    falsey	)
    f32 Z9_
@lengthOf(  o )
    , @calculatedFrom(
""" ++ [233]%N ++ runes_of_ascii "t" ++ [233]%N ++ runes_of_ascii """ )
repeat string //x
As
,@lengthOf(falsey) @calculatedFrom( ""a	b"")
    @tag( 3
) repeat Header{
Packet@lengthOf(
    crc )
    , repeat int16
As
, repeat uint16 // packet A { u8 x, }
f32a , } , @lengthOf(float )@tag(
    3 )
    // a // b
    @tag(// " ++ [128512]%N ++ runes_of_ascii " emoji
10 )	roots
BodyLength , string tag //	t
,
} MetaData int {  char[ 1 ] As
, Packet u128 , // c
pack
    x_y_z
`{ , }` ,
    string_
len ,
zchar[
0
] Header , string
    zchar `
`, } root packet uint8x { char[] u128
, }root packet crc { repeat trueish { f32 lengthOf `say ""hi""` , i8 crc	@calculatedFrom( """ ++ [233]%N ++ runes_of_ascii "t" ++ [233]%N ++ runes_of_ascii """) , match Z9_ as repeatCount
    {
    [ 3 ] :  string_
, ""it's""  : A 0 :	u8x 65535 : u128  } , // trailing space 
i32 x , },char[]
    pack `// not a comment` , char[]leftPad @calculatedFrom("""" ) `
` ,
string o `doc` ,}
    packet// " ++ [27880; 37322]%N ++ runes_of_ascii "
rootA  { // " ++ [128512]%N ++ runes_of_ascii " emoji
repeat x_y_z{
    zchar[
//	t
//	t
3 ]
    stringy
`crlf
line`,  BodyLength
    BodyLength
    `` , lengthOf
@calculatedFrom(
""x y""
) , // c
float64
    // " ++ [27880; 37322]%N ++ runes_of_ascii "
    Logon	@calculatedFrom(
""a\\"" ) ,
} , @lengthOf( Pad
)// `tick` ""quote"" 'q'
@calculatedFrom( ""abc"") @tag(4294967296 )uint8x @lengthOf( // packet A { u8 x, }
crc )  ,
@calculatedFrom( //	t
""" ++ [233]%N ++ runes_of_ascii "t" ++ [233]%N ++ runes_of_ascii """  )
string u
@lengthOf(
uint8x)
    `// not a comment` ,u
    metadata`u8 x,`
,
    }
")).
Eval vm_compute in ("<<<M3968>>>" ++ check (runes_of_ascii "packet
	As {}
	MetaData
	// " ++ [128512]%N ++ runes_of_ascii " emoji
    	BodyLength

{ uint32
	Z9_
    `// not a comment`
    , }packet

f32a 
//x
  {
f64  T @lengthOf(	As
)  `u8 x,`  , 
repeat
	i16	i64_ `" ++ [28040; 24687; 31867; 22411]%N ++ runes_of_ascii "`

    ,
    char[ 
007 ]  falsey

@lengthOf(Pad
)

    ,repeat
	leftPad
{ u64
    u8x	,

    char[]tag	,	}// " ++ [128512]%N ++ runes_of_ascii " emoji
    ,
    match
    As
    as	len
{

    ""1"":

    x_y_z ,255 :
// c
	len , 
007: 
charz  ,[
""abc""
, 42 , 10	, 
""" ++ [28040; 24687]%N ++ runes_of_ascii """

    ,
    ""it's""
    , //	t
  3
    ] : // " ++ [27880; 37322]%N ++ runes_of_ascii "
	  matchKey  //	t

,// `tick` ""quote"" 'q'

  }
, // @lengthOf(
	}  packet BodyLength
	{

@calculatedFrom( ""// no comment"" )
@lengthOf(
Logon) @tag( 42 
)
    //
	// " ++ [128512]%N ++ runes_of_ascii " emoji
repeat

    rootA	metadata , 
@tag(4294967296 )

repeat	matchKey// @lengthOf(
  {

int8 
pack
    ,
	}, @tag(	65535

    ) 
@rightPad(
)	//
  @lengthOf(// " ++ [27880; 37322]%N ++ runes_of_ascii "
	Pad
    ) uint8x `{ , }`
	, match

Foo	as As
{

    10
: 
uint8x ,
    0
: 
rootA// " ++ [128512]%N ++ runes_of_ascii " emoji
	,
    007 :	matchKey	,	[

    ""x y""

    ]

:
    u8x

    ,

}  ,	float64 
i64_

@calculatedFrom(

    ""// no comment""	// `tick` ""quote"" 'q'
    )  , match  trueish

    as
matchKey {
// trailing space 
	// trailing space 

""" ++ [233]%N ++ runes_of_ascii "t" ++ [233]%N ++ runes_of_ascii """
:  // trailing space 

_x, },chars
    @lengthOf(	Packet

    )
`crlf
line` 
,  char[]
x
,} MetaData 
falsey //
    {Z9_

    options1 
``
, 
}
")).
Eval vm_compute in ("<<<M577>>>" ++ check (runes_of_ascii "
packet	matchKey
// @lengthOf(
// " ++ [128512]%N ++ runes_of_ascii " emoji
{ string stringy `tab	here`,} root packet
Z9_{@lengthOf( /// triple
o ) @calculatedFrom( """ ++ [128512]%N ++ runes_of_ascii """ )@lengthOf( matchKey // packet A { u8 x, }
)
u{ string
    //	t
    msg_type
    , pack{ uint64 As@lengthOf(
u128 ), // `tick` ""quote"" 'q'
repeat i64_ `crlf
line`
    , }
, } ,
@lengthOf(
    len ) match rootA as
stringy	{
[
    65535
    ,
65535 ,	""`tick`""
    , ""a\""b"" ,65535
,
// `tick` ""quote"" 'q'
// a // b
""abc"",  10] //x
:options1
, ""1"" :
a1
    // trailing space 
    , 255	: As
, """"
:
metadata ,4294967296: // @lengthOf(
body
, } ,  repeat // " ++ [27880; 37322]%N ++ runes_of_ascii "
u8x , @lengthOf( asx )@tag( 10 )@calculatedFrom( ""\n"" )match Logon as options1 { ""CRC32"":
    // c
    charz ,[
""\n"" ,
10 ,  65535 , """ ++ [233]%N ++ runes_of_ascii "t" ++ [233]%N ++ runes_of_ascii """] :
    As // " ++ [128512]%N ++ runes_of_ascii " emoji
,// packet A { u8 x, }
[ 4294967296 ] :repeatCount
    , },
    @tag(
007 ) @leftPad ('0' ) @leftPad(' ')i16 u128 @calculatedFrom( ""packet"" )
    ,  @leftPad
(// " ++ [27880; 37322]%N ++ runes_of_ascii "
)x @calculatedFrom(""\n""
    )
`a\` ,
repeat zchar{ zchar[ 007]Foo
    ,
}
,@tag( // `tick` ""quote"" 'q'
42 ) match
    chars as metadata { [""{,}"" ] : calculatedFrom ,0 :
    x
, 4294967296 :leftPad
    , [//	t
42 ] :	trueish// packet A { u8 x, }
}, } options{  }")).
Eval vm_compute in ("<<<M4225>>>" ++ check (runes_of_ascii "// `tick` ""quote"" 'q'
packet
Logon {	@lengthOf( 	 //
	Logon
    )repeat
f64 // " ++ [27880; 37322]%N ++ runes_of_ascii "

MetaDataX

, char[
    0
    ] 
	    // `tick` ""quote"" 'q'
	options1

,  
      // " ++ [27880; 37322]%N ++ runes_of_ascii "

  repeat
    Foo

    `a\`

,  // `tick` ""quote"" 'q'
  @lengthOf( Header

    )
u16	u128 //x
@calculatedFrom(  // `tick` ""quote"" 'q'
	""\" ++ [233]%N ++ runes_of_ascii """
)	//	t
  ,@lengthOf(
	len ) Header // trailing space 
    {MetaDataX
@calculatedFrom(	""a\""b"" 
) ,i32
    rootA@calculatedFrom(

    ""a\""b""	//
  	)`" ++ [28040; 24687; 31867; 22411]%N ++ runes_of_ascii "` ,match A	as

    packetx{

    [

0123456789
    ]

    : 
rootA ,
} ,	} 
,

    } options
{  Foo=  // c
  	""CRC32""/// triple
      ; } 
MetaData
MetaDataX
{

}

    packet	lengthOf{ 	 // packet A { u8 x, }
  repeat 
char[3] Pad  ,@calculatedFrom(
    """ ++ [28040; 24687]%N ++ runes_of_ascii """ )
int16
roots@lengthOf(Logon
) , MetaDataX{	//x
  char[]  asx @lengthOf( calculatedFrom  //x
  	) // " ++ [128512]%N ++ runes_of_ascii " emoji

  ,
string 
	    //
A @lengthOf(/// triple

Logon ) ,

char[]pack
,
}
    /// triple
	, repeat  options1
	u

    ,  @tag(1

    )
	repeat  // c
pack trueish, repeat
	string  repeatCount

    ,
@calculatedFrom( 
""" ++ [28040; 24687]%N ++ runes_of_ascii """)f32
float
@calculatedFrom( 
""{,}""

    ),}

")).
Eval vm_compute in ("<<<M1141>>>" ++ check (runes_of_ascii "// @lengthOf(
packet
// @lengthOf(
//
chars { repeat leftPad {
i64_, /// triple
}  , BodyLength{ //	t
char[ 1] _x
    `line1
line2`
    , }
    ,@calculatedFrom( """ ++ [233]%N ++ runes_of_ascii "t" ++ [233]%N ++ runes_of_ascii """
) repeat
    zchar body , char[ 65535	] Foo ,repeat
    zchar[ 7	] repeatCount , @lengthOf( Logon
)@calculatedFrom(	""{,}""
/// triple
// `tick` ""quote"" 'q'
)//
string//x
float,
u8x,
    uint8x
@calculatedFrom( ""packet"") , } //x
MetaData T { u16 zchar // " ++ [128512]%N ++ runes_of_ascii " emoji
`tab	here`
,float64 x
,// packet A { u8 x, }
i32 Packet `` , // `tick` ""quote"" 'q'
zchar[
255
//
/// triple
] crc
    // a // b
    , calculatedFrom
u128 ,
zchar[ 1
/// triple
// a // b
]
metadata `
`
,
} packet uint8x	{
Header{uint16  metadata @lengthOf(
MetaDataX
    ) `line1
line2` , } //x
,
// " ++ [27880; 37322]%N ++ runes_of_ascii "
// @lengthOf(
metadata  repeatCount , repeat x_y_z , chars
A
, packetx@calculatedFrom(
    // a // b
    ""a\\""	) `` ,
    char[ 007] a1 @lengthOf( A  ) `" ++ [28040; 24687; 31867; 22411]%N ++ runes_of_ascii "`, /// triple
} options {
    matchKey = float32 ;	}
packet
    f32a
{ @lengthOf( repeatCount )// @lengthOf(
@tag( 42 )// `tick` ""quote"" 'q'
float32 u128 ,  }
")).
Eval vm_compute in ("<<<M3536>>>" ++ check (runes_of_ascii "// top
options // c0a
  // c0b
{ // c1
LittleEndian
    // c2
= false
    // c4
; StringPrefixLenType = u8
    // c8
; // c9
ArrayPrefixLenType = // c11
u16 // c12a
  // c12b
; FixedStringPadFromLeft
    // c14
= // c15
false // c16a
  // c16b
; } // c18a
  // c18b
packet // c19
Heartbeat { // c21
u8 seqNo // c23a
  // c23b
, // c24a
  // c24b
@rightPad // c25a
  // c25b
( '\x00' )
    // c28
char[
    // c29
8 // c30a
  // c30b
] // c31a
  // c31b
x , } // c34
root // c35a
  // c35b
packet // c36
Trade // c37
{ repeat // c39a
  // c39b
Heartbeat
    // c40
, float32 // c42
OrderId // c43a
  // c43b
, // c44
i64 // c45a
  // c45b
Acct , // c47
u16 // c48
Qty // c49a
  // c49b
,
    // c50
u16 clOrdID // c52a
  // c52b
,
    // c53
match clOrdID // c55a
  // c55b
as // c56
Body {
    // c58
131
    // c59
: // c60a
  // c60b
Heartbeat , } // c63
,
    // c64
u16 // c65a
  // c65b
sym
    // c66
@calculatedFrom(
    // c67
""CRC32"" ) // c69a
  // c69b
,
    // c70
}
    // c71
")).
Eval vm_compute in ("<<<M4171>>>" ++ check (runes_of_ascii "// @lengthOf(
packet chars {
    repeat leftPad {
        i64_,/// triple
    },
    BodyLength {
        //	t
        char[1] _x `line1
        line2`,
    },
    @calculatedFrom(""" ++ [233]%N ++ runes_of_ascii "t" ++ [233]%N ++ runes_of_ascii """)
    repeat zchar body,
    char[65535] Foo,
    repeat zchar[7] repeatCount,
    @lengthOf(Logon)
    @calculatedFrom(""{,}"")
    //
    string float,
    u8x,
    uint8x @calculatedFrom(""packet""),
}//x

MetaData T {
    u16 zchar `tab	here`,
    float64 x,
    i32 Packet ``,
    zchar[255] crc,
    calculatedFrom u128,
    zchar[1] metadata `
    `,
}

packet uint8x {
    Header {
        uint16 metadata @lengthOf(MetaDataX) `line1
        line2`,
    },
    // " ++ [27880; 37322]%N ++ runes_of_ascii "
    // @lengthOf(
    metadata repeatCount,
    repeat x_y_z,
    chars A,
    packetx @calculatedFrom(""a\\"") ``,
    char[007] a1 @lengthOf(A) `" ++ [28040; 24687; 31867; 22411]%N ++ runes_of_ascii "`,/// triple
}

options {
    matchKey = float32;
}

packet f32a {
    @lengthOf(repeatCount)
    @tag(42)
    // `tick` ""quote"" 'q'
    float32 u128,
}")).
Eval vm_compute in ("<<<M4433>>>" ++ check (runes_of_ascii "// `tick` ""quote"" 'q'
packet Logon {
    @lengthOf(Logon)
    repeat f64 MetaDataX,
    char[0] options1,
    // " ++ [27880; 37322]%N ++ runes_of_ascii "
    repeat Foo `a\`,// `tick` ""quote"" 'q'
    @lengthOf(Header)
    u16 u128 @calculatedFrom(""\" ++ [233]%N ++ runes_of_ascii """),
    @lengthOf(len)
    Header {
        MetaDataX @calculatedFrom(""a\""b""),
        i32 rootA @calculatedFrom(""a\""b"") `" ++ [28040; 24687; 31867; 22411]%N ++ runes_of_ascii "`,
        match A as packetx {
            [0123456789] : rootA,
        },
    },
}

options {
    Foo = ""CRC32"";
}

MetaData MetaDataX {
}

packet lengthOf {
    // packet A { u8 x, }
    repeat char[3] Pad,
    @calculatedFrom(""" ++ [28040; 24687]%N ++ runes_of_ascii """)
    int16 roots @lengthOf(Logon),
    MetaDataX {
        //x
        char[] asx @lengthOf(calculatedFrom),
        string A @lengthOf(Logon),
        char[] pack,
    },
    repeat options1 u,
    @tag(1)
    repeat pack trueish,
    repeat string repeatCount,
    @calculatedFrom(""" ++ [28040; 24687]%N ++ runes_of_ascii """)
    f32 float @calculatedFrom(""{,}""),
}")).
Eval vm_compute in ("<<<M1245>>>" ++ check (runes_of_ascii "MetaData As {
    roots repeatCount	, char // `tick` ""quote"" 'q'
trueish , zchar[
255	]  u128  `crlf
line` , char[]  int,asx u128
    `say ""hi""`,	i32
    packetx
,}
options {A
    = false;packetx =char[0 ]	A
    =
true
crc = // " ++ [128512]%N ++ runes_of_ascii " emoji
1 ;
calculatedFrom  = // @lengthOf(
""" ++ [233]%N ++ runes_of_ascii "t" ++ [233]%N ++ runes_of_ascii """} MetaData i8i8 { }
    packet len {
    @tag(00 )// packet A { u8 x, }
uint64 stringy	@lengthOf( x_y_z) , } packet rootA
{ // trailing space 
@lengthOf( zchar ) char
_x@lengthOf( x_y_z) ,//	t
string_ @calculatedFrom(""" ++ [233]%N ++ runes_of_ascii "t" ++ [233]%N ++ runes_of_ascii """ ) /// triple
, // " ++ [128512]%N ++ runes_of_ascii " emoji
@lengthOf( A
    // " ++ [128512]%N ++ runes_of_ascii " emoji
    ) x_y_z //x
{ Pad
    , match
trueish as u8x {
    4294967296 : u
// trailing space 
/// triple
, 3
:
int 00 : //	t
u8x
    // trailing space 
    , [
// packet A { u8 x, }
// `tick` ""quote"" 'q'
""{,}""
, ""a	b"" //	t
,
0 ,3
,0123456789
, ""a\""b"" ]
:body ,
    65535 :
T
    , } , }
    , i32 chars , }")).
Eval vm_compute in ("<<<M451>>>" ++ check (runes_of_ascii "// packet A { u8 x, }
MetaData f32a{ int64 i8i8
, u64
Packet
    `` ,  falsey// @lengthOf(
_x
    ,// trailing space 
tag roots``,uint32 // packet A { u8 x, }
Foo `two words`
,
char[]asx ,
}packet options1 {
    char[  00
]
    u128,
//x
// a // b
@calculatedFrom( ""`tick`"" )
Header @calculatedFrom(  ""1""	) ,
@leftPad ( ) match// " ++ [128512]%N ++ runes_of_ascii " emoji
u// `tick` ""quote"" 'q'
as
    o {
[ ""a\\""
    // trailing space 
    ] :
// packet A { u8 x, }
// " ++ [128512]%N ++ runes_of_ascii " emoji
stringy	""abc""// packet A { u8 x, }
:	f32a
,
} ,	f64 x_y_z
@lengthOf( o )  ,	repeat
    char[  00	] //x
int
`
` , char[]options1 `{ , }`
,// `tick` ""quote"" 'q'
zchar[ // c
00 ]	charz// a // b
,
    char[]
    MetaDataX `a\`
    ,
match packetx	as zchar { [10 , 1 ] :
    i8i8 , ""CRC32""
:
// `tick` ""quote"" 'q'
//	t
Logon
// `tick` ""quote"" 'q'
// @lengthOf(
, } , }
//	t
")).
Eval vm_compute in ("<<<M1167>>>" ++ check (runes_of_ascii "packet a1 {
@tag(
    007 )
    match packetx as a1 { [	0123456789,  0123456789 ]
: tag , ""\n"" : uint8x
, 00 : Z9_ ,""\" ++ [233]%N ++ runes_of_ascii """  :i64_ [ ""// no comment""
    , ""`tick`"" ]
: asx ,
    } , //
} options {crc='0' Logon
=
""""
;
    // packet A { u8 x, }
    falsey = 4294967296 // trailing space 
; }
    packet	string_
    {
repeat leftPad { repeat  uint64 x , u8 uint8x `u8 x,` ,	} ,repeat tag options1// packet A { u8 x, }
,// trailing space 
int64 /// triple
trueish
    @lengthOf( asx )`
`
// trailing space 
//
,
    // c
    match i8i8 as MetaDataX {
""a\\"" :
    //x
    falsey
    , }, repeat char[ 1 ]
    As
    , zchar[42 ]	Pad@lengthOf(
    repeatCount ) ,
@leftPad ( '\x00' /// triple
)
uint64 string_ `say ""hi""` , @calculatedFrom( ""CRC32""
) char MetaDataX , // packet A { u8 x, }
}")).
Eval vm_compute in ("<<<M886>>>" ++ check (runes_of_ascii "// `tick` ""quote"" 'q'
root
packet // " ++ [27880; 37322]%N ++ runes_of_ascii "
MetaDataX {	zchar[ 10 ] len`// not a comment`
, // " ++ [128512]%N ++ runes_of_ascii " emoji
repeat matchKey
    // " ++ [128512]%N ++ runes_of_ascii " emoji
    { u // a // b
falsey `tab	here`  ,	}, @tag(0123456789 ) string u8x ,
zchar[ 3 ]
    msg_type @lengthOf(
As ) , @rightPad // `tick` ""quote"" 'q'
( ) char	Packet , @rightPad (	)f64 u
    // `tick` ""quote"" 'q'
    , @lengthOf( uint8x ) @lengthOf(
    x_y_z )
@lengthOf(float ) Logon@lengthOf(pack	)
`a\`  ,@lengthOf( Logon ) char[]
    // a // b
    rootA
@calculatedFrom( // " ++ [128512]%N ++ runes_of_ascii " emoji
""1"" ) ,
int64
    stringy @lengthOf( zchar)`{ , }`,
match
// a // b
// " ++ [27880; 37322]%N ++ runes_of_ascii "
string_ as As { 7 :
metadata
""x y""// " ++ [128512]%N ++ runes_of_ascii " emoji
: packetx ,""" ++ [233]%N ++ runes_of_ascii "t" ++ [233]%N ++ runes_of_ascii """  : repeatCount ,
} ,
    // @lengthOf(
    }	root packet matchKey { } packet charz
{  }
")).
Eval vm_compute in ("<<<M713>>>" ++ check (runes_of_ascii "packet
    // @lengthOf(
    leftPad { match body as chars { 7:Pad[ """" ] :
//x
// trailing space 
Pad ,[
""packet"" , 7 , // trailing space 
""\" ++ [233]%N ++ runes_of_ascii """ // packet A { u8 x, }
,	3
, ""1"" ,	""" ++ [233]%N ++ runes_of_ascii "t" ++ [233]%N ++ runes_of_ascii """, 42 ,
007
    ] :calculatedFrom [ ""a\\""  ,
""`tick`""
    // " ++ [128512]%N ++ runes_of_ascii " emoji
    , /// triple
""it's"" ,// " ++ [27880; 37322]%N ++ runes_of_ascii "
""CRC32""
    , ""x y"" ,
    """ ++ [128512]%N ++ runes_of_ascii """
// `tick` ""quote"" 'q'
// trailing space 
,
    // trailing space 
    ""a\\"" ] : falsey , } , @lengthOf(a1 )
@rightPad ( '\x00' ) i64 matchKey ,
    @lengthOf( o ) _x { tag
`say ""hi""` //x
, }
    , @calculatedFrom( ""\n"")
// trailing space 
//x
body
    BodyLength
//x
//x
, u16 // packet A { u8 x, }
msg_type ,// @lengthOf(
} packet a1  { zchar[
    4294967296]u
    // " ++ [27880; 37322]%N ++ runes_of_ascii "
    ,string Logon`" ++ [233]%N ++ runes_of_ascii "`
, }")).
Eval vm_compute in ("<<<M3506>>>" ++ check (runes_of_ascii "options { LittleEndian // c2
= true ; // c5
ArrayPrefixLenType = // c7a
  // c7b
u64 ; // c9a
  // c9b
FixedStringPadFromLeft // c10
= // c11a
  // c11b
false ;
    // c13
} packet // c15
Quote
    // c16
{ // c17
}
    // c18
root // c19
packet
    // c20
Order { // c22
i64
    // c23
Side2 // c24
,
    // c25
Quote
    // c26
,
    // c27
u32 // c28
Px // c29a
  // c29b
, // c30a
  // c30b
match Px
    // c32
as
    // c33
Body // c34
{ [
    // c36
119 // c37
, // c38a
  // c38b
147 ] // c40a
  // c40b
: // c41
Quote ,
    // c43
} // c44a
  // c44b
, // c45a
  // c45b
u16 // c46
Flags
    // c47
@calculatedFrom( ""CRC32"" ) // c50
, // c51a
  // c51b
} // c52
")).
Eval vm_compute in ("<<<M1019>>>" ++ check (runes_of_ascii "packet
Foo { @calculatedFrom( ""it's"")/// triple
@calculatedFrom( ""// no comment"" )	pack @calculatedFrom(
    ""// no comment"" ) `tab	here`
, }
root packet options1 { @tag( 42 ) // a // b
repeat char[ 42 // a // b
]
Packet `// not a comment`,	Logon { len ,  crc { zchar[ 65535
    ] msg_type
    @calculatedFrom( ""`tick`""
) ,}
    ,}, } packet matchKey
{ @lengthOf(int
    )
@calculatedFrom(
    ""// no comment""
)  @tag(7
// `tick` ""quote"" 'q'
// @lengthOf(
) x_y_z ,
    i16 x_y_z `say ""hi""`
    , @calculatedFrom(	""" ++ [233]%N ++ runes_of_ascii "t" ++ [233]%N ++ runes_of_ascii """
    )
    @calculatedFrom( //x
"""")
// a // b
//x
@tag(
4294967296 )
    // @lengthOf(
    BodyLength string_,	}")).
Eval vm_compute in ("<<<M1127>>>" ++ check (runes_of_ascii "packet calculatedFrom {// trailing space 
@lengthOf( // `tick` ""quote"" 'q'
crc
) string a1
`say ""hi""` // trailing space 
, repeat int64
    float `" ++ [28040; 24687; 31867; 22411]%N ++ runes_of_ascii "`
,
// trailing space 
// " ++ [128512]%N ++ runes_of_ascii " emoji
@calculatedFrom( ""`tick`""
    ) BodyLength
    @calculatedFrom(
    ""packet"" )
, char[ 65535
    ] pack
    // packet A { u8 x, }
    ,	}
packet
    //x
    Logon// a // b
{u falsey , repeat i8i8  , calculatedFrom @calculatedFrom(
    """ ++ [28040; 24687]%N ++ runes_of_ascii """
) ,
    // c
    repeat
    // " ++ [27880; 37322]%N ++ runes_of_ascii "
    A As ,  } MetaData uint8x {
matchKey
T
`" ++ [233]%N ++ runes_of_ascii "` ,o T // " ++ [128512]%N ++ runes_of_ascii " emoji
, char[
00] int
`crlf
line` , char[3
] pack // " ++ [128512]%N ++ runes_of_ascii " emoji
,
len a1 `say ""hi""`// c
,}")).
Eval vm_compute in ("<<<M651>>>" ++ check (runes_of_ascii "packet
u { repeat
zchar[ 0123456789 // trailing space 
] x `tab	here`
/// triple
//	t
, @lengthOf( u8x  ) @tag( //x
3 )@tag(  255 ) options1
f32a `tab	here`
    , string BodyLength `u8 x,` ,
@calculatedFrom( """ ++ [28040; 24687]%N ++ runes_of_ascii """
    ) string
u8x  `" ++ [28040; 24687; 31867; 22411]%N ++ runes_of_ascii "`
, char[ 3 // `tick` ""quote"" 'q'
] BodyLength , // " ++ [128512]%N ++ runes_of_ascii " emoji
match rootA
as
msg_type { 007 :
    MetaDataX
    // " ++ [27880; 37322]%N ++ runes_of_ascii "
    [ 1	,255, ""CRC32"" , 4294967296] // trailing space 
: tag ,  }
// @lengthOf(
// " ++ [128512]%N ++ runes_of_ascii " emoji
, float64 a1 `doc`
, @calculatedFrom( ""a	b"" ) char[3
    ] body
, _x	, }
root
    packet len {
    repeat o rootA
    ,
}")).
Eval vm_compute in ("<<<M4296>>>" ++ check (runes_of_ascii "options {
    tag = ""it's"";
    int = zchar[00];
    x_y_z = ""a	b"";
    packetx = ' ';
}

packet rootA {
    uint8x @calculatedFrom(""CRC32""),// " ++ [27880; 37322]%N ++ runes_of_ascii "
    u {
        repeat string repeatCount `line1
        line2`,
        repeat Logon {
            f32a @lengthOf(roots),
            Packet {
                int32 Z9_ `u8 x,`,
            },
            Packet Packet,
        },
        repeat repeatCount zchar,
    },
    a1 @calculatedFrom(""abc""),
}// `tick` ""quote"" 'q'

root packet crc {
    @tag(00)
    char[7] asx @lengthOf(T) ``,
}")).
Eval vm_compute in ("<<<M4283>>>" ++ check (runes_of_ascii "packet

    pack 
{
@rightPad(' '
)
A	// c

@calculatedFrom( ""a\\"" )

// " ++ [128512]%N ++ runes_of_ascii " emoji
  // " ++ [128512]%N ++ runes_of_ascii " emoji
	`
`,
    u8 f32a  ,
    zchar[
    007 
]

    rootA
    `u8 x,`	,

repeat  
      /// triple
	// a // b

string

u128 	 //
    `u8 x,`

,
@leftPad

(
	' ' 
)char[	1	]  repeatCount @calculatedFrom( //x
      ""\n""
)
`doc`
,
o	, falsey

leftPad	, 
@calculatedFrom(
    ""a\""b""

    ) @leftPad
('0'	)
    //

// " ++ [27880; 37322]%N ++ runes_of_ascii "
	roots	{u8 zchar @lengthOf(

Logon )  // trailing space 
	, 
	    // c
//	t
	} , }")).
Eval vm_compute in ("<<<M747>>>" ++ check (runes_of_ascii "// a // b
MetaData crc { uint8x len ,
string
BodyLength ,
    asx body
    // packet A { u8 x, }
    `" ++ [233]%N ++ runes_of_ascii "` ,
calculatedFrom i8i8  , } packet Header {
@tag( 3
    )int64  uint8x ,  repeat lengthOf { match x as body { """ ++ [128512]%N ++ runes_of_ascii """//	t
: trueish
3
: MetaDataX
, [ ""it's"" , """" ]
:	o,	""CRC32""
: i8i8,} // trailing space 
,}
    ,
i64
lengthOf `u8 x,` ,
}packet pack{ @rightPad// trailing space 
( )	@tag( 255
)repeat string leftPad
`crlf
line` , } options{}  packet Packet { lengthOf
    ,	}
")).
Eval vm_compute in ("<<<M3982>>>" ++ check (runes_of_ascii "packet f32a {
}

packet trueish {
    @rightPad()
    rootA @lengthOf(Pad),
    @tag(0)
    Logon @lengthOf(trueish),
    As `
    `,
    repeat int8 Logon,
    @tag(255)
    // `tick` ""quote"" 'q'
    char A,
    i64 Header,
    match Z9_ as falsey {
        65535 : x_y_z,
        ""CRC32"" : float,
    },
    i8 len,
    @tag(7)
    // `tick` ""quote"" 'q'
    repeat rootA x_y_z,
    @tag(00)
    zchar[007] x_y_z `a\`,
}

MetaData roots {
}// `tick` ""quote"" 'q'")).
Eval vm_compute in ("<<<M662>>>" ++ check (runes_of_ascii "packet
    Foo {repeat u {char[ 0123456789 ]
    string_
@calculatedFrom(""it's"")
    `" ++ [233]%N ++ runes_of_ascii "` , }, } options { Foo =
    ""a\\"";
msg_type= 4294967296 o = ""CRC32"" ;
options1 = char[ // " ++ [128512]%N ++ runes_of_ascii " emoji
7
]; }
    root packet	u{match
    _x as
rootA
{
007 :
    f32a
[ 007
] :
    u8x
,[ 007
,  ""packet""
]
    // @lengthOf(
    :
_x, [
// packet A { u8 x, }
// trailing space 
007 ,  10 ]
: i64_, }
, int8 charz
    // `tick` ""quote"" 'q'
    `two words` ,}
")).
Eval vm_compute in ("<<<M4055>>>" ++ check (runes_of_ascii "MetaData rootA {
    char[42] body `tab	here`,
    string pack,
    zchar[65535] A `it's`,
    i64_ Pad,
}

MetaData leftPad {
    int16 u,
}

packet trueish {
    @tag(00)
    char[42] MetaDataX `crlf
    line`,
    @lengthOf(asx)
    chars charz,
    @rightPad('0')
    @lengthOf(a1)
    char[] Packet @calculatedFrom(""x y"") `crlf
    line`,
    len i8i8,
    @rightPad('\x00')
    options1 {
        x @lengthOf(Z9_),
    },
}")).
Eval vm_compute in ("<<<M863>>>" ++ check (runes_of_ascii "packet // " ++ [27880; 37322]%N ++ runes_of_ascii "
u8x{  u64
    metadata `a\`,  @tag(  65535 ) @rightPad(
    )	repeat
int16 As
    , @rightPad ( )
match	lengthOf as body {7 :
// @lengthOf(
// @lengthOf(
chars	,  [ 255 ,
""// no comment"" ,
    //x
    0123456789
,""\n""
    , 7 ,	""a	b"" ] :
    x_y_z , ""abc"":
metadata
} , } packet
    lengthOf{char[] // " ++ [128512]%N ++ runes_of_ascii " emoji
As
@calculatedFrom(	""a\\"" )
// " ++ [128512]%N ++ runes_of_ascii " emoji
// `tick` ""quote"" 'q'
`a\`
    //
    , }
// c
")).
Eval vm_compute in ("<<<M905>>>" ++ check (runes_of_ascii "options{ Foo
    // " ++ [27880; 37322]%N ++ runes_of_ascii "
    = ' ' ; //
calculatedFrom =
'\x00' ; Logon//x
= 0 //
x=
    '\x00' ; // packet A { u8 x, }
} packet
    _x	{
@calculatedFrom( """ ++ [28040; 24687]%N ++ runes_of_ascii """  ) repeat int32 Z9_, Pad packetx , @lengthOf(
u128  )
    @tag( 1 ) match msg_type as
    x
{
    // @lengthOf(
    [
""" ++ [233]%N ++ runes_of_ascii "t" ++ [233]%N ++ runes_of_ascii """]
    :x , } // " ++ [27880; 37322]%N ++ runes_of_ascii "
,@lengthOf(	a1
    // " ++ [128512]%N ++ runes_of_ascii " emoji
    ) leftPad
// a // b
//x
As , i8i8
_x
    ,
    } // " ++ [128512]%N ++ runes_of_ascii " emoji")).
Eval vm_compute in ("<<<M22>>>" ++ check (runes_of_ascii "packet  Pad{
@leftPad ( '0' ) @calculatedFrom( ""`tick`""
    )// @lengthOf(
match
    i64_ as x
    {
    /// triple
    00: zchar
    , } , i8i8 o // " ++ [27880; 37322]%N ++ runes_of_ascii "
,char[] _x
, repeat zchar[007 ] trueish
    ,zchar @lengthOf( trueish)`{ , }`
,// c
@calculatedFrom(""a\""b"") @tag( 1 ) trueish zchar ,
char[
    3 ] rootA @calculatedFrom(
    ""a\""b"" )
`tab	here`
//	t
// trailing space 
,
}")).
Eval vm_compute in ("<<<M580>>>" ++ check (runes_of_ascii "packet // `tick` ""quote"" 'q'
i8i8	{ } packet
    //	t
    i64_// packet A { u8 x, }
{repeat int8 crc `
`
    // a // b
    , // a // b
As,
    }
MetaData
    roots { roots roots `" ++ [233]%N ++ runes_of_ascii "` ,
    }  packet tag
    { @calculatedFrom( """ ++ [233]%N ++ runes_of_ascii "t" ++ [233]%N ++ runes_of_ascii """  ) @lengthOf( Packet
) repeat float64
asx`two words`
,  BodyLength
@calculatedFrom(
// packet A { u8 x, }
// c
""a	b""	), }
// c
")).
Eval vm_compute in ("<<<M1056>>>" ++ check (runes_of_ascii "options {
}packet crc // " ++ [27880; 37322]%N ++ runes_of_ascii "
{ calculatedFrom{ zchar[7
    ] Logon , // @lengthOf(
trueish
rootA `say ""hi""`
// `tick` ""quote"" 'q'
/// triple
, repeat
    // packet A { u8 x, }
    calculatedFrom Z9_ , repeat
MetaDataX { repeat // " ++ [27880; 37322]%N ++ runes_of_ascii "
char[] int ,
},
    }
, rootA @calculatedFrom(
""it's""
    )
, match
    charz as body
{0123456789: chars ,
} ,
}
")).
Eval vm_compute in ("<<<M3563>>>" ++ check (runes_of_ascii "
root
	packet Foo // " ++ [128512]%N ++ runes_of_ascii " emoji

  {
    }
options

{ 
  // a // b
	  tag // `tick` ""quote"" 'q'
    =	//	t
""""

    ; u8x 
=zchar[0
	]  } 
MetaData
	int {zchar[ 10 ] lengthOf 
``, 
i64
u8x
	`// not a comment`
    , MetaDataX

    pack	// `tick` ""quote"" 'q'
	`crlf
line`

    , 
Logon
charz
`crlf
line` , 
  //'1' a // b
  } ")).
Eval vm_compute in ("<<<M219>>>" ++ check (runes_of_ascii "root packet x {string
packetx
    // @lengthOf(
    `{ , }`, char stringy`// not a comment`
, match charz as
u128
{ """ ++ [128512]%N ++ runes_of_ascii """
: _x,0 : options1 // packet A { u8 x, }
42
    :trueish , [
// @lengthOf(
// `tick` ""quote"" 'q'
""it's"" , 00
, """ ++ [28040; 24687]%N ++ runes_of_ascii """  , ""\n""
    // trailing space 
    , 255 , 00 ]
: lengthOf ,
    1:len
    , },}
")).
Eval vm_compute in ("<<<M283>>>" ++ check (runes_of_ascii "root packet
    i64_ {@tag(4294967296) match lengthOf as // " ++ [27880; 37322]%N ++ runes_of_ascii "
charz	{ 1 :
T , } ,repeat char[ 00]
MetaDataX //x
,
match // @lengthOf(
Foo as
    chars{ // `tick` ""quote"" 'q'
""" ++ [28040; 24687]%N ++ runes_of_ascii """:charz
, } ,} root packet MetaDataX {
@lengthOf( chars// " ++ [128512]%N ++ runes_of_ascii " emoji
)
uint16 Foo , Foo ,
    } packet zchar { // trailing space 
}")).
Eval vm_compute in ("<<<M1292>>>" ++ check (runes_of_ascii "packet body {
i32
options1 , } packet
int {repeat
    f32a
{ options1@calculatedFrom(
    ""abc"" // " ++ [27880; 37322]%N ++ runes_of_ascii "
)
    // a // b
    ,
    zchar[4294967296 ]calculatedFrom , x_y_z
@calculatedFrom(""packet""	) `say ""hi""` , }
,
}packet x_y_z{
repeat
    float64 MetaDataX
    `crlf
line` //	t
, crc A ``
,
    }
")).
Eval vm_compute in ("<<<M1455>>>" ++ check (runes_of_ascii "root packet Foo // " ++ [128512]%N ++ runes_of_ascii " emoji
{ } options {
    // a // b
    tag // `tick` ""quote"" 'q'
= //	t
"""" """"
    ; u8x = zchar[0  ] }
MetaData
    int {zchar[ 10]
lengthOf	`` , i64 u8x`// not a comment` ,MetaDataX pack// `tick` ""quote"" 'q'
`crlf
line`
, Logon charz `crlf
line`
    ,
    // a // b
    }
")).
Eval vm_compute in ("<<<M1600>>>" ++ check (runes_of_ascii "root packet Foo // " ++ [128512]%N ++ runes_of_ascii " emoji
{ } options {
    // a // b
    tag // `tick` ""quote"" 'q'
= //	t
""""
    ; u8x = zchar[0  ] }
MetaData
    int {zchar[ 10]
lengthOf	`` , i64 u8x`// not a comment` ,MetaDataX pack// `tick` ""quote"" 'q'
`crlf
line`
, Logon charz `crlf
line`
    ,
    // a // b
    } }
")).
Eval vm_compute in ("<<<M1456>>>" ++ check (runes_of_ascii "root packet Foo // " ++ [128512]%N ++ runes_of_ascii " emoji
{ } options {
    // a // b
    tag // `tick` ""quote"" 'q'
= //	t
;
    """" u8x = zchar[0  ] }
MetaData
    int {zchar[ 10]
lengthOf	`` , i64 u8x`// not a comment` ,MetaDataX pack// `tick` ""quote"" 'q'
`crlf
line`
, Logon charz `crlf
line`
    ,
    // a // b
    }
")).
Eval vm_compute in ("<<<M1424>>>" ++ check (runes_of_ascii "root packet Foo // " ++ [128512]%N ++ runes_of_ascii " emoji
 } options {
    // a // b
    tag // `tick` ""quote"" 'q'
= //	t
""""
    ; u8x = zchar[0  ] }
MetaData
    int {zchar[ 10]
lengthOf	`` , i64 u8x`// not a comment` ,MetaDataX pack// `tick` ""quote"" 'q'
`crlf
line`
, Logon charz `crlf
line`
    ,
    // a // b
    }
")).
Eval vm_compute in ("<<<M1477>>>" ++ check (runes_of_ascii "root packet Foo // " ++ [128512]%N ++ runes_of_ascii " emoji
{ } options {
    // a // b
    tag // `tick` ""quote"" 'q'
= //	t
""""
    ; u8x = as 0  ] }
MetaData
    int {zchar[ 10]
lengthOf	`` , i64 u8x`// not a comment` ,MetaDataX pack// `tick` ""quote"" 'q'
`crlf
line`
, Logon charz `crlf
line`
    ,
    // a // b
    }
")).
Eval vm_compute in ("<<<M1524>>>" ++ check (runes_of_ascii "root packet Foo // " ++ [128512]%N ++ runes_of_ascii " emoji
{ } options {
    // a // b
    tag // `tick` ""quote"" 'q'
= //	t
""""
    ; u8x = zchar[0  ] }
MetaData
    int {zchar[ 10]
	`` , i64 u8x`// not a comment` ,MetaDataX pack// `tick` ""quote"" 'q'
`crlf
line`
, Logon charz `crlf
line`
    ,
    // a // b
    }
")).
Eval vm_compute in ("<<<M4480>>>" ++ check (runes_of_ascii "options {
    u128 = u32;
    Z9_ = ""`tick`""
    trueish = ""`tick`"";
    // @lengthOf(
    tag = '0'
}

options {
    metadata = ""a	b"";
    packetx = '\x00'// " ++ [128512]%N ++ runes_of_ascii " emoji
}

options {
    charz = 65535
}

options {
    msg_type = zchar[10];
    asx = false
    tag = char[];
}")).
Eval vm_compute in ("<<<M1294>>>" ++ check (runes_of_ascii "packet _x { // packet A { u8 x, }
repeat
    u8
// @lengthOf(
//	t
Logon ,match Packet as repeatCount
{
    65535 : leftPad
    ,[ 7 ]: rootA 4294967296	: Header ,[	00 // trailing space 
]:u8x
    ,42 : MetaDataX , 007 :
// " ++ [27880; 37322]%N ++ runes_of_ascii "
// " ++ [27880; 37322]%N ++ runes_of_ascii "
uint8x , // @lengthOf(
} ,}")).
Eval vm_compute in ("<<<M4160>>>" ++ check (runes_of_ascii "packet charz {
    repeat Z9_ x,
    @calculatedFrom(""`tick`"")
    string A `crlf
    line`,
    repeat crc {
        repeat u8x,
        char[42] x @lengthOf(o),
    },
}

MetaData tag {
    uint16 falsey `say ""hi""`,
    i32 asx,
    char[007] As,
}")).
Eval vm_compute in ("<<<M3213>>>" ++ check (runes_of_ascii "packet Logon // c1a
  // c1b
{ // c2a
  // c2b
@tag( 42 // c4
) // c5
@rightPad (
    // c7
' ' ) @leftPad
    // c10
( )
    // c12
repeat // c13
trueish
    // c14
{
    // c15
string
    // c16
T
    // c17
, }
    // c19
,
    // c20
} ")).
Eval vm_compute in ("<<<M424>>>" ++ check (runes_of_ascii "options{ } options { Foo  =	3;
u// @lengthOf(
=	""{,}"" trueish
=
3
// c
// a // b
;  a1 = char[] } //	t
packet//
i64_
{ repeat Header rootA `a\`
    , /// triple
@tag( 3)
char[// `tick` ""quote"" 'q'
10 ]  matchKey
`{ , }`, } // c")).
Eval vm_compute in ("<<<M12>>>" ++ check (runes_of_ascii "  MetaData	calculatedFrom
{char[]
lengthOf
    , } // trailing space 
root // " ++ [27880; 37322]%N ++ runes_of_ascii "
packet _x { @calculatedFrom(""" ++ [28040; 24687]%N ++ runes_of_ascii """) repeat zchar _x ,
    // packet A { u8 x, }
    repeat zchar[42//x
]
Pad , @tag(42	)char[ 42] u8x
    ,}
")).
Eval vm_compute in ("<<<M4001>>>" ++ check (runes_of_ascii "packet BodyLength {
    //	t
    x f32a `line1
    line2`,
    @calculatedFrom(""a\\"")
    @lengthOf(repeatCount)
    i8 Header `{ , }`,
    float64 leftPad @calculatedFrom(""\" ++ [233]%N ++ runes_of_ascii """),
    @calculatedFrom(""1"")
    uint64 o,
}")).
Eval vm_compute in ("<<<M2361>>>" ++ check (runes_of_ascii "MetaData Packet { }packet	asx  { @lengthOf( asx) falsey`crlf
line`
,
    }
    packet x	{uint32// @lengthOf(
rootA	,u32 options1 `say ""hi""` , @tag( 7
    )// packet A { u8 x, }
msg_type @lengthOf(
stringy	) )	, }

")).
Eval vm_compute in ("<<<M2247>>>" ++ check (runes_of_ascii "MetaData Packet { }packet	asx  { asx @lengthOf() falsey`crlf
line`
,
    }
    packet x	{uint32// @lengthOf(
rootA	,u32 options1 `say ""hi""` , @tag( 7
    )// packet A { u8 x, }
msg_type @lengthOf(
stringy	)	, }

")).
Eval vm_compute in ("<<<M2255>>>" ++ check (runes_of_ascii "MetaData Packet { }packet	asx  { @lengthOf( asx falsey`crlf
line`
,
    }
    packet x	{uint32// @lengthOf(
rootA	,u32 options1 `say ""hi""` , @tag( 7
    )// packet A { u8 x, }
msg_type @lengthOf(
stringy	)	, }

")).
Eval vm_compute in ("<<<M3786>>>" ++ check (runes_of_ascii "// top
packet u128 {
    @lengthOf(body)
    // c5
    match x_y_z as u {
        // c10
        ""x y"" : i8i8,
        // c14
    },// c16
    @tag(255)
    // c19
    char[] roots @lengthOf(int),// c25
}// c26")).
Eval vm_compute in ("<<<M2364>>>" ++ check (runes_of_ascii "MetaData Packet { }packet	asx  { @lengthOf( asx) falsey`crlf
line`
,
    }
    packet x	{uint32// @lengthOf(
rootA	,u32 options1 `say ""hi""` , @tag( 7
    )// packet A { u8 x, }
msg_type @lengthOf(
stringy")).
Eval vm_compute in ("<<<M781>>>" ++ check (runes_of_ascii "//x
MetaData	Z9_ // `tick` ""quote"" 'q'
{ trueish
stringy``
, } options
    {}
// packet A { u8 x, }
// " ++ [128512]%N ++ runes_of_ascii " emoji
packet
    // a // b
    calculatedFrom { string charz@lengthOf( options1 ) `{ , }` , }
")).
Eval vm_compute in ("<<<M174>>>" ++ check (runes_of_ascii "packet  f32a
    {//
match
//x
//
o
    // trailing space 
    as As { 10: //
roots
,// " ++ [27880; 37322]%N ++ runes_of_ascii "
[
255 // a // b
, 42 ,
    10 ,  00 ]:
    matchKey ,
} ,
}
    options { u128 = 65535 Packet = 3
;
}")).
Eval vm_compute in ("<<<M4119>>>" ++ check (runes_of_ascii "packet stringy {
    @tag(0)
    // packet A { u8 x, }
    repeatCount,
    @calculatedFrom("""")
    body falsey,
    @lengthOf(chars)
    repeat x_y_z `two words`,
    repeatCount Pad,
}")).
Eval vm_compute in ("<<<M3470>>>" ++ check (runes_of_ascii "
packet
A { u8	a
	,
	} packet 
B 
{
u16 b	, } root packet
P  {
	u8
	K1

    ,

u8	K2 , match K1  as
M1
{1
    :A
, 
} ,	match K2 
as

    M2	{
1	:

    B,
	}
    , 
} ")).
Eval vm_compute in ("<<<M1382>>>" ++ check (runes_of_ascii "packet  crc {
@lengthOf(
    /// triple
    calculatedFrom
    /// triple
    ) i64_ {
uint64
    _x,
} ,
@rightPad( '0' )
uint8x ,
    // packet A { u8 x, }
    } 	 ")).
Eval vm_compute in ("<<<M247>>>" ++ check (runes_of_ascii "packet
Pad { } packet// packet A { u8 x, }
len // a // b
{ string u128 , } root packet o {
@tag( 7
) char[] msg_type @calculatedFrom( ""// no comment""
)
    ,}
")).
Eval vm_compute in ("<<<M72>>>" ++ check (runes_of_ascii "packet
Header//	t
{ float32
repeatCount @lengthOf(
f32a
/// triple
// a // b
) , }options{ As	= true; } packet Pad
{ @rightPad
( ' ' ) leftPad
    , }
")).
Eval vm_compute in ("<<<M4135>>>" ++ check (runes_of_ascii "packet

    A
	{
	match
    k	as

    n {  ""\
""	:B
,
	[ ""\
""

    ,1]  :	C,
    [	1  ,	2

    , 3

,

    4
	,	5,""\
""]

    : D 
,  }, }")).
Eval vm_compute in ("<<<M4221>>>" ++ check (runes_of_ascii "packet A {
    Inner {
        u8 x `a
                b`,
        Deep {
            u8 y `a
                        b`,
        },
    },
}")).
Eval vm_compute in ("<<<M1722>>>" ++ check (runes_of_ascii "root packet /// triple
rootA {	i32
MetaDataX@calculatedFrom( ""CRC32"" ) `line1
lin@lengthOfe2` , } MetaData BodyLength {
u8
rootA, } // c")).
Eval vm_compute in ("<<<M3453>>>" ++ check (runes_of_ascii "options{	LittleEndian	= true	;	}

    root
packet
	P
	{

    u16

    a ,
u32
    Sum
@calculatedFrom( ""CRC32""
	) 
,

    }
")).
Eval vm_compute in ("<<<M1731>>>" ++ check (runes_of_ascii "root packet /// triple
rootA {	i32
MetaDataX@calculatedFrom( '' ""CRC32"" ) `line1
line2` , } MetaData BodyLength {
u8
rootA, } // c")).
Eval vm_compute in ("<<<M3917>>>" ++ check (runes_of_ascii "options { BodyLength =
    // trailing space 
// a // b
char[];
lengthOf=
    // @lengthOf(
i8 asx =
	7 ; rootA= 
""a\""b""
	;

}
")).
Eval vm_compute in ("<<<M1677>>>" ++ check (runes_of_ascii "root packet /// triple
rootA {	i32
MetaDataX@calculatedFrom( ""CRC32"" ) `line1
line2` ,  MetaData BodyLength {
u8
rootA, } // c")).
Eval vm_compute in ("<<<M1735>>>" ++ check (runes_of_ascii "root packet /// triple
rootA {	i32
caf" ++ [233]%N ++ runes_of_ascii "_1@calculatedFrom( ""CRC32"" ) `line1
line2` , } MetaData BodyLength {
u8
rootA, } // c")).
Eval vm_compute in ("<<<M4437>>>" ++ check (runes_of_ascii "MetaData u128 {
    char[255] _x `{ , }`,
    string leftPad,
    u8 A,
    zchar[0123456789] Foo,
    char[] As `{ , }`,
}")).
Eval vm_compute in ("<<<M1798>>>" ++ check (runes_of_ascii "packet
    Pad // a // b
{ options @calculatedFrom( ""a	b"") `u8 x,` ,
} options{ float// " ++ [128512]%N ++ runes_of_ascii " emoji
= f64 i64_
=//	t
00 }
")).
Eval vm_compute in ("<<<M1687>>>" ++ check (runes_of_ascii "root packet /// triple
rootA {	i32
MetaDataX@calculatedFrom( ""CRC32"" ) `line1
line2` , } MetaData  {
u8
rootA, } // c")).
Eval vm_compute in ("<<<M1822>>>" ++ check (runes_of_ascii "packet
    Pad // a // b
{ i8i8 @calculatedFrom( ""a	b"") `u8 x,` }
, options{ float// " ++ [128512]%N ++ runes_of_ascii " emoji
= f64 i64_
=//	t
00 }
")).
Eval vm_compute in ("<<<M4050>>>" ++ check (runes_of_ascii "packet A{

    match 
k

    as n
    {[ 1 ,	22
,
""c c"" ,

    4 ]
    :

    B

    ,2

    :C
} , 
}
")).
Eval vm_compute in ("<<<M4335>>>" ++ check (runes_of_ascii "
MetaData
	lengthOf 	 // a // b
      { i64  matchKey 
    // " ++ [128512]%N ++ runes_of_ascii " emoji
	// packet A { u8 x, }
    `say ""hi""`, 
}
")).
Eval vm_compute in ("<<<M3952>>>" ++ check (runes_of_ascii "MetaData
	len{
    i64
    tag
	`// not a comment`

    , 
int32 
i8i8,
crc i8i8`{ , }`	,  } // @lengthOf(
")).
Eval vm_compute in ("<<<M3644>>>" ++ check (runes_of_ascii "
packet

A

    {
    match
k

as 
n {
    [ 1
,""bb""
,
007

,
""d"" , 
5

, ""f""
    ]	:B 2
    :  C
}, }
")).
Eval vm_compute in ("<<<M1864>>>" ++ check (runes_of_ascii "packet
    Pad // a // b
{ i8i8 @calculatedFrom( ""a	b"") `u8 x,` ,
} options{ float// " ++ [128512]%N ++ runes_of_ascii " emoji
= f64 i64_")).
Eval vm_compute in ("<<<M3353>>>" ++ check (runes_of_ascii "packet calculatedFrom { @tag( 4294967296 ) u msg_type // c
, char[ 3 ] crc @lengthOf( len ) `u8 x,` , }")).
Eval vm_compute in ("<<<M2998>>>" ++ check (runes_of_ascii "packet A {
  match k as n {
    [1, 22, ""c c"", 4, 5, ""f"", 7, 8, ""i"", 10, 11, ""l""] : B
    2 : C
  },
}")).
Eval vm_compute in ("<<<M1691>>>" ++ check (runes_of_ascii "root packet /// triple
rootA {	i32
MetaDataX@calculatedFrom( ""CRC32"" ) `line1
line2` , } MetaData")).
Eval vm_compute in ("<<<M6>>>" ++ check (runes_of_ascii "MetaData metadata{
leftPad i64_ ,
    // " ++ [128512]%N ++ runes_of_ascii " emoji
    u8
    stringy `
` , char[] trueish , }
")).
Eval vm_compute in ("<<<M3235>>>" ++ check (runes_of_ascii "packet Logon { @tag( 42 ) @rightPad ( ' ' )
// c
@leftPad ( ) repeat trueish { string T , } , }")).
Eval vm_compute in ("<<<M2007>>>" ++ check (runes_of_ascii "root
packet crc
    { f32a @calculatedFrom( """ ++ [233]%N ++ runes_of_ascii "t" ++ [233]%N ++ runes_of_ascii """ )
    `say ""hi""`, lengthOf lengthOf `` ,  }")).
Eval vm_compute in ("<<<M2927>>>" ++ check (runes_of_ascii "packet A {
  match k as n {
    [""a"", ""bb"", ""c c"", ""d"", ""e"", ""f"", ""g""] : B
    2 : C
  },
}")).
Eval vm_compute in ("<<<M3897>>>" ++ check (runes_of_ascii "options {
    tag = ""// no comment""/// triple
    calculatedFrom = 10
    Packet = '0';
}")).
Eval vm_compute in ("<<<M1004>>>" ++ check (runes_of_ascii "packet i64_	{
} MetaData metadata
    {int64 string_	`doc`  ,
}
    packet T{
    }
")).
Eval vm_compute in ("<<<M2003>>>" ++ check (runes_of_ascii "root
packet crc
    { f32a @calculatedFrom( """ ++ [233]%N ++ runes_of_ascii "t" ++ [233]%N ++ runes_of_ascii """ )
    `say ""hi""`lengthOf , `` ,  }")).
Eval vm_compute in ("<<<M1849>>>" ++ check (runes_of_ascii "packet
    Pad // a // b
{ i8i8 @calculatedFrom( ""a	b"") `u8 x,` ,
} options{ float")).
Eval vm_compute in ("<<<M3294>>>" ++ check (runes_of_ascii "packet // c
o { @tag( 42 ) repeat x { char[ 0123456789 ] i64_ , } , } options { }")).
Eval vm_compute in ("<<<M3326>>>" ++ check (runes_of_ascii "packet o { @tag( 42 ) repeat x { char[ 0123456789 ] i64_ , } , } // c
options { }")).
Eval vm_compute in ("<<<M1962>>>" ++ check (runes_of_ascii "root
 crc
    { f32a @calculatedFrom( """ ++ [233]%N ++ runes_of_ascii "t" ++ [233]%N ++ runes_of_ascii """ )
    `say ""hi""`, lengthOf `` ,  }")).
Eval vm_compute in ("<<<M989>>>" ++ check (runes_of_ascii "packet falsey {
} options{
}
    options{
body
= '0' } MetaData o
{
    }
")).
Eval vm_compute in ("<<<M2896>>>" ++ check (runes_of_ascii "packet A {
  match k as n {
    [""a"", ""bb"", 007, ""d""] : B
    2 : C
  },
}")).
Eval vm_compute in ("<<<M372>>>" ++ check (runes_of_ascii "
packet Z9_ { } // a // b
root
    packet roots{
    /// triple
    }")).
Eval vm_compute in ("<<<M3398>>>" ++ check (runes_of_ascii "MetaData _x
// c
{ zchar[ 4294967296 ] lengthOf `// not a comment` , }")).
Eval vm_compute in ("<<<M4062>>>" ++ check (runes_of_ascii "

  packet	A{B
    b  `
x`
    ,B  `
x`
    , repeat

B
bs
`
x`	, }
")).
Eval vm_compute in ("<<<M2196>>>" ++ check (runes_of_ascii "root
    // `t" ++ [65279]%N ++ runes_of_ascii "ick` ""quote"" 'q'
    packet As { trueish Packet , }
")).
Eval vm_compute in ("<<<M3027>>>" ++ check (runes_of_ascii "packet A {
    B b `a

b`,
    B `a

b`,
    repeat B bs `a

b`,
}")).
Eval vm_compute in ("<<<M4005>>>" ++ check (runes_of_ascii "packet  As { 
        //x

	// " ++ [128512]%N ++ runes_of_ascii " emoji
  	repeat	char
zchar

,	}")).
Eval vm_compute in ("<<<M671>>>" ++ check (runes_of_ascii "options
    {i64_ = string tag =
    float32 Pad  = ""{,}"" ; }")).
Eval vm_compute in ("<<<M133>>>" ++ check (runes_of_ascii "packet string_ // `tick` ""quote"" 'q'
{ u
//
// " ++ [128512]%N ++ runes_of_ascii " emoji
, }
")).
Eval vm_compute in ("<<<M1060>>>" ++ check (runes_of_ascii "  packet
//	t
//
packetx{ repeat zchar[
    007 ]	Foo,
}")).
Eval vm_compute in ("<<<M1954>>>" ++ check (runes_of_ascii "
packet	As { @calculatedFrom(//x
""{,}""	)le""ngthOf , } 	 ")).
Eval vm_compute in ("<<<M1935>>>" ++ check (runes_of_ascii "
packet	As { @calculatedFrom(//x
""{,}""	)lengthOf ,  	 ")).
Eval vm_compute in ("<<<M1081>>>" ++ check (runes_of_ascii "options {i64_ =""x y"" _x =  int32 i64_ = '0' } // " ++ [27880; 37322]%N)).
Eval vm_compute in ("<<<M406>>>" ++ check (runes_of_ascii "options
    {} packet
_x
{
}packet
matchKey { }
")).
Eval vm_compute in ("<<<M2422>>>" ++ check (runes_of_ascii "MetaData A
i64
{
chars	, } // `tick` ""quote"" 'q'")).
Eval vm_compute in ("<<<M342>>>" ++ check (runes_of_ascii "packet o{ char[0123456789 ] asx `doc`
    ,	}
")).
Eval vm_compute in ("<<<M2647>>>" ++ check (runes_of_ascii "MetaData M { u8 x `d` , y z `e`, char[3] w, }")).
Eval vm_compute in ("<<<M2559>>>" ++ check (runes_of_ascii "packet A { repeat match k as n { 1 : B }, }")).
Eval vm_compute in ("<<<M551>>>" ++ check (runes_of_ascii "options {i64_
    = 10}packet options1 {}")).
Eval vm_compute in ("<<<M2106>>>" ++ check (runes_of_ascii "MetaData x x
{// " ++ [128512]%N ++ runes_of_ascii " emoji
i16 stringy , }")).
Eval vm_compute in ("<<<M3204>>>" ++ check (runes_of_ascii "MetaData zchar { zchar[ 3 ] Pad , // c
}")).
Eval vm_compute in ("<<<M1166>>>" ++ check (runes_of_ascii "// " ++ [128512]%N ++ runes_of_ascii " emoji
options { u128 = '\x00'
; }")).
Eval vm_compute in ("<<<M2124>>>" ++ check (runes_of_ascii "MetaData x
{// " ++ [128512]%N ++ runes_of_ascii " emoji
i16 stringy  }")).
Eval vm_compute in ("<<<M3712>>>" ++ check (runes_of_ascii "MetaData zchar {
    zchar[3] Pad,
}")).
Eval vm_compute in ("<<<M2772>>>" ++ check (runes_of_ascii "uint16 char uint16 ' ' root string")).
Eval vm_compute in ("<<<M2654>>>" ++ check (runes_of_ascii "options { a = 1; b = 2 c = 3;; }")).
Eval vm_compute in ("<<<M268>>>" ++ check (runes_of_ascii "options { // " ++ [27880; 37322]%N ++ runes_of_ascii "
T
=int64  }
")).
Eval vm_compute in ("<<<M3143>>>" ++ check (runes_of_ascii "packet A {
 u8 x `d" ++ [6158]%N ++ runes_of_ascii "`, // c" ++ [6158]%N ++ runes_of_ascii "
}")).
Eval vm_compute in ("<<<M2587>>>" ++ check (runes_of_ascii "packet A { x @lengthOf(3), }")).
Eval vm_compute in ("<<<M3038>>>" ++ check (runes_of_ascii "packet A {
    u8 x `
x`,
}")).
Eval vm_compute in ("<<<M4324>>>" ++ check (runes_of_ascii "  packet	lengthOf{}	// c
")).
Eval vm_compute in ("<<<M550>>>" ++ check (runes_of_ascii "//	t
packet
f32a
    { }")).
Eval vm_compute in ("<<<M3380>>>" ++ check (runes_of_ascii "// c
packet lengthOf { }")).
Eval vm_compute in ("<<<M319>>>" ++ check (runes_of_ascii "MetaData
    i64_ { }
")).
Eval vm_compute in ("<<<M1874>>>" ++ check (runes_of_ascii "packet
    Pad // a /")).
Eval vm_compute in ("<<<M2664>>>" ++ check (runes_of_ascii "options { a = [1]; }")).
Eval vm_compute in ("<<<M3146>>>" ++ check (runes_of_ascii "packet A {
}
// c x")).
Eval vm_compute in ("<<<M3081>>>" ++ check (runes_of_ascii "packet A {
}
// c" ++ [5760]%N)).
Eval vm_compute in ("<<<M1148>>>" ++ check (runes_of_ascii "packet f32a
{ }

")).
Eval vm_compute in ("<<<M3134>>>" ++ check (runes_of_ascii "packet A {
}// c" ++ [65279]%N)).
Eval vm_compute in ("<<<M2224>>>" ++ check (runes_of_ascii "MetaData Packet")).
Eval vm_compute in ("<<<M2707>>>" ++ check ([65533; 65533; 65533; 65533; 65533; 18; 7; 65533]%N ++ runes_of_ascii "p" ++ [65533]%N ++ runes_of_ascii "e~" ++ [65533]%N)).
Eval vm_compute in ("<<<M1909>>>" ++ check (runes_of_ascii "
packet	As")).
Eval vm_compute in ("<<<M2635>>>" ++ check (runes_of_ascii "packet A")).
Eval vm_compute in ("<<<M2440>>>" ++ check (runes_of_ascii "uint88")).
Eval vm_compute in ("<<<M2471>>>" ++ check (runes_of_ascii "'\x0'")).
Eval vm_compute in ("<<<M665>>>" ++ check (runes_of_ascii "
//
")).
Eval vm_compute in ("<<<M2452>>>" ++ check (runes_of_ascii "asx")).
Eval vm_compute in ("<<<M2438>>>" ++ check (runes_of_ascii "u8")).
Eval vm_compute in ("<<<M2554>>>" ++ check ([21517]%N)).
