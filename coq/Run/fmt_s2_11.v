From FP Require Import Lexer Parser ShowPT Digest Formatter.
From Coq Require Import String List NArith.
Import ListNotations.
Open Scope string_scope.
Set Printing Width 100000000.
Set Printing Depth 100000000.
Definition show_fres (r : fres) : string :=
  match r with
  | FOk s => "OK:" ++ sh_escaped s ""
  | FErr s => "ERR:" ++ sh_escaped s ""
  | FPanic p => "PANIC:" ++ p
  end.
Definition check (rs : list rune) : string := digest (show_fres (format_res rs)).
Definition full (rs : list rune) : string := show_fres (format_res rs).
Eval vm_compute in ("<<<M310>>>" ++ check (runes_of_ascii "root packet rootA {@calculatedFrom(
""""
)match packetx as x_y_z
{ // `tick` ""quote"" 'q'
""" ++ [28040; 24687]%N ++ runes_of_ascii """ : crc , ""a	b""
    :
i8i8, ""it's"" : msg_type
10
    :
string_,0123456789:int ,
}	,	zchar[ 0123456789
    ]
_x	`say ""hi""` , @lengthOf(	lengthOf )
repeat
    //x
    chars
{ repeat i16 u , }, i16 u @lengthOf( Pad ) `say ""hi""`
, string
    u8x @calculatedFrom(
    ""\n""
    ) //	t
`" ++ [233]%N ++ runes_of_ascii "` //x
,MetaDataX`" ++ [233]%N ++ runes_of_ascii "` , char[] Header  @lengthOf(
    //	t
    Foo )`u8 x,`, //
}
// c
// " ++ [128512]%N ++ runes_of_ascii " emoji
packet  repeatCount	{
@tag( 7
    // `tick` ""quote"" 'q'
    )
char[] x_y_z //x
`it's` , @calculatedFrom(""`tick`"" )repeat o,
    @lengthOf(
    pack )
@lengthOf( u128 ) @lengthOf(stringy	)
match zchar as MetaDataX { [ ""// no comment"",0 ] // " ++ [27880; 37322]%N ++ runes_of_ascii "
: options1
    ,
    [
    ""a	b"" ,
""`tick`""
    ,""" ++ [233]%N ++ runes_of_ascii "t" ++ [233]%N ++ runes_of_ascii """, 7
    // trailing space 
    , 0123456789
] :	string_
    , ""a\""b"" :len, ""a\\"" : MetaDataX	, }, u8x
{ repeat
chars MetaDataX
`two words`, repeat Header	len `` , pack { u16
asx @calculatedFrom(
    ""`tick`"")
    //x
    `line1
line2` , f64 string_ ,float32 zchar // " ++ [27880; 37322]%N ++ runes_of_ascii "
@lengthOf(i8i8 )
, As @lengthOf(
    //	t
    _x ) `u8 x,`, } ,int32 roots`doc` , }
    , } packet As { @lengthOf( leftPad )
@calculatedFrom(	"""" ) x_y_z
@lengthOf(
    i8i8 )	`" ++ [233]%N ++ runes_of_ascii "` , repeat float32 Z9_
    //	t
    ,// `tick` ""quote"" 'q'
pack ,
    msg_type
, // `tick` ""quote"" 'q'
@rightPad // a // b
(
'0' )
// a // b
// @lengthOf(
u16 crc ,
    @lengthOf( chars)	repeat
x`it's`
, } packet body/// triple
{@calculatedFrom(  """ ++ [28040; 24687]%N ++ runes_of_ascii """ ) T @lengthOf(
    u8x ) , @tag( 3)
    // packet A { u8 x, }
    u32
    u
//	t
// @lengthOf(
@lengthOf(
    msg_type
    // c
    )
    , @calculatedFrom(
""" ++ [128512]%N ++ runes_of_ascii """
)	repeat char[ 10] A // c
, x{ string o
, match  Pad // " ++ [27880; 37322]%N ++ runes_of_ascii "
as rootA { ""packet"" :matchKey } ,u64
x_y_z ,char[]
leftPad @lengthOf( float // @lengthOf(
)
    , /// triple
}
,
    repeat uint8x falsey	`" ++ [233]%N ++ runes_of_ascii "`, @lengthOf( Z9_ )u8 f32a , @tag( 0123456789 )
// @lengthOf(
// `tick` ""quote"" 'q'
u8 matchKey ``
, Pad trueish `say ""hi""`
    ,}
")).
Eval vm_compute in ("<<<M382>>>" ++ check (runes_of_ascii "options {
    StringPrefixLenType = u16;
    ArrayPrefixLenType = u16;
}

packet SampleBinary {
    uint16 MsgType `" ++ [28040; 24687; 31867; 22411]%N ++ runes_of_ascii "`,
    u16 BodyLenght @lengthOf(Body) `" ++ [28040; 24687; 20307; 38271; 24230]%N ++ runes_of_ascii "`,
    match MsgType as Body {
        1 : Logon,
        2 : Logout,
        3 : Heartbeat,
        4 : RiskControlRequest,
        5 : RiskControlResponse,
    },
    @calculatedFrom(""CRC32"")
    u32 Ckecksum `" ++ [26657; 39564; 21644]%N ++ runes_of_ascii "`,
}

packet Logon {
    @leftPad('0')
    char[10] UserName `" ++ [29992; 25143; 21517]%N ++ runes_of_ascii "`,
    string Password `" ++ [23494; 30721]%N ++ runes_of_ascii "`,
    uint64 ClientId `" ++ [23458; 25143; 31471]%N ++ runes_of_ascii "ID`,
    u16 HeartbeatInterval `" ++ [24515; 36339; 38388; 38548]%N ++ runes_of_ascii "`,
}

packet Logout {
    @rightPad('0')
    char[10] UserName `" ++ [29992; 25143; 21517]%N ++ runes_of_ascii "`,
    uint64 ClientId `" ++ [23458; 25143; 31471]%N ++ runes_of_ascii "ID`,
}

packet Heartbeat {
}

packet RiskControlRequest {
    string UniqueOrderId `" ++ [21807; 19968; 35746; 21333; 21495]%N ++ runes_of_ascii "`,
    char[16] ClOrdID `" ++ [23458; 25143; 35746; 21333; 21495]%N ++ runes_of_ascii "`,
    char[3] MarketID `" ++ [24066; 22330]%N ++ runes_of_ascii "id`,
    char[12] SecurityID `" ++ [35777; 21048; 20195; 30721]%N ++ runes_of_ascii "`,
    char Side `" ++ [20080; 21334; 26041; 21521]%N ++ runes_of_ascii "`,
    char OrderType `" ++ [35746; 21333; 31867; 22411]%N ++ runes_of_ascii "`,
    u64 Price `" ++ [20215; 26684]%N ++ runes_of_ascii "`,
    u32 Qty `" ++ [25968; 37327]%N ++ runes_of_ascii "`,
    repeat string ExtraInfo `" ++ [38468; 21152; 20449; 24687]%N ++ runes_of_ascii "`,
    repeat SubOrder {
        char[16] ClOrdID `" ++ [23376; 35746; 21333; 21495]%N ++ runes_of_ascii "`,
        u64 Price `" ++ [23376; 35746; 21333; 20215; 26684]%N ++ runes_of_ascii "`,
        u32 Qty `" ++ [23376; 35746; 21333; 25968; 37327]%N ++ runes_of_ascii "`,
    },
}

packet RiskControlResponse {
    string UniqueOrderId `" ++ [21807; 19968; 35746; 21333; 21495]%N ++ runes_of_ascii "`,
    i32 Status `" ++ [29366; 24577]%N ++ runes_of_ascii "`,
    string Msg `" ++ [32467; 26524; 20449; 24687]%N ++ runes_of_ascii "`,
    repeat Detail,
}

packet Detail {
    string RuleName `" ++ [35268; 21017; 21517; 31216]%N ++ runes_of_ascii "`,
    u16 Code `" ++ [21407; 22240; 20195; 30721]%N ++ runes_of_ascii "`,
}")).
Eval vm_compute in ("<<<M1822>>>" ++ check (runes_of_ascii "MetaData i8i8 {
    Pad rootA `tab	here`,
    x_y_z metadata,
    zchar[255] x_y_z `doc`,
    metadata i8i8,
    uint8x leftPad `say ""hi""`,
    int32 charz `" ++ [28040; 24687; 31867; 22411]%N ++ runes_of_ascii "`,
}

packet len {
    char[255] f32a @calculatedFrom(""a	b"") `// not a comment`,
    f64 u8x,
    options1 {
        string charz `u8 x,`,
        string_ @calculatedFrom(""a	b""),
        repeat falsey {
            a1 `it's`,
            stringy @lengthOf(Foo),
            repeat zchar[10] Logon `line1
            line2`,
            uint16 repeatCount @lengthOf(options1) `doc`,
        },
        repeat u packetx,
    },
    falsey x_y_z,
    char[] matchKey `u8 x,`,
}

packet float {
    @lengthOf(Foo)
    u16 a1 `crlf
    line`,
    // `tick` ""quote"" 'q'
    @leftPad()
    @lengthOf(string_)
    match asx as lengthOf {
        """" : f32a,
    },
    roots {
        f32 A `a\`,
        i8 trueish @lengthOf(rootA),
    },
    options1 @lengthOf(_x),/// triple
    @lengthOf(asx)
    charz,
    zchar[10] a1 @calculatedFrom(""// no comment"") `say ""hi""`,//x
    uint16 x @calculatedFrom(""a\\""),
}")).
Eval vm_compute in ("<<<M1467>>>" ++ check (runes_of_ascii "  options

    { StringPrefixLenType 
= u8
    ;

ArrayPrefixLenType
=	u32 ;
FixedStringPadFromLeft 
=false

; 
FixedStringPadChar
= ' ';

} packet
Party
	{ repeat i16 Qty,
repeat
string	Tail

    ,i8

OrderId , i8  msgKind, }  packet Ack

{	Party

    , 
repeat
InRef20  {

    Party
	,int8 
tag7
,char[5 ]

    OrderId,  zchar[
7
]Tail

    ,
    char[]count 
, InPrice45{

Party

,char[  1
    ] Px,}  , } 
,char[ 12	]

price , 
int8
    sym

,
}
packet Reject
{repeat
    InPrice47
	{Party
,
	}
	,
	zchar[ 
4
	]
    x  ,repeat Ack
    , zchar[2]Ref

    ,
	repeat 
Party , }  packet
    Cancel{
Reject ,	repeat
string
    f1 ,
uint16
OrderId,
    u8
Acct
,
	int8
msgKind ,  }
	root
	packet  Fill { u8
    count
	, 
char[]tag7	,
zchar[
7 
]

    Acct , u32 OrderId ,

    u32 
Note  @lengthOf( Body )

,match  OrderId as
	Body {
106 :Cancel 
, 196  :
Reject,

    74:
    Party,
75: Ack ,
    } ,}
")).
Eval vm_compute in ("<<<M1489>>>" ++ check (runes_of_ascii "options {
    LittleEndian = true;
    StringPrefixLenType = u64;
    ArrayPrefixLenType = u8;
    FixedStringPadChar = '0';
}

packet Reject {
    i32 Ref,
    repeat f64 OrderId,
    repeat InNote12 {
        u8 pad0,
    },
    @leftPad(' ')
    char[6] count,
}

packet Logout {
    zchar[6] Tail,
    repeat string venue,
}

packet Cancel {
    u64 count,
    repeat char[5] lastPx,
    i64 Tail,
    repeat InF140 {
        repeat Logout,
        repeat Reject,
    },
}

root packet Trade {
    repeat InMsgkind39 {
        repeat Reject,
        char[4] Px,
    },
    string Acct,
    uint16 price,
    f32 OrderId,
    u16 x,
    u16 clOrdID @lengthOf(Body),
    match x as Body {
        178 : Logout,
        13 : Cancel,
        174 : Reject,
    },
    u16 Flags @calculatedFrom(""CR\
        C32""),
}")).
Eval vm_compute in ("<<<M272>>>" ++ check (runes_of_ascii "root packet Header {
int16 repeatCount ,
    } //x
root packet len {  match i8i8
    as// c
roots{ [""abc"" , 255 ]
    : Pad, }  ,	@rightPad ( '\x00' ) @lengthOf(	leftPad
)float32 As `" ++ [28040; 24687; 31867; 22411]%N ++ runes_of_ascii "` , @calculatedFrom( ""1""
) zchar[  007
] // " ++ [128512]%N ++ runes_of_ascii " emoji
stringy @lengthOf( f32a ) ,}
    // @lengthOf(
    packet  BodyLength{
@lengthOf( trueish ) char[
7 ]
    falsey
@calculatedFrom( """ ++ [128512]%N ++ runes_of_ascii """ )	, @calculatedFrom(""a\""b""
) x`// not a comment` , @lengthOf(chars ) char[ 65535 ]leftPad
@calculatedFrom(""" ++ [128512]%N ++ runes_of_ascii """
) , trueish ,
string lengthOf
    , }root
    packet
_x
{ match _x as
uint8x
{// c
[""`tick`"" ,
""packet""] :
u, [// `tick` ""quote"" 'q'
007 , ""abc""
,255
    , ""\n"" , 7 , // c
""a	b"" , 0
    ]
    :
    // c
    Foo	[ 007 , """ ++ [233]%N ++ runes_of_ascii "t" ++ [233]%N ++ runes_of_ascii """ , 0 ]
:
x_y_z //	t
} ,
}
")).
Eval vm_compute in ("<<<M21>>>" ++ check (runes_of_ascii "packet	Z9_ {repeat options1 {
    repeat i16 o
// a // b
/// triple
`two words`
, match charz
as o { [ 4294967296 ,
""// no comment""	]:
// `tick` ""quote"" 'q'
// packet A { u8 x, }
u
    , } , match float
    as
    tag
{ [
00] : leftPad ,	[
""" ++ [233]%N ++ runes_of_ascii "t" ++ [233]%N ++ runes_of_ascii """ ,
""\n""
, 0 //
, ""CRC32"" ,
    1
    , """ ++ [28040; 24687]%N ++ runes_of_ascii """ , 255
    , 1]
: options1, 255	: x  , 00 : x ,
    } , repeat
string asx `u8 x,` , } ,
// " ++ [27880; 37322]%N ++ runes_of_ascii "
// a // b
zchar[ 3	] falsey ,}
    packet u
{
//x
// trailing space 
zchar[ 0 ]asx ,
    @tag(
    10
)
    @rightPad (' ' ) @rightPad
    //x
    ( '\x00') Logon
    @calculatedFrom( """ ++ [128512]%N ++ runes_of_ascii """ ) , repeat char[255 ] calculatedFrom	, uint16 lengthOf,
    }root /// triple
packet  pack { }
")).
Eval vm_compute in ("<<<M1401>>>" ++ check (runes_of_ascii "options { // c1a
  // c1b
FixedStringPadChar = // c3
'0'
    // c4
; // c5
} packet
    // c7
Q { zchar[ // c10a
  // c10b
4 // c11
] // c12a
  // c12b
z ,
    // c14
@rightPad // c15
( // c16
'\x00' )
    // c18
char[ // c19a
  // c19b
3 ] // c21
n
    // c22
,
    // c23
char[
    // c24
5
    // c25
] // c26a
  // c26b
d , // c28a
  // c28b
} // c29a
  // c29b
root // c30
packet // c31
R // c32
{ // c33a
  // c33b
Q // c34a
  // c34b
, zchar[
    // c36
8
    // c37
] // c38
top
    // c39
, // c40
repeat // c41
zchar[ // c42
2 ] // c44
zs // c45
,
    // c46
} ")).
Eval vm_compute in ("<<<M1174>>>" ++ check (runes_of_ascii "// top
MetaData // c0
x_y_z // c1
{ // c2
char // c3
body // c4
, // c5
f64 // c6
i8i8 // c7
`two words` // c8
, // c9
body // c10
body // c11
`" ++ [28040; 24687; 31867; 22411]%N ++ runes_of_ascii "` // c12
, // c13
} // c14
root // c15
packet // c16
chars // c17
{ // c18
@lengthOf( // c19
i64_ // c20
) // c21
chars // c22
, // c23
i8i8 // c24
{ // c25
falsey // c26
@lengthOf( // c27
stringy // c28
) // c29
`doc` // c30
, // c31
} // c32
, // c33
x // c34
@lengthOf( // c35
A // c36
) // c37
`crlf
line` // c38
, // c39
} // c40
")).
Eval vm_compute in ("<<<M160>>>" ++ check (runes_of_ascii "root packet o
    { }	packet T{ zchar[ 4294967296
]asx `say ""hi""` ,} MetaData f32a{f64 MetaDataX  `say ""hi""`
    // packet A { u8 x, }
    ,x_y_z
    rootA`doc`
, //	t
u32
repeatCount
    /// triple
    ,
string T
, u8x u`doc` ,} options {x_y_z
    = 0	} // packet A { u8 x, }
root packet// c
MetaDataX { @calculatedFrom( ""abc""
) @calculatedFrom(
    """ ++ [128512]%N ++ runes_of_ascii """ ) @tag( 3
) charz@lengthOf(
Packet )
    `line1
line2` ,	} /// triple")).
Eval vm_compute in ("<<<M258>>>" ++ check (runes_of_ascii "MetaData stringy
    //x
    { A MetaDataX ,}
    packet  x	{ @calculatedFrom( /// triple
"""")
char[] body``
/// triple
// c
, matchKey @lengthOf( uint8x ) , } // packet A { u8 x, }
options{	T
// `tick` ""quote"" 'q'
// trailing space 
=true
; o// packet A { u8 x, }
=
// c
//	t
'0'	; asx
    //
    = 4294967296
x= ""CRC32""o =
zchar[ 7 ] } options { /// triple
As =false ; } //x")).
Eval vm_compute in ("<<<M122>>>" ++ check (runes_of_ascii "root packet u128{} root packet
charz {// packet A { u8 x, }
@tag( 7
    )MetaDataX	, _x { uint32
As,
    charz ,}	,
len {  int64	u128 , repeat falsey
{x_y_z@lengthOf(
asx )
//	t
// c
, // c
}
,repeatCount
    {	metadata
@calculatedFrom( ""\n""
) `doc` , Logon Foo
// trailing space 
// " ++ [128512]%N ++ runes_of_ascii " emoji
,} // " ++ [27880; 37322]%N ++ runes_of_ascii "
,
float  rootA , }
, }
// a // b
")).
Eval vm_compute in ("<<<M212>>>" ++ check (runes_of_ascii "/// triple
packet A
{@calculatedFrom(""a\""b"" ) Logon`u8 x,` , metadata BodyLength
, } // trailing space 
packet	As{ @rightPad (
) repeat
uint8
chars , i64
/// triple
// a // b
zchar `say ""hi""` ,@rightPad
( '\x00' )
@leftPad (
'0')@lengthOf( int
) char[
    65535  ] rootA , } root packet trueish
{}
")).
Eval vm_compute in ("<<<M1719>>>" ++ check (runes_of_ascii "// top
packet trueish {
    // c2
    repeat u32 MetaDataX `doc`,// c7
    Header {
        // c9
        packetx o `u8 x,`,// c13
    },// c15
    @leftPad('\x00')
    // c19
    repeat char[0123456789] repeatCount,// c25
}// c26

packet Packet {
    // c29
}// c30")).
Eval vm_compute in ("<<<M1991>>>" ++ check (runes_of_ascii "
packet
	x 
{	char	matchKey  @lengthOf(
x_y_z) 	 //
  ,	}
    packet  trueish{ @tag(
    255
	)

char
	calculatedFrom

@lengthOf(

Header )
    ,
	}	MetaData
	options1 
// trailing space 
	{
	}  packet
MetaDataX	{ } packet trueish  { } ")).
Eval vm_compute in ("<<<M1701>>>" ++ check (runes_of_ascii "packet float {
    f64 float `u8 x,`,
    // " ++ [27880; 37322]%N ++ runes_of_ascii "
    //	t
    @tag(1)
    len tag `crlf
    line`,
}

root packet u {
    o x `it's`,
    @rightPad()
    repeat zchar[00] Foo,
    // trailing space 
}

root packet string_ {
}")).
Eval vm_compute in ("<<<M1848>>>" ++ check (runes_of_ascii "packet T {
    match Packet as Header {
        42 : BodyLength,
        ""// no comment"" : matchKey,
        ""`tick`"" : crc,
        [1] : o,
    },
}// " ++ [128512]%N ++ runes_of_ascii " emoji

packet As {
}

options {
    u128 = ' '
    body = char[]
}")).
Eval vm_compute in ("<<<M493>>>" ++ check (runes_of_ascii "options
{
matchKey = 42/// triple
x='0' ;
// packet A { u8 x, }
//
charz
=
// packet A { u8 x, }
// trailing space 
true  ; } MetaData BodyLength
{
uint8
pack,zchar[ ]1 float ,  float32 x_y_z `` ,u32
_x,i16 body  , }
")).
Eval vm_compute in ("<<<M468>>>" ++ check (runes_of_ascii "options
{
matchKey = 42/// triple
x='0' ;
// packet A { u8 x, }
//
charz
=
// packet A { u8 x, }
// trailing space 
true  ; } MetaData BodyLength
uint8
{
pack,zchar[ 1]float ,  float32 x_y_z `` ,u32
_x,i16 body  , }
")).
Eval vm_compute in ("<<<M556>>>" ++ check (runes_of_ascii "options
{
matchKey = 42/// triple
x='0' ;
// packet A { u8 x, }
//
charz
=
// packet A { u8 x, }
// trailing space 
true  ; } MetaData BodyLength
{
uint8
pack,zchar[ 1]float ,  float32 x_y_z `` ,u32
_x,i16 body   }
")).
Eval vm_compute in ("<<<M560>>>" ++ check (runes_of_ascii "options
{
matchKey = 42/// triple
x='0' ;
// packet A { u8 x, }
//
charz
=
// packet A { u8 x, }
// trailing space 
true  ; } MetaData BodyLength
{
uint8
pack,zchar[ 1]float ,  float32 x_y_z `` ,u32
_x,i16 body")).
Eval vm_compute in ("<<<M67>>>" ++ check (runes_of_ascii "MetaData Pad { Z9_
    // c
    pack ,u8 asx
    , i32
    MetaDataX , int8 // `tick` ""quote"" 'q'
x_y_z ,u128 f32a, calculatedFrom calculatedFrom
    `say ""hi""`  ,
    // trailing space 
    }
")).
Eval vm_compute in ("<<<M1892>>>" ++ check (runes_of_ascii "packet Header //	t
		{ float32  repeatCount @lengthOf( f32a 
    /// triple
  // a // b
  ),
} 
options
{ 
As = true
    ;
	}packet  Pad{@rightPad
    (

    ' ')

    leftPad ,} ")).
Eval vm_compute in ("<<<M704>>>" ++ check (runes_of_ascii "// c
packet i64_ {	char[] calculatedFrom , } packet
trueish  {""a\\""
@calculatedFrom( ) o { i32 falsey@lengthOf( uint8x ),
} , } // `tick` ""quote"" 'q'
options {// c
Z9_ = ' '//
}
")).
Eval vm_compute in ("<<<M1382>>>" ++ check (runes_of_ascii "packet A {
    u8 a,
}
packet B {
    u16 b,
}
root packet P {
    u8 K1,
    u8 K2,
    match K1 as M1 {
        1 : A,
    },
    match K2 as M2 {
        1 : B,
    },
}
")).
Eval vm_compute in ("<<<M485>>>" ++ check (runes_of_ascii "options
{
matchKey = 42/// triple
x='0' ;
// packet A { u8 x, }
//
charz
=
// packet A { u8 x, }
// trailing space 
true  ; } MetaData BodyLength
{
uint8
pack")).
Eval vm_compute in ("<<<M470>>>" ++ check (runes_of_ascii "options
{
matchKey = 42/// triple
x='0' ;
// packet A { u8 x, }
//
charz
=
// packet A { u8 x, }
// trailing space 
true  ; } MetaData BodyLength")).
Eval vm_compute in ("<<<M465>>>" ++ check (runes_of_ascii "options
{
matchKey = 42/// triple
x='0' ;
// packet A { u8 x, }
//
charz
=
// packet A { u8 x, }
// trailing space 
true  ; } MetaData")).
Eval vm_compute in ("<<<M599>>>" ++ check (runes_of_ascii "MetaData
    // trailing space 
    matchKey
`line1
line2` u64 chars // a // b
,char[] lengthOf `// not a comment`
    , //	t
}")).
Eval vm_compute in ("<<<M1570>>>" ++ check (runes_of_ascii "packet A {
    match k as n {
        [
            1, 22, 007, 4, 5,
            66
        ] : B,
        2 : C,
    },
}")).
Eval vm_compute in ("<<<M637>>>" ++ check (runes_of_ascii "MetaData
    // trailing space 
    matchKey
{ u64 chars // a // b
,char[] lengthOf `// not a comment`
    , //	t
} }")).
Eval vm_compute in ("<<<M598>>>" ++ check (runes_of_ascii "MetaData
    // trailing space 
    matchKey
u64 { chars // a // b
,char[] lengthOf `// not a comment`
    , //	t
}")).
Eval vm_compute in ("<<<M1540>>>" ++ check (runes_of_ascii "

  packet
Logon{@tag( 
42
)

@rightPad // c
	  ( ' '  )  @leftPad(
)  repeat
trueish
	{
    string
	T	,

} ,}
")).
Eval vm_compute in ("<<<M624>>>" ++ check (runes_of_ascii "MetaData
    // trailing space 
    matchKey
{ u64 chars // a // b
,char[] ( `// not a comment`
    , //	t
}")).
Eval vm_compute in ("<<<M901>>>" ++ check (runes_of_ascii "packet A {
  match k as n {
    [""a"", ""bb"", 007, ""d"", ""e"", 66, ""g"", ""h"", 9, ""j"", ""k""] : B
    2 : C
  },
}")).
Eval vm_compute in ("<<<M1259>>>" ++ check (runes_of_ascii "packet calculatedFrom { @tag( // c
4294967296 ) u msg_type , char[ 3 ] crc @lengthOf( len ) `u8 x,` , }")).
Eval vm_compute in ("<<<M1539>>>" ++ check (runes_of_ascii "options {
    matchKey = 42/// triple
    x = '0';
    // packet A { u8 x, }
    //
    charz = true;
}")).
Eval vm_compute in ("<<<M2015>>>" ++ check (runes_of_ascii "

  packet	Inner {u8
a
,

    }
root  packet P 
{

    repeat
Inner
items

    ,
u8	x
,}
")).
Eval vm_compute in ("<<<M1137>>>" ++ check (runes_of_ascii "packet Logon { @tag(
// c
42 ) @rightPad ( ' ' ) @leftPad ( ) repeat trueish { string T , } , }")).
Eval vm_compute in ("<<<M1169>>>" ++ check (runes_of_ascii "packet Logon { @tag( 42 ) @rightPad ( ' ' ) @leftPad ( ) repeat trueish { string T , }
// c
, }")).
Eval vm_compute in ("<<<M1619>>>" ++ check (runes_of_ascii "packet A {
    match k as n {
        [""a"", 22, ""c c"", 4, ""e""] : B,
        2 : C,
    },
}")).
Eval vm_compute in ("<<<M844>>>" ++ check (runes_of_ascii "packet A {
  match k as n {
    [""a"", 22, ""c c"", 4, ""e"", 66, ""g""] : B,
    2 : C
  },
}")).
Eval vm_compute in ("<<<M965>>>" ++ check (runes_of_ascii "packet A {
    u32 crc @calculatedFrom(""x\
y""),
    @calculatedFrom(""x\
y"") u8 y,
}")).
Eval vm_compute in ("<<<M1220>>>" ++ check (runes_of_ascii "packet o { @tag( 42 ) repeat // c
x { char[ 0123456789 ] i64_ , } , } options { }")).
Eval vm_compute in ("<<<M1901>>>" ++ check (runes_of_ascii "  MetaData _x

{ 
zchar[ 4294967296 // c
    ] lengthOf `// not a comment` ,

}

")).
Eval vm_compute in ("<<<M801>>>" ++ check (runes_of_ascii "packet A {
  match k as n {
    [""a"", ""bb"", ""c c"", ""d""] : B,
    2 : C
  },
}")).
Eval vm_compute in ("<<<M1914>>>" ++ check (runes_of_ascii "packet Inner {
    u8 a,
}

root packet P {
    Inner ref_obj,
    u8 x,
}")).
Eval vm_compute in ("<<<M321>>>" ++ check (runes_of_ascii "MetaData As { } MetaData asx
{
    char[ 007 ] Logon
`two words` , }
")).
Eval vm_compute in ("<<<M269>>>" ++ check (runes_of_ascii "MetaData u8x { uint32 i8i8 `it's`, } options
{
    Logon
= '0'	; }
")).
Eval vm_compute in ("<<<M1182>>>" ++ check (runes_of_ascii "options { // c1
u8x // c2a
  // c2b
= // c3a
  // c3b
3 } // c5
")).
Eval vm_compute in ("<<<M1090>>>" ++ check (runes_of_ascii "packet A { @leftPad() char[4] x, @rightPad( ) zchar[2] y, }")).
Eval vm_compute in ("<<<M785>>>" ++ check (runes_of_ascii "packet A { Inner { match k as n { [1,22] : B, }, }, }")).
Eval vm_compute in ("<<<M950>>>" ++ check (runes_of_ascii "MetaData M {
    u8 x `x
`,
    T t `x
`,
}")).
Eval vm_compute in ("<<<M1112>>>" ++ check (runes_of_ascii "MetaData zchar { zchar[ 3 // c
] Pad , }")).
Eval vm_compute in ("<<<M1067>>>" ++ check (runes_of_ascii "options { a = 1 // c b = 2; // d}")).
Eval vm_compute in ("<<<M1702>>>" ++ check (runes_of_ascii "packet  // c
    	lengthOf { }

")).
Eval vm_compute in ("<<<M1027>>>" ++ check (runes_of_ascii "packet A {
 u8 x `d" ++ [8287]%N ++ runes_of_ascii "`, // c" ++ [8287]%N ++ runes_of_ascii "
}")).
Eval vm_compute in ("<<<M1717>>>" ++ check (runes_of_ascii "// c" ++ [160]%N ++ runes_of_ascii "
    packet

A  {
} ")).
Eval vm_compute in ("<<<M1300>>>" ++ check (runes_of_ascii "packet lengthOf { // c
}")).
Eval vm_compute in ("<<<M1040>>>" ++ check (runes_of_ascii "packet A {
}
// c 	")).
Eval vm_compute in ("<<<M1030>>>" ++ check (runes_of_ascii "packet A {
}
// c" ++ [11]%N)).
Eval vm_compute in ("<<<M1033>>>" ++ check (runes_of_ascii "packet A {
}// c" ++ [12]%N)).
Eval vm_compute in ("<<<M2003>>>" ++ check (runes_of_ascii "

  // c" ++ [133]%N)).
Eval vm_compute in ("<<<M73>>>" ++ check (runes_of_ascii " 	 ")).
