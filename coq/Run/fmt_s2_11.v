From FP Require Import Lexer Parser ShowPT Digest Formatter.
From Coq Require Import String List NArith.
Import ListNotations.
Open Scope string_scope.
Set Printing Width 100000000.
Set Printing Depth 100000000.
Definition show_fres (r : fres) : string :=
  match r with
  | FOk s => "OK:" ++ sh_escaped s ""
  | FErr s => "ERR:" ++ sh_escaped s ""
  | FPanic p => "PANIC:" ++ p
  end.
Definition check (rs : list rune) : string := digest (show_fres (format_res rs)).
Definition full (rs : list rune) : string := show_fres (format_res rs).
Eval vm_compute in ("<<<M4435>>>" ++ check (runes_of_ascii "  // " ++ [27880; 37322]%N ++ runes_of_ascii "
  packet A
    {@calculatedFrom(  ""a	b""
) 
u128	@lengthOf(
asx 	 /// triple

)

`doc`  , 	 // `tick` ""quote"" 'q'

charz 
@lengthOf(

    repeatCount),

    i8
	metadata @lengthOf( body )
	`{ , }`

    ,

@tag(
	    // `tick` ""quote"" 'q'
0123456789 )repeat x_y_z
    lengthOf
, 
@calculatedFrom(
    ""{,}"" 
)options1
{
match

metadata

    as

chars
{""// no comment""
	:matchKey 
, }

    ,}

, Z9_ 

    // trailing space 
// @lengthOf(

``
, repeat  i64_
    `` , @tag(	42	)
    uint8  chars  @calculatedFrom( 
""abc""
) ,  } MetaData
	charz

    {  char[]

    Packet

    ,i64
    string_

`{ , }`

,	// " ++ [128512]%N ++ runes_of_ascii " emoji
    	int64 a1 `tab	here` ,

}
	packet

matchKey//	t
    {
repeat  x
	{string
	// c
    Logon `doc`

,
}
,
repeat 
u32  // trailing space 
  chars
,

    @calculatedFrom( // c
	""`tick`""
) o
	falsey

`say ""hi""`, 
zchar[
007
    ] string_ @lengthOf(Header

    )`line1
line2`
        // trailing space 
	, match x as

    uint8x {  1  //
  : 
a1

    ,

    [  ""a	b""

    ,  42 ,
	65535 ]	:

T 
, """ ++ [28040; 24687]%N ++ runes_of_ascii """
: metadata 

    // packet A { u8 x, }
    // c

  , },
match 
Z9_
as msg_type	// a // b
      {
65535://	t
u ,[
    // " ++ [128512]%N ++ runes_of_ascii " emoji
// c
	7

    ,7 	 // trailing space 
	, 42	, """ ++ [28040; 24687]%N ++ runes_of_ascii """
	]	: asx

    ,
	""" ++ [233]%N ++ runes_of_ascii "t" ++ [233]%N ++ runes_of_ascii """	:
_x ,	[  
      // `tick` ""quote"" 'q'

// " ++ [27880; 37322]%N ++ runes_of_ascii "
255

]:
	metadata ,
}  // `tick` ""quote"" 'q'
  	,
float32 len,

repeat	len , @tag(

    007)	repeat
	f64  pack

// trailing space 
		,}

packet stringy

    {
    // trailing space 
	  // packet A { u8 x, }
	  @lengthOf(	As 
) 
@calculatedFrom( ""\" ++ [233]%N ++ runes_of_ascii """ )

@tag(

7

    )
u8  x_y_z 
@lengthOf(
pack)

    `crlf
line` 
,

uint8
	chars`doc`,	@calculatedFrom(""CRC32""	)

@leftPad('0'
)  
      // @lengthOf(
  @lengthOf(
leftPad)
match
packetx 

    // @lengthOf(
  // " ++ [128512]%N ++ runes_of_ascii " emoji
    as
float
    {[ ""// no comment""
    , 007 ] :
	msg_type,	//	t
    1  // packet A { u8 x, }
  : rootA	, 7  :
	lengthOf// " ++ [128512]%N ++ runes_of_ascii " emoji
, [ // a // b
  """ ++ [128512]%N ++ runes_of_ascii """

] : x
,[ //
    42
	,// `tick` ""quote"" 'q'
		65535
	] :	// " ++ [27880; 37322]%N ++ runes_of_ascii "
	falsey 
,  // " ++ [27880; 37322]%N ++ runes_of_ascii "
	  }
	    //	t
    	// packet A { u8 x, }
,
char[1
	] lengthOf
    @lengthOf( metadata
	)
,u8 crc
@calculatedFrom(  """ ++ [128512]%N ++ runes_of_ascii """) 
`say ""hi""`
, 
}
")).
Eval vm_compute in ("<<<M3856>>>" ++ check (runes_of_ascii "
root  packet
	Foo 
{

chars 
{

falsey 
body  , zchar[ 
3 
]repeatCount 
`{ , }`
,

    } ,@lengthOf(
    BodyLength ) i8  //	t

Z9_	@lengthOf(  trueish
),  // " ++ [128512]%N ++ runes_of_ascii " emoji
  @rightPad	(

    ) repeat
Pad
    { _x

@calculatedFrom(	// `tick` ""quote"" 'q'
      ""\" ++ [233]%N ++ runes_of_ascii """ 
)	,

    match 
msg_type as 	 // @lengthOf(
    uint8x
	{[	1 ,

    ""\n""
	, 0 ,
""\n""
]
    :

Packet

""CRC32"": pack
,  }	, 
}

    ,

    @calculatedFrom(  ""a\""b"" )  repeat
	body
    { 
char[007 
] i64_ // `tick` ""quote"" 'q'
		`
` 
,	match  charz as  pack {
	65535
:

    u8x
	65535 :
    zchar

    ,
[
	255 
] // trailing space 
  	:chars 
	    // `tick` ""quote"" 'q'
    // " ++ [128512]%N ++ runes_of_ascii " emoji
      , 1  : stringy
,

[ """ ++ [28040; 24687]%N ++ runes_of_ascii """
]
	: 
int	,0:  // " ++ [128512]%N ++ runes_of_ascii " emoji
asx
    ,	} // " ++ [27880; 37322]%N ++ runes_of_ascii "
,
    }
    ,
    match	// c
o

    as
// " ++ [128512]%N ++ runes_of_ascii " emoji

// `tick` ""quote"" 'q'
A{007 
: 
calculatedFrom
,

    ""abc"":roots 
    // packet A { u8 x, }
// packet A { u8 x, }
,	""`tick`""

:	Foo	,  ""it's"": Foo , 007
:  
  //	t
// packet A { u8 x, }
      float ,
    } ,
@leftPad 
( ' ' 
    // trailing space 
  	// `tick` ""quote"" 'q'
  )
        // `tick` ""quote"" 'q'
  // trailing space 
	repeat

    repeatCount
,

    char[007
]u128
// `tick` ""quote"" 'q'
// packet A { u8 x, }

`crlf
line`
,} 	 //

packet 
asx{
charz{ rootA
    //	t
// trailing space 
    @calculatedFrom(	""" ++ [233]%N ++ runes_of_ascii "t" ++ [233]%N ++ runes_of_ascii """
) ,

    }
, }

packet 
msg_type	{  } 
MetaData
o {	f32
msg_type
    ,int64  body ,
	}  root	packet body{@tag( 1
    ) @calculatedFrom(
	""`tick`""	) 
@tag(

0123456789 )metadata

{
    pack  i64_	,

    } 
,
repeat
    zchar[
7 

// trailing space 
] asx
,
    chars@calculatedFrom( ""\n"")
	,	repeat zchar[
4294967296

    ]
x
, @rightPad	( 
'\x00'
)

u8
	msg_type
	`" ++ [233]%N ++ runes_of_ascii "`
,float64 pack  @lengthOf(

    MetaDataX

) ,}
")).
Eval vm_compute in ("<<<M1387>>>" ++ check (runes_of_ascii "
MetaData x { string_ x
    `tab	here`,}
packet
u { @tag(
1 ) match x
as
    Z9_
{
""a\""b"" : asx
    } , // " ++ [128512]%N ++ runes_of_ascii " emoji
leftPad @calculatedFrom(
    ""it's"" ) `" ++ [28040; 24687; 31867; 22411]%N ++ runes_of_ascii "` ,//	t
@tag(10 ) Packet ,
u64
//x
// a // b
stringy @calculatedFrom( ""1"" )  `doc`
    , char[ 3 ]// " ++ [128512]%N ++ runes_of_ascii " emoji
x_y_z @lengthOf( lengthOf
)	`" ++ [28040; 24687; 31867; 22411]%N ++ runes_of_ascii "` , } root packet Pad
{ int8
Header @calculatedFrom(
""1""  ) `u8 x,` ,
@calculatedFrom(
    """ ++ [128512]%N ++ runes_of_ascii """// packet A { u8 x, }
) int64 BodyLength
`u8 x,`
, @leftPad
    ( ' '
    // a // b
    )
char[]
float ,@lengthOf(//x
repeatCount ) char[] repeatCount, } packet falsey
//
// `tick` ""quote"" 'q'
{@calculatedFrom( """ ++ [28040; 24687]%N ++ runes_of_ascii """) @rightPad ( )@leftPad // c
( '\x00' )	zchar[3]
i8i8 `tab	here`
,
    }
//x
// packet A { u8 x, }
packet
zchar
    { Header
@calculatedFrom(
    ""a\\"" ) , // a // b
msg_type``
,  @calculatedFrom( """ ++ [28040; 24687]%N ++ runes_of_ascii """)  Logon
    zchar	,i32 u128 @calculatedFrom(""packet"")
// packet A { u8 x, }
/// triple
,
// `tick` ""quote"" 'q'
// c
u8 _x
    `
` ,
@leftPad ( '0'
) uint16 asx `a\` ,@calculatedFrom( ""\n"" )
@calculatedFrom( ""a	b""	)
    float64
    leftPad @lengthOf(
    // c
    repeatCount
/// triple
//
) `it's` , match metadata
as
options1 { [  42, 1	]// `tick` ""quote"" 'q'
: BodyLength""`tick`""
    :_x ,
    65535
: asx, 65535
    : BodyLength ""a\\"" :
    //
    string_ } ,match
/// triple
//
uint8x as
chars
{ 10 :/// triple
Logon
""// no comment"": float , /// triple
[ ""packet""	,  7
] :MetaDataX
    10
:asx
    , """ ++ [28040; 24687]%N ++ runes_of_ascii """ :
i64_ ,} ,  }")).
Eval vm_compute in ("<<<M4526>>>" ++ check (runes_of_ascii "
packet roots

    {

@lengthOf(

    a1

) 
    //x
	uint32 stringy

`it's`

,@tag( 
0)	string a1 
//	t
//x
	  ,
	match 
len
as
zchar	{ 
        // @lengthOf(
		42

:
    lengthOf,	""" ++ [233]%N ++ runes_of_ascii "t" ++ [233]%N ++ runes_of_ascii """
	:
	len
	""""
    : Z9_,} , @calculatedFrom(

""{,}""

)	// " ++ [128512]%N ++ runes_of_ascii " emoji
    	@tag( 42	)rootA@lengthOf( 
repeatCount
    ) `" ++ [233]%N ++ runes_of_ascii "` // `tick` ""quote"" 'q'

,	BodyLength 
{ 
f64 tag
    `u8 x,`
    ,
	//
}  ,zchar[255
    ]  f32a
`
`
	,
    @lengthOf(
rootA 
) a1,

@calculatedFrom(
""" ++ [28040; 24687]%N ++ runes_of_ascii """
	)
repeat
u32 As

`doc`,
	}packet o {	repeat uint8 A

,

} 
MetaData
	u128 {
int64 	 //	t
      x_y_z	`doc` 
,

}options { asx// @lengthOf(
      = 65535
	;

metadata//
    = u32 ; pack=
zchar[ 0123456789]}  root
packet 
lengthOf	{
@leftPad 
(
'0'	) 
@calculatedFrom(
// " ++ [27880; 37322]%N ++ runes_of_ascii "
  //x

  ""it's""
	)  int 
@calculatedFrom(
	""`tick`""
)

, i32 len, @leftPad
	(
	'\x00'

    )  repeat char[]

    falsey	,
@tag(
255
) 
i32
lengthOf
@lengthOf( MetaDataX) 
, match
int  as
A
{ 10
:
body

,

    ""abc"":
    a1 , }

    ,
    metadata`a\`
    ,
    int32
uint8x

@lengthOf(

repeatCount  ) 
,
	@leftPad
	(

)	crc 
body
,  repeat  T

{
    // " ++ [128512]%N ++ runes_of_ascii " emoji
float64  x
, char[] tag 

// trailing space 

  `say ""hi""`	, 
repeat
Header
	{ char[]
string_ 
`say ""hi""`  ,Z9_
,  }
    ,// " ++ [128512]%N ++ runes_of_ascii " emoji
  } 
	    //x
,
    }

")).
Eval vm_compute in ("<<<M3505>>>" ++ check (runes_of_ascii "packet Frame
    // c1
{ // c2a
  // c2b
u8 HK // c4a
  // c4b
, // c5
u8
    // c6
BK // c7a
  // c7b
, // c8a
  // c8b
u8 TK // c10a
  // c10b
,
    // c11
match HK as // c14a
  // c14b
Hdr { // c16a
  // c16b
1 // c17a
  // c17b
: // c18a
  // c18b
HdrA
    // c19
, // c20a
  // c20b
2 // c21
:
    // c22
HdrB // c23a
  // c23b
,
    // c24
} ,
    // c26
match BK
    // c28
as Body // c30
{ // c31
1 // c32a
  // c32b
:
    // c33
BodyA // c34
, // c35a
  // c35b
2 : BodyB // c38
, // c39a
  // c39b
} // c40
, match // c42
TK as
    // c44
Trl // c45a
  // c45b
{ 1 // c47a
  // c47b
:
    // c48
TrlA
    // c49
, }
    // c51
,
    // c52
} // c53
packet HdrA // c55a
  // c55b
{ // c56
u8 // c57
a // c58
, // c59a
  // c59b
}
    // c60
packet // c61a
  // c61b
HdrB { // c63
u16 b ,
    // c66
}
    // c67
packet BodyA
    // c69
{ u32
    // c71
c // c72
,
    // c73
}
    // c74
packet // c75a
  // c75b
BodyB { // c77
u64 // c78a
  // c78b
d , } // c81a
  // c81b
packet // c82
TrlA { // c84
u8 // c85a
  // c85b
e
    // c86
, // c87a
  // c87b
} root
    // c89
packet // c90
Msg // c91
{ // c92a
  // c92b
Frame , u8 // c95
x
    // c96
, // c97a
  // c97b
} // c98
")).
Eval vm_compute in ("<<<M4211>>>" ++ check (runes_of_ascii "packet chars {
    i8 Z9_,
    match zchar as Logon {
        00 : i8i8,
        [
            ""// no comment"", 42, 10, ""it's"", 4294967296,
            ""`tick`"", ""x y"", ""a\""b""
        ] : leftPad,
        [""\" ++ [233]%N ++ runes_of_ascii """] : A,
        [""abc"", ""1""] : zchar,
        3 : x,
        3 : x_y_z,
    },
    uint8x @calculatedFrom(""{,}""),
}// `tick` ""quote"" 'q'

packet calculatedFrom {
    int32 T,
    @lengthOf(float)
    f32a len,
    @calculatedFrom(""" ++ [233]%N ++ runes_of_ascii "t" ++ [233]%N ++ runes_of_ascii """)
    int32 f32a @lengthOf(matchKey) `" ++ [233]%N ++ runes_of_ascii "`,
    charz @calculatedFrom(""x y""),
}

root packet stringy {
    @lengthOf(Logon)
    int64 len @calculatedFrom(""CRC32""),
    T @calculatedFrom(""1"") `line1
    line2`,
    @tag(255)
    @tag(7)
    @tag(007)
    repeat packetx len,
    @tag(1)
    repeat zchar[0] float,//
    @lengthOf(lengthOf)
    repeat x_y_z {
        char[10] u `
        `,
        MetaDataX a1 `u8 x,`,
    },
    @tag(1)
    string repeatCount `" ++ [28040; 24687; 31867; 22411]%N ++ runes_of_ascii "`,
    int8 int @calculatedFrom(""// no comment""),
}

packet asx {
    @leftPad('\x00')
    char[00] u8x @calculatedFrom(""" ++ [233]%N ++ runes_of_ascii "t" ++ [233]%N ++ runes_of_ascii """),
    zchar[007] asx @calculatedFrom(""" ++ [128512]%N ++ runes_of_ascii """),
    repeat MetaDataX metadata `
    `,
}")).
Eval vm_compute in ("<<<M3545>>>" ++ check (runes_of_ascii "// top
options
    // c0
{ // c1
LittleEndian
    // c2
= // c3
false ; StringPrefixLenType // c6a
  // c6b
=
    // c7
u8
    // c8
; // c9a
  // c9b
ArrayPrefixLenType = // c11
u16 ;
    // c13
FixedStringPadFromLeft = // c15a
  // c15b
false // c16a
  // c16b
; // c17a
  // c17b
} // c18
packet // c19a
  // c19b
Heartbeat { // c21a
  // c21b
u8
    // c22
seqNo // c23a
  // c23b
, // c24a
  // c24b
@rightPad ( '\x00' // c27
) char[
    // c29
8 // c30a
  // c30b
] // c31
x
    // c32
, // c33
} // c34
root // c35
packet Trade // c37
{
    // c38
repeat // c39
Heartbeat // c40
, float32
    // c42
OrderId // c43a
  // c43b
, // c44
i64
    // c45
Acct , // c47a
  // c47b
u16
    // c48
Qty // c49a
  // c49b
, // c50
u16 // c51a
  // c51b
clOrdID
    // c52
, // c53a
  // c53b
match clOrdID // c55
as // c56a
  // c56b
Body
    // c57
{
    // c58
131 // c59a
  // c59b
: Heartbeat , // c62a
  // c62b
} ,
    // c64
u16 // c65a
  // c65b
sym // c66
@calculatedFrom( // c67a
  // c67b
""CRC32"" // c68
) // c69a
  // c69b
,
    // c70
} ")).
Eval vm_compute in ("<<<M80>>>" ++ check (runes_of_ascii "// `tick` ""quote"" 'q'
packet	rootA{ }
root
packet x_y_z {
// `tick` ""quote"" 'q'
// packet A { u8 x, }
@calculatedFrom( """ ++ [28040; 24687]%N ++ runes_of_ascii """  )// a // b
@tag( 4294967296) @leftPad	(	'\x00')  match Z9_ as len // c
{0: x_y_z /// triple
, [ 255 , 007 ] : string_["""" ,
""`tick`"" , """" ,
10 ,""it's"" ,
    """ ++ [233]%N ++ runes_of_ascii "t" ++ [233]%N ++ runes_of_ascii """ ]	: BodyLength	, 4294967296 : u,4294967296
    // " ++ [27880; 37322]%N ++ runes_of_ascii "
    :	Header ,
""packet"": trueish , }
,
match int as asx { 007 : leftPad , ""abc"":
_x
65535 :stringy ""CRC32"" : int , 255 : A }, match asx as a1  {	[ 0123456789 ]: crc,""packet"" : leftPad ,
    ""\n"" : //x
crc
, 10
    //x
    :
// a // b
// a // b
chars ,},
    i16
rootA @calculatedFrom(
""abc"" ) , @lengthOf(Pad)  rootA As`" ++ [233]%N ++ runes_of_ascii "`,match i64_
    //	t
    as packetx{	[ """ ++ [28040; 24687]%N ++ runes_of_ascii """ ] :repeatCount
, 65535 : i8i8 ,
    } , // a // b
stringy len , }packet o{
} packet
Header {	_x
string_ ,
@lengthOf(
    u8x )
lengthOf `it's`
, } options
    { A // trailing space 
= ""it's"";
zchar
= ""packet"" ; // " ++ [128512]%N ++ runes_of_ascii " emoji
len
= 4294967296 ; T= ""abc""int
    =
3 ; }
")).
Eval vm_compute in ("<<<M4086>>>" ++ check (runes_of_ascii "//	t
root packet Header {
    @tag(255)
    float32 msg_type @lengthOf(u8x) `" ++ [28040; 24687; 31867; 22411]%N ++ runes_of_ascii "`,
    //x
    @calculatedFrom(""a	b"")
    repeat string i64_,
    repeat x_y_z {
        //x
        asx,
        string i8i8 @lengthOf(float),
        uint16 As @calculatedFrom(""x y""),
    },//
    @lengthOf(i8i8)
    msg_type {
        match tag as Z9_ {
            [1, ""packet""] : Z9_,
            [4294967296] : options1,
            ""\n"" : Pad,
        },
        match calculatedFrom as packetx {
            0123456789 : metadata,
            [""" ++ [233]%N ++ runes_of_ascii "t" ++ [233]%N ++ runes_of_ascii """] : T,
            1 : i64_,
        },//	t
        match BodyLength as chars {
            0 : metadata,
            """ ++ [128512]%N ++ runes_of_ascii """ : u128,
            ""a\""b"" : calculatedFrom,
            0 : As,
            """ ++ [128512]%N ++ runes_of_ascii """ : x_y_z,
            7 : f32a,
        },
        u trueish,
    },
}

MetaData charz {
    i32 x `u8 x,`,
    char[] calculatedFrom `two words`,
    int8 packetx `crlf
    line`,
}

MetaData charz {
}")).
Eval vm_compute in ("<<<M4315>>>" ++ check (runes_of_ascii "packet zchar {
    repeat trueish _x,
    @calculatedFrom(""\n"")
    uint16 stringy `// not a comment`,
    @rightPad(' ')
    body {
        leftPad i8i8,
        lengthOf {
            // " ++ [128512]%N ++ runes_of_ascii " emoji
            // " ++ [27880; 37322]%N ++ runes_of_ascii "
            int64 asx `// not a comment`,
            leftPad {
                packetx @lengthOf(MetaDataX),
            },
            i32 o,
        },
    },
    f32 Z9_ `crlf
        line`,
    @calculatedFrom(""abc"")
    calculatedFrom charz,
    repeat zchar Z9_,
    match T as o {
        00 : calculatedFrom,
        0123456789 : charz,
        ""\" ++ [233]%N ++ runes_of_ascii """ : a1,
    },
    @lengthOf(A)
    repeat len,
}

root packet Pad {
}

options {
    msg_type = ""\n""// packet A { u8 x, }
    trueish = int8;
    // " ++ [128512]%N ++ runes_of_ascii " emoji
    // `tick` ""quote"" 'q'
    repeatCount = ' '
    u128 = ""\" ++ [233]%N ++ runes_of_ascii """;
    charz = char[007]
}

MetaData string_ {
    i64 Foo `say ""hi""`,
    chars calculatedFrom,
}")).
Eval vm_compute in ("<<<M4171>>>" ++ check (runes_of_ascii "
packet body 
{
    @tag(
    0123456789
)
repeatCount
{// @lengthOf(
i32 
roots@calculatedFrom(
""it's""
	) 
  // trailing space 
, char[] 
repeatCount  @calculatedFrom( ""packet"")
	`two words` // " ++ [128512]%N ++ runes_of_ascii " emoji
    ,
	repeat  u16

roots , match lengthOf  as
	As//	t
  	{ [

    ""packet""  ,

""" ++ [28040; 24687]%N ++ runes_of_ascii """  ,
255,42 , 
""\" ++ [233]%N ++ runes_of_ascii """ ]
:

x_y_z	,}

    ,}

,
trueish
, @tag(

65535

)

    @tag( 255)/// triple
@tag(
00 )
    chars
	@calculatedFrom(
	""it's""	) ,
	match
	o 
as
    // `tick` ""quote"" 'q'

roots
{
	    // " ++ [27880; 37322]%N ++ runes_of_ascii "
	// c
""{,}"" :options1
,

""" ++ [28040; 24687]%N ++ runes_of_ascii """	:

    lengthOf 
,
	00
    :  pack	,  [

    ""a\""b""
]
:	msg_type
,
	1
	:i8i8	,
	[ 10 
, 3
	,
    """"
] :	falsey ,},}

    root
packet  // `tick` ""quote"" 'q'

	Z9_
	{
	repeat

char[] 	 // a // b
Packet

,

    string chars @calculatedFrom(
""a\""b"" )
`// not a comment` 
      // " ++ [128512]%N ++ runes_of_ascii " emoji
		, }
")).
Eval vm_compute in ("<<<M896>>>" ++ check (runes_of_ascii "options
/// triple
// @lengthOf(
{ o = '\x00';
} packet tag {int16
    falsey// trailing space 
`two words`
,
    /// triple
    T	,
}  packet asx {
match T as	falsey
    {7
    :  x , } , zchar[ 4294967296] matchKey
    @calculatedFrom( // `tick` ""quote"" 'q'
""`tick`"")
`" ++ [233]%N ++ runes_of_ascii "` , @lengthOf(	calculatedFrom ) // " ++ [128512]%N ++ runes_of_ascii " emoji
crc {
repeat A
{	msg_type  ,	repeat
    char[] zchar
    `{ , }` ,  u16 pack , // " ++ [128512]%N ++ runes_of_ascii " emoji
u8 metadata @lengthOf( // a // b
leftPad ) `" ++ [28040; 24687; 31867; 22411]%N ++ runes_of_ascii "` , } , }
, msg_type {
    repeat
Foo{
    match Foo as  Pad// packet A { u8 x, }
{
    [ 65535 ] : //	t
charz ,[""`tick`"" ] :o
    ,
    255 :pack
    , },
    char[]	packetx , zchar[7	] i8i8 , } , //	t
}
, i8 chars , } root packet metadata// `tick` ""quote"" 'q'
{  match uint8x as
    u8x{ 65535 :
x_y_z ,} ,}MetaData leftPad { i32 u128 , } // " ++ [27880; 37322]%N)).
Eval vm_compute in ("<<<M4351>>>" ++ check (runes_of_ascii "  MetaData

    options1

    {float64 	 //
	msg_type
`say ""hi""`
,
    u32  x

, f64 
// a // b
	//	t
	tag 
, }root

packet

    chars
    /// triple
  {
}
packet
repeatCount
    {

    @lengthOf(
    a1
	)
rootA @lengthOf(
	crc 
    // trailing space 

// @lengthOf(

)
	,}	root	packet	x
    {chars	@lengthOf(msg_type
	), 
      // trailing space 
	int16  metadata 
@lengthOf(
        // @lengthOf(
  Pad)	,	@tag(
	3) @lengthOf(

a1 
) uint8 options1	, repeat	string
_x
`" ++ [233]%N ++ runes_of_ascii "`,

    string
    f32a
    @calculatedFrom(
""{,}""
)
`{ , }` ,@tag( 4294967296
    ) 
@calculatedFrom(

""// no comment"")

@leftPad

    ( )

    BodyLength
@lengthOf(  falsey 
	// a // b
)  `a\`

,/// triple
    repeat string
	int	`
` 
    // " ++ [27880; 37322]%N ++ runes_of_ascii "
  ,

u8 
lengthOf
    ,
	}
")).
Eval vm_compute in ("<<<M3893>>>" ++ check (runes_of_ascii "options

{ StringPrefixLenType 
= u16
    ;
ArrayPrefixLenType

    =  u32; FixedStringPadFromLeft = false
    ; FixedStringPadChar =  '0'	;
    }
packet  Logout {
f64
    f1,
	i16
	Note
	, @rightPad( '\x00'

)char[
11
]

Flags

, }

packet

    Cancel 
{ 
float64
    msgKind, } packet Reject
    {
	InQty43 {float32

    sym
,	char[ 
10
] Tail
,
    uint8
venue,uint16
f1 ,

char[9	]
    Acct

    , } ,
}  packet
Trade{char[] 
x ,zchar[ 
6  ]
    Note 
,	repeat
Reject , } root

    packet
    Order {Cancel , Logout	,  u64
Acct  ,

    u32

    OrderId	, 
match
OrderId  as
Body  {
    [ 
127 ,

70 ]  : Reject ,	177: 
Trade
	,58
:

Logout ,  75

    :
	Cancel ,

}  ,

u32 Tail @calculatedFrom(""CR\
C32"" 
),} ")).
Eval vm_compute in ("<<<M39>>>" ++ check (runes_of_ascii "  options
    {string_
    //x
    =char[ 7 ] ;} options { crc=float64 ; Logon
    = false // a // b
As
    =
    '0' f32a =
char[] ; // packet A { u8 x, }
T =
00	}	root
packet x { @calculatedFrom(
""1"" )repeat zchar[
    255
] // " ++ [128512]%N ++ runes_of_ascii " emoji
string_ , } root packet int {	@tag(4294967296) char[255 // packet A { u8 x, }
]
a1
    ,repeat
x ``, char[]  packetx
@lengthOf( uint8x ) `u8 x,` , zchar[ 10 ]leftPad @calculatedFrom( ""a	b"" )
, lengthOf @calculatedFrom( """"	) , @calculatedFrom(
    /// triple
    ""packet"" )
    i32 matchKey , @rightPad (
) zchar[ 1
] A, u32
Packet @calculatedFrom( ""{,}"" ) `a\`	,// c
repeat char[00]Header	`say ""hi""`
    //x
    , stringy	trueish `// not a comment`, } 	 ")).
Eval vm_compute in ("<<<M4271>>>" ++ check (runes_of_ascii "// top
options {
    // c1
    LittleEndian = false;
    StringPrefixLenType = u8;// c9a
    // c9b
    ArrayPrefixLenType = u16;
    // c13
    FixedStringPadFromLeft = false;// c17a
    // c17b
}// c18

packet Heartbeat {
    // c21a
    // c21b
    u8 seqNo,// c24a
    // c24b
    @rightPad('\x00')
    char[8] x,// c33
}// c34

root packet Trade {
    // c38
    repeat Heartbeat,
    float32 OrderId,// c44
    i64 Acct,// c47a
    // c47b
    u16 Qty,// c50
    u16 clOrdID,// c53a
    // c53b
    match clOrdID as Body {
        // c58
        131 : Heartbeat,
        // c62a
        // c62b
    },
    // c64
    u16 sym @calculatedFrom(""CRC32""),
    // c70
}")).
Eval vm_compute in ("<<<M926>>>" ++ check (runes_of_ascii "
packet T {
@calculatedFrom(""\" ++ [233]%N ++ runes_of_ascii """ )
    string// a // b
f32a ,repeat f32
    falsey , /// triple
@leftPad	('0' )
match // packet A { u8 x, }
repeatCount as
repeatCount
    {
    ""a	b"" : body
    , } ,
x_y_z @lengthOf(
trueish) // `tick` ""quote"" 'q'
,f64 crc , @calculatedFrom( //	t
""x y"")@tag( 0 // " ++ [128512]%N ++ runes_of_ascii " emoji
)
@tag( 65535 )
int16 u128 @lengthOf( string_// a // b
)`" ++ [233]%N ++ runes_of_ascii "` , @calculatedFrom(
    ""\n"" ) char[0123456789 ]Foo@calculatedFrom(
""CRC32"" ) ,@calculatedFrom( ""a\\"" )
match
    T
    as msg_type
{
    [ 65535,""x y""
,
3, 255
,
    0	] :
T,[// trailing space 
""CRC32"" , ""1""
    //	t
    , 3 , 10 , 65535 ]: u //	t
, 4294967296:	a1 ,
},}")).
Eval vm_compute in ("<<<M597>>>" ++ check (runes_of_ascii "  options{} root packet A
{ @rightPad
(
) @lengthOf(u128 ) @calculatedFrom(
    ""\" ++ [233]%N ++ runes_of_ascii """ ) repeat u {string body
,
zchar @lengthOf( roots
)// " ++ [27880; 37322]%N ++ runes_of_ascii "
,
// @lengthOf(
// @lengthOf(
uint64
Pad,// `tick` ""quote"" 'q'
repeat metadata
, } ,@tag(3 )	Pad
@calculatedFrom( ""a\""b""
    ) `two words` , @leftPad ( '\x00' ) T x`crlf
line` ,
    match BodyLength as crc
{	[  007 ]
:
    uint8x,
00 :u
""a\""b"" :
    tag , 00 :	options1 //	t
, ""\" ++ [233]%N ++ runes_of_ascii """ :trueish	,[  65535 , ""x y"" ,
"""" ,
// packet A { u8 x, }
// @lengthOf(
3 ] : float,
} ,} options{ x_y_z // " ++ [128512]%N ++ runes_of_ascii " emoji
=
    42
    //
    }
    options {
zchar
    = false /// triple
; }
")).
Eval vm_compute in ("<<<M524>>>" ++ check (runes_of_ascii "options {
tag = ""it's""
//	t
// packet A { u8 x, }
;
int  = zchar[ 00
] ; x_y_z =""a	b"" ;  packetx =' '
    ;}packet
rootA {  uint8x @calculatedFrom( ""CRC32""
) ,// " ++ [27880; 37322]%N ++ runes_of_ascii "
u // `tick` ""quote"" 'q'
{
repeat
string repeatCount
    `line1
line2`,
    repeat Logon{ f32a @lengthOf( roots), Packet {int32
Z9_ `u8 x,` ,  } , Packet Packet , } , repeat
// " ++ [128512]%N ++ runes_of_ascii " emoji
// trailing space 
repeatCount zchar, } ,
    a1 @calculatedFrom(""abc""
) // `tick` ""quote"" 'q'
,}// `tick` ""quote"" 'q'
root
packet crc {
@tag(00	)
    char[7
    // `tick` ""quote"" 'q'
    ]asx @lengthOf( T ) `` ,
}
")).
Eval vm_compute in ("<<<M3931>>>" ++ check (runes_of_ascii "
MetaData

matchKey

{ } 
packet a1  {

    char[]
int 
`" ++ [28040; 24687; 31867; 22411]%N ++ runes_of_ascii "` 
, 
msg_type @lengthOf(  As 	 // trailing space 
    ),	@leftPad

( 	 //	t

)	string
roots `// not a comment`, @lengthOf(

    Logon )

string

    Logon @lengthOf(
crc
	)  ,
	msg_type
    {

repeat 
  //x
    //	t

	u64 a1
, } // a // b
  ,
char[
	65535	] 	 /// triple

	u
@calculatedFrom(  /// triple

  ""it's""

) ,
f32a
len  , 
} root

packet
    asx	{ @leftPad 
(  ' ')  // c

uint16  uint8x  @lengthOf(

charz
// c
	// `tick` ""quote"" 'q'
    )`two words`,	}")).
Eval vm_compute in ("<<<M649>>>" ++ check (runes_of_ascii "options //	t
{ // " ++ [128512]%N ++ runes_of_ascii " emoji
Logon =
' '; }	packet
x_y_z {
// a // b
// `tick` ""quote"" 'q'
@lengthOf( calculatedFrom )//
match asx as len{ [""\" ++ [233]%N ++ runes_of_ascii """, 255
    , ""x y""
    , 7	,
""" ++ [233]%N ++ runes_of_ascii "t" ++ [233]%N ++ runes_of_ascii """  , ""\" ++ [233]%N ++ runes_of_ascii """ ]:	tag, ""packet"" : o
[ 7 , """ ++ [28040; 24687]%N ++ runes_of_ascii """  , """ ++ [28040; 24687]%N ++ runes_of_ascii """
,
    /// triple
    ""CRC32"" ]	: _x,
/// triple
// @lengthOf(
[3 // " ++ [128512]%N ++ runes_of_ascii " emoji
, 007// a // b
, ""packet"" , // " ++ [27880; 37322]%N ++ runes_of_ascii "
"""" ,
""CRC32"",0123456789
    //
    ] : lengthOf
    // " ++ [27880; 37322]%N ++ runes_of_ascii "
    , 7 : crc // @lengthOf(
, 42	://
zchar,  },int, } MetaData A {
    BodyLength Foo `// not a comment` ,}
")).
Eval vm_compute in ("<<<M747>>>" ++ check (runes_of_ascii "// a // b
MetaData crc { uint8x len ,
string
BodyLength ,
    asx body
    // packet A { u8 x, }
    `" ++ [233]%N ++ runes_of_ascii "` ,
calculatedFrom i8i8  , } packet Header {
@tag( 3
    )int64  uint8x ,  repeat lengthOf { match x as body { """ ++ [128512]%N ++ runes_of_ascii """//	t
: trueish
3
: MetaDataX
, [ ""it's"" , """" ]
:	o,	""CRC32""
: i8i8,} // trailing space 
,}
    ,
i64
lengthOf `u8 x,` ,
}packet pack{ @rightPad// trailing space 
( )	@tag( 255
)repeat string leftPad
`crlf
line` , } options{}  packet Packet { lengthOf
    ,	}
")).
Eval vm_compute in ("<<<M211>>>" ++ check (runes_of_ascii "packet leftPad
    {  BodyLength
{ // a // b
rootA {
char[ 00]
leftPad,
    // trailing space 
    tag // " ++ [27880; 37322]%N ++ runes_of_ascii "
@calculatedFrom( ""abc""
    // " ++ [128512]%N ++ runes_of_ascii " emoji
    ) , char[	42 ] // c
len ,
string MetaDataX  ,}, match Z9_ as A { ""1""  : x, ""packet"" // trailing space 
: lengthOf	} , i64
    // trailing space 
    chars @lengthOf(	msg_type
    ) `
`
, },zchar[ 3 //
]  u128
    @lengthOf(//	t
packetx
) , @leftPad ( '\x00'
)char[] chars @calculatedFrom( ""`tick`"" ) //
, }
")).
Eval vm_compute in ("<<<M3996>>>" ++ check (runes_of_ascii "options {
}// " ++ [27880; 37322]%N ++ runes_of_ascii "

root packet leftPad {
    match T as u8x {
        // trailing space 
        4294967296 : Logon,
        ""1"" : i8i8,
        0123456789 : tag,
        ""a\""b"" : options1,
        4294967296 : T,
    },
    repeat matchKey {
        repeat string rootA,
        repeat int64 zchar `
                `,
    },
    i32 x_y_z,
    zchar[007] packetx `it's`,
    // a // b
    // `tick` ""quote"" 'q'
    repeat zchar[255] falsey,
}// " ++ [27880; 37322]%N)).
Eval vm_compute in ("<<<M4059>>>" ++ check (runes_of_ascii "
packet
Frame {  u8
HK ,
u8

    BK
	,
u8
TK

,
match	HK

as

Hdr	{1
:
	HdrA

    ,
2
    : 
HdrB , 
}

,
	match
BK
	as

Body { 
1
:
BodyA

    ,2:  BodyB

    ,

    }
, match
TK as

Trl { 1  : TrlA 
,  },  }	packet  HdrA {u8	a
    ,
	}
packet

    HdrB
{u16
	b

    ,
    } packet	BodyA
	{
u32
c
,  }

packet BodyB	{

u64

d ,
    }

    packet  TrlA	{ u8

e, }
root 
packet
	Msg{  Frame, 
u8 x
	,  }
")).
Eval vm_compute in ("<<<M599>>>" ++ check (runes_of_ascii "
packet i64_ // `tick` ""quote"" 'q'
{ uint8x @calculatedFrom(""abc"" // " ++ [27880; 37322]%N ++ runes_of_ascii "
) , char stringy ,@lengthOf( i8i8
) match BodyLength
as o{""" ++ [233]%N ++ runes_of_ascii "t" ++ [233]%N ++ runes_of_ascii """ :	Z9_
,
    ""x y""
    : stringy , } ,@rightPad
    /// triple
    ('0'  )
repeat T
    {  repeatCount
    , uint16
As @lengthOf( // `tick` ""quote"" 'q'
Packet )
    ,	repeat	len
, }, @lengthOf( packetx )
Pad , @calculatedFrom(""" ++ [28040; 24687]%N ++ runes_of_ascii """
    ) // @lengthOf(
o ,zchar[ 00 ] rootA
,
}
")).
Eval vm_compute in ("<<<M300>>>" ++ check (runes_of_ascii "
root
    packet pack
{
repeat u8x
    `a\`
    , char[ 3 ]MetaDataX `two words` ,
    @leftPad ( ' '  ) zchar[ 4294967296 ]crc
@calculatedFrom( """ ++ [128512]%N ++ runes_of_ascii """
)
    // c
    ,  @lengthOf(
    // " ++ [27880; 37322]%N ++ runes_of_ascii "
    options1 )
// " ++ [128512]%N ++ runes_of_ascii " emoji
// " ++ [27880; 37322]%N ++ runes_of_ascii "
@calculatedFrom( ""x y"" )repeat u{ repeat	x_y_z options1
`two words` , zchar[3	]
charz ,
    Logon { u8	pack ,
repeat zchar , i8i8{ repeat
    u8
    matchKey , }, } ,
}, }")).
Eval vm_compute in ("<<<M1285>>>" ++ check (runes_of_ascii "
options { A
= ""it's""
} options { }packet	pack {
int16 zchar ,
    @tag( 007 )@lengthOf( Pad
)// trailing space 
@leftPad ( ' '
)match stringy as body{
    [255 ,
42
, // " ++ [128512]%N ++ runes_of_ascii " emoji
1
    // trailing space 
    , 00 ,
    """",
10
, ""{,}"" ] :
    repeatCount
, [ 1 ] : x_y_z ,
    ""`tick`""
:
packetx, 7 : u128,
    } // `tick` ""quote"" 'q'
,u32 body@lengthOf(	stringy )
, } 	 ")).
Eval vm_compute in ("<<<M431>>>" ++ check (runes_of_ascii "packet roots{char[  007 ]
len ,  repeat char[]
// c
/// triple
Pad
    `" ++ [233]%N ++ runes_of_ascii "` , //x
repeat rootA {
match roots as falsey{
    ""a	b""  : f32a ,}	,string chars
    ,
match rootA as lengthOf{ 10 // " ++ [27880; 37322]%N ++ runes_of_ascii "
: Foo ,  ""abc"" : A ,
    65535:u8x ,
    [ 255
,
""CRC32""
] :
len } //x
, }
// " ++ [27880; 37322]%N ++ runes_of_ascii "
// @lengthOf(
,} MetaData calculatedFrom
    /// triple
    {matchKey zchar`a\`,
}
")).
Eval vm_compute in ("<<<M3922>>>" ++ check (runes_of_ascii "
root
    // trailing space 
    packet

    //	t
//
	trueish	{ @tag(

0

)@lengthOf( float )

    @lengthOf(

    trueish

)  repeat

    uint8

    Logon
    `line1
line2`

,char[]
	body
@lengthOf( A
	)
	`
`
,
	// " ++ [128512]%N ++ runes_of_ascii " emoji
    	// c
    repeat 

// packet A { u8 x, }
	char[ 00

    ]
MetaDataX ,@leftPad(
)
repeat	int8 pack

,

}

")).
Eval vm_compute in ("<<<M3212>>>" ++ check (runes_of_ascii "// top
packet
    // c0
Logon
    // c1
{
    // c2
@tag(
    // c3
42
    // c4
)
    // c5
@rightPad
    // c6
(
    // c7
' '
    // c8
)
    // c9
@leftPad
    // c10
(
    // c11
)
    // c12
repeat
    // c13
trueish
    // c14
{
    // c15
string
    // c16
T
    // c17
,
    // c18
}
    // c19
,
    // c20
}
    // c21
")).
Eval vm_compute in ("<<<M219>>>" ++ check (runes_of_ascii "root packet x {string
packetx
    // @lengthOf(
    `{ , }`, char stringy`// not a comment`
, match charz as
u128
{ """ ++ [128512]%N ++ runes_of_ascii """
: _x,0 : options1 // packet A { u8 x, }
42
    :trueish , [
// @lengthOf(
// `tick` ""quote"" 'q'
""it's"" , 00
, """ ++ [28040; 24687]%N ++ runes_of_ascii """  , ""\n""
    // trailing space 
    , 255 , 00 ]
: lengthOf ,
    1:len
    , },}
")).
Eval vm_compute in ("<<<M329>>>" ++ check (runes_of_ascii "
options{MetaDataX =
    char }packet packetx {match // packet A { u8 x, }
string_
    as trueish {""a\""b"" : crc // trailing space 
,
1 : calculatedFrom [
1 ]  : u8x	, }
, }options {}
    MetaData Z9_
    // " ++ [128512]%N ++ runes_of_ascii " emoji
    {
    string MetaDataX `` // trailing space 
, }options{ o= '\x00';// trailing space 
}")).
Eval vm_compute in ("<<<M3485>>>" ++ check (runes_of_ascii "packet
    A 
{	u8
a
	,
    }
packet B{u16 b , } packet
	C{u32 c , 
}
root  packet M{u16

    Kc , 
u16 Kb ,  u16 Ka

,

    match Kc
as

X{ 9
    :

    A, 10
	: 
B

,	}

, match	Kb 
as 
Y	{2 :
C
    ,

    1: A 
,
    }

,

    match 
Ka
as Z{  1
    :
	B
, 
} 
, A, B,
C,
    }

")).
Eval vm_compute in ("<<<M306>>>" ++ check (runes_of_ascii "
packet charz
    { @lengthOf( Pad
) match rootA as	string_ { [ 0123456789 ]
// a // b
//
: repeatCount [
    00 ,""it's""
] : T ,
    0 // packet A { u8 x, }
: stringy,
    4294967296 :
msg_type ,/// triple
} ,} packet lengthOf
{
@tag( 7 ) char[
    255 ]
float@calculatedFrom( ""packet"" ),  }
")).
Eval vm_compute in ("<<<M1511>>>" ++ check (runes_of_ascii "root packet Foo // " ++ [128512]%N ++ runes_of_ascii " emoji
{ } options {
    // a // b
    tag // `tick` ""quote"" 'q'
= //	t
""""
    ; u8x = zchar[0  ] }
MetaData
    int {10 zchar[ ]
lengthOf	`` , i64 u8x`// not a comment` ,MetaDataX pack// `tick` ""quote"" 'q'
`crlf
line`
, Logon charz `crlf
line`
    ,
    // a // b
    }
")).
Eval vm_compute in ("<<<M1526>>>" ++ check (runes_of_ascii "root packet Foo // " ++ [128512]%N ++ runes_of_ascii " emoji
{ } options {
    // a // b
    tag // `tick` ""quote"" 'q'
= //	t
""""
    ; u8x = zchar[0  ] }
MetaData
    int {zchar[ 10]
``	lengthOf , i64 u8x`// not a comment` ,MetaDataX pack// `tick` ""quote"" 'q'
`crlf
line`
, Logon charz `crlf
line`
    ,
    // a // b
    }
")).
Eval vm_compute in ("<<<M1519>>>" ++ check (runes_of_ascii "root packet Foo // " ++ [128512]%N ++ runes_of_ascii " emoji
{ } options {
    // a // b
    tag // `tick` ""quote"" 'q'
= //	t
""""
    ; u8x = zchar[0  ] }
MetaData
    int {zchar[ 10
lengthOf	`` , i64 u8x`// not a comment` ,MetaDataX pack// `tick` ""quote"" 'q'
`crlf
line`
, Logon charz `crlf
line`
    ,
    // a // b
    }
")).
Eval vm_compute in ("<<<M1497>>>" ++ check (runes_of_ascii "root packet Foo // " ++ [128512]%N ++ runes_of_ascii " emoji
{ } options {
    // a // b
    tag // `tick` ""quote"" 'q'
= //	t
""""
    ; u8x = zchar[0  ] }
int8
    int {zchar[ 10]
lengthOf	`` , i64 u8x`// not a comment` ,MetaDataX pack// `tick` ""quote"" 'q'
`crlf
line`
, Logon charz `crlf
line`
    ,
    // a // b
    }
")).
Eval vm_compute in ("<<<M935>>>" ++ check (runes_of_ascii "options { Packet = '\x00' // " ++ [27880; 37322]%N ++ runes_of_ascii "
i64_	=3;
falsey//
=
    00
    ; x_y_z =
0 // a // b
; Header =// " ++ [128512]%N ++ runes_of_ascii " emoji
""a\""b""
}  MetaData
    f32a {
    } options	{ metadata = ""it's""
    ; } options
    {}options { calculatedFrom = int32 ;
    len	= """ ++ [128512]%N ++ runes_of_ascii """
_x = ""it's""BodyLength= 0123456789 }
")).
Eval vm_compute in ("<<<M4481>>>" ++ check (runes_of_ascii "// top

packet 	 // c0a

// c0b

	B// c1a
  // c1b
	{u8 	 // c3a
    	// c3b
  a // c4
		,
    string 
      // c6

  s ,// c8
}	// c9
  root 
// c10
packet  // c11
P	// c12

{ u16 L @lengthOf(	B ),// c19
	B 	 // c20a
	  // c20b
  , u8

    // c22

	t ,
}  // c25
")).
Eval vm_compute in ("<<<M658>>>" ++ check (runes_of_ascii "options  {  matchKey =
    007;pack
    = false
; // `tick` ""quote"" 'q'
float =	int8 options1 = char[]x_y_z
    =
    //
    """" ; } options
{ Header = // " ++ [128512]%N ++ runes_of_ascii " emoji
float64//
;pack // `tick` ""quote"" 'q'
= float32
; string_
    = char[ 42 ] Logon= 00	;}
//	t
")).
Eval vm_compute in ("<<<M316>>>" ++ check (runes_of_ascii "packet  crc {calculatedFrom
    {string_ u
,
rootA
    calculatedFrom , } // packet A { u8 x, }
,
    @lengthOf( len
    )match //x
roots
    /// triple
    as x{""// no comment""
:
    msg_type
    ,
7 : calculatedFrom ,} ,} packet zchar
{
    }

")).
Eval vm_compute in ("<<<M626>>>" ++ check (runes_of_ascii "packet T {u8 Packet, @leftPad ( ' ' // packet A { u8 x, }
)
    // " ++ [128512]%N ++ runes_of_ascii " emoji
    match o as BodyLength
    // `tick` ""quote"" 'q'
    {
    [ ""it's""
]: charz
0 :
T
,
""`tick`"" : stringy }  , } packet stringy {	_x leftPad `say ""hi""`
    , }
")).
Eval vm_compute in ("<<<M4486>>>" ++ check (runes_of_ascii "MetaData packetx {
    packetx i64_ `say ""hi""`,
}

options {
}

packet string_ {
    @lengthOf(repeatCount)
    len {
        zchar[10] u128,
        f32 falsey `say ""hi""`,
        uint16 f32a `crlf
        line`,
    },
}
// " ++ [27880; 37322]%N)).
Eval vm_compute in ("<<<M1380>>>" ++ check (runes_of_ascii "
packet // `tick` ""quote"" 'q'
Logon {
@lengthOf( a1
)match
    x_y_z as asx {	[
/// triple
//x
""packet"" //
, """ ++ [128512]%N ++ runes_of_ascii """ // packet A { u8 x, }
,// `tick` ""quote"" 'q'
""packet"" , 4294967296 ,""" ++ [28040; 24687]%N ++ runes_of_ascii """ ] : A ,
3 : Packet ,
//
//	t
},}")).
Eval vm_compute in ("<<<M3742>>>" ++ check (runes_of_ascii "MetaData Packet {
}

packet asx {
    @lengthOf(asx)
    falsey `crlf
    line`,
}

packet x {
    uint32 rootA,
    u32 options1 `say ""hi""`,
    @tag(7)
    // packet A { ''u8 x, }
    msg_type @lengthOf(stringy),
}")).
Eval vm_compute in ("<<<M2381>>>" ++ check (runes_of_ascii "MetaData Packet { }packet	asx  { @lengthOf( asx) falsey`crlf
line`
,
    }
    packet x	{uint32// @lengthOf(
rootA	,u32 options1 `say ""hi""` , @tag( 7
    )// packet A { u8 x, }
""msg_type @lengthOf(
stringy	)	, }

")).
Eval vm_compute in ("<<<M2322>>>" ++ check (runes_of_ascii "MetaData Packet { }packet	asx  { @lengthOf( asx) falsey`crlf
line`
,
    }
    packet x	{uint32// @lengthOf(
rootA	,u32 options1 , `say ""hi""` @tag( 7
    )// packet A { u8 x, }
msg_type @lengthOf(
stringy	)	, }

")).
Eval vm_compute in ("<<<M2395>>>" ++ check (runes_of_ascii "MetaData Packet { }packet	" ++ [21517; 23383]%N ++ runes_of_ascii "  { @lengthOf( asx) falsey`crlf
line`
,
    }
    packet x	{uint32// @lengthOf(
rootA	,u32 options1 `say ""hi""` , @tag( 7
    )// packet A { u8 x, }
msg_type @lengthOf(
stringy	)	, }

")).
Eval vm_compute in ("<<<M2318>>>" ++ check (runes_of_ascii "MetaData Packet { }packet	asx  { @lengthOf( asx) falsey`crlf
line`
,
    }
    packet x	{uint32// @lengthOf(
rootA	,u32 """" `say ""hi""` , @tag( 7
    )// packet A { u8 x, }
msg_type @lengthOf(
stringy	)	, }

")).
Eval vm_compute in ("<<<M728>>>" ++ check (runes_of_ascii "// `tick` ""quote"" 'q'
options { }	options {Foo =// trailing space 
'\x00' ; stringy = 65535 ; u= '\x00' Foo = true
// packet A { u8 x, }
//
Foo = // " ++ [27880; 37322]%N ++ runes_of_ascii "
""abc"" ; } packet MetaDataX
    { float32 asx , } 	 ")).
Eval vm_compute in ("<<<M3595>>>" ++ check (runes_of_ascii "options {
    calculatedFrom

    = 
      // packet A { u8 x, }

	""" ++ [28040; 24687]%N ++ runes_of_ascii """

    ;

    u=  false	BodyLength
    = 

    // `tick` ""quote"" 'q'
    	65535
; msg_type =
0
lengthOf= true;
    } ")).
Eval vm_compute in ("<<<M1558>>>" ++ check (runes_of_ascii "root packet Foo // " ++ [128512]%N ++ runes_of_ascii " emoji
{ } options {
    // a // b
    tag // `tick` ""quote"" 'q'
= //	t
""""
    ; u8x = zchar[0  ] }
MetaData
    int {zchar[ 10]
lengthOf	`` , i64 u8x`// not a comment`")).
Eval vm_compute in ("<<<M1012>>>" ++ check (runes_of_ascii "packet  int
    { match	roots
//	t
// @lengthOf(
as//	t
u8x {7 : packetx,
0
: As  ""packet"" :
    // a // b
    a1
// " ++ [27880; 37322]%N ++ runes_of_ascii "
//x
, ""packet""
    :
    float }	,Z9_ @lengthOf( u128
)
, }")).
Eval vm_compute in ("<<<M743>>>" ++ check (runes_of_ascii "MetaData roots { } MetaData
stringy {
Logon leftPad// " ++ [27880; 37322]%N ++ runes_of_ascii "
`crlf
line`
,	char[] metadata`{ , }`
,
falsey  pack `" ++ [233]%N ++ runes_of_ascii "`,
    i8 repeatCount// " ++ [27880; 37322]%N ++ runes_of_ascii "
,} options{
matchKey =' ' }

")).
Eval vm_compute in ("<<<M640>>>" ++ check (runes_of_ascii "root  packet calculatedFrom {@rightPad	( )
    match pack
as
repeatCount //
{ 007 : pack , } ,	}
options{
As =	00
    //	t
    T
    = '\x00' ;	pack =
    00 } // c")).
Eval vm_compute in ("<<<M115>>>" ++ check (runes_of_ascii "root packet T{ }	MetaData	msg_type { i64_ //x
i64_,  } root packet
    // packet A { u8 x, }
    x_y_z { }  MetaData	crc { o
zchar`line1
line2`
,} packet
x{ }")).
Eval vm_compute in ("<<<M3985>>>" ++ check (runes_of_ascii "packet
A	{ match

k as	n { 
[
	""a""  ,  ""bb""
    ,
	007	,
    ""d"" ,
	""e""  ,
	66 ,  ""g""
,  ""h""

,
    9 ,""j""

    ,
""k""	,12
	]

    :	B
2
	: C },	} ")).
Eval vm_compute in ("<<<M4257>>>" ++ check (runes_of_ascii "  options

    { matchKey  = ' ' tag=
	'\x00'  ; 
metadata 
    // `tick` ""quote"" 'q'
  // @lengthOf(
  	=string
;
	charz
    =
65535

; 
}

")).
Eval vm_compute in ("<<<M3441>>>" ++ check (runes_of_ascii "
packet
B{
    u8  a

    ,} root
    packet

P {  u8
K ,

    match  K
    as
Body {

    1
:
B,}
, 
u16
	L @lengthOf( 
Body ) ,
} ")).
Eval vm_compute in ("<<<M3709>>>" ++ check (runes_of_ascii "packet A {
    match k as n {
        [
            1, ""bb"", 007, ""d"", 5,
            ""f"", 7, ""h""
        ] : B,
        2 : C,
    },
}")).
Eval vm_compute in ("<<<M652>>>" ++ check (runes_of_ascii "packet metadata {@calculatedFrom(""" ++ [233]%N ++ runes_of_ascii "t" ++ [233]%N ++ runes_of_ascii """
// `tick` ""quote"" 'q'
// " ++ [128512]%N ++ runes_of_ascii " emoji
) @calculatedFrom(
""1""
)
    repeat
char
i64_
`a\` ,
    }
")).
Eval vm_compute in ("<<<M1733>>>" ++ check (runes_of_ascii "root packet /// triple
rootA {	i32
MetaDataX@calculatedFrom( ""CRC32"" ) `line1
line2` , } MetaData BodyLength {
u8
rootA? , } // c")).
Eval vm_compute in ("<<<M1689>>>" ++ check (runes_of_ascii "root packet /// triple
rootA {	i32
MetaDataX@calculatedFrom( ""CRC32"" ) `line1
line2` , } MetaData { BodyLength
u8
rootA, } // c")).
Eval vm_compute in ("<<<M287>>>" ++ check (runes_of_ascii "
MetaData Pad { int64 roots ,body u128
    //x
    , float64 x // trailing space 
, int32
    chars , A options1 `
`,
    }
")).
Eval vm_compute in ("<<<M515>>>" ++ check (runes_of_ascii "  MetaData//
Foo
    // `tick` ""quote"" 'q'
    {char[ 65535
    ] crc `" ++ [233]%N ++ runes_of_ascii "`	, repeatCount lengthOf
,roots msg_type `it's` , }")).
Eval vm_compute in ("<<<M1786>>>" ++ check (runes_of_ascii "packet
    Pad Pad // a // b
{ i8i8 @calculatedFrom( ""a	b"") `u8 x,` ,
} options{ float// " ++ [128512]%N ++ runes_of_ascii " emoji
= f64 i64_
=//	t
00 }
")).
Eval vm_compute in ("<<<M1811>>>" ++ check (runes_of_ascii "packet
    Pad // a // b
{ i8i8 @calculatedFrom( ""a	b"") ) `u8 x,` ,
} options{ float// " ++ [128512]%N ++ runes_of_ascii " emoji
= f64 i64_
=//	t
00 }
")).
Eval vm_compute in ("<<<M3055>>>" ++ check (runes_of_ascii "packet A {
    match k as n {
        ""x\
y"" : B,
        [""x\
y"", 1] : C,
        [1,2,3,4,5,""x\
y""] : D,
    },
}")).
Eval vm_compute in ("<<<M1867>>>" ++ check (runes_of_ascii "packet
    Pad // a // b
{ i8i8 @calculatedFrom( ""a	b"") `u8 x,` ,
} options{ float// " ++ [128512]%N ++ runes_of_ascii " emoji
= f64 i64_
=//	t
} 00
")).
Eval vm_compute in ("<<<M1865>>>" ++ check (runes_of_ascii "packet
    Pad // a // b
{ i8i8 @calculatedFrom( ""a	b"") `u8 x,` ,
} options{ float// " ++ [128512]%N ++ runes_of_ascii " emoji
= f64 i64_
=//	t
 }
")).
Eval vm_compute in ("<<<M1784>>>" ++ check (runes_of_ascii "=
    Pad // a // b
{ i8i8 @calculatedFrom( ""a	b"") `u8 x,` ,
} options{ float// " ++ [128512]%N ++ runes_of_ascii " emoji
= f64 i64_
=//	t
00 }
")).
Eval vm_compute in ("<<<M3803>>>" ++ check (runes_of_ascii "options {
    Logon = 007
    leftPad = true;
    repeatCount = 0
    // a // b
    u = i32;
    f32a = '0';
}")).
Eval vm_compute in ("<<<M1478>>>" ++ check (runes_of_ascii "root packet Foo // " ++ [128512]%N ++ runes_of_ascii " emoji
{ } options {
    // a // b
    tag // `tick` ""quote"" 'q'
= //	t
""""
    ; u8x =")).
Eval vm_compute in ("<<<M4153>>>" ++ check (runes_of_ascii "packet o {
    @tag(42)
    repeat x {
        char[0123456789] i64_,
        // c
    },
}

options {
}")).
Eval vm_compute in ("<<<M3360>>>" ++ check (runes_of_ascii "packet calculatedFrom { @tag( 4294967296 ) u msg_type , char[ 3
// c
] crc @lengthOf( len ) `u8 x,` , }")).
Eval vm_compute in ("<<<M2953>>>" ++ check (runes_of_ascii "packet A {
  match k as n {
    [""a"", ""bb"", ""c c"", ""d"", ""e"", ""f"", ""g"", ""h"", ""i""] : B
    2 : C
  },
}")).
Eval vm_compute in ("<<<M3609>>>" ++ check (runes_of_ascii "packet metadata {
    @calculatedFrom(""" ++ [233]%N ++ runes_of_ascii "t" ++ [233]%N ++ runes_of_ascii """)
    @calculatedFrom(""1"")
    repeat char i64_ `a\`,
}")).
Eval vm_compute in ("<<<M176>>>" ++ check (runes_of_ascii "MetaData
x_y_z
{
Logon
    repeatCount `say ""hi""`,  crc
    x_y_z
,
    char[	10 ] Foo  ,
}
")).
Eval vm_compute in ("<<<M3236>>>" ++ check (runes_of_ascii "packet Logon { @tag( 42 ) @rightPad ( ' ' ) @leftPad // c
( ) repeat trueish { string T , } , }")).
Eval vm_compute in ("<<<M2947>>>" ++ check (runes_of_ascii "packet A {
  match k as n {
    [""a"", ""bb"", 007, ""d"", ""e"", 66, ""g"", ""h""] : B,
    2 : C
  },
}")).
Eval vm_compute in ("<<<M521>>>" ++ check (runes_of_ascii "options { i8i8 = ""// no comment"" ; o
=
    '0'
    Header
='0' ; a1 =
    zchar[
    1
] }
")).
Eval vm_compute in ("<<<M2941>>>" ++ check (runes_of_ascii "packet A {
  match k as n {
    [1, ""bb"", 007, ""d"", 5, ""f"", 7, ""h""] : B,
    2 : C
  },
}")).
Eval vm_compute in ("<<<M2913>>>" ++ check (runes_of_ascii "packet A {
  match k as n {
    [""a"", ""bb"", ""c c"", ""d"", ""e"", ""f""] : B,
    2 : C
  },
}")).
Eval vm_compute in ("<<<M3972>>>" ++ check (runes_of_ascii "options {
    a = char[3];
    b = zchar[0]
    c = char[]
    d = string
    e = u8
}")).
Eval vm_compute in ("<<<M1971>>>" ++ check (runes_of_ascii "root
packet crc
     f32a @calculatedFrom( """ ++ [233]%N ++ runes_of_ascii "t" ++ [233]%N ++ runes_of_ascii """ )
    `say ""hi""`, lengthOf `` ,  }")).
Eval vm_compute in ("<<<M1182>>>" ++ check (runes_of_ascii "options {
// a // b
//
Z9_
= char[
1
]
Foo = '0'
; // `tick` ""quote"" 'q'
} //	t")).
Eval vm_compute in ("<<<M3303>>>" ++ check (runes_of_ascii "packet o { @tag( 42
// c
) repeat x { char[ 0123456789 ] i64_ , } , } options { }")).
Eval vm_compute in ("<<<M4009>>>" ++ check (runes_of_ascii "packet

    len{ 
Logon  @calculatedFrom( 	 // a // b
    ""a\""b""

    )  , }
")).
Eval vm_compute in ("<<<M3464>>>" ++ check (runes_of_ascii "root

    packet P  { 
repeat
string

    ss

    ,	repeat 
u16	ns

,}
")).
Eval vm_compute in ("<<<M677>>>" ++ check (runes_of_ascii "options {
leftPad = string u128  =
    ""abc""
uint8x = """ ++ [128512]%N ++ runes_of_ascii """Z9_ = 0123456789}
")).
Eval vm_compute in ("<<<M2757>>>" ++ check (runes_of_ascii "char @lengthOf( @lengthOf( false string = ( '0' i32 : float32 i64 u64 true")).
Eval vm_compute in ("<<<M3184>>>" ++ check (runes_of_ascii "packet A {
    match k as n {
        1 : B // c
        , // d
    },
}")).
Eval vm_compute in ("<<<M3395>>>" ++ check (runes_of_ascii "MetaData // c
_x { zchar[ 4294967296 ] lengthOf `// not a comment` , }")).
Eval vm_compute in ("<<<M2885>>>" ++ check (runes_of_ascii "packet A {
  match k as n {
    [1, 22, 007, 4] : B,
    2 : C
  },
}")).
Eval vm_compute in ("<<<M15>>>" ++ check (runes_of_ascii "options
    { Z9_
    =
""" ++ [233]%N ++ runes_of_ascii "t" ++ [233]%N ++ runes_of_ascii """; rootA = string; } // trailing space ")).
Eval vm_compute in ("<<<M2872>>>" ++ check (runes_of_ascii "packet A {
  match k as n {
    [1, 22, 007] : B,
    2 : C
  },
}")).
Eval vm_compute in ("<<<M2866>>>" ++ check (runes_of_ascii "packet A {
  match k as n {
    [""a"", ""bb""] : B
    2 : C
  },
}")).
Eval vm_compute in ("<<<M112>>>" ++ check (runes_of_ascii "options { calculatedFrom  =// `tick` ""quote"" 'q'
""packet""; }
")).
Eval vm_compute in ("<<<M618>>>" ++ check (runes_of_ascii "options { crc =true ;lengthOf
= // a // b
char[	0 ] } //	t")).
Eval vm_compute in ("<<<M1060>>>" ++ check (runes_of_ascii "  packet
//	t
//
packetx{ repeat zchar[
    007 ]	Foo,
}")).
Eval vm_compute in ("<<<M1951>>>" ++ check (runes_of_ascii "
packet	As { @calculatedFrom(//x
""{,}""	)lengthOf , } 	 " ++ [8232]%N)).
Eval vm_compute in ("<<<M3155>>>" ++ check (runes_of_ascii "packet A { match k as n { 1 : B // a // b 2 : C }, }")).
Eval vm_compute in ("<<<M2401>>>" ++ check (runes_of_ascii "MetaData A
{
i64
@x chars	, } // `tick` ""quote"" 'q'")).
Eval vm_compute in ("<<<M547>>>" ++ check (runes_of_ascii "
options {
    tag
=i32
    zchar =
    ""\n""; }
")).
Eval vm_compute in ("<<<M3418>>>" ++ check (runes_of_ascii "root packet P {
    repeat char cs,
    u8 x,
}
")).
Eval vm_compute in ("<<<M3956>>>" ++ check (runes_of_ascii "  packet

    asx 
{
    u64 
MetaDataX  , } ")).
Eval vm_compute in ("<<<M2139>>>" ++ check (runes_of_ascii "'\x01' MetaData x
{// " ++ [128512]%N ++ runes_of_ascii " emoji
i16 stringy , }")).
Eval vm_compute in ("<<<M754>>>" ++ check (runes_of_ascii "MetaData
    /// triple
    BodyLength
{}
")).
Eval vm_compute in ("<<<M4190>>>" ++ check (runes_of_ascii "
packet
A
    { u8 x

`d" ++ [6158]%N ++ runes_of_ascii "`
, // c" ++ [6158]%N ++ runes_of_ascii "
    }")).
Eval vm_compute in ("<<<M1929>>>" ++ check (runes_of_ascii "
packet	As { @calculatedFrom(//x
""{,}""	)")).
Eval vm_compute in ("<<<M3203>>>" ++ check (runes_of_ascii "MetaData zchar { zchar[ 3 ] Pad
// c
, }")).
Eval vm_compute in ("<<<M1166>>>" ++ check (runes_of_ascii "// " ++ [128512]%N ++ runes_of_ascii " emoji
options { u128 = '\x00'
; }")).
Eval vm_compute in ("<<<M1362>>>" ++ check (runes_of_ascii "// " ++ [27880; 37322]%N ++ runes_of_ascii "
options {
crc
=false
    ; }
")).
Eval vm_compute in ("<<<M3166>>>" ++ check (runes_of_ascii "options { a = 1; // a
 b = 2 // b
 }")).
Eval vm_compute in ("<<<M3031>>>" ++ check (runes_of_ascii "root packet A {
    u8 x `a

b`,
}")).
Eval vm_compute in ("<<<M3037>>>" ++ check (runes_of_ascii "root packet A {
    u8 x `x
`,
}")).
Eval vm_compute in ("<<<M1438>>>" ++ check (runes_of_ascii "root packet Foo // " ++ [128512]%N ++ runes_of_ascii " emoji
{ }")).
Eval vm_compute in ("<<<M657>>>" ++ check (runes_of_ascii "
MetaData a1
{ // " ++ [128512]%N ++ runes_of_ascii " emoji
}")).
Eval vm_compute in ("<<<M2822>>>" ++ check ([65533; 65533; 65533; 65533]%N ++ runes_of_ascii "
" ++ [65533; 4; 4]%N ++ runes_of_ascii "#" ++ [65533]%N ++ runes_of_ascii "OXy" ++ [65533; 65533; 65533; 29; 65533]%N ++ runes_of_ascii "%9 I*" ++ [65533; 65533; 597; 65533; 65533]%N)).
Eval vm_compute in ("<<<M4339>>>" ++ check (runes_of_ascii "
packet A
{
    } 	 // c" ++ [8233]%N ++ runes_of_ascii "
")).
Eval vm_compute in ("<<<M880>>>" ++ check (runes_of_ascii "// " ++ [128512]%N ++ runes_of_ascii " emoji
packet f32a{}
")).
Eval vm_compute in ("<<<M807>>>" ++ check (runes_of_ascii "  packet stringy {
    }")).
Eval vm_compute in ("<<<M3384>>>" ++ check (runes_of_ascii "packet lengthOf // c
{ }")).
Eval vm_compute in ("<<<M23>>>" ++ check (runes_of_ascii "packet BodyLength { }
")).
Eval vm_compute in ("<<<M2061>>>" ++ check (runes_of_ascii "MetaData A {  pack, }")).
Eval vm_compute in ("<<<M2697>>>" ++ check (runes_of_ascii "options """ ++ [128512]%N ++ runes_of_ascii """ `" ++ [28040; 24687; 31867; 22411]%N ++ runes_of_ascii "` }")).
Eval vm_compute in ("<<<M3579>>>" ++ check (runes_of_ascii "packet matchKey {
}")).
Eval vm_compute in ("<<<M3071>>>" ++ check (runes_of_ascii "packet A {
}
// c" ++ [160]%N)).
Eval vm_compute in ("<<<M3824>>>" ++ check (runes_of_ascii "  packet i8i8 {
}
")).
Eval vm_compute in ("<<<M3114>>>" ++ check (runes_of_ascii "packet A {
}// c" ++ [11]%N)).
Eval vm_compute in ("<<<M2025>>>" ++ check (runes_of_ascii "root
packet cr")).
Eval vm_compute in ("<<<M2746>>>" ++ check (runes_of_ascii "uint16 = int8")).
Eval vm_compute in ("<<<M2060>>>" ++ check (runes_of_ascii "MetaData A")).
Eval vm_compute in ("<<<M323>>>" ++ check (runes_of_ascii "// c


")).
Eval vm_compute in ("<<<M2510>>>" ++ check (runes_of_ascii """a\
b""")).
Eval vm_compute in ("<<<M2701>>>" ++ check (runes_of_ascii "{ : =")).
Eval vm_compute in ("<<<M2467>>>" ++ check (runes_of_ascii "ROOT")).
Eval vm_compute in ("<<<M2506>>>" ++ check (runes_of_ascii """a\")).
Eval vm_compute in ("<<<M2505>>>" ++ check (runes_of_ascii """a")).
Eval vm_compute in ("<<<M2685>>>" ++ check ([0]%N)).
