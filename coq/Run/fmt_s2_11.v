From FP Require Import Lexer Parser ShowPT Digest Formatter.
From Coq Require Import String List NArith.
Import ListNotations.
Open Scope string_scope.
Set Printing Width 100000000.
Set Printing Depth 100000000.
Definition show_fres (r : fres) : string :=
  match r with
  | FOk s => "OK:" ++ sh_escaped s ""
  | FErr s => "ERR:" ++ sh_escaped s ""
  | FPanic p => "PANIC:" ++ p
  end.
Definition check (rs : list rune) : string := digest (show_fres (format_res rs)).
Definition full (rs : list rune) : string := show_fres (format_res rs).
Eval vm_compute in ("<<<M3876>>>" ++ check (runes_of_ascii "options	{
    LittleEndian

    =
true
;
	ArrayPrefixLenType	=u8; 
FixedStringPadChar
    =
'0'
	;
JavaPackage 
=	""co\
m.example.msg""

;

GoPackage  =""ms\
g"" ;GoModule =

    ""example.com/msg"" 
;}

    MetaData

Meta  { u32 SeqNum
	`sequence number`
,  char[ 
8 ]
Symbol
	`symbol` 
, zchar[5 ]
ZSym
`z symbol` , string
Note , Symbol

    AltSymbol`alias of symbol` 
,
f64

    Price , 
}

    packet

Inner{
    u8
    a , i16 b	,

string 
c
	, }

packet 
Inner2	{ u8

    a2
    ,	char[3
    ]
c2
	, }	packet  Logon

    { u8 x ,string

    user ,
    repeat 
u16  codes,

}packet 
Logout { u16 reason
,}
packet

Empty  {
    }
root
    packet
    Msg
{u8	su8

,uint8
luint8 
,

    u16

su16
    ,
uint16 luint16 ,  u32 su32 
, 
uint32 luint32  ,

u64
su64,uint64 luint64
,i8 si8,
    int8

    lint8 ,
	i16 si16 ,
	int16 lint16

,
    i32 si32
,
    int32
lint32
	,
    i64
    si64
, int64 lint64 ,	f32

sf32

    ,	float32	lfloat32,f64

sf64
,float64 lfloat64 
,

    char[
    6

]

fsplain	, 
@leftPad	('0' ) 
char[ 4 
]

fs0
,
@rightPad
    (

    '0'

    )char[ 5] fs1
,@leftPad

    ( ' '
) 
char[ 6]	fs2 ,
    @rightPad
	(	' '
    ) 
char[  7

]fs3 ,
	@leftPad  ('\x00'
    ) char[8 
] fs4 ,
@rightPad (

'\x00')char[
9] 
fs5,
@leftPad (	)
	char[
    10
    ]fs6, @rightPad
(
) char[11]
	fs7
, zchar[
	7
	] fz
	, 
@leftPad (
    '0'	) zchar[
3
    ]fzl0,	string 
s1 `doc`,
char[]  s2

    , Inner

    , Sub { u8
q ,

    string	w ,
    Deep {u16

    z
    ,
repeat i32	zs
    ,
    }

, } ,

    repeat
u8
ru8 
, repeat

u16
ru16
,repeat
    u32
	ru32,
repeat 
u64  ru64 ,
    repeat
    i8 
ri8
,
	repeat
i16
ri16 , repeat

i32
	ri32

,
    repeat i64 ri64

,
repeat

f32 rf32 ,repeat

    f64 rf64 , repeat 
string rstr
,
	repeat char[]  rstr2 , repeat	char[  3
    ]  rfs ,  repeat zchar[  3

]
rfz, repeat 
Inner2  , repeat Grp{
u8	k
,
    char[2]	v

,
	}
	,

    SeqNum , SeqNum seq2  ,
repeat

SeqNum
	seqs

    ,
	Symbol ,AltSymbol	alt,ZSym 
, Note  , 
repeat
	Symbol
    syms
, Price px
,u16  MsgType	,u32  BodyLen
@lengthOf( 
Body 
)  , 
match
	MsgType as Body
{
1

: 
Logon

    , [2

    ,3

    ]  : Logout ,7  :Logon
,
	9
    :

Empty ,
	},	u32

Checksum  @calculatedFrom( 
""CRC32""

    ) ,}
")).
Eval vm_compute in ("<<<M4259>>>" ++ check (runes_of_ascii "
packet

    Foo {
calculatedFrom
    @calculatedFrom( // c
		""\n"" ) `// not a comment`,
repeat
char[] uint8x  `" ++ [28040; 24687; 31867; 22411]%N ++ runes_of_ascii "`
,
options1  //x
  	@calculatedFrom( // 50% %s
  	""it's""	)
    ,int64

    a1 , 
@tag(00 )

match lengthOf
	as
int

    {

""a\""b""
	:
msg_type
	,	} ,	@lengthOf(// trailing space 
      stringy)
	metadata
@calculatedFrom(
	""" ++ [233]%N ++ runes_of_ascii "t" ++ [233]%N ++ runes_of_ascii """
)  ,
	repeat zchar

    {char[
255 ] 
    //x
u8x
	,  repeat zchar

, match
    f32a
    // @lengthOf(
    	as
pack

{
	""// no comment"" :	//x

a1

,
    }
,

    }
    ,  } // @lengthOf(
	  root	packet Packet
    { }	packet float
{
    @calculatedFrom( """ ++ [233]%N ++ runes_of_ascii "t" ++ [233]%N ++ runes_of_ascii """ )
    x_y_z
,	char[
3 ]
	x_y_z
@calculatedFrom( ""a\\"")
`" ++ [28040; 24687; 31867; 22411]%N ++ runes_of_ascii "`
,  @tag(10
) u16  Header
@lengthOf(

zchar )
	`crlf
line`

    ,@lengthOf(charz
    )

    repeat
    trueish { metadata  @lengthOf(  falsey 
) 
, repeat
        // " ++ [27880; 37322]%N ++ runes_of_ascii "
  //	t
char[] uint8x

`tab	here`
    ,

int64 rootA	`" ++ [233]%N ++ runes_of_ascii "` , repeat crc
    {match
    i8i8  as T

{

[""// no comment"" 
,
	""CRC32""

,
	""" ++ [28040; 24687]%N ++ runes_of_ascii """]:
    zchar 
// trailing space 
	, 
[

4294967296	// `tick` ""quote"" 'q'

] 
: BodyLength,	""\n"":	_x,4294967296 : BodyLength  , } ,body `" ++ [233]%N ++ runes_of_ascii "`, repeat

metadata 
zchar

,

repeat

f32
crc  `// not a comment`  , } ,
}
    // a // b
    // packet A { u8 x, }
	  , // 50% %s
	@leftPad
    ()

    char[]  Pad `" ++ [28040; 24687; 31867; 22411]%N ++ runes_of_ascii "` 
,
repeat

calculatedFrom BodyLength  ,  match

_x as	int
{""{,}""
:
trueish
	,	42 : 
x_y_z

[ 7

    ] :tag 
,
    } ,

@leftPad( 	 //	t
		) u8x	/// triple
    {

repeat
    char[
42 ] 
	    /// triple

// 50% %s

	matchKey

,

    char[
65535 // packet A { u8 x, }
      ] len	@lengthOf(
roots  )	,crc
	, char[ 
    // trailing space 
	  // a // b
0123456789 ]
    len@lengthOf(
leftPad )
    // c
//	t
, } 
, 
    //
	  repeat  int64
calculatedFrom 
`" ++ [28040; 24687; 31867; 22411]%N ++ runes_of_ascii "` 
,repeat
    repeatCount	rootA
    , 
}
packet

    a1{	/// triple
}

")).
Eval vm_compute in ("<<<M3650>>>" ++ check (runes_of_ascii "root

    packet 
chars
    {	char[] asx

@calculatedFrom( ""packet"" 	 // " ++ [128512]%N ++ runes_of_ascii " emoji
	), pack
    _x
    `crlf
line`

,
    @lengthOf(	// trailing space 
  	string_
    ) As {
	i8 
body  @calculatedFrom(""// no comment""

    )	// trailing space 
  	, i64
	msg_type 
`" ++ [28040; 24687; 31867; 22411]%N ++ runes_of_ascii "`	, 

// a // b
    //
      i32 A 
, } 
,

@leftPad
(// a // b
		'0'

    )
i8i8

    uint8x
    `
`
,  tag  roots  // trailing space 
  	, 
repeat	char[
    7] msg_type ,
	falsey@calculatedFrom(
	""\n"" 	 // `tick` ""quote"" 'q'
      )
	`a\`	,  //	t
}  options

{

leftPad=  """"

    ; x
	=char[

255

    ]
	; asx =
	' '  }
packet
	string_ { repeat

    f32 
body ,

}
	root
    packet	options1{@lengthOf(  
  //x

lengthOf)string

string_`line1
line2` , 
@rightPad	('0' )char[]

zchar @lengthOf(  f32a

    )
`line1
line2` ,@lengthOf(

pack )@leftPad	( ' ' )  repeat

    x 
u128 , @calculatedFrom( ""{,}""  ) 	 //x

match len 
as  roots{  10:	falsey

// c
		//	t
  ,
    ""a\""b"" : 
metadata
,

} ,
i32  body , 
u64	u8x
@lengthOf(
    x_y_z

    )
	    //
    //	t
  	,  //	t
@lengthOf(

    u128  )

    zchar[
    /// triple
  // a // b
  00
]stringy  , }packet
roots 	 //x
	{ int64
o
,
	int64

uint8x,
i16
    _x 
, float32 int ,  charz {
char[]

    Packet
,
int16  Z9_ 
`a\`
    ,	zchar[
    255 ]tag
	,  } , 
    //
      // " ++ [27880; 37322]%N ++ runes_of_ascii "
	  match
Pad	as
stringy

    {	42  : 
a1 , }
// packet A { u8 x, }
  // c
  ,
    x_y_z options1 ,	crc@calculatedFrom( ""abc""// " ++ [27880; 37322]%N ++ runes_of_ascii "
    )
`crlf
line`
	,@tag(

0

)
//	t

	@leftPad
(
)

u8
	x,
	}")).
Eval vm_compute in ("<<<M3995>>>" ++ check (runes_of_ascii "MetaData repeatCount {
}

MetaData crc {
}

packet lengthOf {
    // 50% %s
    @leftPad(' ')
    @calculatedFrom(""\n"")
    string u128 @lengthOf(_x),
    @tag(00)
    u32 i8i8,
    Packet o,
    @tag(0)
    repeat char[7] u8x `
    `,
    u128 options1,
    @lengthOf(asx)
    @calculatedFrom(""" ++ [128512]%N ++ runes_of_ascii """)
    // 50% %s
    @lengthOf(MetaDataX)
    MetaDataX `say ""hi""`,
    // `tick` ""quote"" 'q'
    // `tick` ""quote"" 'q'
    repeat roots `a\`,
}

packet A {
    i32 int @calculatedFrom(""a\\"") `line1
    line2`,
    // `tick` ""quote"" 'q'
    uint8 Header `it's`,
    falsey @calculatedFrom(""a\\""),
    @calculatedFrom(""x y"")
    Z9_ @lengthOf(crc),
    @lengthOf(stringy)
    uint32 leftPad,
    match calculatedFrom as matchKey {
        [
            007, 0, 65535, 00, 42,
            0, 42
        ] : stringy,
    },//
    @rightPad('\x00')
    len {
        match Packet as u128 {
            [1] : crc,
        },
    },
    char charz,
    falsey {
        int8 Foo @lengthOf(Packet),
        Pad @calculatedFrom(""{,}"") `say ""hi""`,
    },
    zchar[10] zchar @calculatedFrom(""a\\"") `two words`,
}

packet Pad {
    @rightPad('0')
    repeat falsey string_ `// not a comment`,
    As,
    repeat o chars `doc`,
    @rightPad('0')
    Z9_ {
        f64 Z9_,
        T charz `line1
        line2`,
        x,
        u32 u ``,
    },
    i64_,
}")).
Eval vm_compute in ("<<<M573>>>" ++ check (runes_of_ascii "root packet i64_ { repeat zchar[
    7] int , } packet chars {
// a // b
// trailing space 
zchar[
    007] Header /// triple
`u8 x,`
,
    // " ++ [128512]%N ++ runes_of_ascii " emoji
    match As as// `tick` ""quote"" 'q'
roots { // c
[ 4294967296 ] : calculatedFrom	,""`tick`"" :  Z9_ , 007 : asx [ 007 , 42/// triple
,
    007,7
    // trailing space 
    , ""1"" , // 50% %s
007 ,  ""a	b"" , """ ++ [233]%N ++ runes_of_ascii "t" ++ [233]%N ++ runes_of_ascii """]
: i8i8 ,	} ,
    //
    match _x
as
repeatCount {
3 :
Header, [
255 ]// " ++ [27880; 37322]%N ++ runes_of_ascii "
:rootA
,
    }
,char[ 255
]lengthOf `100% of %d` ,
    @leftPad (
    '\x00'
)
zchar
{ char[ 7 ] roots @lengthOf(
u )  ,
    i8 trueish , match _x //x
as
    // packet A { u8 x, }
    body { 4294967296// 50% %s
: // packet A { u8 x, }
x_y_z
    //	t
    ,
    }
, }, char[
65535 ]leftPad`doc` /// triple
,
} root packet _x {
char[ 00 ] rootA `tab	here` ,//
int8 repeatCount , f32 a1 @lengthOf(  calculatedFrom) ,
Z9_{ char[	65535 ]
    repeatCount	@calculatedFrom( ""// no comment""
    ) , }  ,
    @leftPad (
    // c
    ' ') repeat u32 chars  `two words` // @lengthOf(
, Pad {float32 pack @calculatedFrom(	""x y"" ), },	i32 trueish `crlf
line`
    , string_
    @lengthOf( Packet ) ,// " ++ [128512]%N ++ runes_of_ascii " emoji
} root packet  BodyLength {@calculatedFrom(
    // " ++ [27880; 37322]%N ++ runes_of_ascii "
    ""// no comment""
) i32
calculatedFrom ,
}")).
Eval vm_compute in ("<<<M3924>>>" ++ check (runes_of_ascii "root
packet u128
{
    metadata
zchar ,
	} 
MetaData

Packet

    {
u64  x_y_z `it's`
	, }

    options

    {

} packet

o {
repeat  // a // b
  int64 lengthOf

,string
uint8x  // 50% %s
	,

repeat

    uint64 trueish`a\`

    , @leftPad ('0')  char[]
i8i8
@calculatedFrom(
""CRC32"" ) 
,
    @calculatedFrom(

""" ++ [128512]%N ++ runes_of_ascii """
) 
repeat 
zchar
    {
    int,repeat
float32// trailing space 
    stringy
	,

    stringy
	, 
match 	 // c

packetx
as x_y_z {
4294967296: rootA[  7

    ,  3]
:
A
,
""" ++ [233]%N ++ runes_of_ascii "t" ++ [233]%N ++ runes_of_ascii """
    : zchar
, 
[

1 ,
""packet"" 
    // packet A { u8 x, }
  // " ++ [27880; 37322]%N ++ runes_of_ascii "
  , 
    // trailing space 

10 ,
""" ++ [28040; 24687]%N ++ runes_of_ascii """ ,""a	b""
	] : a1  ,
0123456789 :tag 
// `tick` ""quote"" 'q'
		,	} , }
,

    @tag( 
  // c

/// triple
		00
)	int16
	BodyLength
    @lengthOf(
	A 
	// a // b
  //	t
	  )
    , u8

    leftPad @lengthOf(

    asx
    )

`crlf
line`  ,@leftPad
()
int32
lengthOf@calculatedFrom(""a\""b"") `tab	here` ,

    @lengthOf(	i8i8

) repeat uint64 trueish

,@calculatedFrom(

""\n"" 
)

    repeat
matchKey

    { char[

    7  ]  falsey	`tab	here`// " ++ [27880; 37322]%N ++ runes_of_ascii "
    ,} ,	}MetaData 
calculatedFrom// `tick` ""quote"" 'q'

{

    }
")).
Eval vm_compute in ("<<<M4257>>>" ++ check (runes_of_ascii "root packet T {
    u64 int,
    match rootA as BodyLength {
        ""it's"" : o,
        10 : int,
        ""packet"" : string_,
        [
            ""abc"", 3, 0123456789, 007, 7,
            3, 007
        ] : int,
    },
    match i64_ as options1 {
        0123456789 : zchar,
        00 : pack,
    },
    match zchar as options1 {
        ""it's"" : matchKey,
        ""1"" : u128,
        // `tick` ""quote"" 'q'
        ""`tick`"" : trueish,
        255 : crc,
        // `tick` ""quote"" 'q'
        // @lengthOf(
    },
    // trailing space 
}

packet Z9_ {
    @leftPad('\x00')
    repeat float32 Packet,
    @lengthOf(x)
    string u,
    @calculatedFrom(""\" ++ [233]%N ++ runes_of_ascii """)
    zchar[65535] As @lengthOf(BodyLength),
    string leftPad @calculatedFrom(""a\\""),
    @rightPad('\x00')
    // c
    rootA {
        repeat Packet {
            char[10] matchKey `crlf
                        line`,
            // a // b
        },
    },
    match Packet as uint8x {
        255 : roots,
        [42, 3, ""\" ++ [233]%N ++ runes_of_ascii """] : repeatCount,
    },
    repeat _x `two words`,
}

MetaData tag {
    Pad Header,
}")).
Eval vm_compute in ("<<<M3697>>>" ++ check (runes_of_ascii "
root

packet  // a // b
o
{
As 
@lengthOf(chars ), 	 // c
    } root
packet

A {	// c

	match  T
as 	 // `tick` ""quote"" 'q'
		lengthOf{

    [  0 
]
: Packet

    ,
    [
    42

    ]	:	Packet 7
: options1 
, 
65535 : Z9_ ,3:  msg_type// trailing space 
  , 
""a	b"":
	matchKey

    } 
,repeat
int {

string  float
    @lengthOf(msg_type
    )
	``
	,  string_ {

    BodyLength	{

    repeat

    rootA

`100% of %d`  
  //
  ,}

    ,

    f32a	// c
@lengthOf(pack 
)
,	repeat
char[]

    u ,
	i64_

    {  string  x
, T `
`
,  i8
lengthOf  ,
u64 leftPad , }
,} 
,  i8
Packet
@calculatedFrom( """ ++ [128512]%N ++ runes_of_ascii """ )
    , 
}
,  @calculatedFrom(
    ""packet"")  f32 _x ,
    match
    Pad	as x 
{ 42:u
, [
    4294967296 ]  :
zchar
[

    ""\n""
    ,	""{,}""
]  : roots , 
    // `tick` ""quote"" 'q'
//x

  007 // packet A { u8 x, }
	: // trailing space 
A , [ // 50% %s

  0  //

]

: charz	,[ ""a	b"" ,
    10

    ]
    : 
i64_
    ,

    }

    , char[]	i64_ 
,

repeat

metadata
,} ")).
Eval vm_compute in ("<<<M4477>>>" ++ check (runes_of_ascii "
options { int
	=
'\x00'  f32a
    =

    '\x00'	}packet// 50% %s
  _x
{	@lengthOf(
	trueish  )	match charz

as 
Pad
	{ ""abc""
	:
	float , 
    //	t
	// 50% %s
  42
:// c
pack,10:	// packet A { u8 x, }

rootA

, } , }  packet

roots  {
    string f32a@lengthOf(
	metadata
) 
`" ++ [28040; 24687; 31867; 22411]%N ++ runes_of_ascii "` 
, 	 // " ++ [128512]%N ++ runes_of_ascii " emoji
repeatCount

    {
repeat
u	,

    f64 BodyLength
    ,uint8
    o
    @calculatedFrom(""\n"" 
) , 
repeat Z9_

// packet A { u8 x, }
  /// triple
	  , // c
	  }
    ,

    f64	a1	@calculatedFrom(
""abc""
	)`{ , }`	,

@calculatedFrom( ""\" ++ [233]%N ++ runes_of_ascii """)len
    calculatedFrom

``,

    @lengthOf(
msg_type)
	string
A	`" ++ [233]%N ++ runes_of_ascii "` 	 // packet A { u8 x, }
    ,@lengthOf(float
    ) 
@tag(	4294967296
) 
@calculatedFrom( ""// no comment"") 
zchar[

0
]

    Foo `a\` 
,
	@tag(
    255)
repeat
zchar[ 
255 ]i8i8 `doc`
,
    // c
    i32
	i8i8 ,	// `tick` ""quote"" 'q'
	} 
root packet

metadata
// 50% %s
  /// triple
    	{
	zchar[
    3

] 
body 
`it's` ,}
")).
Eval vm_compute in ("<<<M1336>>>" ++ check (runes_of_ascii "options
{x_y_z = 0123456789} root
    // 50% %s
    packet repeatCount{repeat
roots {match stringy as crc { 4294967296
:
    metadata
    , ""abc"" : leftPad} ,
zchar[	7 ] As `u8 x,` ,repeat Header { // @lengthOf(
zchar[
1// " ++ [27880; 37322]%N ++ runes_of_ascii "
] chars
    @lengthOf(repeatCount )
, repeat roots `doc`,
} //	t
,  As ,} ,
    int16 packetx `// not a comment`  ,
@tag(
00 )metadata @calculatedFrom(""packet"" ) // c
,@calculatedFrom(""" ++ [128512]%N ++ runes_of_ascii """ // `tick` ""quote"" 'q'
) u32
    // 50% %s
    u128
    // packet A { u8 x, }
    , match uint8x as T {
    // @lengthOf(
    ""\n""
: packetx}, //	t
len
`" ++ [233]%N ++ runes_of_ascii "`
    , @lengthOf(options1)  match trueish as //
Z9_ { 1 : BodyLength ,// trailing space 
00 : Pad
// c
// `tick` ""quote"" 'q'
}
, @tag( 0123456789  ) char[ 3
    /// triple
    ]	_x `line1
line2` ,
    int64 pack `line1
line2`
    ,
    //
    repeat metadata `{ , }`  ,} options
    {
    _x =false
; len =float64//x
}
")).
Eval vm_compute in ("<<<M908>>>" ++ check (runes_of_ascii "packet
    metadata{ repeat int	{//x
match // " ++ [27880; 37322]%N ++ runes_of_ascii "
x_y_z as pack {[""" ++ [233]%N ++ runes_of_ascii "t" ++ [233]%N ++ runes_of_ascii """
    , 3 ] : roots ,3  :
Foo
    , ""`tick`"": zchar, } , uint16 i8i8//	t
,// @lengthOf(
options1
// packet A { u8 x, }
// a // b
`doc`, repeat zchar[ 3 ] roots `
`,} , i16 // @lengthOf(
BodyLength
, } packet
    stringy { int16  roots
`` , }packet pack	{ @tag( 1 // trailing space 
) @lengthOf(Foo )@leftPad( ' ') uint8x@lengthOf(roots
    ), @calculatedFrom(""\n""	) @calculatedFrom( """ ++ [128512]%N ++ runes_of_ascii """ ) @calculatedFrom(""\" ++ [233]%N ++ runes_of_ascii """
) match len
    as	MetaDataX
    { """ ++ [128512]%N ++ runes_of_ascii """ :  len
// trailing space 
// " ++ [128512]%N ++ runes_of_ascii " emoji
,  [
""a\""b"" ]	:Foo , 1
: tag ,
3 // `tick` ""quote"" 'q'
: rootA,  [ ""x y""
    , 255 ]
    :
/// triple
// packet A { u8 x, }
crc ,}
, uint32
    i64_
// " ++ [128512]%N ++ runes_of_ascii " emoji
// 50% %s
@lengthOf(  falsey	) , char[//x
7 ]metadata
    //	t
    , } // a // b
packet T{ @rightPad (
'0' )	string options1
    ,
    } // c")).
Eval vm_compute in ("<<<M3547>>>" ++ check (runes_of_ascii "options	{
	LittleEndian =
	true  ;
StringPrefixLenType

=
u32
;
    ArrayPrefixLenType  =	u16 ;
	}packet Party {

    repeat
	char[ 1
]  seqNo ,

    char[]
Qty
, zchar[	2
	]  tag7 ,
}
	packet	Logon {  Party , char[]msgKind

,repeat

    char[
    3 
]	OrderId ,}root packet Reject {
zchar[ 5
    ] lastPx ,
InFlags86	{
Party  ,

string 
OrderId 
, repeat

    InFlags75 {repeat 
string Side2
    ,
uint8  Flags,	zchar[
	8
	]Ref
	, repeat	char[  4  ]
    Tail

    ,
repeat
	char[
	1	]
price , }  ,
}

,
    InMsgkind60	{

repeat	string

    lastPx

,

u32 msgKind  ,
	zchar[9

]tag7, zchar[1
	]  seqNo ,
u64
	OrderId
	,	}
	,
	zchar[ 6 ]

    Note,repeat
InF148 {
char[7 
]
sym	,  } 
,

zchar[ 
9
    ]

clOrdID ,
    u8

Ref
    ,
	match
Ref

as Body{ [
81 ,

118]:Party ,
104 : 
Logon	, }
,
}")).
Eval vm_compute in ("<<<M648>>>" ++ check (runes_of_ascii "root packet
body { @tag( 255) chars calculatedFrom ,
    //	t
    @rightPad ( '0' )
    @calculatedFrom(
    ""a	b"" // " ++ [128512]%N ++ runes_of_ascii " emoji
) @rightPad ( )
stringy @calculatedFrom( ""it's""  )// " ++ [128512]%N ++ runes_of_ascii " emoji
, repeat string trueish /// triple
,  @calculatedFrom(
    // `tick` ""quote"" 'q'
    """"
    ) asx
@lengthOf(	options1 ) ``  , u32 Logon ,float64// 50% %s
i64_  @lengthOf(
    metadata ) , @calculatedFrom( ""`tick`"" )chars @lengthOf( len) `say ""hi""` ,
f32a{
    /// triple
    match trueish as
roots {""1"" : body
    ""// no comment"": Packet ,[42 , ""it's"" , 0
    ,""it's"" // " ++ [128512]%N ++ runes_of_ascii " emoji
] : charz ,""a\""b"": stringy ,}
// a // b
//x
,
    } , uint8x
{ zchar[ 10 ] As
    , },// trailing space 
@tag( 0123456789 )@rightPad ( '0'
    ) @calculatedFrom( """")asx @lengthOf(trueish	) , }root packet
trueish{}
")).
Eval vm_compute in ("<<<M101>>>" ++ check (runes_of_ascii "packet options1 {@calculatedFrom( """ ++ [233]%N ++ runes_of_ascii "t" ++ [233]%N ++ runes_of_ascii """ ) o @lengthOf( lengthOf) , repeat Pad Packet,repeat repeatCount {// c
uint8 len @lengthOf( float ) `say ""hi""` , repeat
    options1  {repeat char[255]u128, } , // 50% %s
} , match Logon as
// `tick` ""quote"" 'q'
// packet A { u8 x, }
options1
{ //
3:pack
,
// trailing space 
// 50% %s
""CRC32"":
// @lengthOf(
//x
string_ ,
0  :f32a , 42 : u8x ""it's"" : matchKey
// a // b
// `tick` ""quote"" 'q'
}
, } packet  metadata { @tag(
    00 )
    // a // b
    repeat u8x{ repeat uint32
rootA
    ,
repeat char MetaDataX,
    match As
as roots {
    // @lengthOf(
    ""a\\"" :
    Foo ,0 // a // b
:body	, 1 : u128 ,}
,},@rightPad	(' '
) a1 i64_ // 50% %s
, } MetaData
// 50% %s
// @lengthOf(
chars {trueish len, }")).
Eval vm_compute in ("<<<M4059>>>" ++ check (runes_of_ascii "root packet float {
    char[42] charz @calculatedFrom(""" ++ [233]%N ++ runes_of_ascii "t" ++ [233]%N ++ runes_of_ascii """) `// not a comment`,
    match packetx as chars {
        ""it's"" : options1,
        [65535] : Pad,
        ""// no comment"" : msg_type,
        [""// no comment""] : Logon,
        //x
        ""a\\"" : Pad,
    },
    options1 {
        int16 matchKey `tab	here`,
        zchar[007] body,
    },
    @tag(3)
    @leftPad(' ')
    a1 @calculatedFrom(""a\\""),
    string Logon @calculatedFrom(""" ++ [233]%N ++ runes_of_ascii "t" ++ [233]%N ++ runes_of_ascii """) `doc`,
    lengthOf {
        trueish float,
        x_y_z `a\`,
    },
    repeat string Foo,
    repeat metadata i8i8 `tab	here`,
    @calculatedFrom(""a	b"")
    char[] charz @calculatedFrom(""""),
}

packet f32a {
    chars f32a `doc`,
}

options {
}")).
Eval vm_compute in ("<<<M382>>>" ++ check (runes_of_ascii "root	packet lengthOf { @lengthOf(
    a1 ) @tag(
    0 ) @calculatedFrom(
//	t
// `tick` ""quote"" 'q'
""""
) repeat f32a  {
zchar[ 0 ] T ,
    i64 lengthOf @calculatedFrom( """ ++ [128512]%N ++ runes_of_ascii """
) `100% of %d`  ,
stringy ,} ,} MetaData As // a // b
{ f64
    repeatCount `it's`, }
MetaData
/// triple
// packet A { u8 x, }
Pad {
    // c
    string Packet , falsey charz
`it's` , matchKey o ,
int32 leftPad
    , float64 string_ , }// " ++ [128512]%N ++ runes_of_ascii " emoji
root packet charz// 50% %s
{ @tag( 3
) @rightPad ( ' '
    ) @rightPad( '0' )	packetx	`doc` ,  @calculatedFrom( """ ++ [233]%N ++ runes_of_ascii "t" ++ [233]%N ++ runes_of_ascii """)	repeat char[
00] packetx , @leftPad (
    // a // b
    ) string	calculatedFrom, match
u as	repeatCount	{""it's"" : falsey	} , }")).
Eval vm_compute in ("<<<M4550>>>" ++ check (runes_of_ascii "options {
    o = i16;
    roots = 255;
    rootA = char[];
    options1 = u32;
    zchar = ""`tick`"";
}

root packet options1 {
    repeat int64 BodyLength,
    match len as uint8x {
        ""a	b"" : lengthOf,
        ""\" ++ [233]%N ++ runes_of_ascii """ : pack,
        [
            ""x y"", ""packet"", """ ++ [128512]%N ++ runes_of_ascii """, ""\" ++ [233]%N ++ runes_of_ascii """, 255,
            ""{,}""
        ] : lengthOf,
        [
            ""abc"", 00, ""a\\"", ""// no comment"", 00,
            007, 0, ""packet""
        ] : Packet,
    },
    @leftPad()
    u i64_,
    repeat Z9_ {
        match f32a as Packet {
            """ ++ [28040; 24687]%N ++ runes_of_ascii """ : chars,
        },// trailing space 
    },
}

packet a1 {
    int16 msg_type `it's`,
    repeat uint16 stringy,
}")).
Eval vm_compute in ("<<<M57>>>" ++ check (runes_of_ascii "// " ++ [27880; 37322]%N ++ runes_of_ascii "
packet //
crc
    // " ++ [27880; 37322]%N ++ runes_of_ascii "
    { charz//x
stringy
    `u8 x,`, // c
@lengthOf( metadata )
    repeat matchKey { Logon @calculatedFrom(  ""it's"") `crlf
line` , i64 len ,  } // " ++ [128512]%N ++ runes_of_ascii " emoji
,zchar[ 255] calculatedFrom //	t
`tab	here`
, repeat Pad  { match
options1 as
    Header { ""\n""
    : Logon // trailing space 
, 255 :	pack
    , 10 : //
crc ,[007, 4294967296// c
, 255 , // a // b
""\n"" ]:repeatCount	00	:
    crc ,
    ""a\\"" :	chars }
,x {	_x _x , zchar[0 ]tag @lengthOf( body
    )
`` , }, zchar[
    // " ++ [27880; 37322]%N ++ runes_of_ascii "
    65535
] msg_type ,  repeat
// " ++ [27880; 37322]%N ++ runes_of_ascii "
// " ++ [128512]%N ++ runes_of_ascii " emoji
u16	A
    `doc` ,} , i8 x`a\`
    , repeat x { o , } ,}
")).
Eval vm_compute in ("<<<M3578>>>" ++ check (runes_of_ascii "options {
    // c1
LittleEndian // c2
=
    // c3
true // c4a
  // c4b
; } packet // c7a
  // c7b
Sub // c8a
  // c8b
{ // c9a
  // c9b
u8 // c10
a , // c12
@calculatedFrom( ""CRC16"" // c14a
  // c14b
) i16 // c16
SubSum , } // c19
root
    // c20
packet
    // c21
Frame // c22
{ // c23a
  // c23b
u16 // c24
MsgType // c25a
  // c25b
, // c26
u16 BodyLen @lengthOf( // c29
Body // c30a
  // c30b
) , // c32
Sub Body , string // c36
note // c37
,
    // c38
@calculatedFrom( ""CRC16"" ) // c41
i16 Checksum // c43a
  // c43b
, u8 // c45
tail // c46
, // c47a
  // c47b
} // c48a
  // c48b
")).
Eval vm_compute in ("<<<M434>>>" ++ check (runes_of_ascii "packet o{
/// triple
// " ++ [27880; 37322]%N ++ runes_of_ascii "
metadata crc,
@tag( 3	)@calculatedFrom(	""it's"") @tag(7) repeat
    uint64 MetaDataX , i16 u8x `100% of %d`,
    zchar[ 00] A , Pad
    As , }
root packet T  {} packet o { repeat
    len {Z9_,
    // a // b
    } ,	repeat chars{ repeat zchar[ 65535 ] int , char[0 ] x  @lengthOf(
repeatCount
    ), body  ,
    } , /// triple
string matchKey `" ++ [233]%N ++ runes_of_ascii "`
// @lengthOf(
//	t
, Header// a // b
@calculatedFrom(
""" ++ [233]%N ++ runes_of_ascii "t" ++ [233]%N ++ runes_of_ascii """ )
// @lengthOf(
/// triple
, @tag( 0123456789) @tag(255
    ) char
len// " ++ [128512]%N ++ runes_of_ascii " emoji
, // " ++ [128512]%N ++ runes_of_ascii " emoji
body matchKey
    `u8 x,` ,
    }")).
Eval vm_compute in ("<<<M1197>>>" ++ check (runes_of_ascii "root
packet //x
matchKey { // " ++ [27880; 37322]%N ++ runes_of_ascii "
}root
    packet string_  { Z9_ { zchar[ 1
] Packet//x
,  f64 x@calculatedFrom(
// trailing space 
//	t
""a	b""// 50% %s
) `" ++ [233]%N ++ runes_of_ascii "` ,
    } ,} MetaData int {
uint32 x
`doc`
    ,  } MetaData MetaDataX
{ uint32
calculatedFrom `a\`
,
f64
    calculatedFrom
    `" ++ [28040; 24687; 31867; 22411]%N ++ runes_of_ascii "` ,
    u16
Foo , lengthOf
metadata	, char[ 65535 ] matchKey
    // `tick` ""quote"" 'q'
    ,
//
//x
char[
7] charz
`// not a comment`
, } options{zchar  = ""x y""
; repeatCount
/// triple
// @lengthOf(
= false	lengthOf =	007 // packet A { u8 x, }
;}")).
Eval vm_compute in ("<<<M4517>>>" ++ check (runes_of_ascii "options
{Pad
    =

    true
;// " ++ [27880; 37322]%N ++ runes_of_ascii "
  }  root

packet
    u128
	{ repeat
    zchar[

    0123456789 ]
x ,
    @calculatedFrom(

    """ ++ [28040; 24687]%N ++ runes_of_ascii """)

    @tag(
    7 ) i32

    Logon 
	    // a // b
	,
    matchKey
u128
`100% of %d`

    , repeat lengthOf 
As
`100% of %d`,match  x_y_z as
As
{	""x y"" 
:	stringy
,
	""" ++ [233]%N ++ runes_of_ascii "t" ++ [233]%N ++ runes_of_ascii """
	: 
  //
    Logon
, [

    65535
, 
007
] : Pad
    ,

}
	,
f32 leftPad 
, 
	// trailing space 
	  @rightPad 
      // " ++ [128512]%N ++ runes_of_ascii " emoji

//x
	(

)char[]uint8x 
@lengthOf( Foo

    )
`it's`
    ,
}

")).
Eval vm_compute in ("<<<M3429>>>" ++ check (runes_of_ascii "// top
options
    // c0
{
    // c1
}
    // c2
options
    // c3
{
    // c4
string_
    // c5
=
    // c6
false
    // c7
;
    // c8
msg_type
    // c9
=
    // c10
""1""
    // c11
;
    // c12
}
    // c13
MetaData
    // c14
lengthOf
    // c15
{
    // c16
zchar[
    // c17
4294967296
    // c18
]
    // c19
Z9_
    // c20
,
    // c21
uint8
    // c22
i8i8
    // c23
`two words`
    // c24
,
    // c25
char[
    // c26
7
    // c27
]
    // c28
charz
    // c29
,
    // c30
}
    // c31
")).
Eval vm_compute in ("<<<M405>>>" ++ check (runes_of_ascii "  root
    packet //	t
options1 { // packet A { u8 x, }
i64_@lengthOf(	matchKey ) , u64	Logon
`a\` ,@lengthOf( a1
    ) @calculatedFrom( ""\" ++ [233]%N ++ runes_of_ascii """ ) repeat// 50% %s
float32 _x ,
@calculatedFrom(""// no comment"" )
@tag(
7 ) @calculatedFrom(
""abc"" //
)
    int16 options1 @calculatedFrom(""CRC32"" ), } MetaData o {
char// @lengthOf(
x_y_z `{ , }`
//	t
//	t
, zchar
string_ ,// `tick` ""quote"" 'q'
char[]
    int`it's`  ,crc charz, options1
    _x
    ,
char[] BodyLength `` , }
")).
Eval vm_compute in ("<<<M4321>>>" ++ check (runes_of_ascii "
options {
	}	root
packet 
repeatCount 
{

    @lengthOf(	calculatedFrom // packet A { u8 x, }
    )float @calculatedFrom(  ""a\\"")
,

    zchar[007
]	zchar

`" ++ [28040; 24687; 31867; 22411]%N ++ runes_of_ascii "` ,
    @tag(	3  )
    uint32  BodyLength	@calculatedFrom(

""a\\"")
`
`
, @calculatedFrom(  ""1""	) uint64 leftPad  , 
@rightPad
( 
'\x00' )

    @rightPad

('\x00')repeat
u128	, 
} 
options
{

    }  MetaData MetaDataX
    { msg_type

    Z9_

`u8 x,`

,
string
Logon
    , } ")).
Eval vm_compute in ("<<<M718>>>" ++ check (runes_of_ascii "
packet// a // b
repeatCount { @rightPad  () u128 ,
u128 @calculatedFrom( ""a	b""// " ++ [27880; 37322]%N ++ runes_of_ascii "
) , repeat
    falsey ,int @lengthOf( charz  )
    ,	calculatedFrom`say ""hi""`, }	packet
//	t
//
falsey
// @lengthOf(
// trailing space 
{ len { x_y_z
{
i16 options1
    @lengthOf( asx ) `a\`
    ,
    } ,	}
,  } packet Foo //	t
{
    uint8x @calculatedFrom(
    ""packet"" ) , } packet  MetaDataX {zchar[ 4294967296] Header
`// not a comment` ,	} // " ++ [27880; 37322]%N)).
Eval vm_compute in ("<<<M246>>>" ++ check (runes_of_ascii "MetaData Z9_ { stringy // 50% %s
chars `" ++ [28040; 24687; 31867; 22411]%N ++ runes_of_ascii "` ,  uint32 leftPad// @lengthOf(
`
` ,	u128 stringy `crlf
line`, // c
u16 packetx	, } packet len { } root packet matchKey{ match
Header as	f32a	{ 0123456789
: lengthOf ,
    [ ""`tick`""
    // a // b
    ,
""packet"" , """ ++ [233]%N ++ runes_of_ascii "t" ++ [233]%N ++ runes_of_ascii """ ]: repeatCount , [ // " ++ [27880; 37322]%N ++ runes_of_ascii "
4294967296, ""// no comment"", 7 ] : Packet 00 : options1 ,
    007	:trueish  ,""" ++ [28040; 24687]%N ++ runes_of_ascii """
:i8i8
, }
//
//x
,
    }
    options{
}
//
")).
Eval vm_compute in ("<<<M4469>>>" ++ check (runes_of_ascii "options {
    // c1
    LittleEndian = true;
}

packet Sub {
    // c9a
    // c9b
    u8 a,// c12
    @calculatedFrom(""CRC16"")
    i16 SubSum,
}// c19

root packet Frame {
    // c23a
    // c23b
    u16 MsgType,// c26
    u16 BodyLen @lengthOf(Body),// c32
    Sub Body,
    string note,
    // c38
    @calculatedFrom(""CRC16"")
    // c41
    i16 Checksum,
    u8 tail,// c47a
    // c47b
}// c48a
// c48b")).
Eval vm_compute in ("<<<M214>>>" ++ check (runes_of_ascii "MetaData len	{	char[
    42 ]
T
`
`
    ,
char[ 4294967296	] asx	`" ++ [233]%N ++ runes_of_ascii "` ,float64 Z9_ ,
    msg_type falsey//
`line1
line2` ,
    char // c
charz , // a // b
} MetaData
// trailing space 
//
calculatedFrom { char[ 7  ]	a1
    ,
// trailing space 
// " ++ [27880; 37322]%N ++ runes_of_ascii "
float	msg_type , char[ 007 ]u	`crlf
line` ,string stringy
`" ++ [28040; 24687; 31867; 22411]%N ++ runes_of_ascii "` , // @lengthOf(
zchar[ 00 ]chars  , char[ 00/// triple
]  string_ ,}
")).
Eval vm_compute in ("<<<M423>>>" ++ check (runes_of_ascii "  MetaData
body {pack MetaDataX
    , } packet
    x_y_z { @rightPad( ) @calculatedFrom( ""packet""
    )
@lengthOf(	chars ) uint32 As,  @calculatedFrom( ""{,}"" )
trueish , @tag( 007 )
    match Pad as
    zchar { 255// " ++ [27880; 37322]%N ++ runes_of_ascii "
:// @lengthOf(
string_ , [ ""`tick`"",  """ ++ [233]%N ++ runes_of_ascii "t" ++ [233]%N ++ runes_of_ascii """,
0123456789 ,
    // " ++ [27880; 37322]%N ++ runes_of_ascii "
    00  ] :
crc , // @lengthOf(
[
255,
    10 ,
0123456789
,""abc""
] : Packet ,
}, }
")).
Eval vm_compute in ("<<<M728>>>" ++ check (runes_of_ascii "packet uint8x {
match Header as
// a // b
//	t
chars { [ ""\n"" ] :
    calculatedFrom , 0
:
pack,
    } ,} root
packet asx
{ } packet
Foo // " ++ [128512]%N ++ runes_of_ascii " emoji
{
@lengthOf( msg_type ) @rightPad
(
' '
    )
    @tag(  007
    // `tick` ""quote"" 'q'
    )// `tick` ""quote"" 'q'
repeat u32
    /// triple
    len `say ""hi""`
, } packet float { zchar[ 42] Packet `tab	here` , }")).
Eval vm_compute in ("<<<M625>>>" ++ check (runes_of_ascii "MetaData Z9_ // 50% %s
{ string Foo
, } packet stringy {
    @tag(
// `tick` ""quote"" 'q'
// 50% %s
0 ) zchar[
00] stringy`" ++ [28040; 24687; 31867; 22411]%N ++ runes_of_ascii "` //x
,
} MetaData len{ u64	pack
`say ""hi""`,chars metadata , zchar[ 255
] MetaDataX `say ""hi""` ,
    }options
    { u8x =
string lengthOf
    =
u16 ;
Z9_	='\x00'
    ; repeatCount
    =""// no comment"" } packet
As { }
")).
Eval vm_compute in ("<<<M4075>>>" ++ check (runes_of_ascii "

  options	{ 
}
packet 
stringy  {
    @rightPad (

    '\x00')
    chars//x
	@lengthOf( float

)

    ,
@lengthOf( Packet)  // " ++ [128512]%N ++ runes_of_ascii " emoji
zchar
	@calculatedFrom(
//
    // `tick` ""quote"" 'q'
  ""a\""b"")
	,
@leftPad
(
) x_y_z  rootA

    `100% of %d`
,
	}// trailing space 
options
{lengthOf=

'\x00' ;  charz
=
true
;	}")).
Eval vm_compute in ("<<<M4015>>>" ++ check (runes_of_ascii "// top
MetaData Pad {
    // c2
    x_y_z a1,// c5
    int8 trueish `two words`,// c9
    char[] x_y_z `{ , }`,// c13
    zchar[1] pack `
        `,// c19
    len i64_,// c22
}// c23

MetaData crc {
    // c26
    zchar[7] Z9_,// c31
    char[] options1,// c34
    uint32 options1,// c37
    u MetaDataX,// c40
}// c41")).
Eval vm_compute in ("<<<M4338>>>" ++ check (runes_of_ascii "
options
{i8i8	// @lengthOf(
	=// " ++ [128512]%N ++ runes_of_ascii " emoji
  true} packet
Header {
@lengthOf( f32a 

// @lengthOf(
  // @lengthOf(
  ) 	 // 50% %s
string
Header 
  //
	`
`
    ,
}
root 	 // packet A { u8 x, }
	packet  calculatedFrom

    {@rightPad
	( )  repeat

matchKey
string_ // `tick` ""quote"" 'q'
	,
}//	t
")).
Eval vm_compute in ("<<<M3992>>>" ++ check (runes_of_ascii "//
root packet Z9_ {
    @tag(10)
    u32 A @lengthOf(body),
    @leftPad()
    zchar[3] matchKey,
    repeat lengthOf {
        u8 asx `two words`,
    },
    @tag(0123456789)
    repeat char[42] rootA `say ""hi""`,
    stringy `line1
        line2`,
    @leftPad(' ')
    repeat i32 trueish,
}")).
Eval vm_compute in ("<<<M772>>>" ++ check (runes_of_ascii "root
packet
chars {	match pack
as pack
    { 255
: T [ ""abc"" ,
10 ] :
rootA  3 : BodyLength ,
[0 ] : u8x
    }
,
@calculatedFrom( ""// no comment"" ) @leftPad
('\x00')@tag(  3 )
BodyLength charz ,
repeat
    lengthOf u ,repeat char[ 00 ]	u8x , @tag( 0123456789 )repeat i16
    x ,}")).
Eval vm_compute in ("<<<M1982>>>" ++ check (runes_of_ascii "packet	packetx { // trailing space 
x_y_z
{
string
charz ,
string x// @lengthOf(
`two words`
    ,  u8x { // `tick` ""quote"" 'q'
charz `100% of %d` // packet A { u8 x, }
,}// " ++ [27880; 37322]%N ++ runes_of_ascii "
,} , }
    // a // b
    packet metadata {  @leftPad ( '0' '0') repeat i32 options1 ,u64 uint8x , }
")).
Eval vm_compute in ("<<<M1984>>>" ++ check (runes_of_ascii "packet	packetx { // trailing space 
x_y_z
{
string
charz ,
string x// @lengthOf(
`two words`
    ,  u8x { // `tick` ""quote"" 'q'
charz `100% of %d` // packet A { u8 x, }
,}// " ++ [27880; 37322]%N ++ runes_of_ascii "
,} , }
    // a // b
    packet metadata {  @leftPad ( uint8) repeat i32 options1 ,u64 uint8x , }
")).
Eval vm_compute in ("<<<M1909>>>" ++ check (runes_of_ascii "packet	packetx { // trailing space 
x_y_z
{
string
charz ,
string x// @lengthOf(
`two words`
    ,  u32 { // `tick` ""quote"" 'q'
charz `100% of %d` // packet A { u8 x, }
,}// " ++ [27880; 37322]%N ++ runes_of_ascii "
,} , }
    // a // b
    packet metadata {  @leftPad ( '0') repeat i32 options1 ,u64 uint8x , }
")).
Eval vm_compute in ("<<<M1881>>>" ++ check (runes_of_ascii "packet	packetx { // trailing space 
x_y_z
{
string
charz 
string x// @lengthOf(
`two words`
    ,  u8x { // `tick` ""quote"" 'q'
charz `100% of %d` // packet A { u8 x, }
,}// " ++ [27880; 37322]%N ++ runes_of_ascii "
,} , }
    // a // b
    packet metadata {  @leftPad ( '0') repeat i32 options1 ,u64 uint8x , }
")).
Eval vm_compute in ("<<<M2011>>>" ++ check (runes_of_ascii "packet	packetx { // trailing space 
x_y_z
{
string
charz ,
string x// @lengthOf(
`two words`
    ,  u8x { // `tick` ""quote"" 'q'
charz `100% of %d` // packet A { u8 x, }
,}// " ++ [27880; 37322]%N ++ runes_of_ascii "
,} , }
    // a // b
    packet metadata {  @leftPad ( '0') repeat i32 options1 , uint8x , }
")).
Eval vm_compute in ("<<<M3939>>>" ++ check (runes_of_ascii "packet string_ {
    @calculatedFrom(""" ++ [128512]%N ++ runes_of_ascii """)
    match charz as calculatedFrom {
        7 : charz,
        // 50% %s
    },
    @lengthOf(Z9_)
    uint16 calculatedFrom,
    match body as chars {
        """" : lengthOf,
        255 : Z9_,
        [0123456789] : asx,
    },
}")).
Eval vm_compute in ("<<<M2115>>>" ++ check (runes_of_ascii "packet// packet A { u8 x, }
repeatCount	{// packet A { u8 x, }
@leftPad ( '\x00'
) repeat u8x MetaDataX `crlf
line`,
    repeat
    char[] char[] MetaDataX
    ,
u64	uint8x@calculatedFrom(""a\""b""
// c
// packet A { u8 x, }
) `tab	here`
,//
}MetaData pack
    {
    }
")).
Eval vm_compute in ("<<<M425>>>" ++ check (runes_of_ascii "packet  chars  { Logon `" ++ [28040; 24687; 31867; 22411]%N ++ runes_of_ascii "`,	} packet lengthOf
{ repeat char[]Header ,match
// trailing space 
// packet A { u8 x, }
T	as
T
{ 3 : repeatCount , }
,
match tag as pack { ""a	b"" : string_ , } ,zchar[  10 ]a1
    `two words` , }	options{//
float  = false ;
    }

")).
Eval vm_compute in ("<<<M2198>>>" ++ check (runes_of_ascii "packet// packet A { u8 x, }
repeatCount	{// packet A { u8 x, }
@leftPad ( '\x00'
) re%peat u8x MetaDataX `crlf
line`,
    repeat
    char[] MetaDataX
    ,
u64	uint8x@calculatedFrom(""a\""b""
// c
// packet A { u8 x, }
) `tab	here`
,//
}MetaData pack
    {
    }
")).
Eval vm_compute in ("<<<M2111>>>" ++ check (runes_of_ascii "packet// packet A { u8 x, }
repeatCount	{// packet A { u8 x, }
@leftPad ( '\x00'
) repeat u8x MetaDataX `crlf
line`,
    char[]
    repeat MetaDataX
    ,
u64	uint8x@calculatedFrom(""a\""b""
// c
// packet A { u8 x, }
) `tab	here`
,//
}MetaData pack
    {
    }
")).
Eval vm_compute in ("<<<M1449>>>" ++ check (runes_of_ascii "packet calculatedFrom
{ @calculatedFrom( ""a\\"" ) zchar[ 4294967296 4294967296 ]
calculatedFrom@lengthOf( pack )	`100% of %d` ,char[]body@calculatedFrom( ""// no comment"" )  ,
@tag( 007) //x
int8
leftPad`it's` , repeat pack
    { repeat char[ 3] body
,},
}")).
Eval vm_compute in ("<<<M2109>>>" ++ check (runes_of_ascii "packet// packet A { u8 x, }
repeatCount	{// packet A { u8 x, }
@leftPad ( '\x00'
) repeat u8x MetaDataX `crlf
line`,
    
    char[] MetaDataX
    ,
u64	uint8x@calculatedFrom(""a\""b""
// c
// packet A { u8 x, }
) `tab	here`
,//
}MetaData pack
    {
    }
")).
Eval vm_compute in ("<<<M1511>>>" ++ check (runes_of_ascii "packet calculatedFrom
{ @calculatedFrom( ""a\\"" ) zchar[ 4294967296 ]
calculatedFrom@lengthOf( pack )	`100% of %d` ,char[]body@calculatedFrom( ""// no comment"" false  ,
@tag( 007) //x
int8
leftPad`it's` , repeat pack
    { repeat char[ 3] body
,},
}")).
Eval vm_compute in ("<<<M1594>>>" ++ check (runes_of_ascii "packet calculatedFrom
{ @calculatedFrom( ""a\\"" ) zchar[ 4294967296 ]
calculatedFrom@lengthOf( pack )	`100% of %d` ,char[]body@calculatedFrom( ""// no comment"" )  ,
@tag( 007) //x
int8
leftPad`it's` , repeat pack
    { repeat char[ 3] body
, ,},
}")).
Eval vm_compute in ("<<<M2142>>>" ++ check (runes_of_ascii "packet// packet A { u8 x, }
repeatCount	{// packet A { u8 x, }
@leftPad ( '\x00'
) repeat u8x MetaDataX `crlf
line`,
    repeat
    char[] MetaDataX
    ,
u64	uint8x u64""a\""b""
// c
// packet A { u8 x, }
) `tab	here`
,//
}MetaData pack
    {
    }
")).
Eval vm_compute in ("<<<M1545>>>" ++ check (runes_of_ascii "packet calculatedFrom
{ @calculatedFrom( ""a\\"" ) zchar[ 4294967296 ]
calculatedFrom@lengthOf( pack )	`100% of %d` ,char[]body@calculatedFrom( ""// no comment"" )  ,
@tag( 007) //x
int8
leftPad, `it's` repeat pack
    { repeat char[ 3] body
,},
}")).
Eval vm_compute in ("<<<M1603>>>" ++ check (runes_of_ascii "packet calculatedFrom
{ @calculatedFrom( ""a\\"" ) zchar[ 4294967296 ]
calculatedFrom@lengthOf( pack )	`100% of %d` ,char[]body@calculatedFrom( ""// no comment"" )  ,
@tag( 007) //x
int8
leftPad`it's` , repeat pack
    { repeat char[ 3] body
,}
}")).
Eval vm_compute in ("<<<M1518>>>" ++ check (runes_of_ascii "packet calculatedFrom
{ @calculatedFrom( ""a\\"" ) zchar[ 4294967296 ]
calculatedFrom@lengthOf( pack )	`100% of %d` ,char[]body@calculatedFrom( ""// no comment"" )  ,
 007) //x
int8
leftPad`it's` , repeat pack
    { repeat char[ 3] body
,},
}")).
Eval vm_compute in ("<<<M1478>>>" ++ check (runes_of_ascii "packet calculatedFrom
{ @calculatedFrom( ""a\\"" ) zchar[ 4294967296 ]
calculatedFrom@lengthOf( pack )	 ,char[]body@calculatedFrom( ""// no comment"" )  ,
@tag( 007) //x
int8
leftPad`it's` , repeat pack
    { repeat char[ 3] body
,},
}")).
Eval vm_compute in ("<<<M1175>>>" ++ check (runes_of_ascii "
options { i8i8 = ""// no comment""
    ;
    lengthOf= false
// " ++ [128512]%N ++ runes_of_ascii " emoji
// a // b
;
    //x
    body =
'\x00'
    ;T
= '\x00'
//	t
//
; }	root
packet	trueish { //x
string
body`100% of %d` , repeat u8 u8x
`line1
line2` ,}
")).
Eval vm_compute in ("<<<M697>>>" ++ check (runes_of_ascii "packet
lengthOf { } options
// " ++ [27880; 37322]%N ++ runes_of_ascii "
// packet A { u8 x, }
{
u128 =
' ' ;msg_type
=
    '0' } MetaData body
    {
    } options {
    }
MetaData falsey { _x//	t
calculatedFrom `a\` , char[] calculatedFrom `u8 x,` ,
}
")).
Eval vm_compute in ("<<<M947>>>" ++ check (runes_of_ascii "packet
uint8x { @leftPad
    ( ' ') string_ trueish `100% of %d`,
    T A
    , zchar[ 42 ] string_ @lengthOf( BodyLength
    ) , @calculatedFrom( ""a\""b"" )
    repeat
uint16  u128 `// not a comment`  , } 	 ")).
Eval vm_compute in ("<<<M436>>>" ++ check (runes_of_ascii "MetaData trueish
    { stringy BodyLength
// 50% %s
// 50% %s
,
char[ 007 ]
    // a // b
    metadata
    ,
float64 zchar,leftPad chars ,u32
MetaDataX , } options
{
lengthOf
// c
// c
= ""a\""b"" }")).
Eval vm_compute in ("<<<M1207>>>" ++ check (runes_of_ascii "packet
Foo{ char[]
//x
// packet A { u8 x, }
matchKey `
`
, zchar[ 4294967296
]tag// @lengthOf(
@calculatedFrom(	""" ++ [233]%N ++ runes_of_ascii "t" ++ [233]%N ++ runes_of_ascii """	) `` , charz@lengthOf( repeatCount
)
    // trailing space 
    , }
")).
Eval vm_compute in ("<<<M608>>>" ++ check (runes_of_ascii "
packet int
{ }
    MetaData //
x{uint16 As
`tab	here`, }
packet
    f32a { @tag( 3 )	char[
    10
] lengthOf
    @calculatedFrom(""a\\"" ) ,
roots @calculatedFrom( ""it's"" ) `" ++ [28040; 24687; 31867; 22411]%N ++ runes_of_ascii "`, }
")).
Eval vm_compute in ("<<<M4123>>>" ++ check (runes_of_ascii "packet o {
    int Packet,
    @tag(255)
    // trailing space 
    @tag(007)
    repeat string lengthOf,
}

packet charz {
    float float,
    leftPad @lengthOf(u) `" ++ [28040; 24687; 31867; 22411]%N ++ runes_of_ascii "`,
}")).
Eval vm_compute in ("<<<M2382>>>" ++ check (runes_of_ascii "
packet MetaDataX
{
    @leftPad
( // a // b
'0'
) i8 u @lengthOf(
MetaDataX
    ) `say ""hi""` `say ""hi""` ,	} MetaData BodyLength {
    asx
x_y_z `" ++ [233]%N ++ runes_of_ascii "`
, uint64 u128 , }
")).
Eval vm_compute in ("<<<M1031>>>" ++ check (runes_of_ascii "MetaData i8i8 { i64
    chars `two words` , int32 repeatCount
    `u8 x,` ,
    float options1, i64 tag,
    char[]
As`{ , }`
, Foo /// triple
roots
`it's`
,
}
")).
Eval vm_compute in ("<<<M1646>>>" ++ check (runes_of_ascii "options { float32 packet Packet{char[] i64_ ,
@tag(
    255) match
crc as i8i8{""{,}"" : trueish """" : Pad , ""a\\"" :
Foo ,
    1 :packetx
, """ ++ [128512]%N ++ runes_of_ascii """ : trueish , } , }")).
Eval vm_compute in ("<<<M2412>>>" ++ check (runes_of_ascii "
packet MetaDataX
{
    @leftPad
u64 // a // b
'0'
) i8 u @lengthOf(
MetaDataX
    ) `say ""hi""` ,	} MetaData BodyLength {
    asx
x_y_z `" ++ [233]%N ++ runes_of_ascii "`
, uint64 u128 , }
")).
Eval vm_compute in ("<<<M1733>>>" ++ check (runes_of_ascii "options { } packet Packet{char[] i64_ ,
@tag(
    255) match
crc as i8i8{""{,}"" : trueish """" """" : Pad , ""a\\"" :
Foo ,
    1 :packetx
, """ ++ [128512]%N ++ runes_of_ascii """ : trueish , } , }")).
Eval vm_compute in ("<<<M1723>>>" ++ check (runes_of_ascii "options { } packet Packet{char[] i64_ ,
@tag(
    255) match
crc as i8i8{""{,}"" : : trueish """" : Pad , ""a\\"" :
Foo ,
    1 :packetx
, """ ++ [128512]%N ++ runes_of_ascii """ : trueish , } , }")).
Eval vm_compute in ("<<<M4459>>>" ++ check (runes_of_ascii "MetaData o {
}

MetaData x {
    body Pad,
    char[] Logon,
}

options {
    msg_type = string;
    o = ""it's"";
    packetx = ""it's""
    f32a = ""packet"";
}")).
Eval vm_compute in ("<<<M1669>>>" ++ check (runes_of_ascii "options { } packet Packet{char[] , i64_
@tag(
    255) match
crc as i8i8{""{,}"" : trueish """" : Pad , ""a\\"" :
Foo ,
    1 :packetx
, """ ++ [128512]%N ++ runes_of_ascii """ : trueish , } , }")).
Eval vm_compute in ("<<<M1819>>>" ++ check (runes_of_ascii "options { } packet Packet{char[] i64_ ,
@tag(
    255) match
crc as i8i8{""{,}"" : trueish """" : Pad , ""a\\"" :
Foo ,
    1 :packetx
, """ ++ [128512]%N ++ runes_of_ascii """ : trueish , } } ,")).
Eval vm_compute in ("<<<M1846>>>" ++ check (runes_of_ascii "options { } packet na" ++ [239]%N ++ runes_of_ascii "ve{char[] i64_ ,
@tag(
    255) match
crc as i8i8{""{,}"" : trueish """" : Pad , ""a\\"" :
Foo ,
    1 :packetx
, """ ++ [128512]%N ++ runes_of_ascii """ : trueish , } , }")).
Eval vm_compute in ("<<<M1695>>>" ++ check (runes_of_ascii "options { } packet Packet{char[] i64_ ,
@tag(
    255) u8
crc as i8i8{""{,}"" : trueish """" : Pad , ""a\\"" :
Foo ,
    1 :packetx
, """ ++ [128512]%N ++ runes_of_ascii """ : trueish , } , }")).
Eval vm_compute in ("<<<M4491>>>" ++ check (runes_of_ascii "packet A {
    match k as n {
        [
            ""a"", ""bb"", 007, ""d"", ""e"",
            66, ""g"", ""h"", 9, ""j""
        ] : B,
        2 : C,
    },
}")).
Eval vm_compute in ("<<<M1143>>>" ++ check (runes_of_ascii "  MetaData A{ }	options
{
    roots	=
    ""a\""b"" ;
    crc	= 65535
;
float
=
' '  ;
} MetaData
repeatCount { /// triple
float packetx
`" ++ [233]%N ++ runes_of_ascii "` ,  }")).
Eval vm_compute in ("<<<M298>>>" ++ check (runes_of_ascii "MetaData repeatCount
{float32	string_ `" ++ [28040; 24687; 31867; 22411]%N ++ runes_of_ascii "` ,trueish matchKey ,metadata
chars
,int64 float // `tick` ""quote"" 'q'
, } // trailing space ")).
Eval vm_compute in ("<<<M4520>>>" ++ check (runes_of_ascii "packet A {
    match k as n {
        [
            ""a"", ""bb"", 007, ""d"", ""e"",
            66, ""g""
        ] : B,
        2 : C,
    },
}")).
Eval vm_compute in ("<<<M1078>>>" ++ check (runes_of_ascii "options
{ calculatedFrom
// @lengthOf(
// @lengthOf(
=10
}
// trailing space 
// a // b
packet float { uint16 i64_ `two words` , }
")).
Eval vm_compute in ("<<<M1335>>>" ++ check (runes_of_ascii "
options {  lengthOf	=
""x y"" } // " ++ [27880; 37322]%N ++ runes_of_ascii "
packet
    stringy
{ } options
//x
// packet A { u8 x, }
{ Z9_=//	t
zchar[ 007 ]//x
; }")).
Eval vm_compute in ("<<<M3275>>>" ++ check (runes_of_ascii "MetaData metadata { } MetaData rootA {
// c
i8 i64_ , roots options1 `a\` , lengthOf Header , Z9_ Foo , int16 BodyLength , }")).
Eval vm_compute in ("<<<M3307>>>" ++ check (runes_of_ascii "MetaData metadata { } MetaData rootA { i8 i64_ , roots options1 `a\` , lengthOf Header , Z9_ Foo , int16 BodyLength ,
// c
}")).
Eval vm_compute in ("<<<M4268>>>" ++ check (runes_of_ascii "root packet metadata {
    u16 len @lengthOf(As) `crlf
    line`,// trailing space 
    uint8 u8x `crlf
    line`,
}")).
Eval vm_compute in ("<<<M1214>>>" ++ check (runes_of_ascii "
MetaData metadata { u128 f32a , i16 _x , float64
    rootA `" ++ [28040; 24687; 31867; 22411]%N ++ runes_of_ascii "`,pack u, /// triple
u32 Z9_ , u16 float, } // c")).
Eval vm_compute in ("<<<M3022>>>" ++ check (runes_of_ascii "packet A {
  match k as n {
    [""a"", ""bb"", 007, ""d"", ""e"", 66, ""g"", ""h"", 9, ""j"", ""k"", 12] : B
    2 : C
  },
}")).
Eval vm_compute in ("<<<M3346>>>" ++ check (runes_of_ascii "MetaData float { uint8 BodyLength , } MetaData charz { float32 trueish `a\` , i16 // c
metadata `say ""hi""` , }")).
Eval vm_compute in ("<<<M1761>>>" ++ check (runes_of_ascii "options { } packet Packet{char[] i64_ ,
@tag(
    255) match
crc as i8i8{""{,}"" : trueish """" : Pad , ""a\\""")).
Eval vm_compute in ("<<<M733>>>" ++ check (runes_of_ascii "options {
// a // b
//x
o = ""a\""b""
; metadata
= char[ 007 ] ;
    // trailing space 
    Pad
=""\" ++ [233]%N ++ runes_of_ascii """
}
")).
Eval vm_compute in ("<<<M1910>>>" ++ check (runes_of_ascii "packet	packetx { // trailing space 
x_y_z
{
string
charz ,
string x// @lengthOf(
`two words`
    ,")).
Eval vm_compute in ("<<<M326>>>" ++ check (runes_of_ascii "  options {	leftPad // a // b
=
true ;
// 50% %s
// a // b
string_='0' ; x
= '0'
crc =	""\" ++ [233]%N ++ runes_of_ascii """
}
")).
Eval vm_compute in ("<<<M1746>>>" ++ check (runes_of_ascii "options { } packet Packet{char[] i64_ ,
@tag(
    255) match
crc as i8i8{""{,}"" : trueish """" :")).
Eval vm_compute in ("<<<M2255>>>" ++ check (runes_of_ascii "MetaData _x {string x `// not a comment` , string
i64_ // trailing space 
`a\` `a\` ,
    }
")).
Eval vm_compute in ("<<<M1411>>>" ++ check (runes_of_ascii "root packet SimpleMessage {
    uint16 MsgType `" ++ [28040; 24687; 31867; 22411]%N ++ runes_of_ascii "`,
    string JsonBody `Json" ++ [23383; 31526; 20018; 28040; 24687; 20307]%N ++ runes_of_ascii "`,
}")).
Eval vm_compute in ("<<<M2282>>>" ++ check (runes_of_ascii "MetaData _x " ++ [8232]%N ++ runes_of_ascii "{string x `// not a comment` , string
i64_ // trailing space 
`a\` ,
    }
")).
Eval vm_compute in ("<<<M2964>>>" ++ check (runes_of_ascii "packet A {
  match k as n {
    [1, ""bb"", 007, ""d"", 5, ""f"", 7, ""h""] : B
    2 : C
  },
}")).
Eval vm_compute in ("<<<M4232>>>" ++ check (runes_of_ascii "packet A {
    Inner {
        match k as n {
            [1] : B,
        },
    },
}")).
Eval vm_compute in ("<<<M671>>>" ++ check (runes_of_ascii "MetaData pack
// trailing space 
// a // b
{ uint8
x // a // b
,
string
chars , }
")).
Eval vm_compute in ("<<<M2940>>>" ++ check (runes_of_ascii "packet A {
  match k as n {
    [""a"", 22, ""c c"", 4, ""e"", 66] : B
    2 : C
  },
}")).
Eval vm_compute in ("<<<M1282>>>" ++ check (runes_of_ascii "
MetaData
A// trailing space 
{ asx rootA,
    int8 string_ , body string_ , }
")).
Eval vm_compute in ("<<<M3363>>>" ++ check (runes_of_ascii "
// c
MetaData _x { f64 charz `tab	here` , } options { BodyLength = """ ++ [233]%N ++ runes_of_ascii "t" ++ [233]%N ++ runes_of_ascii """ ; }")).
Eval vm_compute in ("<<<M3379>>>" ++ check (runes_of_ascii "MetaData _x { f64 charz `tab	here` , }
// c
options { BodyLength = """ ++ [233]%N ++ runes_of_ascii "t" ++ [233]%N ++ runes_of_ascii """ ; }")).
Eval vm_compute in ("<<<M2918>>>" ++ check (runes_of_ascii "packet A {
  match k as n {
    [""a"", ""bb"", 007, ""d""] : B
    2 : C
  },
}")).
Eval vm_compute in ("<<<M2897>>>" ++ check (runes_of_ascii "packet A {
  match k as n {
    [""a"", ""bb"", ""c c""] : B
    2 : C
  },
}")).
Eval vm_compute in ("<<<M1895>>>" ++ check (runes_of_ascii "packet	packetx { // trailing space 
x_y_z
{
string
charz ,
string")).
Eval vm_compute in ("<<<M3425>>>" ++ check (runes_of_ascii "packet o { @tag( 4294967296 ) options1 @lengthOf( u8x ) `" ++ [233]%N ++ runes_of_ascii "` ,
// c
}")).
Eval vm_compute in ("<<<M2958>>>" ++ check (runes_of_ascii "packet A { Inner { match k as n { [1,22,007,4,5,66,7] : B, }, }, }")).
Eval vm_compute in ("<<<M793>>>" ++ check (runes_of_ascii "//	t
options {
chars =' 'a1  = false
x  = i32 ; msg_type= ""1""
}")).
Eval vm_compute in ("<<<M4473>>>" ++ check (runes_of_ascii "MetaData M {
    u8 x `a
        b`,
    T t `a
        b`,
}")).
Eval vm_compute in ("<<<M2625>>>" ++ check (runes_of_ascii "packet A { match k as n { 1 : B 2 : C ""s"" : D [1] : E }, }")).
Eval vm_compute in ("<<<M4446>>>" ++ check (runes_of_ascii "  packet u8x{ 
        // " ++ [27880; 37322]%N ++ runes_of_ascii "
	// packet A { u8 x, }
	}
")).
Eval vm_compute in ("<<<M1355>>>" ++ check (runes_of_ascii "// " ++ [128512]%N ++ runes_of_ascii " emoji
MetaData u {int	Foo, f32a stringy ``,
} 	 ")).
Eval vm_compute in ("<<<M3927>>>" ++ check (runes_of_ascii "MetaData crc {
    /// triple
    MetaDataX i64_,
}")).
Eval vm_compute in ("<<<M2341>>>" ++ check (runes_of_ascii "
MetaData Pad{
u32 root#A `line1
line2` ,
    }
")).
Eval vm_compute in ("<<<M303>>>" ++ check (runes_of_ascii "MetaData repeatCount
{ // `tick` ""quote"" 'q'
}
")).
Eval vm_compute in ("<<<M2347>>>" ++ check (runes_of_ascii "
MetaData Pad{
u32 " ++ [21517; 23383]%N ++ runes_of_ascii " `line1
line2` ,
    }
")).
Eval vm_compute in ("<<<M2621>>>" ++ check (runes_of_ascii "packet A { B { match k as n { 1 : C }, }, }")).
Eval vm_compute in ("<<<M3082>>>" ++ check (runes_of_ascii "MetaData M {
    u8 x `%`,
    T t `%`,
}")).
Eval vm_compute in ("<<<M3247>>>" ++ check (runes_of_ascii "MetaData zchar { zchar[ 3 ] Pad , // c
}")).
Eval vm_compute in ("<<<M750>>>" ++ check (runes_of_ascii "options{ asx = u64 ; string_ = 10 }
")).
Eval vm_compute in ("<<<M3196>>>" ++ check (runes_of_ascii "options { a = 1 // c b = 2; // d}")).
Eval vm_compute in ("<<<M2604>>>" ++ check (runes_of_ascii "packet A { string x @lengthOf(y) }")).
Eval vm_compute in ("<<<M3480>>>" ++ check (runes_of_ascii "
root	packet P
{ string  s 
,  }")).
Eval vm_compute in ("<<<M3807>>>" ++ check (runes_of_ascii "
packet

    A
    {	}// c" ++ [8192]%N ++ runes_of_ascii "
")).
Eval vm_compute in ("<<<M2785>>>" ++ check (runes_of_ascii "32z2Ts'tEZ!#DsS}:hBW/j5A6@W_f")).
Eval vm_compute in ("<<<M2668>>>" ++ check (runes_of_ascii "MetaData M { repeat u8 x, }")).
Eval vm_compute in ("<<<M126>>>" ++ check (runes_of_ascii "packet calculatedFrom { }")).
Eval vm_compute in ("<<<M2687>>>" ++ check (runes_of_ascii "options { options = 1; }")).
Eval vm_compute in ("<<<M4077>>>" ++ check (runes_of_ascii "// a
// b
packet A {
}")).
Eval vm_compute in ("<<<M4350>>>" ++ check (runes_of_ascii "
packet

A {  }// c")).
Eval vm_compute in ("<<<M183>>>" ++ check (runes_of_ascii "// " ++ [27880; 37322]%N ++ runes_of_ascii "

// " ++ [128512]%N ++ runes_of_ascii " emoji
")).
Eval vm_compute in ("<<<M3160>>>" ++ check (runes_of_ascii "// c" ++ [11]%N ++ runes_of_ascii "
packet A {
}")).
Eval vm_compute in ("<<<M2704>>>" ++ check (runes_of_ascii "// only a comment")).
Eval vm_compute in ("<<<M2679>>>" ++ check (runes_of_ascii "options { a 1; }")).
Eval vm_compute in ("<<<M2649>>>" ++ check (runes_of_ascii "packet A { } }")).
Eval vm_compute in ("<<<M4497>>>" ++ check (runes_of_ascii "// " ++ [128512]%N ++ runes_of_ascii " emoji
")).
Eval vm_compute in ("<<<M2500>>>" ++ check (runes_of_ascii "@rightPad")).
Eval vm_compute in ("<<<M2468>>>" ++ check (runes_of_ascii "trueish")).
Eval vm_compute in ("<<<M3168>>>" ++ check (runes_of_ascii "// c 	")).
Eval vm_compute in ("<<<M3123>>>" ++ check (runes_of_ascii "// c" ++ [5760]%N)).
Eval vm_compute in ("<<<M2561>>>" ++ check (runes_of_ascii "{}{}")).
Eval vm_compute in ("<<<M2552>>>" ++ check (runes_of_ascii "a.b")).
Eval vm_compute in ("<<<M2575>>>" ++ check ([233]%N ++ runes_of_ascii "a")).
